import StorageModel.C10.ParseProofs
/-
  C10 — completeness of the reference recogniser: every well-formed derivation tree's yield is
  accepted by `parseStart` (with the fuel `parseStart` uses).

  The grammar is ambiguous (`a and b and c`, `not a and b`) and the recogniser is deterministic and
  greedy, so the tree found is in general not the given one.  The proof goes through the
  continuation form of `parseBool`: for every well-formed `e` and every continuation of the input
  that is either a proper follow of a boolean expression (`stopOK`) or a separator `WS+ (AND|OR) WS+`
  followed by something `parseBool` accepts, `parseBool` accepts `e.yield ++ continuation` and ends
  where the continuation ends.  Fuel thresholds are explicit (`cost`), and bounded by twice the
  number of tokens.
-/
namespace StorageModel.C10

/-! ## white space -/

theorem spanWS_append (w : WSs) (t : Token) (r : List Token) (hw : allWS w = true) (ht : isWS t = false) :
    spanWS (w ++ t :: r) = (w, t :: r) := by
  induction w with
  | nil => simp [spanWS, ht]
  | cons x xs ih =>
    rw [allWS_cons, Bool.and_eq_true] at hw
    simp [spanWS, hw.1, ih hw.2]

theorem spanWS_nonws (t : Token) (r : List Token) (ht : isWS t = false) : spanWS (t :: r) = ([], t :: r) :=
  spanWS_append [] t r rfl ht

theorem spanWS_all (w : WSs) (hw : allWS w = true) : spanWS w = (w, []) := by
  induction w with
  | nil => rfl
  | cons x xs ih =>
    rw [allWS_cons, Bool.and_eq_true] at hw
    simp [spanWS, hw.1, ih hw.2]

theorem notWS_of_kind {t : Token} {k : TK} (h : kindIs t k = true) (hk : k ≠ .WS) : isWS t = false := by
  simp only [kindIs, beq_iff_eq] at h
  simp [isWS, h, hk]

/-- the first token of a list is not white space (and the list is not empty) -/
def startsNonWS (ts : List Token) : Prop := ∃ t r, ts = t :: r ∧ isWS t = false

theorem startsNonWS_append {a : List Token} (b : List Token) (h : startsNonWS a) : startsNonWS (a ++ b) := by
  obtain ⟨t, r, rfl, ht⟩ := h
  exact ⟨t, r ++ b, rfl, ht⟩

theorem spanWS_append' (w : WSs) (ts : List Token) (hw : allWS w = true) (h : startsNonWS ts) :
    spanWS (w ++ ts) = (w, ts) := by
  obtain ⟨t, r, rfl, ht⟩ := h
  exact spanWS_append w t r hw ht

/-- the kind of the first token after leading white space, and whether there was white space -/
def nextTok (ts : List Token) : Option (Bool × TK) :=
  match spanWS ts with
  | (_, []) => none
  | (w, t :: _) => some (!w.isEmpty, t.kind)

theorem nextTok_append (w : WSs) (t : Token) (r : List Token) (hw : allWS w = true) (ht : isWS t = false) :
    nextTok (w ++ t :: r) = some (!w.isEmpty, t.kind) := by
  simp [nextTok, spanWS_append w t r hw ht]

/-- what may follow a complete query: end of input or `WS* RPAREN` -/
def qStop (rest : List Token) : Prop := nextTok rest = none ∨ ∃ b, nextTok rest = some (b, .RPAREN)

/-! ## arrays -/

theorem parseArrMore_complete (k : TK) (hk : k ≠ .WS) : ∀ (more : List (WSs × Token × WSs × Token)) (n : Nat) (rest : List Token),
    more.all (fun m => allWS m.1 && kindIs m.2.1 .COMMA && allWS m.2.2.1 && kindIs m.2.2.2 k) = true →
    more.length ≤ n → (∀ b, nextTok rest ≠ some (b, .COMMA)) →
    parseArrMore k n ((more.flatMap fun m => m.1 ++ m.2.1 :: m.2.2.1 ++ [m.2.2.2]) ++ rest) = (more, rest)
  | [], n, rest, _, _, hr => by
    cases n with
    | zero => simp [parseArrMore]
    | succ n =>
      simp only [List.flatMap_nil, List.nil_append, parseArrMore]
      cases hs : spanWS rest with
      | mk wa r =>
        cases r with
        | nil => rfl
        | cons c r1 =>
          have : c.kind ≠ .COMMA := by
            intro hc
            exact hr (!wa.isEmpty) (by simp [nextTok, hs, hc])
          simp [this]
  | m :: more, n, rest, h, hn, hr => by
    obtain ⟨wa, c, wb, x⟩ := m
    simp only [List.all_cons, Bool.and_eq_true] at h
    obtain ⟨⟨⟨⟨h1, h2⟩, h3⟩, h4⟩, h5⟩ := h
    cases n with
    | zero => simp at hn
    | succ n =>
      have hc : isWS c = false := notWS_of_kind h2 (by decide)
      have hx : isWS x = false := notWS_of_kind h4 hk
      have e1 : (List.flatMap (fun m => m.1 ++ m.2.1 :: m.2.2.1 ++ [m.2.2.2]) ((wa, c, wb, x) :: more)) ++ rest =
          wa ++ c :: (wb ++ x :: ((more.flatMap fun m => m.1 ++ m.2.1 :: m.2.2.1 ++ [m.2.2.2]) ++ rest)) := by
        simp [List.flatMap_cons]
      have ih := parseArrMore_complete k hk more n rest h5 (by simpa using hn) hr
      rw [e1]
      simp only [parseArrMore, spanWS_append wa c _ h1 hc, spanWS_append wb x _ h3 hx]
      simp only [kindIs, beq_iff_eq] at h2 h4
      rw [ih]
      simp [h2, h4]

theorem parseArr_complete (a : ArrTree) (h : a.wf = true) (rest : List Token) :
    parseArr (a.yield ++ rest) = some (a, rest) := by
  simp only [ArrTree.wf, Bool.and_eq_true] at h
  obtain ⟨⟨⟨⟨⟨h1, h2⟩, h3⟩, h4⟩, h5⟩, h6⟩ := h
  have hkne : a.kind.tk ≠ .WS := by cases a.kind <;> decide
  have hx : isWS a.first = false := notWS_of_kind h3 hkne
  have hrb : isWS a.rb = false := notWS_of_kind h6 (by decide)
  have e1 : a.yield ++ rest = a.lb :: (a.w0 ++ a.first ::
      ((a.more.flatMap fun m => m.1 ++ m.2.1 :: m.2.2.1 ++ [m.2.2.2]) ++ (a.w1 ++ a.rb :: rest))) := by
    simp [ArrTree.yield]
  have hmore := parseArrMore_complete a.kind.tk hkne a.more
    ((a.more.flatMap fun m => m.1 ++ m.2.1 :: m.2.2.1 ++ [m.2.2.2]) ++ (a.w1 ++ a.rb :: rest)).length
    (a.w1 ++ a.rb :: rest) h4 (by
      have : ∀ (l : List (WSs × Token × WSs × Token)), l.length ≤ (l.flatMap fun m => m.1 ++ m.2.1 :: m.2.2.1 ++ [m.2.2.2]).length := by
        intro l
        induction l with
        | nil => simp
        | cons m l ih => simp only [List.flatMap_cons, List.length_append, List.length_cons]; omega
      have := this a.more
      simp only [List.length_append]; omega)
    (by
      intro b hb
      rw [nextTok_append a.w1 a.rb rest h5 hrb] at hb
      simp only [kindIs, beq_iff_eq] at h6
      simp [h6] at hb)
  rw [e1]
  simp only [kindIs, beq_iff_eq] at h1 h3 h6
  simp only [parseArr, h1, spanWS_append a.w0 a.first _ h2 hx]
  have hkind : (if a.first.kind == TK.STRING then some ArrKind.str else if a.first.kind == TK.NUMBER then some ArrKind.num
      else if a.first.kind == TK.DATETIME then some ArrKind.dt else none) = some a.kind := by
    rw [h3]; cases a.kind <;> rfl
  simp only [bne_self_eq_false, Bool.false_eq_true, if_false, hkind, hmore, spanWS_append a.w1 a.rb rest h5 hrb, h6,
    beq_self_eq_true, if_true]

/-! ## sort by / skip / limit -/

/-- `rest` does not continue with `WS+ k` for a kind satisfying `p` -/
def notNext (p : TK → Bool) (rest : List Token) : Prop := ∀ k, nextTok rest = some (true, k) → p k = false

theorem parseSortField_complete (f : SortFieldTree) (h : f.wf = true) (rest : List Token)
    (hr : f.dir = none → notNext (fun k => k == .ASC || k == .DESC) rest) :
    parseSortField (f.yield ++ rest) = some (f, rest) := by
  obtain ⟨id, dir⟩ := f
  simp only [SortFieldTree.wf, Bool.and_eq_true] at h
  have hid : id.kind = .IDENTIFIER := by simpa [kindIs] using h.1
  cases dir with
  | none =>
    have hn := hr rfl
    simp only [SortFieldTree.yield, List.cons_append, List.nil_append, parseSortField, hid]
    cases hs : spanWS rest with
    | mk w r1 =>
      cases r1 with
      | nil => simp
      | cons d r2 =>
        have : (!w.isEmpty && (d.kind == TK.ASC || d.kind == TK.DESC)) = false := by
          cases hw : w.isEmpty with
          | true => simp
          | false =>
            have := hn d.kind (by simp [nextTok, hs, hw])
            simpa using this
        simp [this]
  | some wd =>
    obtain ⟨w, d⟩ := wd
    have h2 := h.2
    simp only [Bool.and_eq_true, Bool.or_eq_true, Bool.not_eq_true'] at h2
    obtain ⟨⟨hw, hne⟩, hd⟩ := h2
    have hdws : isWS d = false := by
      rcases hd with hd | hd
      · exact notWS_of_kind hd (by decide)
      · exact notWS_of_kind hd (by decide)
    have e1 : (SortFieldTree.mk id (some (w, d))).yield ++ rest = id :: (w ++ d :: rest) := by simp [SortFieldTree.yield]
    rw [e1]
    simp only [parseSortField, hid, spanWS_append w d rest hw hdws]
    simp only [kindIs, beq_iff_eq] at hd
    rcases hd with hd | hd <;> simp [hne, hd]

theorem SortFieldTree.yield_starts (f : SortFieldTree) (h : f.wf = true) :
    ∃ r, f.yield = f.ident :: r ∧ f.ident.kind = .IDENTIFIER := by
  simp only [SortFieldTree.wf, Bool.and_eq_true, kindIs, beq_iff_eq] at h
  exact ⟨_, rfl, h.1⟩

def sortMoreYield (more : List (WSs × Token × WSs × SortFieldTree)) : List Token :=
  more.flatMap fun m => m.1 ++ m.2.1 :: m.2.2.1 ++ m.2.2.2.yield

/-- follow condition of a `sortBy`: not `WS* ,` and not `WS+ ASC|DESC` -/
def sortStop (rest : List Token) : Prop :=
  (∀ b, nextTok rest ≠ some (b, .COMMA)) ∧ notNext (fun k => k == .ASC || k == .DESC) rest

theorem notNext_comma (wa : WSs) (c : Token) (r : List Token) (hw : allWS wa = true) (hc : kindIs c .COMMA = true) :
    notNext (fun k => k == .ASC || k == .DESC) (wa ++ c :: r) := by
  intro k hk
  rw [nextTok_append wa c r hw (notWS_of_kind hc (by decide))] at hk
  simp only [kindIs, beq_iff_eq] at hc
  simp only [Option.some.injEq, Prod.mk.injEq] at hk
  rw [← hk.2, hc]; rfl

theorem parseSortMore_complete : ∀ (more : List (WSs × Token × WSs × SortFieldTree)) (n : Nat) (rest : List Token),
    more.all (fun m => allWS m.1 && kindIs m.2.1 .COMMA && allWS m.2.2.1 && m.2.2.2.wf) = true →
    more.length ≤ n → sortStop rest →
    parseSortMore n (sortMoreYield more ++ rest) = (more, rest)
  | [], n, rest, _, _, hr => by
    cases n with
    | zero => simp [parseSortMore, sortMoreYield]
    | succ n =>
      simp only [sortMoreYield, List.flatMap_nil, List.nil_append, parseSortMore]
      cases hs : spanWS rest with
      | mk wa r =>
        cases r with
        | nil => rfl
        | cons c r1 =>
          have : c.kind ≠ .COMMA := by
            intro hc
            exact hr.1 (!wa.isEmpty) (by simp [nextTok, hs, hc])
          simp [this]
  | m :: more, n, rest, h, hn, hr => by
    obtain ⟨wa, c, wb, f⟩ := m
    simp only [List.all_cons, Bool.and_eq_true] at h
    obtain ⟨⟨⟨⟨h1, h2⟩, h3⟩, h4⟩, h5⟩ := h
    cases n with
    | zero => simp at hn
    | succ n =>
      have hc : isWS c = false := notWS_of_kind h2 (by decide)
      obtain ⟨fr, hfy, hfk⟩ := f.yield_starts h4
      have hfws : isWS f.ident = false := by simp [isWS, hfk]
      have ih := parseSortMore_complete more n rest h5 (by simpa using hn) hr
      -- what follows the field `f`
      have hfollow : f.dir = none → notNext (fun k => k == .ASC || k == .DESC) (sortMoreYield more ++ rest) := by
        intro _
        cases more with
        | nil => simpa [sortMoreYield] using hr.2
        | cons m2 more2 =>
          obtain ⟨wa2, c2, wb2, f2⟩ := m2
          simp only [List.all_cons, Bool.and_eq_true] at h5
          have : sortMoreYield ((wa2, c2, wb2, f2) :: more2) ++ rest =
              wa2 ++ c2 :: (wb2 ++ f2.yield ++ (sortMoreYield more2 ++ rest)) := by
            simp [sortMoreYield, List.flatMap_cons]
          rw [this]
          exact notNext_comma wa2 c2 _ h5.1.1.1.1 h5.1.1.1.2
      have hf := parseSortField_complete f h4 (sortMoreYield more ++ rest) hfollow
      have e1 : sortMoreYield ((wa, c, wb, f) :: more) ++ rest =
          wa ++ c :: (wb ++ (f.yield ++ (sortMoreYield more ++ rest))) := by
        simp [sortMoreYield, List.flatMap_cons]
      rw [e1]
      have hsp2 : spanWS (wb ++ (f.yield ++ (sortMoreYield more ++ rest))) = (wb, f.yield ++ (sortMoreYield more ++ rest)) := by
        rw [hfy]; exact spanWS_append wb f.ident _ h3 hfws
      simp only [parseSortMore, spanWS_append wa c _ h1 hc, hsp2, hf, ih]
      simp only [kindIs, beq_iff_eq] at h2
      simp [h2]

theorem sortMore_length (more : List (WSs × Token × WSs × SortFieldTree)) : more.length ≤ (sortMoreYield more).length := by
  induction more with
  | nil => simp [sortMoreYield]
  | cons m l ih =>
    simp only [sortMoreYield, List.flatMap_cons, List.length_append, List.length_cons] at ih ⊢; omega

theorem parseSortBy_complete (s : SortByTree) (h : s.wf = true) (rest : List Token) (hr : sortStop rest) :
    parseSortBy (s.yield ++ rest) = some (s, rest) := by
  simp only [SortByTree.wf, Bool.and_eq_true, Bool.not_eq_true'] at h
  obtain ⟨⟨⟨⟨⟨⟨⟨h1, h2⟩, h3⟩, h4⟩, h5⟩, h6⟩, h7⟩, h8⟩ := h
  obtain ⟨fr, hfy, hfk⟩ := s.first.yield_starts h7
  have hfws : isWS s.first.ident = false := by simp [isWS, hfk]
  have hby : isWS s.by_ = false := notWS_of_kind h4 (by decide)
  have e1 : s.yield ++ rest = s.sort :: (s.w0 ++ s.by_ :: (s.w1 ++ (s.first.yield ++ (sortMoreYield s.more ++ rest)))) := by
    simp [SortByTree.yield, sortMoreYield]
  have hfollow : s.first.dir = none → notNext (fun k => k == .ASC || k == .DESC) (sortMoreYield s.more ++ rest) := by
    intro _
    cases hm : s.more with
    | nil => simpa [sortMoreYield] using hr.2
    | cons m2 more2 =>
      obtain ⟨wa2, c2, wb2, f2⟩ := m2
      rw [hm] at h8
      simp only [List.all_cons, Bool.and_eq_true] at h8
      have : sortMoreYield ((wa2, c2, wb2, f2) :: more2) ++ rest =
          wa2 ++ c2 :: (wb2 ++ f2.yield ++ (sortMoreYield more2 ++ rest)) := by
        simp [sortMoreYield, List.flatMap_cons]
      rw [this]
      exact notNext_comma wa2 c2 _ h8.1.1.1.1 h8.1.1.1.2
  have hf := parseSortField_complete s.first h7 (sortMoreYield s.more ++ rest) hfollow
  have hmore := parseSortMore_complete s.more (sortMoreYield s.more ++ rest).length rest h8
    (by have := sortMore_length s.more; simp only [List.length_append]; omega) hr
  have hsp2 : spanWS (s.w1 ++ (s.first.yield ++ (sortMoreYield s.more ++ rest))) = (s.w1, s.first.yield ++ (sortMoreYield s.more ++ rest)) := by
    rw [hfy]; exact spanWS_append s.w1 s.first.ident _ h5 hfws
  rw [e1]
  simp only [kindIs, beq_iff_eq] at h1 h4
  simp only [parseSortBy, h1, spanWS_append s.w0 s.by_ _ h2 hby, h3, h4, hsp2, h6, hf, hmore]
  simp

theorem parseKwNum_complete (kw : TK) (ks : List TK) (k : KwNumTree) (hkw : kindIs k.kw kw = true) (hw : allWS k.w = true)
    (hne : k.w.isEmpty = false) (harg : ks.contains k.arg.kind = true) (hargws : isWS k.arg = false) (rest : List Token) :
    parseKwNum kw ks (k.yield ++ rest) = some (k, rest) := by
  have e1 : k.yield ++ rest = k.kw :: (k.w ++ k.arg :: rest) := by simp [KwNumTree.yield]
  rw [e1]
  simp only [kindIs, beq_iff_eq] at hkw
  simp only [parseKwNum, hkw, spanWS_append k.w k.arg rest hw hargws, hne, harg]
  simp

theorem parseSkip_complete (k : KwNumTree) (h : skipWf k = true) (rest : List Token) :
    parseSkip (k.yield ++ rest) = some (k, rest) := by
  simp only [skipWf, Bool.and_eq_true, Bool.not_eq_true'] at h
  have ha : k.arg.kind = .NUMBER := by simpa [kindIs] using h.2
  exact parseKwNum_complete _ _ k h.1.1.1 h.1.1.2 h.1.2 (by simp [ha]) (by simp [isWS, ha]) rest

theorem parseLimit_complete (k : KwNumTree) (h : limitWf k = true) (rest : List Token) :
    parseLimit (k.yield ++ rest) = some (k, rest) := by
  simp only [limitWf, Bool.and_eq_true, Bool.or_eq_true, Bool.not_eq_true'] at h
  rcases h.2 with ha | ha
  · have ha : k.arg.kind = .NUMBER := by simpa [kindIs] using ha
    exact parseKwNum_complete _ _ k h.1.1.1 h.1.1.2 h.1.2 (by simp [ha]) (by simp [isWS, ha]) rest
  · have ha : k.arg.kind = .NONE := by simpa [kindIs] using ha
    exact parseKwNum_complete _ _ k h.1.1.1 h.1.1.2 h.1.2 (by simp [ha]) (by simp [isWS, ha]) rest

/-- `(WS+ X)?` present -/
theorem parseOptWs_some {α} (first : TK) (p : List Token → Option (α × List Token)) (y : α → List Token)
    (w : WSs) (a : α) (rest : List Token) (hw : allWS w = true) (hne : w.isEmpty = false)
    (hy : ∃ t r, y a = t :: r ∧ t.kind = first) (hf : first ≠ .WS) (hp : p (y a ++ rest) = some (a, rest)) :
    parseOptWs first p (optYield y (some (w, a)) ++ rest) = some (some (w, a), rest) := by
  obtain ⟨t, r, hya, htk⟩ := hy
  have htws : isWS t = false := by simp [isWS, htk, hf]
  have e1 : optYield y (some (w, a)) ++ rest = w ++ t :: (r ++ rest) := by simp [optYield, hya]
  have e2 : y a ++ rest = t :: (r ++ rest) := by simp [hya]
  rw [e2] at hp
  rw [e1]
  simp only [parseOptWs, spanWS_append w t _ hw htws, hne, htk, hp]
  simp

/-- `(WS+ X)?` absent -/
theorem parseOptWs_none {α} (first : TK) (p : List Token → Option (α × List Token)) (rest : List Token)
    (hr : nextTok rest ≠ some (true, first)) :
    parseOptWs first p rest = some (none, rest) := by
  simp only [parseOptWs]
  cases hs : spanWS rest with
  | mk w r =>
    cases r with
    | nil => rfl
    | cons t r1 =>
      have : (!w.isEmpty && t.kind == first) = false := by
        cases hw : w.isEmpty with
        | true => simp
        | false =>
          have : t.kind ≠ first := by
            intro hk; exact hr (by simp [nextTok, hs, hw, hk])
          simp [this]
      simp [this]

/-! ## the tail of a query -/

/-- after leading white space: nothing, `RPAREN`, or — after at least one white space — one of `allowed` -/
def nextOK (allowed : List TK) (ts : List Token) : Prop :=
  match nextTok ts with
  | none => True
  | some (b, k) => k = .RPAREN ∨ (b = true ∧ k ∈ allowed)

theorem qStop_iff (rest : List Token) : qStop rest ↔ nextOK [] rest := by
  unfold qStop nextOK
  cases nextTok rest with
  | none => simp
  | some bk => obtain ⟨b, k⟩ := bk; simp

theorem nextOK_mono {A B : List TK} {ts : List Token} (h : nextOK A ts) (hs : ∀ k ∈ A, k ∈ B) : nextOK B ts := by
  unfold nextOK at *
  cases hn : nextTok ts with
  | none => trivial
  | some bk =>
    obtain ⟨b, k⟩ := bk
    rw [hn] at h
    rcases h with h | ⟨h1, h2⟩
    · exact .inl h
    · exact .inr ⟨h1, hs k h2⟩

theorem nextOK_opt {α} (y : α → List Token) (k : TK) (hk : k ≠ .WS) (A : List TK) (o : Option (WSs × α)) (rest : List Token)
    (ho : ∀ w a, o = some (w, a) → allWS w = true ∧ w.isEmpty = false ∧ ∃ t r, y a = t :: r ∧ t.kind = k)
    (hr : nextOK A rest) : nextOK (k :: A) (optYield y o ++ rest) := by
  cases o with
  | none => exact nextOK_mono hr (fun x hx => List.mem_cons_of_mem _ hx)
  | some wa =>
    obtain ⟨w, a⟩ := wa
    obtain ⟨hw, hne, t, r, hya, htk⟩ := ho w a rfl
    have e1 : optYield y (some (w, a)) ++ rest = w ++ t :: (r ++ rest) := by simp [optYield, hya]
    unfold nextOK
    rw [e1, nextTok_append w t _ hw (by simp [isWS, htk, hk])]
    simp [hne, htk]

theorem sortStop_of_nextOK {A : List TK} {ts : List Token} (h : nextOK A ts)
    (hA : ∀ k ∈ A, k ≠ .COMMA ∧ k ≠ .ASC ∧ k ≠ .DESC) : sortStop ts := by
  unfold nextOK at h
  constructor
  · intro b hb
    rw [hb] at h
    rcases h with h | ⟨_, h2⟩
    · cases h
    · exact (hA _ h2).1 rfl
  · intro k hk
    rw [hk] at h
    rcases h with h | ⟨_, h2⟩
    · subst h; rfl
    · have := hA _ h2
      simp [this.2.1, this.2.2]

theorem notFirst_of_nextOK {A : List TK} {ts : List Token} (first : TK) (h : nextOK A ts) (h1 : first ≠ .RPAREN)
    (h2 : first ∉ A) : nextTok ts ≠ some (true, first) := by
  intro hn
  unfold nextOK at h
  rw [hn] at h
  rcases h with h | ⟨_, h⟩
  · exact h1 h
  · exact h2 h

theorem SortByTree.yield_starts (s : SortByTree) (h : s.wf = true) : ∃ t r, s.yield = t :: r ∧ t.kind = .SORT := by
  simp only [SortByTree.wf, Bool.and_eq_true, kindIs, beq_iff_eq] at h
  exact ⟨s.sort, _, rfl, h.1.1.1.1.1.1.1⟩

theorem skip_yield_starts (k : KwNumTree) (h : skipWf k = true) : ∃ t r, k.yield = t :: r ∧ t.kind = .SKIP_ROWS := by
  simp only [skipWf, Bool.and_eq_true, kindIs, beq_iff_eq] at h
  exact ⟨k.kw, _, rfl, h.1.1.1⟩

theorem limit_yield_starts (k : KwNumTree) (h : limitWf k = true) : ∃ t r, k.yield = t :: r ∧ t.kind = .LIMIT_ROWS := by
  simp only [limitWf, Bool.and_eq_true, kindIs, beq_iff_eq] at h
  exact ⟨k.kw, _, rfl, h.1.1.1⟩

theorem optWf_parts {α} {wf : α → Bool} {o : Option (WSs × α)} (h : optWf wf o = true) :
    ∀ w a, o = some (w, a) → allWS w = true ∧ w.isEmpty = false ∧ wf a = true := by
  intro w a ho
  subst ho
  simp only [optWf, Bool.and_eq_true, Bool.not_eq_true'] at h
  exact ⟨h.1.1, h.1.2, h.2⟩

/-- `(WS+ skip)? (WS+ limit)?` followed by a query follow -/
theorem parseSkipLimit_complete (sk li : Option (WSs × KwNumTree)) (hsk : optWf skipWf sk = true) (hli : optWf limitWf li = true)
    (rest : List Token) (hr : qStop rest) :
    parseOptWs .SKIP_ROWS parseSkip (optYield KwNumTree.yield sk ++ (optYield KwNumTree.yield li ++ rest)) =
      some (sk, optYield KwNumTree.yield li ++ rest) ∧
    parseOptWs .LIMIT_ROWS parseLimit (optYield KwNumTree.yield li ++ rest) = some (li, rest) ∧
    nextOK [.SKIP_ROWS, .LIMIT_ROWS] (optYield KwNumTree.yield sk ++ (optYield KwNumTree.yield li ++ rest)) := by
  have h0 : nextOK [] rest := (qStop_iff rest).mp hr
  have h1 : nextOK [.LIMIT_ROWS] (optYield KwNumTree.yield li ++ rest) :=
    nextOK_opt KwNumTree.yield .LIMIT_ROWS (by decide) [] li rest
      (fun w a ho => by
        obtain ⟨a1, a2, a3⟩ := optWf_parts hli w a ho
        exact ⟨a1, a2, limit_yield_starts a a3⟩) h0
  have h2 : nextOK [.SKIP_ROWS, .LIMIT_ROWS] (optYield KwNumTree.yield sk ++ (optYield KwNumTree.yield li ++ rest)) :=
    nextOK_opt KwNumTree.yield .SKIP_ROWS (by decide) [.LIMIT_ROWS] sk _
      (fun w a ho => by
        obtain ⟨a1, a2, a3⟩ := optWf_parts hsk w a ho
        exact ⟨a1, a2, skip_yield_starts a a3⟩) h1
  refine ⟨?_, ?_, h2⟩
  · cases sk with
    | none => exact parseOptWs_none _ _ _ (notFirst_of_nextOK .SKIP_ROWS h1 (by decide) (by decide))
    | some wa =>
      obtain ⟨w, a⟩ := wa
      obtain ⟨a1, a2, a3⟩ := optWf_parts hsk w a rfl
      exact parseOptWs_some .SKIP_ROWS parseSkip KwNumTree.yield w a _ a1 a2 (skip_yield_starts a a3) (by decide)
        (parseSkip_complete a a3 _)
  · cases li with
    | none => exact parseOptWs_none _ _ _ (notFirst_of_nextOK .LIMIT_ROWS h0 (by decide) (by decide))
    | some wa =>
      obtain ⟨w, a⟩ := wa
      obtain ⟨a1, a2, a3⟩ := optWf_parts hli w a rfl
      exact parseOptWs_some .LIMIT_ROWS parseLimit KwNumTree.yield w a _ a1 a2 (limit_yield_starts a a3) (by decide)
        (parseLimit_complete a a3 _)

theorem parseTail_complete (t : TailTree) (h : t.wf = true) (rest : List Token) (hr : qStop rest) :
    parseTail (t.yield ++ rest) = some (t, rest) ∧ nextOK [.SORT, .SKIP_ROWS, .LIMIT_ROWS] (t.yield ++ rest) := by
  obtain ⟨sb, sk, li⟩ := t
  simp only [TailTree.wf, Bool.and_eq_true] at h
  obtain ⟨⟨hsb, hsk⟩, hli⟩ := h
  obtain ⟨p1, p2, p3⟩ := parseSkipLimit_complete sk li hsk hli rest hr
  have e1 : (TailTree.mk sb sk li).yield ++ rest =
      optYield SortByTree.yield sb ++ (optYield KwNumTree.yield sk ++ (optYield KwNumTree.yield li ++ rest)) := by
    simp [TailTree.yield]
  have h3 : nextOK [.SORT, .SKIP_ROWS, .LIMIT_ROWS] (optYield SortByTree.yield sb ++ (optYield KwNumTree.yield sk ++ (optYield KwNumTree.yield li ++ rest))) :=
    nextOK_opt SortByTree.yield .SORT (by decide) _ sb _
      (fun w a ho => by
        obtain ⟨a1, a2, a3⟩ := optWf_parts hsb w a ho
        exact ⟨a1, a2, a.yield_starts a3⟩) p3
  rw [e1]
  refine ⟨?_, h3⟩
  have q1 : parseOptWs .SORT parseSortBy (optYield SortByTree.yield sb ++ (optYield KwNumTree.yield sk ++ (optYield KwNumTree.yield li ++ rest))) =
      some (sb, optYield KwNumTree.yield sk ++ (optYield KwNumTree.yield li ++ rest)) := by
    cases sb with
    | none => exact parseOptWs_none _ _ _ (notFirst_of_nextOK .SORT p3 (by decide) (by decide))
    | some wa =>
      obtain ⟨w, a⟩ := wa
      obtain ⟨a1, a2, a3⟩ := optWf_parts hsb w a rfl
      exact parseOptWs_some .SORT parseSortBy SortByTree.yield w a _ a1 a2 (a.yield_starts a3) (by decide)
        (parseSortBy_complete a a3 _ (sortStop_of_nextOK p3 (by decide)))
  simp only [parseTail, q1, p1, p2]

/-! ## operations -/

theorem ArrTree.yield_starts (a : ArrTree) (h : a.wf = true) : ∃ r, a.yield = a.lb :: r ∧ a.lb.kind = .LBRACKET := by
  simp only [ArrTree.wf, Bool.and_eq_true, kindIs, beq_iff_eq] at h
  exact ⟨_, rfl, h.1.1.1.1.1⟩

theorem opRest_inArr (lhs : LhsTree) (w0 : WSs) (op : Token) (w1 : WSs) (arr : ArrTree) (rest : List Token)
    (h2 : allWS w0 = true) (h3 : w0.isEmpty = false) (h4 : kindIs op .IN = true) (h5 : allWS w1 = true)
    (h6 : w1.isEmpty = false) (h7 : arr.wf = true) :
    parseOpRest lhs (w0 ++ op :: (w1 ++ (arr.yield ++ rest))) = some (.inArr lhs w0 op w1 arr, rest) ∧
    opFollows (w0 ++ op :: (w1 ++ (arr.yield ++ rest))) = true := by
  have hop : isWS op = false := notWS_of_kind h4 (by decide)
  obtain ⟨ar, hay, hak⟩ := arr.yield_starts h7
  have hsp : spanWS (w1 ++ (arr.yield ++ rest)) = (w1, arr.yield ++ rest) := by
    rw [hay]; exact spanWS_append w1 arr.lb _ h5 (by simp [isWS, hak])
  simp only [kindIs, beq_iff_eq] at h4
  constructor
  · simp only [parseOpRest, spanWS_append w0 op _ h2 hop, hsp, h4, h3, h6, parseArr_complete arr h7 rest]
    simp
  · simp only [opFollows, spanWS_append w0 op _ h2 hop, h4, h3]
    simp

theorem opRest_between (lhs : LhsTree) (w0 : WSs) (op : Token) (w1 : WSs) (lo : Token) (w2 : WSs) (a : Token) (w3 : WSs)
    (hi : Token) (rest : List Token)
    (h2 : allWS w0 = true) (h3 : w0.isEmpty = false) (h4 : kindIs op .BETWEEN = true) (h5 : allWS w1 = true)
    (h6 : w1.isEmpty = false) (h7 : (kindIs lo .NUMBER || kindIs lo .DATETIME) = true) (h8 : allWS w2 = true)
    (h9 : w2.isEmpty = false) (h10 : kindIs a .AND = true) (h11 : allWS w3 = true) (h12 : w3.isEmpty = false)
    (h13 : hi.kind = lo.kind) :
    parseOpRest lhs (w0 ++ op :: (w1 ++ lo :: (w2 ++ a :: (w3 ++ hi :: rest)))) =
      some (.between lhs w0 op w1 lo w2 a w3 hi, rest) ∧
    opFollows (w0 ++ op :: (w1 ++ lo :: (w2 ++ a :: (w3 ++ hi :: rest)))) = true := by
  have hop : isWS op = false := notWS_of_kind h4 (by decide)
  have ha : isWS a = false := notWS_of_kind h10 (by decide)
  simp only [Bool.or_eq_true, kindIs, beq_iff_eq] at h7 h4 h10
  have hlo : isWS lo = false := by rcases h7 with h | h <;> simp [isWS, h]
  have hhi : isWS hi = false := by rcases h7 with h | h <;> simp [isWS, h13, h]
  constructor
  · simp only [parseOpRest, spanWS_append w0 op _ h2 hop, spanWS_append w1 lo _ h5 hlo, spanWS_append w2 a _ h8 ha,
      spanWS_append w3 hi _ h11 hhi, h4, h3, h6, h9, h12, h10, h13]
    rcases h7 with h | h <;> simp [h]
  · simp only [opFollows, spanWS_append w0 op _ h2 hop, h4, h3]
    simp

theorem opRest_binary (lhs : LhsTree) (w0 : WSs) (op : Token) (w1 : WSs) (rhs : Token) (rest : List Token)
    (h2 : allWS w0 = true) (h3 : allWS w1 = true) (h4 : rhsOk op.kind rhs.kind = true)
    (h5 : decide ((op.kind == TK.CONTAINS || op.kind == TK.ICONTAINS) = true → (!w1.isEmpty) = true) = true) :
    parseOpRest lhs (w0 ++ op :: (w1 ++ rhs :: rest)) = some (.binary lhs w0 op w1 rhs, rest) ∧
    opFollows (w0 ++ op :: (w1 ++ rhs :: rest)) = true := by
  have hopk : op.kind = .LT ∨ op.kind = .GT ∨ op.kind = .EQ ∨ op.kind = .CONTAINS ∨ op.kind = .ICONTAINS := by
    cases hk : op.kind <;> simp [rhsOk, hk] at h4 <;> simp
  have hop : isWS op = false := by rcases hopk with h | h | h | h | h <;> simp [isWS, h]
  have hrhs : isWS rhs = false := by
    cases hk : rhs.kind <;> simp [isWS, hk]
    rw [hk] at h4
    rcases hopk with h | h | h | h | h <;> simp [rhsOk, h] at h4
  constructor
  · simp only [parseOpRest, spanWS_append w0 op _ h2 hop, spanWS_append w1 rhs _ h3 hrhs]
    rcases hopk with h | h | h | h | h
    · rw [h] at h4; simp [h, h4]
    · rw [h] at h4; simp [h, h4]
    · rw [h] at h4; simp [h, h4]
    · rw [h] at h4; simp [h] at h5; simp [h, h4, h5]
    · rw [h] at h4; simp [h] at h5; simp [h, h4, h5]
  · simp only [opFollows, spanWS_append w0 op _ h2 hop]
    rcases hopk with h | h | h | h | h <;> simp [h]

/-! ## fuel -/

mutual
def BoolTree.cost : BoolTree → Nat
  | .inArr lhs _ _ _ _ => lhs.cost + 2
  | .between lhs _ _ _ _ _ _ _ _ => lhs.cost + 2
  | .binary lhs _ _ _ _ => lhs.cost + 2
  | .group _ _ e _ _ => e.cost + 2
  | .and l _ _ _ r => l.cost + r.cost
  | .or l _ _ _ r => l.cost + r.cost
  | .boolConst _ => 2
  | .isEmpty _ _ _ s _ _ => s.cost + 2
  | .symbol _ => 2
  | .not _ _ e => e.cost + 2
def LhsTree.cost : LhsTree → Nat
  | .ident _ => 0
  | .setFn _ _ _ _ _ _ => 0
  | .count _ _ _ s _ _ => s.cost
def SetExprTree.cost : SetExprTree → Nat
  | .ident _ => 1
  | .subQuery _ _ _ _ _ _ q => q.cost + 1
def QueryTree.cost : QueryTree → Nat
  | .pred e _ => e.cost + 1
  | .sort _ _ _ => 1
  | .skip _ _ => 1
  | .limit _ => 1
end

mutual
theorem BoolTree.cost_le : ∀ (e : BoolTree), e.cost ≤ 2 * e.yield.length
  | .inArr lhs w0 op w1 arr => by
    have := lhs.cost_le; simp only [BoolTree.cost, BoolTree.yield, List.length_append, List.length_cons]; omega
  | .between lhs .. => by
    have := lhs.cost_le; simp only [BoolTree.cost, BoolTree.yield, List.length_append, List.length_cons]; omega
  | .binary lhs .. => by
    have := lhs.cost_le; simp only [BoolTree.cost, BoolTree.yield, List.length_append, List.length_cons]; omega
  | .group _ _ e _ _ => by
    have := e.cost_le; simp only [BoolTree.cost, BoolTree.yield, List.length_append, List.length_cons, List.length_nil]; omega
  | .and l _ _ _ r => by
    have := l.cost_le; have := r.cost_le
    simp only [BoolTree.cost, BoolTree.yield, List.length_append, List.length_cons]; omega
  | .or l _ _ _ r => by
    have := l.cost_le; have := r.cost_le
    simp only [BoolTree.cost, BoolTree.yield, List.length_append, List.length_cons]; omega
  | .boolConst _ => by simp [BoolTree.cost, BoolTree.yield]
  | .isEmpty _ _ _ s _ _ => by
    have := s.cost_le; simp only [BoolTree.cost, BoolTree.yield, List.length_append, List.length_cons, List.length_nil]; omega
  | .symbol _ => by simp [BoolTree.cost, BoolTree.yield]
  | .not _ _ e => by
    have := e.cost_le; simp only [BoolTree.cost, BoolTree.yield, List.length_append, List.length_cons]; omega
theorem LhsTree.cost_le : ∀ (l : LhsTree), l.cost ≤ 2 * l.yield.length
  | .ident _ => by simp [LhsTree.cost]
  | .setFn .. => by simp [LhsTree.cost]
  | .count _ _ _ s _ _ => by
    have := s.cost_le; simp only [LhsTree.cost, LhsTree.yield, List.length_append, List.length_cons, List.length_nil]; omega
theorem SetExprTree.cost_le : ∀ (s : SetExprTree), s.cost ≤ 2 * s.yield.length
  | .ident _ => by simp [SetExprTree.cost, SetExprTree.yield]
  | .subQuery _ _ _ _ _ _ q => by
    have := q.cost_le; simp only [SetExprTree.cost, SetExprTree.yield, List.length_append, List.length_cons]; omega
theorem QueryTree.cost_le : ∀ (q : QueryTree), q.cost ≤ 2 * q.yield.length + 1
  | .pred e _ => by
    have := e.cost_le; simp only [QueryTree.cost, QueryTree.yield, List.length_append]; omega
  | .sort .. => by simp [QueryTree.cost]
  | .skip .. => by simp [QueryTree.cost]
  | .limit _ => by simp [QueryTree.cost]
end

/-! ## first tokens -/

/-- kinds a boolean expression can start with -/
def boolFirst (k : TK) : Bool :=
  k == .IDENTIFIER || k == .ALL_OF || k == .ANY_OF || k == .COUNT || k == .LPAREN || k == .BOOL || k == .ISEMPTY || k == .NOT

theorem LhsTree.yield_starts : ∀ (l : LhsTree), l.wf = true → ∃ t r, l.yield = t :: r ∧ boolFirst t.kind = true
  | .ident t, h => by
    simp only [LhsTree.wf, kindIs, beq_iff_eq] at h; exact ⟨t, [], rfl, by simp [boolFirst, h]⟩
  | .setFn fn _ _ _ _ _, h => by
    simp only [LhsTree.wf, Bool.and_eq_true, Bool.or_eq_true, kindIs, beq_iff_eq] at h
    refine ⟨fn, _, rfl, ?_⟩
    rcases h.1.1.1.1.1 with h | h <;> simp [boolFirst, h]
  | .count fn _ _ _ _ _, h => by
    simp only [LhsTree.wf, Bool.and_eq_true, kindIs, beq_iff_eq] at h
    exact ⟨fn, _, rfl, by simp [boolFirst, h.1.1.1.1.1]⟩

theorem BoolTree.yield_starts : ∀ (e : BoolTree), e.wf = true → ∃ t r, e.yield = t :: r ∧ boolFirst t.kind = true
  | .inArr lhs _ _ _ _, h => by
    simp only [BoolTree.wf, Bool.and_eq_true] at h
    obtain ⟨t, r, hy, hk⟩ := lhs.yield_starts h.1.1.1.1.1.1
    exact ⟨t, _, by rw [BoolTree.yield, hy]; rfl, hk⟩
  | .between lhs _ _ _ _ _ _ _ _, h => by
    simp only [BoolTree.wf, Bool.and_eq_true] at h
    obtain ⟨t, r, hy, hk⟩ := lhs.yield_starts h.1.1.1.1.1.1.1.1.1.1.1.1
    exact ⟨t, _, by rw [BoolTree.yield, hy]; rfl, hk⟩
  | .binary lhs _ _ _ _, h => by
    simp only [BoolTree.wf, Bool.and_eq_true] at h
    obtain ⟨t, r, hy, hk⟩ := lhs.yield_starts h.1.1.1.1
    exact ⟨t, _, by rw [BoolTree.yield, hy]; rfl, hk⟩
  | .group lp _ _ _ _, h => by
    simp only [BoolTree.wf, Bool.and_eq_true, kindIs, beq_iff_eq] at h
    exact ⟨lp, _, rfl, by simp [boolFirst, h.1.1.1.1]⟩
  | .and l _ _ _ _, h => by
    simp only [BoolTree.wf, Bool.and_eq_true] at h
    obtain ⟨t, r, hy, hk⟩ := l.yield_starts h.1.1.1.1.1.1
    exact ⟨t, _, by rw [BoolTree.yield, hy]; rfl, hk⟩
  | .or l _ _ _ _, h => by
    simp only [BoolTree.wf, Bool.and_eq_true] at h
    obtain ⟨t, r, hy, hk⟩ := l.yield_starts h.1.1.1.1.1.1
    exact ⟨t, _, by rw [BoolTree.yield, hy]; rfl, hk⟩
  | .boolConst t, h => by
    simp only [BoolTree.wf, kindIs, beq_iff_eq] at h; exact ⟨t, [], rfl, by simp [boolFirst, h]⟩
  | .isEmpty kw _ _ _ _ _, h => by
    simp only [BoolTree.wf, Bool.and_eq_true, kindIs, beq_iff_eq] at h
    exact ⟨kw, _, rfl, by simp [boolFirst, h.1.1.1.1.1]⟩
  | .symbol t, h => by
    simp only [BoolTree.wf, kindIs, beq_iff_eq] at h; exact ⟨t, [], rfl, by simp [boolFirst, h]⟩
  | .not kw _ _, h => by
    simp only [BoolTree.wf, Bool.and_eq_true, kindIs, beq_iff_eq] at h
    exact ⟨kw, _, rfl, by simp [boolFirst, h.1.1.1]⟩

theorem boolFirst_notWS {t : Token} (h : boolFirst t.kind = true) : isWS t = false := by
  cases hk : t.kind <;> simp [boolFirst, hk] at h <;> simp [isWS, hk]

theorem BoolTree.startsNonWS (e : BoolTree) (h : e.wf = true) : startsNonWS e.yield := by
  obtain ⟨t, r, hy, hk⟩ := e.yield_starts h
  exact ⟨t, r, hy, boolFirst_notWS hk⟩

theorem SetExprTree.startsNonWS : ∀ (s : SetExprTree), s.wf = true → startsNonWS s.yield
  | .ident t, h => by
    simp only [SetExprTree.wf] at h; exact ⟨t, [], rfl, notWS_of_kind h (by decide)⟩
  | .subQuery f _ _ _ _ _ _, h => by
    simp only [SetExprTree.wf, Bool.and_eq_true] at h
    exact ⟨f, _, rfl, notWS_of_kind h.1.1.1.1.1.1.1.1.1 (by decide)⟩

theorem QueryTree.startsNonWS : ∀ (q : QueryTree), q.wf = true → startsNonWS q.yield
  | .pred e _, h => by
    simp only [QueryTree.wf, Bool.and_eq_true] at h
    exact startsNonWS_append _ (e.startsNonWS h.1)
  | .sort s _ _, h => by
    simp only [QueryTree.wf, Bool.and_eq_true] at h
    obtain ⟨t, r, hy, hk⟩ := s.yield_starts h.1.1
    simp only [QueryTree.yield, List.append_assoc]
    exact startsNonWS_append _ ⟨t, r, hy, by simp [isWS, hk]⟩
  | .skip s _, h => by
    simp only [QueryTree.wf, Bool.and_eq_true] at h
    obtain ⟨t, r, hy, hk⟩ := skip_yield_starts s h.1
    exact startsNonWS_append _ ⟨t, r, hy, by simp [isWS, hk]⟩
  | .limit l, h => by
    simp only [QueryTree.wf] at h
    obtain ⟨t, r, hy, hk⟩ := limit_yield_starts l h
    exact ⟨t, r, hy, by simp [isWS, hk]⟩

/-! ## continuations of a boolean expression -/

def stopOK (rest : List Token) : Prop := nextOK [.SORT, .SKIP_ROWS, .LIMIT_ROWS] rest

def noBoolCont (ts : List Token) : Prop := notNext (fun k => k == .AND || k == .OR) ts

theorem noBoolCont_of_stopOK {ts : List Token} (h : stopOK ts) : noBoolCont ts := by
  intro k hk
  unfold stopOK nextOK at h
  rw [hk] at h
  rcases h with h | ⟨_, h⟩
  · subst h; rfl
  · simp only [List.mem_cons, List.mem_nil_iff, or_false] at h
    rcases h with h | h | h <;> subst h <;> rfl

/-- what follows a boolean expression inside `parseBool`: a proper follow (`stop`), or a separator
    `WS+ (AND|OR) WS+` and input that `parseBool` accepts from fuel `N` on, ending at `final` -/
inductive Cont (N : Nat) : List Token → List Token → Prop where
  | stop {rest : List Token} : stopOK rest → Cont N rest rest
  | more {w0 : WSs} {op : Token} {w1 : WSs} {r2 final : List Token} :
      allWS w0 = true → w0.isEmpty = false → (op.kind = .AND ∨ op.kind = .OR) → allWS w1 = true → w1.isEmpty = false →
      startsNonWS r2 → (∀ n, N ≤ n → ∃ e2, parseBool n r2 = some (e2, final)) → noBoolCont final →
      Cont N (w0 ++ op :: (w1 ++ r2)) final

theorem Cont.final_ok {N rest final} (c : Cont N rest final) : noBoolCont final := by
  cases c with
  | stop h => exact noBoolCont_of_stopOK h
  | more _ _ _ _ _ _ _ h => exact h

theorem opFollows_false_of_next {ts : List Token}
    (h : ∀ b k, nextTok ts = some (b, k) → k ≠ .LT ∧ k ≠ .GT ∧ k ≠ .EQ ∧ k ≠ .CONTAINS ∧ k ≠ .ICONTAINS ∧ k ≠ .IN ∧ k ≠ .BETWEEN) :
    opFollows ts = false := by
  simp only [opFollows]
  cases hs : spanWS ts with
  | mk w r =>
    cases r with
    | nil => rfl
    | cons t r1 =>
      have := h (!w.isEmpty) t.kind (by simp [nextTok, hs])
      obtain ⟨a1, a2, a3, a4, a5, a6, a7⟩ := this
      cases hk : t.kind <;> simp_all

theorem Cont.opFollows {N rest final} (c : Cont N rest final) : opFollows rest = false := by
  apply opFollows_false_of_next
  intro b k hk
  cases c with
  | stop h =>
    unfold stopOK nextOK at h
    rw [hk] at h
    rcases h with h | ⟨_, h⟩
    · subst h; decide
    · simp only [List.mem_cons, List.mem_nil_iff, or_false] at h
      rcases h with h | h | h <;> subst h <;> decide
  | @more w0 op w1 r2 _ h1 _ h3 _ _ _ _ _ =>
    have hop : isWS op = false := by rcases h3 with h | h <;> simp [isWS, h]
    rw [nextTok_append w0 op _ h1 hop] at hk
    simp only [Option.some.injEq, Prod.mk.injEq] at hk
    rcases h3 with h | h <;> (rw [← hk.2, h]; decide)

/-- after a primary: `parseBool` continues along the continuation -/
theorem parseBool_after_primary {ts r final : List Token} {l : BoolTree} {N m : Nat}
    (hp : parsePrimary m ts = some (l, r)) (c : Cont N r final) (hm : N ≤ m) :
    ∃ e', parseBool (m + 1) ts = some (e', final) := by
  simp only [parseBool, hp]
  cases c with
  | stop h =>
    cases hs : spanWS r with
    | mk w0 r1 =>
      cases r1 with
      | nil => exact ⟨l, rfl⟩
      | cons op r2 =>
        have hnb := noBoolCont_of_stopOK h
        have : (!w0.isEmpty && (op.kind == TK.AND || op.kind == TK.OR)) = false := by
          cases hw : w0.isEmpty with
          | true => simp
          | false =>
            have := hnb op.kind (by simp [nextTok, hs, hw])
            simpa using this
        simp only [this]
        exact ⟨l, rfl⟩
  | @more w0 op w1 r2 _ h1 h2 h3 h4 h5 h6 h7 _ =>
    have hop : isWS op = false := by rcases h3 with h | h <;> simp [isWS, h]
    obtain ⟨e2, he2⟩ := h7 m hm
    simp only [spanWS_append w0 op _ h1 hop, spanWS_append' w1 r2 h4 h6, h2, h5, he2]
    rcases h3 with h | h <;> simp [h]

/-- after a primary that swallowed the whole continuation (`not …`) -/
theorem parseBool_after_greedy_primary {ts final : List Token} {l : BoolTree} {m : Nat}
    (hp : parsePrimary m ts = some (l, final)) (hf : noBoolCont final) :
    parseBool (m + 1) ts = some (l, final) := by
  simp only [parseBool, hp]
  cases hs : spanWS final with
  | mk w0 r1 =>
    cases r1 with
    | nil => rfl
    | cons op r2 =>
      have : (!w0.isEmpty && (op.kind == TK.AND || op.kind == TK.OR)) = false := by
        cases hw : w0.isEmpty with
        | true => simp
        | false =>
          have := hf op.kind (by simp [nextTok, hs, hw])
          simpa using this
      simp only [this]
      rfl

theorem stopOK_rparen (w : WSs) (rp : Token) (rest : List Token) (hw : allWS w = true) (hrp : kindIs rp .RPAREN = true) :
    stopOK (w ++ rp :: rest) := by
  unfold stopOK nextOK
  rw [nextTok_append w rp rest hw (notWS_of_kind hrp (by decide))]
  simp only [kindIs, beq_iff_eq] at hrp
  simp [hrp]

theorem qStop_rparen (w : WSs) (rp : Token) (rest : List Token) (hw : allWS w = true) (hrp : kindIs rp .RPAREN = true) :
    qStop (w ++ rp :: rest) := by
  right
  refine ⟨!w.isEmpty, ?_⟩
  rw [nextTok_append w rp rest hw (notWS_of_kind hrp (by decide))]
  simp only [kindIs, beq_iff_eq] at hrp
  simp [hrp]

/-! ## the recursive core -/

theorem succ_of_le {a n : Nat} (h : a + 1 ≤ n) : ∃ m, n = m + 1 ∧ a ≤ m := ⟨n - 1, by omega, by omega⟩

mutual
theorem bool_complete : ∀ (e : BoolTree), e.wf = true → ∀ (N : Nat) (rest final : List Token), Cont N rest final →
    ∀ n, N + e.cost ≤ n → ∃ e', parseBool n (e.yield ++ rest) = some (e', final)
  | .inArr lhs w0 op w1 arr, h, N, rest, final, c, n, hn => by
    simp only [BoolTree.wf, Bool.and_eq_true, Bool.not_eq_true'] at h
    obtain ⟨⟨⟨⟨⟨⟨h1, h2⟩, h3⟩, h4⟩, h5⟩, h6⟩, h7⟩ := h
    simp only [BoolTree.cost] at hn
    obtain ⟨m, rfl, hm⟩ := succ_of_le (a := N + lhs.cost + 1) (by omega)
    obtain ⟨p, hp⟩ := lhs_complete lhs h1 (fun l' => .inArr l' w0 op w1 arr) (w0 ++ op :: (w1 ++ (arr.yield ++ rest))) rest
      (fun l' => (opRest_inArr l' w0 op w1 arr rest h2 h3 h4 h5 h6 h7).1)
      (opRest_inArr lhs w0 op w1 arr rest h2 h3 h4 h5 h6 h7).2 m (by omega)
    have e1 : (BoolTree.inArr lhs w0 op w1 arr).yield ++ rest = lhs.yield ++ (w0 ++ op :: (w1 ++ (arr.yield ++ rest))) := by
      simp [BoolTree.yield]
    rw [e1]
    exact parseBool_after_primary hp c (by omega)
  | .between lhs w0 op w1 lo w2 a w3 hi, h, N, rest, final, c, n, hn => by
    simp only [BoolTree.wf, Bool.and_eq_true, Bool.not_eq_true', beq_iff_eq] at h
    obtain ⟨⟨⟨⟨⟨⟨⟨⟨⟨⟨⟨⟨h1, h2⟩, h3⟩, h4⟩, h5⟩, h6⟩, h7⟩, h8⟩, h9⟩, h10⟩, h11⟩, h12⟩, h13⟩ := h
    simp only [BoolTree.cost] at hn
    obtain ⟨m, rfl, hm⟩ := succ_of_le (a := N + lhs.cost + 1) (by omega)
    obtain ⟨p, hp⟩ := lhs_complete lhs h1 (fun l' => .between l' w0 op w1 lo w2 a w3 hi)
      (w0 ++ op :: (w1 ++ lo :: (w2 ++ a :: (w3 ++ hi :: rest)))) rest
      (fun l' => (opRest_between l' w0 op w1 lo w2 a w3 hi rest h2 h3 h4 h5 h6 h7 h8 h9 h10 h11 h12 h13).1)
      (opRest_between lhs w0 op w1 lo w2 a w3 hi rest h2 h3 h4 h5 h6 h7 h8 h9 h10 h11 h12 h13).2 m (by omega)
    have e1 : (BoolTree.between lhs w0 op w1 lo w2 a w3 hi).yield ++ rest =
        lhs.yield ++ (w0 ++ op :: (w1 ++ lo :: (w2 ++ a :: (w3 ++ hi :: rest)))) := by
      simp [BoolTree.yield]
    rw [e1]
    exact parseBool_after_primary hp c (by omega)
  | .binary lhs w0 op w1 rhs, h, N, rest, final, c, n, hn => by
    simp only [BoolTree.wf, Bool.and_eq_true] at h
    obtain ⟨⟨⟨⟨h1, h2⟩, h3⟩, h4⟩, h5⟩ := h
    simp only [BoolTree.cost] at hn
    obtain ⟨m, rfl, hm⟩ := succ_of_le (a := N + lhs.cost + 1) (by omega)
    obtain ⟨p, hp⟩ := lhs_complete lhs h1 (fun l' => .binary l' w0 op w1 rhs) (w0 ++ op :: (w1 ++ rhs :: rest)) rest
      (fun l' => (opRest_binary l' w0 op w1 rhs rest h2 h3 h4 h5).1)
      (opRest_binary lhs w0 op w1 rhs rest h2 h3 h4 h5).2 m (by omega)
    have e1 : (BoolTree.binary lhs w0 op w1 rhs).yield ++ rest = lhs.yield ++ (w0 ++ op :: (w1 ++ rhs :: rest)) := by
      simp [BoolTree.yield]
    rw [e1]
    exact parseBool_after_primary hp c (by omega)
  | .group lp w0 e w1 rp, h, N, rest, final, c, n, hn => by
    simp only [BoolTree.wf, Bool.and_eq_true] at h
    obtain ⟨⟨⟨⟨h1, h2⟩, h3⟩, h4⟩, h5⟩ := h
    simp only [BoolTree.cost] at hn
    obtain ⟨m, rfl, hm⟩ := succ_of_le (a := N + e.cost + 1) (by omega)
    obtain ⟨m', rfl, hm'⟩ := succ_of_le (a := N + e.cost) (n := m) (by omega)
    obtain ⟨e', he'⟩ := bool_complete e h3 0 (w1 ++ rp :: rest) (w1 ++ rp :: rest) (.stop (stopOK_rparen w1 rp rest h4 h5)) m' (by omega)
    have hrp : isWS rp = false := notWS_of_kind h5 (by decide)
    have hp : parsePrimary (m' + 1) (lp :: (w0 ++ (e.yield ++ (w1 ++ rp :: rest)))) = some (.group lp w0 e' w1 rp, rest) := by
      simp only [kindIs, beq_iff_eq] at h1 h5
      simp only [parsePrimary, h1, spanWS_append' w0 _ h2 (startsNonWS_append _ (e.startsNonWS h3)), he',
        spanWS_append w1 rp rest h4 hrp, h5]
      simp
    have e1 : (BoolTree.group lp w0 e w1 rp).yield ++ rest = lp :: (w0 ++ (e.yield ++ (w1 ++ rp :: rest))) := by
      simp [BoolTree.yield]
    rw [e1]
    exact parseBool_after_primary hp c (by omega)
  | .and l w0 op w1 r, h, N, rest, final, c, n, hn => by
    simp only [BoolTree.wf, Bool.and_eq_true, Bool.not_eq_true'] at h
    obtain ⟨⟨⟨⟨⟨⟨h1, h2⟩, h3⟩, h4⟩, h5⟩, h6⟩, h7⟩ := h
    simp only [BoolTree.cost] at hn
    have hop : op.kind = .AND := by simpa [kindIs] using h4
    have c2 : Cont (N + r.cost) (w0 ++ op :: (w1 ++ (r.yield ++ rest))) final :=
      .more h2 h3 (.inl hop) h5 h6 (startsNonWS_append _ (r.startsNonWS h7))
        (fun k hk => bool_complete r h7 N rest final c k hk) c.final_ok
    have e1 : (BoolTree.and l w0 op w1 r).yield ++ rest = l.yield ++ (w0 ++ op :: (w1 ++ (r.yield ++ rest))) := by
      simp [BoolTree.yield]
    rw [e1]
    exact bool_complete l h1 (N + r.cost) _ final c2 n (by omega)
  | .or l w0 op w1 r, h, N, rest, final, c, n, hn => by
    simp only [BoolTree.wf, Bool.and_eq_true, Bool.not_eq_true'] at h
    obtain ⟨⟨⟨⟨⟨⟨h1, h2⟩, h3⟩, h4⟩, h5⟩, h6⟩, h7⟩ := h
    simp only [BoolTree.cost] at hn
    have hop : op.kind = .OR := by simpa [kindIs] using h4
    have c2 : Cont (N + r.cost) (w0 ++ op :: (w1 ++ (r.yield ++ rest))) final :=
      .more h2 h3 (.inr hop) h5 h6 (startsNonWS_append _ (r.startsNonWS h7))
        (fun k hk => bool_complete r h7 N rest final c k hk) c.final_ok
    have e1 : (BoolTree.or l w0 op w1 r).yield ++ rest = l.yield ++ (w0 ++ op :: (w1 ++ (r.yield ++ rest))) := by
      simp [BoolTree.yield]
    rw [e1]
    exact bool_complete l h1 (N + r.cost) _ final c2 n (by omega)
  | .boolConst t, h, N, rest, final, c, n, hn => by
    simp only [BoolTree.wf, kindIs, beq_iff_eq] at h
    simp only [BoolTree.cost] at hn
    obtain ⟨m, rfl, hm⟩ := succ_of_le (a := N + 1) (by omega)
    obtain ⟨m', rfl, hm'⟩ := succ_of_le (a := N) (n := m) (by omega)
    have hp : parsePrimary (m' + 1) (t :: rest) = some (.boolConst t, rest) := by
      simp only [parsePrimary, h]
    exact parseBool_after_primary (ts := (BoolTree.boolConst t).yield ++ rest) (by simpa [BoolTree.yield] using hp) c (by omega)
  | .isEmpty kw lp w0 s w1 rp, h, N, rest, final, c, n, hn => by
    simp only [BoolTree.wf, Bool.and_eq_true] at h
    obtain ⟨⟨⟨⟨⟨h1, h2⟩, h3⟩, h4⟩, h5⟩, h6⟩ := h
    simp only [BoolTree.cost] at hn
    obtain ⟨m, rfl, hm⟩ := succ_of_le (a := N + s.cost + 1) (by omega)
    obtain ⟨m', rfl, hm'⟩ := succ_of_le (a := N + s.cost) (n := m) (by omega)
    obtain ⟨s', hs'⟩ := set_complete s h4 (w1 ++ rp :: rest) (qStop_rparen w1 rp rest h5 h6) m' (by omega)
    have hrp : isWS rp = false := notWS_of_kind h6 (by decide)
    have hp : parsePrimary (m' + 1) (kw :: lp :: (w0 ++ (s.yield ++ (w1 ++ rp :: rest)))) = some (.isEmpty kw lp w0 s' w1 rp, rest) := by
      simp only [kindIs, beq_iff_eq] at h1 h2 h6
      simp only [parsePrimary, h1, h2, spanWS_append' w0 _ h3 (startsNonWS_append _ (s.startsNonWS h4)), hs',
        spanWS_append w1 rp rest h5 hrp, h6]
      simp
    have e1 : (BoolTree.isEmpty kw lp w0 s w1 rp).yield ++ rest = kw :: lp :: (w0 ++ (s.yield ++ (w1 ++ rp :: rest))) := by
      simp [BoolTree.yield]
    rw [e1]
    exact parseBool_after_primary hp c (by omega)
  | .symbol t, h, N, rest, final, c, n, hn => by
    simp only [BoolTree.wf, kindIs, beq_iff_eq] at h
    simp only [BoolTree.cost] at hn
    obtain ⟨m, rfl, hm⟩ := succ_of_le (a := N + 1) (by omega)
    obtain ⟨m', rfl, hm'⟩ := succ_of_le (a := N) (n := m) (by omega)
    have hp : parsePrimary (m' + 1) (t :: rest) = some (.symbol t, rest) := by
      simp only [parsePrimary, h, c.opFollows]
      simp
    exact parseBool_after_primary (ts := (BoolTree.symbol t).yield ++ rest) (by simpa [BoolTree.yield] using hp) c (by omega)
  | .not kw w e, h, N, rest, final, c, n, hn => by
    simp only [BoolTree.wf, Bool.and_eq_true, Bool.not_eq_true'] at h
    obtain ⟨⟨⟨h1, h2⟩, h3⟩, h4⟩ := h
    simp only [BoolTree.cost] at hn
    obtain ⟨m, rfl, hm⟩ := succ_of_le (a := N + e.cost + 1) (by omega)
    obtain ⟨m', rfl, hm'⟩ := succ_of_le (a := N + e.cost) (n := m) (by omega)
    obtain ⟨e', he'⟩ := bool_complete e h4 N rest final c m' (by omega)
    have hp : parsePrimary (m' + 1) (kw :: (w ++ (e.yield ++ rest))) = some (.not kw w e', final) := by
      simp only [kindIs, beq_iff_eq] at h1
      simp only [parsePrimary, h1, spanWS_append' w _ h2 (startsNonWS_append _ (e.startsNonWS h4)), h3, he']
      simp
    have e1 : (BoolTree.not kw w e).yield ++ rest = kw :: (w ++ (e.yield ++ rest)) := by simp [BoolTree.yield]
    rw [e1]
    exact ⟨_, parseBool_after_greedy_primary hp c.final_ok⟩
theorem lhs_complete : ∀ (l : LhsTree), l.wf = true → ∀ (k : LhsTree → BoolTree) (ts rest : List Token),
    (∀ l', parseOpRest l' ts = some (k l', rest)) → opFollows ts = true →
    ∀ m, l.cost + 1 ≤ m → ∃ p, parsePrimary m (l.yield ++ ts) = some (p, rest)
  | .ident t, h, k, ts, rest, hop, hf, m, hm => by
    simp only [LhsTree.wf, kindIs, beq_iff_eq] at h
    obtain ⟨m', rfl, _⟩ := succ_of_le (a := 0) (n := m) (by omega)
    refine ⟨k (.ident t), ?_⟩
    simp only [LhsTree.yield, List.cons_append, List.nil_append, parsePrimary, h, hf, hop]
    simp
  | .setFn fn lp w0 id w1 rp, h, k, ts, rest, hop, hf, m, hm => by
    simp only [LhsTree.wf, Bool.and_eq_true, Bool.or_eq_true] at h
    obtain ⟨⟨⟨⟨⟨h1, h2⟩, h3⟩, h4⟩, h5⟩, h6⟩ := h
    obtain ⟨m', rfl, _⟩ := succ_of_le (a := 0) (n := m) (by omega)
    refine ⟨k (.setFn fn lp w0 id w1 rp), ?_⟩
    have hid : isWS id = false := notWS_of_kind h4 (by decide)
    have hrp : isWS rp = false := notWS_of_kind h6 (by decide)
    have e1 : (LhsTree.setFn fn lp w0 id w1 rp).yield ++ ts = fn :: lp :: (w0 ++ id :: (w1 ++ rp :: ts)) := by
      simp [LhsTree.yield]
    rw [e1]
    simp only [kindIs, beq_iff_eq] at h1 h2 h4 h6
    rcases h1 with h1 | h1
    · simp only [parsePrimary, h1, h2, spanWS_append w0 id _ h3 hid, h4, spanWS_append w1 rp ts h5 hrp, h6, hop]
      simp
    · simp only [parsePrimary, h1, h2, spanWS_append w0 id _ h3 hid, h4, spanWS_append w1 rp ts h5 hrp, h6, hop]
      simp
  | .count fn lp w0 s w1 rp, h, k, ts, rest, hop, hf, m, hm => by
    simp only [LhsTree.wf, Bool.and_eq_true] at h
    obtain ⟨⟨⟨⟨⟨h1, h2⟩, h3⟩, h4⟩, h5⟩, h6⟩ := h
    simp only [LhsTree.cost] at hm
    obtain ⟨m', rfl, hm'⟩ := succ_of_le (a := s.cost) (n := m) (by omega)
    obtain ⟨s', hs'⟩ := set_complete s h4 (w1 ++ rp :: ts) (qStop_rparen w1 rp ts h5 h6) m' hm'
    refine ⟨k (.count fn lp w0 s' w1 rp), ?_⟩
    have hrp : isWS rp = false := notWS_of_kind h6 (by decide)
    have e1 : (LhsTree.count fn lp w0 s w1 rp).yield ++ ts = fn :: lp :: (w0 ++ (s.yield ++ (w1 ++ rp :: ts))) := by
      simp [LhsTree.yield]
    rw [e1]
    simp only [kindIs, beq_iff_eq] at h1 h2 h6
    simp only [parsePrimary, h1, h2, spanWS_append' w0 _ h3 (startsNonWS_append _ (s.startsNonWS h4)), hs',
      spanWS_append w1 rp ts h5 hrp, h6, hop]
    simp
theorem set_complete : ∀ (s : SetExprTree), s.wf = true → ∀ (rest : List Token), qStop rest →
    ∀ n, s.cost ≤ n → ∃ s', parseSetExpr n (s.yield ++ rest) = some (s', rest)
  | .ident t, h, rest, _, n, hn => by
    simp only [SetExprTree.wf, kindIs, beq_iff_eq] at h
    simp only [SetExprTree.cost] at hn
    obtain ⟨m, rfl, _⟩ := succ_of_le (a := 0) (n := n) (by omega)
    refine ⟨.ident t, ?_⟩
    simp only [SetExprTree.yield, List.cons_append, List.nil_append, parseSetExpr, h]
  | .subQuery f w0 id w1 wh w2 q, h, rest, hr, n, hn => by
    simp only [SetExprTree.wf, Bool.and_eq_true, Bool.not_eq_true'] at h
    obtain ⟨⟨⟨⟨⟨⟨⟨⟨⟨h1, h2⟩, h3⟩, h4⟩, h5⟩, h6⟩, h7⟩, h8⟩, h9⟩, h10⟩ := h
    simp only [SetExprTree.cost] at hn
    obtain ⟨m, rfl, hm⟩ := succ_of_le (a := q.cost) (n := n) (by omega)
    obtain ⟨q', hq'⟩ := query_complete q h10 rest hr m hm
    refine ⟨.subQuery f w0 id w1 wh w2 q', ?_⟩
    have hid : isWS id = false := notWS_of_kind h4 (by decide)
    have hwh : isWS wh = false := notWS_of_kind h7 (by decide)
    have e1 : (SetExprTree.subQuery f w0 id w1 wh w2 q).yield ++ rest = f :: (w0 ++ id :: (w1 ++ wh :: (w2 ++ (q.yield ++ rest)))) := by
      simp [SetExprTree.yield]
    rw [e1]
    simp only [kindIs, beq_iff_eq] at h1 h4 h7
    simp only [parseSetExpr, h1, spanWS_append w0 id _ h2 hid, h3, h4, spanWS_append w1 wh _ h5 hwh, h6, h7,
      spanWS_append' w2 _ h8 (startsNonWS_append _ (q.startsNonWS h10)), h9, hq']
    simp
theorem query_complete : ∀ (q : QueryTree), q.wf = true → ∀ (rest : List Token), qStop rest →
    ∀ n, q.cost ≤ n → ∃ q', parseQuery n (q.yield ++ rest) = some (q', rest)
  | .pred e tail, h, rest, hr, n, hn => by
    simp only [QueryTree.wf, Bool.and_eq_true] at h
    simp only [QueryTree.cost] at hn
    obtain ⟨m, rfl, hm⟩ := succ_of_le (a := e.cost) (n := n) (by omega)
    obtain ⟨ht1, ht2⟩ := parseTail_complete tail h.2 rest hr
    obtain ⟨e', he'⟩ := bool_complete e h.1 0 (tail.yield ++ rest) (tail.yield ++ rest) (.stop ht2) m (by omega)
    obtain ⟨t, r, hy, hk⟩ := e.yield_starts h.1
    refine ⟨.pred e' tail, ?_⟩
    have e1 : (QueryTree.pred e tail).yield ++ rest = e.yield ++ (tail.yield ++ rest) := by simp [QueryTree.yield]
    rw [e1]
    rw [hy] at he' ⊢
    simp only [List.cons_append] at he' ⊢
    cases hkk : t.kind <;> simp [boolFirst, hkk] at hk <;> simp only [parseQuery, hkk, he', ht1]
  | .sort s sk li, h, rest, hr, n, hn => by
    simp only [QueryTree.wf, Bool.and_eq_true] at h
    simp only [QueryTree.cost] at hn
    obtain ⟨m, rfl, _⟩ := succ_of_le (a := 0) (n := n) (by omega)
    obtain ⟨p1, p2, p3⟩ := parseSkipLimit_complete sk li h.1.2 h.2 rest hr
    have hs := parseSortBy_complete s h.1.1 _ (sortStop_of_nextOK p3 (by decide))
    obtain ⟨t, r, hy, hk⟩ := s.yield_starts h.1.1
    refine ⟨.sort s sk li, ?_⟩
    have e1 : (QueryTree.sort s sk li).yield ++ rest =
        s.yield ++ (optYield KwNumTree.yield sk ++ (optYield KwNumTree.yield li ++ rest)) := by simp [QueryTree.yield]
    rw [e1]
    rw [hy] at hs ⊢
    simp only [List.cons_append] at hs ⊢
    simp only [parseQuery, hk, hs, p1, p2]
  | .skip s li, h, rest, hr, n, hn => by
    simp only [QueryTree.wf, Bool.and_eq_true] at h
    simp only [QueryTree.cost] at hn
    obtain ⟨m, rfl, _⟩ := succ_of_le (a := 0) (n := n) (by omega)
    obtain ⟨_, p2, _⟩ := parseSkipLimit_complete none li rfl h.2 rest hr
    have hs := parseSkip_complete s h.1 (optYield KwNumTree.yield li ++ rest)
    obtain ⟨t, r, hy, hk⟩ := skip_yield_starts s h.1
    refine ⟨.skip s li, ?_⟩
    have e1 : (QueryTree.skip s li).yield ++ rest = s.yield ++ (optYield KwNumTree.yield li ++ rest) := by simp [QueryTree.yield]
    rw [e1]
    rw [hy] at hs ⊢
    simp only [List.cons_append] at hs ⊢
    simp only [parseQuery, hk, hs, p2]
  | .limit l, h, rest, hr, n, hn => by
    simp only [QueryTree.wf] at h
    simp only [QueryTree.cost] at hn
    obtain ⟨m, rfl, _⟩ := succ_of_le (a := 0) (n := n) (by omega)
    have hs := parseLimit_complete l h rest
    obtain ⟨t, r, hy, hk⟩ := limit_yield_starts l h
    refine ⟨.limit l, ?_⟩
    simp only [QueryTree.yield]
    rw [hy] at hs ⊢
    simp only [List.cons_append] at hs ⊢
    simp only [parseQuery, hk, hs]
end

/-- **completeness of the reference recogniser**: the yield of every well-formed derivation of
    `start` is accepted, with the fuel `parseStart` provides -/
theorem parseStart_complete (t : StartTree) (h : t.wf = true) : (parseStart t.yield).isSome = true := by
  simp only [StartTree.wf, Bool.and_eq_true] at h
  obtain ⟨⟨h1, h2⟩, h3⟩ := h
  have hq : qStop t.w1 := by
    left
    simp [nextTok, spanWS_all t.w1 h3]
  have hc := t.q.cost_le
  obtain ⟨q', hq'⟩ := query_complete t.q h2 t.w1 hq (2 * t.yield.length + 4) (by
    simp only [StartTree.yield, List.length_append]; omega)
  have e1 : t.yield = t.w0 ++ (t.q.yield ++ t.w1) := by simp [StartTree.yield]
  simp only [parseStart]
  rw [show spanWS t.yield = (t.w0, t.q.yield ++ t.w1) by
    rw [e1]; exact spanWS_append' t.w0 _ h1 (startsNonWS_append _ (t.q.startsNonWS h2))]
  simp only [hq', spanWS_all t.w1 h3]
  simp

end StorageModel.C10
