import StorageModel.C10.Listener
/-
  C10 — model of ast/helper.go PostProcess: the SymbolValidator pass (ast/node_symbol.go) and
  the type transformation (ast/node_convert.go, ast/node_query.go).

  Dynamic dispatch follows the regenerated class table: `transformTypes` tries
  `TypeTransformable` then `BoolTypeTransformable` exactly as the Go function does, and every
  Go type assertion is `impl (cls x) I`: a comma-ok assertion is an `if`, a single-value
  assertion is `assertI`, which yields `panic` when the class does not implement the interface.
-/
namespace StorageModel.C10

abbrev Name := List Char

/-- `ast.SymbolTypes`: three independent methods.  (A cyclic schema is its unfolding.) -/
inductive SymTab where
  | mk (getType : Name → Option NodeType) (isSet : Name → Option Bool) (sub : Name → Option SymTab)

def SymTab.getType : SymTab → Name → Option NodeType | .mk g _ _ => g
def SymTab.isSet : SymTab → Name → Option Bool | .mk _ i _ => i
def SymTab.sub : SymTab → Name → Option SymTab | .mk _ _ s => s

/-- typed symbol node classes -/
inductive SymK where | bool | datetime | float64 | int64 | string | anyType
deriving DecidableEq, Repr

def SymK.cls : SymK → Cls
  | .bool => .BoolSymbolNode | .datetime => .DatetimeSymbolNode | .float64 => .Float64SymbolNode
  | .int64 => .Int64SymbolNode | .string => .StringSymbolNode | .anyType => .AnyTypeSymbolNode

/-- nodes after type transformation -/
inductive T where
  | boolC (b : Bool)
  | lit (l : Lit)
  | nullC
  | strArr (l : List Lit) | intArr (l : List Int) | fltArr (l : List Rat) | dtArr (l : List Int)
  | symT (k : SymK) (name : Name)
  | setFnT (f : SetFn) (sym : T)                 -- *SetFunctionNode (allOf / anyOf) with its symbol transformed
  | subQueryT (sym q : T)                        -- *subQueryNode
  | i2f (w : T)                                  -- *Int64ToFloat64Node
  | strFunc (e : T)                              -- *StringFuncNode{toUpper}
  | countSet (sym : T) | countSetQ (sym q : T)   -- *CountSetExprNode (query == nil / != nil)
  | isEmptySet (sym : T) | isEmptySetQ (sym q : T)
  | notE (e : T) | andE (l r : T) | orE (l r : T)
  | binBool (op : BinOp) (l r : T) | binDt (op : BinOp) (l r : T) | binFlt (op : BinOp) (l r : T)
  | binInt (op : BinOp) (l r : T) | binStr (op : BinOp) (l r : T)
  | isNil (sym : T) (op : BinOp)
  | intBtw (l lo hi : T) | fltBtw (l lo hi : T) | dtBtw (l lo hi : T)
  | inStr (l : T) (arr : List Lit) | inInt (l : T) (arr : List Lit) | inFlt (l : T) (arr : List Lit)
  | inDt (l : T) (arr : List Lit)
  | allOf (name : Name) (pred : T)
  | anyOf (name : Name) (pred : T) (seek : Bool)
  | query (pred : T) (sort : Option (List (SymK × Name × Bool))) (skip limit : Option Int)   -- *queryNode
deriving Repr

def T.cls : T → Cls
  | .boolC _ => .BoolConstNode | .lit l => l.cls | .nullC => .NullConstNode
  | .strArr _ => .StringArrayNode | .intArr _ => .Int64ArrayNode | .fltArr _ => .Float64ArrayNode
  | .dtArr _ => .DatetimeArrayNode | .symT k _ => k.cls | .setFnT .. => .SetFunctionNode
  | .subQueryT .. => .subQueryNode | .i2f _ => .Int64ToFloat64Node | .strFunc _ => .StringFuncNode
  | .countSet _ => .CountSetExprNode | .countSetQ .. => .CountSetExprNode
  | .isEmptySet _ => .IsEmptySetExprNode | .isEmptySetQ .. => .IsEmptySetExprNode
  | .notE _ => .NotExprNode | .andE .. => .AndExprNode | .orE .. => .OrExprNode
  | .binBool .. => .BinaryBoolExprNode | .binDt .. => .BinaryDatetimeExprNode
  | .binFlt .. => .BinaryFloat64ExprNode | .binInt .. => .BinaryInt64ExprNode
  | .binStr .. => .BinaryStringExprNode | .isNil .. => .IsNilExprNode
  | .intBtw .. => .Int64BetweenExprNode | .fltBtw .. => .Float64BetweenExprNode
  | .dtBtw .. => .DatetimeBetweenExprNode | .inStr .. => .InStringArrayExprNode
  | .inInt .. => .InInt64ArrayExprNode | .inFlt .. => .InFloat64ArrayExprNode
  | .inDt .. => .InDatetimeArrayExprNode | .allOf .. => .AllOfSetExprNode
  | .anyOf .. => .AnyOfSetExprNode | .query .. => .queryNode

/-- `Symbol()` of the classes that have it -/
def T.symbolName : T → Name
  | .symT _ n => n
  | .subQueryT s _ => s.symbolName
  | .countSet s => s.symbolName | .countSetQ s _ => s.symbolName
  | .isEmptySet s => s.symbolName | .isEmptySetQ s _ => s.symbolName
  | .allOf n _ => n | .anyOf n _ _ => n
  | _ => []

/-- `GetType()`: the table constant of the class; `SetFunctionNode` computes it -/
def T.getType : T → NodeType
  | .setFnT f s =>
    match f with
    | .count => .int64
    | .isEmpty => .bool
    | _ => (getTypeConst s.cls).getD .other
  | t => (getTypeConst t.cls).getD .other

/-- `IsConst()` -/
def T.isConst : T → Bool
  | .boolC _ | .lit _ | .nullC | .strArr _ | .intArr _ | .fltArr _ | .dtArr _ => true
  | .i2f w => w.isConst
  | .notE e => e.isConst
  | .subQueryT _ q => q.isConst
  | .query p _ _ _ => p.isConst
  | _ => false

/-- a single-value type assertion `x.(I)` -/
def assertI (site : String) (t : T) (i : Iface) : Outcome Unit :=
  if impl t.cls i then .ok () else .panic site

/-! ## SymbolValidator -/

structure VState where
  inSetFunction : Bool
  symbolTypes : SymTab
  err : Bool
  typeStack : List SymTab
  onDeck : Option SymTab

def VState.setErr (v : VState) : VState := { v with err := true }

def visitUntypedSymbol (v : VState) (name : Name) : VState :=
  match v.symbolTypes.isSet name with
  | none => v.setErr                                                   -- unknown symbol, return
  | some isSet =>
    let v1 := if !v.inSetFunction && isSet then v.setErr else v
    match v1.onDeck with
    | some t => { v1 with typeStack := v1.symbolTypes :: v1.typeStack, symbolTypes := t, onDeck := none }
    | none => v1

/-- `Symbol()` of an untyped node in symbol position -/
def U.symbolName : U → Name
  | .sym n => n
  | .subQ s _ => s.symbolName
  | .sortField s _ => s.symbolName
  | _ => []

mutual
/-- `node.Accept(validator)` on the untyped tree -/
def validate : VState → U → Outcome VState
  | v, .sym n => .ok (visitUntypedSymbol v n)
  | v, .logic _ _ l r => do let v1 ← validate v l; validate v1 r
  | v, .binary _ l r => do let v1 ← validate v l; validate v1 r
  | v, .inArr l r => do let v1 ← validate v l; validate v1 r
  | v, .between l lo hi => do let v1 ← validate v l; let v2 ← validate v1 lo; validate v2 hi
  | v, .setFn _ s => do
    let v1 ← validate { v with inSetFunction := true } s
    let v2 := { v1 with inSetFunction := false }
    match v2.symbolTypes.isSet s.symbolName with
    | some false => .ok v2.setErr                                       -- found && !isSet
    | _ => .ok v2
  | v, .unot e => validate v e
  | v, .notE e => validate v e
  | v, .query p s _ _ => do let v1 ← validate v p; validateSort v1 s
  | v, .subQ s q => do
    let v0 := match v.symbolTypes.sub s.symbolName with
      | none => v.setErr
      | some t => { v with onDeck := some t }
    let v1 ← validate v0 s
    let v2 ← validate v1 q
    if v2.err then .ok v2 else
    match v2.typeStack with
    | [] => .panic "SymbolValidator.VisitUntypedSubQueryNodeEnd: typeStack[0] on empty stack"
    | t :: rest => .ok { v2 with symbolTypes := t, typeStack := rest }
  | v, .sortBy f => validateSort v f
  | v, _ => .ok v
/-- `SortByNode.Accept`: every field's symbol -/
def validateSort : VState → U → Outcome VState
  | v, .sortBy f => validateSort v f
  | v, .sfCons s _ rest => do let v1 ← validate v s; validateSort v1 rest
  | v, _ => .ok v
end

/-! ## type transformation -/

/-- nodes the transformation leaves as they are -/
def keep : U → Outcome T
  | .boolC b => .ok (.boolC b)
  | .lit l => .ok (.lit l)
  | .nullC => .ok .nullC
  | .strArr l => .ok (.strArr l)
  | .intArr l => .ok (.intArr l)
  | .fltArr l => .ok (.fltArr l)
  | .dtArr l => .ok (.dtArr l)
  | _ => .err "unmodelled node shape"

/-- `ToFloat64()` of the Int64Node classes -/
def toFloat64 (t : T) : T :=
  match t with
  | .lit (.int i) => .lit (.flt (i : Rat))     -- Int64ConstNode → Float64ConstNode
  | .symT .anyType n => .symT .anyType n       -- AnyTypeSymbolNode returns itself
  | t => .i2f t                                -- Int64SymbolNode, CountSetExprNode → Int64ToFloat64Node

def litToFloat : Lit → Lit
  | .int i => .flt (i : Rat)
  | l => l

def invalidOpTypes : Outcome T := .err "operation is not supported with operand types"

def handleIsNullOps (op : BinOp) (l : T) : Outcome T :=
  if impl l.cls .SymbolNode && (op == .eq || op == .neq) then .ok (.isNil l op) else invalidOpTypes

def handleBoolOps (op : BinOp) (l r : T) : Outcome T :=
  if r.getType == .bool && (op == .eq || op == .neq) then do
    assertI "handleBoolOps: node.left.(BoolNode)" l .BoolNode
    assertI "handleBoolOps: node.right.(BoolNode)" r .BoolNode
    .ok (.binBool op l r)
  else invalidOpTypes

def toUpperNode (t : T) : T :=
  match t with
  | .lit (.str s) => .lit (.str (s.map Char.toUpper))
  | t => if t.isConst then .lit (.str []) else .strFunc t   -- (a non-string constant: its String() upper-cased; not reachable from the grammar)

def handleStringOps (op : BinOp) (l r : T) : Outcome T :=
  if impl l.cls .StringNode then
    if impl r.cls .StringNode then
      if op == .icontains || op == .notIContains then
        .ok (.binStr (if op == .notIContains then .notContains else .contains) (toUpperNode l) (toUpperNode r))
      else .ok (.binStr op l r)
    else invalidOpTypes
  else invalidOpTypes

def handleInt64Ops (op : BinOp) (l r : T) : Outcome T := do
  assertI "handleInt64Ops: node.left.(Int64Node)" l .Int64Node
  if r.getType == .int64 then do
    assertI "handleInt64Ops: node.right.(Int64Node)" r .Int64Node
    .ok (.binInt op l r)
  else if r.getType == .float64 then do
    assertI "handleInt64Ops: node.right.(Float64Node)" r .Float64Node
    .ok (.binFlt op (toFloat64 l) r)
  else invalidOpTypes

def handleFloat64Ops (op : BinOp) (l r : T) : Outcome T := do
  assertI "handleFloat64Ops: node.left.(Float64Node)" l .Float64Node
  if r.getType == .float64 then do
    assertI "handleFloat64Ops: node.right.(Float64Node)" r .Float64Node
    .ok (.binFlt op l r)
  else if r.getType == .int64 then do
    assertI "handleFloat64Ops: node.right.(Int64Node)" r .Int64Node
    .ok (.binFlt op l (toFloat64 r))
  else invalidOpTypes

def handleDatetimeOps (op : BinOp) (l r : T) : Outcome T := do
  assertI "handleDatetimeOps: node.left.(DatetimeNode)" l .DatetimeNode
  if r.getType == .datetime then do
    assertI "handleDatetimeOps: node.right.(DatetimeNode)" r .DatetimeNode
    .ok (.binDt op l r)
  else invalidOpTypes

/-- `BinaryExprNode.getTypedExpr` -/
def binaryTypedExpr (op : BinOp) (l r : T) : Outcome T :=
  if r.cls == .NullConstNode then handleIsNullOps op l
  else if op == .contains || op == .notContains then handleStringOps op l r
  else
    let nodeType := if l.getType == .anyType then r.getType else l.getType
    match nodeType with
    | .bool => handleBoolOps op l r
    | .datetime => handleDatetimeOps op l r
    | .float64 => handleFloat64Ops op l r
    | .int64 => handleInt64Ops op l r
    | .string => handleStringOps op l r
    | _ => invalidOpTypes

def litsOfArr : T → List Lit
  | .strArr l => l
  | .intArr l => l.map .int
  | .fltArr l => l.map .flt
  | .dtArr l => l.map .dt
  | _ => []

/-- `InArrayExprNode.getTypedExpr` (every assertion here is comma-ok) -/
def inArrayTypedExpr (l r : T) : Outcome T :=
  if impl l.cls .DatetimeNode && r.cls == .DatetimeArrayNode then .ok (.inDt l (litsOfArr r))
  else if impl l.cls .Int64Node && r.cls == .Int64ArrayNode then .ok (.inInt l (litsOfArr r))
  else if impl l.cls .Int64Node && r.cls == .Float64ArrayNode then .ok (.inFlt (toFloat64 l) (litsOfArr r))
  else if impl l.cls .Float64Node && r.cls == .Int64ArrayNode then .ok (.inFlt l ((litsOfArr r).map litToFloat))
  else if impl l.cls .Float64Node && r.cls == .Float64ArrayNode then .ok (.inFlt l (litsOfArr r))
  else if impl l.cls .StringNode && impl r.cls .AsStringArrayable then .ok (.inStr l (litsOfArr r))
  else .err "operation in is not supported with operand types"

/-- `toFloat64Nodes` element -/
def asFloat64Node (t : T) : Option T :=
  if impl t.cls .Int64Node then some (toFloat64 t)
  else if impl t.cls .Float64Node then some t
  else none

/-- `BetweenExprNode.getTypedExpr` -/
def betweenTypedExpr (l lo hi : T) : Outcome T :=
  if impl l.cls .DatetimeNode && impl lo.cls .DatetimeNode && impl hi.cls .DatetimeNode then .ok (.dtBtw l lo hi)
  else if impl l.cls .Int64Node && impl lo.cls .Int64Node && impl hi.cls .Int64Node then .ok (.intBtw l lo hi)
  else
    match asFloat64Node l, asFloat64Node lo, asFloat64Node hi with
    | some a, some b, some c => .ok (.fltBtw a b c)
    | _, _, _ => .err "operation between is not supported with operand types"

/-- `BinaryStringExprNode.IsSeekable` (the only SeekOptimizableBoolNode) -/
def isSeekable : T → Bool
  | .binStr op l r => op == .eq && (l.isConst || r.isConst)
  | _ => false

/-- `SetFunctionNode.MoveUpTree` -/
def moveUpTree (f : SetFn) (sym : T) (pred : T) : Outcome T :=
  match f with
  | .allOf => .ok (.allOf sym.symbolName pred)
  | .anyOf => .ok (.anyOf sym.symbolName pred (impl pred.cls .SeekOptimizableBoolNode && isSeekable pred))
  | _ => .err "unhandled set function"

def isCompare : SetFn → Bool
  | .allOf | .anyOf => true
  | _ => false

def symOfType : NodeType → Option SymK
  | .string => some .string | .bool => some .bool | .int64 => some .int64 | .float64 => some .float64
  | .datetime => some .datetime | .anyType => some .anyType | .other => none

/-- `UntypedSymbolNode.TypeTransform` -/
def transformSymbol (st : SymTab) (n : Name) : Outcome T :=
  match st.getType n with
  | none => .err "unknown symbol"
  | some k =>
    match symOfType k with
    | some sk => .ok (.symT sk n)
    | none => .err "unhandled symbol type"

/-- `SortByNode.TypeTransform`: every field's symbol, with the unchecked `symbolNode.(SymbolNode)` -/
def transformSort (st : SymTab) : U → Outcome (List (SymK × Name × Bool))
  | .sfCons s asc rest =>
    match s with
    | .sym n => do
      let t ← transformSymbol st n
      assertI "SortFieldNode.TypeTransform: symbolNode.(SymbolNode)" t .SymbolNode
      let more ← transformSort st rest
      match t with
      | .symT k nm => .ok ((k, nm, asc) :: more)
      | _ => .err "unmodelled sort field"
    | _ => .err "unmodelled sort field"
  | _ => .ok []

mutual
/-- `transformTypes(s, &node)` for one node -/
def transformTypes (st : SymTab) : U → Outcome T
  | u =>
    if impl u.cls .TypeTransformable then do
      let t ← typeTransform st u
      if impl t.cls .BoolTypeTransformable then .err "unmodelled: TypeTransform result is BoolTypeTransformable" else .ok t
    else if impl u.cls .BoolTypeTransformable then typeTransformBool st u
    else keep u
/-- the `TypeTransform` methods -/
def typeTransform (st : SymTab) : U → Outcome T
  | .sym n => transformSymbol st n
  | .setFn f s => do
    let ts ← transformTypes st s
    if !impl ts.cls .SymbolNode then .err "identifier symbol was transformed to non-identifier node" else
    if !isCompare f then
      match ts, f with
      | .subQueryT sym q, .count => .ok (.countSetQ sym q)
      | .subQueryT sym q, .isEmpty => .ok (.isEmptySetQ sym q)
      | sym, .count => .ok (.countSet sym)
      | sym, .isEmpty => .ok (.isEmptySet sym)
      | sym, f => .ok (.setFnT f sym)
    else .ok (.setFnT f ts)
  | .subQ s q => do
    let ts ← transformTypes st s
    match st.sub s.symbolName with
    | none => .err "symbol for sub-query is not an entity type"
    | some sub => do
      let tq ← transformTypes sub q
      if !impl ts.cls .SymbolNode then .err "from symbol must be an expr" else
      if !impl tq.cls .Query then .err "from query must be a query instance" else
      .ok (.subQueryT ts tq)
  | _ => .err "unmodelled TypeTransform"
/-- the `TypeTransformBool` methods -/
def typeTransformBool (st : SymTab) : U → Outcome T
  | .logic op _ l r => do
    let tl ← transformTypes st l
    let tr ← transformTypes st r
    if !impl tl.cls .BoolNode then .err "boolean logic expression LHS is not bool" else
    if !impl tr.cls .BoolNode then .err "boolean logic expression RHS is not bool" else
    match op with
    | .and => .ok (.andE tl tr)
    | .or => .ok (.orE tl tr)
  | .binary op l r => do
    let tl ← transformTypes st l
    let tr ← transformTypes st r
    match tl with
    | .setFnT f sym =>
      if isCompare f then do
        let e ← binaryTypedExpr op sym tr
        moveUpTree f sym e
      else binaryTypedExpr op tl tr
    | _ => binaryTypedExpr op tl tr
  | .inArr l r => do
    let tl ← transformTypes st l
    let tr ← transformTypes st r
    match tl with
    | .setFnT f sym => do
      let e ← inArrayTypedExpr sym tr
      moveUpTree f sym e
    | _ => inArrayTypedExpr tl tr
  | .between l lo hi => do
    let tl ← transformTypes st l
    let tlo ← transformTypes st lo
    let thi ← transformTypes st hi
    match tl with
    | .setFnT f sym => do
      let e ← betweenTypedExpr sym tlo thi
      moveUpTree f sym e
    | _ => betweenTypedExpr tl tlo thi
  | .unot e => do
    let te ← transformTypes st e
    if !impl te.cls .BoolNode then .err "not expr must wrap bool expr" else .ok (.notE te)
  | .notE e => do
    -- NotExprNode.TypeTransformBool: transformBools(s, &node.expr)
    let te ← if impl e.cls .BoolTypeTransformable then typeTransformBool st e else keep e
    .ok (.notE te)
  | .query p s sk li => do
    let tp ← transformTypes st p
    let ts ← match s with
      | .sortBy f => (transformSort st f).bind fun l => .ok (some l)
      | _ => .ok none
    if !impl tp.cls .BoolNode then .err "query expr predicate must be a boolean expr" else
    .ok (.query tp ts sk li)
  | _ => .err "unmodelled TypeTransformBool"
end

/-- `PostProcess` + the final `bQuery.(Query)` of getQuery -/
def postProcess (st : SymTab) (u : U) : Outcome T := do
  let v ← validate ⟨false, st, false, [], none⟩ u
  if v.err then .err "symbol validation" else
  let t ← if impl u.cls .BoolTypeTransformable then typeTransformBool st u else keep u
  if impl t.cls .Query then .ok t else .err "unexpected query type"

end StorageModel.C10
