import StorageModel.C10.Pipeline
/-
  C10 — process-wide configuration.  `ast.EnableQueryDebug` (an atomic.Bool nobody sets by default) switches on a
  debug branch inside ast.Parse.  The model carries the bit.  What the branch may touch is regenerated from
  ast/helper.go (`Generated.C10.astParseDebugReadsOnlyInput`, extract/c10_buckets.go): `true` = every statement guarded
  by `EnableQueryDebug.Load()` mentions only the parameters of Parse (the text, the symbol table), no local of the
  function — then the branch cannot see the (possibly nil) result.  `false` = it reads a local: the model then lets
  the branch call a method on the result, which for a filter refused AFTER the syntax check is a nil Query.
-/
namespace StorageModel.C10

structure Config where
  queryDebug : Bool
deriving DecidableEq, Repr

def parseModelCfg (debugReadsOnlyInput : Bool) (cfg : Config) (st : SymTab) (s : List Char) : Outcome T :=
  let r := parseModel st s
  if cfg.queryDebug && !debugReadsOnlyInput then
    match r with
    | .err e =>
      -- syntax errors are returned before the result exists
      if e == "syntax" then r else .panic "ast.Parse debug trace: method call on the nil Query of a refused filter"
    | _ => r
  else r

/-- with a debug branch that reads only the input, the verdict (typed query / which error / no panic) does not
    depend on the configuration -/
theorem parseModelCfg_independent (cfg : Config) (st : SymTab) (s : List Char) :
    parseModelCfg true cfg st s = parseModel st s := by
  simp [parseModelCfg]

/-- … and a branch that reads the result makes every filter refused after the syntax check panic under the debug
    configuration (and only under it) -/
theorem parseModelCfg_leaks (st : SymTab) (s : List Char) (e : String) (h : parseModel st s = .err e) (he : (e == "syntax") = false) :
    (parseModelCfg false ⟨true⟩ st s).isPanic = true ∧ parseModelCfg false ⟨false⟩ st s = .err e := by
  simp [parseModelCfg, h, he, Outcome.isPanic]

end StorageModel.C10
