import StorageModel.C10.Typing
/-
  C10 — evaluation of a well-typed tree never panics, whatever the dataset.
-/
namespace StorageModel.C10

abbrev NP {α : Type} (x : Outcome α) : Prop := x.isPanic = false

theorem np_ok {α : Type} (a : α) : NP (Outcome.ok a) := rfl
theorem np_err {α : Type} (e : String) : NP (Outcome.err e : Outcome α) := rfl

theorem np_bind {α β : Type} {x : Outcome α} {f : α → Outcome β} (hx : NP x) (hf : ∀ a, NP (f a)) :
    NP (x >>= f) := by
  cases x with
  | ok a => exact hf a
  | err e => rfl
  | panic s => simp [NP, Outcome.isPanic] at hx

theorem np_deref_some {α : Type} (site : String) {o : Option α} (h : o.isSome = true) : NP (deref site o) := by
  cases o with
  | none => simp at h
  | some a => rfl

theorem np_binCompare {α : Type} (site : String) (lt eq : α → α → Bool) (op : BinOp) (l r : Option α) :
    NP (binCompare site lt eq op l r) := by
  cases l <;> cases r <;> simp only [binCompare, Option.isNone_none, Option.isNone_some, Bool.or_true, Bool.true_or,
    Bool.or_self, Bool.false_eq_true, if_true, if_false, deref, Outcome.bind_ok] <;> (try split) <;> rfl

theorem np_betweenEval {α : Type} (site : String) (lt : α → α → Bool) (l lo hi : Option α) :
    NP (betweenEval site lt l lo hi) := by
  cases l <;> cases lo <;> cases hi <;> simp only [betweenEval, Option.isNone_none, Option.isNone_some,
    Bool.false_eq_true, if_true, if_false, deref, Outcome.bind_ok] <;> rfl

theorem np_inLoop {α : Type} (site : String) (eq : α → α → Bool) (left : Option α) :
    ∀ (l : List (Option α)), NP (inLoop site eq left l) := by
  intro l
  induction l with
  | nil => rfl
  | cons r rest ih =>
    cases left <;> cases r <;> simp only [inLoop, Option.isSome_none, Option.isSome_some, Bool.and_false,
      Bool.false_and, Bool.and_self, Bool.false_eq_true, if_false, if_true] <;> try exact ih
    simp only [deref, Outcome.bind_ok]
    split
    · rfl
    · exact ih

theorem np_anyLoop (f : Env → Outcome (Bool × Env)) (n : Name) (hf : ∀ e, NP (f e)) : ∀ l e, NP (anyLoop f n l e) := by
  intro l
  induction l with
  | nil => intro e; rfl
  | cons v rest ih =>
    intro e
    simp only [anyLoop]
    apply np_bind (hf _)
    intro a; obtain ⟨b, e1⟩ := a
    dsimp only
    split
    · rfl
    · exact ih e1

theorem np_allLoop (f : Env → Outcome (Bool × Env)) (n : Name) (hf : ∀ e, NP (f e)) : ∀ l e, NP (allLoop f n l e) := by
  intro l
  induction l with
  | nil => intro e; rfl
  | cons v rest ih =>
    intro e
    simp only [allLoop]
    apply np_bind (hf _)
    intro a; obtain ⟨b, e1⟩ := a
    dsimp only
    split
    · exact ih e1
    · rfl

theorem np_filterKids (f : Row → Outcome Bool) (hf : ∀ r, NP (f r)) : ∀ l i, NP (filterKids f i l) := by
  intro l
  induction l with
  | nil => intro i; rfl
  | cons v rest ih =>
    intro i
    simp only [filterKids]
    apply np_bind (hf v)
    intro a
    apply np_bind (ih (i + 1))
    intro m; rfl

theorem np_fst {α : Type} {x : Outcome (α × Env)} (h : NP x) : NP (x >>= fun p => Outcome.ok p.1) := by
  exact np_bind h (fun _ => rfl)

end StorageModel.C10

namespace StorageModel.C10

theorem np_if {α : Type} {c : Prop} [Decidable c] {x y : Outcome α} (hx : NP x) (hy : NP y) : NP (if c then x else y) := by
  split <;> assumption

theorem np_guarded_deref {α β : Type} (site : String) (r : Option α) (f : α → Outcome β) (z : Outcome β)
    (hf : ∀ a, NP (f a)) (hz : NP z) :
    NP (if r.isSome = true then (deref site r >>= f) else z) := by
  cases r with
  | none => simpa using hz
  | some a => simpa [deref] using hf a

theorem np_guarded_deref' {α β : Type} (site : String) (r : Option α) (f : α → Outcome β) (z : Outcome β)
    (hf : ∀ a, NP (f a)) (hz : NP z) :
    NP (if r.isNone = true then z else (deref site r >>= f)) := by
  cases r with
  | none => simpa using hz
  | some a => simpa [deref] using hf a

theorem np_ret_binCompare {α : Type} (site : String) (lt eq : α → α → Bool) (op : BinOp) (l r : Option α) (e : Env) :
    NP (binCompare site lt eq op l r >>= fun v => Outcome.ok (v, e)) :=
  np_bind (np_binCompare ..) (fun _ => rfl)

theorem np_ret_betweenEval {α : Type} (site : String) (lt : α → α → Bool) (l lo hi : Option α) (e : Env) :
    NP (betweenEval site lt l lo hi >>= fun v => Outcome.ok (v, e)) :=
  np_bind (np_betweenEval ..) (fun _ => rfl)

theorem np_ret_inLoop {α : Type} (site : String) (eq : α → α → Bool) (left : Option α) (l : List (Option α)) (e : Env) :
    NP (inLoop site eq left l >>= fun v => Outcome.ok (v, e)) :=
  np_bind (np_inLoop ..) (fun _ => rfl)

/-- **evaluation of a well-typed node never panics**, for every dataset, cursor state and cursor kind -/
theorem eval_np_aux (t : T) :
    ((okBool t = true → ∀ sk e, NP (evalBool sk e t)) ∧
    (okStr t = true → ∀ sk e, NP (evalString sk e t)) ∧
    (okInt t = true → ∀ sk e, NP (evalInt64 sk e t)) ∧
    (okFlt t = true → ∀ sk e, NP (evalFloat64 sk e t)) ∧
    (okDt t = true → ∀ sk e, NP (evalDatetime sk e t))) ∧
    (∀ op l r, t = .binStr op l r → okStr r = true → ∀ sk e, NP (evalString sk e r)) := by
  induction t with
  | boolC b =>
    refine ⟨⟨?_, ?_, ?_, ?_, ?_⟩, fun _ _ _ ht => by cases ht⟩ <;> intro h sk e <;>
      first | rfl | simp [okStr, okInt, okFlt, okDt] at h
  | lit l =>
    refine ⟨⟨?_, ?_, ?_, ?_, ?_⟩, fun _ _ _ ht => by cases ht⟩ <;> intro h sk e <;> cases l <;>
      first | rfl | simp [okBool, okStr, okInt, okFlt, okDt] at h
  | nullC => refine ⟨⟨?_, ?_, ?_, ?_, ?_⟩, fun _ _ _ ht => by cases ht⟩ <;> intro h <;> simp [okBool, okStr, okInt, okFlt, okDt] at h
  | strArr l => refine ⟨⟨?_, ?_, ?_, ?_, ?_⟩, fun _ _ _ ht => by cases ht⟩ <;> intro h <;> simp [okBool, okStr, okInt, okFlt, okDt] at h
  | intArr l => refine ⟨⟨?_, ?_, ?_, ?_, ?_⟩, fun _ _ _ ht => by cases ht⟩ <;> intro h <;> simp [okBool, okStr, okInt, okFlt, okDt] at h
  | fltArr l => refine ⟨⟨?_, ?_, ?_, ?_, ?_⟩, fun _ _ _ ht => by cases ht⟩ <;> intro h <;> simp [okBool, okStr, okInt, okFlt, okDt] at h
  | dtArr l => refine ⟨⟨?_, ?_, ?_, ?_, ?_⟩, fun _ _ _ ht => by cases ht⟩ <;> intro h <;> simp [okBool, okStr, okInt, okFlt, okDt] at h
  | symT k n =>
    refine ⟨⟨?_, ?_, ?_, ?_, ?_⟩, fun _ _ _ ht => by cases ht⟩ <;> intro h sk e
    · cases k <;> simp [okBool] at h <;> simp only [evalBool] <;>
        (cases symEvalBool (e.value n) <;> simp [deref, NP, Outcome.isPanic])
    · cases k <;> simp [okStr] at h <;> simp only [evalString]
      · cases symEvalFloat64 (e.value n) <;> simp [deref, NP, Outcome.isPanic]
      · cases symEvalInt64 (e.value n) <;> simp [deref, NP, Outcome.isPanic]
      · rfl
      · rfl
    · cases k <;> simp [okInt] at h <;> simp [evalInt64, NP, Outcome.isPanic]
    · cases k <;> simp [okFlt] at h <;> simp [evalFloat64, NP, Outcome.isPanic]
    · cases k <;> simp [okDt] at h <;> simp [evalDatetime, NP, Outcome.isPanic]
  | setFnT f s _ => refine ⟨⟨?_, ?_, ?_, ?_, ?_⟩, fun _ _ _ ht => by cases ht⟩ <;> intro h <;> simp [okBool, okStr, okInt, okFlt, okDt] at h
  | subQueryT s q _ _ => refine ⟨⟨?_, ?_, ?_, ?_, ?_⟩, fun _ _ _ ht => by cases ht⟩ <;> intro h <;> simp [okBool, okStr, okInt, okFlt, okDt] at h
  | i2f w ih =>
    have ih := ih.1
    refine ⟨⟨?_, ?_, ?_, ?_, ?_⟩, fun _ _ _ ht => by cases ht⟩ <;> intro h sk e
    · simp [okBool] at h
    · simp only [okStr] at h; simp only [evalString]; exact ih.2.1 h sk e
    · simp [okInt] at h
    · simp only [okFlt] at h
      simp only [evalFloat64]
      apply np_bind (ih.2.2.1 h sk e)
      intro p; obtain ⟨r, e1⟩ := p
      exact np_guarded_deref' _ r _ _ (fun _ => rfl) rfl
    · simp [okDt] at h
  | strFunc x ih =>
    have ih := ih.1
    refine ⟨⟨?_, ?_, ?_, ?_, ?_⟩, fun _ _ _ ht => by cases ht⟩ <;> intro h sk e
    · simp [okBool] at h
    · simp only [okStr] at h
      simp only [evalString]
      apply np_bind (ih.2.1 h sk e)
      intro p; obtain ⟨r, e1⟩ := p
      exact np_guarded_deref' _ r _ _ (fun _ => rfl) rfl
    · simp [okInt] at h
    · simp [okFlt] at h
    · simp [okDt] at h
  | countSet s _ =>
    refine ⟨⟨?_, ?_, ?_, ?_, ?_⟩, fun _ _ _ ht => by cases ht⟩ <;> intro h sk e
    · simp [okBool] at h
    · simp [evalString, deref, NP, Outcome.isPanic]
    · rfl
    · simp [okFlt] at h
    · simp [okDt] at h
  | countSetQ s q _ ihq =>
    have ihq := ihq.1
    have hk : okBool q = true → ∀ sk (e : Env), NP (filterKids (fun r => do let (b, _) ← evalBool sk ⟨r, []⟩ q; Outcome.ok b) 0 (e.row.kids s.symbolName)) := by
      intro hq sk e
      exact np_filterKids _ (fun r => np_bind (ihq.1 hq sk _) (fun _ => rfl)) _ _
    refine ⟨⟨?_, ?_, ?_, ?_, ?_⟩, fun _ _ _ ht => by cases ht⟩ <;> intro h sk e
    · simp [okBool] at h
    · simp only [okStr] at h
      simp only [evalString]
      apply np_bind (hk h sk e)
      intro vs; simp [deref, NP, Outcome.isPanic]
    · simp only [okInt] at h
      simp only [evalInt64]
      apply np_bind (hk h sk e)
      intro vs; rfl
    · simp [okFlt] at h
    · simp [okDt] at h
  | isEmptySet s _ =>
    refine ⟨⟨?_, ?_, ?_, ?_, ?_⟩, fun _ _ _ ht => by cases ht⟩ <;> intro h sk e <;>
      first | rfl | simp [okStr, okInt, okFlt, okDt] at h
  | isEmptySetQ s q _ ihq =>
    have ihq := ihq.1
    refine ⟨⟨?_, ?_, ?_, ?_, ?_⟩, fun _ _ _ ht => by cases ht⟩ <;> intro h sk e
    · simp only [okBool] at h
      simp only [evalBool]
      apply np_bind (np_filterKids _ (fun r => np_bind (ihq.1 h sk _) (fun _ => rfl)) _ _)
      intro vs; rfl
    all_goals simp [okStr, okInt, okFlt, okDt] at h
  | notE x ih =>
    have ih := ih.1
    refine ⟨⟨?_, ?_, ?_, ?_, ?_⟩, fun _ _ _ ht => by cases ht⟩ <;> intro h sk e
    · simp only [okBool] at h
      simp only [evalBool]
      exact np_bind (ih.1 h sk e) (fun _ => rfl)
    all_goals simp [okStr, okInt, okFlt, okDt] at h
  | andE l r ihl ihr =>
    have ihl := ihl.1
    have ihr := ihr.1
    refine ⟨⟨?_, ?_, ?_, ?_, ?_⟩, fun _ _ _ ht => by cases ht⟩ <;> intro h sk e
    · simp only [okBool, Bool.and_eq_true] at h
      simp only [evalBool]
      apply np_bind (ihl.1 h.1 sk e)
      intro p; obtain ⟨a, e1⟩ := p
      exact np_if rfl (ihr.1 h.2 sk e1)
    all_goals simp [okStr, okInt, okFlt, okDt] at h
  | orE l r ihl ihr =>
    have ihl := ihl.1
    have ihr := ihr.1
    refine ⟨⟨?_, ?_, ?_, ?_, ?_⟩, fun _ _ _ ht => by cases ht⟩ <;> intro h sk e
    · simp only [okBool, Bool.and_eq_true] at h
      simp only [evalBool]
      apply np_bind (ihl.1 h.1 sk e)
      intro p; obtain ⟨a, e1⟩ := p
      exact np_if rfl (ihr.1 h.2 sk e1)
    all_goals simp [okStr, okInt, okFlt, okDt] at h
  | binBool op l r ihl ihr =>
    have ihl := ihl.1
    have ihr := ihr.1
    refine ⟨⟨?_, ?_, ?_, ?_, ?_⟩, fun _ _ _ ht => by cases ht⟩ <;> intro h sk e
    · simp only [okBool, Bool.and_eq_true] at h
      simp only [evalBool]
      split
      · split <;> rfl
      · apply np_bind (ihl.1 h.1 sk e)
        intro p; obtain ⟨a, e1⟩ := p
        apply np_bind (ihr.1 h.2 sk e1)
        intro p2; obtain ⟨b, e2⟩ := p2
        dsimp only; split <;> rfl
    all_goals simp [okStr, okInt, okFlt, okDt] at h
  | binDt op l r ihl ihr =>
    have ihl := ihl.1
    have ihr := ihr.1
    refine ⟨⟨?_, ?_, ?_, ?_, ?_⟩, fun _ _ _ ht => by cases ht⟩ <;> intro h sk e
    · simp only [okBool, Bool.and_eq_true] at h
      simp only [evalBool]
      apply np_bind (ihl.2.2.2.2 h.1 sk e)
      intro p; obtain ⟨a, e1⟩ := p
      apply np_bind (ihr.2.2.2.2 h.2 sk e1)
      intro p2; obtain ⟨b, e2⟩ := p2
      exact np_ret_binCompare ..
    all_goals simp [okStr, okInt, okFlt, okDt] at h
  | binFlt op l r ihl ihr =>
    have ihl := ihl.1
    have ihr := ihr.1
    refine ⟨⟨?_, ?_, ?_, ?_, ?_⟩, fun _ _ _ ht => by cases ht⟩ <;> intro h sk e
    · simp only [okBool, Bool.and_eq_true] at h
      simp only [evalBool]
      apply np_bind (ihl.2.2.2.1 h.1 sk e)
      intro p; obtain ⟨a, e1⟩ := p
      apply np_bind (ihr.2.2.2.1 h.2 sk e1)
      intro p2; obtain ⟨b, e2⟩ := p2
      exact np_ret_binCompare ..
    all_goals simp [okStr, okInt, okFlt, okDt] at h
  | binInt op l r ihl ihr =>
    have ihl := ihl.1
    have ihr := ihr.1
    refine ⟨⟨?_, ?_, ?_, ?_, ?_⟩, fun _ _ _ ht => by cases ht⟩ <;> intro h sk e
    · simp only [okBool, Bool.and_eq_true] at h
      simp only [evalBool]
      apply np_bind (ihl.2.2.1 h.1 sk e)
      intro p; obtain ⟨a, e1⟩ := p
      apply np_bind (ihr.2.2.1 h.2 sk e1)
      intro p2; obtain ⟨b, e2⟩ := p2
      exact np_ret_binCompare ..
    all_goals simp [okStr, okInt, okFlt, okDt] at h
  | binStr op l r ihl ihr =>
    have ihl := ihl.1
    have ihr := ihr.1
    refine ⟨⟨?_, ?_, ?_, ?_, ?_⟩, fun _ _ _ ht hr sk e => by cases ht; exact ihr.2.1 hr sk e⟩ <;> intro h sk e
    · simp only [okBool, Bool.and_eq_true] at h
      simp only [evalBool]
      apply np_bind (ihl.2.1 h.1 sk e)
      intro p; obtain ⟨a, e1⟩ := p
      apply np_bind (ihr.2.1 h.2 sk e1)
      intro p2; obtain ⟨b, e2⟩ := p2
      cases a <;> cases b <;> simp only [Option.isNone_none, Option.isNone_some, Bool.or_true, Bool.true_or,
        Bool.or_self, Bool.false_eq_true, if_true, if_false, deref, Outcome.bind_ok] <;>
        (repeat' split) <;> rfl
    all_goals simp [okStr, okInt, okFlt, okDt] at h
  | isNil s op _ =>
    refine ⟨⟨?_, ?_, ?_, ?_, ?_⟩, fun _ _ _ ht => by cases ht⟩ <;> intro h sk e
    · simp only [evalBool]; split <;> rfl
    all_goals simp [okStr, okInt, okFlt, okDt] at h
  | intBtw l lo hi ihl ihlo ihhi =>
    have ihl := ihl.1
    have ihlo := ihlo.1
    have ihhi := ihhi.1
    refine ⟨⟨?_, ?_, ?_, ?_, ?_⟩, fun _ _ _ ht => by cases ht⟩ <;> intro h sk e
    · simp only [okBool, Bool.and_eq_true] at h
      simp only [evalBool]
      apply np_bind (ihl.2.2.1 h.1.1 sk e); intro p; obtain ⟨a, e1⟩ := p
      apply np_if rfl
      apply np_bind (ihlo.2.2.1 h.1.2 sk e1); intro p2; obtain ⟨b, e2⟩ := p2
      apply np_if rfl
      apply np_bind (ihhi.2.2.1 h.2 sk e2); intro p3; obtain ⟨c, e3⟩ := p3
      exact np_ret_betweenEval ..
    all_goals simp [okStr, okInt, okFlt, okDt] at h
  | fltBtw l lo hi ihl ihlo ihhi =>
    have ihl := ihl.1
    have ihlo := ihlo.1
    have ihhi := ihhi.1
    refine ⟨⟨?_, ?_, ?_, ?_, ?_⟩, fun _ _ _ ht => by cases ht⟩ <;> intro h sk e
    · simp only [okBool, Bool.and_eq_true] at h
      simp only [evalBool]
      apply np_bind (ihl.2.2.2.1 h.1.1 sk e); intro p; obtain ⟨a, e1⟩ := p
      apply np_if rfl
      apply np_bind (ihlo.2.2.2.1 h.1.2 sk e1); intro p2; obtain ⟨b, e2⟩ := p2
      apply np_if rfl
      apply np_bind (ihhi.2.2.2.1 h.2 sk e2); intro p3; obtain ⟨c, e3⟩ := p3
      exact np_ret_betweenEval ..
    all_goals simp [okStr, okInt, okFlt, okDt] at h
  | dtBtw l lo hi ihl ihlo ihhi =>
    have ihl := ihl.1
    have ihlo := ihlo.1
    have ihhi := ihhi.1
    refine ⟨⟨?_, ?_, ?_, ?_, ?_⟩, fun _ _ _ ht => by cases ht⟩ <;> intro h sk e
    · simp only [okBool, Bool.and_eq_true] at h
      simp only [evalBool]
      apply np_bind (ihl.2.2.2.2 h.1.1 sk e); intro p; obtain ⟨a, e1⟩ := p
      apply np_if rfl
      apply np_bind (ihlo.2.2.2.2 h.1.2 sk e1); intro p2; obtain ⟨b, e2⟩ := p2
      apply np_if rfl
      apply np_bind (ihhi.2.2.2.2 h.2 sk e2); intro p3; obtain ⟨c, e3⟩ := p3
      exact np_ret_betweenEval ..
    all_goals simp [okStr, okInt, okFlt, okDt] at h
  | inStr l arr ihl =>
    have ihl := ihl.1
    refine ⟨⟨?_, ?_, ?_, ?_, ?_⟩, fun _ _ _ ht => by cases ht⟩ <;> intro h sk e
    · simp only [okBool] at h
      simp only [evalBool]
      exact np_bind (ihl.2.1 h sk e) (fun p => np_ret_inLoop ..)
    all_goals simp [okStr, okInt, okFlt, okDt] at h
  | inInt l arr ihl =>
    have ihl := ihl.1
    refine ⟨⟨?_, ?_, ?_, ?_, ?_⟩, fun _ _ _ ht => by cases ht⟩ <;> intro h sk e
    · simp only [okBool] at h
      simp only [evalBool]
      exact np_bind (ihl.2.2.1 h sk e) (fun p => np_ret_inLoop ..)
    all_goals simp [okStr, okInt, okFlt, okDt] at h
  | inFlt l arr ihl =>
    have ihl := ihl.1
    refine ⟨⟨?_, ?_, ?_, ?_, ?_⟩, fun _ _ _ ht => by cases ht⟩ <;> intro h sk e
    · simp only [okBool] at h
      simp only [evalBool]
      exact np_bind (ihl.2.2.2.1 h sk e) (fun p => np_ret_inLoop ..)
    all_goals simp [okStr, okInt, okFlt, okDt] at h
  | inDt l arr ihl =>
    have ihl := ihl.1
    refine ⟨⟨?_, ?_, ?_, ?_, ?_⟩, fun _ _ _ ht => by cases ht⟩ <;> intro h sk e
    · simp only [okBool] at h
      simp only [evalBool]
      exact np_bind (ihl.2.2.2.2 h sk e) (fun p => np_ret_inLoop ..)
    all_goals simp [okStr, okInt, okFlt, okDt] at h
  | allOf n p ihp =>
    have ihp := ihp.1
    refine ⟨⟨?_, ?_, ?_, ?_, ?_⟩, fun _ _ _ ht => by cases ht⟩ <;> intro h sk e
    · simp only [okBool] at h
      simp only [evalBool]
      exact np_allLoop _ n (fun e' => ihp.1 h sk e') _ _
    all_goals simp [okStr, okInt, okFlt, okDt] at h
  | anyOf n p seek ihp =>
    have ihp6 := ihp.2
    have ihp := ihp.1
    refine ⟨⟨?_, ?_, ?_, ?_, ?_⟩, fun _ _ _ ht => by cases ht⟩ <;> intro h sk e
    · cases seek with
      | false =>
        simp only [okBool] at h
        simp only [evalBool, Bool.false_and, Bool.false_eq_true, if_false]
        exact np_anyLoop _ n (fun e' => ihp.1 h sk e') _ _
      | true =>
        cases p with
        | binStr op l r =>
          simp only [okBool, Bool.and_eq_true] at h
          have hb : okBool (.binStr op l r) = true := by simp [okBool, h.1, h.2]
          simp only [evalBool, Bool.true_and]
          split
          · apply np_bind (ihp6 op l r rfl h.2 sk _)
            intro pr; obtain ⟨rr, e1⟩ := pr
            dsimp only
            apply np_guarded_deref _ rr _ _ _ rfl
            intro v
            split
            · rfl
            · exact ihp.1 hb sk _
          · exact np_anyLoop _ n (fun e' => ihp.1 hb sk e') _ _
        | _ => simp [okBool] at h
    all_goals simp [okStr, okInt, okFlt, okDt] at h
  | query p sort skip limit ihp =>
    have ihp := ihp.1
    refine ⟨⟨?_, ?_, ?_, ?_, ?_⟩, fun _ _ _ ht => by cases ht⟩ <;> intro h sk e
    · simp only [okBool] at h
      simp only [evalBool]
      exact ihp.1 h sk e
    all_goals simp [okStr, okInt, okFlt, okDt] at h

theorem eval_np (t : T) :
    (okBool t = true → ∀ sk e, NP (evalBool sk e t)) ∧
    (okStr t = true → ∀ sk e, NP (evalString sk e t)) ∧
    (okInt t = true → ∀ sk e, NP (evalInt64 sk e t)) ∧
    (okFlt t = true → ∀ sk e, NP (evalFloat64 sk e t)) ∧
    (okDt t = true → ∀ sk e, NP (evalDatetime sk e t)) := (eval_np_aux t).1

theorem evalRow_np (t : T) (h : okBool t = true) (sk : Bool) (row : Row) : NP (evalRow sk t row) := by
  have := (eval_np t).1 h sk ⟨row, []⟩
  unfold evalRow
  cases hx : evalBool sk ⟨row, []⟩ t with
  | ok p => rfl
  | err e => rfl
  | panic s => rw [hx] at this; exact absurd this (by simp [NP, Outcome.isPanic])

end StorageModel.C10
