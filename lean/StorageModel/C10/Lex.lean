/-
  C10 — reference lexer for zitiql/ZitiQl.g4.

  The lexer rules are *data* (`Pat`, a regular-expression syntax with exactly the operators
  the grammar file uses); `rests p s` computes every way `p` can match a prefix of `s`
  (as the list of remaining inputs); `Matches p w` is the relational meaning of a pattern.
  `lex` is maximal munch over the rule list in grammar order (longest match wins, ties go to
  the rule listed first — ANTLR's rule), and fails at the first position where no rule
  matches a non-empty prefix.

  Characters are Unicode code points (`Char`), as in ANTLR's `InputStream` (`[]rune(str)`).
-/
namespace StorageModel.C10

/-- a character class: union of inclusive code-point ranges, possibly negated (`~[...]`) -/
structure CharSet where
  neg : Bool
  ranges : List (Nat × Nat)
deriving DecidableEq, Repr

def inRanges (rs : List (Nat × Nat)) (c : Char) : Bool :=
  rs.any fun r => r.1 ≤ c.toNat && c.toNat ≤ r.2

def CharSet.mem (cs : CharSet) (c : Char) : Bool :=
  if cs.neg then !inRanges cs.ranges c else inRanges cs.ranges c

inductive Pat where
  | eps
  | set (cs : CharSet)
  | seq (a b : Pat)
  | alt (a b : Pat)
  | opt (a : Pat)
  | star (a : Pat)
  | plus (a : Pat)
deriving DecidableEq, Repr

/-- relational meaning of a pattern -/
inductive Matches : Pat → List Char → Prop where
  | eps : Matches .eps []
  | set {cs c} : cs.mem c = true → Matches (.set cs) [c]
  | seq {a b x y} : Matches a x → Matches b y → Matches (.seq a b) (x ++ y)
  | altL {a b x} : Matches a x → Matches (.alt a b) x
  | altR {a b x} : Matches b x → Matches (.alt a b) x
  | optNone {a} : Matches (.opt a) []
  | optSome {a x} : Matches a x → Matches (.opt a) x
  | starNil {a} : Matches (.star a) []
  | starSnoc {a x y} : Matches (.star a) x → Matches a y → Matches (.star a) (x ++ y)
  | plus {a x y} : Matches a x → Matches (.star a) y → Matches (.plus a) (x ++ y)

/-- breadth-first closure of `step` starting from a frontier; `acc` holds everything seen -/
def starLoop (step : List Char → List (List Char)) :
    Nat → List (List Char) → List (List Char) → List (List Char)
  | 0, _, acc => acc
  | n + 1, frontier, acc =>
    let new := ((frontier.flatMap step).eraseDups).filter fun r => !acc.contains r
    if new.isEmpty then acc else starLoop step n new (acc ++ new)

/-- all remainders `r` such that `s = w ++ r` for some `w` matched by `p` -/
def rests : Pat → List Char → List (List Char)
  | .eps, s => [s]
  | .set cs, s => match s with
    | [] => []
    | c :: t => if cs.mem c then [t] else []
  | .seq a b, s => ((rests a s).flatMap (rests b)).eraseDups
  | .alt a b, s => (rests a s ++ rests b s).eraseDups
  | .opt a, s => (s :: rests a s).eraseDups
  | .star a, s => starLoop (rests a) (s.length + 1) [s] [s]
  | .plus a, s =>
    ((rests a s).flatMap fun r => starLoop (rests a) (r.length + 1) [r] [r]).eraseDups

/-- token types, numbered as in zitiql/ZitiQl.tokens (COMMA is the implicit token T__0) -/
inductive TK where
  | COMMA | WS | LPAREN | RPAREN | LBRACKET | RBRACKET | AND | OR | LT | GT | EQ | CONTAINS
  | ICONTAINS | IN | BETWEEN | BOOL | DATETIME | ALL_OF | ANY_OF | COUNT | ISEMPTY | STRING
  | NUMBER | NULL | NOT | ASC | DESC | SORT | BY | SKIP_ROWS | LIMIT_ROWS | NONE | WHERE | FROM
  | IDENTIFIER | RFC3339_DATE_TIME
deriving DecidableEq, Repr, Inhabited

def TK.all : List TK :=
  [.COMMA, .WS, .LPAREN, .RPAREN, .LBRACKET, .RBRACKET, .AND, .OR, .LT, .GT, .EQ, .CONTAINS,
   .ICONTAINS, .IN, .BETWEEN, .BOOL, .DATETIME, .ALL_OF, .ANY_OF, .COUNT, .ISEMPTY, .STRING,
   .NUMBER, .NULL, .NOT, .ASC, .DESC, .SORT, .BY, .SKIP_ROWS, .LIMIT_ROWS, .NONE, .WHERE, .FROM,
   .IDENTIFIER, .RFC3339_DATE_TIME]

/-- ANTLR token type number -/
def TK.num (k : TK) : Nat := (TK.all.idxOf k) + 1

namespace P
def rng (a b : Char) : Pat := .set ⟨false, [(a.toNat, b.toNat)]⟩
def ch (c : Char) : Pat := rng c c
def oneOf (cs : List Char) : Pat := .set ⟨false, cs.map fun c => (c.toNat, c.toNat)⟩
/-- `fragment X : [xX]` -/
def ci (c : Char) : Pat := .set ⟨false, [(c.toNat, c.toNat), (c.toUpper.toNat, c.toUpper.toNat)]⟩
def seqs : List Pat → Pat
  | [] => .eps
  | [p] => p
  | p :: ps => .seq p (seqs ps)
def alts : List Pat → Pat
  | [] => .eps
  | [p] => p
  | p :: ps => .alt p (alts ps)
def lit (s : String) : Pat := seqs (s.toList.map ch)
def kw (s : String) : Pat := seqs (s.toList.map ci)

def ws : Pat := .set ⟨false, [(32, 32), (10, 10), (9, 9), (13, 13)]⟩
def digit : Pat := rng '0' '9'
def int : Pat := .alt (ch '0') (.seq (rng '1' '9') (.star digit))
def notWsPlus : Pat := .opt (.seq (kw "not") (.plus ws))
def month : Pat := .alt (.seq (ch '0') (rng '1' '9')) (.seq (ch '1') (oneOf ['0', '1', '2']))
def day : Pat := alts [.seq (ch '0') (rng '1' '9'), .seq (oneOf ['1', '2']) digit, .seq (ch '3') (oneOf ['0', '1'])]
def hour : Pat := .alt (.seq (oneOf ['0', '1']) digit) (.seq (ch '2') (rng '0' '3'))
def minute : Pat := .seq (rng '0' '5') digit
def second : Pat := .alt (.seq (rng '0' '5') digit) (lit "60")
def tzOffset : Pat := .alt (ci 'z') (seqs [.alt (ch '+') (ch '-'), hour, ch ':', minute])
def fullDate : Pat := seqs [.plus int, ch '-', month, ch '-', day]
def fullTime : Pat := seqs [hour, ch ':', minute, ch ':', second, .opt (.seq (ch '.') (.plus digit)), tzOffset]
def rfc3339 : Pat := seqs [fullDate, ci 't', fullTime]
def esc : Pat := .seq (ch '\\') (oneOf ['"', '\\', 'f', 'n', 'r', 't'])
def safeCodePoint : Pat := .set ⟨true, [('"'.toNat, '"'.toNat), ('\\'.toNat, '\\'.toNat), (0, 31)]⟩
def exp : Pat := seqs [oneOf ['E', 'e'], .opt (oneOf ['+', '-']), int]
def letter : Pat := .set ⟨false, [('A'.toNat, 'Z'.toNat), ('a'.toNat, 'z'.toNat)]⟩
def identRest : Pat := .set ⟨false, [('A'.toNat, 'Z'.toNat), ('a'.toNat, 'z'.toNat), ('_'.toNat, '_'.toNat)]⟩
def identRestDash : Pat :=
  .set ⟨false, [('A'.toNat, 'Z'.toNat), ('a'.toNat, 'z'.toNat), ('_'.toNat, '_'.toNat), ('-'.toNat, '-'.toNat)]⟩
def identBody : Pat :=
  seqs [letter, .star identRest, .star (seqs [ch '.', letter, .star identRestDash])]
end P

open P in
/-- the lexer rules of ZitiQl.g4, in grammar order (implicit literal `','` first) -/
def rules : List (TK × Pat) := [
  (.COMMA, ch ','),
  (.WS, ws),
  (.LPAREN, ch '('),
  (.RPAREN, ch ')'),
  (.LBRACKET, ch '['),
  (.RBRACKET, ch ']'),
  (.AND, kw "and"),
  (.OR, kw "or"),
  (.LT, .seq (ch '<') (.opt (ch '='))),
  (.GT, .seq (ch '>') (.opt (ch '='))),
  (.EQ, .seq (.opt (ch '!')) (ch '=')),
  (.CONTAINS, .seq notWsPlus (kw "contains")),
  (.ICONTAINS, .seq notWsPlus (kw "icontains")),
  (.IN, .seq (.opt (.seq (kw "not") ws)) (kw "in")),
  (.BETWEEN, .seq notWsPlus (kw "between")),
  (.BOOL, .alt (kw "true") (kw "false")),
  (.DATETIME, seqs [lit "datetime(", .star ws, rfc3339, .star ws, ch ')']),
  (.ALL_OF, kw "allof"),
  (.ANY_OF, kw "anyof"),
  (.COUNT, kw "count"),
  (.ISEMPTY, kw "isempty"),
  (.STRING, seqs [ch '"', .star (.alt esc safeCodePoint), ch '"']),
  (.NUMBER, seqs [.opt (ch '-'), int, .opt (.seq (ch '.') (.plus digit)), .opt exp]),
  (.NULL, kw "null"),
  (.NOT, kw "not"),
  (.ASC, kw "asc"),
  (.DESC, kw "desc"),
  (.SORT, kw "sort"),
  (.BY, kw "by"),
  (.SKIP_ROWS, kw "skip"),
  (.LIMIT_ROWS, kw "limit"),
  (.NONE, kw "none"),
  (.WHERE, kw "where"),
  (.FROM, kw "from"),
  (.IDENTIFIER, .alt identBody (seqs [ch '\'', identBody, ch '\''])),
  (.RFC3339_DATE_TIME, rfc3339)]

structure Token where
  kind : TK
  text : List Char
deriving DecidableEq, Repr

/-- the shortest remainder (= longest match) that consumes at least one character -/
def shortest (s : List Char) : List (List Char) → Option (List Char)
  | [] => none
  | r :: rs =>
    match shortest s rs with
    | none => if r.length < s.length then some r else none
    | some b => if r.length < b.length then some r else some b

def longest (p : Pat) (s : List Char) : Option (List Char) := shortest s (rests p s)

/-- maximal munch over a rule list: strictly longer match wins, so ties go to the earlier rule -/
def pickFrom (s : List Char) : List (TK × Pat) → Option (TK × List Char)
  | [] => none
  | (k, p) :: rest =>
    match longest p s, pickFrom s rest with
    | none, later => later
    | some r, none => some (k, r)
    | some r, some (k', r') => if r'.length < r.length then some (k', r') else some (k, r)

def pick (s : List Char) : Option (TK × List Char) := pickFrom s rules

/-- `lexAux fuel s pos`: tokens of `s`, or the (code-point) index of the first character at
    which no token starts -/
def lexAux : Nat → List Char → Nat → Except Nat (List Token)
  | 0, _, pos => .error pos
  | _ + 1, [], _ => .ok []
  | n + 1, s@(_ :: _), pos =>
    match pick s with
    | none => .error pos
    | some (k, r) =>
      let text := s.take (s.length - r.length)
      match lexAux n r (pos + text.length) with
      | .ok ts => .ok (⟨k, text⟩ :: ts)
      | .error e => .error e

def lex (s : List Char) : Except Nat (List Token) := lexAux (s.length + 1) s 0

end StorageModel.C10
