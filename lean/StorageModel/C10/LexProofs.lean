import StorageModel.C10.Lex
/-
  C10 — lemmas about the reference lexer: soundness of `rests` w.r.t. `Matches`, properties of
  `shortest` / `pickFrom`, the invariant of `lexAux`.
-/
namespace StorageModel.C10

theorem starLoop_ind (step : List Char → List (List Char)) (P : List Char → Prop)
    (hstep : ∀ x y, P x → y ∈ step x → P y) :
    ∀ (n : Nat) (fr acc : List (List Char)), (∀ x ∈ fr, P x) → (∀ x ∈ acc, P x) →
      ∀ r ∈ starLoop step n fr acc, P r := by
  intro n
  induction n with
  | zero => intro fr acc _ hacc r hr; simpa [starLoop] using hacc r (by simpa [starLoop] using hr)
  | succ n ih =>
    intro fr acc hfr hacc r hr
    simp only [starLoop] at hr
    have hnew : ∀ x ∈ ((fr.flatMap step).eraseDups).filter (fun r => !acc.contains r), P x := by
      intro x hx
      have hx1 := (List.mem_filter.mp hx).1
      have hx2 := List.mem_eraseDups.mp hx1
      obtain ⟨y, hy, hxy⟩ := List.mem_flatMap.mp hx2
      exact hstep y x (hfr y hy) hxy
    split at hr
    · exact hacc r hr
    · apply ih _ _ hnew _ r hr
      intro x hx
      rcases List.mem_append.mp hx with h | h
      · exact hacc x h
      · exact hnew x h

theorem Matches.star_append {a : Pat} {x y : List Char} (hx : Matches (.star a) x) (hy : Matches (.star a) y) :
    Matches (.star a) (x ++ y) := by
  generalize hp : Pat.star a = p at hy
  induction hy with
  | starNil => cases hp; simpa using hx
  | starSnoc h1 h2 ih1 _ =>
    cases hp
    rw [← List.append_assoc]
    exact .starSnoc (ih1 rfl) h2
  | _ => cases hp

theorem Matches.plus_snoc {a : Pat} {x y : List Char} (hx : Matches (.plus a) x) (hy : Matches a y) :
    Matches (.plus a) (x ++ y) := by
  cases hx with
  | plus h1 h2 =>
    rw [List.append_assoc]
    exact .plus h1 (.starSnoc h2 hy)

/-- every remainder computed by `rests` is what is left after a prefix that matches the pattern -/
theorem rests_sound : ∀ (p : Pat) (s r : List Char), r ∈ rests p s → ∃ pre, s = pre ++ r ∧ Matches p pre := by
  intro p
  induction p with
  | eps =>
    intro s r h
    simp only [rests, List.mem_singleton] at h
    exact ⟨[], by simp [h], .eps⟩
  | set cs =>
    intro s r h
    cases s with
    | nil => simp [rests] at h
    | cons c t =>
      simp only [rests] at h
      split at h
      · next hc =>
        simp only [List.mem_singleton] at h
        exact ⟨[c], by simp [h], .set hc⟩
      · simp at h
  | seq a b iha ihb =>
    intro s r h
    simp only [rests] at h
    obtain ⟨m, hm, hr⟩ := List.mem_flatMap.mp (List.mem_eraseDups.mp h)
    obtain ⟨p1, h1, m1⟩ := iha s m hm
    obtain ⟨p2, h2, m2⟩ := ihb m r hr
    exact ⟨p1 ++ p2, by rw [h1, h2, List.append_assoc], .seq m1 m2⟩
  | alt a b iha ihb =>
    intro s r h
    simp only [rests] at h
    rcases List.mem_append.mp (List.mem_eraseDups.mp h) with h | h
    · obtain ⟨p1, h1, m1⟩ := iha s r h; exact ⟨p1, h1, .altL m1⟩
    · obtain ⟨p1, h1, m1⟩ := ihb s r h; exact ⟨p1, h1, .altR m1⟩
  | opt a iha =>
    intro s r h
    simp only [rests] at h
    rcases List.mem_cons.mp (List.mem_eraseDups.mp h) with h | h
    · exact ⟨[], by simp [h], .optNone⟩
    · obtain ⟨p1, h1, m1⟩ := iha s r h; exact ⟨p1, h1, .optSome m1⟩
  | star a iha =>
    intro s r h
    simp only [rests] at h
    refine starLoop_ind (rests a) (fun x => ∃ pre, s = pre ++ x ∧ Matches (.star a) pre) ?_ _ [s] [s] ?_ ?_ r h
    · intro x y ⟨pre, hs, hm⟩ hy
      obtain ⟨w, hw, mw⟩ := iha x y hy
      exact ⟨pre ++ w, by rw [hs, hw, List.append_assoc], .starSnoc hm mw⟩
    · intro x hx; simp only [List.mem_singleton] at hx; exact ⟨[], by simp [hx], .starNil⟩
    · intro x hx; simp only [List.mem_singleton] at hx; exact ⟨[], by simp [hx], .starNil⟩
  | plus a iha =>
    intro s r h
    simp only [rests] at h
    obtain ⟨m, hm, hr⟩ := List.mem_flatMap.mp (List.mem_eraseDups.mp h)
    obtain ⟨p0, h0, m0⟩ := iha s m hm
    have base : ∃ pre, s = pre ++ m ∧ Matches (.plus a) pre :=
      ⟨p0, h0, by simpa using Matches.plus m0 .starNil⟩
    refine starLoop_ind (rests a) (fun x => ∃ pre, s = pre ++ x ∧ Matches (.plus a) pre) ?_ _ [m] [m] ?_ ?_ r hr
    · intro x y ⟨pre, hs, hmm⟩ hy
      obtain ⟨w, hw, mw⟩ := iha x y hy
      exact ⟨pre ++ w, by rw [hs, hw, List.append_assoc], hmm.plus_snoc mw⟩
    · intro x hx; simp only [List.mem_singleton] at hx; subst hx; exact base
    · intro x hx; simp only [List.mem_singleton] at hx; subst hx; exact base

theorem shortest_spec (s : List Char) : ∀ (l : List (List Char)) (r : List Char),
    shortest s l = some r → r ∈ l ∧ r.length < s.length := by
  intro l
  induction l with
  | nil => intro r h; simp [shortest] at h
  | cons x xs ih =>
    intro r h
    simp only [shortest] at h
    split at h
    · split at h
      · next hlt => cases h; exact ⟨List.mem_cons_self .., hlt⟩
      · cases h
    · next b hb =>
      have ⟨hbm, hbl⟩ := ih b hb
      split at h
      · next hlt => cases h; exact ⟨List.mem_cons_self .., by omega⟩
      · cases h; exact ⟨List.mem_cons_of_mem _ hbm, hbl⟩

theorem longest_spec {p : Pat} {s r : List Char} (h : longest p s = some r) :
    r.length < s.length ∧ ∃ pre, s = pre ++ r ∧ Matches p pre := by
  have ⟨hm, hl⟩ := shortest_spec s _ r h
  exact ⟨hl, rests_sound p s r hm⟩

theorem pickFrom_spec (s : List Char) : ∀ (rs : List (TK × Pat)) (k : TK) (r : List Char),
    pickFrom s rs = some (k, r) → ∃ p, (k, p) ∈ rs ∧ longest p s = some r := by
  intro rs
  induction rs with
  | nil => intro k r h; simp [pickFrom] at h
  | cons kp rest ih =>
    intro k r h
    obtain ⟨k0, p0⟩ := kp
    simp only [pickFrom] at h
    split at h
    · next hl =>
      obtain ⟨p, hp, hlp⟩ := ih k r h
      exact ⟨p, List.mem_cons_of_mem _ hp, hlp⟩
    · next r0 hl hnone =>
      cases h
      exact ⟨p0, List.mem_cons_self .., hl⟩
    · next r0 k' r' hl hsome =>
      split at h
      · cases h
        obtain ⟨p, hp, hlp⟩ := ih k r hsome
        exact ⟨p, List.mem_cons_of_mem _ hp, hlp⟩
      · cases h
        exact ⟨p0, List.mem_cons_self .., hl⟩

theorem pickFrom_matches {rules : List (TK × Pat)} {s r : List Char} {k : TK} (h : pickFrom s rules = some (k, r)) :
    r.length < s.length ∧ ∃ p pre, (k, p) ∈ rules ∧ s = pre ++ r ∧ Matches p pre := by
  obtain ⟨p, hp, hl⟩ := pickFrom_spec s rules k r h
  obtain ⟨hlt, pre, hs, hm⟩ := longest_spec hl
  exact ⟨hlt, p, pre, hp, hs, hm⟩

theorem take_of_append {s pre r : List Char} (h : s = pre ++ r) : s.take (s.length - r.length) = pre := by
  subst h; simp

/-- what a successful run of the lexer returns: a tokenisation of the input in which every token
    text is matched by the rule of its kind -/
inductive Tokenises (rules : List (TK × Pat)) : List Char → List Token → Prop where
  | nil : Tokenises rules [] []
  | cons {s r pre k p ts} : (k, p) ∈ rules → Matches p pre → pre ≠ [] → s = pre ++ r → Tokenises rules r ts →
      Tokenises rules s (⟨k, pre⟩ :: ts)

theorem lexAuxWith_tokenises (rules : List (TK × Pat)) : ∀ (n : Nat) (s : List Char) (pos : Nat) (ts : List Token),
    lexAuxWith rules n s pos = .ok ts → Tokenises rules s ts := by
  intro n
  induction n with
  | zero => intro s pos ts h; simp [lexAuxWith] at h
  | succ n ih =>
    intro s pos ts h
    cases s with
    | nil => simp only [lexAuxWith] at h; cases h; exact .nil
    | cons c cs =>
      simp only [lexAuxWith] at h
      split at h
      · cases h
      · next k r hp =>
        obtain ⟨hlt, p, pre, hmem, hs, hm⟩ := pickFrom_matches hp
        split at h
        · next ts' hrec =>
          cases h
          rw [take_of_append hs]
          have hne : pre ≠ [] := by
            intro hnil; subst hnil; simp at hs; rw [hs] at hlt; omega
          exact .cons hmem hm hne hs (ih r _ ts' hrec)
        · cases h

theorem Tokenises.flatten {rules s ts} (h : Tokenises rules s ts) : (ts.map (·.text)).flatten = s := by
  induction h with
  | nil => rfl
  | cons _ _ _ hs _ ih => simp [ih, hs]

/-- an error position reported by `lexAuxWith` is a position of the input at which no rule of the
    table matches a non-empty prefix (provided the fuel exceeds the remaining length, which
    `lexWith` guarantees) -/
theorem lexAuxWith_error (rules : List (TK × Pat)) : ∀ (n : Nat) (s : List Char) (pos e : Nat), s.length < n →
    lexAuxWith rules n s pos = .error e →
    ∃ pre rest, s = pre ++ rest ∧ rest ≠ [] ∧ e = pos + pre.length ∧ pickFrom rest rules = none := by
  intro n
  induction n with
  | zero => intro s pos e hn; omega
  | succ n ih =>
    intro s pos e hn h
    cases s with
    | nil => simp [lexAuxWith] at h
    | cons c cs =>
      simp only [lexAuxWith] at h
      split at h
      · next hp =>
        cases h
        exact ⟨[], c :: cs, by simp, by simp, by simp, hp⟩
      · next k r hp =>
        obtain ⟨hlt, p, pre, hmem, hs, hm⟩ := pickFrom_matches hp
        split at h
        · cases h
        · next e' hrec =>
          cases h
          have hrl : r.length < n := by
            simp only [List.length_cons] at hn hlt; omega
          obtain ⟨pre2, rest, hr, hne, he, hpick⟩ := ih r _ e hrl hrec
          refine ⟨pre ++ pre2, rest, by rw [hs, hr, List.append_assoc], hne, ?_, hpick⟩
          rw [he, take_of_append hs]; simp; omega

/-- `pickFrom` finds nothing exactly when no rule of the table has a non-empty match -/
theorem pickFrom_none (s : List Char) : ∀ (rs : List (TK × Pat)), pickFrom s rs = none →
    ∀ kp ∈ rs, longest kp.2 s = none := by
  intro rs
  induction rs with
  | nil => intro _ kp h; cases h
  | cons kp0 rest ih =>
    intro h kp hmem
    obtain ⟨k0, p0⟩ := kp0
    simp only [pickFrom] at h
    split at h
    · next hl =>
      rcases List.mem_cons.mp hmem with rfl | hm
      · exact hl
      · exact ih h kp hm
    · cases h
    · split at h <;> cases h

/-! ### alphabets -/

/-- characters a pattern can consume -/
def alpha : Pat → Char → Bool
  | .eps, _ => false
  | .set cs, c => cs.mem c
  | .seq a b, c => alpha a c || alpha b c
  | .alt a b, c => alpha a c || alpha b c
  | .opt a, c => alpha a c
  | .star a, c => alpha a c
  | .plus a, c => alpha a c

theorem Matches.alpha {p : Pat} {w : List Char} (h : Matches p w) : ∀ c ∈ w, alpha p c = true := by
  induction h with
  | eps => intro c hc; cases hc
  | set hm => intro c hc; simp only [List.mem_singleton] at hc; subst hc; simpa [C10.alpha] using hm
  | seq _ _ ih1 ih2 =>
    intro c hc
    rcases List.mem_append.mp hc with h | h
    · simp [C10.alpha, ih1 c h]
    · simp [C10.alpha, ih2 c h]
  | altL _ ih => intro c hc; simp [C10.alpha, ih c hc]
  | altR _ ih => intro c hc; simp [C10.alpha, ih c hc]
  | optNone => intro c hc; cases hc
  | optSome _ ih => intro c hc; simpa [C10.alpha] using ih c hc
  | starNil => intro c hc; cases hc
  | starSnoc _ _ ih1 ih2 =>
    intro c hc
    rcases List.mem_append.mp hc with h | h
    · exact ih1 c h
    · simpa [C10.alpha] using ih2 c h
  | plus _ _ ih1 ih2 =>
    intro c hc
    rcases List.mem_append.mp hc with h | h
    · simpa [C10.alpha] using ih1 c h
    · simpa [C10.alpha] using ih2 c h

/-- the positive ranges of a pattern without negated sets -/
def posRanges : Pat → Option (List (Nat × Nat))
  | .eps => some []
  | .set cs => if cs.neg then none else some cs.ranges
  | .seq a b => do let x ← posRanges a; let y ← posRanges b; pure (x ++ y)
  | .alt a b => do let x ← posRanges a; let y ← posRanges b; pure (x ++ y)
  | .opt a => posRanges a
  | .star a => posRanges a
  | .plus a => posRanges a

theorem inRanges_append (a b : List (Nat × Nat)) (c : Char) :
    inRanges (a ++ b) c = (inRanges a c || inRanges b c) := by
  simp [inRanges, List.any_append]

theorem alpha_posRanges : ∀ (p : Pat) (rs : List (Nat × Nat)) (c : Char),
    posRanges p = some rs → alpha p c = true → inRanges rs c = true := by
  intro p
  induction p with
  | eps => intro rs c _ h; simp [alpha] at h
  | set cs =>
    intro rs c hr h
    simp only [posRanges] at hr
    split at hr
    · cases hr
    · next hneg =>
      cases hr
      simpa [alpha, CharSet.mem, hneg] using h
  | seq a b iha ihb =>
    intro rs c hr h
    simp only [posRanges] at hr
    cases ha : posRanges a with
    | none => simp [ha] at hr
    | some x =>
      cases hb : posRanges b with
      | none => simp [ha, hb] at hr
      | some y =>
        simp [ha, hb] at hr
        subst hr
        rw [inRanges_append]
        simp only [alpha, Bool.or_eq_true] at h
        rcases h with h | h
        · simp [iha x c ha h]
        · simp [ihb y c hb h]
  | alt a b iha ihb =>
    intro rs c hr h
    simp only [posRanges] at hr
    cases ha : posRanges a with
    | none => simp [ha] at hr
    | some x =>
      cases hb : posRanges b with
      | none => simp [ha, hb] at hr
      | some y =>
        simp [ha, hb] at hr
        subst hr
        rw [inRanges_append]
        simp only [alpha, Bool.or_eq_true] at h
        rcases h with h | h
        · simp [iha x c ha h]
        · simp [ihb y c hb h]
  | opt a ih => intro rs c hr h; exact ih rs c hr h
  | star a ih => intro rs c hr h; exact ih rs c hr h
  | plus a ih => intro rs c hr h; exact ih rs c hr h

/-- code points that occur in some token other than inside a string literal:
    white space, `! " ' ( ) + , - . 0-9 : < = > A-Z [ \ ] _ a-z` -/
def recognisedRanges : List (Nat × Nat) :=
  [(9, 10), (13, 13), (32, 34), (39, 41), (43, 46), (48, 58), (60, 62), (65, 93), (95, 95), (97, 122)]

def recognised (c : Char) : Bool := inRanges recognisedRanges c

def rangesWithin (rs big : List (Nat × Nat)) : Bool :=
  rs.all fun r => big.any fun b => b.1 ≤ r.1 && r.2 ≤ b.2

theorem inRanges_within {rs big : List (Nat × Nat)} (h : rangesWithin rs big = true) (c : Char)
    (hc : inRanges rs c = true) : inRanges big c = true := by
  simp only [inRanges, List.any_eq_true, Bool.and_eq_true, decide_eq_true_eq] at hc ⊢
  obtain ⟨r, hr, h1, h2⟩ := hc
  simp only [rangesWithin, List.all_eq_true, List.any_eq_true, Bool.and_eq_true, decide_eq_true_eq] at h
  obtain ⟨b, hb, hb1, hb2⟩ := h r hr
  exact ⟨b, hb, by omega, by omega⟩

/-- every rule except STRING only consumes recognised characters (checked on the rule table) -/
def ruleAlphabetOk (kp : TK × Pat) : Bool :=
  kp.1 == .STRING ||
    match posRanges kp.2 with
    | some rs => rangesWithin rs recognisedRanges
    | none => false

/-- can the pattern match the empty string -/
def nullable : Pat → Bool
  | .eps => true
  | .set _ => false
  | .seq a b => nullable a && nullable b
  | .alt a b => nullable a || nullable b
  | .opt _ => true
  | .star _ => true
  | .plus a => nullable a

/-- **well-formedness of a lexer rule table** (decidable; instantiated by `decide` at the table
    compiled from the regenerated grammar file):
    * there is exactly one rule per token type, in the order of the ANTLR token numbers
      (`TK.num`), so "the rule of a token's kind" is well defined and the numbers the harness
      compares are the positions in the table;
    * no rule matches the empty string (ANTLR rejects such grammars; maximal munch never emits
      an empty token);
    * every rule except STRING consumes only characters of the recognised alphabet, and contains
      no negated set. -/
def GoodTable (rules : List (TK × Pat)) : Bool :=
  rules.map (·.1) == TK.all && rules.all (fun kp => !nullable kp.2) && rules.all ruleAlphabetOk

theorem GoodTable.kinds {rules} (h : GoodTable rules = true) : rules.map (·.1) = TK.all := by
  simp only [GoodTable, Bool.and_eq_true, beq_iff_eq] at h; exact h.1.1

theorem GoodTable.alphabet {rules} (h : GoodTable rules = true) : ∀ kp ∈ rules, ruleAlphabetOk kp = true := by
  simp only [GoodTable, Bool.and_eq_true, List.all_eq_true] at h; exact h.2

theorem TK.all_nodup : TK.all.Nodup := by decide

/-- in a good table the rule of a kind is unique -/
theorem GoodTable.rule_unique {rules} (h : GoodTable rules = true) {k : TK} {p q : Pat}
    (hp : (k, p) ∈ rules) (hq : (k, q) ∈ rules) : p = q := by
  have hnd : (rules.map (·.1)).Nodup := by rw [GoodTable.kinds h]; exact TK.all_nodup
  clear h
  induction rules with
  | nil => cases hp
  | cons x xs ih =>
    simp only [List.map_cons, List.nodup_cons, List.mem_map, not_exists, not_and] at hnd
    rcases List.mem_cons.mp hp with rfl | hp'
    · rcases List.mem_cons.mp hq with hq' | hq'
      · cases hq'; rfl
      · exact absurd rfl (hnd.1 (k, q) hq')
    · rcases List.mem_cons.mp hq with rfl | hq'
      · exact absurd rfl (hnd.1 (k, p) hp')
      · exact ih hp' hq' hnd.2

/-- in a tokenisation by a good table, a character outside the recognised alphabet occurs only
    inside STRING tokens -/
theorem Tokenises.recognised {rules s ts} (hg : GoodTable rules = true) (ht : Tokenises rules s ts) :
    ∀ t ∈ ts, t.kind ≠ .STRING → ∀ c ∈ t.text, recognised c = true := by
  induction ht with
  | nil => intro t ht; cases ht
  | cons hmem hm _ _ _ ih =>
    intro t ht hk c hc
    rcases List.mem_cons.mp ht with rfl | ht'
    · have hok := GoodTable.alphabet hg _ hmem
      simp only [ruleAlphabetOk, Bool.or_eq_true, beq_iff_eq] at hok
      rcases hok with hs | hr
      · exact absurd hs hk
      · split at hr
        · next rs hrs => exact inRanges_within hr c (alpha_posRanges _ rs c hrs (hm.alpha c hc))
        · cases hr
    · exact ih t ht' hk c hc

/-- in a good table every kind has a rule -/
theorem GoodTable.rule_exists {rules} (h : GoodTable rules = true) (k : TK) : ∃ p, (k, p) ∈ rules := by
  have hk : k ∈ rules.map (·.1) := by rw [GoodTable.kinds h]; cases k <;> decide
  obtain ⟨kp, hm, rfl⟩ := List.mem_map.mp hk
  exact ⟨kp.2, hm⟩

end StorageModel.C10
