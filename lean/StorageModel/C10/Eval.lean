import StorageModel.C10.Transform
/-
  C10 — model of the Eval* methods of the typed nodes (ast/node_expr.go, node_arrays.go,
  node_set.go, node_symbol.go, node_const.go, node_convert.go) against an arbitrary dataset.

  Go pointers (`*string`, `*int64`, …) are `Option`s; a dereference `*p` is `deref`, which
  panics on `none`.  The nil tests are written where the Go code has them, so that freedom from
  panics is a theorem about the guards and not a property of the notation.  Calling an Eval
  method a class does not have is impossible in Go (the field types are interfaces); the model
  returns `panic` there, and the theorem shows the transformation never builds such a tree.
-/
namespace StorageModel.C10

/-- a stored field value -/
inductive FV where
  | null | str (s : List Char) | int (i : Int) | flt (q : Rat) | bool (b : Bool) | dt (ns : Int)
deriving DecidableEq, Repr

/-- a row of a store: scalar fields, set-valued fields, linked child rows per entity-set symbol -/
inductive Row where
  | mk (scalars : List (Name × FV)) (sets : List (Name × List FV)) (kids : List (Name × List Row))

def lookupName {α} (n : Name) : List (Name × α) → Option α
  | [] => none
  | (k, v) :: rest => if k == n then some v else lookupName n rest

def Row.scalar : Row → Name → FV | .mk s _ _, n => (lookupName n s).getD .null
def Row.kids : Row → Name → List Row | .mk _ _ k, n => (lookupName n k).getD []
/-- elements a set cursor over `n` serves: the value set, or the ids "k0","k1",… of the linked rows -/
def Row.setElems : Row → Name → List FV
  | .mk _ s k, n =>
    match lookupName n s with
    | some l => l
    | none => (List.range ((lookupName n k).getD []).length).map fun i => FV.str ('k' :: (toString i).toList)

/-- an `ast.Symbols`: a row plus, per set symbol, what is left of the cursor opened on it most
    recently (head = current element; the state survives the loop that opened the cursor, exactly as
    the cursor objects of a Symbols implementation do) -/
structure Env where
  row : Row
  cur : List (Name × List FV)

def Env.value (e : Env) (n : Name) : FV :=
  match lookupName n e.cur with
  | some (v :: _) => v
  | _ => e.row.scalar n

/-- `OpenSetCursor(n)` positioned on `vs` (also: the cursor after `Next` / `SeekToString`) -/
def Env.openAt (e : Env) (n : Name) (vs : List FV) : Env := { e with cur := (n, vs) :: e.cur }

/-! ### what the Symbols methods return (harness/c10_query.go implements the same table) -/

def digitsOfNat (n : Nat) : List Char := (toString n).toList

def formatInt (i : Int) : List Char :=
  if i < 0 then '-' :: digitsOfNat i.natAbs else digitsOfNat i.natAbs

def fracDigits : Nat → Nat → Nat → List Char
  | 0, _, _ => []
  | fuel + 1, r, d => if r == 0 then [] else
    let x := r * 10
    Char.ofNat (48 + x / d) :: fracDigits fuel (x % d) d

/-- strconv.FormatFloat(v, 'f', -1, 64) for a value that is a short finite decimal -/
def formatRat (q : Rat) : List Char :=
  let n := q.num.natAbs
  let d := q.den
  let ip := digitsOfNat (n / d)
  let fp := fracDigits 40 (n % d) d
  (if q.num < 0 then ['-'] else []) ++ ip ++ (if fp.isEmpty then [] else '.' :: fp)

def symEvalBool (v : FV) : Option Bool := match v with | .bool b => some b | _ => none
def symEvalString (v : FV) : Option (List Char) :=
  match v with
  | .str s => some s
  | .int i => some (formatInt i)
  | .flt q => some (formatRat q)
  | .bool b => some (if b then "true".toList else "false".toList)
  | _ => none
def symEvalInt64 (v : FV) : Option Int := match v with | .int i => some i | _ => none
def symEvalFloat64 (v : FV) : Option Rat := match v with | .flt q => some q | .int i => some (i : Rat) | _ => none
def symEvalDatetime (v : FV) : Option Int := match v with | .dt t => some t | _ => none
def symIsNil (v : FV) : Bool := match v with | .null => true | _ => false

/-- `*p` -/
def deref {α} (site : String) : Option α → Outcome α
  | some a => .ok a
  | none => .panic site

def noMethod {α} (m : String) : Outcome α := .panic ("no method " ++ m)

def charsLt : List Char → List Char → Bool
  | [], [] => false
  | [], _ :: _ => true
  | _ :: _, [] => false
  | a :: as, b :: bs => if a < b then true else if b < a then false else charsLt as bs

/-- the comparison switch shared by the Binary*ExprNode.EvalBool methods, on dereferenced values -/
def cmpOp {α} (lt : α → α → Bool) (eq : α → α → Bool) (op : BinOp) (a b : α) : Bool :=
  match op with
  | .eq => eq a b
  | .neq => !eq a b
  | .lt => lt a b
  | .lte => !lt b a
  | .gt => lt b a
  | .gte => !lt a b
  | _ => false        -- "unhandled … binary expression type": logged, false

/-- `if leftResult == nil || rightResult == nil { if op == NEQ { return left != right }; return false }`
    followed by the switch with its dereferences -/
def binCompare {α} (site : String) (lt eq : α → α → Bool) (op : BinOp) (l r : Option α) : Outcome Bool :=
  if l.isNone || r.isNone then
    if op == .neq then .ok (l.isSome != r.isSome) else .ok false
  else do
    let a ← deref (site ++ ": *leftResult") l
    let b ← deref (site ++ ": *rightResult") r
    .ok (cmpOp lt eq op a b)

/-- `for cursor.IsValid() { if predicate.EvalBool(s) { return true }; cursor.Next() }; return false` -/
def anyLoop (f : Env → Outcome (Bool × Env)) (n : Name) : List FV → Env → Outcome (Bool × Env)
  | [], e => .ok (false, e.openAt n [])
  | v :: rest, e => do
    let (b, e1) ← f (e.openAt n (v :: rest))
    if b then .ok (true, e1) else anyLoop f n rest e1

/-- `for cursor.IsValid() { if !predicate.EvalBool(s) { return false }; cursor.Next() }; return true` -/
def allLoop (f : Env → Outcome (Bool × Env)) (n : Name) : List FV → Env → Outcome (Bool × Env)
  | [], e => .ok (true, e.openAt n [])
  | v :: rest, e => do
    let (b, e1) ← f (e.openAt n (v :: rest))
    if b then allLoop f n rest e1 else .ok (false, e1)

/-- OpenSetCursorForQuery: the linked rows (by position) the sub-query accepts; each linked row is
    evaluated through a fresh Symbols -/
def filterKids (f : Row → Outcome Bool) : Nat → List Row → Outcome (List FV)
  | _, [] => .ok []
  | i, r :: rest => do
    let b ← f r
    let more ← filterKids f (i + 1) rest
    .ok (if b then FV.str ('k' :: (toString i).toList) :: more else more)

/-- `for _, rightNode := range node.right.values { right := rightNode.Eval…; if left != nil && right != nil { if *left == *right …` -/
def inLoop {α} (site : String) (eq : α → α → Bool) (left : Option α) : List (Option α) → Outcome Bool
  | [] => .ok false
  | right :: rest =>
    if left.isSome && right.isSome then do
      let a ← deref (site ++ ": *left") left
      let b ← deref (site ++ ": *right") right
      if eq a b then .ok true else inLoop site eq left rest
    else inLoop site eq left rest

def litString : Lit → Option (List Char)
  | .str s => some s
  | .int i => some (formatInt i)
  | .flt q => some (formatRat q)
  | .dt _ => none
def litInt : Lit → Option Int | .int i => some i | _ => none
def litFlt : Lit → Option Rat | .flt q => some q | _ => none
def litDt : Lit → Option Int | .dt t => some t | _ => none

/-- `[lower, upper)` with the three nil tests in the order of the Go code -/
def betweenEval {α} (site : String) (lt : α → α → Bool) (l lo hi : Option α) : Outcome Bool :=
  if l.isNone then .ok false else
  if lo.isNone then .ok false else
  if hi.isNone then .ok false else do
    let a ← deref (site ++ ": *leftResult") l
    let b ← deref (site ++ ": *lowerResult") lo
    let c ← deref (site ++ ": *upperResult") hi
    .ok (!lt a b && lt a c)

/-- elements of a string set at or after `v` (SeekToString on a sorted set) -/
def seekFrom (v : List Char) : List FV → List FV
  | [] => []
  | .str s :: rest => if charsLt s v then seekFrom v rest else .str s :: rest
  | _ :: rest => seekFrom v rest

/-- `count(x)` without a query: the cursor over a value set or over the linked rows -/
def countPlain (e : Env) (n : Name) : Int := ((e.row.setElems n).length : Nat)

/-- `isNilBoolOperand(s, node)`: a bool symbol whose value is null or not a bool -/
def isNilBoolOperand (e : Env) : T → Bool
  | .symT .bool n => (symEvalBool (e.value n)).isNone
  | .symT .anyType n => (symEvalBool (e.value n)).isNone
  | _ => false

mutual
def evalBool (seekable : Bool) : Env → T → Outcome (Bool × Env)
  | e, .boolC b => .ok (b, e)
  | e, .symT k n =>
    if k == .bool || k == .anyType then
      -- result := s.EvalBool(name); return result != nil && *result
      let r := symEvalBool (e.value n)
      if r.isSome then do let b ← deref "SymbolNode.EvalBool: *result" r; .ok (b, e) else .ok (false, e)
    else noMethod "EvalBool"
  | e, .notE x => do let (v, e1) ← evalBool seekable e x; .ok (!v, e1)
  | e, .andE l r => do
    let (a, e1) ← evalBool seekable e l
    if !a then .ok (false, e1) else evalBool seekable e1 r
  | e, .orE l r => do
    let (a, e1) ← evalBool seekable e l
    if a then .ok (true, e1) else evalBool seekable e1 r
  | e, .binBool op l r =>
    -- the null rule first: isNilBoolOperand is a type switch on *BoolSymbolNode / *AnyTypeSymbolNode
    let leftNil := isNilBoolOperand e l
    let rightNil := isNilBoolOperand e r
    if leftNil || rightNil then
      if op == .neq then .ok (leftNil != rightNil, e) else .ok (false, e)
    else do
      let (a, e1) ← evalBool seekable e l
      let (b, e2) ← evalBool seekable e1 r
      match op with
      | .eq => .ok (a == b, e2)
      | .neq => .ok (a != b, e2)
      | _ => .ok (false, e2)
  | e, .binDt op l r => do
    let (a, e1) ← evalDatetime seekable e l
    let (b, e2) ← evalDatetime seekable e1 r
    let v ← binCompare "BinaryDatetimeExprNode.EvalBool" (fun (x y : Int) => decide (x < y)) (· == ·) op a b
    .ok (v, e2)
  | e, .binFlt op l r => do
    let (a, e1) ← evalFloat64 seekable e l
    let (b, e2) ← evalFloat64 seekable e1 r
    let v ← binCompare "BinaryFloat64ExprNode.EvalBool" (fun (x y : Rat) => decide (x < y)) (· == ·) op a b
    .ok (v, e2)
  | e, .binInt op l r => do
    let (a, e1) ← evalInt64 seekable e l
    let (b, e2) ← evalInt64 seekable e1 r
    let v ← binCompare "BinaryInt64ExprNode.EvalBool" (fun (x y : Int) => decide (x < y)) (· == ·) op a b
    .ok (v, e2)
  | e, .binStr op l r => do
    let (a, e1) ← evalString seekable e l
    let (b, e2) ← evalString seekable e1 r
    if a.isNone || b.isNone then
      if op == .neq then .ok (a.isSome != b.isSome, e2)
      else if op == .notContains || op == .notIContains then .ok (true, e2)
      else .ok (false, e2)
    else do
      let x ← deref "BinaryStringExprNode.EvalBool: *leftResult" a
      let y ← deref "BinaryStringExprNode.EvalBool: *rightResult" b
      match op with
      | .contains => .ok (containsSub y x, e2)
      | .notContains => .ok (!containsSub y x, e2)
      | op => .ok (cmpOp charsLt (· == ·) op x y, e2)
  | e, .isNil s op =>
    let isNil := symIsNil (e.value s.symbolName)
    match op with
    | .eq => .ok (isNil, e)
    | .neq => .ok (!isNil, e)
    | _ => .ok (true, e)
  | e, .intBtw l lo hi => do
    let (a, e1) ← evalInt64 seekable e l
    if a.isNone then .ok (false, e1) else
    let (b, e2) ← evalInt64 seekable e1 lo
    if b.isNone then .ok (false, e2) else
    let (c, e3) ← evalInt64 seekable e2 hi
    let v ← betweenEval "Int64BetweenExprNode.EvalBool" (fun (x y : Int) => decide (x < y)) a b c
    .ok (v, e3)
  | e, .fltBtw l lo hi => do
    let (a, e1) ← evalFloat64 seekable e l
    if a.isNone then .ok (false, e1) else
    let (b, e2) ← evalFloat64 seekable e1 lo
    if b.isNone then .ok (false, e2) else
    let (c, e3) ← evalFloat64 seekable e2 hi
    let v ← betweenEval "Float64BetweenExprNode.EvalBool" (fun (x y : Rat) => decide (x < y)) a b c
    .ok (v, e3)
  | e, .dtBtw l lo hi => do
    let (a, e1) ← evalDatetime seekable e l
    if a.isNone then .ok (false, e1) else
    let (b, e2) ← evalDatetime seekable e1 lo
    if b.isNone then .ok (false, e2) else
    let (c, e3) ← evalDatetime seekable e2 hi
    let v ← betweenEval "DatetimeBetweenExprNode.EvalBool" (fun (x y : Int) => decide (x < y)) a b c
    .ok (v, e3)
  | e, .inStr l arr => do
    let (a, e1) ← evalString seekable e l
    let v ← inLoop "InStringArrayExprNode.EvalBool" (· == ·) a (arr.map litString)
    .ok (v, e1)
  | e, .inInt l arr => do
    let (a, e1) ← evalInt64 seekable e l
    let v ← inLoop "InInt64ArrayExprNode.EvalBool" (· == ·) a (arr.map litInt)
    .ok (v, e1)
  | e, .inFlt l arr => do
    let (a, e1) ← evalFloat64 seekable e l
    let v ← inLoop "InFloat64ArrayExprNode.EvalBool" (· == ·) a (arr.map litFlt)
    .ok (v, e1)
  | e, .inDt l arr => do
    let (a, e1) ← evalDatetime seekable e l
    let v ← inLoop "InDatetimeArrayExprNode.EvalBool" (· == ·) a (arr.map litDt)
    .ok (v, e1)
  | e, .allOf n p => allLoop (fun e' => evalBool seekable e' p) n (e.row.setElems n) e
  | e, .anyOf n p seek =>
    if seek && seekable then do
      -- cursor := s.OpenSetCursor(name); EvalBoolWithSeek: rightResult := node.right.EvalString(s);
      -- if rightResult != nil { SeekToString(*rightResult); if IsValid { return node.EvalBool(s) } }; return false
      let e0 := e.openAt n (e.row.setElems n)
      let (rr, e1) ← (match p with
        | .binStr _ _ r => evalString seekable e0 r
        | _ => noMethod "EvalBoolWithSeek")
      if rr.isSome then do
        let v ← deref "BinaryStringExprNode.EvalBoolWithSeek: *rightResult" rr
        let rem := seekFrom v (e.row.setElems n)
        let e2 := e1.openAt n rem
        match rem with
        | [] => .ok (false, e2)
        | _ :: _ => evalBool seekable e2 p
      else .ok (false, e1)
    else anyLoop (fun e' => evalBool seekable e' p) n (e.row.setElems n) e
  | e, .isEmptySet s =>
    let vs := e.row.setElems s.symbolName
    .ok (vs.isEmpty, e.openAt s.symbolName vs)
  | e, .isEmptySetQ s q => do
    let vs ← filterKids (fun r => do let (b, _) ← evalBool seekable ⟨r, []⟩ q; .ok b) 0 (e.row.kids s.symbolName)
    .ok (vs.isEmpty, e.openAt s.symbolName vs)
  | e, .query p _ _ _ => evalBool seekable e p
  | _, _ => noMethod "EvalBool"

def evalString (seekable : Bool) : Env → T → Outcome (Option (List Char) × Env)
  | e, .lit l =>
    match l with
    | .dt _ => noMethod "EvalString"
    | l => .ok (litString l, e)
  | e, .symT k n =>
    match k with
    | .string | .anyType => .ok (symEvalString (e.value n), e)
    | .int64 =>
      -- int64Val := s.EvalInt64(name); if int64Val != nil { FormatInt(*int64Val) }
      let r := symEvalInt64 (e.value n)
      if r.isSome then do let i ← deref "Int64SymbolNode.EvalString: *int64Val" r; .ok (some (formatInt i), e) else .ok (none, e)
    | .float64 =>
      let r := symEvalFloat64 (e.value n)
      if r.isSome then do let q ← deref "Float64SymbolNode.EvalString: *float64Val" r; .ok (some (formatRat q), e) else .ok (none, e)
    | _ => noMethod "EvalString"
  | e, .i2f w => evalString seekable e w
  | e, .strFunc x => do
    -- result := self.expr.EvalString(s); if result == nil { return nil }; val := self.f(*result)
    let (r, e1) ← evalString seekable e x
    if r.isNone then .ok (none, e1) else do
      let s ← deref "StringFuncNode.EvalString: *result" r
      .ok (some (s.map Char.toUpper), e1)
  | e, .countSet s =>
    -- result := node.EvalInt64(s); if result == nil { return nil }; FormatInt(*result)
    let r : Option Int := some (countPlain e s.symbolName)
    if r.isNone then .ok (none, e) else do
      let i ← deref "CountSetExprNode.EvalString: *result" r
      .ok (some (formatInt i), e.openAt s.symbolName [])
  | e, .countSetQ s q => do
    let vs ← filterKids (fun r => do let (b, _) ← evalBool seekable ⟨r, []⟩ q; .ok b) 0 (e.row.kids s.symbolName)
    let r : Option Int := some (vs.length : Nat)
    if r.isNone then .ok (none, e) else do
      let i ← deref "CountSetExprNode.EvalString: *result" r
      .ok (some (formatInt i), e.openAt s.symbolName [])
  | _, _ => noMethod "EvalString"

def evalInt64 (seekable : Bool) : Env → T → Outcome (Option Int × Env)
  | e, .lit (.int i) => .ok (some i, e)
  | e, .symT k n => if k == .int64 || k == .anyType then .ok (symEvalInt64 (e.value n), e) else noMethod "EvalInt64"
  | e, .countSet s => .ok (some (countPlain e s.symbolName), e.openAt s.symbolName [])
  | e, .countSetQ s q => do
    let vs ← filterKids (fun r => do let (b, _) ← evalBool seekable ⟨r, []⟩ q; .ok b) 0 (e.row.kids s.symbolName)
    .ok (some ((vs.length : Nat) : Int), e.openAt s.symbolName [])
  | _, _ => noMethod "EvalInt64"

def evalFloat64 (seekable : Bool) : Env → T → Outcome (Option Rat × Env)
  | e, .lit (.flt q) => .ok (some q, e)
  | e, .symT k n => if k == .float64 || k == .anyType then .ok (symEvalFloat64 (e.value n), e) else noMethod "EvalFloat64"
  | e, .i2f w => do
    -- result := node.wrapped.EvalInt64(s); if result == nil { return nil }; float64(*result)
    let (r, e1) ← evalInt64 seekable e w
    if r.isNone then .ok (none, e1) else do let i ← deref "Int64ToFloat64Node.EvalFloat64: *result" r; .ok (some (i : Rat), e1)
  | _, _ => noMethod "EvalFloat64"

def evalDatetime (seekable : Bool) : Env → T → Outcome (Option Int × Env)
  | e, .lit (.dt t) => .ok (some t, e)
  | e, .symT k n => if k == .datetime || k == .anyType then .ok (symEvalDatetime (e.value n), e) else noMethod "EvalDatetime"
  | _, _ => noMethod "EvalDatetime"
end

/-- `Query.EvalBool(symbols)` with fresh Symbols over a row -/
def evalRow (seekable : Bool) (t : T) (row : Row) : Outcome Bool :=
  match evalBool seekable ⟨row, []⟩ t with
  | .ok (b, _) => .ok b
  | .err e => .err e
  | .panic p => .panic p

end StorageModel.C10
