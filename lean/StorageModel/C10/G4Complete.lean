import StorageModel.C10.G4Proofs
/-
  C10 — the converse of G4Proofs: every derivation of `start` in the parser rules of the grammar
  file (`G4.Derives` over `expectedParserRules`) is the yield of a well-formed derivation tree.
  `Interp` reads a right-hand side as a statement about token lists, with every nonterminal
  replaced by "is the yield of a well-formed tree of that kind" (`NT`); the induction over
  derivations needs, per grammar rule, that the rule's body read this way yields such a tree.
-/
namespace StorageModel.C10
open G4

/-- what a nonterminal of the grammar file means in terms of the derivation trees -/
def NT (name : String) (ts : List Token) : Prop :=
  if name = "stringArray" then ∃ a : ArrTree, a.kind = .str ∧ a.yield = ts ∧ a.wf = true
  else if name = "numberArray" then ∃ a : ArrTree, a.kind = .num ∧ a.yield = ts ∧ a.wf = true
  else if name = "datetimeArray" then ∃ a : ArrTree, a.kind = .dt ∧ a.yield = ts ∧ a.wf = true
  else if name = "start" then ∃ t : StartTree, t.yield = ts ∧ t.wf = true
  else if name = "query" then ∃ q : QueryTree, q.yield = ts ∧ q.wf = true
  else if name = "skip" then ∃ k : KwNumTree, k.yield = ts ∧ skipWf k = true
  else if name = "limit" then ∃ k : KwNumTree, k.yield = ts ∧ limitWf k = true
  else if name = "sortBy" then ∃ s : SortByTree, s.yield = ts ∧ s.wf = true
  else if name = "sortField" then ∃ f : SortFieldTree, f.yield = ts ∧ f.wf = true
  else if name = "boolExpr" ∨ name = "operation" then ∃ e : BoolTree, e.yield = ts ∧ e.wf = true
  else if name = "binaryLhs" ∨ name = "setFunction" then ∃ l : LhsTree, l.yield = ts ∧ l.wf = true
  else if name = "setExpr" ∨ name = "subQueryExpr" then ∃ s : SetExprTree, s.yield = ts ∧ s.wf = true
  else False

/-- a right-hand side read as a statement about token lists -/
def Interp : Rx → List Token → Prop
  | .eps, ts => ts = []
  | .lit cps, ts => ∃ t k, ts = [t] ∧ litKind cps = some k ∧ t.kind = k
  | .set _ _, _ => False
  | .ref name, ts =>
    if isLexerName name = true then
      (if name = "EOF" then ts = [] else ∃ t k, ts = [t] ∧ TK.ofName name = some k ∧ t.kind = k)
    else NT name ts
  | .seq a b, ts => ∃ x y, ts = x ++ y ∧ Interp a x ∧ Interp b y
  | .alt a b, ts => Interp a ts ∨ Interp b ts
  | .opt a, ts => ts = [] ∨ Interp a ts
  | .star a, ts => ∃ parts : List (List Token), ts = parts.flatten ∧ ∀ p ∈ parts, Interp a p
  | .plus a, ts => ∃ (p : List Token) (parts : List (List Token)), ts = p ++ parts.flatten ∧ Interp a p ∧ ∀ q ∈ parts, Interp a q

theorem kinds_eq_nil {ts : List Token} (h : kinds ts = []) : ts = [] := by
  simpa [kinds] using h

theorem kinds_eq_singleton {ts : List Token} {k : TK} (h : kinds ts = [k]) : ∃ t, ts = [t] ∧ t.kind = k := by
  cases ts with
  | nil => simp [kinds] at h
  | cons t r =>
    cases r with
    | nil => simp [kinds] at h; exact ⟨t, rfl, h⟩
    | cons _ _ => simp [kinds] at h

theorem kinds_eq_append {ts : List Token} {x y : List TK} (h : kinds ts = x ++ y) :
    ∃ tx ty, ts = tx ++ ty ∧ kinds tx = x ∧ kinds ty = y := by
  unfold kinds at h
  obtain ⟨tx, ty, h1, h2, h3⟩ := List.map_eq_append_iff.mp h
  exact ⟨tx, ty, h1, h2, h3⟩

/-- the rule-by-rule obligation: the body of a parser rule, read through `Interp`, yields a tree -/
def RulesOK : Prop := ∀ (name : String) (r : Rule) (ts : List Token),
  isLexerName name = false → findRule PG name = some r → Interp r.body ts → NT name ts

theorem derives_interp (hr : RulesOK) {rx : Rx} {ks : List TK} (h : Derives PG rx ks) :
    ∀ ts, kinds ts = ks → Interp rx ts := by
  induction h with
  | eps => intro ts h; exact kinds_eq_nil h
  | eof =>
    intro ts h
    have : ts = [] := kinds_eq_nil h
    have hl : isLexerName "EOF" = true := by decide
    simp only [Interp, hl, if_true, this]
  | @tok name k hl hk =>
    intro ts h
    obtain ⟨t, rfl, htk⟩ := kinds_eq_singleton h
    have hne : name ≠ "EOF" := by
      intro he; subst he
      have : TK.ofName "EOF" = none := by decide
      rw [this] at hk; cases hk
    simp only [Interp, hl, if_true, hne, if_false]
    exact ⟨t, k, rfl, hk, htk⟩
  | @lit cps k hk =>
    intro ts h
    obtain ⟨t, rfl, htk⟩ := kinds_eq_singleton h
    exact ⟨t, k, rfl, hk, htk⟩
  | @rule name r w hl hf _ ih =>
    intro ts h
    simp only [Interp, hl, Bool.false_eq_true, if_false]
    exact hr name r ts hl hf (ih ts h)
  | seq _ _ iha ihb =>
    intro ts h
    obtain ⟨tx, ty, rfl, hx, hy⟩ := kinds_eq_append h
    exact ⟨tx, ty, rfl, iha tx hx, ihb ty hy⟩
  | altL _ ih => intro ts h; exact .inl (ih ts h)
  | altR _ ih => intro ts h; exact .inr (ih ts h)
  | optNone => intro ts h; exact .inl (kinds_eq_nil h)
  | optSome _ ih => intro ts h; exact .inr (ih ts h)
  | starNil => intro ts h; exact ⟨[], by simp [kinds_eq_nil h], by simp⟩
  | starCons _ _ iha ihs =>
    intro ts h
    obtain ⟨tx, ty, rfl, hx, hy⟩ := kinds_eq_append h
    obtain ⟨parts, hp, hall⟩ := ihs ty hy
    refine ⟨tx :: parts, by simp [hp], ?_⟩
    intro p hp'
    rcases List.mem_cons.mp hp' with rfl | hp'
    · exact iha _ hx
    · exact hall p hp'
  | plus _ _ iha ihs =>
    intro ts h
    obtain ⟨tx, ty, rfl, hx, hy⟩ := kinds_eq_append h
    obtain ⟨parts, hp, hall⟩ := ihs ty hy
    exact ⟨tx, parts, by rw [hp], iha tx hx, hall⟩

/-! ### reading the pieces -/

theorem interp_tok (name : String) (k : TK) (hl : isLexerName name = true) (hne : name ≠ "EOF") (hk : TK.ofName name = some k)
    {ts : List Token} (h : Interp (.ref name) ts) : ∃ t, ts = [t] ∧ kindIs t k = true := by
  simp only [Interp, hl, if_true, hne, if_false] at h
  obtain ⟨t, k', rfl, hk', htk⟩ := h
  rw [hk] at hk'; cases hk'
  exact ⟨t, rfl, by simp [kindIs, htk]⟩

theorem interp_comma {ts : List Token} (h : Interp (.lit [44]) ts) : ∃ t, ts = [t] ∧ kindIs t .COMMA = true := by
  obtain ⟨t, k, rfl, hk, htk⟩ := h
  have : litKind [44] = some .COMMA := by decide
  rw [this] at hk; cases hk
  exact ⟨t, rfl, by simp [kindIs, htk]⟩

theorem interp_nt (name : String) (hl : isLexerName name = false) {ts : List Token} (h : Interp (.ref name) ts) : NT name ts := by
  simpa only [Interp, hl, Bool.false_eq_true, if_false] using h

theorem allWS_append (a b : WSs) : allWS (a ++ b) = (allWS a && allWS b) := by simp [allWS]

theorem allWS_flatten (parts : List (List Token)) (h : ∀ p ∈ parts, ∃ t, p = [t] ∧ kindIs t .WS = true) :
    allWS parts.flatten = true := by
  induction parts with
  | nil => rfl
  | cons p ps ih =>
    obtain ⟨t, rfl, ht⟩ := h p (List.mem_cons_self ..)
    have := ih fun q hq => h q (List.mem_cons_of_mem _ hq)
    simp only [List.flatten_cons, List.singleton_append, allWS_cons, this, Bool.and_true]
    exact ht

theorem interp_wsStar {ts : List Token} (h : Interp (.star (.ref "WS")) ts) : allWS ts = true := by
  obtain ⟨parts, rfl, hall⟩ := h
  exact allWS_flatten parts fun p hp => interp_tok "WS" .WS (by decide) (by decide) (by decide) (hall p hp)

theorem interp_wsPlus {ts : List Token} (h : Interp (.plus (.ref "WS")) ts) : allWS ts = true ∧ ts.isEmpty = false := by
  obtain ⟨p, parts, rfl, hp, hall⟩ := h
  obtain ⟨t, rfl, ht⟩ := interp_tok "WS" .WS (by decide) (by decide) (by decide) hp
  have := allWS_flatten parts fun q hq => interp_tok "WS" .WS (by decide) (by decide) (by decide) (hall q hq)
  constructor
  · simp only [List.singleton_append, allWS_cons, this, Bool.and_true]; exact ht
  · rfl

/-! ### arrays -/

def arrItem (name : String) : Rx := .seq (.star (.ref "WS")) (.seq (.lit [44]) (.seq (.star (.ref "WS")) (.ref name)))

theorem arrMore_of_parts (name : String) (k : TK) (hl : isLexerName name = true) (hne : name ≠ "EOF") (hk : TK.ofName name = some k) :
    ∀ (parts : List (List Token)), (∀ p ∈ parts, Interp (arrItem name) p) →
      ∃ more : List (WSs × Token × WSs × Token),
        (more.flatMap fun m => m.1 ++ m.2.1 :: m.2.2.1 ++ [m.2.2.2]) = parts.flatten ∧
        more.all (fun m => allWS m.1 && kindIs m.2.1 .COMMA && allWS m.2.2.1 && kindIs m.2.2.2 k) = true
  | [], _ => ⟨[], rfl, rfl⟩
  | p :: ps, h => by
    obtain ⟨more, hm1, hm2⟩ := arrMore_of_parts name k hl hne hk ps fun q hq => h q (List.mem_cons_of_mem _ hq)
    obtain ⟨wa, r1, rfl, hwa, c, r2, rfl, hc, wb, x, rfl, hwb, hx⟩ := h p (List.mem_cons_self ..)
    obtain ⟨c, rfl, hck⟩ := interp_comma hc
    obtain ⟨x, rfl, hxk⟩ := interp_tok name k hl hne hk hx
    refine ⟨(wa, c, wb, x) :: more, ?_, ?_⟩
    · rw [List.flatMap_cons, hm1]; simp
    · simp [List.all_cons, interp_wsStar hwa, interp_wsStar hwb, hck, hxk, hm2]

theorem nt_array (name : String) (kind : ArrKind) (hl : isLexerName name = true) (hne : name ≠ "EOF")
    (hk : TK.ofName name = some kind.tk) {ts : List Token}
    (h : Interp (.seq (.ref "LBRACKET") (.seq (.star (.ref "WS")) (.seq (.ref name) (.seq (.star (arrItem name))
      (.seq (.star (.ref "WS")) (.ref "RBRACKET")))))) ts) :
    ∃ a : ArrTree, a.kind = kind ∧ a.yield = ts ∧ a.wf = true := by
  obtain ⟨x1, r1, rfl, h1, x2, r2, rfl, h2, x3, r3, rfl, h3, x4, r4, rfl, h4, x5, x6, rfl, h5, h6⟩ := h
  obtain ⟨lb, rfl, hlb⟩ := interp_tok "LBRACKET" .LBRACKET (by decide) (by decide) (by decide) h1
  obtain ⟨first, rfl, hfirst⟩ := interp_tok name kind.tk hl hne hk h3
  obtain ⟨rb, rfl, hrb⟩ := interp_tok "RBRACKET" .RBRACKET (by decide) (by decide) (by decide) h6
  obtain ⟨parts, rfl, hparts⟩ := h4
  obtain ⟨more, hm1, hm2⟩ := arrMore_of_parts name kind.tk hl hne hk parts hparts
  refine ⟨⟨kind, lb, x2, first, more, x5, rb⟩, rfl, ?_, ?_⟩
  · rw [ArrTree.yield]; simp only []; rw [hm1]; simp
  · simp [ArrTree.wf, hlb, interp_wsStar h2, hfirst, hm2, interp_wsStar h5, hrb]

/-! ### what `NT` says, name by name -/

theorem NT_stringArray {ts} : NT "stringArray" ts ↔ ∃ a : ArrTree, a.kind = .str ∧ a.yield = ts ∧ a.wf = true := by simp [NT]
theorem NT_numberArray {ts} : NT "numberArray" ts ↔ ∃ a : ArrTree, a.kind = .num ∧ a.yield = ts ∧ a.wf = true := by simp [NT]
theorem NT_datetimeArray {ts} : NT "datetimeArray" ts ↔ ∃ a : ArrTree, a.kind = .dt ∧ a.yield = ts ∧ a.wf = true := by simp [NT]
theorem NT_start {ts} : NT "start" ts ↔ ∃ t : StartTree, t.yield = ts ∧ t.wf = true := by simp [NT]
theorem NT_query {ts} : NT "query" ts ↔ ∃ q : QueryTree, q.yield = ts ∧ q.wf = true := by simp [NT]
theorem NT_skip {ts} : NT "skip" ts ↔ ∃ k : KwNumTree, k.yield = ts ∧ skipWf k = true := by simp [NT]
theorem NT_limit {ts} : NT "limit" ts ↔ ∃ k : KwNumTree, k.yield = ts ∧ limitWf k = true := by simp [NT]
theorem NT_sortBy {ts} : NT "sortBy" ts ↔ ∃ s : SortByTree, s.yield = ts ∧ s.wf = true := by simp [NT]
theorem NT_sortField {ts} : NT "sortField" ts ↔ ∃ f : SortFieldTree, f.yield = ts ∧ f.wf = true := by simp [NT]
theorem NT_boolExpr {ts} : NT "boolExpr" ts ↔ ∃ e : BoolTree, e.yield = ts ∧ e.wf = true := by simp [NT]
theorem NT_operation {ts} : NT "operation" ts ↔ ∃ e : BoolTree, e.yield = ts ∧ e.wf = true := by simp [NT]
theorem NT_binaryLhs {ts} : NT "binaryLhs" ts ↔ ∃ l : LhsTree, l.yield = ts ∧ l.wf = true := by simp [NT]
theorem NT_setFunction {ts} : NT "setFunction" ts ↔ ∃ l : LhsTree, l.yield = ts ∧ l.wf = true := by simp [NT]
theorem NT_setExpr {ts} : NT "setExpr" ts ↔ ∃ s : SetExprTree, s.yield = ts ∧ s.wf = true := by simp [NT]
theorem NT_subQueryExpr {ts} : NT "subQueryExpr" ts ↔ ∃ s : SetExprTree, s.yield = ts ∧ s.wf = true := by simp [NT]

/-! ### sort / skip / limit -/

theorem nt_sortField {ts : List Token}
    (h : Interp (.seq (.ref "IDENTIFIER") (.opt (.seq (.plus (.ref "WS")) (.alt (.ref "ASC") (.ref "DESC"))))) ts) :
    NT "sortField" ts := by
  rw [NT_sortField]
  obtain ⟨x1, r1, rfl, h1, h2⟩ := h
  obtain ⟨id, rfl, hid⟩ := interp_tok "IDENTIFIER" .IDENTIFIER (by decide) (by decide) (by decide) h1
  rcases h2 with rfl | ⟨w, d, rfl, hw, hd⟩
  · exact ⟨⟨id, none⟩, by simp [SortFieldTree.yield], by simp [SortFieldTree.wf, hid]⟩
  · obtain ⟨hw1, hw2⟩ := interp_wsPlus hw
    rcases hd with hd | hd
    · obtain ⟨d, rfl, hdk⟩ := interp_tok "ASC" .ASC (by decide) (by decide) (by decide) hd
      exact ⟨⟨id, some (w, d)⟩, by simp [SortFieldTree.yield], by simp [SortFieldTree.wf, hid, hw1, hw2, hdk]⟩
    · obtain ⟨d, rfl, hdk⟩ := interp_tok "DESC" .DESC (by decide) (by decide) (by decide) hd
      exact ⟨⟨id, some (w, d)⟩, by simp [SortFieldTree.yield], by simp [SortFieldTree.wf, hid, hw1, hw2, hdk]⟩

def sortItem : Rx := .seq (.star (.ref "WS")) (.seq (.lit [44]) (.seq (.star (.ref "WS")) (.ref "sortField")))

theorem sortMore_of_parts : ∀ (parts : List (List Token)), (∀ p ∈ parts, Interp sortItem p) →
    ∃ more : List (WSs × Token × WSs × SortFieldTree),
      (more.flatMap fun m => m.1 ++ m.2.1 :: m.2.2.1 ++ m.2.2.2.yield) = parts.flatten ∧
      more.all (fun m => allWS m.1 && kindIs m.2.1 .COMMA && allWS m.2.2.1 && m.2.2.2.wf) = true
  | [], _ => ⟨[], rfl, rfl⟩
  | p :: ps, h => by
    obtain ⟨more, hm1, hm2⟩ := sortMore_of_parts ps fun q hq => h q (List.mem_cons_of_mem _ hq)
    obtain ⟨wa, r1, rfl, hwa, c, r2, rfl, hc, wb, x, rfl, hwb, hx⟩ := h p (List.mem_cons_self ..)
    obtain ⟨c, rfl, hck⟩ := interp_comma hc
    obtain ⟨f, rfl, hf⟩ := NT_sortField.mp (interp_nt "sortField" (by decide) hx)
    refine ⟨(wa, c, wb, f) :: more, ?_, ?_⟩
    · rw [List.flatMap_cons, hm1]; simp
    · simp [List.all_cons, interp_wsStar hwa, interp_wsStar hwb, hck, hf, hm2]

theorem nt_sortBy {ts : List Token}
    (h : Interp (.seq (.ref "SORT") (.seq (.plus (.ref "WS")) (.seq (.ref "BY") (.seq (.plus (.ref "WS"))
      (.seq (.ref "sortField") (.star sortItem)))))) ts) : NT "sortBy" ts := by
  rw [NT_sortBy]
  obtain ⟨x1, r1, rfl, h1, w0, r2, rfl, h2, x3, r3, rfl, h3, w1, r4, rfl, h4, x5, x6, rfl, h5, h6⟩ := h
  obtain ⟨so, rfl, hso⟩ := interp_tok "SORT" .SORT (by decide) (by decide) (by decide) h1
  obtain ⟨b, rfl, hb⟩ := interp_tok "BY" .BY (by decide) (by decide) (by decide) h3
  obtain ⟨f, rfl, hf⟩ := NT_sortField.mp (interp_nt "sortField" (by decide) h5)
  obtain ⟨parts, rfl, hparts⟩ := h6
  obtain ⟨more, hm1, hm2⟩ := sortMore_of_parts parts hparts
  obtain ⟨a1, a2⟩ := interp_wsPlus h2
  obtain ⟨b1, b2⟩ := interp_wsPlus h4
  refine ⟨⟨so, w0, b, w1, f, more⟩, ?_, ?_⟩
  · rw [SortByTree.yield]; simp only []; rw [hm1]; simp
  · simp [SortByTree.wf, hso, a1, a2, hb, b1, b2, hf, hm2]

theorem nt_skip {ts : List Token} (h : Interp (.seq (.ref "SKIP_ROWS") (.seq (.plus (.ref "WS")) (.ref "NUMBER"))) ts) :
    NT "skip" ts := by
  rw [NT_skip]
  obtain ⟨x1, r1, rfl, h1, w, x3, rfl, h2, h3⟩ := h
  obtain ⟨kw, rfl, hkw⟩ := interp_tok "SKIP_ROWS" .SKIP_ROWS (by decide) (by decide) (by decide) h1
  obtain ⟨a, rfl, ha⟩ := interp_tok "NUMBER" .NUMBER (by decide) (by decide) (by decide) h3
  obtain ⟨a1, a2⟩ := interp_wsPlus h2
  exact ⟨⟨kw, w, a⟩, by simp [KwNumTree.yield], by simp [skipWf, hkw, a1, a2, ha]⟩

theorem nt_limit {ts : List Token}
    (h : Interp (.seq (.ref "LIMIT_ROWS") (.seq (.plus (.ref "WS")) (.alt (.ref "NONE") (.ref "NUMBER")))) ts) :
    NT "limit" ts := by
  rw [NT_limit]
  obtain ⟨x1, r1, rfl, h1, w, x3, rfl, h2, h3⟩ := h
  obtain ⟨kw, rfl, hkw⟩ := interp_tok "LIMIT_ROWS" .LIMIT_ROWS (by decide) (by decide) (by decide) h1
  obtain ⟨a1, a2⟩ := interp_wsPlus h2
  rcases h3 with h3 | h3
  · obtain ⟨a, rfl, ha⟩ := interp_tok "NONE" .NONE (by decide) (by decide) (by decide) h3
    exact ⟨⟨kw, w, a⟩, by simp [KwNumTree.yield], by simp [limitWf, hkw, a1, a2, ha]⟩
  · obtain ⟨a, rfl, ha⟩ := interp_tok "NUMBER" .NUMBER (by decide) (by decide) (by decide) h3
    exact ⟨⟨kw, w, a⟩, by simp [KwNumTree.yield], by simp [limitWf, hkw, a1, a2, ha]⟩

/-! ### set expressions, left-hand sides -/

theorem nt_subQueryExpr {ts : List Token}
    (h : Interp (.seq (.ref "FROM") (.seq (.plus (.ref "WS")) (.seq (.ref "IDENTIFIER") (.seq (.plus (.ref "WS"))
      (.seq (.ref "WHERE") (.seq (.plus (.ref "WS")) (.ref "query"))))))) ts) : NT "subQueryExpr" ts := by
  rw [NT_subQueryExpr]
  obtain ⟨x1, r1, rfl, h1, w0, r2, rfl, h2, x3, r3, rfl, h3, w1, r4, rfl, h4, x5, r5, rfl, h5, w2, x7, rfl, h6, h7⟩ := h
  obtain ⟨f, rfl, hf⟩ := interp_tok "FROM" .FROM (by decide) (by decide) (by decide) h1
  obtain ⟨id, rfl, hid⟩ := interp_tok "IDENTIFIER" .IDENTIFIER (by decide) (by decide) (by decide) h3
  obtain ⟨wh, rfl, hwh⟩ := interp_tok "WHERE" .WHERE (by decide) (by decide) (by decide) h5
  obtain ⟨q, rfl, hq⟩ := NT_query.mp (interp_nt "query" (by decide) h7)
  obtain ⟨a1, a2⟩ := interp_wsPlus h2
  obtain ⟨b1, b2⟩ := interp_wsPlus h4
  obtain ⟨c1, c2⟩ := interp_wsPlus h6
  exact ⟨.subQuery f w0 id w1 wh w2 q, by simp [SetExprTree.yield], by simp [SetExprTree.wf, hf, a1, a2, hid, b1, b2, hwh, c1, c2, hq]⟩

theorem nt_setExpr {ts : List Token} (h : Interp (.alt (.ref "IDENTIFIER") (.ref "subQueryExpr")) ts) : NT "setExpr" ts := by
  rw [NT_setExpr]
  rcases h with h | h
  · obtain ⟨t, rfl, ht⟩ := interp_tok "IDENTIFIER" .IDENTIFIER (by decide) (by decide) (by decide) h
    exact ⟨.ident t, by simp [SetExprTree.yield], by simp [SetExprTree.wf, ht]⟩
  · exact NT_subQueryExpr.mp (interp_nt "subQueryExpr" (by decide) h)

theorem setFn_of (fnName : String) (kfn : TK) (hl : isLexerName fnName = true) (hne : fnName ≠ "EOF") (hk : TK.ofName fnName = some kfn)
    (hfn : kfn = .ALL_OF ∨ kfn = .ANY_OF) {ts : List Token}
    (h : Interp (.seq (.ref fnName) (.seq (.ref "LPAREN") (.seq (.star (.ref "WS")) (.seq (.ref "IDENTIFIER")
      (.seq (.star (.ref "WS")) (.ref "RPAREN")))))) ts) : ∃ l : LhsTree, l.yield = ts ∧ l.wf = true := by
  obtain ⟨x1, r1, rfl, h1, x2, r2, rfl, h2, w0, r3, rfl, h3, x4, r4, rfl, h4, w1, x6, rfl, h5, h6⟩ := h
  obtain ⟨fn, rfl, hfnk⟩ := interp_tok fnName kfn hl hne hk h1
  obtain ⟨lp, rfl, hlp⟩ := interp_tok "LPAREN" .LPAREN (by decide) (by decide) (by decide) h2
  obtain ⟨id, rfl, hid⟩ := interp_tok "IDENTIFIER" .IDENTIFIER (by decide) (by decide) (by decide) h4
  obtain ⟨rp, rfl, hrp⟩ := interp_tok "RPAREN" .RPAREN (by decide) (by decide) (by decide) h6
  refine ⟨.setFn fn lp w0 id w1 rp, by simp [LhsTree.yield], ?_⟩
  rcases hfn with rfl | rfl <;> simp [LhsTree.wf, hfnk, hlp, interp_wsStar h3, hid, interp_wsStar h5, hrp]

theorem nt_setFunction {ts : List Token} (h : Interp (bodyOf "setFunction") ts) : NT "setFunction" ts := by
  rw [NT_setFunction]
  rcases h with h | h | h
  · exact setFn_of "ALL_OF" .ALL_OF (by decide) (by decide) (by decide) (.inl rfl) h
  · exact setFn_of "ANY_OF" .ANY_OF (by decide) (by decide) (by decide) (.inr rfl) h
  · obtain ⟨x1, r1, rfl, h1, x2, r2, rfl, h2, w0, r3, rfl, h3, x4, r4, rfl, h4, w1, x6, rfl, h5, h6⟩ := h
    obtain ⟨fn, rfl, hfnk⟩ := interp_tok "COUNT" .COUNT (by decide) (by decide) (by decide) h1
    obtain ⟨lp, rfl, hlp⟩ := interp_tok "LPAREN" .LPAREN (by decide) (by decide) (by decide) h2
    obtain ⟨s, rfl, hs⟩ := NT_setExpr.mp (interp_nt "setExpr" (by decide) h4)
    obtain ⟨rp, rfl, hrp⟩ := interp_tok "RPAREN" .RPAREN (by decide) (by decide) (by decide) h6
    exact ⟨.count fn lp w0 s w1 rp, by simp [LhsTree.yield],
      by simp [LhsTree.wf, hfnk, hlp, interp_wsStar h3, hs, interp_wsStar h5, hrp]⟩

theorem nt_binaryLhs {ts : List Token} (h : Interp (.alt (.ref "IDENTIFIER") (.ref "setFunction")) ts) : NT "binaryLhs" ts := by
  rw [NT_binaryLhs]
  rcases h with h | h
  · obtain ⟨t, rfl, ht⟩ := interp_tok "IDENTIFIER" .IDENTIFIER (by decide) (by decide) (by decide) h
    exact ⟨.ident t, by simp [LhsTree.yield], by simp [LhsTree.wf, ht]⟩
  · exact NT_setFunction.mp (interp_nt "setFunction" (by decide) h)

/-! ### operations -/

theorem lhs_of {ts : List Token} (h : Interp (.ref "binaryLhs") ts) : ∃ l : LhsTree, l.yield = ts ∧ l.wf = true :=
  NT_binaryLhs.mp (interp_nt "binaryLhs" (by decide) h)

/-- `binaryLhs WS+ IN WS+ xArray` -/
theorem op_in (arrName : String) (kind : ArrKind) (hl : isLexerName arrName = false)
    (hnt : ∀ ts, NT arrName ts → ∃ a : ArrTree, a.kind = kind ∧ a.yield = ts ∧ a.wf = true) {ts : List Token}
    (h : Interp (.seq (.ref "binaryLhs") (.seq (.plus (.ref "WS")) (.seq (.ref "IN") (.seq (.plus (.ref "WS")) (.ref arrName))))) ts) :
    ∃ e : BoolTree, e.yield = ts ∧ e.wf = true := by
  obtain ⟨x1, r1, rfl, h1, w0, r2, rfl, h2, x3, r3, rfl, h3, w1, x5, rfl, h4, h5⟩ := h
  obtain ⟨l, rfl, hlw⟩ := lhs_of h1
  obtain ⟨op, rfl, hop⟩ := interp_tok "IN" .IN (by decide) (by decide) (by decide) h3
  obtain ⟨a, _, rfl, ha⟩ := hnt _ (interp_nt arrName hl h5)
  obtain ⟨a1, a2⟩ := interp_wsPlus h2
  obtain ⟨b1, b2⟩ := interp_wsPlus h4
  exact ⟨.inArr l w0 op w1 a, by simp [BoolTree.yield], by simp [BoolTree.wf, hlw, a1, a2, hop, b1, b2, ha]⟩

/-- `binaryLhs WS+ BETWEEN WS+ X WS+ AND WS+ X` -/
theorem op_between (xName : String) (kx : TK) (hl : isLexerName xName = true) (hne : xName ≠ "EOF") (hk : TK.ofName xName = some kx)
    (hx : kx = .NUMBER ∨ kx = .DATETIME) {ts : List Token}
    (h : Interp (.seq (.ref "binaryLhs") (.seq (.plus (.ref "WS")) (.seq (.ref "BETWEEN") (.seq (.plus (.ref "WS"))
      (.seq (.ref xName) (.seq (.plus (.ref "WS")) (.seq (.ref "AND") (.seq (.plus (.ref "WS")) (.ref xName))))))))) ts) :
    ∃ e : BoolTree, e.yield = ts ∧ e.wf = true := by
  obtain ⟨x1, r1, rfl, h1, w0, r2, rfl, h2, x3, r3, rfl, h3, w1, r4, rfl, h4, x5, r5, rfl, h5, w2, r6, rfl, h6, x7, r7, rfl, h7,
    w3, x9, rfl, h8, h9⟩ := h
  obtain ⟨l, rfl, hlw⟩ := lhs_of h1
  obtain ⟨op, rfl, hop⟩ := interp_tok "BETWEEN" .BETWEEN (by decide) (by decide) (by decide) h3
  obtain ⟨lo, rfl, hlo⟩ := interp_tok xName kx hl hne hk h5
  obtain ⟨a, rfl, ha⟩ := interp_tok "AND" .AND (by decide) (by decide) (by decide) h7
  obtain ⟨hi, rfl, hhi⟩ := interp_tok xName kx hl hne hk h9
  obtain ⟨a1, a2⟩ := interp_wsPlus h2
  obtain ⟨b1, b2⟩ := interp_wsPlus h4
  obtain ⟨c1, c2⟩ := interp_wsPlus h6
  obtain ⟨d1, d2⟩ := interp_wsPlus h8
  refine ⟨.between l w0 op w1 lo w2 a w3 hi, by simp [BoolTree.yield], ?_⟩
  simp only [kindIs, beq_iff_eq] at hlo hhi hop ha
  rcases hx with rfl | rfl <;> simp [BoolTree.wf, hlw, a1, a2, hop, b1, b2, c1, c2, ha, d1, d2, kindIs, hlo, hhi]

/-- `binaryLhs WS* OP WS* RHS` -/
theorem op_star (opName rhsName : String) (kop krhs : TK) (hlo : isLexerName opName = true) (hno : opName ≠ "EOF")
    (hko : TK.ofName opName = some kop) (hlr : isLexerName rhsName = true) (hnr : rhsName ≠ "EOF") (hkr : TK.ofName rhsName = some krhs)
    (hok : rhsOk kop krhs = true) (hnc : (kop == .CONTAINS || kop == .ICONTAINS) = false) {ts : List Token}
    (h : Interp (.seq (.ref "binaryLhs") (.seq (.star (.ref "WS")) (.seq (.ref opName) (.seq (.star (.ref "WS")) (.ref rhsName))))) ts) :
    ∃ e : BoolTree, e.yield = ts ∧ e.wf = true := by
  obtain ⟨x1, r1, rfl, h1, w0, r2, rfl, h2, x3, r3, rfl, h3, w1, x5, rfl, h4, h5⟩ := h
  obtain ⟨l, rfl, hlw⟩ := lhs_of h1
  obtain ⟨op, rfl, hop⟩ := interp_tok opName kop hlo hno hko h3
  obtain ⟨rhs, rfl, hrhs⟩ := interp_tok rhsName krhs hlr hnr hkr h5
  simp only [kindIs, beq_iff_eq] at hop hrhs
  exact ⟨.binary l w0 op w1 rhs, by simp [BoolTree.yield],
    by simp [BoolTree.wf, hlw, interp_wsStar h2, interp_wsStar h4, hop, hrhs, hok, hnc]⟩

theorem nt_operation {ts : List Token} (h : Interp (bodyOf "operation") ts) : NT "operation" ts := by
  rw [NT_operation]
  rcases h with h | h | h | h | h | h | h | h | h | h | h | h | h | h | h | h | h | h
  · exact op_in "stringArray" .str (by decide) (fun _ => NT_stringArray.mp) h
  · exact op_in "numberArray" .num (by decide) (fun _ => NT_numberArray.mp) h
  · exact op_in "datetimeArray" .dt (by decide) (fun _ => NT_datetimeArray.mp) h
  · exact op_between "NUMBER" .NUMBER (by decide) (by decide) (by decide) (.inl rfl) h
  · exact op_between "DATETIME" .DATETIME (by decide) (by decide) (by decide) (.inr rfl) h
  · exact op_star "LT" "STRING" .LT .STRING (by decide) (by decide) (by decide) (by decide) (by decide) (by decide) (by decide) (by decide) h
  · exact op_star "LT" "NUMBER" .LT .NUMBER (by decide) (by decide) (by decide) (by decide) (by decide) (by decide) (by decide) (by decide) h
  · exact op_star "LT" "DATETIME" .LT .DATETIME (by decide) (by decide) (by decide) (by decide) (by decide) (by decide) (by decide) (by decide) h
  · exact op_star "GT" "STRING" .GT .STRING (by decide) (by decide) (by decide) (by decide) (by decide) (by decide) (by decide) (by decide) h
  · exact op_star "GT" "NUMBER" .GT .NUMBER (by decide) (by decide) (by decide) (by decide) (by decide) (by decide) (by decide) (by decide) h
  · exact op_star "GT" "DATETIME" .GT .DATETIME (by decide) (by decide) (by decide) (by decide) (by decide) (by decide) (by decide) (by decide) h
  · exact op_star "EQ" "STRING" .EQ .STRING (by decide) (by decide) (by decide) (by decide) (by decide) (by decide) (by decide) (by decide) h
  · exact op_star "EQ" "NUMBER" .EQ .NUMBER (by decide) (by decide) (by decide) (by decide) (by decide) (by decide) (by decide) (by decide) h
  · exact op_star "EQ" "DATETIME" .EQ .DATETIME (by decide) (by decide) (by decide) (by decide) (by decide) (by decide) (by decide) (by decide) h
  · exact op_star "EQ" "BOOL" .EQ .BOOL (by decide) (by decide) (by decide) (by decide) (by decide) (by decide) (by decide) (by decide) h
  · exact op_star "EQ" "NULL" .EQ .NULL (by decide) (by decide) (by decide) (by decide) (by decide) (by decide) (by decide) (by decide) h
  · -- binaryLhs WS* CONTAINS WS+ (STRING|NUMBER)
    obtain ⟨x1, r1, rfl, h1, w0, r2, rfl, h2, x3, r3, rfl, h3, w1, x5, rfl, h4, h5⟩ := h
    obtain ⟨l, rfl, hlw⟩ := lhs_of h1
    obtain ⟨op, rfl, hop⟩ := interp_tok "CONTAINS" .CONTAINS (by decide) (by decide) (by decide) h3
    obtain ⟨b1, b2⟩ := interp_wsPlus h4
    simp only [kindIs, beq_iff_eq] at hop
    rcases h5 with h5 | h5
    · obtain ⟨rhs, rfl, hrhs⟩ := interp_tok "STRING" .STRING (by decide) (by decide) (by decide) h5
      simp only [kindIs, beq_iff_eq] at hrhs
      exact ⟨.binary l w0 op w1 rhs, by simp [BoolTree.yield],
        by simp [BoolTree.wf, hlw, interp_wsStar h2, b1, b2, hop, hrhs, rhsOk]⟩
    · obtain ⟨rhs, rfl, hrhs⟩ := interp_tok "NUMBER" .NUMBER (by decide) (by decide) (by decide) h5
      simp only [kindIs, beq_iff_eq] at hrhs
      exact ⟨.binary l w0 op w1 rhs, by simp [BoolTree.yield],
        by simp [BoolTree.wf, hlw, interp_wsStar h2, b1, b2, hop, hrhs, rhsOk]⟩
  · -- binaryLhs WS* ICONTAINS WS+ STRING
    obtain ⟨x1, r1, rfl, h1, w0, r2, rfl, h2, x3, r3, rfl, h3, w1, x5, rfl, h4, h5⟩ := h
    obtain ⟨l, rfl, hlw⟩ := lhs_of h1
    obtain ⟨op, rfl, hop⟩ := interp_tok "ICONTAINS" .ICONTAINS (by decide) (by decide) (by decide) h3
    obtain ⟨b1, b2⟩ := interp_wsPlus h4
    obtain ⟨rhs, rfl, hrhs⟩ := interp_tok "STRING" .STRING (by decide) (by decide) (by decide) h5
    simp only [kindIs, beq_iff_eq] at hop hrhs
    exact ⟨.binary l w0 op w1 rhs, by simp [BoolTree.yield],
      by simp [BoolTree.wf, hlw, interp_wsStar h2, b1, b2, hop, hrhs, rhsOk]⟩

/-! ### boolean expressions -/

theorem bool_of {ts : List Token} (h : Interp (.ref "boolExpr") ts) : ∃ e : BoolTree, e.yield = ts ∧ e.wf = true :=
  NT_boolExpr.mp (interp_nt "boolExpr" (by decide) h)

def chainItem (opName : String) : Rx := .seq (.plus (.ref "WS")) (.seq (.ref opName) (.seq (.plus (.ref "WS")) (.ref "boolExpr")))

/-- `boolExpr (WS+ OP WS+ boolExpr)*` folded to the left -/
theorem fold_chain (opName : String) (kop : TK) (hl : isLexerName opName = true) (hne : opName ≠ "EOF") (hk : TK.ofName opName = some kop)
    (hop : kop = .AND ∨ kop = .OR) :
    ∀ (parts : List (List Token)) (acc : BoolTree), acc.wf = true → (∀ q ∈ parts, Interp (chainItem opName) q) →
      ∃ e : BoolTree, e.yield = acc.yield ++ parts.flatten ∧ e.wf = true
  | [], acc, hacc, _ => ⟨acc, by simp, hacc⟩
  | p :: ps, acc, hacc, h => by
    obtain ⟨w0, r1, rfl, h1, x2, r2, rfl, h2, w1, x4, rfl, h3, h4⟩ := h p (List.mem_cons_self ..)
    obtain ⟨op, rfl, hopk⟩ := interp_tok opName kop hl hne hk h2
    obtain ⟨e1, rfl, he1⟩ := bool_of h4
    obtain ⟨a1, a2⟩ := interp_wsPlus h1
    obtain ⟨b1, b2⟩ := interp_wsPlus h3
    rcases hop with rfl | rfl
    · obtain ⟨e, hy, hw⟩ := fold_chain opName .AND hl hne hk (.inl rfl) ps (.and acc w0 op w1 e1)
        (by simp [BoolTree.wf, hacc, a1, a2, hopk, b1, b2, he1]) fun q hq => h q (List.mem_cons_of_mem _ hq)
      exact ⟨e, by rw [hy]; simp [BoolTree.yield], hw⟩
    · obtain ⟨e, hy, hw⟩ := fold_chain opName .OR hl hne hk (.inr rfl) ps (.or acc w0 op w1 e1)
        (by simp [BoolTree.wf, hacc, a1, a2, hopk, b1, b2, he1]) fun q hq => h q (List.mem_cons_of_mem _ hq)
      exact ⟨e, by rw [hy]; simp [BoolTree.yield], hw⟩

theorem chain_of (opName : String) (kop : TK) (hl : isLexerName opName = true) (hne : opName ≠ "EOF") (hk : TK.ofName opName = some kop)
    (hop : kop = .AND ∨ kop = .OR) {ts : List Token}
    (h : Interp (.seq (.ref "boolExpr") (.plus (chainItem opName))) ts) : ∃ e : BoolTree, e.yield = ts ∧ e.wf = true := by
  obtain ⟨x1, r1, rfl, h1, p, parts, rfl, hp, hall⟩ := h
  obtain ⟨e0, rfl, he0⟩ := bool_of h1
  obtain ⟨e, hy, hw⟩ := fold_chain opName kop hl hne hk hop (p :: parts) e0 he0 (by
    intro q hq
    rcases List.mem_cons.mp hq with rfl | hq
    · exact hp
    · exact hall q hq)
  exact ⟨e, by rw [hy]; simp, hw⟩

theorem nt_boolExpr {ts : List Token} (h : Interp (bodyOf "boolExpr") ts) : NT "boolExpr" ts := by
  rw [NT_boolExpr]
  rcases h with h | h | h | h | h | h | h | h
  · exact NT_operation.mp (interp_nt "operation" (by decide) h)
  · obtain ⟨x1, r1, rfl, h1, w0, r2, rfl, h2, x3, r3, rfl, h3, w1, x5, rfl, h4, h5⟩ := h
    obtain ⟨lp, rfl, hlp⟩ := interp_tok "LPAREN" .LPAREN (by decide) (by decide) (by decide) h1
    obtain ⟨e, rfl, he⟩ := bool_of h3
    obtain ⟨rp, rfl, hrp⟩ := interp_tok "RPAREN" .RPAREN (by decide) (by decide) (by decide) h5
    exact ⟨.group lp w0 e w1 rp, by simp [BoolTree.yield], by simp [BoolTree.wf, hlp, interp_wsStar h2, he, interp_wsStar h4, hrp]⟩
  · exact chain_of "AND" .AND (by decide) (by decide) (by decide) (.inl rfl) h
  · exact chain_of "OR" .OR (by decide) (by decide) (by decide) (.inr rfl) h
  · obtain ⟨t, rfl, ht⟩ := interp_tok "BOOL" .BOOL (by decide) (by decide) (by decide) h
    exact ⟨.boolConst t, by simp [BoolTree.yield], by simp [BoolTree.wf, ht]⟩
  · obtain ⟨x1, r1, rfl, h1, x2, r2, rfl, h2, w0, r3, rfl, h3, x4, r4, rfl, h4, w1, x6, rfl, h5, h6⟩ := h
    obtain ⟨kw, rfl, hkw⟩ := interp_tok "ISEMPTY" .ISEMPTY (by decide) (by decide) (by decide) h1
    obtain ⟨lp, rfl, hlp⟩ := interp_tok "LPAREN" .LPAREN (by decide) (by decide) (by decide) h2
    obtain ⟨s, rfl, hs⟩ := NT_setExpr.mp (interp_nt "setExpr" (by decide) h4)
    obtain ⟨rp, rfl, hrp⟩ := interp_tok "RPAREN" .RPAREN (by decide) (by decide) (by decide) h6
    exact ⟨.isEmpty kw lp w0 s w1 rp, by simp [BoolTree.yield],
      by simp [BoolTree.wf, hkw, hlp, interp_wsStar h3, hs, interp_wsStar h5, hrp]⟩
  · obtain ⟨t, rfl, ht⟩ := interp_tok "IDENTIFIER" .IDENTIFIER (by decide) (by decide) (by decide) h
    exact ⟨.symbol t, by simp [BoolTree.yield], by simp [BoolTree.wf, ht]⟩
  · obtain ⟨x1, r1, rfl, h1, w, x3, rfl, h2, h3⟩ := h
    obtain ⟨kw, rfl, hkw⟩ := interp_tok "NOT" .NOT (by decide) (by decide) (by decide) h1
    obtain ⟨e, rfl, he⟩ := bool_of h3
    obtain ⟨a1, a2⟩ := interp_wsPlus h2
    exact ⟨.not kw w e, by simp [BoolTree.yield], by simp [BoolTree.wf, hkw, a1, a2, he]⟩

/-! ### queries -/

/-- `(WS+ X)?` -/
theorem opt_of {α} (name : String) (hl : isLexerName name = false) (y : α → List Token) (wf : α → Bool)
    (hnt : ∀ ts, NT name ts → ∃ a : α, y a = ts ∧ wf a = true) {ts : List Token}
    (h : Interp (.opt (.seq (.plus (.ref "WS")) (.ref name))) ts) :
    ∃ o : Option (WSs × α), optYield y o = ts ∧ optWf wf o = true := by
  rcases h with rfl | ⟨w, x, rfl, hw, hx⟩
  · exact ⟨none, rfl, rfl⟩
  · obtain ⟨a, rfl, ha⟩ := hnt _ (interp_nt name hl hx)
    obtain ⟨a1, a2⟩ := interp_wsPlus hw
    exact ⟨some (w, a), rfl, by simp [optWf, a1, a2, ha]⟩

theorem nt_query {ts : List Token} (h : Interp (bodyOf "query") ts) : NT "query" ts := by
  rw [NT_query]
  rcases h with h | h | h | h
  · obtain ⟨x1, r1, rfl, h1, x2, r2, rfl, h2, x3, x4, rfl, h3, h4⟩ := h
    obtain ⟨e, rfl, he⟩ := bool_of h1
    obtain ⟨sb, rfl, hsb⟩ := opt_of "sortBy" (by decide) SortByTree.yield SortByTree.wf (fun _ => NT_sortBy.mp) h2
    obtain ⟨sk, rfl, hsk⟩ := opt_of "skip" (by decide) KwNumTree.yield skipWf (fun _ => NT_skip.mp) h3
    obtain ⟨li, rfl, hli⟩ := opt_of "limit" (by decide) KwNumTree.yield limitWf (fun _ => NT_limit.mp) h4
    exact ⟨.pred e ⟨sb, sk, li⟩, by simp [QueryTree.yield, TailTree.yield], by simp [QueryTree.wf, TailTree.wf, he, hsb, hsk, hli]⟩
  · obtain ⟨x1, r1, rfl, h1, x2, x3, rfl, h2, h3⟩ := h
    obtain ⟨s, rfl, hs⟩ := NT_sortBy.mp (interp_nt "sortBy" (by decide) h1)
    obtain ⟨sk, rfl, hsk⟩ := opt_of "skip" (by decide) KwNumTree.yield skipWf (fun _ => NT_skip.mp) h2
    obtain ⟨li, rfl, hli⟩ := opt_of "limit" (by decide) KwNumTree.yield limitWf (fun _ => NT_limit.mp) h3
    exact ⟨.sort s sk li, by simp [QueryTree.yield], by simp [QueryTree.wf, hs, hsk, hli]⟩
  · obtain ⟨x1, x2, rfl, h1, h2⟩ := h
    obtain ⟨s, rfl, hs⟩ := NT_skip.mp (interp_nt "skip" (by decide) h1)
    obtain ⟨li, rfl, hli⟩ := opt_of "limit" (by decide) KwNumTree.yield limitWf (fun _ => NT_limit.mp) h2
    exact ⟨.skip s li, by simp [QueryTree.yield], by simp [QueryTree.wf, hs, hli]⟩
  · obtain ⟨l, rfl, hl⟩ := NT_limit.mp (interp_nt "limit" (by decide) h)
    exact ⟨.limit l, by simp [QueryTree.yield], by simp [QueryTree.wf, hl]⟩

theorem nt_start {ts : List Token}
    (h : Interp (.seq (.star (.ref "WS")) (.seq (.ref "query") (.seq (.star (.ref "WS")) (.ref "EOF")))) ts) : NT "start" ts := by
  rw [NT_start]
  obtain ⟨w0, r1, rfl, h1, x2, r2, rfl, h2, w1, x4, rfl, h3, h4⟩ := h
  obtain ⟨q, rfl, hq⟩ := NT_query.mp (interp_nt "query" (by decide) h2)
  have hl : isLexerName "EOF" = true := by decide
  simp only [Interp, hl, if_true] at h4
  subst h4
  exact ⟨⟨w0, q, w1⟩, by simp [StartTree.yield], by simp [StartTree.wf, interp_wsStar h1, hq, interp_wsStar h3]⟩

/-! ### all rules -/

theorem rules_ok : RulesOK := by
  intro name r ts _ hf h
  have hmem : r ∈ PG := List.mem_of_find?_eq_some hf
  have hname : r.name = name := by
    have := List.find?_some hf
    simpa using this
  subst hname
  simp only [PG, expectedParserRules, List.mem_cons, List.mem_nil_iff, or_false] at hmem
  rcases hmem with rfl | rfl | rfl | rfl | rfl | rfl | rfl | rfl | rfl | rfl | rfl | rfl | rfl | rfl | rfl
  · exact NT_stringArray.mpr (nt_array "STRING" .str (by decide) (by decide) (by decide) h)
  · exact NT_numberArray.mpr (nt_array "NUMBER" .num (by decide) (by decide) (by decide) h)
  · exact NT_datetimeArray.mpr (nt_array "DATETIME" .dt (by decide) (by decide) (by decide) h)
  · exact nt_start h
  · exact nt_query h
  · exact nt_skip h
  · exact nt_limit h
  · exact nt_sortBy h
  · exact nt_sortField h
  · exact nt_boolExpr h
  · exact nt_operation h
  · exact nt_binaryLhs h
  · exact nt_setFunction h
  · exact nt_setExpr h
  · exact nt_subQueryExpr h

/-- **every sentence of the grammar file's parser rules is the yield of a well-formed derivation tree** -/
theorem sentence_has_tree (ts : List Token) (h : Sentence PG (kinds ts)) : ∃ t : StartTree, t.yield = ts ∧ t.wf = true := by
  have := derives_interp rules_ok h ts rfl
  exact NT_start.mp (interp_nt "start" (by decide) this)

end StorageModel.C10
