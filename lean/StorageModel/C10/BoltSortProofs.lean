import StorageModel.C10.BoltSort
/-
  C10 — the sort / paging path never panics: lemmas.
-/
namespace StorageModel.C10

theorem isPanic_bind {α β} (x : Outcome α) (f : α → Outcome β) (hx : x.isPanic = false)
    (hf : ∀ a, x = .ok a → (f a).isPanic = false) : (x >>= f).isPanic = false := by
  cases x with
  | ok a => simpa using hf a rfl
  | err e => rfl
  | panic s => simp [Outcome.isPanic] at hx

theorem compareNillable_np (s1 s2 : Option Unit) (lt gt forward : Bool) :
    (compareNillable s1 s2 lt gt forward).isPanic = false := by
  cases s1 <;> cases s2 <;> cases lt <;> cases gt <;> cases forward <;> rfl

theorem bytesToBool_np (len : Nat) : (bytesToBool len).isPanic = false := by
  unfold bytesToBool
  by_cases h : len = 0
  · simp [h, Outcome.isPanic]
  · have : 0 < len := Nat.pos_of_ne_zero h
    simp [h, this, Outcome.isPanic]

theorem fieldToBool_np (v : Stored) : (fieldToBool v).isPanic = false := by
  unfold fieldToBool
  split
  · exact bytesToBool_np _
  · rfl

theorem fieldToInt64_np (v : Stored) : (fieldToInt64 v).isPanic = false := by
  unfold fieldToInt64
  split
  · cases h : bytesToInt32 v.len <;> simp [deref, Outcome.isPanic]
  · rfl
  · rfl

theorem fieldToInt64_ok (v : Stored) : ∃ r, fieldToInt64 v = .ok r := by
  unfold fieldToInt64
  split
  · cases h : bytesToInt32 v.len <;> simp [deref]
  · exact ⟨_, rfl⟩
  · exact ⟨_, rfl⟩

theorem fieldToFloat64_np (v : Stored) : (fieldToFloat64 v).isPanic = false := by
  obtain ⟨r, hr⟩ := fieldToInt64_ok v
  unfold fieldToFloat64
  split
  · rw [hr]; cases r <;> simp [deref, Outcome.isPanic]
  · rw [hr]; cases r <;> simp [deref, Outcome.isPanic]
  · rfl
  · rfl

theorem fieldToDatetime_np (v : Stored) : (fieldToDatetime v).isPanic = false := by
  unfold fieldToDatetime; split <;> rfl

/-- `FieldToString` is the one conversion that can panic — on a value no `Set*` method writes -/
theorem fieldToString_np (v : Stored) (h : v.wellFormed = true) : (fieldToString v).isPanic = false := by
  obtain ⟨tag, len, tok⟩ := v
  cases tag <;> simp only [Stored.wellFormed, beq_iff_eq] at h <;>
    simp [fieldToString, fieldToBool, bytesToBool, fieldToInt64, fieldToFloat64, fieldToDatetime, bytesToInt32, bytesToInt64,
      bytesToFloat64, deref, Outcome.isPanic, h]

theorem convert_np (k : CmpKind) (v : Stored) (h : v.wellFormed = true) : (k.convert v).isPanic = false := by
  cases k
  · exact fieldToBool_np v
  · exact fieldToDatetime_np v
  · exact fieldToFloat64_np v
  · exact fieldToInt64_np v
  · exact fieldToString_np v h

theorem symbolCompare_np (k : CmpKind) (forward : Bool) (v1 v2 : Stored) (lt gt : Bool)
    (h1 : v1.wellFormed = true) (h2 : v2.wellFormed = true) : (symbolCompare k forward v1 v2 lt gt).isPanic = false := by
  unfold symbolCompare
  refine isPanic_bind _ _ (convert_np k v1 h1) fun s1 _ => ?_
  refine isPanic_bind _ _ (convert_np k v2 h2) fun s2 _ => ?_
  exact compareNillable_np ..

theorem rowCompare_np : ∀ (l : List (CmpKind × Bool × Stored × Stored × Bool × Bool)),
    (∀ x ∈ l, x.2.2.1.wellFormed = true ∧ x.2.2.2.1.wellFormed = true) → (rowCompare l).isPanic = false
  | [], _ => rfl
  | (k, fwd, v1, v2, lt, gt) :: rest, h => by
    have hx := h _ (List.mem_cons_self ..)
    simp only [rowCompare]
    refine isPanic_bind _ _ (symbolCompare_np k fwd v1 v2 lt gt hx.1 hx.2) fun r _ => ?_
    split
    · rfl
    · exact rowCompare_np rest fun x hx => h x (List.mem_cons_of_mem _ hx)

theorem newRowComparator_np : ∀ (l : List (SortSym × Bool)), (newRowComparator l).isPanic = false
  | [] => rfl
  | (sym, fwd) :: rest => by
    have ih := newRowComparator_np rest
    cases sym with
    | missing => rfl
    | set => rfl
    | typed t =>
      cases t <;> simp only [newRowComparator] <;>
        first
          | rfl
          | (cases hr : newRowComparator rest with
             | ok a => rfl
             | err e => rfl
             | panic s => rw [hr] at ih; simp [Outcome.isPanic] at ih)

theorem newScanner_np (sort : List (Bool × Bool)) : (newScanner sort).isPanic = false := by
  unfold newScanner
  by_cases h5 : sort.length > 5
  · have ht : (List.take 5 sort).length = 5 := by simp [List.length_take]; omega
    simp only [h5, if_true, sliceTo, show 5 ≤ sort.length by omega, Outcome.bind_ok]
    cases hl : List.take 5 sort with
    | nil => simp [hl] at ht
    | cons x xs =>
      simp only [List.length_cons, indexAt, List.getElem?_cons_zero, Outcome.bind_ok]
      cases x.1 <;> cases x.2 <;> simp [Outcome.isPanic]
  · simp only [h5, if_false, Outcome.bind_ok]
    cases sort with
    | nil => simp [Outcome.isPanic]
    | cons x xs =>
      simp only [List.length_cons, indexAt, List.getElem?_cons_zero, Outcome.bind_ok]
      cases x.1 <;> cases x.2 <;> simp [Outcome.isPanic]

theorem setPaging_np (skip limit : Option Int) : (setPaging skip limit).isPanic = false := by
  cases skip with
  | none =>
    cases limit with
    | none => simp [setPaging, deref, Outcome.isPanic]
    | some l => by_cases h : l < 0 <;> simp [setPaging, deref, Outcome.isPanic, h]
  | some k =>
    cases limit with
    | none => simp [setPaging, deref, Outcome.isPanic]
    | some l => by_cases h : l < 0 <;> simp [setPaging, deref, Outcome.isPanic, h]

end StorageModel.C10
