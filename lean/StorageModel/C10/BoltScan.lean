import StorageModel.C10.BoltSortProofs
import StorageModel.Generated.C10Buckets
/-
  C10 — the read APIs of a boltz store against a database file in which structural buckets were NEVER
  created (boltz/query_scanners.go Scan / ScanCursor of both scanners, boltz/store_query.go QueryIdsC,
  QueryWithCursorC, IterateIds, IterateValidIds, boltz/store.go GetEntitiesBucket / GetEntityBucket,
  boltz/store_crud.go FindById, GetRelatedEntitiesIdList, GetRelatedEntitiesCursor, boltz/indexes.go
  uniqueIndex.Read / setIndex.Read).

  A bucket that does not exist is a nil `*TypedBucket` (`Option Unit` here).  Only `GetBucket`, `GetBucketByKey`
  and `GetPath` test their receiver; every other member selected on a bucket that may be nil is a `panic` branch
  (`recv`).  Whether the code tests for nil first is NOT assumed: the `Guards` are read from the regenerated site
  inventory `Generated.C10.bucketSites` (extract/c10_buckets.go).  What a scan over EXISTING buckets returns is the
  business of the other models (`Ans.scanned`).
-/
namespace StorageModel.C10

/-- the structural buckets of the database file, seen from the store and the id a read API is called with -/
structure Buckets where
  /-- base path + entity type (for a child store: the parent's) -/
  entities : Bool
  /-- the entity bucket of the id asked for (meaningful only below `entities`) -/
  entity : Bool
  /-- child store: its data path inside the entity bucket -/
  childData : Bool
  /-- the set / link field bucket inside the entity bucket -/
  field : Bool
  /-- the index bucket -/
  index : Bool
deriving DecidableEq, Repr

/-- does the code test for nil before it selects a member on the bucket -/
structure Guards where
  scanUnique : Bool
  scanSorting : Bool
  iterateIds : Bool
  findById : Bool
  relatedCursor : Bool
  setIndexRead : Bool
  /-- `TypedBucket.GetBucket` / `GetPath` test their receiver -/
  getBucketNilSafe : Bool
deriving DecidableEq, Repr

def Guards.all : Guards := ⟨true, true, true, true, true, true, true⟩

/-- the functions of the read path the model attributes sites to -/
def scanKnownFuncs : List String :=
  ["uniqueIndexScanner.Scan", "sortingScanner.Scan", "BaseStore.IterateIds", "BaseStore.FindById", "BaseStore.LoadById",
   "BaseStore.LoadEntity", "BaseStore.GetRelatedEntitiesCursor", "BaseStore.IsEntityRelated", "setIndex.Read", "setIndex.ReadKeys",
   "setIndex.OpenKeyCursor", "setIndex.OpenValueCursor", "linkCollectionImpl.IterateLinks", "LinkedSetSymbol.IsLinked",
   "TypedBucket.GetMap", "TypedBucket.GetStringList", "TypedBucket.IsStringListEmpty", "TypedBucket.getMarshaled",
   "entitySetSymbolImpl.openBoltCursor"]

/-- every site of `funcs` — and of any function of `file` the model does not know (a helper the sites moved
    into) — is guarded -/
def sitesGuarded (sites : List (String × String × String × Nat × Bool)) (file : String) (funcs : List String) : Bool :=
  sites.all fun s =>
    !(s.1 == file && (funcs.contains s.2.1 || !scanKnownFuncs.contains s.2.1)) || s.2.2.2.2

def guardsOf (sites : List (String × String × String × Nat × Bool)) (nilSafe : List String) : Guards where
  scanUnique := sitesGuarded sites "boltz/query_scanners.go" ["uniqueIndexScanner.Scan"]
  scanSorting := sitesGuarded sites "boltz/query_scanners.go" ["sortingScanner.Scan"]
  iterateIds := sitesGuarded sites "boltz/store_query.go" ["BaseStore.IterateIds"]
  findById := sitesGuarded sites "boltz/store_crud.go" ["BaseStore.FindById", "BaseStore.LoadById", "BaseStore.LoadEntity"]
  relatedCursor := sitesGuarded sites "boltz/store_crud.go" ["BaseStore.GetRelatedEntitiesCursor", "BaseStore.IsEntityRelated"]
  setIndexRead := sitesGuarded sites "boltz/indexes.go" ["setIndex.Read"]
  getBucketNilSafe := nilSafe.contains "GetBucket" && nilSafe.contains "GetBucketByKey" && nilSafe.contains "GetPath"
    && nilSafe.contains "GetStringList"

/-- the guards of the code as it is -/
def codeGuards : Guards := guardsOf Generated.C10.bucketSites Generated.C10.nilSafeMethods

/-- a cursor handed to `ScanCursor`: Go nil, a cursor over nothing, a cursor over rows -/
inductive Cur where
  | nilC | emptyC | rowsC
deriving DecidableEq, Repr

/-- `empty`: no row / not found / nil; `scanned`: the call went on to read existing buckets -/
inductive Ans where
  | empty | scanned
deriving DecidableEq, Repr

/-- a member selected on a `*TypedBucket` by a method that does not test its receiver -/
def recv (site : String) (p : Option Unit) : Outcome Unit := deref site p

def optOf (b : Bool) : Option Unit := if b then some () else none

def curAns : Cur → Ans
  | .rowsC => .scanned
  | _ => .empty          -- `cursor == nil` → `return nil, 0, nil`; an empty cursor: `!cursor.IsValid()` at once

/-- `uniqueIndexScanner.ScanCursor` -/
def scanCursorUnique (c : Cur) (skip limit : Option Int) : Outcome Ans :=
  setPaging skip limit >>= fun _ => .ok (curAns c)

/-- `sortingScanner.ScanCursor`: the comparator is built BEFORE the cursor is asked for -/
def scanCursorSorting (c : Cur) (sortSyms : List (SortSym × Bool)) (skip limit : Option Int) : Outcome Ans :=
  setPaging skip limit >>= fun _ =>
  newRowComparator (sortSyms ++ [(.typed .string, true)]) >>= fun _ => .ok (curAns c)

/-- the cursor `entityBucket.OpenCursor` yields on an existing entities bucket -/
def entitiesCursor (b : Buckets) : Cur := if b.entity then .rowsC else .emptyC

/-- `Scan` of either scanner: `entityBucket := store.GetEntitiesBucket(tx)`, then — guarded — `if entityBucket == nil
    { return nil, 0, nil }`, then the method value `entityBucket.OpenCursor` -/
def scanEntry (guarded : Bool) (b : Buckets) (k : Cur → Outcome Ans) : Outcome Ans :=
  if guarded && !b.entities then .ok .empty
  else recv "GetEntitiesBucket(tx).OpenCursor" (optOf b.entities) >>= fun _ => k (entitiesCursor b)

structure Q where
  /-- per sort field: (symbol is `id`, ascending) -/
  sort : List (Bool × Bool)
  sortSyms : List (SortSym × Bool)
  skip : Option Int
  limit : Option Int
  /-- the store is a child store / an extended child store -/
  child : Bool
  extended : Bool

/-- `BaseStore.QueryIdsC` -/
def queryIdsC (g : Guards) (b : Buckets) (q : Q) : Outcome Ans :=
  newScanner q.sort >>= fun k =>
  match k with
  | .sorting => scanEntry g.scanSorting b fun c => scanCursorSorting c q.sortSyms q.skip q.limit
  | _ => scanEntry g.scanUnique b fun c => scanCursorUnique c q.skip q.limit

/-- `BaseStore.QueryWithCursorC` with whatever the caller's provider yields -/
def queryWithCursorC (c : Cur) (q : Q) : Outcome Ans :=
  newScanner q.sort >>= fun k =>
  match k with
  | .sorting => scanCursorSorting c q.sortSyms q.skip q.limit
  | _ => scanCursorUnique c q.skip q.limit

/-- `BaseStore.GetEntityBucket`: `baseBucket.GetBucket(id)` on a possibly nil base bucket, and for a child store
    `if entityBucket == nil { return nil }`, `entityBucket.GetPath(...)` -/
def getEntityBucket (g : Guards) (b : Buckets) (child : Bool) : Outcome (Option Unit) :=
  (if g.getBucketNilSafe then .ok () else recv "baseBucket.GetBucket" (optOf b.entities)) >>= fun _ =>
  let eb := optOf (b.entities && b.entity)
  if !child then .ok eb
  else if eb.isNone then .ok none
  else .ok (optOf b.childData)

/-- `BaseStore.IterateIds` (newFilteredCursor sets the paging of a Query filter) -/
def iterateIds (g : Guards) (b : Buckets) (q : Q) : Outcome Ans :=
  if g.iterateIds && !b.entities then .ok .empty
  else recv "entitiesBucket.OpenSeekableCursor" (optOf b.entities) >>= fun _ =>
    setPaging q.skip q.limit >>= fun _ => .ok (curAns (entitiesCursor b))

/-- `BaseStore.IterateValidIds`: for an extended store every id is looked up with GetEntityBucket -/
def iterateValidIds (g : Guards) (b : Buckets) (q : Q) : Outcome Ans :=
  iterateIds g b q >>= fun a =>
  match a with
  | .empty => .ok .empty
  | .scanned => if q.extended then getEntityBucket g b q.child >>= fun _ => .ok .scanned else .ok .scanned

/-- `BaseStore.FindById` through getEntityBucketForLoad -/
def findById (g : Guards) (b : Buckets) (q : Q) : Outcome Ans :=
  getEntityBucket g b q.child >>= fun bk =>
  (if bk.isNone && q.extended then getEntityBucket g b false else .ok bk) >>= fun bk =>
  if g.findById && bk.isNone then .ok .empty
  else recv "bucket.HasError" bk >>= fun _ => .ok .scanned

/-- `BaseStore.GetRelatedEntitiesIdList`: `bucket.GetStringList(field)` is nil-safe down to the list bucket -/
def relatedIds (g : Guards) (b : Buckets) (q : Q) : Outcome Ans :=
  getEntityBucket g b q.child >>= fun bk =>
  if bk.isNone then .ok .empty else .ok (if b.field then .scanned else .empty)

/-- `BaseStore.GetRelatedEntitiesCursor` -/
def relatedCursor (g : Guards) (b : Buckets) (q : Q) : Outcome Ans :=
  getEntityBucket g b q.child >>= fun bk =>
  if bk.isNone then .ok .empty
  else if g.relatedCursor && !b.field then .ok .empty
  else recv "listBucket.OpenTypedCursor" (optOf b.field) >>= fun _ => .ok .scanned

/-- `setIndex.Read`: `Path(tx, indexPath...)`, `indexBaseBucket.Bucket.Bucket(key)` -/
def setIndexRead (g : Guards) (b : Buckets) : Outcome Ans :=
  if g.setIndexRead && !b.index then .ok .empty
  else recv "indexBaseBucket.Bucket" (optOf b.index) >>= fun _ => .ok .scanned

/-- `uniqueIndex.Read`: getIndexBucket never yields nil — a missing index bucket becomes `GetOrCreatePath`, which in a
    read-only transaction is an `ErrBucket` (`indexBucket.Err != nil` → nil answer) -/
def uniqueIndexRead (b : Buckets) : Outcome Ans :=
  if !b.index then .ok .empty else .ok .scanned

inductive Api where
  | queryIdsC | queryCursor (c : Cur) | iterateIds | iterateValidIds | findById | relatedIds | relatedCursor
  | uniqueRead | setRead
deriving DecidableEq, Repr

def readApi (g : Guards) (api : Api) (b : Buckets) (q : Q) : Outcome Ans :=
  match api with
  | .queryIdsC => queryIdsC g b q
  | .queryCursor c => queryWithCursorC c q
  | .iterateIds => iterateIds g b q
  | .iterateValidIds => iterateValidIds g b q
  | .findById => findById g b q
  | .relatedIds => relatedIds g b q
  | .relatedCursor => relatedCursor g b q
  | .uniqueRead => uniqueIndexRead b
  | .setRead => setIndexRead g b

/-- can the answer contain rows -/
def Outcome.rows : Outcome Ans → Bool
  | .ok .scanned => true
  | _ => false

/-- the structural bucket the API starts from does not exist -/
def Api.missing (api : Api) (b : Buckets) : Bool :=
  match api with
  | .queryCursor c => c != .rowsC
  | .uniqueRead | .setRead => !b.index
  | _ => !b.entities

/-! ### proofs -/

theorem rows_bind {α} (x : Outcome α) (f : α → Outcome Ans) (hf : ∀ a, x = .ok a → (f a).rows = false) :
    (x >>= f).rows = false := by
  cases x with
  | ok a => simpa using hf a rfl
  | err e => rfl
  | panic p => rfl

theorem recv_np (site : String) (b : Bool) (h : b = true) : (recv site (optOf b)).isPanic = false := by
  subst h; rfl

theorem scanCursorUnique_np (c : Cur) (skip limit : Option Int) : (scanCursorUnique c skip limit).isPanic = false :=
  isPanic_bind _ _ (setPaging_np skip limit) fun _ _ => rfl

theorem scanCursorSorting_np (c : Cur) (ss : List (SortSym × Bool)) (skip limit : Option Int) :
    (scanCursorSorting c ss skip limit).isPanic = false :=
  isPanic_bind _ _ (setPaging_np skip limit) fun _ _ =>
    isPanic_bind _ _ (newRowComparator_np _) fun _ _ => rfl

theorem scanEntry_np (b : Buckets) (k : Cur → Outcome Ans) (hk : ∀ c, (k c).isPanic = false) :
    (scanEntry true b k).isPanic = false := by
  unfold scanEntry
  cases h : b.entities
  · simp [Outcome.isPanic]
  · simp only [Bool.true_and, Bool.not_true, Bool.false_eq_true, if_false]
    exact isPanic_bind _ _ (recv_np _ _ rfl) fun _ _ => hk _

theorem getEntityBucket_np (b : Buckets) (child : Bool) : (getEntityBucket Guards.all b child).isPanic = false := by
  obtain ⟨e1, e2, e3, e4, e5⟩ := b
  cases child <;> cases e1 <;> cases e2 <;> cases e3 <;> rfl

theorem iterateIds_np (b : Buckets) (q : Q) : (iterateIds Guards.all b q).isPanic = false := by
  unfold iterateIds
  cases h : b.entities
  · simp [Guards.all, Outcome.isPanic]
  · simp only [Guards.all, Bool.true_and, Bool.not_true, Bool.false_eq_true, if_false]
    exact isPanic_bind _ _ (recv_np _ _ rfl) fun _ _ => isPanic_bind _ _ (setPaging_np _ _) fun _ _ => rfl

/-- no read API panics, whatever buckets exist, whatever the query's sort fields / skip / limit, whatever cursor a
    caller's provider yields — for code whose sites are all guarded -/
theorem readApi_np (api : Api) (b : Buckets) (q : Q) : (readApi Guards.all api b q).isPanic = false := by
  cases api with
  | queryIdsC =>
    show (queryIdsC Guards.all b q).isPanic = false
    unfold queryIdsC
    refine isPanic_bind _ _ (newScanner_np _) fun k _ => ?_
    cases k
    · exact scanEntry_np b _ fun c => scanCursorUnique_np c _ _
    · exact scanEntry_np b _ fun c => scanCursorUnique_np c _ _
    · exact scanEntry_np b _ fun c => scanCursorSorting_np c _ _ _
  | queryCursor c =>
    show (queryWithCursorC c q).isPanic = false
    unfold queryWithCursorC
    refine isPanic_bind _ _ (newScanner_np _) fun k _ => ?_
    cases k
    · exact scanCursorUnique_np c _ _
    · exact scanCursorUnique_np c _ _
    · exact scanCursorSorting_np c _ _ _
  | iterateIds => exact iterateIds_np b q
  | iterateValidIds =>
    show (iterateValidIds Guards.all b q).isPanic = false
    unfold iterateValidIds
    refine isPanic_bind _ _ (iterateIds_np b q) fun a _ => ?_
    cases a
    · rfl
    · cases q.extended
      · rfl
      · simp only [if_true]
        exact isPanic_bind _ _ (getEntityBucket_np b _) fun _ _ => rfl
  | findById =>
    show (findById Guards.all b q).isPanic = false
    unfold findById
    refine isPanic_bind _ _ (getEntityBucket_np b _) fun bk _ => ?_
    refine isPanic_bind _ _ ?_ fun bk2 _ => ?_
    · split
      · exact getEntityBucket_np b _
      · rfl
    · cases bk2 <;> simp [Guards.all, recv, deref, Outcome.isPanic]
  | relatedIds =>
    show (relatedIds Guards.all b q).isPanic = false
    unfold relatedIds
    refine isPanic_bind _ _ (getEntityBucket_np b _) fun bk _ => ?_
    split <;> rfl
  | relatedCursor =>
    show (relatedCursor Guards.all b q).isPanic = false
    unfold relatedCursor
    refine isPanic_bind _ _ (getEntityBucket_np b _) fun bk _ => ?_
    cases hf : b.field <;> cases bk <;> simp [Guards.all, recv, deref, optOf, Outcome.isPanic] <;> rfl
  | uniqueRead =>
    show (uniqueIndexRead b).isPanic = false
    unfold uniqueIndexRead; split <;> rfl
  | setRead =>
    show (setIndexRead Guards.all b).isPanic = false
    unfold setIndexRead
    cases hi : b.index <;> simp [Guards.all, recv, deref, optOf, Outcome.isPanic] <;> rfl

theorem scanEntry_rows (b : Buckets) (k : Cur → Outcome Ans) (h : b.entities = false) : (scanEntry true b k).rows = false := by
  unfold scanEntry; simp [h, Outcome.rows]

theorem getEntityBucket_missing (b : Buckets) (child : Bool) (h : b.entities = false) :
    getEntityBucket Guards.all b child = .ok none := by
  unfold getEntityBucket
  cases child <;> simp [Guards.all, h, optOf]

theorem scanCursor_rows_unique (c : Cur) (skip limit : Option Int) (h : (c != .rowsC) = true) :
    (scanCursorUnique c skip limit).rows = false :=
  rows_bind _ _ fun _ _ => by cases c <;> simp_all [curAns, Outcome.rows]

theorem scanCursor_rows_sorting (c : Cur) (ss : List (SortSym × Bool)) (skip limit : Option Int) (h : (c != .rowsC) = true) :
    (scanCursorSorting c ss skip limit).rows = false :=
  rows_bind _ _ fun _ _ => rows_bind _ _ fun _ _ => by cases c <;> simp_all [curAns, Outcome.rows]

/-- an API whose structural bucket was never created answers with nothing (or an error), never with rows -/
theorem readApi_missing_is_empty (api : Api) (b : Buckets) (q : Q) (h : api.missing b = true) :
    (readApi Guards.all api b q).rows = false := by
  cases api with
  | queryIdsC =>
    have hb : b.entities = false := by simpa [Api.missing] using h
    show (queryIdsC Guards.all b q).rows = false
    unfold queryIdsC
    refine rows_bind _ _ fun k _ => ?_
    cases k <;> exact scanEntry_rows b _ hb
  | queryCursor c =>
    have hc : (c != .rowsC) = true := by simpa [Api.missing] using h
    show (queryWithCursorC c q).rows = false
    unfold queryWithCursorC
    refine rows_bind _ _ fun k _ => ?_
    cases k
    · exact scanCursor_rows_unique c _ _ hc
    · exact scanCursor_rows_unique c _ _ hc
    · exact scanCursor_rows_sorting c _ _ _ hc
  | iterateIds =>
    have hb : b.entities = false := by simpa [Api.missing] using h
    show (iterateIds Guards.all b q).rows = false
    unfold iterateIds; simp [Guards.all, hb, Outcome.rows]
  | iterateValidIds =>
    have hb : b.entities = false := by simpa [Api.missing] using h
    show (iterateValidIds Guards.all b q).rows = false
    unfold iterateValidIds iterateIds; simp [Guards.all, hb, Outcome.rows]
  | findById =>
    have hb : b.entities = false := by simpa [Api.missing] using h
    show (findById Guards.all b q).rows = false
    obtain ⟨e1, e2, e3, e4, e5⟩ := b
    obtain ⟨s, ss, sk, li, ch, ex⟩ := q
    simp only at hb
    subst hb
    cases ch <;> cases ex <;> rfl
  | relatedIds =>
    have hb : b.entities = false := by simpa [Api.missing] using h
    show (relatedIds Guards.all b q).rows = false
    unfold relatedIds
    rw [getEntityBucket_missing b _ hb]; simp [Outcome.rows]
  | relatedCursor =>
    have hb : b.entities = false := by simpa [Api.missing] using h
    show (relatedCursor Guards.all b q).rows = false
    unfold relatedCursor
    rw [getEntityBucket_missing b _ hb]; simp [Outcome.rows]
  | uniqueRead =>
    have hb : b.index = false := by simpa [Api.missing] using h
    show (uniqueIndexRead b).rows = false
    unfold uniqueIndexRead; simp [hb, Outcome.rows]
  | setRead =>
    have hb : b.index = false := by simpa [Api.missing] using h
    show (setIndexRead Guards.all b).rows = false
    unfold setIndexRead; simp [Guards.all, hb, Outcome.rows]

/-- the model follows the code the other way too: a scanner whose `Scan` selects `OpenCursor` on the entities bucket
    without a nil test panics on a never-written store, for EVERY query that parses (even the empty filter) -/
theorem unguarded_scan_panics (g : Guards) (b : Buckets) (q : Q) (hg : g.scanUnique = false) (hb : b.entities = false)
    (hq : q.sort = []) : (readApi g .queryIdsC b q).isPanic = true := by
  show (queryIdsC g b q).isPanic = true
  unfold queryIdsC
  rw [hq]
  simp [newScanner, scanEntry, hg, hb, recv, deref, optOf, Outcome.isPanic]

end StorageModel.C10
