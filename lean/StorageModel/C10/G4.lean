import StorageModel.C10.Lex
/-
  C10 — the grammar file zitiql/ZitiQl.g4 as data, and what the Lean side computes from it.

  /verif/extract (c10_lexer.go) parses the grammar file and emits every rule as an `Rx` syntax
  tree (Generated/C10Lexer.lean).  Here:

  * `compileLexer` resolves fragment / rule references and numbers the tokens the way ANTLR does
    (implicit literals of the parser rules first, then the non-fragment lexer rules in file
    order), giving the rule table `List (TK × Pat)` that the reference lexer interprets;
  * `lexerAtnOk` / `parserAtnOk` compute, from the grammar rules, what the generated Go lexer and
    parser must contain — rule names, symbolic and literal names, rule → token type, the
    precedence rules, and per rule the multiset of non-epsilon transition labels of its ATN
    (character / token classes after ANTLR's set merging, rule calls with their precedence
    argument, precedence predicates of a left-recursive rule) — and compare it with the summary
    of the `serializedATN` literals decoded by the extractor (Generated/C10Atn.lean).
-/
namespace StorageModel.C10.G4

/-- right-hand side of a grammar rule, as written in the file -/
inductive Rx where
  | eps
  | lit (cps : List Nat)                          -- 'text'
  | set (neg : Bool) (ranges : List (Nat × Nat))  -- [a-z…]  /  ~[…]   (sorted, merged ranges)
  | ref (name : String)
  | seq (a b : Rx)
  | alt (a b : Rx)
  | opt (a : Rx)
  | star (a : Rx)
  | plus (a : Rx)
deriving DecidableEq, Repr, Inhabited

structure Rule where
  name : String
  fragment : Bool
  body : Rx
  /-- labels (`#Name`) of the top-level alternatives, "" when absent -/
  labels : List String
deriving DecidableEq, Repr, Inhabited

/-- a non-epsilon transition label of an ATN -/
inductive Leaf where
  | cls (neg : Bool) (ranges : List (Nat × Nat))   -- ATOM / RANGE / SET / NOT_SET (EOF = 0 in a parser)
  | call (rule prec : Nat)                         -- RULE transition
  | pred (p : Nat)                                 -- precedence predicate
  | other (kind : Nat)                             -- ACTION (6) / PREDICATE (4) / WILDCARD (9)
deriving DecidableEq, Repr, Inhabited

structure AtnSummary where
  /-- SHA-256 of the whole generated Go file -/
  fileSha256 : String
  note : String
  sha256 : String
  length : Nat
  version : Nat
  grammarType : Nat
  maxTokenType : Nat
  states : Nat
  decisions : Nat
  modes : Nat
  lexerActions : Nat
  ruleTokenType : List Nat
  precedenceRules : List Nat
  ruleStates : List Nat
  literalNames : List String
  symbolicNames : List String
  ruleNames : List String
  leaves : List (List Leaf)
deriving Repr, Inhabited

def isLexerName (s : String) : Bool :=
  match s.toList with
  | c :: _ => c.isUpper
  | [] => false

def lexerRules (g : List Rule) : List Rule := g.filter fun r => isLexerName r.name
def parserRules (g : List Rule) : List Rule := g.filter fun r => !isLexerName r.name
def findRule (g : List Rule) (n : String) : Option Rule := g.find? fun r => r.name == n

/-- quoted literals of a rule body, left to right -/
def litsOf : Rx → List (List Nat)
  | .eps => [] | .set _ _ => [] | .ref _ => []
  | .lit cps => [cps]
  | .seq a b => litsOf a ++ litsOf b
  | .alt a b => litsOf a ++ litsOf b
  | .opt a => litsOf a | .star a => litsOf a | .plus a => litsOf a

/-- the token rule that is exactly this literal, if any (then the literal is an alias of it) -/
def aliasOf (g : List Rule) (cps : List Nat) : Option Rule :=
  (lexerRules g).find? fun r => !r.fragment && r.body == .lit cps

/-- implicit tokens `T__0, T__1, …`: literals of the parser rules that no token rule defines -/
def implicitLits (g : List Rule) : List (List Nat) :=
  (((parserRules g).flatMap fun r => litsOf r.body).filter fun l => (aliasOf g l).isNone).eraseDups

def quoted (cps : List Nat) : String := "'" ++ String.ofList (cps.map Char.ofNat) ++ "'"

/-- the tokens in type-number order: (name, body) -/
def tokenRules (g : List Rule) : List (String × Rx) :=
  (implicitLits g).map (fun l => (quoted l, Rx.lit l)) ++
  ((lexerRules g).filter fun r => !r.fragment).map fun r => (r.name, r.body)

def litPat : List Nat → Pat
  | [] => .eps
  | [c] => .set ⟨false, [(c, c)]⟩
  | c :: cs => .seq (.set ⟨false, [(c, c)]⟩) (litPat cs)

/-- a rule body with every reference replaced by the body of the lexer rule it names (`none`:
    unknown name, reference to a parser rule, or nesting deeper than the fuel — a recursive rule) -/
def resolve (g : List Rule) : Nat → Rx → Option Pat
  | 0, _ => none
  | _ + 1, .eps => some .eps
  | _ + 1, .lit cps => some (litPat cps)
  | _ + 1, .set neg rs => some (.set ⟨neg, rs⟩)
  | n + 1, .ref name =>
    match findRule (lexerRules g) name with
    | some r => resolve g n r.body
    | none => none
  | n + 1, .seq a b => do let x ← resolve g n a; let y ← resolve g n b; pure (.seq x y)
  | n + 1, .alt a b => do let x ← resolve g n a; let y ← resolve g n b; pure (.alt x y)
  | n + 1, .opt a => do let x ← resolve g n a; pure (.opt x)
  | n + 1, .star a => do let x ← resolve g n a; pure (.star x)
  | n + 1, .plus a => do let x ← resolve g n a; pure (.plus x)

def resolveFuel : Nat := 48

/-- the rule table the reference lexer interprets -/
def compileLexer (g : List Rule) : Option (List (TK × Pat)) :=
  (tokenRules g).mapM fun (name, body) => do
    let k ← TK.ofName name
    let p ← resolve g resolveFuel body
    pure (k, p)

/-! ## what the generated code must look like -/

def lexerRuleNames (g : List Rule) : List String :=
  ((List.range (implicitLits g).length).map fun i => "T__" ++ toString i) ++ (lexerRules g).map (·.name)

def parserRuleNames (g : List Rule) : List String := (parserRules g).map (·.name)

/-- token type of every lexer rule (0 for a fragment) -/
def tokenTypesFrom : Nat → List Rule → List Nat
  | _, [] => []
  | n, r :: rs => if r.fragment then 0 :: tokenTypesFrom n rs else n :: tokenTypesFrom (n + 1) rs

def lexerRuleTokenTypes (g : List Rule) : List Nat :=
  let k := (implicitLits g).length
  (List.range k).map (· + 1) ++ tokenTypesFrom (k + 1) (lexerRules g)

def symbolicNames (g : List Rule) : List String :=
  "" :: (tokenRules g).map fun (n, _) => if n.toList.head? == some '\'' then "" else n

def dropTrailingEmpty (l : List String) : List String := (l.reverse.dropWhile (· == "")).reverse

def literalNames (g : List Rule) : List String :=
  dropTrailingEmpty ("" :: (tokenRules g).map fun (_, b) => match b with | .lit cps => quoted cps | _ => "")

def tokenType (g : List Rule) (name : String) : Option Nat :=
  ((tokenRules g).map (·.1)).idxOf? name |>.map (· + 1)

/-! ### ranges -/

def insRange (r : Nat × Nat) : List (Nat × Nat) → List (Nat × Nat)
  | [] => [r]
  | x :: xs => if r.1 < x.1 || (r.1 == x.1 && r.2 ≤ x.2) then r :: x :: xs else x :: insRange r xs

/-- merge a sorted list of ranges, structurally: `acc` is the current range -/
def mergeFrom (acc : Nat × Nat) : List (Nat × Nat) → List (Nat × Nat)
  | [] => [acc]
  | y :: rest => if y.1 ≤ acc.2 + 1 then mergeFrom (acc.1, max acc.2 y.2) rest else acc :: mergeFrom y rest

def normRanges (rs : List (Nat × Nat)) : List (Nat × Nat) :=
  match rs.foldr insRange [] with
  | [] => []
  | x :: xs => mergeFrom x xs

/-! ### leaves -/

def flattenAlt : Rx → List Rx
  | .alt a b => flattenAlt a ++ flattenAlt b
  | r => [r]

def flattenSeq : Rx → List Rx
  | .seq a b => flattenSeq a ++ flattenSeq b
  | r => [r]

/-- a lexer alternative that is a single character class (candidate for ANTLR's set merging) -/
def lexSimple : Rx → Option (List (Nat × Nat))
  | .lit [c] => some [(c, c)]
  | .set false rs => some rs
  | _ => none

/-- merge maximal runs (length ≥ 2) of consecutive simple alternatives into one class; `run` is
    the run collected so far (ranges, number of alternatives in it), `single` what a run of
    length one is emitted as -/
def mergeRuns (simple : Rx → Option (List (Nat × Nat))) (leaves : Rx → List Leaf) :
    List Rx → Option (List (Nat × Nat) × Rx × Nat) → List Leaf
  | [], none => []
  | [], some (rs, one, n) => if n ≥ 2 then [.cls false (normRanges rs)] else leaves one
  | a :: rest, run =>
    match simple a, run with
    | some rs, none => mergeRuns simple leaves rest (some (rs, a, 1))
    | some rs, some (acc, one, n) => mergeRuns simple leaves rest (some (acc ++ rs, one, n + 1))
    | none, none => leaves a ++ mergeRuns simple leaves rest none
    | none, some (acc, one, n) =>
      (if n ≥ 2 then [.cls false (normRanges acc)] else leaves one) ++ leaves a ++ mergeRuns simple leaves rest none

/-- transition labels of a lexer rule body (fuel: nesting depth) -/
def lexLeaves (names : List String) : Nat → Rx → List Leaf
  | 0, _ => [.other 0]
  | _ + 1, .eps => []
  | _ + 1, .lit cps => cps.map fun c => .cls false [(c, c)]
  | _ + 1, .set neg rs => [.cls neg rs]
  | _ + 1, .ref name => match names.idxOf? name with | some i => [.call i 0] | none => [.other 1]
  | n + 1, .seq a b => lexLeaves names n a ++ lexLeaves names n b
  | n + 1, .alt a b => mergeRuns lexSimple (lexLeaves names n) (flattenAlt (.alt a b)) none
  | n + 1, .opt a => lexLeaves names n a
  | n + 1, .star a => lexLeaves names n a
  | n + 1, .plus a => lexLeaves names n a

/-- parser side: a token reference / literal as a token type -/
def tokOf (g : List Rule) : Rx → Option Nat
  | .ref "EOF" => some 0
  | .ref name => if isLexerName name then tokenType g name else none
  | .lit cps => match aliasOf g cps with
    | some r => tokenType g r.name
    | none => tokenType g (quoted cps)
  | _ => none

/-- transition labels of a parser rule body; `self`/`selfPrec`: calls of the rule itself carry this
    precedence argument -/
def parLeaves (g : List Rule) (names : List String) : Nat → Rx → List Leaf
  | 0, _ => [.other 0]
  | _ + 1, .eps => []
  | _ + 1, .set _ _ => [.other 2]
  | _ + 1, .lit cps => match tokOf g (.lit cps) with | some t => [.cls false [(t, t)]] | none => [.other 3]
  | _ + 1, .ref name =>
    match tokOf g (.ref name) with
    | some t => [.cls false [(t, t)]]
    | none => match names.idxOf? name with | some i => [.call i 0] | none => [.other 1]
  | n + 1, .seq a b => parLeaves g names n a ++ parLeaves g names n b
  | n + 1, .alt a b =>
    let as := flattenAlt (.alt a b)
    -- a block whose alternatives are ALL single tokens becomes one set transition
    match as.mapM (tokOf g) with
    | some ts => [.cls false (normRanges (ts.map fun t => (t, t)))]
    | none => as.flatMap (parLeaves g names n)
  | n + 1, .opt a => parLeaves g names n a
  | n + 1, .star a => parLeaves g names n a
  | n + 1, .plus a => parLeaves g names n a

def leafFuel : Nat := 40

def isSelf (name : String) : Rx → Bool
  | .ref n => n == name
  | _ => false

/-- is the rule directly left-recursive (some alternative starts with a reference to itself) -/
def leftRecursive (r : Rule) : Bool :=
  (flattenAlt r.body).any fun a => match flattenSeq a with | x :: _ => isSelf r.name x | [] => false

def seqOf : List Rx → Rx
  | [] => .eps
  | [x] => x
  | x :: xs => .seq x (seqOf xs)

/-- leaves of one alternative of a left-recursive rule, ANTLR's precedence-climbing rewrite:
    alternative `i` of `n` (0-based) has precedence `n - i`; a binary alternative `self … self` and
    a suffix alternative `self …` lose the leading reference and get a precedence predicate (the
    trailing operand of a binary alternative is called with precedence + 1), a prefix alternative
    `… self` calls its operand with the alternative's precedence; every other self call has 0 -/
def precAltLeaves (g : List Rule) (names : List String) (self : String) (selfIdx : Nat) (prec : Nat) (a : Rx) : List Leaf :=
  let es := flattenSeq a
  let startsSelf := match es with | x :: _ :: _ => isSelf self x | _ => false
  let endsSelf := match es.reverse with | x :: _ :: _ => isSelf self x | _ => false
  if startsSelf && endsSelf then
    .pred prec :: parLeaves g names leafFuel (seqOf (es.drop 1).dropLast) ++ [.call selfIdx (prec + 1)]
  else if startsSelf then
    .pred prec :: parLeaves g names leafFuel (seqOf (es.drop 1))
  else if endsSelf then
    parLeaves g names leafFuel (seqOf es.dropLast) ++ [.call selfIdx prec]
  else parLeaves g names leafFuel a

def enumFrom' {α} : Nat → List α → List (Nat × α)
  | _, [] => []
  | n, x :: xs => (n, x) :: enumFrom' (n + 1) xs

def parserRuleLeaves (g : List Rule) (names : List String) (r : Rule) : List Leaf :=
  if leftRecursive r then
    let as := flattenAlt r.body
    let idx := (names.idxOf? r.name).getD 0
    -- the rewritten rule starts with an (empty) action
    .other 6 :: (enumFrom' 0 as).flatMap fun (i, a) => precAltLeaves g names r.name idx (as.length - i) a
  else parLeaves g names leafFuel r.body

def expectedLexerLeaves (g : List Rule) : List (List Leaf) :=
  let names := lexerRuleNames g
  (implicitLits g).map (fun l => lexLeaves names leafFuel (.lit l)) ++
  (lexerRules g).map fun r => lexLeaves names leafFuel r.body

def expectedParserLeaves (g : List Rule) : List (List Leaf) :=
  let names := parserRuleNames g
  (parserRules g).map (parserRuleLeaves g names)

def permAll : List (List Leaf) → List (List Leaf) → Bool
  | [], [] => true
  | a :: as, b :: bs => a.isPerm b && permAll as bs
  | _, _ => false

def lexerAtnOk (g : List Rule) (a : AtnSummary) : Bool :=
  a.note == "" && a.version == 4 && a.grammarType == 0 && a.modes == 1 && a.lexerActions == 0 &&
  a.maxTokenType == (tokenRules g).length &&
  a.ruleNames == lexerRuleNames g &&
  a.symbolicNames == symbolicNames g &&
  a.literalNames == literalNames g &&
  a.ruleTokenType == lexerRuleTokenTypes g &&
  a.precedenceRules == [] &&
  permAll a.leaves (expectedLexerLeaves g)

def precedenceRuleIdx (g : List Rule) : List Nat :=
  (enumFrom' 0 (parserRules g)).filterMap fun (i, r) => if leftRecursive r then some i else none

def parserAtnOk (g : List Rule) (a : AtnSummary) : Bool :=
  a.note == "" && a.version == 4 && a.grammarType == 1 &&
  a.maxTokenType == (tokenRules g).length &&
  a.ruleNames == parserRuleNames g &&
  a.symbolicNames == symbolicNames g &&
  a.literalNames == literalNames g &&
  a.precedenceRules == precedenceRuleIdx g &&
  permAll a.leaves (expectedParserLeaves g)

/-! ## relational meaning of the parser rules -/

/-- the token type a quoted literal in a parser rule stands for (only implicit tokens: `','`) -/
def litKind (cps : List Nat) : Option TK := TK.ofName (quoted cps)

/-- `Derives g r ks`: the token-kind sequence `ks` is derived from the right-hand side `r` in the
    grammar `g` (white space is an ordinary token in this grammar; `EOF` derives nothing) -/
inductive Derives (g : List Rule) : Rx → List TK → Prop where
  | eps : Derives g .eps []
  | eof : Derives g (.ref "EOF") []
  | tok {name k} : isLexerName name = true → TK.ofName name = some k → Derives g (.ref name) [k]
  | lit {cps k} : litKind cps = some k → Derives g (.lit cps) [k]
  | rule {name r w} : isLexerName name = false → findRule g name = some r → Derives g r.body w →
      Derives g (.ref name) w
  | seq {a b x y} : Derives g a x → Derives g b y → Derives g (.seq a b) (x ++ y)
  | altL {a b x} : Derives g a x → Derives g (.alt a b) x
  | altR {a b x} : Derives g b x → Derives g (.alt a b) x
  | optNone {a} : Derives g (.opt a) []
  | optSome {a x} : Derives g a x → Derives g (.opt a) x
  | starNil {a} : Derives g (.star a) []
  | starCons {a x y} : Derives g a x → Derives g (.star a) y → Derives g (.star a) (x ++ y)
  | plus {a x y} : Derives g a x → Derives g (.star a) y → Derives g (.plus a) (x ++ y)

/-- a sentence of the grammar, as a sequence of token kinds -/
def Sentence (g : List Rule) (ks : List TK) : Prop := Derives g (.ref "start") ks

end StorageModel.C10.G4
