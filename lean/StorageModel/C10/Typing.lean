import StorageModel.C10.Eval
/-
  C10 — which Eval methods a typed node can safely be asked for.  `okBool t` etc. describe the
  trees the transformation builds: the field types of the Go structs (BoolNode, StringNode,
  Int64Node, Float64Node, DatetimeNode) made explicit.
-/
namespace StorageModel.C10

mutual
def okBool : T → Bool
  | .boolC _ => true
  | .symT k _ => k == .bool || k == .anyType
  | .notE e => okBool e
  | .andE l r => okBool l && okBool r
  | .orE l r => okBool l && okBool r
  | .binBool _ l r => okBool l && okBool r
  | .binDt _ l r => okDt l && okDt r
  | .binFlt _ l r => okFlt l && okFlt r
  | .binInt _ l r => okInt l && okInt r
  | .binStr _ l r => okStr l && okStr r
  | .isNil _ _ => true
  | .intBtw l lo hi => okInt l && okInt lo && okInt hi
  | .fltBtw l lo hi => okFlt l && okFlt lo && okFlt hi
  | .dtBtw l lo hi => okDt l && okDt lo && okDt hi
  | .inStr l _ => okStr l
  | .inInt l _ => okInt l
  | .inFlt l _ => okFlt l
  | .inDt l _ => okDt l
  | .allOf _ p => okBool p
  | .anyOf _ p false => okBool p
  | .anyOf _ (.binStr _ l r) true => okStr l && okStr r
  | .anyOf _ _ true => false
  | .isEmptySet _ => true
  | .isEmptySetQ _ q => okBool q
  | .query p _ _ _ => okBool p
  | _ => false
def okStr : T → Bool
  | .lit l => match l with | .dt _ => false | _ => true
  | .symT k _ => k == .string || k == .anyType || k == .int64 || k == .float64
  | .i2f w => okStr w
  | .strFunc x => okStr x
  | .countSet _ => true
  | .countSetQ _ q => okBool q
  | _ => false
def okInt : T → Bool
  | .lit l => match l with | .int _ => true | _ => false
  | .symT k _ => k == .int64 || k == .anyType
  | .countSet _ => true
  | .countSetQ _ q => okBool q
  | _ => false
def okFlt : T → Bool
  | .lit l => match l with | .flt _ => true | _ => false
  | .symT k _ => k == .float64 || k == .anyType
  | .i2f w => okInt w
  | _ => false
def okDt : T → Bool
  | .lit l => match l with | .dt _ => true | _ => false
  | .symT k _ => k == .datetime || k == .anyType
  | _ => false
end

end StorageModel.C10
