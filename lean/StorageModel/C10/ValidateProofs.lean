import StorageModel.C10.Shapes
import StorageModel.C10.EvalProofs
/-
  C10 — the SymbolValidator pass never indexes its empty type stack: a sub-query whose symbol is
  an identifier pushes before it pops.
-/
namespace StorageModel.C10

/-- every sub-query has an identifier in symbol position -/
def vShape : U → Bool
  | .logic _ _ l r => vShape l && vShape r
  | .binary _ l r => vShape l && vShape r
  | .inArr l r => vShape l && vShape r
  | .between l lo hi => vShape l && vShape lo && vShape hi
  | .setFn _ s => vShape s
  | .unot e => vShape e
  | .notE e => vShape e
  | .query p s _ _ => vShape p && vShape s
  | .subQ s q => isSymU s && vShape q
  | .sortBy f => vShape f
  | .sfCons s _ rest => vShape s && vShape rest
  | _ => true

def VInv (v : VState) : Prop := v.err = true ∨ v.onDeck = none

def VPost (v v' : VState) : Prop :=
  (v.err = true → v'.err = true) ∧ (v'.err = true ∨ (v'.onDeck = none ∧ v'.typeStack = v.typeStack))

theorem vpost_inv {v v' : VState} (h : VPost v v') : VInv v' := by
  rcases h.2 with h | h
  · exact Or.inl h
  · exact Or.inr h.1

theorem vpost_trans {a b c : VState} (h1 : VPost a b) (h2 : VPost b c) : VPost a c := by
  refine ⟨fun h => h2.1 (h1.1 h), ?_⟩
  rcases h2.2 with h | h
  · exact Or.inl h
  · rcases h1.2 with h' | h'
    · exact Or.inl (h2.1 h')
    · exact Or.inr ⟨h.1, by rw [h.2, h'.2]⟩

theorem visit_err_mono (v : VState) (n : Name) (h : v.err = true) : (visitUntypedSymbol v n).err = true := by
  obtain ⟨isf, stt, err, ts, od⟩ := v
  simp only at h; subst h
  unfold visitUntypedSymbol
  cases hs : stt.isSet n with
  | none => simp [VState.setErr]
  | some b => cases od <;> cases isf <;> cases b <;> simp [VState.setErr]

theorem visit_noDeck (v : VState) (n : Name) (h : v.onDeck = none) :
    (visitUntypedSymbol v n).onDeck = none ∧ (visitUntypedSymbol v n).typeStack = v.typeStack := by
  obtain ⟨isf, stt, err, ts, od⟩ := v
  simp only at h; subst h
  unfold visitUntypedSymbol
  cases hs : stt.isSet n with
  | none => simp [VState.setErr]
  | some b => cases isf <;> cases b <;> simp [VState.setErr]

theorem visit_onDeck (v : VState) (n : Name) (t : SymTab) (h : v.onDeck = some t) :
    (visitUntypedSymbol v n).err = true ∨
      ((visitUntypedSymbol v n).onDeck = none ∧ (visitUntypedSymbol v n).typeStack = v.symbolTypes :: v.typeStack) := by
  obtain ⟨isf, stt, err, ts, od⟩ := v
  simp only at h; subst h
  unfold visitUntypedSymbol
  cases hs : stt.isSet n with
  | none => simp [VState.setErr]
  | some b => cases isf <;> cases b <;> simp [VState.setErr]

/-- VisitUntypedSubQueryNodeStart -/
def subStart (v : VState) (n : Name) : VState :=
  match v.symbolTypes.sub n with
  | none => v.setErr
  | some t => { v with onDeck := some t }

/-- VisitUntypedSubQueryNodeEnd -/
def subEnd (v2 : VState) : Outcome VState :=
  if v2.err then .ok v2 else
  match v2.typeStack with
  | [] => .panic "SymbolValidator.VisitUntypedSubQueryNodeEnd: typeStack[0] on empty stack"
  | t :: rest => .ok { v2 with symbolTypes := t, typeStack := rest }

theorem validate_subQ_sym (v : VState) (n : Name) (q : U) :
    validate v (.subQ (.sym n) q) = (validate (visitUntypedSymbol (subStart v n) n) q >>= subEnd) := by
  simp only [validate, Outcome.bind_ok, U.symbolName, subStart]
  rfl

theorem visit_post (v : VState) (n : Name) (hv : VInv v) : VPost v (visitUntypedSymbol v n) := by
  refine ⟨visit_err_mono v n, ?_⟩
  rcases hv with he | hd
  · exact Or.inl (visit_err_mono v n he)
  · exact Or.inr (visit_noDeck v n hd)

/-- what one node of the validator's walk does to the state -/
def VOk (x : Outcome VState) (v : VState) : Prop := ∃ v', x = .ok v' ∧ VPost v v'

theorem vok_bind {x : Outcome VState} {f : VState → Outcome VState} {v : VState} (hx : VOk x v)
    (hf : ∀ v', VPost v v' → VOk (f v') v') : VOk (x >>= f) v := by
  obtain ⟨v1, rfl, h1⟩ := hx
  obtain ⟨v2, h2e, h2⟩ := hf v1 h1
  exact ⟨v2, by simpa using h2e, vpost_trans h1 h2⟩

theorem vpost_refl (v : VState) (hv : VInv v) : VPost v v := by
  refine ⟨id, ?_⟩
  rcases hv with h | h
  · exact Or.inl h
  · exact Or.inr ⟨h, rfl⟩

theorem validate_ok (u : U) :
    (vShape u = true → ∀ v, VInv v → VOk (validate v u) v) ∧
    (vShape u = true → ∀ v, VInv v → VOk (validateSort v u) v) := by
  induction u with
  | sym n =>
    refine ⟨fun _ v hv => ?_, fun _ v hv => ?_⟩
    · exact ⟨_, by simp [validate], visit_post v n hv⟩
    · exact ⟨v, by simp [validateSort], vpost_refl v hv⟩
  | logic op g l r ihl ihr =>
    refine ⟨fun h v hv => ?_, fun _ v hv => ⟨v, by simp [validateSort], vpost_refl v hv⟩⟩
    simp only [vShape, Bool.and_eq_true] at h
    simp only [validate]
    exact vok_bind (ihl.1 h.1 v hv) (fun v' hp => ihr.1 h.2 v' (vpost_inv hp))
  | binary op l r ihl ihr =>
    refine ⟨fun h v hv => ?_, fun _ v hv => ⟨v, by simp [validateSort], vpost_refl v hv⟩⟩
    simp only [vShape, Bool.and_eq_true] at h
    simp only [validate]
    exact vok_bind (ihl.1 h.1 v hv) (fun v' hp => ihr.1 h.2 v' (vpost_inv hp))
  | inArr l r ihl ihr =>
    refine ⟨fun h v hv => ?_, fun _ v hv => ⟨v, by simp [validateSort], vpost_refl v hv⟩⟩
    simp only [vShape, Bool.and_eq_true] at h
    simp only [validate]
    exact vok_bind (ihl.1 h.1 v hv) (fun v' hp => ihr.1 h.2 v' (vpost_inv hp))
  | between l lo hi ihl ihlo ihhi =>
    refine ⟨fun h v hv => ?_, fun _ v hv => ⟨v, by simp [validateSort], vpost_refl v hv⟩⟩
    simp only [vShape, Bool.and_eq_true] at h
    simp only [validate]
    apply vok_bind (ihl.1 h.1.1 v hv); intro v1 hp1
    exact vok_bind (ihlo.1 h.1.2 v1 (vpost_inv hp1)) (fun v2 hp2 => ihhi.1 h.2 v2 (vpost_inv hp2))
  | setFn f s ih =>
    refine ⟨fun h v hv => ?_, fun _ v hv => ⟨v, by simp [validateSort], vpost_refl v hv⟩⟩
    simp only [vShape] at h
    simp only [validate]
    have hv0 : VInv { v with inSetFunction := true } := hv
    obtain ⟨v1, h1e, h1⟩ := ih.1 h { v with inSetFunction := true } hv0
    rw [h1e]; simp only [Outcome.bind_ok]
    have hp : VPost v { v1 with inSetFunction := false } := ⟨h1.1, h1.2⟩
    split
    · refine ⟨_, rfl, ⟨fun _ => rfl, Or.inl rfl⟩⟩
    · exact ⟨_, rfl, hp⟩
  | unot e ih =>
    refine ⟨fun h v hv => ?_, fun _ v hv => ⟨v, by simp [validateSort], vpost_refl v hv⟩⟩
    simp only [vShape] at h
    simp only [validate]; exact ih.1 h v hv
  | notE e ih =>
    refine ⟨fun h v hv => ?_, fun _ v hv => ⟨v, by simp [validateSort], vpost_refl v hv⟩⟩
    simp only [vShape] at h
    simp only [validate]; exact ih.1 h v hv
  | query p s sk li ihp ihs =>
    refine ⟨fun h v hv => ?_, fun _ v hv => ⟨v, by simp [validateSort], vpost_refl v hv⟩⟩
    simp only [vShape, Bool.and_eq_true] at h
    simp only [validate]
    exact vok_bind (ihp.1 h.1 v hv) (fun v' hp => ihs.2 h.2 v' (vpost_inv hp))
  | subQ s q ihs ihq =>
    refine ⟨fun h v hv => ?_, fun _ v hv => ⟨v, by simp [validateSort], vpost_refl v hv⟩⟩
    simp only [vShape, Bool.and_eq_true] at h
    cases s <;> simp [isSymU] at h
    case sym n =>
      rw [validate_subQ_sym]
      have hv1 : (v.err = true → (visitUntypedSymbol (subStart v n) n).err = true) ∧
          ((visitUntypedSymbol (subStart v n) n).err = true ∨
            ((visitUntypedSymbol (subStart v n) n).onDeck = none ∧
              ∃ top, (visitUntypedSymbol (subStart v n) n).typeStack = top :: v.typeStack)) := by
        unfold subStart
        cases hsub : v.symbolTypes.sub n with
        | none =>
          simp only
          exact ⟨fun _ => visit_err_mono _ n rfl, Or.inl (visit_err_mono _ n rfl)⟩
        | some t =>
          simp only
          refine ⟨fun he => visit_err_mono _ n he, ?_⟩
          rcases visit_onDeck { v with onDeck := some t } n t rfl with h' | h'
          · exact Or.inl h'
          · exact Or.inr ⟨h'.1, _, h'.2⟩
      have hinv1 : VInv (visitUntypedSymbol (subStart v n) n) := by
        rcases hv1.2 with h1 | h1
        · exact Or.inl h1
        · exact Or.inr h1.1
      obtain ⟨v2, h2e, h2⟩ := ihq.1 h (visitUntypedSymbol (subStart v n) n) hinv1
      rw [h2e]; simp only [Outcome.bind_ok, subEnd]
      by_cases he2 : v2.err = true
      · simp only [he2, if_true]
        exact ⟨v2, rfl, ⟨fun _ => he2, Or.inl he2⟩⟩
      · simp only [he2, Bool.false_eq_true, if_false]
        have hne1 : (visitUntypedSymbol (subStart v n) n).err ≠ true := fun h' => he2 (h2.1 h')
        have hne : v.err ≠ true := fun h' => hne1 (hv1.1 h')
        rcases h2.2 with h' | ⟨hd2, hts2⟩
        · exact absurd h' he2
        · rcases hv1.2 with h' | ⟨_, top, htop⟩
          · exact absurd h' hne1
          · rw [hts2, htop]
            simp only
            refine ⟨_, rfl, ⟨fun h' => absurd h' hne, Or.inr ⟨hd2, rfl⟩⟩⟩
  | sortBy f ih =>
    refine ⟨fun h v hv => ?_, fun h v hv => ?_⟩
    · simp only [vShape] at h; simp only [validate]; exact ih.2 h v hv
    · simp only [vShape] at h; simp only [validateSort]; exact ih.2 h v hv
  | sfCons s asc rest ihs ihr =>
    refine ⟨fun _ v hv => ⟨v, by simp [validate], vpost_refl v hv⟩, fun h v hv => ?_⟩
    simp only [vShape, Bool.and_eq_true] at h
    simp only [validateSort]
    exact vok_bind (ihs.1 h.1 v hv) (fun v' hp => ihr.2 h.2 v' (vpost_inv hp))
  | _ =>
    refine ⟨fun _ v hv => ⟨v, by simp [validate], vpost_refl v hv⟩, fun _ v hv => ⟨v, by simp [validateSort], vpost_refl v hv⟩⟩

theorem shSort_vShape : ∀ (f : U), shSort f = true → vShape f = true := by
  intro f
  induction f with
  | sfCons s asc rest _ ih =>
    intro h
    cases s <;> simp [shSort] at h
    simp [vShape, ih h]
  | sfNil => intro _; simp [vShape]
  | _ => intro h; simp [shSort] at h

/-- grammar-shaped trees have identifiers in every sub-query -/
theorem sh_vShape (u : U) :
    (shLhs u = true → vShape u = true) ∧ (shSetExpr u = true → vShape u = true) ∧
    (shBool u = true → vShape u = true) ∧ (shNotArg u = true → vShape u = true) ∧
    (shQuery u = true → vShape u = true) := by
  induction u with
  | logic op g l r ihl ihr =>
    refine ⟨?_, ?_, ?_, ?_, ?_⟩ <;> intro h <;> simp [shLhs, shSetExpr, shBool, shNotArg, shQuery] at h
    simp [vShape, ihl.2.2.1 h.1, ihr.2.2.1 h.2]
  | binary op l r ihl ihr =>
    refine ⟨?_, ?_, ?_, ?_, ?_⟩ <;> intro h <;> simp [shLhs, shSetExpr, shBool, shNotArg, shQuery] at h
    have : vShape r = true := by cases r <;> simp [isRhsU] at h <;> simp [vShape]
    simp [vShape, ihl.1 h.1, this]
  | inArr l r ihl ihr =>
    have key : shLhs l = true → isArrU r = true → vShape (.inArr l r) = true := by
      intro h1 h2
      have : vShape r = true := by cases r <;> simp [isArrU] at h2 <;> simp [vShape]
      simp [vShape, ihl.1 h1, this]
    refine ⟨?_, ?_, ?_, ?_, ?_⟩ <;> intro h <;> simp [shLhs, shSetExpr, shBool, shNotArg, shQuery] at h <;>
      exact key h.1 h.2
  | between l lo hi ihl _ _ =>
    have key : shLhs l = true → isRhsU lo = true → isRhsU hi = true → vShape (.between l lo hi) = true := by
      intro h1 h2 h3
      have a : vShape lo = true := by cases lo <;> simp [isRhsU] at h2 <;> simp [vShape]
      have b : vShape hi = true := by cases hi <;> simp [isRhsU] at h3 <;> simp [vShape]
      simp [vShape, ihl.1 h1, a, b]
    refine ⟨?_, ?_, ?_, ?_, ?_⟩ <;> intro h <;> simp [shLhs, shSetExpr, shBool, shNotArg, shQuery] at h <;>
      exact key h.1.1 h.1.2 h.2
  | setFn f s ih =>
    refine ⟨?_, ?_, ?_, ?_, ?_⟩ <;> intro h <;> simp [shLhs, shSetExpr, shBool, shNotArg, shQuery] at h
    · rcases h with ⟨_, hs⟩ | ⟨_, hs⟩
      · cases s <;> simp [isSymU] at hs; simp [vShape]
      · simp [vShape, ih.2.1 hs]
    · simp [vShape, ih.2.1 h.2]
  | unot e ih =>
    refine ⟨?_, ?_, ?_, ?_, ?_⟩ <;> intro h <;> simp [shLhs, shSetExpr, shBool, shNotArg, shQuery] at h
    simp [vShape, ih.2.2.1 h]
  | notE e ih =>
    refine ⟨?_, ?_, ?_, ?_, ?_⟩ <;> intro h <;> simp [shLhs, shSetExpr, shBool, shNotArg, shQuery] at h
    simp [vShape, ih.2.2.2.1 h]
  | query p s sk li ihp _ =>
    refine ⟨?_, ?_, ?_, ?_, ?_⟩ <;> intro h <;> simp [shLhs, shSetExpr, shBool, shNotArg, shQuery] at h
    have hs : vShape s = true := by
      cases s <;> simp [sortOK] at h <;> simp [vShape]
      exact shSort_vShape _ h.2
    simp [vShape, ihp.2.2.1 h.1, hs]
  | subQ s q _ ihq =>
    refine ⟨?_, ?_, ?_, ?_, ?_⟩ <;> intro h <;> simp [shLhs, shSetExpr, shBool, shNotArg, shQuery] at h
    simp [vShape, h.1, ihq.2.2.2.2 h.2]
  | sortBy f _ => refine ⟨?_, ?_, ?_, ?_, ?_⟩ <;> intro h <;> simp [shLhs, shSetExpr, shBool, shNotArg, shQuery] at h
  | sfCons s a r _ _ => refine ⟨?_, ?_, ?_, ?_, ?_⟩ <;> intro h <;> simp [shLhs, shSetExpr, shBool, shNotArg, shQuery] at h
  | _ => refine ⟨?_, ?_, ?_, ?_, ?_⟩ <;> intro _ <;> simp [vShape]

end StorageModel.C10
