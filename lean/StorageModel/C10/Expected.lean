import StorageModel.C10.G4
/-
  C10 — committed expectations for the data /verif/extract regenerates from the source
  (Generated/C10Classes.lean, Generated/C10Sites.lean).  The model in this directory was written
  against exactly these facts: the class table drives every type assertion of the model, each
  partial site listed here is a `panic` branch (or a guarded dereference) of the model, the
  callbacks are the cases of `Listener.step`.  The property file proves that the regenerated
  data equals these expectations; a difference means the code moved away from the model.
-/
namespace StorageModel.C10

def expectedClassTable : List (String × List String × String) := [
  ("AllOfSetExprNode", ["BoolNode", "Node", "SymbolNode"], "NodeTypeBool"),
  ("AndExprNode", ["BoolNode", "BoolTypeTransformable", "Node"], "NodeTypeBool"),
  ("AnyOfSetExprNode", ["BoolNode", "Node", "SymbolNode"], "NodeTypeBool"),
  ("AnyTypeSymbolNode", ["BoolNode", "DatetimeNode", "Float64Node", "Int64Node", "Node", "StringNode", "SymbolNode"], "NodeTypeAnyType"),
  ("BetweenExprNode", ["BoolNode", "BoolTypeTransformable", "Node"], "NodeTypeBool"),
  ("BinaryBoolExprNode", ["BoolNode", "Node"], "NodeTypeBool"),
  ("BinaryDatetimeExprNode", ["BoolNode", "Node"], "NodeTypeBool"),
  ("BinaryExprNode", ["BoolNode", "BoolTypeTransformable", "Node"], "NodeTypeBool"),
  ("BinaryFloat64ExprNode", ["BoolNode", "Node"], "NodeTypeFloat64"),
  ("BinaryInt64ExprNode", ["BoolNode", "Node"], "NodeTypeBool"),
  ("BinaryStringExprNode", ["BoolNode", "Node", "SeekOptimizableBoolNode"], "NodeTypeBool"),
  ("BoolConstNode", ["BoolNode", "Node"], "NodeTypeBool"),
  ("BoolSymbolNode", ["BoolNode", "Node", "SymbolNode"], "NodeTypeBool"),
  ("BooleanLogicExprNode", ["BoolNode", "BoolTypeTransformable", "Node"], "NodeTypeBool"),
  ("CountSetExprNode", ["Int64Node", "Node", "StringNode", "SymbolNode"], "NodeTypeInt64"),
  ("DatetimeArrayNode", ["Node"], "NodeTypeOther"),
  ("DatetimeBetweenExprNode", ["BoolNode", "Node"], "NodeTypeBool"),
  ("DatetimeConstNode", ["DatetimeNode", "Node"], "NodeTypeDatetime"),
  ("DatetimeSymbolNode", ["DatetimeNode", "Node", "SymbolNode"], "NodeTypeDatetime"),
  ("Float64ArrayNode", ["AsStringArrayable", "Node"], "NodeTypeOther"),
  ("Float64BetweenExprNode", ["BoolNode", "Node"], "NodeTypeBool"),
  ("Float64ConstNode", ["Float64Node", "Node", "StringNode"], "NodeTypeFloat64"),
  ("Float64SymbolNode", ["Float64Node", "Node", "StringNode", "SymbolNode"], "NodeTypeFloat64"),
  ("InArrayExprNode", ["BoolNode", "BoolTypeTransformable", "Node"], "NodeTypeBool"),
  ("InDatetimeArrayExprNode", ["BoolNode", "Node"], "NodeTypeBool"),
  ("InFloat64ArrayExprNode", ["BoolNode", "Node"], "NodeTypeBool"),
  ("InInt64ArrayExprNode", ["BoolNode", "Node"], "NodeTypeBool"),
  ("InStringArrayExprNode", ["BoolNode", "Node"], "NodeTypeBool"),
  ("Int64ArrayNode", ["AsStringArrayable", "Node"], "NodeTypeOther"),
  ("Int64BetweenExprNode", ["BoolNode", "Node"], "NodeTypeBool"),
  ("Int64ConstNode", ["Int64Node", "Node", "StringNode"], "NodeTypeInt64"),
  ("Int64SymbolNode", ["Int64Node", "Node", "StringNode", "SymbolNode"], "NodeTypeInt64"),
  ("Int64ToFloat64Node", ["Float64Node", "Node", "StringNode"], "NodeTypeFloat64"),
  ("IsEmptySetExprNode", ["BoolNode", "Node", "SymbolNode"], "NodeTypeBool"),
  ("IsNilExprNode", ["BoolNode", "Node"], "NodeTypeBool"),
  ("LimitExprNode", ["Int64Node", "Node", "StringNode"], "NodeTypeInt64"),
  ("NotExprNode", ["BoolNode", "BoolTypeTransformable", "Node"], "NodeTypeBool"),
  ("NullConstNode", ["Node"], "NodeTypeOther"),
  ("OrExprNode", ["BoolNode", "BoolTypeTransformable", "Node"], "NodeTypeBool"),
  ("SetFunctionNode", ["Node", "TypeTransformable"], ""),
  ("SkipExprNode", ["Int64Node", "Node", "StringNode"], "NodeTypeInt64"),
  ("SortByNode", ["Node", "TypeTransformable"], "NodeTypeOther"),
  ("SortFieldNode", ["Node", "SortField", "SymbolNode", "TypeTransformable"], "NodeTypeOther"),
  ("StringArrayNode", ["AsStringArrayable", "Node"], "NodeTypeOther"),
  ("StringConstNode", ["Node", "StringNode"], "NodeTypeString"),
  ("StringFuncNode", ["Node", "StringNode"], "NodeTypeString"),
  ("StringSymbolNode", ["Node", "StringNode", "SymbolNode"], "NodeTypeString"),
  ("UntypedNotExprNode", ["BoolNode", "BoolTypeTransformable", "Node"], "NodeTypeBool"),
  ("UntypedSubQueryNode", ["Node", "SymbolNode", "TypeTransformable"], "NodeTypeOther"),
  ("UntypedSymbolNode", ["Node", "SymbolNode", "TypeTransformable"], "NodeTypeOther"),
  ("queryNode", ["BoolNode", "BoolTypeTransformable", "Node", "Query"], "NodeTypeBool"),
  ("subQueryNode", ["Node", "SymbolNode"], "NodeTypeOther"),
  ("untypedQueryNode", ["BoolNode", "BoolTypeTransformable", "Node"], "NodeTypeBool")
]

def expectedSites : List (String × String × String × String × Nat × Bool) := [
  ("ast/bolt_listener.go", "Stack.peek", "index", "stack.values[size-1]", 1, false),
  ("ast/bolt_listener.go", "Stack.pop", "index", "stack.values[size-1]", 1, false),
  ("ast/bolt_listener.go", "Stack.pop", "slice", "stack.values[:size-1]", 1, false),
  ("ast/bolt_listener.go", "ToBoltListener.ExitLimitExpr", "deref", "*limit", 1, false),
  ("ast/bolt_listener.go", "ToBoltListener.ExitNumberArray", "assert", "node.(Float64Node)", 1, false),
  ("ast/bolt_listener.go", "ToBoltListener.ExitNumberArray", "assert", "node.(Int64Node)", 1, false),
  ("ast/bolt_listener.go", "ToBoltListener.ExitSkipExpr", "deref", "*skip", 1, false),
  ("ast/bolt_listener.go", "ToBoltListener.exitGroup", "assert", "lastStack.(*Stack)", 1, false),
  ("ast/cursors.go", "sliceSetCursor.Current", "index", "cursor.values[0]", 1, false),
  ("ast/cursors.go", "sliceSetCursor.Next", "slice", "cursor.values[1:]", 1, false),
  ("ast/cursors.go", "treeCursor.Current", "assert", "cursor.current.Elem.(byteArrayWrapper)", 1, false),
  ("ast/cursors.go", "treeCursor.Next", "index", "cursor.stack[len(cursor.stack)-1]", 1, false),
  ("ast/cursors.go", "treeCursor.Next", "slice", "cursor.stack[0 : len(cursor.stack)-1]", 1, false),
  ("ast/helper.go", "Parse", "index", "parseErrors[0]", 1, false),
  ("ast/helper.go", "PostProcess", "deref", "*node", 1, false),
  ("ast/helper.go", "transformBools", "deref", "*node", 2, false),
  ("ast/node_arrays.go", "DatetimeArrayNode.String", "index", "node.values[0]", 1, false),
  ("ast/node_arrays.go", "DatetimeArrayNode.String", "slice", "node.values[1:]", 1, false),
  ("ast/node_arrays.go", "Float64ArrayNode.String", "index", "node.values[0]", 1, false),
  ("ast/node_arrays.go", "Float64ArrayNode.String", "slice", "node.values[1:]", 1, false),
  ("ast/node_arrays.go", "InDatetimeArrayExprNode.EvalBool", "deref", "*right", 1, true),
  ("ast/node_arrays.go", "InFloat64ArrayExprNode.EvalBool", "deref", "*left", 1, true),
  ("ast/node_arrays.go", "InFloat64ArrayExprNode.EvalBool", "deref", "*right", 1, true),
  ("ast/node_arrays.go", "InInt64ArrayExprNode.EvalBool", "deref", "*left", 1, true),
  ("ast/node_arrays.go", "InInt64ArrayExprNode.EvalBool", "deref", "*right", 1, true),
  ("ast/node_arrays.go", "InStringArrayExprNode.EvalBool", "deref", "*left", 1, true),
  ("ast/node_arrays.go", "InStringArrayExprNode.EvalBool", "deref", "*right", 1, true),
  ("ast/node_arrays.go", "Int64ArrayNode.String", "index", "node.values[0]", 1, false),
  ("ast/node_arrays.go", "Int64ArrayNode.String", "slice", "node.values[1:]", 1, false),
  ("ast/node_arrays.go", "StringArrayNode.String", "index", "node.values[0]", 1, false),
  ("ast/node_arrays.go", "StringArrayNode.String", "slice", "node.values[1:]", 1, false),
  ("ast/node_convert.go", "BinaryExprNode.handleBoolOps", "assert", "node.left.(BoolNode)", 1, false),
  ("ast/node_convert.go", "BinaryExprNode.handleBoolOps", "assert", "node.right.(BoolNode)", 1, false),
  ("ast/node_convert.go", "BinaryExprNode.handleDatetimeOps", "assert", "node.left.(DatetimeNode)", 1, false),
  ("ast/node_convert.go", "BinaryExprNode.handleDatetimeOps", "assert", "node.right.(DatetimeNode)", 1, false),
  ("ast/node_convert.go", "BinaryExprNode.handleFloat64Ops", "assert", "node.left.(Float64Node)", 1, false),
  ("ast/node_convert.go", "BinaryExprNode.handleFloat64Ops", "assert", "node.right.(Float64Node)", 1, false),
  ("ast/node_convert.go", "BinaryExprNode.handleFloat64Ops", "assert", "node.right.(Int64Node)", 1, false),
  ("ast/node_convert.go", "BinaryExprNode.handleInt64Ops", "assert", "node.left.(Int64Node)", 1, false),
  ("ast/node_convert.go", "BinaryExprNode.handleInt64Ops", "assert", "node.right.(Float64Node)", 1, false),
  ("ast/node_convert.go", "BinaryExprNode.handleInt64Ops", "assert", "node.right.(Int64Node)", 1, false),
  ("ast/node_convert.go", "Int64ToFloat64Node.EvalFloat64", "deref", "*result", 1, true),
  ("ast/node_convert.go", "StringFuncNode.EvalString", "deref", "*result", 1, true),
  ("ast/node_convert.go", "transformTypes", "deref", "*node", 4, false),
  ("ast/node_expr.go", "BinaryDatetimeExprNode.EvalBool", "deref", "*rightResult", 6, true),
  ("ast/node_expr.go", "BinaryFloat64ExprNode.EvalBool", "deref", "*leftResult", 6, true),
  ("ast/node_expr.go", "BinaryFloat64ExprNode.EvalBool", "deref", "*rightResult", 6, true),
  ("ast/node_expr.go", "BinaryInt64ExprNode.EvalBool", "deref", "*leftResult", 6, true),
  ("ast/node_expr.go", "BinaryInt64ExprNode.EvalBool", "deref", "*rightResult", 6, true),
  ("ast/node_expr.go", "BinaryStringExprNode.EvalBool", "deref", "*leftResult", 8, true),
  ("ast/node_expr.go", "BinaryStringExprNode.EvalBool", "deref", "*rightResult", 8, true),
  ("ast/node_expr.go", "BinaryStringExprNode.EvalBoolWithSeek", "deref", "*rightResult", 1, true),
  ("ast/node_expr.go", "DatetimeBetweenExprNode.EvalBool", "deref", "*lowerResult", 2, true),
  ("ast/node_expr.go", "DatetimeBetweenExprNode.EvalBool", "deref", "*upperResult", 1, true),
  ("ast/node_expr.go", "Float64BetweenExprNode.EvalBool", "deref", "*leftResult", 2, true),
  ("ast/node_expr.go", "Float64BetweenExprNode.EvalBool", "deref", "*lowerResult", 1, true),
  ("ast/node_expr.go", "Float64BetweenExprNode.EvalBool", "deref", "*upperResult", 1, true),
  ("ast/node_expr.go", "Int64BetweenExprNode.EvalBool", "deref", "*leftResult", 2, true),
  ("ast/node_expr.go", "Int64BetweenExprNode.EvalBool", "deref", "*lowerResult", 1, true),
  ("ast/node_expr.go", "Int64BetweenExprNode.EvalBool", "deref", "*upperResult", 1, true),
  ("ast/node_expr.go", "NewFloat64BetweenOp", "index", "nodes[0]", 1, false),
  ("ast/node_expr.go", "NewFloat64BetweenOp", "index", "nodes[1]", 1, false),
  ("ast/node_expr.go", "NewFloat64BetweenOp", "index", "nodes[2]", 1, false),
  ("ast/node_expr.go", "NewInt64BetweenOp", "index", "nodes[0]", 1, false),
  ("ast/node_expr.go", "NewInt64BetweenOp", "index", "nodes[1]", 1, false),
  ("ast/node_expr.go", "NewInt64BetweenOp", "index", "nodes[2]", 1, false),
  ("ast/node_query.go", "SortByNode.String", "index", "node.SortFields[0]", 1, false),
  ("ast/node_query.go", "SortByNode.String", "slice", "node.SortFields[1:]", 1, false),
  ("ast/node_query.go", "SortFieldNode.TypeTransform", "assert", "symbolNode.(SymbolNode)", 1, false),
  ("ast/node_set.go", "CountSetExprNode.EvalString", "deref", "*result", 1, true),
  ("ast/node_symbol.go", "AnyTypeSymbolNode.EvalBool", "deref", "*result", 1, true),
  ("ast/node_symbol.go", "BoolSymbolNode.EvalBool", "deref", "*result", 1, true),
  ("ast/node_symbol.go", "Float64SymbolNode.EvalString", "deref", "*float64Val", 1, true),
  ("ast/node_symbol.go", "Int64SymbolNode.EvalString", "deref", "*int64Val", 1, true),
  ("ast/node_symbol.go", "SymbolValidator.VisitUntypedSubQueryNodeEnd", "index", "visitor.typeStack[0]", 1, false),
  ("ast/node_symbol.go", "SymbolValidator.VisitUntypedSubQueryNodeEnd", "slice", "visitor.typeStack[1:]", 1, false),
  ("boltz/query_scanners.go", "Row.Compare", "assert", "other.(*Row)", 1, false),
  ("boltz/query_scanners.go", "scanner.setPaging", "deref", "*query.GetLimit()", 2, true),
  ("boltz/query_scanners.go", "scanner.setPaging", "deref", "*query.GetSkip()", 1, true),
  ("boltz/query_scanners.go", "sortingScanner.ScanCursor", "assert", "row.(*Row)", 1, false),
  ("boltz/query_sort.go", "boolSymbolComparator.Compare", "deref", "*s1", 2, true),
  ("boltz/query_sort.go", "boolSymbolComparator.Compare", "deref", "*s2", 2, true),
  ("boltz/query_sort.go", "datetimeSymbolComparator.Compare", "deref", "*s2", 2, true),
  ("boltz/query_sort.go", "float64SymbolComparator.Compare", "deref", "*s1", 6, true),
  ("boltz/query_sort.go", "float64SymbolComparator.Compare", "deref", "*s2", 6, true),
  ("boltz/query_sort.go", "int64SymbolComparator.Compare", "deref", "*s1", 2, true),
  ("boltz/query_sort.go", "int64SymbolComparator.Compare", "deref", "*s2", 2, true),
  ("boltz/query_sort.go", "stringSymbolComparator.Compare", "deref", "*s1", 2, true),
  ("boltz/query_sort.go", "stringSymbolComparator.Compare", "deref", "*s2", 2, true),
  ("boltz/store_query.go", "BaseStore.NewScanner", "index", "sort[0]", 2, false),
  ("boltz/store_query.go", "BaseStore.NewScanner", "slice", "sort[:SortMax]", 1, false),
  ("boltz/typed_bucket.go", "BytesToBool", "index", "value[0]", 1, false),
  ("boltz/typed_bucket.go", "FieldToFloat64", "deref", "*int64Result", 1, true),
  ("boltz/typed_bucket.go", "FieldToInt64", "deref", "*int32val", 1, true),
  ("boltz/typed_bucket.go", "FieldToString", "deref", "*boolVal", 1, false),
  ("boltz/typed_bucket.go", "FieldToString", "deref", "*floatVal", 1, false),
  ("boltz/typed_bucket.go", "FieldToString", "deref", "*intVal", 1, false),
  ("objectz/object_store.go", "ObjectStore.newRowComparator", "assert", "symbol.(*ObjectBoolSymbol[T])", 1, false),
  ("objectz/object_store.go", "ObjectStore.newRowComparator", "assert", "symbol.(*ObjectDatetimeSymbol[T])", 1, false),
  ("objectz/object_store.go", "ObjectStore.newRowComparator", "assert", "symbol.(*ObjectFloat64Symbol[T])", 1, false),
  ("objectz/object_store.go", "ObjectStore.newRowComparator", "assert", "symbol.(*ObjectInt64Symbol[T])", 1, false),
  ("objectz/object_store.go", "ObjectStore.newRowComparator", "assert", "symbol.(*ObjectStringSymbol[T])", 1, false),
  ("objectz/object_store.go", "memEntityComparable.Compare", "assert", "c.(*memEntityComparable[T])", 1, false),
  ("objectz/object_store.go", "memSortingScanner.Scan", "assert", "row.(*memEntityComparable[T])", 1, false),
  ("objectz/object_store.go", "scanner.setPaging", "deref", "*query.GetLimit()", 2, true),
  ("objectz/object_store.go", "scanner.setPaging", "deref", "*query.GetSkip()", 1, true),
  ("objectz/object_store_sort.go", "objectBoolSymbolComparator.compare", "deref", "*s1", 2, true),
  ("objectz/object_store_sort.go", "objectBoolSymbolComparator.compare", "deref", "*s2", 2, true),
  ("objectz/object_store_sort.go", "objectDatetimeSymbolComparator.compare", "deref", "*s2", 2, true),
  ("objectz/object_store_sort.go", "objectFloat64SymbolComparator.compare", "deref", "*s1", 6, true),
  ("objectz/object_store_sort.go", "objectFloat64SymbolComparator.compare", "deref", "*s2", 6, true),
  ("objectz/object_store_sort.go", "objectInt64SymbolComparator.compare", "deref", "*s1", 2, true),
  ("objectz/object_store_sort.go", "objectInt64SymbolComparator.compare", "deref", "*s2", 2, true),
  ("objectz/object_store_sort.go", "objectStringSymbolComparator.compare", "deref", "*s1", 2, true),
  ("objectz/object_store_sort.go", "objectStringSymbolComparator.compare", "deref", "*s2", 2, true),
  ("zitiql/util.go", "ParseZqlDatetime", "index", "m[0]", 2, false),
  ("zitiql/util.go", "ParseZqlDatetime", "index", "m[0][1]", 1, false),
  ("zitiql/util.go", "parse", "assert", "lexerPool.Get().(*ZitiQlLexer)", 1, false),
  ("zitiql/util.go", "parse", "assert", "parserPool.Get().(*ZitiQlParser)", 1, false)
]

def expectedCallbacks : List String := ["EnterDatetimeArray", "EnterNumberArray", "EnterSortByExpr", "EnterStringArray", "ExitAndExpr", "ExitBetweenDateOp", "ExitBetweenNumberOp", "ExitBinaryContainsOp", "ExitBinaryEqualToBoolOp", "ExitBinaryEqualToDatetimeOp", "ExitBinaryEqualToNullOp", "ExitBinaryEqualToNumberOp", "ExitBinaryEqualToStringOp", "ExitBinaryGreaterThanDatetimeOp", "ExitBinaryGreaterThanNumberOp", "ExitBinaryGreaterThanStringOp", "ExitBinaryLessThanDatetimeOp", "ExitBinaryLessThanNumberOp", "ExitBinaryLessThanStringOp", "ExitBinaryOp", "ExitDatetimeArray", "ExitGroup", "ExitInDatetimeArrayOp", "ExitInNumberArrayOp", "ExitInStringArrayOp", "ExitIsEmptyFunction", "ExitLimitExpr", "ExitNotExpr", "ExitNumberArray", "ExitOrExpr", "ExitQueryStmt", "ExitSetFunctionExpr", "ExitSkipExpr", "ExitSortByExpr", "ExitSortFieldExpr", "ExitStringArray", "ExitSubQuery", "VisitTerminal"]

/-- zitiql.parse: the collecting listener is attached to the lexer (after removing the default
    console listener) and to the parser, and the listener is walked over the tree -/
def expectedWiring : Bool × Bool × Bool × Bool := (true, true, true, true)

/-- zitiql.parse (since 956c2a8): a pooled parser starts from no error listener and leaves none behind -/
def expectedWiringPool : Bool × Bool := (true, true)

/-- what is pinned of the two generated files: (sha256 of the whole file, sha256 of the
    serializedATN integers, its length, number of ATN states, number of decisions) for
    zitiql_lexer.go and zitiql_parser.go -/
def atnPins (l p : G4.AtnSummary) : (String × String × Nat × Nat × Nat) × (String × String × Nat × Nat × Nat) :=
  ((l.fileSha256, l.sha256, l.length, l.states, l.decisions), (p.fileSha256, p.sha256, p.length, p.states, p.decisions))

def expectedAtnPins : (String × String × Nat × Nat × Nat) × (String × String × Nat × Nat × Nat) :=
  (("7ab6599a461bece8a983b914d02d901b5281b6bb1e00d252670e2abe2c38fcd4",
    "6e329f90965c1876ddf294a0d5f882c0259239481ff1d1034dec118b484d1de0", 5285, 602, 39),
   ("a295c89d7ce87081f321b63e97f1a1cf4ef79ad20d1b10afbb73cdbd06116864",
    "5f1ea4224b6cf7e8c2b66cfcacd428d7867804373ac5e6752417e8f012564f11", 6846, 728, 106))

open G4 in
/-- the parser rules of zitiql/ZitiQl.g4 (in file order) the reference recogniser `parseStart`, the
    derivation trees of Grammar.lean and their `wf` were written against; `Properties/C10` proves
    that the regenerated grammar file has exactly these parser rules, `G4Proofs.lean` that every
    well-formed derivation tree is a derivation in THESE rules (relation `G4.Derives`) -/
def expectedParserRules : List G4.Rule := [
  ⟨"stringArray", false, (.seq (.ref "LBRACKET") (.seq (.star (.ref "WS")) (.seq (.ref "STRING") (.seq (.star (.seq (.star (.ref "WS")) (.seq (.lit [44]) (.seq (.star (.ref "WS")) (.ref "STRING"))))) (.seq (.star (.ref "WS")) (.ref "RBRACKET")))))), [""]⟩,
  ⟨"numberArray", false, (.seq (.ref "LBRACKET") (.seq (.star (.ref "WS")) (.seq (.ref "NUMBER") (.seq (.star (.seq (.star (.ref "WS")) (.seq (.lit [44]) (.seq (.star (.ref "WS")) (.ref "NUMBER"))))) (.seq (.star (.ref "WS")) (.ref "RBRACKET")))))), [""]⟩,
  ⟨"datetimeArray", false, (.seq (.ref "LBRACKET") (.seq (.star (.ref "WS")) (.seq (.ref "DATETIME") (.seq (.star (.seq (.star (.ref "WS")) (.seq (.lit [44]) (.seq (.star (.ref "WS")) (.ref "DATETIME"))))) (.seq (.star (.ref "WS")) (.ref "RBRACKET")))))), [""]⟩,
  ⟨"start", false, (.seq (.star (.ref "WS")) (.seq (.ref "query") (.seq (.star (.ref "WS")) (.ref "EOF")))), ["End"]⟩,
  ⟨"query", false, (.alt (.seq (.ref "boolExpr") (.seq (.opt (.seq (.plus (.ref "WS")) (.ref "sortBy"))) (.seq (.opt (.seq (.plus (.ref "WS")) (.ref "skip"))) (.opt (.seq (.plus (.ref "WS")) (.ref "limit")))))) (.alt (.seq (.ref "sortBy") (.seq (.opt (.seq (.plus (.ref "WS")) (.ref "skip"))) (.opt (.seq (.plus (.ref "WS")) (.ref "limit"))))) (.alt (.seq (.ref "skip") (.opt (.seq (.plus (.ref "WS")) (.ref "limit")))) (.ref "limit")))), ["QueryStmt", "QueryStmt", "QueryStmt", "QueryStmt"]⟩,
  ⟨"skip", false, (.seq (.ref "SKIP_ROWS") (.seq (.plus (.ref "WS")) (.ref "NUMBER"))), ["SkipExpr"]⟩,
  ⟨"limit", false, (.seq (.ref "LIMIT_ROWS") (.seq (.plus (.ref "WS")) (.alt (.ref "NONE") (.ref "NUMBER")))), ["LimitExpr"]⟩,
  ⟨"sortBy", false, (.seq (.ref "SORT") (.seq (.plus (.ref "WS")) (.seq (.ref "BY") (.seq (.plus (.ref "WS")) (.seq (.ref "sortField") (.star (.seq (.star (.ref "WS")) (.seq (.lit [44]) (.seq (.star (.ref "WS")) (.ref "sortField")))))))))), ["SortByExpr"]⟩,
  ⟨"sortField", false, (.seq (.ref "IDENTIFIER") (.opt (.seq (.plus (.ref "WS")) (.alt (.ref "ASC") (.ref "DESC"))))), ["SortFieldExpr"]⟩,
  ⟨"boolExpr", false, (.alt (.ref "operation") (.alt (.seq (.ref "LPAREN") (.seq (.star (.ref "WS")) (.seq (.ref "boolExpr") (.seq (.star (.ref "WS")) (.ref "RPAREN"))))) (.alt (.seq (.ref "boolExpr") (.plus (.seq (.plus (.ref "WS")) (.seq (.ref "AND") (.seq (.plus (.ref "WS")) (.ref "boolExpr")))))) (.alt (.seq (.ref "boolExpr") (.plus (.seq (.plus (.ref "WS")) (.seq (.ref "OR") (.seq (.plus (.ref "WS")) (.ref "boolExpr")))))) (.alt (.ref "BOOL") (.alt (.seq (.ref "ISEMPTY") (.seq (.ref "LPAREN") (.seq (.star (.ref "WS")) (.seq (.ref "setExpr") (.seq (.star (.ref "WS")) (.ref "RPAREN")))))) (.alt (.ref "IDENTIFIER") (.seq (.ref "NOT") (.seq (.plus (.ref "WS")) (.ref "boolExpr")))))))))), ["OperationOp", "Group", "AndExpr", "OrExpr", "BoolConst", "IsEmptyFunction", "BoolSymbol", "NotExpr"]⟩,
  ⟨"operation", false, (.alt (.seq (.ref "binaryLhs") (.seq (.plus (.ref "WS")) (.seq (.ref "IN") (.seq (.plus (.ref "WS")) (.ref "stringArray"))))) (.alt (.seq (.ref "binaryLhs") (.seq (.plus (.ref "WS")) (.seq (.ref "IN") (.seq (.plus (.ref "WS")) (.ref "numberArray"))))) (.alt (.seq (.ref "binaryLhs") (.seq (.plus (.ref "WS")) (.seq (.ref "IN") (.seq (.plus (.ref "WS")) (.ref "datetimeArray"))))) (.alt (.seq (.ref "binaryLhs") (.seq (.plus (.ref "WS")) (.seq (.ref "BETWEEN") (.seq (.plus (.ref "WS")) (.seq (.ref "NUMBER") (.seq (.plus (.ref "WS")) (.seq (.ref "AND") (.seq (.plus (.ref "WS")) (.ref "NUMBER"))))))))) (.alt (.seq (.ref "binaryLhs") (.seq (.plus (.ref "WS")) (.seq (.ref "BETWEEN") (.seq (.plus (.ref "WS")) (.seq (.ref "DATETIME") (.seq (.plus (.ref "WS")) (.seq (.ref "AND") (.seq (.plus (.ref "WS")) (.ref "DATETIME"))))))))) (.alt (.seq (.ref "binaryLhs") (.seq (.star (.ref "WS")) (.seq (.ref "LT") (.seq (.star (.ref "WS")) (.ref "STRING"))))) (.alt (.seq (.ref "binaryLhs") (.seq (.star (.ref "WS")) (.seq (.ref "LT") (.seq (.star (.ref "WS")) (.ref "NUMBER"))))) (.alt (.seq (.ref "binaryLhs") (.seq (.star (.ref "WS")) (.seq (.ref "LT") (.seq (.star (.ref "WS")) (.ref "DATETIME"))))) (.alt (.seq (.ref "binaryLhs") (.seq (.star (.ref "WS")) (.seq (.ref "GT") (.seq (.star (.ref "WS")) (.ref "STRING"))))) (.alt (.seq (.ref "binaryLhs") (.seq (.star (.ref "WS")) (.seq (.ref "GT") (.seq (.star (.ref "WS")) (.ref "NUMBER"))))) (.alt (.seq (.ref "binaryLhs") (.seq (.star (.ref "WS")) (.seq (.ref "GT") (.seq (.star (.ref "WS")) (.ref "DATETIME"))))) (.alt (.seq (.ref "binaryLhs") (.seq (.star (.ref "WS")) (.seq (.ref "EQ") (.seq (.star (.ref "WS")) (.ref "STRING"))))) (.alt (.seq (.ref "binaryLhs") (.seq (.star (.ref "WS")) (.seq (.ref "EQ") (.seq (.star (.ref "WS")) (.ref "NUMBER"))))) (.alt (.seq (.ref "binaryLhs") (.seq (.star (.ref "WS")) (.seq (.ref "EQ") (.seq (.star (.ref "WS")) (.ref "DATETIME"))))) (.alt (.seq (.ref "binaryLhs") (.seq (.star (.ref "WS")) (.seq (.ref "EQ") (.seq (.star (.ref "WS")) (.ref "BOOL"))))) (.alt (.seq (.ref "binaryLhs") (.seq (.star (.ref "WS")) (.seq (.ref "EQ") (.seq (.star (.ref "WS")) (.ref "NULL"))))) (.alt (.seq (.ref "binaryLhs") (.seq (.star (.ref "WS")) (.seq (.ref "CONTAINS") (.seq (.plus (.ref "WS")) (.alt (.ref "STRING") (.ref "NUMBER")))))) (.seq (.ref "binaryLhs") (.seq (.star (.ref "WS")) (.seq (.ref "ICONTAINS") (.seq (.plus (.ref "WS")) (.ref "STRING")))))))))))))))))))))), ["InStringArrayOp", "InNumberArrayOp", "InDatetimeArrayOp", "BetweenNumberOp", "BetweenDateOp", "BinaryLessThanStringOp", "BinaryLessThanNumberOp", "BinaryLessThanDatetimeOp", "BinaryGreaterThanStringOp", "BinaryGreaterThanNumberOp", "BinaryGreaterThanDatetimeOp", "BinaryEqualToStringOp", "BinaryEqualToNumberOp", "BinaryEqualToDatetimeOp", "BinaryEqualToBoolOp", "BinaryEqualToNullOp", "BinaryContainsOp", "BinaryContainsOp"]⟩,
  ⟨"binaryLhs", false, (.alt (.ref "IDENTIFIER") (.ref "setFunction")), ["", ""]⟩,
  ⟨"setFunction", false, (.alt (.seq (.ref "ALL_OF") (.seq (.ref "LPAREN") (.seq (.star (.ref "WS")) (.seq (.ref "IDENTIFIER") (.seq (.star (.ref "WS")) (.ref "RPAREN")))))) (.alt (.seq (.ref "ANY_OF") (.seq (.ref "LPAREN") (.seq (.star (.ref "WS")) (.seq (.ref "IDENTIFIER") (.seq (.star (.ref "WS")) (.ref "RPAREN")))))) (.seq (.ref "COUNT") (.seq (.ref "LPAREN") (.seq (.star (.ref "WS")) (.seq (.ref "setExpr") (.seq (.star (.ref "WS")) (.ref "RPAREN")))))))), ["SetFunctionExpr", "SetFunctionExpr", "SetFunctionExpr"]⟩,
  ⟨"setExpr", false, (.alt (.ref "IDENTIFIER") (.ref "subQueryExpr")), ["", ""]⟩,
  ⟨"subQueryExpr", false, (.seq (.ref "FROM") (.seq (.plus (.ref "WS")) (.seq (.ref "IDENTIFIER") (.seq (.plus (.ref "WS")) (.seq (.ref "WHERE") (.seq (.plus (.ref "WS")) (.ref "query"))))))), ["SubQuery"]⟩
]

end StorageModel.C10
