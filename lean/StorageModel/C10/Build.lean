import StorageModel.C10.Listener
import StorageModel.C10.Shapes
/-
  C10 — derivations: the token-kind side conditions of each production (`wf`), and the untyped
  node a derivation denotes (`build`, `none` when a literal is refused: number out of range,
  impossible date, non-integer skip/limit, a sub-query without predicate).
-/
namespace StorageModel.C10

def kindIs (t : Token) (k : TK) : Bool := t.kind == k

def ArrTree.wf (a : ArrTree) : Bool :=
  kindIs a.lb .LBRACKET && allWS a.w0 && kindIs a.first a.kind.tk &&
  a.more.all (fun m => allWS m.1 && kindIs m.2.1 .COMMA && allWS m.2.2.1 && kindIs m.2.2.2 a.kind.tk) &&
  allWS a.w1 && kindIs a.rb .RBRACKET

def SortFieldTree.wf (f : SortFieldTree) : Bool :=
  kindIs f.ident .IDENTIFIER &&
  (match f.dir with
   | none => true
   | some (w, d) => allWS w && !w.isEmpty && (kindIs d .ASC || kindIs d .DESC))

def SortByTree.wf (s : SortByTree) : Bool :=
  kindIs s.sort .SORT && allWS s.w0 && !s.w0.isEmpty && kindIs s.by_ .BY && allWS s.w1 && !s.w1.isEmpty &&
  s.first.wf && s.more.all (fun m => allWS m.1 && kindIs m.2.1 .COMMA && allWS m.2.2.1 && m.2.2.2.wf)

def skipWf (k : KwNumTree) : Bool := kindIs k.kw .SKIP_ROWS && allWS k.w && !k.w.isEmpty && kindIs k.arg .NUMBER
def limitWf (k : KwNumTree) : Bool :=
  kindIs k.kw .LIMIT_ROWS && allWS k.w && !k.w.isEmpty && (kindIs k.arg .NUMBER || kindIs k.arg .NONE)

def optWf {α} (f : α → Bool) : Option (WSs × α) → Bool
  | none => true
  | some (w, a) => allWS w && !w.isEmpty && f a

def TailTree.wf (t : TailTree) : Bool := optWf SortByTree.wf t.sortBy && optWf skipWf t.skip && optWf limitWf t.limit

mutual
def BoolTree.wf : BoolTree → Bool
  | .inArr lhs w0 op w1 arr => lhs.wf && allWS w0 && !w0.isEmpty && kindIs op .IN && allWS w1 && !w1.isEmpty && arr.wf
  | .between lhs w0 op w1 lo w2 a w3 hi =>
    lhs.wf && allWS w0 && !w0.isEmpty && kindIs op .BETWEEN && allWS w1 && !w1.isEmpty &&
    (kindIs lo .NUMBER || kindIs lo .DATETIME) && allWS w2 && !w2.isEmpty && kindIs a .AND && allWS w3 && !w3.isEmpty &&
    hi.kind == lo.kind
  | .binary lhs w0 op w1 rhs =>
    lhs.wf && allWS w0 && allWS w1 && rhsOk op.kind rhs.kind &&
    ((op.kind == .CONTAINS || op.kind == .ICONTAINS) → !w1.isEmpty)
  | .group lp w0 e w1 rp => kindIs lp .LPAREN && allWS w0 && e.wf && allWS w1 && kindIs rp .RPAREN
  | .and l w0 op w1 r => l.wf && allWS w0 && !w0.isEmpty && kindIs op .AND && allWS w1 && !w1.isEmpty && r.wf
  | .or l w0 op w1 r => l.wf && allWS w0 && !w0.isEmpty && kindIs op .OR && allWS w1 && !w1.isEmpty && r.wf
  | .boolConst t => kindIs t .BOOL
  | .isEmpty kw lp w0 s w1 rp => kindIs kw .ISEMPTY && kindIs lp .LPAREN && allWS w0 && s.wf && allWS w1 && kindIs rp .RPAREN
  | .symbol t => kindIs t .IDENTIFIER
  | .not kw w e => kindIs kw .NOT && allWS w && !w.isEmpty && e.wf
def LhsTree.wf : LhsTree → Bool
  | .ident t => kindIs t .IDENTIFIER
  | .setFn fn lp w0 id w1 rp =>
    (kindIs fn .ALL_OF || kindIs fn .ANY_OF) && kindIs lp .LPAREN && allWS w0 && kindIs id .IDENTIFIER && allWS w1 && kindIs rp .RPAREN
  | .count fn lp w0 s w1 rp => kindIs fn .COUNT && kindIs lp .LPAREN && allWS w0 && s.wf && allWS w1 && kindIs rp .RPAREN
def SetExprTree.wf : SetExprTree → Bool
  | .ident t => kindIs t .IDENTIFIER
  | .subQuery f w0 id w1 wh w2 q =>
    kindIs f .FROM && allWS w0 && !w0.isEmpty && kindIs id .IDENTIFIER && allWS w1 && !w1.isEmpty && kindIs wh .WHERE &&
    allWS w2 && !w2.isEmpty && q.wf
def QueryTree.wf : QueryTree → Bool
  | .pred e tail => e.wf && tail.wf
  | .sort s sk li => s.wf && optWf skipWf sk && optWf limitWf li
  | .skip s li => skipWf s && optWf limitWf li
  | .limit l => limitWf l
end

def StartTree.wf (t : StartTree) : Bool := allWS t.w0 && t.q.wf && allWS t.w1

/-! ## what a derivation denotes -/

/-- the literal node of a STRING / NUMBER / DATETIME / BOOL / NULL / NONE token -/
def litOfToken (t : Token) : Option U :=
  match t.kind with
  | .STRING => some (.lit (.str (parseZqlString t.text)))
  | .NUMBER => match classifyNumber t.text with
    | .int i => some (.lit (.int i))
    | .float q => some (.lit (.flt q))
    | .bad => none
  | .DATETIME => (parseDatetime t.text).map fun ns => .lit (.dt ns)
  | .BOOL => (parseBoolText t.text).map .boolC
  | .NULL => some .nullC
  | .NONE => some (.lit (.int (-1)))
  | _ => none

def opOfToken (t : Token) : BinOp :=
  match t.kind with
  | .IN => if hasNot t.text then .notIn else .in_
  | .BETWEEN => if hasNot t.text then .notBetween else .between
  | .CONTAINS => if hasNot t.text then .notContains else .contains
  | .ICONTAINS => if hasNot t.text then .notIContains else .icontains
  | _ => opOfText t.text

def litsOfTokens : List Token → Option (List Lit)
  | [] => some []
  | t :: rest =>
    match litOfToken t, litsOfTokens rest with
    | some (.lit l), some ls => some (l :: ls)
    | _, _ => none

/-- the array node; the listener pops the elements, so they come out in reverse order -/
def ArrTree.build (a : ArrTree) : Option U :=
  match litsOfTokens (a.first :: a.more.map (·.2.2.2)) with
  | none => none
  | some lits =>
    let rev := lits.reverse
    match a.kind with
    | .str => some (.strArr rev)
    | .dt => some (.dtArr (rev.filterMap Lit.dt?))
    | .num =>
      if rev.all Lit.isInt then some (.intArr (rev.filterMap Lit.int?))
      else some (.fltArr (rev.map litToRat))

def SortFieldTree.asc (f : SortFieldTree) : Bool :=
  match f.dir with
  | some (_, d) => d.kind == .ASC
  | none => true

def sortFieldsU : List SortFieldTree → U
  | [] => .sfNil
  | f :: rest => .sfCons (.sym f.ident.text) f.asc (sortFieldsU rest)

def SortByTree.build (s : SortByTree) : U := .sortBy (sortFieldsU (s.first :: s.more.map (·.2.2.2)))

def intOfToken (t : Token) : Option Int :=
  match litOfToken t with
  | some (.lit (.int i)) => some i
  | _ => none

def optInt (x : Option (WSs × KwNumTree)) : Option (Option Int) :=
  match x with
  | none => some none
  | some (_, k) => (intOfToken k.arg).map some

/-- `(sortBy?, skip?, limit?)` of a query tail; `none` when skip/limit is not an integer -/
def tailParts (sb : Option (WSs × SortByTree)) (sk li : Option (WSs × KwNumTree)) : Option (U × Option Int × Option Int) :=
  let sortU := match sb with | some (_, s) => s.build | none => U.noSort
  match optInt sk, optInt li with
  | some a, some b => some (sortU, a, b)
  | _, _ => none

def setFnOfToken (t : Token) : SetFn :=
  match t.kind with
  | .ALL_OF => .allOf
  | .ANY_OF => .anyOf
  | .COUNT => .count
  | _ => .isEmpty

mutual
def BoolTree.build : BoolTree → Option U
  | .inArr lhs _ op _ arr => do
    let l ← lhs.build
    let a ← arr.build
    if hasNot op.text then some (.notE (.inArr l a)) else some (.inArr l a)
  | .between lhs _ op _ lo _ _ _ hi => do
    let l ← lhs.build
    let a ← litOfToken lo
    let b ← litOfToken hi
    if hasNot op.text then some (.notE (.between l a b)) else some (.between l a b)
  | .binary lhs _ op _ rhs => do
    let l ← lhs.build
    let r ← litOfToken rhs
    some (.binary (opOfToken op) l r)
  | .group _ _ e _ _ => do let x ← e.build; some (markGrouped x)
  | .and l _ _ _ r => do let a ← l.build; let b ← r.build; some (andNode a b)
  | .or l _ _ _ r => do let a ← l.build; let b ← r.build; some (.logic .or false a b)
  | .boolConst t => litOfToken t
  | .isEmpty _ _ _ s _ _ => do let x ← s.build; some (.setFn .isEmpty x)
  | .symbol t => some (.sym t.text)
  | .not _ _ e => do let x ← e.build; some (.unot x)
def LhsTree.build : LhsTree → Option U
  | .ident t => some (.sym t.text)
  | .setFn fn _ _ id _ _ => some (.setFn (setFnOfToken fn) (.sym id.text))
  | .count _ _ _ s _ _ => do let x ← s.build; some (.setFn .count x)
def SetExprTree.build : SetExprTree → Option U
  | .ident t => some (.sym t.text)
  | .subQuery _ _ id _ _ _ q =>
    match q with
    | .pred .. => do let x ← q.build; some (.subQ (.sym id.text) x)
    | _ => none        -- without a predicate ExitQueryStmt takes the identifier for the predicate: error
def QueryTree.build : QueryTree → Option U
  | .pred e tail => do
    let p ← e.build
    let (s, sk, li) ← tailParts tail.sortBy tail.skip tail.limit
    some (.query p s sk li)
  | .sort s sk li => do
    let (su, a, b) ← tailParts (some ([], s)) sk li
    some (.query (.boolC true) su a b)
  | .skip s li => do
    let (su, a, b) ← tailParts none (some ([], s)) li
    some (.query (.boolC true) su a b)
  | .limit l => do
    let (su, a, b) ← tailParts none none (some ([], l))
    some (.query (.boolC true) su a b)
end

def StartTree.build (t : StartTree) : Option U := t.q.build

end StorageModel.C10
