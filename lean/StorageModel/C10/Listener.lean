import StorageModel.C10.Grammar
import StorageModel.C10.Classes
/-
  C10 — model of ast/bolt_listener.go: the stack machine that turns the parse-tree walk into
  the untyped query tree.

  * `Ev` are the listener callbacks `ToBoltListener` reacts to (every other callback only logs);
    `StartTree.events` is the walk of a derivation, `step` is one callback, following the Go
    code statement by statement: the error latch (`SetError` keeps the first error, `pushStack`
    and the `pop*` helpers do nothing once it is set), the group stacks, the comma-ok type
    assertions (decided by `impl (cls v) I`, i.e. by the class table regenerated from the source).
  * The only statements that can panic are `nodeTypeNames[node.GetType()]` in
    ExitStringArray / ExitNumberArray / ExitDatetimeArray, reached with `node == nil` when the
    value on the group's stack is not a `Node`; and `lastStack.(*Stack)` in exitGroup, which
    cannot fail because `stacks` is only ever pushed `*Stack` values (it is a `List (List SV)` here).
-/
namespace StorageModel.C10

inductive AndOr where | and | or
deriving DecidableEq, Repr

inductive BinOp where
  | eq | neq | lt | lte | gt | gte | in_ | notIn | between | notBetween | contains | notContains
  | icontains | notIContains
deriving DecidableEq, Repr

inductive SetFn where | allOf | anyOf | count | isEmpty
deriving DecidableEq, Repr

/-- constant nodes that can be array elements -/
inductive Lit where
  | str (s : List Char)     -- *StringConstNode
  | int (i : Int)           -- *Int64ConstNode
  | flt (q : Rat)           -- *Float64ConstNode
  | dt (ns : Int)           -- *DatetimeConstNode
deriving DecidableEq, Repr

def Lit.isInt : Lit → Bool | .int _ => true | _ => false
def Lit.int? : Lit → Option Int | .int i => some i | _ => none
def Lit.dt? : Lit → Option Int | .dt v => some v | _ => none

def Lit.cls : Lit → Cls
  | .str _ => .StringConstNode | .int _ => .Int64ConstNode | .flt _ => .Float64ConstNode
  | .dt _ => .DatetimeConstNode

/-- every `Node` value the listener can hold (the untyped tree and its parts) -/
inductive U where
  | sym (name : List Char)                       -- *UntypedSymbolNode
  | boolC (b : Bool)                             -- *BoolConstNode
  | lit (l : Lit)
  | nullC                                        -- NullConstNode
  | strArr (l : List Lit)                        -- *StringArrayNode
  | intArr (l : List Int)                        -- *Int64ArrayNode
  | fltArr (l : List Rat)                        -- *Float64ArrayNode
  | dtArr (l : List Int)                         -- *DatetimeArrayNode
  | logic (op : AndOr) (grouped : Bool) (l r : U)   -- *BooleanLogicExprNode (grouped: written in parentheses)
  | binary (op : BinOp) (l r : U)                -- *BinaryExprNode
  | inArr (l r : U)                              -- *InArrayExprNode
  | between (l lo hi : U)                        -- *BetweenExprNode
  | setFn (f : SetFn) (sym : U)                  -- *SetFunctionNode
  | unot (e : U)                                 -- *UntypedNotExprNode
  | notE (e : U)                                 -- *NotExprNode (pushed for `not in`, `not between`)
  | query (pred sortBy : U) (skip limit : Option Int)   -- *untypedQueryNode (sortBy: sortBy/noSort)
  | subQ (sym q : U)                             -- *UntypedSubQueryNode
  | limitE (i : Int)                             -- *LimitExprNode
  | skipE (i : Int)                              -- *SkipExprNode
  | sortBy (fields : U)                          -- *SortByNode (fields: sfNil/sfCons list)
  | noSort                                       -- nil *SortByNode inside a query
  | sfNil
  | sfCons (sym : U) (asc : Bool) (rest : U)
  | sortField (sym : U) (asc : Bool)             -- *SortFieldNode
deriving DecidableEq, Repr

/-- Go dynamic type of a node value (`noSort`, `sfNil`, `sfCons` are never stack values) -/
def U.cls : U → Cls
  | .sym _ => .UntypedSymbolNode | .boolC _ => .BoolConstNode | .lit l => l.cls
  | .nullC => .NullConstNode | .strArr _ => .StringArrayNode | .intArr _ => .Int64ArrayNode
  | .fltArr _ => .Float64ArrayNode | .dtArr _ => .DatetimeArrayNode
  | .logic .. => .BooleanLogicExprNode | .binary .. => .BinaryExprNode | .inArr .. => .InArrayExprNode
  | .between .. => .BetweenExprNode | .setFn .. => .SetFunctionNode | .unot _ => .UntypedNotExprNode
  | .notE _ => .NotExprNode | .query .. => .untypedQueryNode | .subQ .. => .UntypedSubQueryNode
  | .limitE _ => .LimitExprNode | .skipE _ => .SkipExprNode | .sortBy _ => .SortByNode
  | .noSort => .SortByNode | .sfNil => .SortByNode | .sfCons .. => .SortByNode
  | .sortField .. => .SortFieldNode

/-- values on the parse stacks: nodes, and the three non-Node kinds of marker -/
inductive SV where
  | node (u : U)
  | binop (o : BinOp)
  | setfn (f : SetFn)
  | sortdir (asc : Bool)
deriving DecidableEq, Repr

structure LState where
  stacks : List (List SV)   -- bl.stacks  (head = top)
  cur : List SV             -- bl.currentStack.values (head = top)
  err : Bool                -- bl.err != nil
deriving DecidableEq, Repr

def LState.init : LState := ⟨[], [], false⟩

inductive Ev where
  | term (k : TK) (text : List Char)
  | eSA | eNA | eDA | xSA | xNA | xDA | xOr | xAnd | xIn | xBtw | xBin | xSF
  | eSB | xSB | xSFd | xSk | xLi | xQ | xSQ | xNot | xGrp
deriving DecidableEq, Repr

/-- token types with a case in `VisitTerminal` -/
def listenerKinds : List TK :=
  [.BOOL, .DATETIME, .IDENTIFIER, .NULL, .NUMBER, .NONE, .STRING, .EQ, .GT, .LT, .IN, .BETWEEN,
   .CONTAINS, .ICONTAINS, .ALL_OF, .ANY_OF, .COUNT, .ISEMPTY, .ASC, .DESC]

/-! ## the stack helpers -/

def setErr (st : LState) : LState := { st with err := true }

/-- `pushStack` -/
def push (st : LState) (v : SV) : LState := if st.err then st else { st with cur := v :: st.cur }

/-- `popNode`: nil (none) when the latch is set, the stack is empty or the top is not a Node -/
def popNode (st : LState) : Option U × LState :=
  if st.err then (none, st) else
  match st.cur with
  | [] => (none, setErr st)
  | .node u :: rest => (some u, { st with cur := rest })
  | _ :: rest => (none, setErr { st with cur := rest })

def popBinop (st : LState) : Option BinOp × LState :=
  if st.err then (none, st) else
  match st.cur with
  | [] => (none, setErr st)
  | .binop o :: rest => (some o, { st with cur := rest })
  | _ :: rest => (none, setErr { st with cur := rest })

def popSetFn (st : LState) : Option SetFn × LState :=
  if st.err then (none, st) else
  match st.cur with
  | [] => (none, setErr st)
  | .setfn f :: rest => (some f, { st with cur := rest })
  | _ :: rest => (none, setErr { st with cur := rest })

/-- `popSymbolNode`: `val.(SymbolNode)` -/
def popSymbol (st : LState) : Option U × LState :=
  if st.err then (none, st) else
  match st.cur with
  | [] => (none, setErr st)
  | .node u :: rest =>
    if impl u.cls .SymbolNode then (some u, { st with cur := rest }) else (none, setErr { st with cur := rest })
  | _ :: rest => (none, setErr { st with cur := rest })

/-- `peekStack` -/
def peek (st : LState) : Option SV := if st.err then none else st.cur.head?

/-- `popStack` used for its effect only (after a successful peek) -/
def dropTop (st : LState) : LState :=
  if st.err then st else
  match st.cur with
  | [] => setErr st
  | _ :: rest => { st with cur := rest }

def enterGroup (st : LState) : LState := { st with stacks := st.cur :: st.stacks, cur := [] }

def exitGroup (st : LState) : LState :=
  match st.stacks with
  | [] => setErr st
  | s :: rest => { st with stacks := rest, cur := s }

/-! ## terminals -/

def opOfText (t : List Char) : BinOp :=
  if t == ['='] then .eq else if t == ['!', '='] then .neq else if t == ['<'] then .lt
  else if t == ['<', '='] then .lte else if t == ['>'] then .gt else if t == ['>', '='] then .gte
  else .eq   -- missing map key: the zero value

def hasNot (t : List Char) : Bool := containsSub ['n', 'o', 't'] (lowerAscii t)

def parseBoolText (t : List Char) : Option Bool :=
  let l := String.ofList (lowerAscii t)
  if l == "true" || l == "t" || l == "1" then some true
  else if l == "false" || l == "f" || l == "0" then some false
  else none

def visitTerminal (st : LState) (k : TK) (text : List Char) : LState :=
  if st.err then st else
  match k with
  | .BOOL => match parseBoolText text with
    | some b => push st (.node (.boolC b))
    | none => setErr st
  | .DATETIME => match parseDatetime text with
    | some ns => push st (.node (.lit (.dt ns)))
    | none => setErr st
  | .IDENTIFIER => push st (.node (.sym text))
  | .NULL => push st (.node .nullC)
  | .NUMBER => match classifyNumber text with
    | .int i => push st (.node (.lit (.int i)))
    | .float q => push st (.node (.lit (.flt q)))
    | .bad => setErr st
  | .NONE => push st (.node (.lit (.int (-1))))
  | .STRING => push st (.node (.lit (.str (parseZqlString text))))
  | .EQ | .GT | .LT => push st (.binop (opOfText text))
  | .IN => push st (.binop (if hasNot text then .notIn else .in_))
  | .BETWEEN => push st (.binop (if hasNot text then .notBetween else .between))
  | .CONTAINS => push st (.binop (if hasNot text then .notContains else .contains))
  | .ICONTAINS => push st (.binop (if hasNot text then .notIContains else .icontains))
  | .ALL_OF => push st (.setfn .allOf)
  | .ANY_OF => push st (.setfn .anyOf)
  | .COUNT => push st (.setfn .count)
  | .ISEMPTY => push st (.setfn .isEmpty)
  | .ASC => push st (.sortdir true)
  | .DESC => push st (.sortdir false)
  | _ => st

/-! ## array exits (the three functions that can panic) -/

def litOf : U → Option Lit
  | .lit l => some l
  | _ => none

/-- the loop of ExitStringArray / ExitDatetimeArray: pop until the group's stack is empty;
    `want` is the interface asserted.  Result: collected literals (in pop order), or the state
    after SetError (`.err`-like: `none` plus state), or panic. -/
def popArrayLoop (want : Iface) (site : String) : Nat → LState → List Lit → Outcome (Option (List Lit) × LState)
  | 0, st, acc => .ok (some acc.reverse, st)
  | n + 1, st, acc =>
    if st.cur.isEmpty then .ok (some acc.reverse, st) else
    let (node, st1) := popNode st
    match node with
    | none => .panic site                          -- node.(I) fails, node.GetType() on a nil Node
    | some u =>
      if impl u.cls want then
        match litOf u with
        | some l => popArrayLoop want site n st1 (l :: acc)
        | none => .ok (none, setErr st1)           -- (a non-literal implementing I: not reachable, treated as error)
      else .ok (none, setErr st1)                  -- SetError("unexpected value of type …"), return

def exitStringArray (st : LState) : Outcome LState :=
  if st.err then .ok st else
  match popArrayLoop .StringNode "ExitStringArray: node.GetType() on nil" (st.cur.length + 1) st [] with
  | .ok (some vals, st1) => .ok (push (exitGroup st1) (.node (.strArr vals)))
  | .ok (none, st1) => .ok st1
  | .err e => .err e
  | .panic s => .panic s

def exitDatetimeArray (st : LState) : Outcome LState :=
  if st.err then .ok st else
  match popArrayLoop .DatetimeNode "ExitDatetimeArray: node.GetType() on nil" (st.cur.length + 1) st [] with
  | .ok (some vals, st1) =>
    .ok (push (exitGroup st1) (.node (.dtArr (vals.filterMap Lit.dt?))))
  | .ok (none, st1) => .ok st1
  | .err e => .err e
  | .panic s => .panic s

/-- the loop of ExitNumberArray: Int64Node first, then Float64Node -/
def popNumberLoop : Nat → LState → List Lit → Outcome (Option (List Lit) × LState)
  | 0, st, acc => .ok (some acc.reverse, st)
  | n + 1, st, acc =>
    if st.cur.isEmpty then .ok (some acc.reverse, st) else
    let (node, st1) := popNode st
    match node with
    | none => .panic "ExitNumberArray: node.GetType() on nil"
    | some u =>
      if impl u.cls .Int64Node || impl u.cls .Float64Node then
        match litOf u with
        | some l => popNumberLoop n st1 (l :: acc)
        | none => .ok (none, setErr st1)
      else .ok (none, setErr st1)

def litToRat : Lit → Rat
  | .int i => (i : Rat)
  | .flt q => q
  | _ => 0

def exitNumberArray (st : LState) : Outcome LState :=
  if st.err then .ok st else
  match popNumberLoop (st.cur.length + 1) st [] with
  | .ok (some vals, st1) =>
    let allInt := vals.all Lit.isInt
    let st2 := exitGroup st1
    if allInt then .ok (push st2 (.node (.intArr (vals.filterMap Lit.int?))))
    else .ok (push st2 (.node (.fltArr (vals.map litToRat))))
  | .ok (none, st1) => .ok st1
  | .err e => .err e
  | .panic s => .panic s

/-! ## the other exits -/

/-- ExitAndExpr re-associates `l and (q or r)` to `(l and q) or r` unless the `or` was written in
    parentheses (the generated parser hands AND the whole rest of the expression) -/
def andNode (l r : U) : U :=
  match r with
  | .logic .or false rl rr => .logic .or false (.logic .and false l rl) rr
  | _ => .logic .and false l r

def exitLogic (op : AndOr) (st : LState) : LState :=
  let (right, st1) := popNode st
  let (left, st2) := popNode st1
  match left, right, st2.err with
  | some l, some r, false =>
    match op with
    | .and => push st2 (.node (andNode l r))
    | .or => push st2 (.node (.logic .or false l r))
  | _, _, _ => st2

/-- ExitGroup: `if node, ok := bl.peekStack().(*BooleanLogicExprNode); ok { node.grouped = true }` -/
def markGrouped : U → U
  | .logic op _ l r => .logic op true l r
  | u => u

def exitGroupCtx (st : LState) : LState :=
  match peek st, st.cur with
  | some (.node (.logic op g l r)), _ :: rest => { st with cur := .node (markGrouped (.logic op g l r)) :: rest }
  | _, _ => st

def exitInArrayOp (st : LState) : LState :=
  let (right, st1) := popNode st
  let (op, st2) := popBinop st1
  let (left, st3) := popNode st2
  match left, op, right, st3.err with
  | some l, some o, some r, false =>
    if o == .in_ then push st3 (.node (.inArr l r))
    else if o == .notIn then push st3 (.node (.notE (.inArr l r)))
    else setErr st3
  | _, _, _, _ => st3

def exitBetweenOp (st : LState) : LState :=
  let (upper, st1) := popNode st
  let (lower, st2) := popNode st1
  let (op, st3) := popBinop st2
  let (left, st4) := popNode st3
  match left, op, lower, upper, st4.err with
  | some l, some o, some lo, some hi, false =>
    if o == .between then push st4 (.node (.between l lo hi))
    else if o == .notBetween then push st4 (.node (.notE (.between l lo hi)))
    else setErr st4
  | _, _, _, _, _ => st4

def exitBinaryOp (st : LState) : LState :=
  let (right, st1) := popNode st
  let (op, st2) := popBinop st1
  let (left, st3) := popNode st2
  match left, op, right, st3.err with
  | some l, some o, some r, false => push st3 (.node (.binary o l r))
  | _, _, _, _ => st3

def pushSetFunction (st : LState) : LState :=
  let (sym, st1) := popSymbol st
  let (op, st2) := popSetFn st1
  match sym, op, st2.err with
  | some s, some f, false => push st2 (.node (.setFn f s))
  | _, _, _ => st2

/-- ExitSortByExpr: every value of the group's stack must be a *SortFieldNode (bottom to top) -/
def sortFieldsOf : List SV → Option U
  | [] => some .sfNil
  | .node (.sortField s a) :: rest => (sortFieldsOf rest).map (.sfCons s a)
  | _ => none

def exitSortBy (st : LState) : LState :=
  match sortFieldsOf st.cur.reverse with
  | none => setErr st
  | some fields => push (exitGroup st) (.node (.sortBy fields))

def exitSortField (st : LState) : LState :=
  let (asc, st1) := match peek st with
    | some (.sortdir a) => (a, dropTop st)
    | _ => (true, st)
  let (sym, st2) := popSymbol st1
  match sym, st2.err with
  | some s, false => push st2 (.node (.sortField s asc))
  | _, _ => st2

def exitSkip (st : LState) : LState :=
  let (v, st1) := popNode st
  if st1.err then st1 else
  match v with
  | some (.lit (.int i)) => push st1 (.node (.skipE i))     -- val.(*Int64ConstNode)
  | _ => setErr st1

def exitLimit (st : LState) : LState :=
  let (v, st1) := popNode st
  if st1.err then st1 else
  match v with
  | some (.lit (.int i)) => push st1 (.node (.limitE i))
  | _ => setErr st1

def exitQueryStmt (st : LState) : LState :=
  let (limit, st1) := match peek st with
    | some (.node (.limitE i)) => (some i, dropTop st)
    | _ => (none, st)
  let (skip, st2) := match peek st1 with
    | some (.node (.skipE i)) => (some i, dropTop st1)
    | _ => (none, st1)
  let (sortBy, st3) := match peek st2 with
    | some (.node (.sortBy f)) => (U.sortBy f, dropTop st2)
    | _ => (U.noSort, st2)
  let (pred, st4) := match peek st3 with
    | some (.node _) => popNode st3
    | _ => (some (U.boolC true), st3)
  match pred, st4.err with
  | some p, false => push st4 (.node (.query p sortBy skip limit))
  | _, _ => st4

def exitSubQuery (st : LState) : LState :=
  let (q, st1) := popNode st
  let (node, st2) := popNode st1
  if st2.err then st2 else
  match node, q with
  | some n, some qn => if impl n.cls .SymbolNode then push st2 (.node (.subQ n qn)) else setErr st2
  | _, _ => setErr st2

def exitNot (st : LState) : LState :=
  let (e, st1) := popNode st
  match e, st1.err with
  | some x, false => push st1 (.node (.unot x))
  | _, _ => st1

/-- one listener callback -/
def step (st : LState) : Ev → Outcome LState
  | .term k text => .ok (visitTerminal st k text)
  | .eSA | .eNA | .eDA | .eSB => .ok (enterGroup st)
  | .xSA => exitStringArray st
  | .xNA => exitNumberArray st
  | .xDA => exitDatetimeArray st
  | .xOr => .ok (exitLogic .or st)
  | .xAnd => .ok (exitLogic .and st)
  | .xIn => .ok (exitInArrayOp st)
  | .xBtw => .ok (exitBetweenOp st)
  | .xBin => .ok (exitBinaryOp st)
  | .xSF => .ok (pushSetFunction st)
  | .xSB => .ok (exitSortBy st)
  | .xSFd => .ok (exitSortField st)
  | .xSk => .ok (exitSkip st)
  | .xLi => .ok (exitLimit st)
  | .xQ => .ok (exitQueryStmt st)
  | .xSQ => .ok (exitSubQuery st)
  | .xNot => .ok (exitNot st)
  | .xGrp => .ok (exitGroupCtx st)

def run : LState → List Ev → Outcome LState
  | st, [] => .ok st
  | st, e :: es =>
    match step st e with
    | .ok st1 => run st1 es
    | .err x => .err x
    | .panic s => .panic s

/-- `getQuery` up to PostProcess: the untyped query on top of the stack -/
def getQueryU (st : LState) : Outcome U :=
  if st.err then .err "listener error" else
  match (popNode st).1 with
  | some (.query p s sk li) => .ok (.query p s sk li)
  | _ => .err "unexpected result from query parsing"

/-- the walk of a whole input: listener events, then the query -/
def listen (evs : List Ev) : Outcome U :=
  match run .init evs with
  | .ok st => getQueryU st
  | .err e => .err e
  | .panic s => .panic s

/-! ## the event stream of a derivation (ParseTreeWalker order: enter, children, exit) -/

def tokEv (t : Token) : List Ev := if listenerKinds.contains t.kind then [.term t.kind t.text] else []

def ArrTree.events (a : ArrTree) : List Ev :=
  let enter := match a.kind with | .str => Ev.eSA | .num => Ev.eNA | .dt => Ev.eDA
  let exit := match a.kind with | .str => Ev.xSA | .num => Ev.xNA | .dt => Ev.xDA
  enter :: tokEv a.first ++ a.more.flatMap (fun m => tokEv m.2.2.2) ++ [exit]

def SortFieldTree.events (f : SortFieldTree) : List Ev :=
  tokEv f.ident ++ (match f.dir with | none => [] | some (_, d) => tokEv d) ++ [.xSFd]

def SortByTree.events (s : SortByTree) : List Ev :=
  .eSB :: s.first.events ++ s.more.flatMap (fun m => m.2.2.2.events) ++ [.xSB]

def optEvents {α} (f : α → List Ev) : Option (WSs × α) → List Ev
  | none => []
  | some (_, a) => f a

def skipEvents (k : KwNumTree) : List Ev := tokEv k.arg ++ [.xSk]
def limitEvents (k : KwNumTree) : List Ev := tokEv k.arg ++ [.xLi]

def TailTree.events (t : TailTree) : List Ev :=
  optEvents SortByTree.events t.sortBy ++ optEvents skipEvents t.skip ++ optEvents limitEvents t.limit

mutual
def BoolTree.events : BoolTree → List Ev
  | .inArr lhs _ op _ arr => lhs.events ++ tokEv op ++ arr.events ++ [.xIn]
  | .between lhs _ op _ lo _ _ _ hi => lhs.events ++ tokEv op ++ tokEv lo ++ tokEv hi ++ [.xBtw]
  | .binary lhs _ op _ rhs => lhs.events ++ tokEv op ++ tokEv rhs ++ [.xBin]
  | .group _ _ e _ _ => e.events ++ [.xGrp]
  | .and l _ _ _ r => l.events ++ r.events ++ [.xAnd]
  | .or l _ _ _ r => l.events ++ r.events ++ [.xOr]
  | .boolConst t => tokEv t
  | .isEmpty kw _ _ s _ _ => tokEv kw ++ s.events ++ [.xSF]
  | .symbol t => tokEv t
  | .not _ _ e => e.events ++ [.xNot]
def LhsTree.events : LhsTree → List Ev
  | .ident t => tokEv t
  | .setFn fn _ _ id _ _ => tokEv fn ++ tokEv id ++ [.xSF]
  | .count fn _ _ s _ _ => tokEv fn ++ s.events ++ [.xSF]
def SetExprTree.events : SetExprTree → List Ev
  | .ident t => tokEv t
  | .subQuery _ _ id _ _ _ q => tokEv id ++ q.events ++ [.xSQ]
def QueryTree.events : QueryTree → List Ev
  | .pred e tail => e.events ++ tail.events ++ [.xQ]
  | .sort s sk li => s.events ++ optEvents skipEvents sk ++ optEvents limitEvents li ++ [.xQ]
  | .skip s li => skipEvents s ++ optEvents limitEvents li ++ [.xQ]
  | .limit l => limitEvents l ++ [.xQ]
end

def StartTree.events (t : StartTree) : List Ev := t.q.events

/-! ## which event streams an ANTLR walk can produce -/

/-- terminals that can be matched inside stringArray / numberArray / datetimeArray and reach the
    listener's switch: only the element tokens -/
def arrayTerminal (k : TK) : Bool := k == .STRING || k == .NUMBER || k == .DATETIME

/-- `clean inArray evs`: array contexts are not nested, contain only element terminals between
    their enter and exit callbacks, and an array exit only follows its enter.  Every walk of an
    ANTLR tree has this shape, also after error recovery: the three array rules have only
    terminal children, and tokens consumed during recovery are error nodes (VisitErrorNode). -/
def clean : Bool → List Ev → Bool
  | _, [] => true
  | false, e :: es =>
    match e with
    | .eSA | .eNA | .eDA => clean true es
    | .xSA | .xNA | .xDA => false
    | _ => clean false es
  | true, e :: es =>
    match e with
    | .term k _ => arrayTerminal k && clean true es
    | .xSA | .xNA | .xDA => clean false es
    | _ => false

end StorageModel.C10
