import StorageModel.C10.Lex
/-
  C10 — shared basics: the three-valued outcome of a modelled Go function, and the meaning of
  literal token texts as the listener computes it (strconv.ParseInt / ParseFloat range
  behaviour, zitiql.ParseZqlDatetime + time.Parse(RFC3339), zitiql.ParseZqlString).
-/
namespace StorageModel.C10

/-- result of a modelled Go function: a value, an `error` return, or a run-time panic
    (unchecked type assertion that fails, nil dereference, index out of range) -/
inductive Outcome (α : Type) where
  | ok (a : α)
  | err (e : String)
  | panic (site : String)
deriving Repr

namespace Outcome
def bind {α β} (x : Outcome α) (f : α → Outcome β) : Outcome β :=
  match x with
  | .ok a => f a
  | .err e => .err e
  | .panic s => .panic s
instance : Monad Outcome where
  pure := .ok
  bind := bind
def isPanic {α} : Outcome α → Bool
  | .panic _ => true
  | _ => false
@[simp] theorem bind_ok {α β} (a : α) (f : α → Outcome β) : (Outcome.ok a >>= f) = f a := rfl
@[simp] theorem bind_err {α β} (e : String) (f : α → Outcome β) : (Outcome.err e >>= f) = .err e := rfl
@[simp] theorem bind_panic {α β} (s : String) (f : α → Outcome β) : (Outcome.panic s >>= f) = .panic s := rfl
@[simp] theorem pure_eq {α} (a : α) : (pure a : Outcome α) = .ok a := rfl
end Outcome

/-! ## numbers -/

def digitVal (c : Char) : Nat := c.toNat - 48
def isDigit (c : Char) : Bool := '0' ≤ c && c ≤ '9'

def natOfDigits (ds : List Char) : Nat := ds.foldl (fun acc c => acc * 10 + digitVal c) 0

/-- a NUMBER token text split as sign, integer digits, fraction digits, exponent (sign, digits) -/
structure NumParts where
  neg : Bool
  intDigits : List Char
  fracDigits : List Char
  hasExp : Bool
  expNeg : Bool
  expDigits : List Char
deriving Repr

def splitNumber (s : List Char) : NumParts :=
  let (neg, s1) := match s with
    | '-' :: r => (true, r)
    | _ => (false, s)
  let intDigits := s1.takeWhile isDigit
  let s2 := s1.dropWhile isDigit
  let (fracDigits, s3) := match s2 with
    | '.' :: r => (r.takeWhile isDigit, r.dropWhile isDigit)
    | _ => ([], s2)
  match s3 with
  | e :: r =>
    if e == 'e' || e == 'E' then
      let (expNeg, r1) := match r with
        | '-' :: r' => (true, r')
        | '+' :: r' => (false, r')
        | _ => (false, r)
      ⟨neg, intDigits, fracDigits, true, expNeg, r1.takeWhile isDigit⟩
    else ⟨neg, intDigits, fracDigits, false, false, []⟩
  | [] => ⟨neg, intDigits, fracDigits, false, false, []⟩

inductive NumLit where
  | int (i : Int)
  | float (q : Rat)
  | bad          -- neither ParseInt nor ParseFloat accepts it (range error: ±Inf)
deriving Repr, DecidableEq

def int64Min : Int := -9223372036854775808
def int64Max : Int := 9223372036854775807

/-- the smallest magnitude that strconv.ParseFloat(…, 64) reports as out of range:
    halfway between MaxFloat64 and 2^1024 (round-half-even rounds it up to +Inf) -/
def floatOverflow : Nat := 2 ^ 1024 - 2 ^ 970

/-- `appendNumberNode`: ParseInt(text, 10, 64), else ParseFloat(text, 64).  The float is kept
    as the exact decimal value (the nearest float64 in Go); only the out-of-range decision
    matters for totality. -/
def classifyNumber (s : List Char) : NumLit :=
  let p := splitNumber s
  let mant : Nat := natOfDigits (p.intDigits ++ p.fracDigits)
  let sign : Int := if p.neg then -1 else 1
  if p.fracDigits.isEmpty && !p.hasExp &&
      int64Min ≤ sign * (natOfDigits p.intDigits : Int) && sign * (natOfDigits p.intDigits : Int) ≤ int64Max then
    .int (sign * (natOfDigits p.intDigits : Int))
  else
    let e : Int := (if p.expNeg then -1 else 1) * (natOfDigits p.expDigits : Int) - (p.fracDigits.length : Int)
    if mant == 0 then .float 0
    else if e > 400 then .bad                       -- mant ≥ 1, so the value exceeds 10^400
    else if e < -800 - (p.intDigits.length + p.fracDigits.length : Int) then .float 0   -- underflows to 0
    else
      let q : Rat := if e ≥ 0 then (mant * 10 ^ e.toNat : Nat) else (mant : Rat) / ((10 ^ (-e).toNat : Nat) : Rat)
      -- overflow test on integers: mant * 10^e ≥ floatOverflow
      let over : Bool := if e ≥ 0 then mant * 10 ^ e.toNat ≥ floatOverflow else mant ≥ floatOverflow * 10 ^ (-e).toNat
      if over then .bad else .float (sign * q)

/-! ## strings -/

/-- zitiql.ParseZqlString: trim one leading and one trailing `"`, then a single left-to-right
    pass of the replacer (`\\`→`\`, `\"`→`"`, `\f \n \r \t`) -/
def unescapeGo : List Char → List Char
  | '\\' :: '\\' :: r => '\\' :: unescapeGo r
  | '\\' :: '"' :: r => '"' :: unescapeGo r
  | '\\' :: 'f' :: r => '\x0c' :: unescapeGo r
  | '\\' :: 'n' :: r => '\n' :: unescapeGo r
  | '\\' :: 'r' :: r => '\r' :: unescapeGo r
  | '\\' :: 't' :: r => '\t' :: unescapeGo r
  | c :: r => c :: unescapeGo r
  | [] => []

def trimSuffixQuote (s : List Char) : List Char :=
  match s.reverse with
  | '"' :: r => r.reverse
  | _ => s

def parseZqlString (s : List Char) : List Char :=
  let s1 := match s with
    | '"' :: r => r
    | _ => s
  unescapeGo (trimSuffixQuote s1)

/-! ## datetimes -/

def isLeap (y : Nat) : Bool := (y % 4 == 0 && y % 100 != 0) || y % 400 == 0

def daysIn (m y : Nat) : Nat :=
  match m with
  | 2 => if isLeap y then 29 else 28
  | 4 | 6 | 9 | 11 => 30
  | _ => 31

/-- days from 1970-01-01 to y-m-d (proleptic Gregorian), Howard Hinnant's algorithm -/
def daysFromCivil (y m d : Nat) : Int :=
  let y' : Int := if m ≤ 2 then (y : Int) - 1 else y
  let era : Int := (if y' ≥ 0 then y' else y' - 399) / 400
  let yoe : Int := y' - era * 400
  let mp : Int := if m > 2 then (m : Int) - 3 else (m : Int) + 9
  let doy : Int := (153 * mp + 2) / 5 + (d : Int) - 1
  let doe : Int := yoe * 365 + yoe / 4 - yoe / 100 + doy
  era * 146097 + doe - 719468

def isWsChar (c : Char) : Bool := c == ' ' || c == '\n' || c == '\t' || c == '\r'

/-- the text between `datetime(` and `)` with surrounding white space removed -/
def datetimeInner (s : List Char) : List Char :=
  let s1 := (s.drop 9).dropWhile isWsChar
  let r := (s1.reverse.dropWhile (fun c => c == ')' || isWsChar c)).reverse
  r

/-- `ParseZqlDatetime` on a DATETIME token text: `some nanoseconds-since-epoch` when
    time.Parse(time.RFC3339, …) accepts it, `none` when it returns an error (year not four
    digits, day out of range for the month, second 60). -/
def parseDatetime (s : List Char) : Option Int :=
  let inner := datetimeInner s
  let yearDs := inner.takeWhile isDigit
  let r1 := (inner.dropWhile isDigit).drop 1          -- '-'
  let monthDs := r1.take 2
  let r2 := r1.drop 3
  let dayDs := r2.take 2
  let r3 := r2.drop 3                                  -- 'T'
  let hourDs := r3.take 2
  let r4 := r3.drop 3
  let minDs := r4.take 2
  let r5 := r4.drop 3
  let secDs := r5.take 2
  let r6 := r5.drop 2
  let (fracDs, r7) := match r6 with
    | '.' :: r => (r.takeWhile isDigit, r.dropWhile isDigit)
    | _ => ([], r6)
  let y := natOfDigits yearDs
  let mo := natOfDigits monthDs
  let d := natOfDigits dayDs
  let h := natOfDigits hourDs
  let mi := natOfDigits minDs
  let sec := natOfDigits secDs
  let offSecs : Int := match r7 with
    | '+' :: r => ((natOfDigits (r.take 2) * 3600 + natOfDigits ((r.drop 3).take 2) * 60 : Nat) : Int)
    | '-' :: r => -((natOfDigits (r.take 2) * 3600 + natOfDigits ((r.drop 3).take 2) * 60 : Nat) : Int)
    | _ => 0
  if yearDs.length != 4 then none
  else if d < 1 || d > daysIn mo y then none
  else if sec ≥ 60 then none
  else
    let frac9 := (fracDs ++ List.replicate 9 '0').take 9
    let nanos : Int := natOfDigits frac9
    some (((daysFromCivil y mo d) * 86400 + (h * 3600 + mi * 60 + sec : Nat) - offSecs) * 1000000000 + nanos)

def lowerAscii (s : List Char) : List Char := s.map Char.toLower

def containsSub (needle hay : List Char) : Bool :=
  (List.range (hay.length + 1)).any fun i => needle.isPrefixOf (hay.drop i)

end StorageModel.C10
