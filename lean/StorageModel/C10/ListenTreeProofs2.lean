import StorageModel.C10.ListenTreeProofs
import StorageModel.C10.BuildProofs
/-
  C10 — the listener on complete derivations, part 2: sort by / skip / limit, queries, the
  mutual induction over the derivation trees.
-/
namespace StorageModel.C10

def sortFieldNode (f : SortFieldTree) : SV := .node (.sortField (.sym f.ident.text) f.asc)

theorem eff_dir (d : Token) (h : (kindIs d .ASC || kindIs d .DESC) = true) :
    Eff (tokEv d) (pushes (some (.sortdir (d.kind == .ASC)))) := by
  simp only [Bool.or_eq_true, kindIs, beq_iff_eq] at h
  rcases h with h | h
  · rw [tokEv_of_kind d _ h (by decide)]
    simp only [h, beq_self_eq_true]
    exact eff_term_push _ _ _ (fun st hst => by simp [visitTerminal, hst])
  · rw [tokEv_of_kind d _ h (by decide)]
    simp only [h, show (TK.DESC == TK.ASC) = false from rfl]
    exact eff_term_push _ _ _ (fun st hst => by simp [visitTerminal, hst])

theorem effOn_sortField (f : SortFieldTree) (h : f.wf = true) (pre : List SV) :
    EffOn f.events pre (some (sortFieldNode f :: pre)) := by
  simp only [SortFieldTree.wf, Bool.and_eq_true] at h
  have e1 := effOn_push (eff_ident f.ident h.1) pre
  unfold SortFieldTree.events
  cases hd : f.dir with
  | none =>
    simp only [List.append_nil]
    refine effOn_seq e1 (effOn_step _ _ _ ?_)
    intro s c
    simp [step, exitSortField, peek, popSymbol, U.cls, push, sortFieldNode, SortFieldTree.asc, hd]
  | some wd =>
    obtain ⟨w, d⟩ := wd
    rw [hd] at h
    simp only [Bool.and_eq_true] at h
    have e2 := effOn_push (eff_dir d h.2.2) (.node (.sym f.ident.text) :: pre)
    simp only [Option.map_some] at e1 e2
    rw [List.append_assoc]
    refine effOn_seq e1 (effOn_seq e2 (effOn_step _ _ _ ?_))
    intro s c
    simp [step, exitSortField, peek, dropTop, popSymbol, U.cls, push, sortFieldNode, SortFieldTree.asc, hd]

theorem effOn_sortFields : ∀ (fs : List SortFieldTree) (pre : List SV), fs.all SortFieldTree.wf = true →
    EffOn (fs.flatMap SortFieldTree.events) pre (some ((fs.reverse.map sortFieldNode) ++ pre)) := by
  intro fs
  induction fs with
  | nil => intro pre _; simpa using effOn_nil pre
  | cons f rest ih =>
    intro pre h
    simp only [List.all_cons, Bool.and_eq_true] at h
    simp only [List.flatMap_cons]
    have := effOn_seq (effOn_sortField f h.1 pre) (ih (sortFieldNode f :: pre) h.2)
    simpa [List.reverse_cons, List.map_append, List.append_assoc] using this

theorem sortFieldsOf_nodes : ∀ (fs : List SortFieldTree), sortFieldsOf (fs.map sortFieldNode) = some (sortFieldsU fs) := by
  intro fs
  induction fs with
  | nil => rfl
  | cons f rest ih => simp [sortFieldNode, sortFieldsOf, sortFieldsU, ih]

theorem sortBy_events_eq (s : SortByTree) :
    s.events = .eSB :: ((s.first :: s.more.map (·.2.2.2)).flatMap SortFieldTree.events ++ [.xSB]) := by
  simp [SortByTree.events, List.flatMap_cons, List.flatMap_map, List.append_assoc]

/-- **a `sort by` context** leaves its *SortByNode on the stack -/
theorem effOn_sortBy (t : SortByTree) (h : t.wf = true) (pre : List SV) :
    EffOn t.events pre (some (.node t.build :: pre)) := by
  simp only [SortByTree.wf, Bool.and_eq_true] at h
  have hall : (t.first :: t.more.map (·.2.2.2)).all SortFieldTree.wf = true := by
    simp only [List.all_cons, Bool.and_eq_true, List.all_map]
    refine ⟨h.1.2, ?_⟩
    have := h.2
    simp only [List.all_eq_true] at this ⊢
    intro m hm
    have := this m hm
    simp only [Bool.and_eq_true] at this
    exact this.2
  intro st c hst hc
  obtain ⟨s, cur, e⟩ := st
  simp only at hst hc; subst hst; subst hc
  rw [sortBy_events_eq]
  have hrun : ∀ rest, run ⟨s, pre ++ c, false⟩ (.eSB :: rest) = run ⟨(pre ++ c) :: s, [], false⟩ rest := by
    intro rest; simp [run, step, enterGroup]
  rw [hrun, run_append]
  have hin := effOn_sortFields _ [] hall ⟨(pre ++ c) :: s, [], false⟩ [] rfl rfl
  simp only [List.append_nil] at hin
  rw [hin]
  simp only [run, step, exitSortBy, List.map_reverse, List.reverse_reverse, sortFieldsOf_nodes]
  simp [exitGroup, push, SortByTree.build]

theorem effOn_skip (k : KwNumTree) (h : skipWf k = true) (pre : List SV) :
    EffOn (skipEvents k) pre ((intOfToken k.arg).map fun i => .node (.skipE i) :: pre) := by
  simp only [skipWf, Bool.and_eq_true, kindIs, beq_iff_eq] at h
  have e1 := effOn_push (eff_literal k.arg (Or.inr (Or.inl h.2))) pre
  unfold skipEvents intOfToken
  simp only [litOfToken, h.2] at e1 ⊢
  cases hc : classifyNumber k.arg.text with
  | int i =>
    simp only [hc, Option.map_some] at e1 ⊢
    refine effOn_seq e1 (effOn_step _ _ _ ?_)
    intro s c; simp [step, exitSkip, popNode, push]
  | float q =>
    simp only [hc, Option.map_some] at e1 ⊢
    refine effOn_congr (effOn_bind (k := fun _ => none) e1 (fun mid hm => ?_)) rfl
    cases hm
    exact effOn_step_fail _ _ (fun s c => ⟨_, by simp [step, exitSkip, popNode]; rfl, rfl⟩)
  | bad =>
    simp only [hc, Option.map_none] at e1 ⊢
    exact effOn_congr (effOn_bind (k := fun _ => none) e1 (fun mid hm => by cases hm)) rfl

theorem effOn_limit (k : KwNumTree) (h : limitWf k = true) (pre : List SV) :
    EffOn (limitEvents k) pre ((intOfToken k.arg).map fun i => .node (.limitE i) :: pre) := by
  simp only [limitWf, Bool.and_eq_true, Bool.or_eq_true, kindIs, beq_iff_eq] at h
  unfold limitEvents intOfToken
  rcases h.2 with hk | hk
  · have e1 := effOn_push (eff_literal k.arg (Or.inr (Or.inl hk))) pre
    simp only [litOfToken, hk] at e1 ⊢
    cases hc : classifyNumber k.arg.text with
    | int i =>
      simp only [hc, Option.map_some] at e1 ⊢
      refine effOn_seq e1 (effOn_step _ _ _ ?_)
      intro s c; simp [step, exitLimit, popNode, push]
    | float q =>
      simp only [hc, Option.map_some] at e1 ⊢
      refine effOn_congr (effOn_bind (k := fun _ => none) e1 (fun mid hm => ?_)) rfl
      cases hm
      exact effOn_step_fail _ _ (fun s c => ⟨_, by simp [step, exitLimit, popNode]; rfl, rfl⟩)
    | bad =>
      simp only [hc, Option.map_none] at e1 ⊢
      exact effOn_congr (effOn_bind (k := fun _ => none) e1 (fun mid hm => by cases hm)) rfl
  · have e1 := effOn_push (eff_literal k.arg (Or.inr (Or.inr (Or.inr (Or.inr (Or.inr hk)))))) pre
    simp only [litOfToken, hk, Option.map_some] at e1 ⊢
    refine effOn_seq e1 (effOn_step _ _ _ ?_)
    intro s c; simp [step, exitLimit, popNode, push]

/-! ### the tail of a query and ExitQueryStmt -/

def tailStack (sb : Option U) (sk li : Option Int) : List SV :=
  (match li with | some j => [SV.node (.limitE j)] | none => []) ++
  (match sk with | some i => [SV.node (.skipE i)] | none => []) ++
  (match sb with | some u => [SV.node u] | none => [])

def sbNode (sb : Option (WSs × SortByTree)) : Option U := sb.map fun x => x.2.build

theorem tailParts_sort (sb : Option (WSs × SortByTree)) (sk li : Option (WSs × KwNumTree)) (su : U) (a b : Option Int)
    (h : tailParts sb sk li = some (su, a, b)) : su = (sbNode sb).getD .noSort := by
  unfold tailParts at h
  cases h1 : optInt sk <;> cases h2 : optInt li <;> simp [h1, h2] at h
  obtain ⟨hs, _, _⟩ := h
  subst hs
  cases sb <;> simp [sbNode]

/-- `(WS+ sortBy)? (WS+ skip)? (WS+ limit)?`: the optional parts push their nodes, limit on top -/
theorem effOn_tail (sb : Option (WSs × SortByTree)) (sk li : Option (WSs × KwNumTree))
    (h1 : optWf SortByTree.wf sb = true) (h2 : optWf skipWf sk = true) (h3 : optWf limitWf li = true) (pre : List SV) :
    EffOn (optEvents SortByTree.events sb ++ optEvents skipEvents sk ++ optEvents limitEvents li) pre
      ((tailParts sb sk li).map fun r => tailStack (sbNode sb) r.2.1 r.2.2 ++ pre) := by
  -- the sort part always succeeds
  have es : EffOn (optEvents SortByTree.events sb) pre (some (tailStack (sbNode sb) none none ++ pre)) := by
    cases sb with
    | none => simpa [optEvents, tailStack, sbNode] using effOn_nil pre
    | some x =>
      obtain ⟨w, t⟩ := x
      simp only [optWf, Bool.and_eq_true] at h1
      simpa [optEvents, tailStack, sbNode] using effOn_sortBy t h1.2 pre
  have ek : ∀ pre', EffOn (optEvents skipEvents sk) pre'
      (match sk with
       | none => some pre'
       | some x => (intOfToken x.2.arg).map fun i => SV.node (.skipE i) :: pre') := by
    intro pre'
    cases sk with
    | none => simpa [optEvents] using effOn_nil pre'
    | some x =>
      obtain ⟨w, t⟩ := x
      simp only [optWf, Bool.and_eq_true] at h2
      simpa [optEvents] using effOn_skip t h2.2 pre'
  have el : ∀ pre', EffOn (optEvents limitEvents li) pre'
      (match li with
       | none => some pre'
       | some x => (intOfToken x.2.arg).map fun i => SV.node (.limitE i) :: pre') := by
    intro pre'
    cases li with
    | none => simpa [optEvents] using effOn_nil pre'
    | some x =>
      obtain ⟨w, t⟩ := x
      simp only [optWf, Bool.and_eq_true] at h3
      simpa [optEvents] using effOn_limit t h3.2 pre'
  rw [List.append_assoc]
  refine effOn_congr (effOn_seq es (effOn_bind (ek _) (fun mid _ => el mid))) ?_
  cases sk with
  | none =>
    cases li with
    | none => simp [tailParts, optInt, tailStack]
    | some y =>
      obtain ⟨w, l⟩ := y
      cases hi : intOfToken l.arg <;> simp [tailParts, optInt, tailStack, hi]
  | some x =>
    obtain ⟨w, k⟩ := x
    cases li with
    | none => cases hi : intOfToken k.arg <;> simp [tailParts, optInt, tailStack, hi]
    | some y =>
      obtain ⟨w', l⟩ := y
      cases hi : intOfToken k.arg <;> cases hj : intOfToken l.arg <;> simp [tailParts, optInt, tailStack, hi, hj]

def notPaging : U → Bool
  | .limitE _ | .skipE _ | .sortBy _ => false
  | _ => true

/-- ExitQueryStmt with a predicate node below the optional parts -/
theorem exitQ_pred (sb : Option U) (hsb : ∀ u, sb = some u → ∃ f, u = .sortBy f) (sk li : Option Int)
    (p : U) (hp : notPaging p = true) (s : List (List SV)) (c : List SV) :
    step ⟨s, tailStack sb sk li ++ .node p :: c, false⟩ .xQ =
      .ok ⟨s, .node (.query p (sb.getD .noSort) sk li) :: c, false⟩ := by
  cases sb with
  | none =>
    cases li <;> cases sk <;> cases p <;> simp [notPaging] at hp <;>
      simp [step, exitQueryStmt, tailStack, peek, dropTop, popNode, push]
  | some u =>
    obtain ⟨f, rfl⟩ := hsb u rfl
    cases li <;> cases sk <;> cases p <;> simp [notPaging] at hp <;>
      simp [step, exitQueryStmt, tailStack, peek, dropTop, popNode, push]

/-- ExitQueryStmt at top level without a predicate: the constant true -/
theorem exitQ_top (sb : Option U) (hsb : ∀ u, sb = some u → ∃ f, u = .sortBy f) (sk li : Option Int) (s : List (List SV)) :
    step ⟨s, tailStack sb sk li ++ [], false⟩ .xQ =
      .ok ⟨s, [.node (.query (.boolC true) (sb.getD .noSort) sk li)], false⟩ := by
  cases sb with
  | none =>
    cases li <;> cases sk <;> simp [step, exitQueryStmt, tailStack, peek, dropTop, popNode, push]
  | some u =>
    obtain ⟨f, rfl⟩ := hsb u rfl
    cases li <;> cases sk <;> simp [step, exitQueryStmt, tailStack, peek, dropTop, popNode, push]

theorem shBool_notPaging (u : U) (h : shBool u = true) : notPaging u = true := by
  cases u <;> simp [shBool] at h <;> rfl

theorem sbNode_sortBy (sb : Option (WSs × SortByTree)) : ∀ u, sbNode sb = some u → ∃ f, u = .sortBy f := by
  intro u h
  cases sb with
  | none => simp [sbNode] at h
  | some x => simp [sbNode, SortByTree.build] at h; exact ⟨_, h.symm⟩

/-- a query with a predicate, given the effect of the predicate's callbacks -/
theorem effOn_predQuery (e : BoolTree) (tail : TailTree) (hwf : (QueryTree.pred e tail).wf = true)
    (ihe : ∀ pre, EffOn e.events pre (e.build.map fun u => .node u :: pre)) (pre : List SV) :
    EffOn (QueryTree.pred e tail).events pre ((QueryTree.pred e tail).build.map fun u => .node u :: pre) := by
  simp only [QueryTree.wf, TailTree.wf, Bool.and_eq_true] at hwf
  simp only [QueryTree.events, TailTree.events, QueryTree.build, Option.bind_eq_bind]
  cases hp : e.build with
  | none =>
    have h1 := ihe pre
    rw [hp] at h1
    simp only [Option.map_none] at h1
    simp only [Option.bind_none, Option.map_none, List.append_assoc]
    exact effOn_congr (effOn_bind (k := fun _ => none) h1 (fun mid hm => by cases hm)) rfl
  | some p =>
    have h1 := ihe pre
    rw [hp] at h1
    simp only [Option.map_some] at h1
    have hnp := shBool_notPaging p (bool_shaped e hwf.1 p hp)
    have h2 := effOn_tail tail.sortBy tail.skip tail.limit hwf.2.1.1 hwf.2.1.2 hwf.2.2 (.node p :: pre)
    simp only [Option.bind_some, List.append_assoc]
    cases ht : tailParts tail.sortBy tail.skip tail.limit with
    | none =>
      rw [ht] at h2
      simp only [Option.map_none] at h2 ⊢
      rw [← List.append_assoc, ← List.append_assoc] at *
      have := effOn_seq h1 (effOn_bind (k := fun _ => none) (b := [Ev.xQ]) h2 (fun mid hm => by cases hm))
      simpa [List.append_assoc] using this
    | some r =>
      obtain ⟨su, a, b⟩ := r
      rw [ht] at h2
      simp only [Option.map_some] at h2 ⊢
      have hsu := tailParts_sort _ _ _ su a b ht
      have hx : EffOn [Ev.xQ] (tailStack (sbNode tail.sortBy) a b ++ .node p :: pre)
          (some (.node (.query p su a b) :: pre)) := by
        apply effOn_step
        intro s c
        have := exitQ_pred (sbNode tail.sortBy) (sbNode_sortBy _) a b p hnp s (pre ++ c)
        simpa [hsu, List.append_assoc] using this
      have := effOn_seq h1 (effOn_seq h2 hx)
      simpa [List.append_assoc] using this

/-- `fn(identifier)` for count / isEmpty -/
theorem effOn_setCall_ident (fn t : Token) (hfn : fn.kind = .COUNT ∨ fn.kind = .ISEMPTY) (ht : kindIs t .IDENTIFIER = true)
    (pre : List SV) :
    EffOn (tokEv fn ++ tokEv t ++ [.xSF]) pre (some (.node (.setFn (setFnOfToken fn) (.sym t.text)) :: pre)) := by
  have e1 := effOn_push (eff_setfn fn (by rcases hfn with h | h <;> simp [h])) pre
  have e2 := effOn_push (eff_ident t ht) (.setfn (setFnOfToken fn) :: pre)
  simp only [Option.map_some] at e1 e2
  rw [List.append_assoc]
  refine effOn_seq e1 (effOn_seq e2 (effOn_step _ _ _ ?_))
  intro s c
  simp [step, pushSetFunction, popSymbol, popSetFn, U.cls, push]

/-- `fn(from id where <query with predicate>)` -/
theorem effOn_setCall_pred (fn : Token) (hfn : fn.kind = .COUNT ∨ fn.kind = .ISEMPTY)
    (f : Token) (w0 : WSs) (id : Token) (w1 : WSs) (wh : Token) (w2 : WSs) (e : BoolTree) (tail : TailTree)
    (hwf : (SetExprTree.subQuery f w0 id w1 wh w2 (.pred e tail)).wf = true)
    (ihe : ∀ pre, EffOn e.events pre (e.build.map fun u => .node u :: pre)) (pre : List SV) :
    EffOn (tokEv fn ++ (SetExprTree.subQuery f w0 id w1 wh w2 (.pred e tail)).events ++ [.xSF]) pre
      ((SetExprTree.subQuery f w0 id w1 wh w2 (.pred e tail)).build.map fun x =>
        .node (.setFn (setFnOfToken fn) x) :: pre) := by
  simp only [SetExprTree.wf, Bool.and_eq_true] at hwf
  have e1 := effOn_push (eff_setfn fn (by rcases hfn with h | h <;> simp [h])) pre
  have e2 := effOn_push (eff_ident id hwf.1.1.1.1.1.1.2) (.setfn (setFnOfToken fn) :: pre)
  simp only [Option.map_some] at e1 e2
  have e3 := effOn_predQuery e tail hwf.2 ihe (.node (.sym id.text) :: .setfn (setFnOfToken fn) :: pre)
  simp only [SetExprTree.events, SetExprTree.build, Option.bind_eq_bind]
  cases hq : (QueryTree.pred e tail).build with
  | none =>
    rw [hq] at e3
    simp only [Option.map_none] at e3
    simp only [Option.bind_none, Option.map_none]
    have := effOn_seq e1 (effOn_seq e2 (effOn_bind (k := fun _ => none) (b := [Ev.xSQ, Ev.xSF]) e3 (fun mid hm => by cases hm)))
    simpa [List.append_assoc] using this
  | some q =>
    rw [hq] at e3
    simp only [Option.map_some] at e3
    simp only [Option.bind_some, Option.map_some]
    have hx : EffOn [Ev.xSQ, Ev.xSF] (.node q :: .node (.sym id.text) :: .setfn (setFnOfToken fn) :: pre)
        (some (.node (.setFn (setFnOfToken fn) (.subQ (.sym id.text) q)) :: pre)) := by
      have a1 : EffOn [Ev.xSQ] (.node q :: .node (.sym id.text) :: .setfn (setFnOfToken fn) :: pre)
          (some (.node (.subQ (.sym id.text) q) :: .setfn (setFnOfToken fn) :: pre)) := by
        apply effOn_step; intro s c
        simp [step, exitSubQuery, popNode, U.cls, push]
      have a2 : EffOn [Ev.xSF] (.node (.subQ (.sym id.text) q) :: .setfn (setFnOfToken fn) :: pre)
          (some (.node (.setFn (setFnOfToken fn) (.subQ (.sym id.text) q)) :: pre)) := by
        apply effOn_step; intro s c
        simp [step, pushSetFunction, popSymbol, popSetFn, U.cls, push]
      exact effOn_seq (a := [Ev.xSQ]) (b := [Ev.xSF]) a1 a2
    have := effOn_seq e1 (effOn_seq e2 (effOn_seq e3 hx))
    simpa [List.append_assoc] using this

/-- the optional parts followed by ExitQueryStmt, on top of a node that becomes the predicate -/
theorem effOn_tailQ (sb : Option (WSs × SortByTree)) (sk li : Option (WSs × KwNumTree))
    (h1 : optWf SortByTree.wf sb = true) (h2 : optWf skipWf sk = true) (h3 : optWf limitWf li = true)
    (p : U) (hp : notPaging p = true) (pre : List SV) :
    EffOn (optEvents SortByTree.events sb ++ optEvents skipEvents sk ++ optEvents limitEvents li ++ [.xQ]) (.node p :: pre)
      ((tailParts sb sk li).map fun r => .node (.query p r.1 r.2.1 r.2.2) :: pre) := by
  have ht := effOn_tail sb sk li h1 h2 h3 (.node p :: pre)
  cases hp' : tailParts sb sk li with
  | none =>
    rw [hp'] at ht
    simp only [Option.map_none] at ht ⊢
    exact effOn_congr (effOn_bind (k := fun _ => none) ht (fun mid hm => by cases hm)) rfl
  | some r =>
    obtain ⟨su, a, b⟩ := r
    rw [hp'] at ht
    simp only [Option.map_some] at ht ⊢
    have hsu := tailParts_sort _ _ _ su a b hp'
    refine effOn_seq ht (effOn_step _ _ _ ?_)
    intro s c
    have := exitQ_pred (sbNode sb) (sbNode_sortBy _) a b p hnp s (pre ++ c)
    simpa [hsu, List.append_assoc] using this
where hnp := hp

def wsTok : Token := ⟨.WS, [' ']⟩

theorem optWf_ws {α} (f : α → Bool) (a : α) (h : f a = true) : optWf f (some ([wsTok], a)) = true := by
  simp [optWf, allWS, isWS, wsTok, h]

/-- the callbacks of a query without predicate: optional parts, then ExitQueryStmt -/
theorem nopred_events (q : QueryTree) (hq : q.wf = true) (hnp : ∀ e t, q ≠ .pred e t) :
    ∃ sb sk li, optWf SortByTree.wf sb = true ∧ optWf skipWf sk = true ∧ optWf limitWf li = true ∧
      q.events = optEvents SortByTree.events sb ++ optEvents skipEvents sk ++ optEvents limitEvents li ++ [.xQ] ∧
      q.build = (tailParts sb sk li).map fun r => .query (.boolC true) r.1 r.2.1 r.2.2 := by
  cases q with
  | pred e t => exact absurd rfl (hnp e t)
  | sort s sk li =>
    simp only [QueryTree.wf, Bool.and_eq_true] at hq
    refine ⟨some ([wsTok], s), sk, li, optWf_ws _ s hq.1.1, hq.1.2, hq.2, by simp [QueryTree.events, optEvents], ?_⟩
    simp only [QueryTree.build, Option.bind_eq_bind]
    have : tailParts (some ([], s)) sk li = tailParts (some ([wsTok], s)) sk li := rfl
    rw [this]; cases tailParts (some ([wsTok], s)) sk li <;> rfl
  | skip s li =>
    simp only [QueryTree.wf, Bool.and_eq_true] at hq
    refine ⟨none, some ([wsTok], s), li, rfl, optWf_ws _ s hq.1, hq.2, by simp [QueryTree.events, optEvents], ?_⟩
    simp only [QueryTree.build, Option.bind_eq_bind]
    have : tailParts none (some ([], s)) li = tailParts none (some ([wsTok], s)) li := rfl
    rw [this]; cases tailParts none (some ([wsTok], s)) li <;> rfl
  | limit l =>
    simp only [QueryTree.wf] at hq
    refine ⟨none, none, some ([wsTok], l), rfl, rfl, optWf_ws _ l hq, by simp [QueryTree.events, optEvents], ?_⟩
    simp only [QueryTree.build, Option.bind_eq_bind]
    have : tailParts none none (some ([], l)) = tailParts none none (some ([wsTok], l)) := rfl
    rw [this]; cases tailParts none none (some ([wsTok], l)) <;> rfl

/-- `fn(from id where <sort/skip/limit only>)`: ExitQueryStmt takes the identifier for the predicate and
    ExitSubQuery then finds the set-function marker instead of the identifier: the listener latches an error -/
theorem effOn_setCall_nopred (fn : Token) (hfn : fn.kind = .COUNT ∨ fn.kind = .ISEMPTY)
    (f : Token) (w0 : WSs) (id : Token) (w1 : WSs) (wh : Token) (w2 : WSs) (q : QueryTree)
    (hwf : (SetExprTree.subQuery f w0 id w1 wh w2 q).wf = true) (hnp : ∀ e t, q ≠ .pred e t) (pre : List SV) :
    EffOn (tokEv fn ++ (SetExprTree.subQuery f w0 id w1 wh w2 q).events ++ [.xSF]) pre none := by
  simp only [SetExprTree.wf, Bool.and_eq_true] at hwf
  obtain ⟨sb, sk, li, h1, h2, h3, hev, _⟩ := nopred_events q hwf.2 hnp
  have e1 := effOn_push (eff_setfn fn (by rcases hfn with h | h <;> simp [h])) pre
  have e2 := effOn_push (eff_ident id hwf.1.1.1.1.1.1.2) (.setfn (setFnOfToken fn) :: pre)
  simp only [Option.map_some] at e1 e2
  have e3 := effOn_tailQ sb sk li h1 h2 h3 (.sym id.text) rfl (.setfn (setFnOfToken fn) :: pre)
  rw [← hev] at e3
  simp only [SetExprTree.events]
  have tailFail : ∀ mid, ((tailParts sb sk li).map fun r =>
        SV.node (.query (.sym id.text) r.1 r.2.1 r.2.2) :: .setfn (setFnOfToken fn) :: pre) = some mid →
      EffOn [Ev.xSQ, Ev.xSF] mid none := by
    intro mid hm
    cases ht : tailParts sb sk li with
    | none => simp [ht] at hm
    | some r =>
      simp only [ht, Option.map_some, Option.some.injEq] at hm
      subst hm
      have a1 : EffOn [Ev.xSQ] (.node (.query (.sym id.text) r.1 r.2.1 r.2.2) :: .setfn (setFnOfToken fn) :: pre) none := by
        apply effOn_step_fail; intro s c
        exact ⟨_, by simp [step, exitSubQuery, popNode]; rfl, by simp [setErr]⟩
      exact effOn_congr (effOn_bind (k := fun _ => none) (a := [Ev.xSQ]) (b := [Ev.xSF]) a1 (fun mid hm => by cases hm)) rfl
  have := effOn_seq e1 (effOn_seq e2 (effOn_bind (k := fun _ => none) e3 tailFail))
  have hnone : ((tailParts sb sk li).map fun r =>
      SV.node (.query (.sym id.text) r.1 r.2.1 r.2.2) :: .setfn (setFnOfToken fn) :: pre).bind (fun _ => (none : Option (List SV))) = none := by
    cases tailParts sb sk li <;> rfl
  rw [hnone] at this
  simpa [List.append_assoc] using this

end StorageModel.C10
