import StorageModel.C10.Basic
import StorageModel.Base.Bytes
/-
  C10 (shared with C14) — model of ast/cursors.go `treeCursor` over a binary tree with Go-style
  nil pointers: `NewTreeCursor`, `next` (descend to the left-most node, remembering the path),
  `Next`, `IsValid`, `Current`.  Dereferencing a nil `*llrb.Node` is a `panic` branch.
  The llrb tree itself (balancing, colours) is not modelled: any binary tree shape is allowed.
-/
namespace StorageModel.C10

inductive LTree where
  | nil
  | node (l : LTree) (e : Bytes) (r : LTree)
deriving Repr, DecidableEq

def LTree.isNil : LTree → Bool
  | .nil => true
  | _ => false

def LTree.inorder : LTree → List Bytes
  | .nil => []
  | .node l e r => l.inorder ++ e :: r.inorder

def LTree.size : LTree → Nat
  | .nil => 0
  | .node l _ r => l.size + 1 + r.size

/-- `treeCursor`: `stack []*llrb.Node`, `current *llrb.Node` (nil = `.nil`) -/
structure TC where
  stack : List LTree     -- head = last appended
  current : LTree
deriving Repr

/-- `func (cursor *treeCursor) next(node *llrb.Node)`: reads `node.Left`, so `node == nil` panics -/
def tcNext : LTree → List LTree → Outcome TC
  | .nil, _ => .panic "treeCursor.next: node.Left with node == nil"
  | .node l e r, stk =>
    match l with
    | .nil => .ok ⟨stk, .node l e r⟩
    | .node .. => tcNext l (.node l e r :: stk)

/-- `NewTreeCursor(tree)` with root `t` -/
def tcNew (t : LTree) : Outcome TC :=
  if t.isNil then .ok ⟨[], .nil⟩ else tcNext t []

/-- `func (cursor *treeCursor) Next()` -/
def tcStep (c : TC) : Outcome TC :=
  match c.current with
  | .nil => .ok c                                   -- if cursor.current == nil { return }
  | .node _ _ r =>
    if !r.isNil then tcNext r c.stack                -- cursor.next(cursor.current.Right)
    else match c.stack with
      | top :: rest => .ok ⟨rest, top⟩
      | [] => .ok ⟨[], .nil⟩

def tcValid (c : TC) : Bool := !c.current.isNil

/-- `Current()`: `cursor.current.Elem…` — panics on an invalid cursor, callers test IsValid first -/
def tcCurrent (c : TC) : Outcome Bytes :=
  match c.current with
  | .nil => .panic "treeCursor.Current on invalid cursor"
  | .node _ e _ => .ok e

/-- `for cursor.IsValid() { out = append(out, cursor.Current()); cursor.Next() }` -/
def tcDrain : Nat → TC → Outcome (List Bytes × TC)
  | 0, c => .ok ([], c)
  | n + 1, c =>
    if tcValid c then
      match tcCurrent c with
      | .ok e =>
        match tcStep c with
        | .ok c' =>
          match tcDrain n c' with
          | .ok (es, c'') => .ok (e :: es, c'')
          | .err x => .err x
          | .panic s => .panic s
        | .err x => .err x
        | .panic s => .panic s
      | .err x => .err x
      | .panic s => .panic s
    else .ok ([], c)

/-- `extra` more calls of Next, recording IsValid after each -/
def tcExtra : Nat → TC → Outcome (List Bool)
  | 0, _ => .ok []
  | n + 1, c =>
    match tcStep c with
    | .ok c' =>
      match tcExtra n c' with
      | .ok bs => .ok (tcValid c' :: bs)
      | .err x => .err x
      | .panic s => .panic s
    | .err x => .err x
    | .panic s => .panic s

/-- the whole script of a `T` case -/
def tcScript (t : LTree) (extra : Nat) : Outcome (List Bytes × List Bool) :=
  match tcNew t with
  | .ok c =>
    match tcDrain (t.size + 1) c with
    | .ok (es, c') =>
      match tcExtra extra c' with
      | .ok bs => .ok (es, bs)
      | .err x => .err x
      | .panic s => .panic s
    | .err x => .err x
    | .panic s => .panic s
  | .err x => .err x
  | .panic s => .panic s

/-! driver side: some tree holding a set of values (shape is irrelevant to the theorems) -/

def bytesLt : Bytes → Bytes → Bool
  | [], [] => false
  | [], _ :: _ => true
  | _ :: _, [] => false
  | a :: as, b :: bs => if a < b then true else if b < a then false else bytesLt as bs

def bstInsert (lt : Bytes → Bytes → Bool) (v : Bytes) : LTree → LTree
  | .nil => .node .nil v .nil
  | .node l e r =>
    if lt v e then .node (bstInsert lt v l) e r
    else if lt e v then .node l e (bstInsert lt v r)
    else .node l e r

def insertSorted (lt : Bytes → Bytes → Bool) (v : Bytes) : List Bytes → List Bytes
  | [] => [v]
  | e :: rest => if lt v e then v :: e :: rest else if lt e v then e :: insertSorted lt v rest else e :: rest

end StorageModel.C10
