import StorageModel.C10.Build
/-
  C10 — what a derivation denotes is a grammar-shaped untyped tree.
-/
namespace StorageModel.C10

theorem litOfToken_rhs (t : Token) (u : U) (h : litOfToken t = some u) : isRhsU u = true := by
  unfold litOfToken at h
  split at h
  · cases h; rfl
  · split at h <;> cases h <;> rfl
  · cases hp : parseDatetime t.text <;> simp [hp] at h; subst h; rfl
  · cases hp : parseBoolText t.text <;> simp [hp] at h; subst h; rfl
  · cases h; rfl
  · cases h; rfl
  · cases h

theorem arr_build_shape (a : ArrTree) (u : U) (h : a.build = some u) : isArrU u = true := by
  unfold ArrTree.build at h
  split at h
  · cases h
  · cases hk : a.kind <;> simp only [hk] at h
    · cases h; rfl
    · split at h <;> cases h <;> rfl
    · cases h; rfl

theorem shSort_fields : ∀ (fs : List SortFieldTree), shSort (sortFieldsU fs) = true := by
  intro fs
  induction fs with
  | nil => rfl
  | cons f rest ih => simp [sortFieldsU, shSort, ih]

theorem tailParts_shape (sb : Option (WSs × SortByTree)) (sk li : Option (WSs × KwNumTree)) (su : U) (a b : Option Int)
    (h : tailParts sb sk li = some (su, a, b)) :
    sortOK su = true := by
  unfold tailParts at h
  cases h1 : optInt sk <;> cases h2 : optInt li <;> simp [h1, h2] at h
  obtain ⟨hs, _, _⟩ := h
  subst hs
  cases sb with
  | none => rfl
  | some x => simp [SortByTree.build, sortOK, shSort_fields]

theorem query_shape (p su : U) (a b : Option Int) (hp : shBool p = true)
    (hs : sortOK su = true) :
    shQuery (.query p su a b) = true := by
  simp [shQuery, hp, hs]

theorem shBool_markGrouped (u : U) (h : shBool u = true) : shBool (markGrouped u) = true := by
  cases u with
  | logic op g l r => simpa [markGrouped, shBool] using h
  | _ => simpa [markGrouped] using h

theorem shBool_andNode (a b : U) (ha : shBool a = true) (hb : shBool b = true) : shBool (andNode a b) = true := by
  unfold andNode
  split
  · next rl rr => simp only [shBool, Bool.and_eq_true] at hb ⊢; exact ⟨⟨ha, hb.1⟩, hb.2⟩
  · simp [shBool, ha, hb]

mutual
theorem bool_shaped : ∀ (t : BoolTree), t.wf = true → ∀ u, t.build = some u → shBool u = true
  | .inArr lhs w0 op w1 arr, h, u, hb => by
    simp only [BoolTree.wf, Bool.and_eq_true] at h
    simp only [BoolTree.build, Option.bind_eq_bind] at hb
    cases hl : lhs.build with
    | none => simp [hl] at hb
    | some l =>
      cases ha : arr.build with
      | none => simp [hl, ha] at hb
      | some a =>
        have h1 := lhs_shaped lhs h.1.1.1.1.1.1 l hl
        have h2 := arr_build_shape arr a ha
        simp only [hl, ha, Option.bind_some] at hb
        split at hb <;> cases hb <;> simp [shBool, shNotArg, h1, h2]
  | .between lhs w0 op w1 lo w2 a w3 hi, h, u, hb => by
    simp only [BoolTree.wf, Bool.and_eq_true] at h
    simp only [BoolTree.build, Option.bind_eq_bind] at hb
    cases hl : lhs.build with
    | none => simp [hl] at hb
    | some l =>
      cases h1 : litOfToken lo with
      | none => simp [hl, h1] at hb
      | some x =>
        cases h2 : litOfToken hi with
        | none => simp [hl, h1, h2] at hb
        | some y =>
          have s1 := lhs_shaped lhs h.1.1.1.1.1.1.1.1.1.1.1.1 l hl
          have s2 := litOfToken_rhs lo x h1
          have s3 := litOfToken_rhs hi y h2
          simp only [hl, h1, h2, Option.bind_some] at hb
          split at hb <;> cases hb <;> simp [shBool, shNotArg, s1, s2, s3]
  | .binary lhs w0 op w1 rhs, h, u, hb => by
    simp only [BoolTree.wf, Bool.and_eq_true] at h
    simp only [BoolTree.build, Option.bind_eq_bind] at hb
    cases hl : lhs.build with
    | none => simp [hl] at hb
    | some l =>
      cases h1 : litOfToken rhs with
      | none => simp [hl, h1] at hb
      | some x =>
        have s1 := lhs_shaped lhs h.1.1.1.1 l hl
        have s2 := litOfToken_rhs rhs x h1
        simp only [hl, h1, Option.bind_some] at hb
        cases hb; simp [shBool, s1, s2]
  | .group lp w0 e w1 rp, h, u, hb => by
    simp only [BoolTree.wf, Bool.and_eq_true] at h
    simp only [BoolTree.build, Option.bind_eq_bind] at hb
    cases h1 : e.build with
    | none => simp [h1] at hb
    | some x =>
      have s1 := bool_shaped e h.1.1.2 x h1
      simp only [h1, Option.bind_some] at hb
      cases hb
      exact shBool_markGrouped x s1
  | .and l w0 op w1 r, h, u, hb => by
    simp only [BoolTree.wf, Bool.and_eq_true] at h
    simp only [BoolTree.build, Option.bind_eq_bind] at hb
    cases h1 : l.build with
    | none => simp [h1] at hb
    | some a =>
      cases h2 : r.build with
      | none => simp [h1, h2] at hb
      | some b =>
        have s1 := bool_shaped l h.1.1.1.1.1.1 a h1
        have s2 := bool_shaped r h.2 b h2
        simp only [h1, h2, Option.bind_some] at hb
        cases hb; exact shBool_andNode a b s1 s2
  | .or l w0 op w1 r, h, u, hb => by
    simp only [BoolTree.wf, Bool.and_eq_true] at h
    simp only [BoolTree.build, Option.bind_eq_bind] at hb
    cases h1 : l.build with
    | none => simp [h1] at hb
    | some a =>
      cases h2 : r.build with
      | none => simp [h1, h2] at hb
      | some b =>
        have s1 := bool_shaped l h.1.1.1.1.1.1 a h1
        have s2 := bool_shaped r h.2 b h2
        simp only [h1, h2, Option.bind_some] at hb
        cases hb; simp [shBool, s1, s2]
  | .boolConst t, h, u, hb => by
    simp only [BoolTree.wf, kindIs, beq_iff_eq] at h
    simp only [BoolTree.build, litOfToken, h] at hb
    cases hp : parseBoolText t.text <;> simp [hp] at hb
    subst hb; rfl
  | .isEmpty kw lp w0 s w1 rp, h, u, hb => by
    simp only [BoolTree.wf, Bool.and_eq_true] at h
    simp only [BoolTree.build, Option.bind_eq_bind] at hb
    cases h1 : s.build with
    | none => simp [h1] at hb
    | some x =>
      have s1 := setExpr_shaped s h.1.1.2 x h1
      simp only [h1, Option.bind_some] at hb
      cases hb; simp [shBool, s1]
  | .symbol t, _, u, hb => by
    simp only [BoolTree.build] at hb; cases hb; rfl
  | .not kw w e, h, u, hb => by
    simp only [BoolTree.wf, Bool.and_eq_true] at h
    simp only [BoolTree.build, Option.bind_eq_bind] at hb
    cases h1 : e.build with
    | none => simp [h1] at hb
    | some x =>
      have s1 := bool_shaped e h.2 x h1
      simp only [h1, Option.bind_some] at hb
      cases hb; simp [shBool, s1]
theorem lhs_shaped : ∀ (t : LhsTree), t.wf = true → ∀ u, t.build = some u → shLhs u = true
  | .ident t, _, u, hb => by simp only [LhsTree.build] at hb; cases hb; rfl
  | .setFn fn lp w0 id w1 rp, h, u, hb => by
    simp only [LhsTree.wf, Bool.and_eq_true, Bool.or_eq_true, kindIs, beq_iff_eq] at h
    simp only [LhsTree.build] at hb
    cases hb
    rcases h.1.1.1.1.1 with hk | hk <;> simp [shLhs, setFnOfToken, hk, isSymU]
  | .count fn lp w0 s w1 rp, h, u, hb => by
    simp only [LhsTree.wf, Bool.and_eq_true] at h
    simp only [LhsTree.build, Option.bind_eq_bind] at hb
    cases h1 : s.build with
    | none => simp [h1] at hb
    | some x =>
      have s1 := setExpr_shaped s h.1.1.2 x h1
      simp only [h1, Option.bind_some] at hb
      cases hb; simp [shLhs, s1]
theorem setExpr_shaped : ∀ (t : SetExprTree), t.wf = true → ∀ u, t.build = some u → shSetExpr u = true
  | .ident t, _, u, hb => by simp only [SetExprTree.build] at hb; cases hb; rfl
  | .subQuery f w0 id w1 wh w2 q, h, u, hb => by
    simp only [SetExprTree.wf, Bool.and_eq_true] at h
    cases q with
    | pred e tail =>
      simp only [SetExprTree.build, Option.bind_eq_bind] at hb
      cases h1 : (QueryTree.pred e tail).build with
      | none => simp [h1] at hb
      | some x =>
        have s1 := query_shaped (.pred e tail) h.2 x h1
        simp only [h1, Option.bind_some] at hb
        cases hb; simp [shSetExpr, isSymU, s1]
    | sort s sk li => simp [SetExprTree.build] at hb
    | skip s li => simp [SetExprTree.build] at hb
    | limit l => simp [SetExprTree.build] at hb
theorem query_shaped : ∀ (t : QueryTree), t.wf = true → ∀ u, t.build = some u → shQuery u = true
  | .pred e tail, h, u, hb => by
    simp only [QueryTree.wf, Bool.and_eq_true] at h
    simp only [QueryTree.build, Option.bind_eq_bind] at hb
    cases h1 : e.build with
    | none => simp [h1] at hb
    | some p =>
      cases h2 : tailParts tail.sortBy tail.skip tail.limit with
      | none => simp [h1, h2] at hb
      | some r =>
        obtain ⟨su, a, b⟩ := r
        have s1 := bool_shaped e h.1 p h1
        simp only [h1, h2, Option.bind_some] at hb
        cases hb
        exact query_shape p su a b s1 (tailParts_shape _ _ _ su a b h2)
  | .sort s sk li, _, u, hb => by
    simp only [QueryTree.build, Option.bind_eq_bind] at hb
    cases h2 : tailParts (some ([], s)) sk li with
    | none => simp [h2] at hb
    | some r =>
      obtain ⟨su, a, b⟩ := r
      simp only [h2, Option.bind_some] at hb
      cases hb
      exact query_shape _ su a b rfl (tailParts_shape _ _ _ su a b h2)
  | .skip s li, _, u, hb => by
    simp only [QueryTree.build, Option.bind_eq_bind] at hb
    cases h2 : tailParts none (some ([], s)) li with
    | none => simp [h2] at hb
    | some r =>
      obtain ⟨su, a, b⟩ := r
      simp only [h2, Option.bind_some] at hb
      cases hb
      exact query_shape _ su a b rfl (tailParts_shape _ _ _ su a b h2)
  | .limit l, _, u, hb => by
    simp only [QueryTree.build, Option.bind_eq_bind] at hb
    cases h2 : tailParts none none (some ([], l)) with
    | none => simp [h2] at hb
    | some r =>
      obtain ⟨su, a, b⟩ := r
      simp only [h2, Option.bind_some] at hb
      cases hb
      exact query_shape _ su a b rfl (tailParts_shape _ _ _ su a b h2)
end

end StorageModel.C10
