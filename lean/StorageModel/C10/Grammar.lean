import StorageModel.C10.Lex
/-
  C10 — reference recogniser for the parser rules of zitiql/ZitiQl.g4.

  `Tree`s are derivations: one constructor per production (the `(WS+ AND WS+ boolExpr)+` /
  `(WS+ OR WS+ boolExpr)+` loops instantiated with one iteration and a right operand that
  extends as far as possible — what the generated parser builds), leaves are the tokens
  themselves, white-space runs included, so `yield` gives back the exact token list.
  `parseStart` is a deterministic recursive-descent parser over the token list (white space
  is a token in this grammar); `wf` states the token-kind side conditions of each production.
-/
namespace StorageModel.C10

abbrev WSs := List Token

def isWS (t : Token) : Bool := t.kind == .WS
def allWS (w : WSs) : Bool := w.all isWS

inductive ArrKind where | str | num | dt
deriving DecidableEq, Repr

def ArrKind.tk : ArrKind → TK
  | .str => .STRING | .num => .NUMBER | .dt => .DATETIME

/-- `LBRACKET WS* X (WS* ',' WS* X)* WS* RBRACKET` -/
structure ArrTree where
  kind : ArrKind
  lb : Token
  w0 : WSs
  first : Token
  more : List (WSs × Token × WSs × Token)   -- WS* ',' WS* X
  w1 : WSs
  rb : Token
deriving Repr

/-- `IDENTIFIER (WS+ (ASC | DESC))?` -/
structure SortFieldTree where
  ident : Token
  dir : Option (WSs × Token)
deriving Repr

/-- `SORT WS+ BY WS+ sortField (WS* ',' WS* sortField)*` -/
structure SortByTree where
  sort : Token
  w0 : WSs
  by_ : Token
  w1 : WSs
  first : SortFieldTree
  more : List (WSs × Token × WSs × SortFieldTree)
deriving Repr

/-- `SKIP_ROWS WS+ NUMBER` / `LIMIT_ROWS WS+ (NONE|NUMBER)` -/
structure KwNumTree where
  kw : Token
  w : WSs
  arg : Token
deriving Repr

/-- the optional tail of a query: `(WS+ sortBy)? (WS+ skip)? (WS+ limit)?` -/
structure TailTree where
  sortBy : Option (WSs × SortByTree)
  skip : Option (WSs × KwNumTree)
  limit : Option (WSs × KwNumTree)
deriving Repr

mutual
inductive BoolTree where
  /-- `binaryLhs WS+ IN WS+ xArray` -/
  | inArr (lhs : LhsTree) (w0 : WSs) (op : Token) (w1 : WSs) (arr : ArrTree)
  /-- `binaryLhs WS+ BETWEEN WS+ X WS+ AND WS+ X` (X = NUMBER or DATETIME, both the same) -/
  | between (lhs : LhsTree) (w0 : WSs) (op : Token) (w1 : WSs) (lo : Token) (w2 : WSs) (and_ : Token)
      (w3 : WSs) (hi : Token)
  /-- `binaryLhs WS* (LT|GT|EQ) WS* rhs` and `binaryLhs WS* (CONTAINS|ICONTAINS) WS+ rhs` -/
  | binary (lhs : LhsTree) (w0 : WSs) (op : Token) (w1 : WSs) (rhs : Token)
  | group (lp : Token) (w0 : WSs) (e : BoolTree) (w1 : WSs) (rp : Token)
  | and (l : BoolTree) (w0 : WSs) (op : Token) (w1 : WSs) (r : BoolTree)
  | or (l : BoolTree) (w0 : WSs) (op : Token) (w1 : WSs) (r : BoolTree)
  | boolConst (t : Token)
  | isEmpty (kw lp : Token) (w0 : WSs) (s : SetExprTree) (w1 : WSs) (rp : Token)
  | symbol (t : Token)
  | not (kw : Token) (w : WSs) (e : BoolTree)
inductive LhsTree where
  | ident (t : Token)
  /-- `ALL_OF|ANY_OF LPAREN WS* IDENTIFIER WS* RPAREN` -/
  | setFn (fn lp : Token) (w0 : WSs) (id : Token) (w1 : WSs) (rp : Token)
  /-- `COUNT LPAREN WS* setExpr WS* RPAREN` -/
  | count (fn lp : Token) (w0 : WSs) (s : SetExprTree) (w1 : WSs) (rp : Token)
inductive SetExprTree where
  | ident (t : Token)
  /-- `FROM WS+ IDENTIFIER WS+ WHERE WS+ query` -/
  | subQuery (from_ : Token) (w0 : WSs) (id : Token) (w1 : WSs) (where_ : Token) (w2 : WSs) (q : QueryTree)
inductive QueryTree where
  /-- `boolExpr (WS+ sortBy)? (WS+ skip)? (WS+ limit)?` -/
  | pred (e : BoolTree) (tail : TailTree)
  /-- `sortBy (WS+ skip)? (WS+ limit)?` -/
  | sort (s : SortByTree) (skip : Option (WSs × KwNumTree)) (limit : Option (WSs × KwNumTree))
  /-- `skip (WS+ limit)?` -/
  | skip (s : KwNumTree) (limit : Option (WSs × KwNumTree))
  | limit (l : KwNumTree)
end

/-- `start: WS* query WS* EOF` -/
structure StartTree where
  w0 : WSs
  q : QueryTree
  w1 : WSs

/-! ## yield -/

def ArrTree.yield (a : ArrTree) : List Token :=
  a.lb :: a.w0 ++ a.first :: (a.more.flatMap fun m => m.1 ++ m.2.1 :: m.2.2.1 ++ [m.2.2.2]) ++ a.w1 ++ [a.rb]

def SortFieldTree.yield (f : SortFieldTree) : List Token :=
  f.ident :: (match f.dir with | none => [] | some (w, d) => w ++ [d])

def SortByTree.yield (s : SortByTree) : List Token :=
  s.sort :: s.w0 ++ s.by_ :: s.w1 ++ s.first.yield ++
    (s.more.flatMap fun m => m.1 ++ m.2.1 :: m.2.2.1 ++ m.2.2.2.yield)

def KwNumTree.yield (k : KwNumTree) : List Token := k.kw :: k.w ++ [k.arg]

def optYield {α} (f : α → List Token) : Option (WSs × α) → List Token
  | none => []
  | some (w, a) => w ++ f a

def TailTree.yield (t : TailTree) : List Token :=
  optYield SortByTree.yield t.sortBy ++ optYield KwNumTree.yield t.skip ++ optYield KwNumTree.yield t.limit

mutual
def BoolTree.yield : BoolTree → List Token
  | .inArr lhs w0 op w1 arr => lhs.yield ++ w0 ++ op :: w1 ++ arr.yield
  | .between lhs w0 op w1 lo w2 a w3 hi => lhs.yield ++ w0 ++ op :: w1 ++ lo :: w2 ++ a :: w3 ++ [hi]
  | .binary lhs w0 op w1 rhs => lhs.yield ++ w0 ++ op :: w1 ++ [rhs]
  | .group lp w0 e w1 rp => lp :: w0 ++ e.yield ++ w1 ++ [rp]
  | .and l w0 op w1 r => l.yield ++ w0 ++ op :: w1 ++ r.yield
  | .or l w0 op w1 r => l.yield ++ w0 ++ op :: w1 ++ r.yield
  | .boolConst t => [t]
  | .isEmpty kw lp w0 s w1 rp => kw :: lp :: w0 ++ s.yield ++ w1 ++ [rp]
  | .symbol t => [t]
  | .not kw w e => kw :: w ++ e.yield
def LhsTree.yield : LhsTree → List Token
  | .ident t => [t]
  | .setFn fn lp w0 id w1 rp => fn :: lp :: w0 ++ id :: w1 ++ [rp]
  | .count fn lp w0 s w1 rp => fn :: lp :: w0 ++ s.yield ++ w1 ++ [rp]
def SetExprTree.yield : SetExprTree → List Token
  | .ident t => [t]
  | .subQuery f w0 id w1 wh w2 q => f :: w0 ++ id :: w1 ++ wh :: w2 ++ q.yield
def QueryTree.yield : QueryTree → List Token
  | .pred e tail => e.yield ++ tail.yield
  | .sort s sk li => s.yield ++ optYield KwNumTree.yield sk ++ optYield KwNumTree.yield li
  | .skip s li => s.yield ++ optYield KwNumTree.yield li
  | .limit l => l.yield
end

def StartTree.yield (t : StartTree) : List Token := t.w0 ++ t.q.yield ++ t.w1

/-! ## the parser -/

def spanWS : List Token → WSs × List Token
  | [] => ([], [])
  | t :: ts => if isWS t then let (w, r) := spanWS ts; (t :: w, r) else ([], t :: ts)

/-- `(WS* ',' WS* X)*` for array elements of token kind `k` -/
def parseArrMore (k : TK) : Nat → List Token → List (WSs × Token × WSs × Token) × List Token
  | 0, ts => ([], ts)
  | n + 1, ts =>
    let (wa, r) := spanWS ts
    match r with
    | c :: r1 =>
      if c.kind == .COMMA then
        let (wb, r2) := spanWS r1
        match r2 with
        | x :: r3 =>
          if x.kind == k then
            let (more, r4) := parseArrMore k n r3
            ((wa, c, wb, x) :: more, r4)
          else ([], ts)
        | [] => ([], ts)
      else ([], ts)
    | [] => ([], ts)

def parseArr (ts : List Token) : Option (ArrTree × List Token) :=
  match ts with
  | lb :: r0 =>
    if lb.kind != .LBRACKET then none else
    let (w0, r1) := spanWS r0
    match r1 with
    | x :: r2 =>
      let kind? : Option ArrKind :=
        if x.kind == .STRING then some .str else if x.kind == .NUMBER then some .num
        else if x.kind == .DATETIME then some .dt else none
      match kind? with
      | none => none
      | some kind =>
        let (more, r3) := parseArrMore kind.tk r2.length r2
        let (w1, r4) := spanWS r3
        match r4 with
        | rb :: r5 => if rb.kind == .RBRACKET then some (⟨kind, lb, w0, x, more, w1, rb⟩, r5) else none
        | [] => none
    | [] => none
  | [] => none

def parseSortField (ts : List Token) : Option (SortFieldTree × List Token) :=
  match ts with
  | id :: r =>
    if id.kind != .IDENTIFIER then none else
    let (w, r1) := spanWS r
    match r1 with
    | d :: r2 =>
      if !w.isEmpty && (d.kind == .ASC || d.kind == .DESC) then some (⟨id, some (w, d)⟩, r2)
      else some (⟨id, none⟩, r)
    | [] => some (⟨id, none⟩, r)
  | [] => none

def parseSortMore : Nat → List Token → List (WSs × Token × WSs × SortFieldTree) × List Token
  | 0, ts => ([], ts)
  | n + 1, ts =>
    let (wa, r) := spanWS ts
    match r with
    | c :: r1 =>
      if c.kind == .COMMA then
        let (wb, r2) := spanWS r1
        match parseSortField r2 with
        | some (f, r3) =>
          let (more, r4) := parseSortMore n r3
          ((wa, c, wb, f) :: more, r4)
        | none => ([], ts)
      else ([], ts)
    | [] => ([], ts)

def parseSortBy (ts : List Token) : Option (SortByTree × List Token) :=
  match ts with
  | s :: r0 =>
    if s.kind != .SORT then none else
    let (w0, r1) := spanWS r0
    if w0.isEmpty then none else
    match r1 with
    | b :: r2 =>
      if b.kind != .BY then none else
      let (w1, r3) := spanWS r2
      if w1.isEmpty then none else
      match parseSortField r3 with
      | some (f, r4) =>
        let (more, r5) := parseSortMore r4.length r4
        some (⟨s, w0, b, w1, f, more⟩, r5)
      | none => none
    | [] => none
  | [] => none

/-- `kw WS+ arg` where `arg` has one of the kinds `ks` -/
def parseKwNum (kw : TK) (ks : List TK) (ts : List Token) : Option (KwNumTree × List Token) :=
  match ts with
  | k :: r0 =>
    if k.kind != kw then none else
    let (w, r1) := spanWS r0
    if w.isEmpty then none else
    match r1 with
    | a :: r2 => if ks.contains a.kind then some (⟨k, w, a⟩, r2) else none
    | [] => none
  | [] => none

def parseSkip := parseKwNum .SKIP_ROWS [.NUMBER]
def parseLimit := parseKwNum .LIMIT_ROWS [.NONE, .NUMBER]

/-- `(WS+ X)?` : taken exactly when white space is followed by the token kind `first` that starts X -/
def parseOptWs {α} (first : TK) (p : List Token → Option (α × List Token)) (ts : List Token) :
    Option (Option (WSs × α) × List Token) :=
  let (w, r) := spanWS ts
  match r with
  | t :: _ =>
    if !w.isEmpty && t.kind == first then
      match p r with
      | some (a, r') => some (some (w, a), r')
      | none => none     -- committed: nothing else can follow WS+ `first`
    else some (none, ts)
  | [] => some (none, ts)

def parseTail (ts : List Token) : Option (TailTree × List Token) :=
  match parseOptWs .SORT parseSortBy ts with
  | none => none
  | some (sb, r1) =>
    match parseOptWs .SKIP_ROWS parseSkip r1 with
    | none => none
    | some (sk, r2) =>
      match parseOptWs .LIMIT_ROWS parseLimit r2 with
      | none => none
      | some (li, r3) => some (⟨sb, sk, li⟩, r3)

def rhsOk (op rhs : TK) : Bool :=
  match op with
  | .LT | .GT => rhs == .STRING || rhs == .NUMBER || rhs == .DATETIME
  | .EQ => rhs == .STRING || rhs == .NUMBER || rhs == .DATETIME || rhs == .BOOL || rhs == .NULL
  | .CONTAINS => rhs == .STRING || rhs == .NUMBER
  | .ICONTAINS => rhs == .STRING
  | _ => false

/-- the rest of an `operation` after its `binaryLhs` -/
def parseOpRest (lhs : LhsTree) (ts : List Token) : Option (BoolTree × List Token) :=
  let (w0, r0) := spanWS ts
  match r0 with
  | op :: r1 =>
    let (w1, r2) := spanWS r1
    match op.kind with
    | .IN =>
      if w0.isEmpty || w1.isEmpty then none else
      match parseArr r2 with
      | some (arr, r3) => some (.inArr lhs w0 op w1 arr, r3)
      | none => none
    | .BETWEEN =>
      if w0.isEmpty || w1.isEmpty then none else
      match r2 with
      | lo :: r3 =>
        if lo.kind != .NUMBER && lo.kind != .DATETIME then none else
        let (w2, r4) := spanWS r3
        match r4 with
        | a :: r5 =>
          let (w3, r6) := spanWS r5
          match r6 with
          | hi :: r7 =>
            if a.kind == .AND && !w2.isEmpty && !w3.isEmpty && hi.kind == lo.kind then
              some (.between lhs w0 op w1 lo w2 a w3 hi, r7)
            else none
          | [] => none
        | [] => none
      | [] => none
    | .LT | .GT | .EQ =>
      match r2 with
      | rhs :: r3 => if rhsOk op.kind rhs.kind then some (.binary lhs w0 op w1 rhs, r3) else none
      | [] => none
    | .CONTAINS | .ICONTAINS =>
      if w1.isEmpty then none else
      match r2 with
      | rhs :: r3 => if rhsOk op.kind rhs.kind then some (.binary lhs w0 op w1 rhs, r3) else none
      | [] => none
    | _ => none
  | [] => none

/-- does an operation continue after an IDENTIFIER? (otherwise the identifier is a BoolSymbol) -/
def opFollows (ts : List Token) : Bool :=
  let (w, r) := spanWS ts
  match r with
  | t :: _ =>
    match t.kind with
    | .LT | .GT | .EQ | .CONTAINS | .ICONTAINS => true
    | .IN | .BETWEEN => !w.isEmpty
    | _ => false
  | [] => false

mutual
def parseBool : Nat → List Token → Option (BoolTree × List Token)
  | 0, _ => none
  | n + 1, ts =>
    match parsePrimary n ts with
    | none => none
    | some (l, r) =>
      let (w0, r1) := spanWS r
      match r1 with
      | op :: r2 =>
        if !w0.isEmpty && (op.kind == .AND || op.kind == .OR) then
          let (w1, r3) := spanWS r2
          if w1.isEmpty then none else
          match parseBool n r3 with
          | some (rt, r4) =>
            if op.kind == .AND then some (.and l w0 op w1 rt, r4) else some (.or l w0 op w1 rt, r4)
          | none => none
        else some (l, r)
      | [] => some (l, r)
def parsePrimary : Nat → List Token → Option (BoolTree × List Token)
  | 0, _ => none
  | n + 1, ts =>
    match ts with
    | [] => none
    | t :: r =>
      match t.kind with
      | .LPAREN =>
        let (w0, r1) := spanWS r
        match parseBool n r1 with
        | some (e, r2) =>
          let (w1, r3) := spanWS r2
          match r3 with
          | rp :: r4 => if rp.kind == .RPAREN then some (.group t w0 e w1 rp, r4) else none
          | [] => none
        | none => none
      | .BOOL => some (.boolConst t, r)
      | .ISEMPTY =>
        match r with
        | lp :: r1 =>
          if lp.kind != .LPAREN then none else
          let (w0, r2) := spanWS r1
          match parseSetExpr n r2 with
          | some (s, r3) =>
            let (w1, r4) := spanWS r3
            match r4 with
            | rp :: r5 => if rp.kind == .RPAREN then some (.isEmpty t lp w0 s w1 rp, r5) else none
            | [] => none
          | none => none
        | [] => none
      | .NOT =>
        let (w, r1) := spanWS r
        if w.isEmpty then none else
        match parseBool n r1 with
        | some (e, r2) => some (.not t w e, r2)
        | none => none
      | .IDENTIFIER =>
        if opFollows r then parseOpRest (.ident t) r else some (.symbol t, r)
      | .ALL_OF | .ANY_OF =>
        match r with
        | lp :: r1 =>
          if lp.kind != .LPAREN then none else
          let (w0, r2) := spanWS r1
          match r2 with
          | id :: r3 =>
            if id.kind != .IDENTIFIER then none else
            let (w1, r4) := spanWS r3
            match r4 with
            | rp :: r5 => if rp.kind == .RPAREN then parseOpRest (.setFn t lp w0 id w1 rp) r5 else none
            | [] => none
          | [] => none
        | [] => none
      | .COUNT =>
        match r with
        | lp :: r1 =>
          if lp.kind != .LPAREN then none else
          let (w0, r2) := spanWS r1
          match parseSetExpr n r2 with
          | some (s, r3) =>
            let (w1, r4) := spanWS r3
            match r4 with
            | rp :: r5 => if rp.kind == .RPAREN then parseOpRest (.count t lp w0 s w1 rp) r5 else none
            | [] => none
          | none => none
        | [] => none
      | _ => none
def parseSetExpr : Nat → List Token → Option (SetExprTree × List Token)
  | 0, _ => none
  | n + 1, ts =>
    match ts with
    | [] => none
    | t :: r =>
      match t.kind with
      | .IDENTIFIER => some (.ident t, r)
      | .FROM =>
        let (w0, r1) := spanWS r
        if w0.isEmpty then none else
        match r1 with
        | id :: r2 =>
          if id.kind != .IDENTIFIER then none else
          let (w1, r3) := spanWS r2
          if w1.isEmpty then none else
          match r3 with
          | wh :: r4 =>
            if wh.kind != .WHERE then none else
            let (w2, r5) := spanWS r4
            if w2.isEmpty then none else
            match parseQuery n r5 with
            | some (q, r6) => some (.subQuery t w0 id w1 wh w2 q, r6)
            | none => none
          | [] => none
        | [] => none
      | _ => none
def parseQuery : Nat → List Token → Option (QueryTree × List Token)
  | 0, _ => none
  | n + 1, ts =>
    match ts with
    | [] => none
    | t :: _ =>
      match t.kind with
      | .SORT =>
        match parseSortBy ts with
        | none => none
        | some (s, r1) =>
          match parseOptWs .SKIP_ROWS parseSkip r1 with
          | none => none
          | some (sk, r2) =>
            match parseOptWs .LIMIT_ROWS parseLimit r2 with
            | none => none
            | some (li, r3) => some (.sort s sk li, r3)
      | .SKIP_ROWS =>
        match parseSkip ts with
        | none => none
        | some (s, r1) =>
          match parseOptWs .LIMIT_ROWS parseLimit r1 with
          | none => none
          | some (li, r2) => some (.skip s li, r2)
      | .LIMIT_ROWS =>
        match parseLimit ts with
        | none => none
        | some (l, r1) => some (.limit l, r1)
      | _ =>
        match parseBool n ts with
        | none => none
        | some (e, r1) =>
          match parseTail r1 with
          | none => none
          | some (tail, r2) => some (.pred e tail, r2)
end

/-- `start: WS* query WS* EOF` -/
def parseStart (ts : List Token) : Option StartTree :=
  let (w0, r0) := spanWS ts
  match parseQuery (2 * ts.length + 4) r0 with
  | none => none
  | some (q, r1) =>
    let (w1, r2) := spanWS r1
    if r2.isEmpty then some ⟨w0, q, w1⟩ else none

end StorageModel.C10
