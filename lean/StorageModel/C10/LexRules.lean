import StorageModel.C10.G4
import StorageModel.C10.Grammar
import StorageModel.Generated.C10Lexer
/-
  C10 — the reference lexer of THIS grammar file: the rule table is compiled from
  `Generated.C10.g4Rules` (zitiql/ZitiQl.g4 as re-read by /verif/extract on every run), not written
  by hand.  If the grammar file cannot be compiled (unknown reference, recursive lexer rule, a
  token the model has no name for) the table is empty and `GoodTable rules` fails.
-/
namespace StorageModel.C10

def rules : List (TK × Pat) := (G4.compileLexer Generated.C10.g4Rules).getD []

def pick (s : List Char) : Option (TK × List Char) := pickFrom s rules

def lexAux : Nat → List Char → Nat → Except Nat (List Token) := lexAuxWith rules

def lex (s : List Char) : Except Nat (List Token) := lexWith rules s

/-- the reference recogniser on strings: lex, then parse to end of input -/
def accepts (s : List Char) : Bool :=
  match lex s with
  | .ok ts => (parseStart ts).isSome
  | .error _ => false

end StorageModel.C10
