import StorageModel.C10.Eval
import StorageModel.Base.Bytes
/-
  C10 — the trace a visitor sees when walking the typed tree (`Query.Accept`), i.e. which Go
  node class the transformation selected at every position.  Only observation, used by the
  driver; callbacks with unexported parameter types (queryNode, subQueryNode) are not visible
  to the harness and are left out here too.
-/
namespace StorageModel.C10

def nodeTypeNum : NodeType → Nat
  | .bool => 0 | .datetime => 1 | .float64 => 2 | .int64 => 3 | .string => 4 | .anyType => 5 | .other => 6

def symKNodeType : SymK → NodeType
  | .bool => .bool | .datetime => .datetime | .float64 => .float64 | .int64 => .int64 | .string => .string
  | .anyType => .anyType

def symKName : SymK → String
  | .bool => "BoolSymbolNode" | .datetime => "DatetimeSymbolNode" | .float64 => "Float64SymbolNode"
  | .int64 => "Int64SymbolNode" | .string => "StringSymbolNode" | .anyType => "AnyTypeSymbolNode"

def wireName (n : Name) : String := Bytes.toWire (Bytes.ofString (String.ofList n))

def symTrace (k : SymK) (n : Name) : List String :=
  [s!"Symbol:{wireName n}:{nodeTypeNum (symKNodeType k)}", symKName k]

def litTrace : Lit → String
  | .str _ => "StringConstNode" | .int _ => "Int64ConstNode" | .flt _ => "Float64ConstNode"
  | .dt _ => "DatetimeConstNode"

def arrTrace (kind : String) (l : List Lit) : List String :=
  (kind ++ "ArrayNodeStart") :: l.map litTrace ++ [kind ++ "ArrayNodeEnd"]

def T.trace : T → List String
  | .boolC _ => ["BoolConstNode"]
  | .lit l => [litTrace l]
  | .nullC => ["NullConstNode"]
  | .strArr l => arrTrace "String" l
  | .intArr l => arrTrace "Int64" (l.map .int)
  | .fltArr l => arrTrace "Float64" (l.map .flt)
  | .dtArr l => arrTrace "Datetime" (l.map .dt)
  | .symT k n => symTrace k n
  | .setFnT _ s => "SetFunctionNodeStart" :: s.trace ++ ["SetFunctionNodeEnd"]
  | .subQueryT s q => s.trace ++ q.trace
  | .i2f w => "Int64ToFloat64NodeStart" :: w.trace ++ ["Int64ToFloat64NodeEnd"]
  | .strFunc e => "StringFuncNodeStart" :: e.trace ++ ["StringFuncNodeEnd"]
  | .countSet s => "CountSetExprNodeStart" :: s.trace ++ ["CountSetExprNodeEnd"]
  | .countSetQ s q => "CountSetExprNodeStart" :: s.trace ++ q.trace ++ ["CountSetExprNodeEnd"]
  | .isEmptySet s => "IsEmptySetExprNodeStart" :: s.trace ++ ["IsEmptySetExprNodeEnd"]
  | .isEmptySetQ s q => "IsEmptySetExprNodeStart" :: s.trace ++ q.trace ++ ["IsEmptySetExprNodeEnd"]
  | .notE e => "NotExprNodeStart" :: e.trace ++ ["NotExprNodeEnd"]
  | .andE l r => "AndExprNodeStart" :: l.trace ++ r.trace ++ ["AndExprNodeEnd"]
  | .orE l r => "OrExprNodeStart" :: l.trace ++ r.trace ++ ["OrExprNodeEnd"]
  | .binBool _ l r => "BinaryBoolExprNodeStart" :: l.trace ++ r.trace ++ ["BinaryBoolExprNodeEnd"]
  | .binDt _ l r => "BinaryDatetimeExprNodeStart" :: l.trace ++ r.trace ++ ["BinaryDatetimeExprNodeEnd"]
  | .binFlt _ l r => "BinaryFloat64ExprNodeStart" :: l.trace ++ r.trace ++ ["BinaryFloat64ExprNodeEnd"]
  | .binInt _ l r => "BinaryInt64ExprNodeStart" :: l.trace ++ r.trace ++ ["BinaryInt64ExprNodeEnd"]
  | .binStr _ l r => "BinaryStringExprNodeStart" :: l.trace ++ r.trace ++ ["BinaryStringExprNodeEnd"]
  | .isNil s _ => "IsNilExprNodeStart" :: s.trace ++ ["IsNilExprNodeEnd"]
  | .intBtw l lo hi => "Int64BetweenExprNodeStart" :: l.trace ++ lo.trace ++ hi.trace ++ ["Int64BetweenExprNodeEnd"]
  | .fltBtw l lo hi => "Float64BetweenExprNodeStart" :: l.trace ++ lo.trace ++ hi.trace ++ ["Float64BetweenExprNodeEnd"]
  | .dtBtw l lo hi => "DatetimeBetweenExprNodeStart" :: l.trace ++ lo.trace ++ hi.trace ++ ["DatetimeBetweenExprNodeEnd"]
  | .inStr l arr => "InStringArrayExprNodeStart" :: l.trace ++ arrTrace "String" arr ++ ["InStringArrayExprNodeEnd"]
  | .inInt l arr => "InInt64ArrayExprNodeStart" :: l.trace ++ arrTrace "Int64" arr ++ ["InInt64ArrayExprNodeEnd"]
  | .inFlt l arr => "InFloat64ArrayExprNodeStart" :: l.trace ++ arrTrace "Float64" arr ++ ["InFloat64ArrayExprNodeEnd"]
  | .inDt l arr => "InDatetimeArrayExprNodeStart" :: l.trace ++ arrTrace "Datetime" arr ++ ["InDatetimeArrayExprNodeEnd"]
  | .allOf _ p => "AllOfSetExprNodeStart" :: p.trace ++ ["AllOfSetExprNodeEnd"]
  | .anyOf _ p _ => "AnyOfSetExprNodeStart" :: p.trace ++ ["AnyOfSetExprNodeEnd"]
  | .query p sort skip limit =>
    p.trace ++
    (match sort with
      | none => []
      | some fields => fields.flatMap (fun f => symTrace f.1 f.2.1 ++ ["SortFieldNode"]) ++ ["SortByNode"]) ++
    (if skip.isSome then ["SkipExprNode"] else []) ++ (if limit.isSome then ["LimitExprNode"] else [])

end StorageModel.C10
