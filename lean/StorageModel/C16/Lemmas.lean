import StorageModel.C16.Model
/-
  C16 — helper lemmas: equations for transaction bodies and for each operation, the batch delete
  behind cascade / DeleteWhere, the ghost "flag at creation", the abstraction to the spec.
-/
set_option linter.unusedSectionVars false
set_option linter.unusedSimpArgs false
set_option linter.unnecessarySimpa false

namespace StorageModel.C16

/-! ### maps -/

namespace Map
variable {κ ν : Type} [DecidableEq κ]

theorem delAll_nil (m : Map κ ν) : delAll m [] = m := by
  unfold delAll
  induction m with
  | nil => rfl
  | cons p m ih => simp [List.filter]

theorem delAll_cons (m : Map κ ν) (k : κ) (ks : List κ) : delAll m (k :: ks) = delAll (del m k) ks := by
  unfold delAll del
  induction m with
  | nil => rfl
  | cons p m ih =>
    by_cases h : p.1 = k
    · simp [List.filter, h]
      simpa [List.filter] using ih
    · by_cases h2 : p.1 ∈ ks
      · simp [List.filter, h, h2]
        simpa [List.filter] using ih
      · simp [List.filter, h, h2]
        simpa [List.filter] using ih

theorem get_delAll (m : Map κ ν) (ks : List κ) (k : κ) :
    get (delAll m ks) k = if k ∈ ks then none else get m k := by
  induction ks generalizing m with
  | nil => simp [delAll_nil]
  | cons a ks ih =>
    rw [delAll_cons, ih, get_del]
    by_cases h1 : k ∈ ks
    · simp [h1]
    · by_cases h2 : a = k
      · simp [h2]
      · have : ¬ k = a := fun h => h2 h.symm
        simp [h1, h2, this]

theorem get_some_mem {m : Map κ ν} {k : κ} {v : ν} (h : get m k = some v) : (k, v) ∈ m := by
  induction m with
  | nil => simp [get] at h
  | cons p m ih =>
    obtain ⟨a, w⟩ := p
    by_cases ha : a = k
    · simp [get, ha] at h; simp [ha, h]
    · simp only [get, ha, if_false] at h
      exact List.mem_cons_of_mem _ (ih h)

theorem mem_del {m : Map κ ν} {k : κ} {p : κ × ν} (h : p ∈ del m k) : p ∈ m := by
  unfold del at h; exact (List.mem_filter.mp h).1

theorem mem_delAll {m : Map κ ν} {ks : List κ} {p : κ × ν} (h : p ∈ delAll m ks) : p ∈ m := by
  unfold delAll at h; exact (List.mem_filter.mp h).1

theorem mem_put {m : Map κ ν} {k : κ} {v : ν} {p : κ × ν} (h : p ∈ put m k v) : p = (k, v) ∨ p ∈ m := by
  unfold put at h
  rcases List.mem_cons.mp h with h | h
  · exact Or.inl h
  · exact Or.inr (mem_del h)

end Map

theorem mem_insertKey {κ : Type} [KeyOrd κ] (x y : κ) (l : List κ) : y ∈ insertKey x l ↔ y = x ∨ y ∈ l := by
  induction l with
  | nil => simp [insertKey]
  | cons a l ih =>
    unfold insertKey
    split
    · simp
    · simp only [List.mem_cons, ih]
      constructor
      · rintro (h | h | h)
        · exact Or.inr (Or.inl h)
        · exact Or.inl h
        · exact Or.inr (Or.inr h)
      · rintro (h | h | h)
        · exact Or.inr (Or.inl h)
        · exact Or.inl h
        · exact Or.inr (Or.inr h)

/-- sorting neither loses nor invents an id -/
theorem mem_sortKeys {κ : Type} [KeyOrd κ] (y : κ) (l : List κ) : y ∈ sortKeys l ↔ y ∈ l := by
  induction l with
  | nil => simp [sortKeys]
  | cons a l ih => simp [sortKeys, mem_insertKey, ih]

section
variable {K N T : Type} [DecidableEq K]

/-! ### equations -/

theorem refused_eq (s : St K N T) (id : K) (sys : Bool) :
    refused s id sys = match s.ents.get id with
      | some e => e.protectedBy s.reg && !sys
      | none => false := rfl

theorem refused_sys (s : St K N T) (id : K) : refused s id true = false := by
  unfold refused; cases s.ents.get id <;> simp

theorem refused_of_get {s : St K N T} {id : K} {e : Ent K N T} (h : s.ents.get id = some e) (sys : Bool) :
    refused s id sys = (e.protectedBy s.reg && !sys) := by
  rw [refused_eq, h]

theorem refused_of_none {s : St K N T} {id : K} (h : s.ents.get id = none) (sys : Bool) :
    refused s id sys = false := by
  rw [refused_eq, h]

@[simp] theorem putEnt_ents (s : St K N T) (id : K) (e : Ent K N T) : (s.putEnt id e).ents = s.ents.put id e := rfl
@[simp] theorem putEnt_owners (s : St K N T) (id : K) (e : Ent K N T) : (s.putEnt id e).owners = s.owners := rfl
@[simp] theorem delEnt_ents (s : St K N T) (id : K) : (s.delEnt id).ents = s.ents.del id := rfl
@[simp] theorem delEnt_owners (s : St K N T) (id : K) : (s.delEnt id).owners = s.owners := rfl
@[simp] theorem putEnt_reg (s : St K N T) (id : K) (e : Ent K N T) : (s.putEnt id e).reg = s.reg := rfl
@[simp] theorem delEnt_reg (s : St K N T) (id : K) : (s.delEnt id).reg = s.reg := rfl

theorem protectedBy_eq (e : Ent K N T) (reg : Reg) : e.protectedBy reg = (guarded reg e && e.isSystem) := rfl

/-- an ordinary entity is protected under no registration -/
theorem protectedBy_of_not_system {e : Ent K N T} (reg : Reg) (h : e.isSystem = false) : e.protectedBy reg = false := by
  rw [protectedBy_eq, h, Bool.and_false]

theorem protectedBy_of {e : Ent K N T} {reg : Reg} (hg : guarded reg e = true) (hs : e.isSystem = true) :
    e.protectedBy reg = true := by
  rw [protectedBy_eq, hg, hs]; rfl

/-- with the constraint on S every entity is looked at; with the constraint on C those with child data -/
theorem guarded_onS {reg : Reg} (h : reg.onS = true) (e : Ent K N T) : guarded reg e = true := by
  unfold guarded; rw [h]; rfl

theorem guarded_onC {reg : Reg} (h : reg.onC = true) {e : Ent K N T} (hl : e.level.isSome = true) :
    guarded reg e = true := by
  unfold guarded; rw [h, hl]; simp

/-! ### what the persist step writes -/

theorem persist_update_flag (v : Vals K N T) (sn st so : Bool) (e : Ent K N T) :
    (persist false v sn st so e).flag = e.flag := by
  unfold persist setBaseValues updateBaseValues
  cases sn <;> cases so <;> simp

theorem persist_update_level (v : Vals K N T) (sn st so : Bool) (e : Ent K N T) :
    (persist false v sn st so e).level = e.level := by
  unfold persist setBaseValues updateBaseValues
  cases sn <;> cases so <;> simp

theorem persist_update_peers (v : Vals K N T) (sn st so : Bool) (e : Ent K N T) :
    (persist false v sn st so e).peers = e.peers := by
  unfold persist setBaseValues updateBaseValues
  cases sn <;> cases so <;> simp

/-- **`UpdateBaseValues` never writes the flag**, whatever the entity carries (IsSystem, Migrate,
    timestamps, tags, owner) and whatever the checker lets through — through S or through the child store -/
theorem updEnt_flag (v : Vals K N T) (sn st so : Bool) (lvl : Option (Bool × N)) (e : Ent K N T) :
    (updEnt v sn st so lvl e).flag = e.flag := by
  unfold updEnt
  rcases lvl with _ | ⟨b, l⟩
  · exact persist_update_flag ..
  · cases b
    · exact persist_update_flag ..
    · simp only; exact persist_update_flag ..

theorem updEnt_isSystem (v : Vals K N T) (sn st so : Bool) (lvl : Option (Bool × N)) (e : Ent K N T) :
    (updEnt v sn st so lvl e).isSystem = e.isSystem := by
  unfold Ent.isSystem; rw [updEnt_flag]

theorem updEnt_peers (v : Vals K N T) (sn st so : Bool) (lvl : Option (Bool × N)) (e : Ent K N T) :
    (updEnt v sn st so lvl e).peers = e.peers := by
  unfold updEnt
  rcases lvl with _ | ⟨b, l⟩
  · exact persist_update_peers ..
  · cases b
    · exact persist_update_peers ..
    · simp only; exact persist_update_peers ..

theorem persist_create_flag (v : Vals K N T) (e : Ent K N T) :
    (persist true v true true true e).flag = if v.flag then some true else e.flag := by
  unfold persist setBaseValues createBaseValues
  cases hf : v.flag <;> cases hm : v.migrate <;> simp

/-- `CreateBaseValues` writes the key only when the entity carries the flag: re-run on an existing
    bucket (child-store create over an existing parent) it can set the flag, never clear it -/
theorem mkEnt_flag (v : Vals K N T) (lvl : Option N) (e : Ent K N T) :
    (mkEnt v lvl e).flag = if v.flag then some true else e.flag := by
  unfold mkEnt
  cases lvl <;> simp only <;> exact persist_create_flag v e

theorem mkEnt_isSystem (v : Vals K N T) (lvl : Option N) (e : Ent K N T) :
    (mkEnt v lvl e).isSystem = (v.flag || e.isSystem) := by
  unfold Ent.isSystem; rw [mkEnt_flag]
  cases v.flag <;> simp

theorem blankEnt_isSystem (n : N) : (blankEnt n : Ent K N T).isSystem = false := rfl

theorem unlinkEnt_isSystem (o : K) (e : Ent K N T) : (unlinkEnt o e).isSystem = e.isSystem := rfl

theorem get_unlinkAll (m : Map K (Ent K N T)) (o k : K) :
    (unlinkAll m o).get k = (m.get k).map (unlinkEnt o) := by
  induction m with
  | nil => rfl
  | cons p m ih =>
    obtain ⟨a, e⟩ := p
    unfold unlinkAll at ih ⊢
    by_cases h : a = k
    · simp [Map.get, h]
    · simp only [List.map_cons, Map.get, h, if_false]; exact ih

/-! ### the batch delete behind the cascade and `DeleteWhere` -/

theorem delMany_nil (sys : Bool) (s : St K N T) : delMany sys s [] = (s, none) := rfl

theorem delMany_cons (sys : Bool) (s : St K N T) (id : K) (ids : List K) :
    delMany sys s (id :: ids) =
      if refused s id sys then (s, some .sysDelete) else delMany sys (s.delEnt id) ids := rfl

theorem refused_delEnt {s : St K N T} {id : K} {sys : Bool} (h : refused s id sys = false) (y : K) :
    refused (s.delEnt id) y sys = refused s y sys := by
  rw [refused_eq, refused_eq, delEnt_ents, Map.get_del]
  by_cases hy : id = y
  · subst hy
    rw [refused_eq] at h
    simp only [if_true]
    cases hg : s.ents.get id with
    | none => rfl
    | some e => rw [hg] at h; exact h.symm
  · simp [hy]

theorem refused_delEnt_fun {s : St K N T} {id : K} {sys : Bool} (h : refused s id sys = false) :
    (fun y => refused (s.delEnt id) y sys) = (fun y => refused s y sys) := funext (refused_delEnt h)

/-- the batch fails iff it contains an entity the context may not delete … -/
theorem delMany_err (sys : Bool) (s : St K N T) (ids : List K) :
    (delMany sys s ids).2 = if ids.any (fun y => refused s y sys) then some .sysDelete else none := by
  induction ids generalizing s with
  | nil => rfl
  | cons id ids ih =>
    rw [delMany_cons]
    cases h : refused s id sys with
    | true => simp [h]
    | false =>
      simp only [Bool.false_eq_true, if_false, List.any_cons, h, Bool.false_or]
      rw [ih, refused_delEnt_fun h]

/-- … and otherwise removes exactly the listed entities (and touches nothing else) -/
theorem delMany_ok (sys : Bool) (s : St K N T) (ids : List K) (h : ids.any (fun y => refused s y sys) = false) :
    (delMany sys s ids).1 = { s with ents := s.ents.delAll ids } := by
  induction ids generalizing s with
  | nil => simp [delMany_nil, Map.delAll_nil]
  | cons id ids ih =>
    rw [delMany_cons]
    simp only [List.any_cons, Bool.or_eq_false_iff] at h
    obtain ⟨h1, h2⟩ := h
    simp only [h1, Bool.false_eq_true, if_false]
    rw [ih, Map.delAll_cons]
    · rfl
    · rw [refused_delEnt_fun h1]; exact h2

theorem delMany_owners (sys : Bool) (s : St K N T) (ids : List K) : (delMany sys s ids).1.owners = s.owners := by
  induction ids generalizing s with
  | nil => rfl
  | cons id ids ih =>
    rw [delMany_cons]
    split
    · rfl
    · rw [ih]; rfl

/-- a system context is never refused -/
theorem delMany_sys (s : St K N T) (ids : List K) : (delMany true s ids).2 = none := by
  rw [delMany_err]
  have : ids.any (fun y => refused s y true) = false := by
    induction ids with
    | nil => rfl
    | cons a l _ => simp [refused_sys]
  simp [this]

/-- **whatever an ordinary context deletes in a batch — even in the partial state a refused batch
    leaves behind — no system entity is among it** -/
theorem delMany_keeps_system (s : St K N T) (ids : List K) {x : K} {e : Ent K N T}
    (hg : s.ents.get x = some e) (hs : e.protectedBy s.reg = true) :
    (delMany false s ids).1.ents.get x = some e := by
  induction ids generalizing s with
  | nil => exact hg
  | cons id ids ih =>
    rw [delMany_cons]
    cases h : refused s id false with
    | true => simpa using hg
    | false =>
      simp only [Bool.false_eq_true, if_false]
      apply ih
      · rw [delEnt_ents, Map.get_del]
        have : id ≠ x := by
          intro hx; subst hx
          rw [refused_of_get hg, hs] at h; simp at h
        simp [this, hg]
      · exact hs

/-- a batch only ever removes entities: what is still there is what was there -/
theorem delMany_get (sys : Bool) (s : St K N T) (ids : List K) (x : K) :
    (delMany sys s ids).1.ents.get x = none ∨ (delMany sys s ids).1.ents.get x = s.ents.get x := by
  induction ids generalizing s with
  | nil => exact Or.inr rfl
  | cons id ids ih =>
    rw [delMany_cons]
    split
    · exact Or.inr rfl
    · rcases ih (s.delEnt id) with h | h
      · exact Or.inl h
      · rw [h, delEnt_ents, Map.get_del]
        by_cases hx : id = x
        · simp [hx]
        · simp [hx]

/-- on entities none of which is a system entity the context does not matter -/
theorem delMany_ctx_irrelevant (s : St K N T) (ids : List K)
    (h : ∀ y ∈ ids, ∀ e, s.ents.get y = some e → e.isSystem = false) (c1 c2 : Bool) :
    delMany c1 s ids = delMany c2 s ids := by
  induction ids generalizing s with
  | nil => rfl
  | cons id ids ih =>
    have hr : ∀ c, refused s id c = false := by
      intro c
      cases hg : s.ents.get id with
      | none => exact refused_of_none hg c
      | some e => rw [refused_of_get hg, protectedBy_of_not_system _ (h id (List.mem_cons_self ..) e hg)]; rfl
    rw [delMany_cons, delMany_cons, hr c1, hr c2]
    simp only [Bool.false_eq_true, if_false]
    apply ih
    intro y hy e he
    rw [delEnt_ents, Map.get_del] at he
    by_cases hx : id = y
    · simp [hx] at he
    · simp only [hx, if_false] at he
      exact h y (List.mem_cons_of_mem _ hy) e he

end

section
variable {K N T : Type} [DecidableEq K] [DecidableEq N] [KeyOrd K]

/-! ### transaction bodies -/

theorem runOps_nil (k : Bool) (s : St K N T) : runOps k s [] = (s, false) := rfl

theorem runOps_cons_ok {k : Bool} {s : St K N T} {op : Op K N T} {ops : List (Op K N T)} (h : (step s op).err = none) :
    runOps k s (op :: ops) = runOps k (step s op).st ops := by
  simp only [runOps, h]

theorem runOps_cons_err {k : Bool} {s : St K N T} {op : Op K N T} {ops : List (Op K N T)} {e : Err}
    (h : (step s op).err = some e) :
    runOps k s (op :: ops) =
      if k && e.ignorable then runOps k (step s op).st ops else ((step s op).st, true) := by
  simp only [runOps, h]

theorem commitTx_failed {s : St K N T} {k : Bool} {ops : List (Op K N T)} (h : (runOps k s ops).2 = true) :
    commitTx s (k, ops) = s := by
  simp only [commitTx, h, if_true]

theorem commitTx_ok {s : St K N T} {k : Bool} {ops : List (Op K N T)} (h : (runOps k s ops).2 = false) :
    commitTx s (k, ops) = (runOps k s ops).1 := by
  simp [commitTx, h]

/-! ### the operations, case by case -/

theorem createOn_eq (s : St K N T) (sys : Bool) (id : K) (v : Vals K N T) (lvl : Option N) (e0 : Ent K N T) :
    createOn s sys id v lvl e0 =
      if !ownerOk s v.owner then { st := s.putEnt id (mkEnt v lvl e0), err := some .noOwner }
      else if (mkEnt v lvl e0).protectedBy s.reg && !sys then { st := s.putEnt id (mkEnt v lvl e0), err := some .sysCreate }
      else { st := s.putEnt id (mkEnt v lvl e0) } := by
  have hr : refused (s.putEnt id (mkEnt v lvl e0)) id sys = ((mkEnt v lvl e0).protectedBy s.reg && !sys) := by
    rw [refused_eq, putEnt_ents, Map.get_put]; simp only [if_true, putEnt_reg]
  unfold createOn
  simp only [hr]

/-! ### the bucket's error holder: `ProceedWithSet` -/

/-- a setter called on a bucket whose error holder is set does nothing — for every kind of setter -/
theorem Write.run_errored (w : Write K N T) {b : Bkt K N T} (h : b.err.isSome = true) : w.run b = b := by
  have hn : b.err.isNone = false := by
    cases hb : b.err with
    | none => rw [hb] at h; cases h
    | some _ => rfl
  cases w <;> simp [Write.run, Bkt.proceedWithSet, hn]

/-- … hence a whole `PersistEntity`, whatever setters it is made of, in whatever order, with
    whatever checker: nothing is written and the error stays -/
theorem runWrites_errored (ws : List (Write K N T)) {b : Bkt K N T} (h : b.err.isSome = true) : runWrites ws b = b := by
  induction ws with
  | nil => rfl
  | cons w ws ih =>
    show runWrites ws (w.run b) = b
    rw [Write.run_errored w h]; exact ih

/-- the strategy of the universe on a clean bucket: the bucket becomes `updEnt …`, no error is raised -/
theorem runWrites_strat (v : Vals K N T) (sn st so : Bool) (lvl : Option (Bool × N)) (e : Ent K N T) :
    runWrites (stratWrites v sn st so lvl) { ent := e, err := none } =
      { ent := updEnt v sn st so lvl e, err := none, wrote := true } := by
  rcases lvl with _ | ⟨sl, l⟩ <;> cases sn <;> cases st <;> cases so <;> (try cases sl) <;> rfl

theorem updateOn_eq {s : St K N T} {id : K} {e : Ent K N T} (hg : s.ents.get id = some e) (sys : Bool)
    (v : Vals K N T) (sn st so : Bool) (lvl : Option (Bool × N)) :
    updateOn s sys id v sn st so lvl e =
      if e.protectedBy s.reg && !sys then { st := s, err := some .sysUpdate }
      else if decide ((updEnt v sn st so lvl e).owner ≠ e.owner) && !ownerOk s (updEnt v sn st so lvl e).owner then
        { st := s.putEnt id (updEnt v sn st so lvl e), err := some .noOwner }
      else { st := s.putEnt id (updEnt v sn st so lvl e) } := by
  unfold updateOn updateWith
  rw [refused_of_get hg]
  by_cases hp : (e.protectedBy s.reg && !sys) = true
  · have h0 : runWrites (stratWrites v sn st so lvl) ({ ent := e, err := some .sysUpdate } : Bkt K N T) =
        { ent := e, err := some .sysUpdate } := runWrites_errored _ rfl
    simp [hp, h0]
  · have h1 := runWrites_strat v sn st so lvl e
    simp [hp, h1]

theorem deleteOne_missing {s : St K N T} {id : K} (hg : s.ents.get id = none) (sys : Bool) :
    deleteOne s sys id = { st := s, err := some .notFound } := by
  simp [deleteOne, hg]

theorem deleteOne_found {s : St K N T} {id : K} {e : Ent K N T} (hg : s.ents.get id = some e) (sys : Bool) :
    deleteOne s sys id =
      if e.protectedBy s.reg && !sys then { st := s, err := some .sysDelete } else { st := s.delEnt id } := by
  simp only [deleteOne, hg, refused_of_get hg]

theorem step_create_blank (s : St K N T) (sys : Bool) (id : K) (v : Vals K N T) :
    step s (.create sys id true v) = { st := s, err := some .blank } := by
  simp [step]

theorem step_create_exists {s : St K N T} {id : K} {e : Ent K N T} (hg : s.ents.get id = some e) (sys : Bool)
    (v : Vals K N T) : step s (.create sys id false v) = { st := s, err := some .exists } := by
  simp [step, hg]

theorem step_create_new {s : St K N T} {id : K} (hg : s.ents.get id = none) (sys : Bool) (v : Vals K N T) :
    step s (.create sys id false v) = createOn s sys id v none (blankEnt v.name) := by
  simp [step, hg]

theorem step_ccreate_blank (s : St K N T) (sys : Bool) (id : K) (v : Vals K N T) (lvl : N) :
    step s (.ccreate sys id true v lvl) = { st := s, err := some .blank } := by
  simp [step]

theorem step_ccreate_new {s : St K N T} {id : K} (hg : s.ents.get id = none) (sys : Bool) (v : Vals K N T) (lvl : N) :
    step s (.ccreate sys id false v lvl) = createOn s sys id v (some lvl) (blankEnt v.name) := by
  simp [step, hg]

theorem step_ccreate_found {s : St K N T} {id : K} {e : Ent K N T} (hg : s.ents.get id = some e) (sys : Bool)
    (v : Vals K N T) (lvl : N) :
    step s (.ccreate sys id false v lvl) =
      if e.level.isSome then { st := s, err := some .exists } else createOn s sys id v (some lvl) e := by
  simp [step, hg]

theorem step_update_missing {s : St K N T} {id : K} (hg : s.ents.get id = none) (sys : Bool) (v : Vals K N T)
    (sn st so : Bool) : step s (.update sys id v sn st so) = { st := s, err := some .notFound } := by
  simp [step, hg]

theorem step_update_found {s : St K N T} {id : K} {e : Ent K N T} (hg : s.ents.get id = some e) (sys : Bool)
    (v : Vals K N T) (sn st so : Bool) :
    step s (.update sys id v sn st so) = updateOn s sys id v sn st so none e := by
  simp [step, hg]

theorem step_cupdate_missing {s : St K N T} {id : K} (hg : s.ents.get id = none) (sys : Bool) (v : Vals K N T)
    (sn st so sl : Bool) (lvl : N) : step s (.cupdate sys id v sn st so sl lvl) = { st := s, err := some .notFound } := by
  simp [step, hg]

theorem step_cupdate_found {s : St K N T} {id : K} {e : Ent K N T} (hg : s.ents.get id = some e) (sys : Bool)
    (v : Vals K N T) (sn st so sl : Bool) (lvl : N) :
    step s (.cupdate sys id v sn st so sl lvl) =
      if e.level.isNone then { st := s, err := some .notFound } else updateOn s sys id v sn st so (some (sl, lvl)) e := by
  simp [step, hg]

theorem step_delete (s : St K N T) (sys : Bool) (id : K) : step s (.delete sys id) = deleteOne s sys id := rfl
theorem step_cdelete (s : St K N T) (sys : Bool) (id : K) : step s (.cdelete sys id) = deleteOne s sys id := rfl

theorem step_odelete_missing {s : St K N T} {o : K} (h : o ∉ s.owners) (sys : Bool) :
    step s (.odelete sys o) = { st := s, err := some .notFound } := by
  simp [step, h]

/-- deleting an owner: refused as soon as the context may not delete one of the referring entities -/
theorem step_odelete_found {s : St K N T} {o : K} (h : o ∈ s.owners) (sys : Bool) :
    step s (.odelete sys o) =
      if (refs s o).any (fun y => refused s y sys) then
        { st := (delMany sys s (refs s o)).1, err := some .viaSysDelete }
      else { st := { s with ents := unlinkAll (s.ents.delAll (refs s o)) o, owners := s.owners.filter (· ≠ o) } } := by
  have he := delMany_err sys s (refs s o)
  simp only [step, h, if_true, cascadeCtx]
  cases ha : (refs s o).any (fun y => refused s y sys) with
  | true => rw [ha] at he; simp only [if_true] at he; simp [he]
  | false =>
    rw [ha] at he; simp only [Bool.false_eq_true, if_false] at he
    simp only [he, delMany_ok sys s _ ha, Bool.false_eq_true, if_false]

theorem step_deleteWhere (s : St K N T) (sys : Bool) (q : Query K N) :
    step s (.deleteWhere sys q) =
      if (matching s q).any (fun y => refused s y sys) then
        { st := (delMany sys s (matching s q)).1, err := some .viaSysDelete }
      else { st := { s with ents := s.ents.delAll (matching s q) } } := by
  have he := delMany_err sys s (matching s q)
  simp only [step]
  cases ha : (matching s q).any (fun y => refused s y sys) with
  | true => rw [ha] at he; simp only [if_true] at he; simp [he]
  | false =>
    rw [ha] at he; simp only [Bool.false_eq_true, if_false] at he
    simp only [he, delMany_ok sys s _ ha, Bool.false_eq_true, if_false]

theorem step_link_missing {s : St K N T} {sid : K} (hg : s.ents.get sid = none) (oid : K) :
    step s (.link sid oid) = { st := s, err := some .notFound } := by
  simp [step, hg]

theorem step_link_found {s : St K N T} {sid : K} {e : Ent K N T} (hg : s.ents.get sid = some e) (oid : K) :
    step s (.link sid oid) =
      if oid ∈ s.owners then { st := s.putEnt sid { e with peers := oid :: e.peers.filter (· ≠ oid) } }
      else { st := s.putEnt sid { e with peers := oid :: e.peers.filter (· ≠ oid) }, err := some .noOwner } := by
  simp [step, hg]

theorem step_unlink_missing {s : St K N T} {sid : K} (hg : s.ents.get sid = none) (oid : K) :
    step s (.unlink sid oid) = { st := s, err := some .notFound } := by
  simp [step, hg]

theorem step_unlink_found {s : St K N T} {sid : K} {e : Ent K N T} (hg : s.ents.get sid = some e) (oid : K) :
    step s (.unlink sid oid) = { st := s.putEnt sid (unlinkEnt oid e) } := by
  simp [step, hg]

theorem step_ocreate (s : St K N T) (id : K) (blank : Bool) :
    step s (.ocreate id blank) =
      if blank then { st := s, err := some .blank }
      else if id ∈ s.owners then { st := s, err := some .exists }
      else { st := { s with owners := id :: s.owners } } := rfl

theorem step_read (s : St K N T) (id : K) : step s (.read id) = { st := s } := rfl

theorem createOn_err_not_ignorable {s : St K N T} {sys : Bool} {id : K} {v : Vals K N T} {lvl : Option N}
    {e0 : Ent K N T} {e : Err} (h : (createOn s sys id v lvl e0).err = some e) : e.ignorable = false := by
  rw [createOn_eq] at h
  split at h
  · cases h; rfl
  · split at h
    · cases h; rfl
    · cases h

theorem updateOn_err_state {s : St K N T} {id : K} {e0 : Ent K N T} (hg : s.ents.get id = some e0) {sys : Bool}
    {v : Vals K N T} {sn st so : Bool} {lvl : Option (Bool × N)} {e : Err}
    (h : (updateOn s sys id v sn st so lvl e0).err = some e) (hi : e.ignorable = true) :
    (updateOn s sys id v sn st so lvl e0).st = s := by
  rw [updateOn_eq hg] at h ⊢
  split at h
  · rename_i hc; rw [if_pos hc]
  · split at h
    · cases h; cases hi
    · cases h

theorem deleteOne_err_state {s : St K N T} {id : K} {sys : Bool} {e : Err}
    (h : (deleteOne s sys id).err = some e) : (deleteOne s sys id).st = s := by
  cases hg : s.ents.get id with
  | none => rw [deleteOne_missing hg]
  | some e0 =>
    rw [deleteOne_found hg] at h ⊢
    split at h
    · simp [*]
    · cases h

/-- every ignorable failure (not found, exists, blank id, refused update, refused direct delete)
    leaves even the uncommitted state untouched -/
theorem step_err_state {s : St K N T} {op : Op K N T} {e : Err} (h : (step s op).err = some e)
    (hi : e.ignorable = true) : (step s op).st = s := by
  cases op with
  | create sys id blank v =>
    cases blank with
    | true => rw [step_create_blank]
    | false =>
      cases hg : s.ents.get id with
      | some e0 => rw [step_create_exists hg]
      | none =>
        rw [step_create_new hg] at h
        rw [createOn_err_not_ignorable h] at hi; cases hi
  | ccreate sys id blank v lvl =>
    cases blank with
    | true => rw [step_ccreate_blank]
    | false =>
      cases hg : s.ents.get id with
      | some e0 =>
        rw [step_ccreate_found hg] at h ⊢
        split at h
        · simp [*]
        · rw [createOn_err_not_ignorable h] at hi; cases hi
      | none =>
        rw [step_ccreate_new hg] at h
        rw [createOn_err_not_ignorable h] at hi; cases hi
  | update sys id v sn st so =>
    cases hg : s.ents.get id with
    | none => rw [step_update_missing hg]
    | some e0 =>
      rw [step_update_found hg] at h ⊢
      exact updateOn_err_state hg h hi
  | cupdate sys id v sn st so sl lvl =>
    cases hg : s.ents.get id with
    | none => rw [step_cupdate_missing hg]
    | some e0 =>
      rw [step_cupdate_found hg] at h ⊢
      split at h
      · simp [*]
      · rename_i hl; simp only [hl]; exact updateOn_err_state hg h hi
  | delete sys id => rw [step_delete] at h ⊢; exact deleteOne_err_state h
  | cdelete sys id => rw [step_cdelete] at h ⊢; exact deleteOne_err_state h
  | ocreate id blank =>
    rw [step_ocreate] at h ⊢
    split
    · rfl
    · split
      · rfl
      · rename_i h1 h2; simp [h1, h2] at h
  | odelete sys o =>
    by_cases ho : o ∈ s.owners
    · rw [step_odelete_found ho] at h
      split at h
      · cases h; cases hi
      · cases h
    · rw [step_odelete_missing ho]
  | deleteWhere sys q =>
    rw [step_deleteWhere] at h
    split at h
    · cases h; cases hi
    · cases h
  | link sid oid =>
    cases hg : s.ents.get sid with
    | none => rw [step_link_missing hg]
    | some e0 =>
      rw [step_link_found hg] at h
      split at h
      · cases h
      · cases h; cases hi
  | unlink sid oid =>
    cases hg : s.ents.get sid with
    | none => rw [step_unlink_missing hg]
    | some e0 => rw [step_unlink_found hg] at h; cases h
  | read id => rw [step_read] at h; cases h

/-! ### ghost: the flag given when an existing entity was created -/

/-- the IsSystem flag carried by the `Create` call — through S or through the child store — of
    every entity that currently exists; a child-store `Create` over an existing parent adds its flag
    to the one on record (`CreateBaseValues` re-runs on the parent bucket: it can set the key, never
    clear it) -/
def bornStep (s : St K N T) (g : Map K Bool) (op : Op K N T) : Map K Bool :=
  match (step s op).err with
  | some _ => g
  | none =>
    match op with
    | .create _ id _ v => g.put id v.flag
    | .ccreate _ id _ v _ => g.put id (v.flag || (g.get id).getD false)
    | .delete _ id => g.del id
    | .cdelete _ id => g.del id
    | .odelete _ o => g.delAll (refs s o)
    | .deleteWhere _ q => g.delAll (matching s q)
    | _ => g

def runOpsG (k : Bool) : St K N T × Map K Bool → List (Op K N T) → (St K N T × Map K Bool) × Bool
  | sg, [] => (sg, false)
  | sg, op :: ops =>
    let o := step sg.1 op
    match o.err with
    | none => runOpsG k (o.st, bornStep sg.1 sg.2 op) ops
    | some e => if k && e.ignorable then runOpsG k (o.st, bornStep sg.1 sg.2 op) ops else ((o.st, sg.2), true)

def commitTxG (sg : St K N T × Map K Bool) (tx : Bool × List (Op K N T)) : St K N T × Map K Bool :=
  let r := runOpsG tx.1 sg tx.2
  if r.2 then sg else r.1

def runHistG (sg : St K N T × Map K Bool) (txs : List (Bool × List (Op K N T))) : St K N T × Map K Bool :=
  txs.foldl commitTxG sg

theorem runOpsG_cons_ok {k : Bool} {sg : St K N T × Map K Bool} {op : Op K N T} {ops : List (Op K N T)}
    (h : (step sg.1 op).err = none) :
    runOpsG k sg (op :: ops) = runOpsG k ((step sg.1 op).st, bornStep sg.1 sg.2 op) ops := by
  simp only [runOpsG, h]

theorem runOpsG_cons_err {k : Bool} {sg : St K N T × Map K Bool} {op : Op K N T} {ops : List (Op K N T)} {e : Err}
    (h : (step sg.1 op).err = some e) :
    runOpsG k sg (op :: ops) =
      if k && e.ignorable then runOpsG k ((step sg.1 op).st, bornStep sg.1 sg.2 op) ops
      else (((step sg.1 op).st, sg.2), true) := by
  simp only [runOpsG, h]

/-- the ghost run computes the same states as the plain run -/
theorem runOpsG_fst (k : Bool) (sg : St K N T × Map K Bool) (ops : List (Op K N T)) :
    ((runOpsG k sg ops).1.1, (runOpsG k sg ops).2) = runOps k sg.1 ops := by
  induction ops generalizing sg with
  | nil => rfl
  | cons op ops ih =>
    cases he : (step sg.1 op).err with
    | none => rw [runOpsG_cons_ok he, runOps_cons_ok he]; exact ih _
    | some e =>
      rw [runOpsG_cons_err he, runOps_cons_err he]
      split
      · exact ih _
      · rfl

theorem commitTxG_fst (sg : St K N T × Map K Bool) (tx : Bool × List (Op K N T)) :
    (commitTxG sg tx).1 = commitTx sg.1 tx := by
  have h := runOpsG_fst tx.1 sg tx.2
  unfold commitTxG commitTx
  have h1 : (runOpsG tx.1 sg tx.2).2 = (runOps tx.1 sg.1 tx.2).2 := by rw [← h]
  have h2 : (runOpsG tx.1 sg tx.2).1.1 = (runOps tx.1 sg.1 tx.2).1 := by rw [← h]
  simp only [h1]
  split
  · rfl
  · exact h2

theorem runHistG_fst (sg : St K N T × Map K Bool) (txs : List (Bool × List (Op K N T))) :
    (runHistG sg txs).1 = runHist sg.1 txs := by
  induction txs generalizing sg with
  | nil => rfl
  | cons tx txs ih =>
    unfold runHistG runHist
    simp only [List.foldl_cons]
    have := ih (commitTxG sg tx)
    unfold runHistG runHist at this
    rw [this, commitTxG_fst]

/-- the invariant: the stored flag (as read back) of every existing entity is the flag on record -/
def FlagInv (sg : St K N T × Map K Bool) : Prop :=
  ∀ id, (sg.1.ents.get id).map Ent.isSystem = sg.2.get id

theorem flagInv_nil (reg : Reg) : FlagInv ((St.empty reg : St K N T), ([] : Map K Bool)) := by intro id; rfl

theorem flagInv_put {s : St K N T} {g : Map K Bool} (h : FlagInv (s, g)) (id : K) (e : Ent K N T) :
    FlagInv (s.putEnt id e, g.put id e.isSystem) := by
  intro x
  simp only [putEnt_ents, Map.get_put]
  by_cases hx : id = x
  · simp [hx]
  · simp only [hx, if_false]; exact h x

theorem flagInv_put_same {s : St K N T} {g : Map K Bool} (h : FlagInv (s, g)) {id : K} {e0 : Ent K N T}
    (hg : s.ents.get id = some e0) (e : Ent K N T) (hs : e.isSystem = e0.isSystem) :
    FlagInv (s.putEnt id e, g) := by
  intro x
  simp only [putEnt_ents, Map.get_put]
  by_cases hx : id = x
  · subst hx
    have := h id
    simp only [hg, Option.map_some] at this
    simp [hs, this]
  · simp only [hx, if_false]; exact h x

theorem flagInv_delAll {m : Map K (Ent K N T)} {ow : List K} {r : Reg} {g : Map K Bool} (h : FlagInv (⟨m, ow, r⟩, g))
    (ids ow' : List K) : FlagInv (⟨m.delAll ids, ow', r⟩, g.delAll ids) := by
  intro x
  simp only [Map.get_delAll]
  by_cases hx : x ∈ ids
  · simp [hx]
  · simp only [hx, if_false]; exact h x

theorem flagInv_unlinkAll {m : Map K (Ent K N T)} {ow : List K} {r : Reg} {g : Map K Bool} (h : FlagInv (⟨m, ow, r⟩, g))
    (o : K) (ow' : List K) : FlagInv (⟨unlinkAll m o, ow', r⟩, g) := by
  intro x
  have := h x
  simp only [get_unlinkAll] at this ⊢
  rw [← this]
  cases m.get x <;> rfl

theorem createOn_ok {s : St K N T} {sys : Bool} {id : K} {v : Vals K N T} {lvl : Option N} {e0 : Ent K N T}
    (h : (createOn s sys id v lvl e0).err = none) :
    createOn s sys id v lvl e0 = { st := s.putEnt id (mkEnt v lvl e0) } ∧ ownerOk s v.owner = true ∧
      ((mkEnt v lvl e0).protectedBy s.reg && !sys) = false := by
  rw [createOn_eq] at h ⊢
  split at h
  · cases h
  · split at h
    · cases h
    · rename_i h1 h2
      simp only [h1, h2, if_false, Bool.false_eq_true, true_and]
      exact ⟨by simpa using h1, by simpa using h2⟩

theorem updateOn_ok {s : St K N T} {id : K} {e0 : Ent K N T} (hg : s.ents.get id = some e0) {sys : Bool}
    {v : Vals K N T} {sn st so : Bool} {lvl : Option (Bool × N)}
    (h : (updateOn s sys id v sn st so lvl e0).err = none) :
    updateOn s sys id v sn st so lvl e0 = { st := s.putEnt id (updEnt v sn st so lvl e0) } ∧
      (e0.protectedBy s.reg && !sys) = false := by
  rw [updateOn_eq hg] at h ⊢
  split at h
  · cases h
  · split at h
    · cases h
    · rename_i h1 h2
      simp only [h1, h2, if_false, Bool.false_eq_true, true_and]

theorem deleteOne_ok {s : St K N T} {id : K} {sys : Bool} (h : (deleteOne s sys id).err = none) :
    ∃ e0, s.ents.get id = some e0 ∧ (e0.protectedBy s.reg && !sys) = false ∧ deleteOne s sys id = { st := s.delEnt id } := by
  cases hg : s.ents.get id with
  | none => rw [deleteOne_missing hg] at h; cases h
  | some e0 =>
    rw [deleteOne_found hg] at h ⊢
    split at h
    · cases h
    · rename_i h1
      exact ⟨e0, rfl, by simpa using h1, by simp only [h1, if_false, Bool.false_eq_true]⟩

theorem step_flagInv {s : St K N T} {g : Map K Bool} (h : FlagInv (s, g)) (op : Op K N T)
    (hc : ∀ e, (step s op).err = some e → e.ignorable = true) :
    FlagInv ((step s op).st, bornStep s g op) := by
  cases he : (step s op).err with
  | some e =>
    have := step_err_state he (hc e he)
    unfold bornStep; rw [he, this]; exact h
  | none =>
    unfold bornStep; rw [he]
    cases op with
    | create sys id blank v =>
      simp only
      cases blank with
      | true => rw [step_create_blank] at he; cases he
      | false =>
        cases hg : s.ents.get id with
        | some e0 => rw [step_create_exists hg] at he; cases he
        | none =>
          rw [step_create_new hg] at he ⊢
          rw [(createOn_ok he).1]
          have := flagInv_put h id (mkEnt v none (blankEnt v.name))
          rw [mkEnt_isSystem, blankEnt_isSystem, Bool.or_false] at this
          exact this
    | ccreate sys id blank v lvl =>
      simp only
      cases blank with
      | true => rw [step_ccreate_blank] at he; cases he
      | false =>
        cases hg : s.ents.get id with
        | some e0 =>
          rw [step_ccreate_found hg] at he ⊢
          split at he
          · cases he
          · rename_i hl
            simp only [hl, if_false]
            rw [(createOn_ok he).1]
            have := flagInv_put h id (mkEnt v (some lvl) e0)
            rw [mkEnt_isSystem] at this
            have hgi := h id
            simp only [hg, Option.map_some] at hgi
            rw [← hgi]; exact this
        | none =>
          rw [step_ccreate_new hg] at he ⊢
          rw [(createOn_ok he).1]
          have := flagInv_put h id (mkEnt v (some lvl) (blankEnt v.name))
          rw [mkEnt_isSystem, blankEnt_isSystem] at this
          have hgi := h id
          simp only [hg, Option.map_none] at hgi
          rw [← hgi]; exact this
    | update sys id v sn st so =>
      simp only
      cases hg : s.ents.get id with
      | none => rw [step_update_missing hg] at he; cases he
      | some e0 =>
        rw [step_update_found hg] at he ⊢
        rw [(updateOn_ok hg he).1]
        exact flagInv_put_same h hg _ (updEnt_isSystem ..)
    | cupdate sys id v sn st so sl lvl =>
      simp only
      cases hg : s.ents.get id with
      | none => rw [step_cupdate_missing hg] at he; cases he
      | some e0 =>
        rw [step_cupdate_found hg] at he ⊢
        split at he
        · cases he
        · rename_i hl
          simp only [hl, if_false]
          rw [(updateOn_ok hg he).1]
          exact flagInv_put_same h hg _ (updEnt_isSystem ..)
    | delete sys id =>
      simp only
      rw [step_delete] at he ⊢
      obtain ⟨e0, _, _, hd⟩ := deleteOne_ok he
      rw [hd]
      intro x
      simp only [delEnt_ents, Map.get_del]
      by_cases hx : id = x
      · simp [hx]
      · simp only [hx, if_false]; exact h x
    | cdelete sys id =>
      simp only
      rw [step_cdelete] at he ⊢
      obtain ⟨e0, _, _, hd⟩ := deleteOne_ok he
      rw [hd]
      intro x
      simp only [delEnt_ents, Map.get_del]
      by_cases hx : id = x
      · simp [hx]
      · simp only [hx, if_false]; exact h x
    | ocreate id blank =>
      simp only
      rw [step_ocreate] at he ⊢
      split
      · exact h
      · split
        · exact h
        · exact h
    | odelete sys o =>
      simp only
      by_cases ho : o ∈ s.owners
      · rw [step_odelete_found ho] at he ⊢
        split at he
        · cases he
        · rename_i ha
          simp only [ha, if_false]
          exact flagInv_unlinkAll (flagInv_delAll (m := s.ents) (ow := s.owners) (r := s.reg) h (refs s o) s.owners) o _
      · rw [step_odelete_missing ho] at he; cases he
    | deleteWhere sys q =>
      simp only
      rw [step_deleteWhere] at he ⊢
      split at he
      · cases he
      · rename_i ha
        simp only [ha, if_false]
        exact flagInv_delAll (m := s.ents) (ow := s.owners) (r := s.reg) h (matching s q) s.owners
    | link sid oid =>
      simp only
      cases hg : s.ents.get sid with
      | none => rw [step_link_missing hg] at he; cases he
      | some e0 =>
        rw [step_link_found hg] at he ⊢
        split at he
        · rename_i ho
          simp only [ho, if_true]
          exact flagInv_put_same h hg _ rfl
        · cases he
    | unlink sid oid =>
      simp only
      cases hg : s.ents.get sid with
      | none => rw [step_unlink_missing hg] at he; cases he
      | some e0 =>
        rw [step_unlink_found hg]
        exact flagInv_put_same h hg _ rfl
    | read id => exact h

theorem runOpsG_flagInv (k : Bool) {sg : St K N T × Map K Bool} (h : FlagInv sg) (ops : List (Op K N T))
    (hok : (runOpsG k sg ops).2 = false) : FlagInv (runOpsG k sg ops).1 := by
  induction ops generalizing sg with
  | nil => exact h
  | cons op ops ih =>
    obtain ⟨s, g⟩ := sg
    cases he : (step s op).err with
    | none =>
      rw [runOpsG_cons_ok (sg := (s, g)) he] at hok ⊢
      exact ih (step_flagInv h op (by intro e h'; rw [he] at h'; cases h')) hok
    | some e =>
      rw [runOpsG_cons_err (sg := (s, g)) he] at hok ⊢
      by_cases hk : (k && e.ignorable) = true
      · rw [if_pos hk] at hok ⊢
        refine ih (step_flagInv h op ?_) hok
        intro e' h'
        rw [he] at h'; cases h'
        simp only [Bool.and_eq_true] at hk; exact hk.2
      · rw [if_neg hk] at hok; simp at hok

theorem commitTxG_flagInv {sg : St K N T × Map K Bool} (h : FlagInv sg) (tx : Bool × List (Op K N T)) :
    FlagInv (commitTxG sg tx) := by
  unfold commitTxG
  cases hf : (runOpsG tx.1 sg tx.2).2 with
  | true => simp only [hf, if_true]; exact h
  | false => simp only [hf, Bool.false_eq_true, if_false]; exact runOpsG_flagInv tx.1 h tx.2 hf

theorem runHistG_flagInv {sg : St K N T × Map K Bool} (h : FlagInv sg) (txs : List (Bool × List (Op K N T))) :
    FlagInv (runHistG sg txs) := by
  induction txs generalizing sg with
  | nil => exact h
  | cons tx txs ih => exact ih (commitTxG_flagInv h tx)

/-! ### the model refines the spec -/

/-- abstraction: what the property can see of an entity -/
def absEnt (e : Ent K N T) : SEnt K N T :=
  { isSys := e.isSystem, name := e.name, tags := e.tags, created := e.created, updated := e.updated,
    owner := e.owner, level := e.level }

def absM (m : Map K (Ent K N T)) : Map K (SEnt K N T) := m.map fun p => (p.1, absEnt p.2)

def abs (s : St K N T) : SSt K N T := { ents := absM s.ents, owners := s.owners, reg := s.reg }

theorem get_absM (m : Map K (Ent K N T)) (id : K) : (absM m).get id = (m.get id).map absEnt := by
  induction m with
  | nil => rfl
  | cons p m ih =>
    obtain ⟨a, v⟩ := p
    simp only [absM, List.map_cons, Map.get] at ih ⊢
    by_cases h : a = id
    · simp [h]
    · simp only [h, if_false]; exact ih

theorem absM_del (m : Map K (Ent K N T)) (id : K) : absM (m.del id) = (absM m).del id := by
  induction m with
  | nil => rfl
  | cons p m ih =>
    obtain ⟨a, v⟩ := p
    simp only [absM, Map.del, List.map_cons, List.filter] at ih ⊢
    by_cases h : a = id
    · simp only [h, ne_eq, not_true_eq_false, decide_false]; exact ih
    · simp only [ne_eq, h, not_false_eq_true, decide_true, List.map_cons]; rw [ih]

theorem absM_put (m : Map K (Ent K N T)) (id : K) (e : Ent K N T) : absM (m.put id e) = (absM m).put id (absEnt e) := by
  unfold Map.put
  simp only [absM, List.map_cons]
  have := absM_del m id
  simp only [absM] at this
  rw [this]

theorem absM_delAll (m : Map K (Ent K N T)) (ids : List K) : absM (m.delAll ids) = (absM m).delAll ids := by
  induction ids generalizing m with
  | nil => simp [Map.delAll_nil]
  | cons a ids ih => rw [Map.delAll_cons, Map.delAll_cons, ih, absM_del]

theorem absM_unlinkAll (m : Map K (Ent K N T)) (o : K) : absM (unlinkAll m o) = absM m := by
  unfold absM unlinkAll
  rw [List.map_map]
  rfl

theorem srefused_abs (s : St K N T) (sys : Bool) (y : K) : srefused (abs s) sys y = refused s y sys := by
  unfold srefused refused abs
  simp only [get_absM]
  cases s.ents.get y <;> rfl

theorem sownerOk_abs (s : St K N T) (o : Option K) : sownerOk (abs s) o = ownerOk s o := by
  cases o <;> rfl

theorem any_sortKeys (l : List K) (f : K → Bool) : (sortKeys l).any f = l.any f := by
  rw [Bool.eq_iff_iff]
  simp only [List.any_eq_true, mem_sortKeys]

theorem delAll_sortKeys {ν : Type} (m : Map K ν) (l : List K) : m.delAll (sortKeys l) = m.delAll l := by
  unfold Map.delAll
  congr 1
  funext p
  simp only [mem_sortKeys]

/-- the list of ids a filter over the entities yields is the same on both levels when the
    predicates agree on every stored entity -/
theorem filter_keys_abs (m : Map K (Ent K N T)) (f : Ent K N T → Bool) (g : SEnt K N T → Bool)
    (h : ∀ p ∈ m, f p.2 = g (absEnt p.2)) :
    ((absM m).filter fun p => g p.2).map (·.1) = (m.filter fun p => f p.2).map (·.1) := by
  induction m with
  | nil => rfl
  | cons p m ih =>
    have hp := h p (List.mem_cons_self ..)
    have ih' := ih (fun q hq => h q (List.mem_cons_of_mem _ hq))
    simp only [absM, List.map_cons, List.filter] at ih' ⊢
    rw [← hp]
    cases f p.2 <;> simp [ih']

theorem srefs_abs (s : St K N T) (o : K) : refs s o = sortKeys (srefs (abs s) o) := by
  unfold refs srefs abs
  rw [filter_keys_abs s.ents (fun e => decide (e.owner = some o)) (fun e => decide (e.owner = some o))]
  intro p _; rfl

/-- no bucket holds the key with the value `false` (`CreateBaseValues` only ever writes `true`) -/
def WF (s : St K N T) : Prop := ∀ p ∈ s.ents, p.2.flag ≠ some false

theorem eval_abs (q : Query K N) (e : Ent K N T) (h : e.flag ≠ some false) : q.eval e = q.seval (absEnt e) := by
  cases q with
  | all => rfl
  | name n => rfl
  | owner o => rfl
  | flag b =>
    simp only [Query.eval, Query.seval, absEnt, Ent.isSystem]
    cases b with
    | true => cases hf : e.flag with
      | none => simp
      | some x => cases x <;> simp
    | false => cases hf : e.flag with
      | none => simp
      | some x => cases x with
        | true => simp
        | false => exact absurd hf h

theorem smatching_abs (s : St K N T) (hw : WF s) (q : Query K N) : matching s q = sortKeys (smatching (abs s) q) := by
  unfold matching smatching abs
  rw [filter_keys_abs s.ents (fun e => q.eval e) (fun e => q.seval e)]
  intro p hp; exact eval_abs q p.2 (hw p hp)

theorem sdeleteAll_abs (s : St K N T) (sys : Bool) (l : List K) :
    sdeleteAll (abs s) sys l =
      if (sortKeys l).any (fun y => refused s y sys) then none
      else some (abs { s with ents := s.ents.delAll (sortKeys l) }) := by
  unfold sdeleteAll
  rw [any_sortKeys, delAll_sortKeys]
  have : (fun y => srefused (abs s) sys y) = (fun y => refused s y sys) := funext (srefused_abs s sys)
  have h2 : (l.any (srefused (abs s) sys)) = l.any (fun y => refused s y sys) := by rw [← this]
  rw [h2]
  split
  · rfl
  · simp only [abs, absM_delAll]

/-! WF is kept by every successful operation -/

theorem wf_put {s : St K N T} (hw : WF s) (id : K) (e : Ent K N T) (he : e.flag ≠ some false) : WF (s.putEnt id e) := by
  intro p hp
  rcases Map.mem_put hp with h | h
  · rw [h]; exact he
  · exact hw p h

theorem wf_of_get {s : St K N T} (hw : WF s) {id : K} {e : Ent K N T} (hg : s.ents.get id = some e) :
    e.flag ≠ some false := hw (id, e) (Map.get_some_mem hg)

theorem wf_delAll {s : St K N T} (hw : WF s) (ids : List K) (ow : List K) :
    WF ({ ents := s.ents.delAll ids, owners := ow, reg := s.reg } : St K N T) := by
  intro p hp; exact hw p (Map.mem_delAll hp)

theorem wf_unlinkAll {m : Map K (Ent K N T)} {ow : List K} {r : Reg} (hw : WF (⟨m, ow, r⟩ : St K N T)) (o : K)
    (ow' : List K) : WF (⟨unlinkAll m o, ow', r⟩ : St K N T) := by
  intro p hp
  unfold unlinkAll at hp
  obtain ⟨q, hq, rfl⟩ := List.mem_map.mp hp
  exact hw q hq

theorem mkEnt_wf (v : Vals K N T) (lvl : Option N) {e : Ent K N T} (h : e.flag ≠ some false) :
    (mkEnt v lvl e).flag ≠ some false := by
  rw [mkEnt_flag]; split
  · simp
  · exact h

theorem step_wf {s : St K N T} (hw : WF s) (op : Op K N T) (he : (step s op).err = none) : WF (step s op).st := by
  cases op with
  | create sys id blank v =>
    cases blank with
    | true => rw [step_create_blank] at he; cases he
    | false =>
      cases hg : s.ents.get id with
      | some e0 => rw [step_create_exists hg] at he; cases he
      | none =>
        rw [step_create_new hg] at he ⊢
        rw [(createOn_ok he).1]
        exact wf_put hw _ _ (mkEnt_wf v none (by simp [blankEnt]))
  | ccreate sys id blank v lvl =>
    cases blank with
    | true => rw [step_ccreate_blank] at he; cases he
    | false =>
      cases hg : s.ents.get id with
      | some e0 =>
        rw [step_ccreate_found hg] at he ⊢
        split at he
        · cases he
        · rename_i hl
          simp only [hl, if_false]
          rw [(createOn_ok he).1]
          exact wf_put hw _ _ (mkEnt_wf v _ (wf_of_get hw hg))
      | none =>
        rw [step_ccreate_new hg] at he ⊢
        rw [(createOn_ok he).1]
        exact wf_put hw _ _ (mkEnt_wf v _ (by simp [blankEnt]))
  | update sys id v sn st so =>
    cases hg : s.ents.get id with
    | none => rw [step_update_missing hg] at he; cases he
    | some e0 =>
      rw [step_update_found hg] at he ⊢
      rw [(updateOn_ok hg he).1]
      exact wf_put hw _ _ (by rw [updEnt_flag]; exact wf_of_get hw hg)
  | cupdate sys id v sn st so sl lvl =>
    cases hg : s.ents.get id with
    | none => rw [step_cupdate_missing hg] at he; cases he
    | some e0 =>
      rw [step_cupdate_found hg] at he ⊢
      split at he
      · cases he
      · rename_i hl
        simp only [hl, if_false]
        rw [(updateOn_ok hg he).1]
        exact wf_put hw _ _ (by rw [updEnt_flag]; exact wf_of_get hw hg)
  | delete sys id =>
    rw [step_delete] at he ⊢
    obtain ⟨e0, _, _, hd⟩ := deleteOne_ok he
    rw [hd]
    intro p hp; exact hw p (Map.mem_del hp)
  | cdelete sys id =>
    rw [step_cdelete] at he ⊢
    obtain ⟨e0, _, _, hd⟩ := deleteOne_ok he
    rw [hd]
    intro p hp; exact hw p (Map.mem_del hp)
  | ocreate id blank =>
    rw [step_ocreate]
    split
    · exact hw
    · split
      · exact hw
      · exact hw
  | odelete sys o =>
    by_cases ho : o ∈ s.owners
    · rw [step_odelete_found ho] at he ⊢
      split at he
      · cases he
      · rename_i ha
        simp only [ha, if_false]
        exact wf_unlinkAll (wf_delAll hw (refs s o) s.owners) o _
    · rw [step_odelete_missing ho] at he; cases he
  | deleteWhere sys q =>
    rw [step_deleteWhere] at he ⊢
    split at he
    · cases he
    · rename_i ha
      simp only [ha, if_false]
      exact wf_delAll hw _ _
  | link sid oid =>
    cases hg : s.ents.get sid with
    | none => rw [step_link_missing hg] at he; cases he
    | some e0 =>
      rw [step_link_found hg] at he ⊢
      split at he
      · rename_i ho
        simp only [ho, if_true]
        exact wf_put hw _ _ (show e0.flag ≠ some false from wf_of_get hw hg)
      · cases he
  | unlink sid oid =>
    cases hg : s.ents.get sid with
    | none => rw [step_unlink_missing hg] at he; cases he
    | some e0 =>
      rw [step_unlink_found hg]
      exact wf_put hw _ _ (show e0.flag ≠ some false from wf_of_get hw hg)
  | read id => exact hw

theorem absEnt_mkEnt (v : Vals K N T) (lvl : Option N) (e : Ent K N T) :
    absEnt (mkEnt v lvl e) = snew v (v.flag || e.isSystem) (match lvl with | some l => some l | none => e.level) := by
  unfold absEnt snew
  rw [mkEnt_isSystem]
  unfold mkEnt persist setBaseValues createBaseValues
  cases lvl <;> cases hf : v.flag <;> cases hm : v.migrate <;> simp

theorem absEnt_updEnt (v : Vals K N T) (sn st so : Bool) (lvl : Option (Bool × N)) (e : Ent K N T) :
    absEnt (updEnt v sn st so lvl e) =
      { isSys := e.isSystem, name := if sn then v.name else e.name, tags := if st then v.tags else e.tags,
        created := e.created, updated := .now, owner := if so then v.owner else e.owner,
        level := match lvl with | some (true, l) => some l | _ => e.level } := by
  unfold absEnt
  rw [updEnt_isSystem]
  unfold updEnt persist setBaseValues updateBaseValues
  rcases lvl with _ | ⟨b, l⟩
  · cases sn <;> cases so <;> simp
  · cases b <;> cases sn <;> cases so <;> simp

theorem updEnt_owner (v : Vals K N T) (sn st so : Bool) (lvl : Option (Bool × N)) (e : Ent K N T) :
    (updEnt v sn st so lvl e).owner = if so then v.owner else e.owner := by
  have := congrArg SEnt.owner (absEnt_updEnt v sn st so lvl e)
  exact this

theorem abs_ents (s : St K N T) : (abs s).ents = absM s.ents := rfl
theorem abs_owners (s : St K N T) : (abs s).owners = s.owners := rfl
theorem abs_reg (s : St K N T) : (abs s).reg = s.reg := rfl
theorem abs_putEnt (s : St K N T) (id : K) (e : Ent K N T) :
    abs (s.putEnt id e) = { abs s with ents := (abs s).ents.put id (absEnt e) } := by
  simp only [abs, putEnt_ents, putEnt_owners, putEnt_reg, absM_put]
theorem abs_delEnt (s : St K N T) (id : K) :
    abs (s.delEnt id) = { abs s with ents := (abs s).ents.del id } := by
  simp only [abs, delEnt_ents, delEnt_owners, delEnt_reg, absM_del]

/-- the spec's "protected under this registration" is the model's -/
theorem absEnt_protectedBy (e : Ent K N T) (reg : Reg) : (absEnt e).protectedBy reg = e.protectedBy reg := rfl

theorem createOn_refines (s : St K N T) (sys : Bool) (id : K) (v : Vals K N T) (lvl : Option N) (e0 : Ent K N T) :
    match (createOn s sys id v lvl e0).err with
    | none => (!sownerOk (abs s) v.owner || ((snew v (e0.isSystem || v.flag)
              (match lvl with | some l => some l | none => e0.level)).protectedBy (abs s).reg && !sys)) = false ∧
        abs (createOn s sys id v lvl e0).st =
          { abs s with ents := (abs s).ents.put id (snew v (e0.isSystem || v.flag)
              (match lvl with | some l => some l | none => e0.level)) }
    | some e => (!sownerOk (abs s) v.owner || ((snew v (e0.isSystem || v.flag)
              (match lvl with | some l => some l | none => e0.level)).protectedBy (abs s).reg && !sys)) = true ∧
        e.ignorable = false := by
  rw [createOn_eq, sownerOk_abs, abs_reg]
  have hab := absEnt_mkEnt v lvl e0
  rw [Bool.or_comm v.flag e0.isSystem] at hab
  rw [← hab, absEnt_protectedBy]
  cases ho : ownerOk s v.owner with
  | false => simp [Err.ignorable]
  | true =>
    simp only [Bool.not_true, Bool.false_eq_true, if_false, Bool.false_or]
    cases hc : ((mkEnt v lvl e0).protectedBy s.reg && !sys) with
    | true => simp [Err.ignorable]
    | false =>
      simp only [Bool.false_eq_true, if_false, true_and]
      rw [abs_putEnt] <;> rfl

/-- the level argument the spec's update sees -/
def specLvl (lvl : Option (Bool × N)) : Option N :=
  match lvl with
  | some (true, l) => some l
  | _ => none

theorem updateOn_refines {s : St K N T} {id : K} {e : Ent K N T} (hg : s.ents.get id = some e) (sys : Bool)
    (v : Vals K N T) (sn st so : Bool) (lvl : Option (Bool × N)) :
    match (updateOn s sys id v sn st so lvl e).err with
    | none => supdate (abs s) sys id v sn st so (specLvl lvl) (absEnt e) = .ok (abs (updateOn s sys id v sn st so lvl e).st)
    | some err => supdate (abs s) sys id v sn st so (specLvl lvl) (absEnt e) = .fail err.ignorable := by
  rw [updateOn_eq hg]
  unfold supdate
  have ho : (absEnt e).owner = e.owner := rfl
  rw [absEnt_protectedBy, abs_reg, ho, updEnt_owner]
  cases hc : (e.protectedBy s.reg && !sys) with
  | true => simp [Err.ignorable]
  | false =>
    simp only [Bool.false_eq_true, if_false, sownerOk_abs]
    cases hd : (decide ((if so then v.owner else e.owner) ≠ e.owner) && !ownerOk s (if so then v.owner else e.owner)) with
    | true => simp [Err.ignorable]
    | false =>
      simp only [Bool.false_eq_true, if_false]
      rw [abs_putEnt, absEnt_updEnt]
      congr 2
      unfold specLvl absEnt
      rcases lvl with _ | ⟨b, l⟩
      · rfl
      · cases b <;> rfl

theorem deleteOne_refines (s : St K N T) (sys : Bool) (id : K) :
    match (deleteOne s sys id).err with
    | none => sdelete (abs s) sys id = .ok (abs (deleteOne s sys id).st)
    | some err => sdelete (abs s) sys id = .fail err.ignorable := by
  cases hg : s.ents.get id with
  | none => rw [deleteOne_missing hg]; simp [sdelete, abs_ents, get_absM, hg, Err.ignorable]
  | some e =>
    rw [deleteOne_found hg]
    have hi : (absEnt e).protectedBy (abs s).reg = e.protectedBy s.reg := rfl
    cases hc : (e.protectedBy s.reg && !sys) with
    | true => simp [sdelete, abs_ents, get_absM, hg, hi, hc, Err.ignorable]
    | false =>
      simp only [Bool.false_eq_true, if_false, sdelete, abs_ents, get_absM, hg, Option.map_some, hi, hc]
      rw [abs_delEnt]; rfl

/-- one operation: the model fails iff the spec fails — with an error of the same kind
    (ignorable or not) —, and a success lands in the spec's state -/
theorem step_refines (s : St K N T) (hw : WF s) (op : Op K N T) :
    match (step s op).err with
    | none => sstep (abs s) op = .ok (abs (step s op).st)
    | some e => sstep (abs s) op = .fail e.ignorable := by
  cases op with
  | create sys id blank v =>
    cases blank with
    | true => rw [step_create_blank]; simp [sstep, Err.ignorable]
    | false =>
      cases hg : s.ents.get id with
      | some e => rw [step_create_exists hg]; simp [sstep, abs_ents, get_absM, hg, Err.ignorable]
      | none =>
        rw [step_create_new hg]
        have := createOn_refines s sys id v none (blankEnt v.name)
        rw [blankEnt_isSystem, Bool.false_or, show (blankEnt v.name : Ent K N T).level = none from rfl] at this
        cases he : (createOn s sys id v none (blankEnt v.name)).err with
        | none =>
          rw [he] at this; simp only at this
          simp only [sstep, abs_ents, get_absM, hg, Option.map_none, Option.isSome_none, Bool.or_false,
            Bool.false_eq_true, if_false]
          rw [← abs_ents, this.1, this.2]; rfl
        | some e =>
          rw [he] at this; simp only at this
          simp only [sstep, abs_ents, get_absM, hg, Option.map_none, Option.isSome_none, Bool.or_false,
            Bool.false_eq_true, if_false]
          rw [← abs_ents, this.1, this.2]; rfl
  | ccreate sys id blank v lvl =>
    cases blank with
    | true => rw [step_ccreate_blank]; simp [sstep, Err.ignorable]
    | false =>
      cases hg : s.ents.get id with
      | some e0 =>
        rw [step_ccreate_found hg]
        have hl : (absEnt e0).level = e0.level := rfl
        have hi : (absEnt e0).isSys = e0.isSystem := rfl
        cases hlv : e0.level.isSome with
        | true => simp [sstep, abs_ents, get_absM, hg, hl, hlv, Err.ignorable]
        | false =>
          simp only [Bool.false_eq_true, if_false]
          have := createOn_refines s sys id v (some lvl) e0
          cases he : (createOn s sys id v (some lvl) e0).err with
          | none =>
            rw [he] at this; simp only at this
            simp only [sstep, abs_ents, get_absM, hg, Option.map_some, hl, hlv, hi, Bool.false_eq_true, if_false]
            rw [← abs_ents, this.1, this.2]; rfl
          | some e =>
            rw [he] at this; simp only at this
            simp only [sstep, abs_ents, get_absM, hg, Option.map_some, hl, hlv, hi, Bool.false_eq_true, if_false]
            rw [← abs_ents, this.1, this.2]; rfl
      | none =>
        rw [step_ccreate_new hg]
        have := createOn_refines s sys id v (some lvl) (blankEnt v.name)
        rw [blankEnt_isSystem, Bool.false_or] at this
        cases he : (createOn s sys id v (some lvl) (blankEnt v.name)).err with
        | none =>
          rw [he] at this; simp only at this
          simp only [sstep, abs_ents, get_absM, hg, Option.map_none, Bool.false_eq_true, if_false]
          rw [← abs_ents, this.1, this.2]; rfl
        | some e =>
          rw [he] at this; simp only at this
          simp only [sstep, abs_ents, get_absM, hg, Option.map_none, Bool.false_eq_true, if_false]
          rw [← abs_ents, this.1, this.2]; rfl
  | update sys id v sn st so =>
    cases hg : s.ents.get id with
    | none => rw [step_update_missing hg]; simp [sstep, abs_ents, get_absM, hg, Err.ignorable]
    | some e =>
      rw [step_update_found hg]
      have := updateOn_refines hg sys v sn st so none
      simp only [sstep, abs_ents, get_absM, hg, Option.map_some]
      exact this
  | cupdate sys id v sn st so sl lvl =>
    cases hg : s.ents.get id with
    | none => rw [step_cupdate_missing hg]; simp [sstep, abs_ents, get_absM, hg, Err.ignorable]
    | some e =>
      rw [step_cupdate_found hg]
      have hl : (absEnt e).level = e.level := rfl
      cases hlv : e.level.isNone with
      | true => simp [sstep, abs_ents, get_absM, hg, hl, hlv, Err.ignorable]
      | false =>
        have := updateOn_refines hg sys v sn st so (some (sl, lvl))
        have hs : specLvl (some (sl, lvl)) = if sl then some lvl else none := by cases sl <;> rfl
        rw [hs] at this
        simp only [sstep, abs_ents, get_absM, hg, Option.map_some, hl, hlv, Bool.false_eq_true, if_false]
        exact this
  | delete sys id => rw [step_delete]; exact deleteOne_refines s sys id
  | cdelete sys id => rw [step_cdelete]; exact deleteOne_refines s sys id
  | ocreate id blank =>
    rw [step_ocreate]
    cases blank with
    | true => simp [sstep, Err.ignorable]
    | false =>
      by_cases ho : id ∈ s.owners
      · simp [sstep, abs_owners, ho, Err.ignorable]
      · simp [sstep, abs_owners, ho, abs]
  | odelete sys o =>
    by_cases ho : o ∈ s.owners
    · rw [step_odelete_found ho]
      have hd := sdeleteAll_abs s sys (srefs (abs s) o)
      rw [← srefs_abs] at hd
      simp only [sstep, abs_owners, ho, if_true, hd]
      cases ha : (refs s o).any (fun y => refused s y sys) with
      | true => simp [Err.ignorable]
      | false =>
        simp only [Bool.false_eq_true, if_false]
        simp only [abs, absM_unlinkAll]
    · rw [step_odelete_missing ho]; simp [sstep, abs_owners, ho, Err.ignorable]
  | deleteWhere sys q =>
    rw [step_deleteWhere]
    have hd := sdeleteAll_abs s sys (smatching (abs s) q)
    rw [← smatching_abs s hw] at hd
    simp only [sstep, hd]
    cases ha : (matching s q).any (fun y => refused s y sys) with
    | true => simp [Err.ignorable]
    | false => simp only [Bool.false_eq_true, if_false]
  | link sid oid =>
    cases hg : s.ents.get sid with
    | none => rw [step_link_missing hg]; simp [sstep, abs_ents, get_absM, hg, Err.ignorable]
    | some e =>
      rw [step_link_found hg]
      by_cases ho : oid ∈ s.owners
      · simp only [ho, if_true, sstep, abs_ents, get_absM, hg, Option.map_some, abs_owners]
        rw [abs_putEnt]; rfl
      · simp [ho, sstep, abs_ents, get_absM, hg, abs_owners, Err.ignorable]
  | unlink sid oid =>
    cases hg : s.ents.get sid with
    | none => rw [step_unlink_missing hg]; simp [sstep, abs_ents, get_absM, hg, Err.ignorable]
    | some e =>
      rw [step_unlink_found hg]
      simp only [sstep, abs_ents, get_absM, hg, Option.map_some]
      rw [abs_putEnt]; rfl
  | read id => simp [step, sstep]

/-! ### which buckets a registration looks at -/

theorem mkEnt_level (v : Vals K N T) (lvl : Option N) (e : Ent K N T) :
    (mkEnt v lvl e).level = match lvl with | some l => some l | none => e.level :=
  congrArg SEnt.level (absEnt_mkEnt v lvl e)

/-- a bucket written through the child store has child data: both registrations look at it -/
theorem guarded_mkEnt_child (reg : Reg) (v : Vals K N T) (l : N) (e : Ent K N T) :
    guarded reg (mkEnt v (some l) e) = (reg.onS || reg.onC) := by
  unfold guarded; rw [mkEnt_level]; simp

/-- a fresh bucket written through S has none: only a constraint on S looks at it -/
theorem guarded_mkEnt_fresh (reg : Reg) (v : Vals K N T) (n : N) :
    guarded reg (mkEnt v none (blankEnt n : Ent K N T)) = reg.onS := by
  unfold guarded; rw [mkEnt_level]; simp [blankEnt]

theorem guarded_some_reg {reg : Reg} {e : Ent K N T} (h : guarded reg e = true) : (reg.onS || reg.onC) = true := by
  unfold guarded at h
  cases h1 : reg.onS <;> cases h2 : reg.onC <;> simp_all

end
end StorageModel.C16
