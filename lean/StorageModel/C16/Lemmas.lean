import StorageModel.C16.Model
/-
  C16 — helper lemmas: equations for transaction bodies, the ghost "flag at creation", the
  abstraction to the spec.
-/
namespace StorageModel.C16

section
variable {K N T : Type} [DecidableEq K]

/-! ### equations -/

theorem runOps_nil (k : Bool) (s : St K N T) : runOps k s [] = (s, false) := rfl

theorem runOps_cons_ok {k : Bool} {s : St K N T} {op : Op K N T} {ops : List (Op K N T)} (h : (step s op).err = none) :
    runOps k s (op :: ops) = runOps k (step s op).st ops := by
  simp only [runOps, h]

theorem runOps_cons_err {k : Bool} {s : St K N T} {op : Op K N T} {ops : List (Op K N T)} {e : Err}
    (h : (step s op).err = some e) :
    runOps k s (op :: ops) =
      if k && e ≠ .sysCreate then runOps k (step s op).st ops else ((step s op).st, true) := by
  simp only [runOps, h]

theorem commitTx_failed {s : St K N T} {k : Bool} {ops : List (Op K N T)} (h : (runOps k s ops).2 = true) :
    commitTx s (k, ops) = s := by
  simp only [commitTx, h, if_true]

theorem commitTx_ok {s : St K N T} {k : Bool} {ops : List (Op K N T)} (h : (runOps k s ops).2 = false) :
    commitTx s (k, ops) = (runOps k s ops).1 := by
  simp [commitTx, h]

theorem refused_eq (s : St K N T) (id : K) (sys : Bool) :
    refused s id sys = match s.get id with
      | some e => e.isSystem && !sys
      | none => false := rfl

theorem refused_sys (s : St K N T) (id : K) : refused s id true = false := by
  unfold refused; cases s.get id <;> simp

/-! ### the operations, case by case -/

/-- the entity bucket a successful (or refused) `Create` writes -/
def newEnt (v : Vals N T) : Ent N T := persist true v true true (blankEnt v.name)

theorem newEnt_isSystem (v : Vals N T) : (newEnt v : Ent N T).isSystem = v.flag := by
  unfold newEnt persist setBaseValues createBaseValues blankEnt
  cases hf : v.flag <;> cases hm : v.migrate <;> simp [Ent.isSystem]

/-- **`UpdateBaseValues` never writes the flag**, whatever the entity carries (IsSystem, Migrate,
    timestamps, tags) and whatever the checker lets through -/
theorem persist_update_flag (v : Vals N T) (sn st : Bool) (e : Ent N T) : (persist false v sn st e).flag = e.flag := by
  unfold persist setBaseValues updateBaseValues
  cases sn <;> simp

theorem persist_update_isSystem (v : Vals N T) (sn st : Bool) (e : Ent N T) :
    (persist false v sn st e).isSystem = e.isSystem := by
  unfold Ent.isSystem; rw [persist_update_flag]

theorem step_create_blank (s : St K N T) (sys : Bool) (id : K) (v : Vals N T) :
    step s (.create sys id true v) = { st := s, err := some .blank } := by
  simp [step]

theorem step_create_exists {s : St K N T} {id : K} {e : Ent N T} (hg : s.get id = some e) (sys : Bool) (v : Vals N T) :
    step s (.create sys id false v) = { st := s, err := some .exists } := by
  simp [step, hg]

theorem step_create_new {s : St K N T} {id : K} (hg : s.get id = none) (sys : Bool) (v : Vals N T) :
    step s (.create sys id false v) =
      if v.flag && !sys then { st := s.put id (newEnt v), err := some .sysCreate }
      else { st := s.put id (newEnt v) } := by
  have hr : refused (s.put id (newEnt v)) id sys = (v.flag && !sys) := by
    rw [refused_eq, Map.get_put]; simp only [if_true]; rw [newEnt_isSystem]
  simp only [step, hg, Bool.false_eq_true, if_false]
  unfold newEnt at hr ⊢
  rw [hr]

theorem step_update_missing {s : St K N T} {id : K} (hg : s.get id = none) (sys : Bool) (v : Vals N T) (sn st : Bool) :
    step s (.update sys id v sn st) = { st := s, err := some .notFound } := by
  simp [step, hg]

theorem step_update_found {s : St K N T} {id : K} {e : Ent N T} (hg : s.get id = some e) (sys : Bool) (v : Vals N T)
    (sn st : Bool) :
    step s (.update sys id v sn st) =
      if e.isSystem && !sys then { st := s, err := some .sysUpdate }
      else { st := s.put id (persist false v sn st e) } := by
  have hr : refused s id sys = (e.isSystem && !sys) := by rw [refused_eq, hg]
  simp only [step, hg]; rw [hr]

theorem step_delete_missing {s : St K N T} {id : K} (hg : s.get id = none) (sys : Bool) :
    step s (.delete sys id) = { st := s, err := some .notFound } := by
  simp [step, hg]

theorem step_delete_found {s : St K N T} {id : K} {e : Ent N T} (hg : s.get id = some e) (sys : Bool) :
    step s (.delete sys id) =
      if e.isSystem && !sys then { st := s, err := some .sysDelete } else { st := s.del id } := by
  have hr : refused s id sys = (e.isSystem && !sys) := by rw [refused_eq, hg]
  simp only [step, hg]; rw [hr]

/-- every failure except a refused create leaves even the uncommitted state untouched -/
theorem step_err_state {s : St K N T} {op : Op K N T} {e : Err} (h : (step s op).err = some e) (hne : e ≠ .sysCreate) :
    (step s op).st = s := by
  cases op with
  | create sys id blank v =>
    cases blank with
    | true => rw [step_create_blank]
    | false =>
      cases hg : s.get id with
      | some e0 => rw [step_create_exists hg]
      | none =>
        rw [step_create_new hg] at h
        cases hc : (v.flag && !sys) with
        | true => rw [hc] at h; simp at h; exact absurd h.symm hne
        | false => rw [hc] at h; simp at h
  | update sys id v setName setTags =>
    cases hg : s.get id with
    | none => rw [step_update_missing hg]
    | some e0 =>
      rw [step_update_found hg] at h ⊢
      cases hc : (e0.isSystem && !sys) with
      | true => simp
      | false => rw [hc] at h; simp at h
  | delete sys id =>
    cases hg : s.get id with
    | none => rw [step_delete_missing hg]
    | some e0 =>
      rw [step_delete_found hg] at h ⊢
      cases hc : (e0.isSystem && !sys) with
      | true => simp
      | false => rw [hc] at h; simp at h
  | read id => simp [step] at h

/-! ### ghost: the flag given when an existing entity was created -/

/-- the IsSystem flag carried by the `Create` call of every entity that currently exists -/
def bornStep (s : St K N T) (g : Map K Bool) (op : Op K N T) : Map K Bool :=
  match (step s op).err with
  | some _ => g
  | none =>
    match op with
    | .create _ id _ v => g.put id v.flag
    | .delete _ id => g.del id
    | _ => g

def runOpsG (k : Bool) : St K N T × Map K Bool → List (Op K N T) → (St K N T × Map K Bool) × Bool
  | sg, [] => (sg, false)
  | sg, op :: ops =>
    let o := step sg.1 op
    match o.err with
    | none => runOpsG k (o.st, bornStep sg.1 sg.2 op) ops
    | some e => if k && e ≠ .sysCreate then runOpsG k (o.st, bornStep sg.1 sg.2 op) ops else ((o.st, sg.2), true)

def commitTxG (sg : St K N T × Map K Bool) (tx : Bool × List (Op K N T)) : St K N T × Map K Bool :=
  let r := runOpsG tx.1 sg tx.2
  if r.2 then sg else r.1

def runHistG (sg : St K N T × Map K Bool) (txs : List (Bool × List (Op K N T))) : St K N T × Map K Bool :=
  txs.foldl commitTxG sg

theorem runOpsG_cons_ok {k : Bool} {sg : St K N T × Map K Bool} {op : Op K N T} {ops : List (Op K N T)}
    (h : (step sg.1 op).err = none) :
    runOpsG k sg (op :: ops) = runOpsG k ((step sg.1 op).st, bornStep sg.1 sg.2 op) ops := by
  simp only [runOpsG, h]

theorem runOpsG_cons_err {k : Bool} {sg : St K N T × Map K Bool} {op : Op K N T} {ops : List (Op K N T)} {e : Err}
    (h : (step sg.1 op).err = some e) :
    runOpsG k sg (op :: ops) =
      if k && e ≠ .sysCreate then runOpsG k ((step sg.1 op).st, bornStep sg.1 sg.2 op) ops
      else (((step sg.1 op).st, sg.2), true) := by
  simp only [runOpsG, h]

/-- the ghost run computes the same states as the plain run -/
theorem runOpsG_fst (k : Bool) (sg : St K N T × Map K Bool) (ops : List (Op K N T)) :
    ((runOpsG k sg ops).1.1, (runOpsG k sg ops).2) = runOps k sg.1 ops := by
  induction ops generalizing sg with
  | nil => rfl
  | cons op ops ih =>
    cases he : (step sg.1 op).err with
    | none => rw [runOpsG_cons_ok he, runOps_cons_ok he]; exact ih _
    | some e =>
      rw [runOpsG_cons_err he, runOps_cons_err he]
      split
      · exact ih _
      · rfl

theorem commitTxG_fst (sg : St K N T × Map K Bool) (tx : Bool × List (Op K N T)) :
    (commitTxG sg tx).1 = commitTx sg.1 tx := by
  have h := runOpsG_fst tx.1 sg tx.2
  unfold commitTxG commitTx
  have h1 : (runOpsG tx.1 sg tx.2).2 = (runOps tx.1 sg.1 tx.2).2 := by rw [← h]
  have h2 : (runOpsG tx.1 sg tx.2).1.1 = (runOps tx.1 sg.1 tx.2).1 := by rw [← h]
  simp only [h1]
  split
  · rfl
  · exact h2

theorem runHistG_fst (sg : St K N T × Map K Bool) (txs : List (Bool × List (Op K N T))) :
    (runHistG sg txs).1 = runHist sg.1 txs := by
  induction txs generalizing sg with
  | nil => rfl
  | cons tx txs ih =>
    unfold runHistG runHist
    simp only [List.foldl_cons]
    have := ih (commitTxG sg tx)
    unfold runHistG runHist at this
    rw [this, commitTxG_fst]

/-- the invariant: the stored flag (as read back) of every existing entity is the flag it was created with -/
def FlagInv (sg : St K N T × Map K Bool) : Prop :=
  ∀ id, (sg.1.get id).map Ent.isSystem = sg.2.get id

theorem flagInv_nil : FlagInv (([] : St K N T), ([] : Map K Bool)) := by intro id; rfl

theorem step_flagInv {s : St K N T} {g : Map K Bool} (h : FlagInv (s, g)) (op : Op K N T) :
    FlagInv ((step s op).st, bornStep s g op) ∨ (step s op).err = some .sysCreate := by
  cases he : (step s op).err with
  | some e =>
    by_cases hc : e = .sysCreate
    · right; rw [hc]
    · left
      have := step_err_state he hc
      unfold bornStep; rw [he, this]; exact h
  | none =>
    left
    unfold bornStep; rw [he]
    cases op with
    | create sys id blank v =>
      simp only
      cases blank with
      | true => rw [step_create_blank] at he; simp at he
      | false =>
        cases hg : s.get id with
        | some e0 => rw [step_create_exists hg] at he; simp at he
        | none =>
          rw [step_create_new hg] at he ⊢
          cases hc : (v.flag && !sys) with
          | true => rw [hc] at he; simp at he
          | false =>
            simp only [Bool.false_eq_true, if_false]
            intro x
            simp only
            rw [Map.get_put, Map.get_put]
            by_cases hx : id = x
            · simp [hx, newEnt_isSystem]
            · simp only [hx, if_false]; exact h x
    | update sys id v setName setTags =>
      simp only
      cases hg : s.get id with
      | none => rw [step_update_missing hg] at he; simp at he
      | some e0 =>
        rw [step_update_found hg] at he ⊢
        cases hc : (e0.isSystem && !sys) with
        | true => rw [hc] at he; simp at he
        | false =>
          simp only [Bool.false_eq_true, if_false]
          intro x
          simp only
          rw [Map.get_put]
          by_cases hx : id = x
          · subst hx
            have := h id
            simp only [hg, Option.map] at this
            simp only [if_true, Option.map]; rw [← this, persist_update_isSystem]
          · simp only [hx, if_false]; exact h x
    | delete sys id =>
      simp only
      cases hg : s.get id with
      | none => rw [step_delete_missing hg] at he; simp at he
      | some e0 =>
        rw [step_delete_found hg] at he ⊢
        cases hc : (e0.isSystem && !sys) with
        | true => rw [hc] at he; simp at he
        | false =>
          simp only [Bool.false_eq_true, if_false]
          intro x
          simp only
          rw [Map.get_del, Map.get_del]
          by_cases hx : id = x
          · simp [hx]
          · simp only [hx, if_false]; exact h x
    | read id => exact h

theorem runOpsG_flagInv (k : Bool) {sg : St K N T × Map K Bool} (h : FlagInv sg) (ops : List (Op K N T))
    (hok : (runOpsG k sg ops).2 = false) : FlagInv (runOpsG k sg ops).1 := by
  induction ops generalizing sg with
  | nil => exact h
  | cons op ops ih =>
    obtain ⟨s, g⟩ := sg
    cases he : (step s op).err with
    | none =>
      rw [runOpsG_cons_ok (sg := (s, g)) he] at hok ⊢
      rcases step_flagInv h op with h' | h'
      · exact ih h' hok
      · rw [he] at h'; cases h'
    | some e =>
      rw [runOpsG_cons_err (sg := (s, g)) he] at hok ⊢
      by_cases hk : (k && decide (e ≠ .sysCreate)) = true
      · rw [if_pos hk] at hok ⊢
        rcases step_flagInv h op with h' | h'
        · exact ih h' hok
        · rw [he] at h'; cases h'; simp at hk
      · rw [if_neg hk] at hok; simp at hok

theorem commitTxG_flagInv {sg : St K N T × Map K Bool} (h : FlagInv sg) (tx : Bool × List (Op K N T)) :
    FlagInv (commitTxG sg tx) := by
  unfold commitTxG
  cases hf : (runOpsG tx.1 sg tx.2).2 with
  | true => simp only [hf, if_true]; exact h
  | false => simp only [hf, Bool.false_eq_true, if_false]; exact runOpsG_flagInv tx.1 h tx.2 hf

theorem runHistG_flagInv {sg : St K N T × Map K Bool} (h : FlagInv sg) (txs : List (Bool × List (Op K N T))) :
    FlagInv (runHistG sg txs) := by
  induction txs generalizing sg with
  | nil => exact h
  | cons tx txs ih => exact ih (commitTxG_flagInv h tx)

/-! ### the model refines the spec -/

/-- abstraction: what the property can see of an entity -/
def absEnt (e : Ent N T) : SEnt N T :=
  { isSys := e.isSystem, name := e.name, tags := e.tags, created := e.created, updated := e.updated }

def abs (s : St K N T) : SSt K N T := s.map fun p => (p.1, absEnt p.2)

theorem get_abs (s : St K N T) (id : K) : (abs s).get id = (s.get id).map absEnt := by
  induction s with
  | nil => rfl
  | cons p s ih =>
    obtain ⟨a, v⟩ := p
    simp only [abs, List.map_cons, Map.get] at ih ⊢
    by_cases h : a = id
    · simp [h]
    · simp only [h, if_false]; exact ih

theorem abs_del (s : St K N T) (id : K) : abs (s.del id) = (abs s).del id := by
  induction s with
  | nil => rfl
  | cons p s ih =>
    obtain ⟨a, v⟩ := p
    simp only [abs, Map.del, List.map_cons, List.filter] at ih ⊢
    by_cases h : a = id
    · simp only [h, ne_eq, not_true_eq_false, decide_false]; exact ih
    · simp only [ne_eq, h, not_false_eq_true, decide_true, List.map_cons]; rw [ih]

theorem abs_put (s : St K N T) (id : K) (e : Ent N T) : abs (s.put id e) = (abs s).put id (absEnt e) := by
  unfold Map.put
  simp only [abs, List.map_cons]
  have := abs_del s id
  simp only [abs] at this
  rw [this]

theorem absEnt_new (v : Vals N T) :
    absEnt (newEnt v : Ent N T) = { isSys := v.flag, name := v.name, tags := v.tags, created := if v.migrate then .given v.cAt else .now, updated := if v.migrate then .given v.uAt else .now } := by
  unfold absEnt newEnt persist setBaseValues createBaseValues blankEnt
  cases hf : v.flag <;> cases hm : v.migrate <;> simp [Ent.isSystem]

theorem absEnt_update (v : Vals N T) (sn st : Bool) (e : Ent N T) :
    absEnt (persist false v sn st e) = { isSys := e.isSystem, name := if sn then v.name else e.name, tags := if st then v.tags else e.tags, created := e.created, updated := .now } := by
  unfold absEnt persist setBaseValues updateBaseValues Ent.isSystem
  cases sn <;> simp

/-- one operation: the model fails iff the spec fails, and a success lands in the spec's state -/
theorem step_refines (s : St K N T) (op : Op K N T) :
    match (step s op).err with
    | none => sstep (abs s) op = some (abs (step s op).st)
    | some _ => sstep (abs s) op = none := by
  cases op with
  | create sys id blank v =>
    cases blank with
    | true => rw [step_create_blank]; simp [sstep]
    | false =>
      cases hg : s.get id with
      | some e => rw [step_create_exists hg]; simp [sstep, get_abs, hg]
      | none =>
        rw [step_create_new hg]
        cases hc : (v.flag && !sys) with
        | true => simp [sstep, hc]
        | false =>
          simp only [Bool.false_eq_true, if_false, sstep, get_abs, hg, hc]
          rw [abs_put, absEnt_new]; rfl
  | update sys id v setName setTags =>
    cases hg : s.get id with
    | none => rw [step_update_missing hg]; simp [sstep, get_abs, hg]
    | some e =>
      rw [step_update_found hg]
      have hi : (absEnt e).isSys = e.isSystem := rfl
      cases hc : (e.isSystem && !sys) with
      | true => simp [sstep, get_abs, hg, hi, hc]
      | false =>
        simp only [Bool.false_eq_true, if_false, sstep, get_abs, hg, Option.map_some, hi, hc]
        rw [abs_put, absEnt_update]; rfl
  | delete sys id =>
    cases hg : s.get id with
    | none => rw [step_delete_missing hg]; simp [sstep, get_abs, hg]
    | some e =>
      rw [step_delete_found hg]
      have hi : (absEnt e).isSys = e.isSystem := rfl
      cases hc : (e.isSystem && !sys) with
      | true => simp [sstep, get_abs, hg, hi, hc]
      | false => simp only [Bool.false_eq_true, if_false, sstep, get_abs, hg, Option.map_some, hi, hc]; rw [abs_del]
  | read id => simp [step, sstep]

end
end StorageModel.C16
