import StorageModel.C16.Load
import StorageModel.C16.Lemmas
/- C16, round 14 — lemmas about the layer of unloadable entities (`C16/Load.lean`): the batch delete
   with the load error in front of the delete constraints, the shape of `lstep`. -/
namespace StorageModel.C16

section
variable {K N T : Type} [DecidableEq K]

theorem unloadable_of_get {σ : Strat N} {s : St K N T} {id : K} {e : Ent K N T} (h : s.ents.get id = some e) :
    unloadable σ s id = σ.fillFails e.name := by simp [unloadable, h]

theorem unloadable_of_none {σ : Strat N} {s : St K N T} {id : K} (h : s.ents.get id = none) :
    unloadable σ s id = false := by simp [unloadable, h]

theorem unloadable_delEnt (σ : Strat N) (s : St K N T) (id y : K) :
    unloadable σ (s.delEnt id) y = if id = y then false else unloadable σ s y := by
  unfold unloadable
  rw [delEnt_ents, Map.get_del]
  by_cases h : id = y <;> simp [h]

theorem ldelMany_nil (σ : Strat N) (sys : Bool) (s : St K N T) : ldelMany σ sys s [] = (s, none) := rfl

theorem ldelMany_cons (σ : Strat N) (sys : Bool) (s : St K N T) (id : K) (ids : List K) :
    ldelMany σ sys s (id :: ids) =
      if unloadable σ s id then (s, some .load)
      else if refused s id sys then (s, some (.base .sysDelete))
      else ldelMany σ sys (s.delEnt id) ids := rfl

/-- where every listed entity can be loaded the batch is the batch of Model.lean -/
theorem ldelMany_eq (σ : Strat N) (sys : Bool) (s : St K N T) (ids : List K)
    (h : ∀ y ∈ ids, unloadable σ s y = false) :
    ldelMany σ sys s ids = ((delMany sys s ids).1, (delMany sys s ids).2.map .base) := by
  induction ids generalizing s with
  | nil => rfl
  | cons id ids ih =>
    rw [ldelMany_cons, delMany_cons, h id (List.mem_cons_self ..)]
    simp only [Bool.false_eq_true, if_false]
    cases hr : refused s id sys with
    | true => simp
    | false =>
      simp only [Bool.false_eq_true, if_false]
      apply ih
      intro y hy
      rw [unloadable_delEnt]
      split
      · rfl
      · exact h y (List.mem_cons_of_mem _ hy)

/-- **whatever an ordinary context deletes in a batch — also one that stops at an entity it cannot
    load — no protected system entity is among it** -/
theorem ldelMany_keeps_system (σ : Strat N) (s : St K N T) (ids : List K) {x : K} {e : Ent K N T}
    (hg : s.ents.get x = some e) (hs : e.protectedBy s.reg = true) :
    (ldelMany σ false s ids).1.ents.get x = some e := by
  induction ids generalizing s with
  | nil => exact hg
  | cons id ids ih =>
    rw [ldelMany_cons]
    cases hu : unloadable σ s id with
    | true => simpa using hg
    | false =>
      simp only [Bool.false_eq_true, if_false]
      cases h : refused s id false with
      | true => simpa using hg
      | false =>
        simp only [Bool.false_eq_true, if_false]
        apply ih
        · rw [delEnt_ents, Map.get_del]
          have : id ≠ x := by
            intro hx; subst hx
            rw [refused_of_get hg, hs] at h; simp at h
          simp [this, hg]
        · exact hs

/-- a batch only ever removes entities -/
theorem ldelMany_get (σ : Strat N) (sys : Bool) (s : St K N T) (ids : List K) (x : K) :
    (ldelMany σ sys s ids).1.ents.get x = none ∨ (ldelMany σ sys s ids).1.ents.get x = s.ents.get x := by
  induction ids generalizing s with
  | nil => exact Or.inr rfl
  | cons id ids ih =>
    rw [ldelMany_cons]
    split
    · exact Or.inr rfl
    · split
      · exact Or.inr rfl
      · rcases ih (s.delEnt id) with h | h
        · exact Or.inl h
        · rw [h, delEnt_ents, Map.get_del]
          by_cases hx : id = x
          · simp [hx]
          · simp [hx]

theorem ldelMany_reg (σ : Strat N) (sys : Bool) (s : St K N T) (ids : List K) : (ldelMany σ sys s ids).1.reg = s.reg := by
  induction ids generalizing s with
  | nil => rfl
  | cons id ids ih =>
    rw [ldelMany_cons]
    split
    · rfl
    · split
      · rfl
      · rw [ih]; rfl

/-- **a batch that lists an entity the strategy cannot load fails — from ANY context — and that
    entity is still there, as it was** (the batch stops at it or before it) -/
theorem ldelMany_unloadable_mem (σ : Strat N) (sys : Bool) (s : St K N T) (ids : List K) {x : K}
    (hm : x ∈ ids) (hu : unloadable σ s x = true) :
    (ldelMany σ sys s ids).2.isSome = true ∧ (ldelMany σ sys s ids).1.ents.get x = s.ents.get x := by
  induction ids generalizing s with
  | nil => cases hm
  | cons id ids ih =>
    rw [ldelMany_cons]
    cases hi : unloadable σ s id with
    | true => simp
    | false =>
      simp only [Bool.false_eq_true, if_false]
      cases hr : refused s id sys with
      | true => simp
      | false =>
        simp only [Bool.false_eq_true, if_false]
        have hne : id ≠ x := by intro h; subst h; rw [hu] at hi; cases hi
        have hm' : x ∈ ids := by
          rcases List.mem_cons.mp hm with h | h
          · exact absurd h.symm hne
          · exact h
        have hu' : unloadable σ (s.delEnt id) x = true := by rw [unloadable_delEnt]; simp [hne, hu]
        obtain ⟨h1, h2⟩ := ih (s.delEnt id) hm' hu'
        refine ⟨h1, ?_⟩
        rw [h2, delEnt_ents, Map.get_del]; simp [hne]

/-- from a system context the only thing that stops a batch is the load error -/
theorem ldelMany_sys_err (σ : Strat N) (s : St K N T) (ids : List K) :
    (ldelMany σ true s ids).2 = none ∨ (ldelMany σ true s ids).2 = some .load := by
  induction ids generalizing s with
  | nil => exact Or.inl rfl
  | cons id ids ih =>
    rw [ldelMany_cons, refused_sys]
    split
    · exact Or.inr rfl
    · simp only [Bool.false_eq_true, if_false]; exact ih _

/-! ### `afterLoad`, `lift` -/

omit [DecidableEq K] in
theorem lift_st (o : Out K N T) : o.lift.st = o.st := rfl
omit [DecidableEq K] in
theorem lift_err (o : Out K N T) : o.lift.err = o.err.map .base := rfl

theorem lift_err_none {o : Out K N T} : o.lift.err = none ↔ o.err = none := by
  rw [lift_err]; cases o.err <;> simp

theorem afterLoad_st (σ : Strat N) (id : K) (o : Out K N T) : (afterLoad σ id o).st = o.st := by
  unfold afterLoad; split <;> rfl

theorem afterLoad_ok {σ : Strat N} {id : K} {o : Out K N T} (h : (afterLoad σ id o).err = none) : o.err = none := by
  unfold afterLoad at h
  split at h
  · cases h
  · exact lift_err_none.mp h

theorem afterLoad_err_some {σ : Strat N} {id : K} {o : Out K N T} (h : o.err.isSome = true) :
    (afterLoad σ id o).err.isSome = true := by
  unfold afterLoad
  split
  · rfl
  · rw [lift_err]; cases ho : o.err with
    | none => rw [ho] at h; cases h
    | some e => rfl

theorem afterLoad_of_loadable {σ : Strat N} {id : K} {o : Out K N T} (h : unloadable σ o.st id = false) :
    afterLoad σ id o = o.lift := by
  unfold afterLoad; simp [h]

end
end StorageModel.C16
