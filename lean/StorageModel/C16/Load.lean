import StorageModel.C16.Model
/-
  C16, round 14 — entities whose STORED data the entity strategy cannot load.

  `FillEntity` reports a failure through the bucket's error holder (`GetStringOrError` on a required
  field that is missing or holds a nil: data written by an older version of the store, a raw bucket
  write).  `FindById` / `LoadEntity` then return that error, and every path of boltz/store_crud.go
  that loads the entity first returns it:

    Update           FindById (after the child store strategies were asked; `ChildStoreUpdateHandler`
                     hands the entity to `C.Update`, whose FindById fails the same way) — BEFORE
                     ProcessBeforeUpdate; then, after PersistEntity and ProcessAfterUpdate,
                     `changeFlow.loadFinalState()` (FindById again; its error is returned in
                     preference to `bucket.Err`)
    Create           no load before the write; `loadFinalState()` after ProcessAfterUpdate
    DeleteById       FindById first (C.DeleteById = parent.DeleteById), then per child store
                     `processDeleteConstraints` → `changeFlow.init` → FindById, then its own
                     `processDeleteConstraints` → FindById → ProcessBeforeDelete: the load error comes
                     BEFORE any delete constraint (and so before the system check)
    DeleteWhere      QueryIds works on the stored fields (no entity is loaded), then DeleteById per id
    cascade          fkDeleteCascadeConstraint: DeleteById per referrer, first error stops

  The stored form of the required field is the `name` slot of the bucket: the model is polymorphic
  in the type `N` of stored names, and WHICH stored forms make `FillEntity` fail is a parameter of
  the entity strategy (`Strat.fillFails`); `loadable` is derived from the stored data and the
  strategy.  Raw bucket writes (bare `*bbolt.Tx`, no context: `LOp.rawName`) put any stored form
  there.  The layer wraps `step` of Model.lean: an operation is `step` unless a load fails.
-/
namespace StorageModel.C16

section
variable {K N T : Type} [DecidableEq K]

/-- the entity strategy as far as loading goes: the stored forms of the required field for which
    `FillEntity` puts an error into the bucket's error holder -/
structure Strat (N : Type) where
  fillFails : N → Bool

/-- **the `loadable` bit**: derived from the stored data and the strategy -/
def Ent.loadable (σ : Strat N) (e : Ent K N T) : Bool := !σ.fillFails e.name

/-- `FindById` on this id returns `FillEntity`'s error (a missing bucket is "not found", no error) -/
def unloadable (σ : Strat N) (s : St K N T) (id : K) : Bool :=
  match s.ents.get id with
  | some e => σ.fillFails e.name
  | none => false

inductive LErr
  | base (e : Err)
  /-- the FindById the operation starts with returned the load error: nothing was written -/
  | load
  /-- `loadFinalState()` of Create / Update returned it: AFTER the entity was persisted -/
  | loadFinal
  /-- the load error coming out of a cascade / DeleteWhere (entities before it are deleted) -/
  | viaLoad
  deriving DecidableEq, Repr

def LErr.ignorable : LErr → Bool
  | .base e => e.ignorable
  | .load => true
  | _ => false

inductive LOp (K N T : Type)
  | base (op : Op K N T)
  /-- raw write of the required field's key in the entity bucket (`bucket.Delete` / `bucket.Put`
      on a bare transaction): any stored form, no context -/
  | rawName (id : K) (n : N)

structure LOut (K N T : Type) where
  st : St K N T
  err : Option LErr := none

def Out.lift (o : Out K N T) : LOut K N T := { st := o.st, err := o.err.map .base }

/-- `changeFlow.loadFinalState()`: FindById on what is stored now; its error wins over `bucket.Err` -/
def afterLoad (σ : Strat N) (id : K) (o : Out K N T) : LOut K N T :=
  if unloadable σ o.st id then { st := o.st, err := some .loadFinal } else o.lift

/-- `S.DeleteById` per id: the load error comes first, then the delete constraints -/
def ldelMany (σ : Strat N) (sys : Bool) : St K N T → List K → St K N T × Option LErr
  | s, [] => (s, none)
  | s, id :: ids =>
    if unloadable σ s id then (s, some .load)
    else if refused s id sys then (s, some (.base .sysDelete))
    else ldelMany σ sys (s.delEnt id) ids

def viaErr : LErr → LErr
  | .load => .viaLoad
  | _ => .base .viaSysDelete

variable [KeyOrd K] [DecidableEq N]

def lstep (σ : Strat N) (s : St K N T) : LOp K N T → LOut K N T
  | .rawName id n =>
    match s.ents.get id with
    | none => { st := s, err := some (.base .notFound) }
    | some e => { st := s.putEnt id { e with name := n } }
  | .base (.create sys id blank v) =>
    if blank then (step s (.create sys id blank v)).lift
    else match s.ents.get id with
    | some _ => (step s (.create sys id blank v)).lift
    | none => afterLoad σ id (step s (.create sys id blank v))
  | .base (.ccreate sys id blank v lvl) =>
    if blank then (step s (.ccreate sys id blank v lvl)).lift
    else match s.ents.get id with
    | some e =>
      if e.level.isSome then (step s (.ccreate sys id blank v lvl)).lift
      else afterLoad σ id (step s (.ccreate sys id blank v lvl))
    | none => afterLoad σ id (step s (.ccreate sys id blank v lvl))
  | .base (.update sys id v sn st so) =>
    if unloadable σ s id then { st := s, err := some .load }
    else afterLoad σ id (step s (.update sys id v sn st so))
  | .base (.cupdate sys id v sn st so sl lvl) =>
    match s.ents.get id with
    | none => (step s (.cupdate sys id v sn st so sl lvl)).lift
    | some e =>
      -- the child store's FindById: no child sub-bucket = not found, whatever the parent part holds
      if e.level.isNone then (step s (.cupdate sys id v sn st so sl lvl)).lift
      else if σ.fillFails e.name then { st := s, err := some .load }
      else afterLoad σ id (step s (.cupdate sys id v sn st so sl lvl))
  | .base (.delete sys id) =>
    if unloadable σ s id then { st := s, err := some .load } else (step s (.delete sys id)).lift
  | .base (.cdelete sys id) =>
    if unloadable σ s id then { st := s, err := some .load } else (step s (.cdelete sys id)).lift
  | .base (.odelete sys id) =>
    if id ∈ s.owners then
      let r := ldelMany σ (cascadeCtx sys) s (refs s id)
      match r.2 with
      | some e => { st := r.1, err := some (viaErr e) }
      | none => { st := { r.1 with ents := unlinkAll r.1.ents id, owners := r.1.owners.filter (· ≠ id) } }
    else (step s (.odelete sys id)).lift
  | .base (.deleteWhere sys q) =>
    let r := ldelMany σ sys s (matching s q)
    match r.2 with
    | some e => { st := r.1, err := some (viaErr e) }
    | none => { st := r.1 }
  | .base (.read id) =>
    if unloadable σ s id then { st := s, err := some .load } else { st := s }
  | .base op => (step s op).lift

def lrunOps (σ : Strat N) (keepGoing : Bool) : St K N T → List (LOp K N T) → St K N T × Bool
  | s, [] => (s, false)
  | s, op :: ops =>
    let o := lstep σ s op
    match o.err with
    | none => lrunOps σ keepGoing o.st ops
    | some e => if keepGoing && e.ignorable then lrunOps σ keepGoing o.st ops else (o.st, true)

def lcommitTx (σ : Strat N) (s : St K N T) (tx : Bool × List (LOp K N T)) : St K N T :=
  let r := lrunOps σ tx.1 s tx.2
  if r.2 then s else r.1

def lrunHist (σ : Strat N) (s : St K N T) (txs : List (Bool × List (LOp K N T))) : St K N T :=
  txs.foldl (lcommitTx σ) s

/-! ### specification with unloadable entities: an operation that has to load an entity the strategy
    cannot load fails and changes nothing; a batch delete fails as a whole when one of the listed
    entities cannot be loaded (order-free, like the refusal) -/

def sunloadable (σ : Strat N) (s : SSt K N T) (id : K) : Bool :=
  match s.ents.get id with
  | some e => σ.fillFails e.name
  | none => false

def safterLoad (σ : Strat N) (id : K) : SRes K N T → SRes K N T
  | .ok s' => if sunloadable σ s' id then .fail false else .ok s'
  | .fail i => .fail i

def lsstep (σ : Strat N) (s : SSt K N T) : LOp K N T → SRes K N T
  | .rawName id n =>
    match s.ents.get id with
    | none => .fail true
    | some e => .ok { s with ents := s.ents.put id { e with name := n } }
  | .base (.create sys id blank v) => safterLoad σ id (sstep s (.create sys id blank v))
  | .base (.ccreate sys id blank v lvl) => safterLoad σ id (sstep s (.ccreate sys id blank v lvl))
  | .base (.update sys id v sn st so) =>
    if sunloadable σ s id then .fail true else safterLoad σ id (sstep s (.update sys id v sn st so))
  | .base (.cupdate sys id v sn st so sl lvl) =>
    if sunloadable σ s id then .fail true else safterLoad σ id (sstep s (.cupdate sys id v sn st so sl lvl))
  | .base (.delete sys id) => if sunloadable σ s id then .fail true else sstep s (.delete sys id)
  | .base (.cdelete sys id) => if sunloadable σ s id then .fail true else sstep s (.cdelete sys id)
  | .base (.odelete sys id) =>
    if decide (id ∈ s.owners) && (srefs s id).any (sunloadable σ s) then .fail false else sstep s (.odelete sys id)
  | .base (.deleteWhere sys q) =>
    if (smatching s q).any (sunloadable σ s) then .fail false else sstep s (.deleteWhere sys q)
  | .base (.read id) => if sunloadable σ s id then .fail true else .ok s
  | .base op => sstep s op

end
end StorageModel.C16
