import StorageModel.Base.Bytes
/-
  C16 — executable model of boltz/system_entity_constraint.go, the isSystem handling of
  boltz/base.go (CreateBaseValues writes the flag, UpdateBaseValues never does, LoadBaseValues
  reads it with default false), the system / ordinary MutateContext of boltz/tx_context.go and the
  constraint dispatch of boltz/indexes.go + boltz/store_crud.go (ProcessBeforeUpdate before the
  entity is persisted — on an errored bucket every typed setter is a no-op —, ProcessAfterUpdate
  after it, ProcessBeforeDelete before the bucket is deleted) — **including every path by which an
  operation on another entity or through another store reaches an entity of the constrained store**.

  The universe (harness/c16.go wires exactly this):

    O  "owners"   plain entities (ids)
    S  "foos"     ext-entities with a `name`, an fk `owner` → O (nullable, CascadeDelete: deleting an
                  owner runs `S.DeleteById(ctx.Ctx, …)` for every referring foo, in id order, stopping
                  at the first error — `fkDeleteCascadeConstraint.ProcessBeforeDelete`; which context
                  that nested call gets is `cascadeCtx`), a link set `peers` ↔ O (link collections take
                  a bare transaction: no context at all; deleting an owner unlinks it everywhere) and
                  the system-entity constraint (registered after the fk constraint) — on S, on C, or
                  on both: `Reg`, a field of the state (the schema the database was opened with)
    C  child store of S: a sub-bucket of the parent's entity bucket holding `level`; `PersistEntity`
                  persists the parent part through `ctx.GetParentContext()`, which keeps `IsCreate`:
                  `C.Create` over an existing parent RE-RUNS `CreateBaseValues` on the parent bucket;
                  the indexing context of C has S's as its `Parent`, so S's constraints (fk, system
                  check) run first on every C operation; `C.DeleteById` is `S.DeleteById`
    `S.DeleteWhere(ctx, q)` = `S.DeleteById(ctx, id)` for every match in id order, first error stops.

  An entity bucket is modelled by everything `BaseExtEntity` persists: the stored `isSystem` key
  (`none` = key absent), `createdAt` / `updatedAt` (either the clock or a value carried by the
  entity), the tags, plus name, owner, the child sub-bucket and the link set.  `SetBaseValues` /
  `CreateBaseValues` / `UpdateBaseValues` are followed branch by branch, including the `Migrate`
  field of the in-memory entity, which steers `CreateBaseValues` (and nothing else).  Every
  operation returns the state reached *including partial writes* and the Go error; `commitTx`
  models `Db.Update` (a body that returns an error is rolled back).  A nested
  `Db.Update(ctx.GetSystemContext(), …)` inside a transaction runs its body in the same bbolt
  transaction with that context (`DbImpl.Update`: `ctx.Tx() != nil → fn(ctx)`), i.e. it is the
  per-operation context flag `sys` of the model.
-/
namespace StorageModel.C16

/-! ### association-list maps -/

abbrev Map (κ ν : Type) := List (κ × ν)

namespace Map
variable {κ ν : Type} [DecidableEq κ]

def get : Map κ ν → κ → Option ν
  | [], _ => none
  | (k', v) :: m, k => if k' = k then some v else get m k

def del (m : Map κ ν) (k : κ) : Map κ ν := m.filter (fun p => p.1 ≠ k)

def put (m : Map κ ν) (k : κ) (v : ν) : Map κ ν := (k, v) :: del m k

/-- all the given keys removed -/
def delAll (m : Map κ ν) (ks : List κ) : Map κ ν := m.filter (fun p => decide (p.1 ∉ ks))

theorem get_del (m : Map κ ν) (k k' : κ) : get (del m k) k' = if k = k' then none else get m k' := by
  induction m with
  | nil => simp [del, get]
  | cons p m ih =>
    obtain ⟨a, v⟩ := p
    unfold del at ih ⊢
    by_cases ha : a = k
    · subst ha
      simp only [List.filter, ne_eq, not_true_eq_false, decide_false]
      rw [ih]; by_cases h : a = k' <;> simp [get, h]
    · simp only [List.filter, ne_eq, ha, not_false_eq_true, decide_true, get]
      rw [ih]
      by_cases h : k = k'
      · subst h; simp [ha]
      · simp [h]

theorem get_put (m : Map κ ν) (k k' : κ) (v : ν) :
    get (put m k v) k' = if k = k' then some v else get m k' := by
  unfold put
  by_cases h : k = k'
  · simp [get, h]
  · simp [get, h, get_del]

end Map

/-! ### the order in which bbolt hands out ids (only the *partial* state after a refused cascade
    depends on it) -/

class KeyOrd (κ : Type) where
  le : κ → κ → Bool

def insertKey {κ : Type} [KeyOrd κ] (x : κ) : List κ → List κ
  | [] => [x]
  | y :: ys => if KeyOrd.le x y then x :: y :: ys else y :: insertKey x ys

def sortKeys {κ : Type} [KeyOrd κ] : List κ → List κ
  | [] => []
  | x :: xs => insertKey x (sortKeys xs)

/-! ### state -/

/-- a persisted timestamp: `time.Now()` (not compared) or a value carried by the entity -/
inductive Stamp (T : Type)
  | now
  | given (t : T)
  deriving DecidableEq, Repr

/-- an entity bucket of S: what `BaseExtEntity` persists, name, owner, the child store's sub-bucket
    and the link set -/
structure Ent (K N T : Type) where
  /-- the stored `isSystem` key: `none` = absent (read back as false) -/
  flag : Option Bool
  name : N
  /-- the tags map, reduced to the value under one key (`none` = no such key) -/
  tags : Option N
  created : Stamp T
  updated : Stamp T
  /-- fk `owner` (`none` = the empty string) -/
  owner : Option K
  /-- the child store's data (`none` = no child sub-bucket) -/
  level : Option N
  /-- link set `peers` -/
  peers : List K
  deriving DecidableEq, Repr

/-- **where the system-entity constraint is registered** — a parameter of the schema: on the parent
    store S, on the child store C (through the `isSystem` symbol S grants it), on both, on neither -/
structure Reg where
  onS : Bool
  onC : Bool
  /-- the SHAPE of the constrained store: does a child store exist (registered on S with
      `RegisterChildStoreStrategy`)?  `false` = S is a plain store — no parent, no child store
      strategies —, the operations through C do not exist (`Op.viaChild`; histories of that shape
      contain none) and no bucket ever has child data.  On buckets without child data `S.Update` and
      `S.DeleteById` take the same path in both shapes (the loops over `childStoreStrategies` find
      nothing to do), so the shape does not enter `step`; it delimits the histories. -/
  childStore : Bool := true
  deriving DecidableEq, Repr

structure St (K N T : Type) where
  ents : Map K (Ent K N T)
  /-- the ids present in store O -/
  owners : List K
  /-- the schema the database was opened with; no operation changes it -/
  reg : Reg
  deriving Repr

def St.empty {K N T : Type} (reg : Reg) : St K N T := { ents := [], owners := [], reg := reg }

/-- `LoadBaseValues`: `bucket.GetBoolWithDefault(FieldIsSystemEntity, false)` -/
def Ent.isSystem {K N T : Type} (e : Ent K N T) : Bool := e.flag.getD false

/-- **which constraint lists an operation on this bucket runs through.**  S's constraints run on
    every operation that touches the entity: operations through S use S's indexing context, and the
    indexing context of C has S's as its `Parent`, processed first.  C's constraints run only when
    the operation goes through C's indexing context: `C.Create` / `C.Update`; `S.Update` of an entity
    WITH child data (`ChildStoreUpdateHandler.HandleUpdate` hands it to `C.Update`); `S.DeleteById` /
    `C.DeleteById` of an entity WITH child data (`DeleteById` walks
    `handler.GetStore().processDeleteConstraints`, which returns `nil, nil` when the child store has
    no data for the id).  An operation through S on an entity without child data never reaches
    C's constraints.  In every one of these cases "C's constraints run" coincides with "the bucket
    has (after a create: now has) a child sub-bucket". -/
def guarded {K N T : Type} (reg : Reg) (e : Ent K N T) : Bool := reg.onS || (reg.onC && e.level.isSome)

/-- a system entity some registered constraint looks at -/
def Ent.protectedBy {K N T : Type} (e : Ent K N T) (reg : Reg) : Bool := guarded reg e && e.isSystem

/-- the in-memory entity handed to `Create` / `Update`: every field of `BaseExtEntity` (besides the
    id), the name and the owner -/
structure Vals (K N T : Type) where
  /-- `IsSystem` -/
  flag : Bool
  /-- `Migrate` -/
  migrate : Bool
  /-- `CreatedAt`, `UpdatedAt` -/
  cAt : T
  uAt : T
  tags : Option N
  name : N
  owner : Option K
  deriving Repr

/-- `BaseExtEntity.CreateBaseValues` -/
def createBaseValues {K N T : Type} (v : Vals K N T) (e : Ent K N T) : Ent K N T :=
  -- if entity.Migrate { SetTimeP(createdAt, &entity.CreatedAt); SetTimeP(updatedAt, &entity.UpdatedAt) } else { now, now }
  let e1 := if v.migrate then { e with created := .given v.cAt, updated := .given v.uAt }
            else { e with created := .now, updated := .now }
  -- PutMap(tags, entity.Tags, nil, false)
  let e2 := { e1 with tags := v.tags }
  -- if entity.IsSystem { SetBool(isSystem, true, nil) }
  if v.flag then { e2 with flag := some true } else e2

/-- `BaseExtEntity.UpdateBaseValues`: `updatedAt := now` (nil checker), tags through the field
    checker; `isSystem`, `createdAt` and the entity's `Migrate` / `IsSystem` / timestamps are not
    looked at -/
def updateBaseValues {K N T : Type} (v : Vals K N T) (setTags : Bool) (e : Ent K N T) : Ent K N T :=
  { e with updated := .now, tags := if setTags then v.tags else e.tags }

/-- `BaseExtEntity.SetBaseValues`: `if ctx.IsCreate { CreateBaseValues } else { UpdateBaseValues }` -/
def setBaseValues {K N T : Type} (isCreate : Bool) (v : Vals K N T) (setTags : Bool) (e : Ent K N T) : Ent K N T :=
  if isCreate then createBaseValues v e else updateBaseValues v setTags e

/-- S's `PersistEntity`: `entity.SetBaseValues(ctx); ctx.SetString("name", …); ctx.SetString("owner", …)` -/
def persist {K N T : Type} (isCreate : Bool) (v : Vals K N T) (setName setTags setOwner : Bool) (e : Ent K N T) :
    Ent K N T :=
  let e1 := setBaseValues isCreate v setTags e
  let e2 := if setName then { e1 with name := v.name } else e1
  if setOwner then { e2 with owner := v.owner } else e2

/-- the freshly created, still empty entity bucket (the name slot is filled by `persist`) -/
def blankEnt {K N T : Type} (n : N) : Ent K N T :=
  { flag := none, name := n, tags := none, created := .now, updated := .now, owner := none, level := none, peers := [] }

inductive Err
  | sysCreate   -- "cannot create system … in a non-system context"
  | sysUpdate   -- errorz.EntityCanNotBeUpdated wrapping "cannot update system …"
  | sysDelete   -- errorz.EntityCanNotBeDeleted wrapping "cannot delete system …"
  | notFound
  | exists
  | blank
  | noOwner     -- fk constraint: the owner does not exist (also: the far end of a link does not exist)
  | viaSysDelete -- "cannot delete system …" coming out of a cascade / DeleteWhere
  deriving DecidableEq, Repr

/-- the failures that are raised before anything was written: a caller who ignores one of these
    and commits has committed nothing of the failed operation.  Every other failure leaves partial
    writes in the open transaction (the entity of a refused create, the referrers deleted before a
    refused one, …). -/
def Err.ignorable : Err → Bool
  | .notFound | .exists | .blank | .sysUpdate | .sysDelete => true
  | _ => false

/-- `S.DeleteWhere` queries used by the harness -/
inductive Query (K N : Type)
  | all
  | name (n : N)
  | owner (o : K)
  /-- `isSystem = b`: compares the STORED key (an absent key matches neither) -/
  | flag (b : Bool)
  deriving Repr

inductive Op (K N T : Type)
  /-- `S.Create(ctx, entity)`; `sys` = the context is a system context -/
  | create (sys : Bool) (id : K) (blank : Bool) (v : Vals K N T)
  /-- `S.Update(ctx, entity, checker)`; `setName` / `setTags` / `setOwner` = the checker is nil or
      lists the field (whether it lists "isSystem", "createdAt", … is irrelevant to the code and
      therefore not a parameter of the model; the harness varies it) -/
  | update (sys : Bool) (id : K) (v : Vals K N T) (setName setTags setOwner : Bool)
  | delete (sys : Bool) (id : K)
  /-- `C.Create`: the parent part may or may not exist already -/
  | ccreate (sys : Bool) (id : K) (blank : Bool) (v : Vals K N T) (lvl : N)
  | cupdate (sys : Bool) (id : K) (v : Vals K N T) (setName setTags setOwner setLevel : Bool) (lvl : N)
  /-- `C.DeleteById` = `store.parent.DeleteById(ctx, id)` -/
  | cdelete (sys : Bool) (id : K)
  | ocreate (id : K) (blank : Bool)
  /-- `O.DeleteById`: cascades to the referring entities of S -/
  | odelete (sys : Bool) (id : K)
  | deleteWhere (sys : Bool) (q : Query K N)
  /-- `peers.AddLinks(tx, foo, owner)` / `RemoveLinks`: no context -/
  | link (sid oid : K)
  | unlink (sid oid : K)
  | read (id : K)
  deriving Repr

/-- the operation goes through the child store (exists only in the shape with a child store) -/
def Op.viaChild {K N T : Type} : Op K N T → Bool
  | .ccreate .. => true
  | .cupdate .. => true
  | .cdelete .. => true
  | _ => false

/-- the operation exists in the schema's shape -/
def Op.fits {K N T : Type} (reg : Reg) (op : Op K N T) : Bool := reg.childStore || !op.viaChild

section
variable {K N T : Type} [DecidableEq K]

def St.putEnt (s : St K N T) (id : K) (e : Ent K N T) : St K N T := { s with ents := s.ents.put id e }
def St.delEnt (s : St K N T) (id : K) : St K N T := { s with ents := s.ents.del id }

/-- `systemEntityConstraint.checkOperation` of whichever registered constraint the operation runs
    through (`guarded`): the STORED flag, and the kind of context -/
def refused (s : St K N T) (id : K) (sys : Bool) : Bool :=
  match s.ents.get id with
  | some e => e.protectedBy s.reg && !sys
  | none => false

structure Out (K N T : Type) where
  st : St K N T
  err : Option Err := none

/-- `fkConstraint.ProcessAfterUpdate`: an empty value is fine (nullable), anything else must exist in O -/
def ownerOk (s : St K N T) : Option K → Bool
  | none => true
  | some o => decide (o ∈ s.owners)

/-- the context `fkDeleteCascadeConstraint.ProcessBeforeDelete` hands to the nested
    `targetStore.DeleteById`: `ctx.Ctx`, the caller's own -/
def cascadeCtx (sys : Bool) : Bool := sys

/-- `S.DeleteById(ctx, id)` for every id of the list (a cursor never yields a missing id: deleting
    one is a no-op); stops at the first refusal, keeping what was deleted so far -/
def delMany (sys : Bool) : St K N T → List K → St K N T × Option Err
  | s, [] => (s, none)
  | s, id :: ids => if refused s id sys then (s, some .sysDelete) else delMany sys (s.delEnt id) ids

/-- what `PersistEntity` with `IsCreate` leaves in bucket `e0` (`lvl`: through the child store, whose
    strategy persists the parent part through `GetParentContext()` — `CreateBaseValues` runs on the
    parent bucket — and then its own `level`) -/
def mkEnt (v : Vals K N T) (lvl : Option N) (e0 : Ent K N T) : Ent K N T :=
  let e1 := persist true v true true true e0
  match lvl with
  | some l => { e1 with level := some l }
  | none => e1

/-- body of `Create` once the id checks have passed, writing into bucket `e0` (a fresh one, or —
    for the child store — the parent's existing bucket): `PersistEntity`, then
    `ProcessAfterUpdate`: S's fk constraint, then the system check **on what is now stored** -/
def createOn (s : St K N T) (sys : Bool) (id : K) (v : Vals K N T) (lvl : Option N) (e0 : Ent K N T) : Out K N T :=
  let s1 := s.putEnt id (mkEnt v lvl e0)
  if !ownerOk s v.owner then { st := s1, err := some .noOwner }
  else if refused s1 id sys then { st := s1, err := some .sysCreate }
  else { st := s1 }

/-- what `PersistEntity` without `IsCreate` makes of the stored bucket `e` (`lvl`: through the child
    store: `(the checker lets "level" through, the value)`) -/
def updEnt (v : Vals K N T) (sn st so : Bool) (lvl : Option (Bool × N)) (e : Ent K N T) : Ent K N T :=
  let e1 := persist false v sn st so e
  match lvl with
  | some (true, l) => { e1 with level := some l }
  | _ => e1

/-! ### the entity bucket with its error holder (round 9)

  `Update` does not branch on the verdict of `ProcessBeforeUpdate`: the system check puts its error
  into the entity bucket's `ErrorHolderImpl` (`ctx.ErrHolder` of the indexing context IS the bucket;
  `GetParentContext()` shares it between the child store's and the parent's persist context),
  `PersistEntity` runs all the same, `ProcessAfterUpdate` skips the constraints of a holder that has
  an error, and `bucket.Err` is returned.  That a refused update writes nothing therefore rests on
  EVERY setter the strategy calls asking `ProceedWithSet` first.  The model follows that: a
  `PersistEntity` is a list of setter calls (`Write`) run against a bucket `Bkt` that carries the
  error holder. -/

/-- a `TypedBucket` during `Update`: the content of the entity bucket, its error holder, and whether
    anything was `Put` into it -/
structure Bkt (K N T : Type) where
  ent : Ent K N T
  err : Option Err
  wrote : Bool := false

/-- `TypedBucket.ProceedWithSet(name, checker)`:
    `bucket.Err == nil && (checker == nil || checker.IsUpdated(name))`; `chk` = the second conjunct -/
def Bkt.proceedWithSet (b : Bkt K N T) (chk : Bool) : Bool := b.err.isNone && chk

/-- one setter call of a `PersistEntity` -/
inductive Write (K N T : Type)
  /-- `SetString`, `SetStringP`, `GetAndSetString`, `SetBool`, `SetInt32`, `SetInt64`, `SetFloat64`,
      `SetTime`, `SetTimeP`, `PutMap` / `SetMap`, `PutList`, `SetStringList`, `GetAndSetStringList`,
      `SetLinkedIds`: `if ProceedWithSet(field) { write }` (`w` = what the write does to the bucket) -/
  | set (chk : Bool) (w : Ent K N T → Ent K N T)
  /-- `SetRequiredString`: `if ProceedWithSet(field) { if value == "" { SetError(field error); return }; write }` -/
  | require (chk : Bool) (blank : Bool) (er : Err) (w : Ent K N T → Ent K N T)

/-- the shape of a setter's source as the extractor (`/verif/extract/c16setters.go`, from
    boltz/typed_bucket.go and boltz/base.go) classifies it:
    `gated`: `[x := recv.Get…(…)]* ; if recv.ProceedWithSet(field[, checker]) { … } ; [return …]*`;
    `required`: gated, the block starting with `if value == "" { SetError(…); return }`;
    `delegate`: a `PersistContext` method whose body is one call of a gated `TypedBucket` setter on
    `ctx.Bucket` with `ctx.FieldChecker`; `unknown`: anything else -/
inductive SetterShape
  | gated | required | delegate | unknown
  deriving DecidableEq, Repr

/-- what a call of a setter of that shape is in the model (`none`: the model has no meaning for it) -/
def SetterShape.write : SetterShape → (chk blank : Bool) → Err → (Ent K N T → Ent K N T) → Option (Write K N T)
  | .gated, chk, _, _, w => some (.set chk w)
  | .delegate, chk, _, _, w => some (.set chk w)
  | .required, chk, blank, er, w => some (.require chk blank er w)
  | .unknown, _, _, _, _ => none

def SetterShape.modelled : SetterShape → Bool
  | .unknown => false
  | _ => true

def Write.run : Write K N T → Bkt K N T → Bkt K N T
  | .set chk w, b => if b.proceedWithSet chk then { b with ent := w b.ent, wrote := true } else b
  | .require chk blank er w, b =>
    if b.proceedWithSet chk then
      (if blank then { b with err := some er } else { b with ent := w b.ent, wrote := true })
    else b

/-- `PersistEntity`: the strategy's setter calls, in order, against one bucket -/
def runWrites (ws : List (Write K N T)) (b : Bkt K N T) : Bkt K N T := ws.foldl (fun b w => w.run b) b

/-- `PersistEntity` of S with `IsCreate = false`, statement by statement: `UpdateBaseValues`
    (`SetTimeP(updatedAt, &now, nil)`, `PutMap(tags, …, checker)`), the name, the owner; through the
    child store the parent part comes first (`GetParentContext()`: same error holder), then `level`.
    The harness's WIDE strategies (case kinds ending in `W`) persist the name / the level through
    `GetAndSetString` / `SetStringP` and, next to it, copies derived from it through every other
    setter (`SetRequiredString`, `SetInt32`, `SetInt64`, `SetBool`, `SetTime(P)`, `SetFloat64`,
    `SetStringList`, `GetAndSetStringList`, `SetMap`, `PutList`) under the same checker bit: in the
    model that is the one `name` (`level`) write — the view reports a copy that disagrees. -/
def stratWrites (v : Vals K N T) (sn st so : Bool) (lvl : Option (Bool × N)) : List (Write K N T) :=
  [ .set true (fun e => { e with updated := .now }),
    .set st (fun e => { e with tags := v.tags }),
    .set sn (fun e => { e with name := v.name }),
    .set so (fun e => { e with owner := v.owner }) ] ++
  match lvl with
  | some (sl, l) => [ .set sl (fun e => { e with level := some l }) ]
  | none => []

/-- body of `Update` on the stored bucket `e`, for ANY strategy (`ws` = the setter calls of its
    `PersistEntity`): `ProcessBeforeUpdate` (the system check puts its error into the bucket's
    error holder), `PersistEntity`, `ProcessAfterUpdate` (skipped when the holder has an error; fk:
    only a CHANGED owner is looked up), `return bucket.Err` -/
def updateWith (ws : List (Write K N T)) (s : St K N T) (sys : Bool) (id : K) (e : Ent K N T) : Out K N T :=
  let b0 : Bkt K N T := { ent := e, err := if refused s id sys then some .sysUpdate else none }
  let b1 := runWrites ws b0
  let s1 := if b1.wrote then s.putEnt id b1.ent else s
  match b1.err with
  | some er => { st := s1, err := some er }
  | none =>
    if decide (b1.ent.owner ≠ e.owner) && !ownerOk s b1.ent.owner then { st := s1, err := some .noOwner } else { st := s1 }

/-- `Update` of S / C: `updateWith` the strategy of the universe (`updateOn_eq`: a refused update
    returns `sysUpdate` with the state untouched, otherwise the bucket becomes `updEnt …`) -/
def updateOn (s : St K N T) (sys : Bool) (id : K) (v : Vals K N T) (sn st so : Bool) (lvl : Option (Bool × N))
    (e : Ent K N T) : Out K N T :=
  updateWith (stratWrites v sn st so lvl) s sys id e

/-- `S.DeleteById` (also reached through C): not found; `ProcessBeforeDelete` — for an entity with
    child data the child store's constraints run first, and they start with S's (`Parent`) —; else
    the bucket, including the child sub-bucket and the link set, is deleted -/
def deleteOne (s : St K N T) (sys : Bool) (id : K) : Out K N T :=
  match s.ents.get id with
  | none => { st := s, err := some .notFound }
  | some _ => if refused s id sys then { st := s, err := some .sysDelete } else { st := s.delEnt id }

def unlinkEnt (o : K) (e : Ent K N T) : Ent K N T := { e with peers := e.peers.filter (· ≠ o) }

/-- link clean-up when an owner is deleted: it disappears from every link set -/
def unlinkAll (m : Map K (Ent K N T)) (o : K) : Map K (Ent K N T) := m.map fun p => (p.1, unlinkEnt o p.2)

def Query.eval (q : Query K N) [DecidableEq N] (e : Ent K N T) : Bool :=
  match q with
  | .all => true
  | .name n => decide (e.name = n)
  | .owner o => decide (e.owner = some o)
  | .flag b => decide (e.flag = some b)

variable [KeyOrd K]

/-- the entities of S whose `owner` is `o`, in cursor order -/
def refs (s : St K N T) (o : K) : List K :=
  sortKeys ((s.ents.filter fun p => decide (p.2.owner = some o)).map (·.1))

def matching [DecidableEq N] (s : St K N T) (q : Query K N) : List K :=
  sortKeys ((s.ents.filter fun p => q.eval p.2).map (·.1))

variable [DecidableEq N]

def step (s : St K N T) : Op K N T → Out K N T
  | .create sys id blank v =>
    if blank then { st := s, err := some .blank }
    else match s.ents.get id with
    | some _ => { st := s, err := some .exists }
    | none => createOn s sys id v none (blankEnt v.name)
  | .ccreate sys id blank v lvl =>
    if blank then { st := s, err := some .blank }
    else match s.ents.get id with
    | some e =>
      -- `IsEntityPresent` of the child store looks at the child sub-bucket only
      if e.level.isSome then { st := s, err := some .exists } else createOn s sys id v (some lvl) e
    | none => createOn s sys id v (some lvl) (blankEnt v.name)
  | .update sys id v sn st so =>
    -- (an entity with child data is handed to `C.Update` with its stored level: same effect)
    match s.ents.get id with
    | none => { st := s, err := some .notFound }
    | some e => updateOn s sys id v sn st so none e
  | .cupdate sys id v sn st so sl lvl =>
    match s.ents.get id with
    | none => { st := s, err := some .notFound }
    | some e =>
      if e.level.isNone then { st := s, err := some .notFound } else updateOn s sys id v sn st so (some (sl, lvl)) e
  | .delete sys id => deleteOne s sys id
  | .cdelete sys id => deleteOne s sys id
  | .ocreate id blank =>
    if blank then { st := s, err := some .blank }
    else if id ∈ s.owners then { st := s, err := some .exists }
    else { st := { s with owners := id :: s.owners } }
  | .odelete sys id =>
    if id ∈ s.owners then
      -- ProcessBeforeDelete: fkDeleteCascadeConstraint
      let r := delMany (cascadeCtx sys) s (refs s id)
      match r.2 with
      | some _ => { st := r.1, err := some .viaSysDelete }
      | none =>
        -- cleanupLinks, then the bucket goes
        { st := { r.1 with ents := unlinkAll r.1.ents id, owners := r.1.owners.filter (· ≠ id) } }
    else { st := s, err := some .notFound }
  | .deleteWhere sys q =>
    let r := delMany sys s (matching s q)
    match r.2 with
    | some _ => { st := r.1, err := some .viaSysDelete }
    | none => { st := r.1 }
  | .link sid oid =>
    match s.ents.get sid with
    | none => { st := s, err := some .notFound }
    | some e =>
      -- the local entry is written first, then the far side is looked up
      let s1 := s.putEnt sid { e with peers := oid :: e.peers.filter (· ≠ oid) }
      if oid ∈ s.owners then { st := s1 } else { st := s1, err := some .noOwner }
  | .unlink sid oid =>
    match s.ents.get sid with
    | none => { st := s, err := some .notFound }
    | some e => { st := s.putEnt sid (unlinkEnt oid e) }
  | .read _ => { st := s }

/-- the body of one `Db.Update`.  `keepGoing`: the caller ignores the ignorable errors and carries
    on (and finally commits); any other error aborts.
    Returns the state reached and whether the body failed. -/
def runOps (keepGoing : Bool) : St K N T → List (Op K N T) → St K N T × Bool
  | s, [] => (s, false)
  | s, op :: ops =>
    let o := step s op
    match o.err with
    | none => runOps keepGoing o.st ops
    | some e => if keepGoing && e.ignorable then runOps keepGoing o.st ops else (o.st, true)

def commitTx (s : St K N T) (tx : Bool × List (Op K N T)) : St K N T :=
  let r := runOps tx.1 s tx.2
  if r.2 then s else r.1

def runHist (s : St K N T) (txs : List (Bool × List (Op K N T))) : St K N T := txs.foldl commitTx s

/-! ### specification: what the property text says -/

/-- abstract entity: is it a system entity (fixed at creation), and the mutable rest (the link set
    is outside the property: link collections know no context) -/
structure SEnt (K N T : Type) where
  isSys : Bool
  name : N
  tags : Option N
  created : Stamp T
  updated : Stamp T
  owner : Option K
  level : Option N
  deriving DecidableEq, Repr

structure SSt (K N T : Type) where
  ents : Map K (SEnt K N T)
  owners : List K
  reg : Reg
  deriving Repr

def SSt.empty (reg : Reg) : SSt K N T := { ents := [], owners := [], reg := reg }

/-- the entities the property can be claimed for under a registration: system entities, and — when
    the constraint is registered on the child store only — those of them that have child data -/
def SEnt.protectedBy (e : SEnt K N T) (reg : Reg) : Bool := (reg.onS || (reg.onC && e.level.isSome)) && e.isSys

inductive SRes (K N T : Type)
  | ok (s : SSt K N T)
  /-- the operation fails and changes nothing; `ignorable` = a keep-going caller carries on -/
  | fail (ignorable : Bool)

def sownerOk (s : SSt K N T) : Option K → Bool
  | none => true
  | some o => decide (o ∈ s.owners)

/-- an ordinary context may not touch this id -/
def srefused (s : SSt K N T) (sys : Bool) (id : K) : Bool :=
  match s.ents.get id with
  | some e => e.protectedBy s.reg && !sys
  | none => false

def snew (v : Vals K N T) (isSys : Bool) (lvl : Option N) : SEnt K N T :=
  { isSys := isSys, name := v.name, tags := v.tags,
    created := if v.migrate then .given v.cAt else .now,
    updated := if v.migrate then .given v.uAt else .now,
    owner := v.owner, level := lvl }

def supdate (s : SSt K N T) (sys : Bool) (id : K) (v : Vals K N T) (sn st so : Bool) (lvl : Option N)
    (e : SEnt K N T) : SRes K N T :=
  if e.protectedBy s.reg && !sys then .fail true
  else
    let o := if so then v.owner else e.owner
    if decide (o ≠ e.owner) && !sownerOk s o then .fail false
    else .ok { s with ents := s.ents.put id { e with name := if sn then v.name else e.name,
                                                      tags := if st then v.tags else e.tags,
                                                      updated := .now, owner := o,
                                                      level := match lvl with | some l => some l | none => e.level } }

def sdelete (s : SSt K N T) (sys : Bool) (id : K) : SRes K N T :=
  match s.ents.get id with
  | none => .fail true
  | some e => if e.protectedBy s.reg && !sys then .fail true else .ok { s with ents := s.ents.del id }

/-- deleting a set of entities at once (cascade, DeleteWhere): refused as a whole — nothing is
    deleted — when an ordinary context would thereby delete a system entity -/
def sdeleteAll (s : SSt K N T) (sys : Bool) (ids : List K) : Option (SSt K N T) :=
  if ids.any (srefused s sys) then none else some { s with ents := s.ents.delAll ids }

def srefs (s : SSt K N T) (o : K) : List K := (s.ents.filter fun p => decide (p.2.owner = some o)).map (·.1)

def Query.seval (q : Query K N) (e : SEnt K N T) : Bool :=
  match q with
  | .all => true
  | .name n => decide (e.name = n)
  | .owner o => decide (e.owner = some o)
  -- the spec knows system / ordinary, not the storage form: `isSystem = true` finds the system
  -- entities, `isSystem = false` finds nothing the property speaks about (ordinary entities carry no key)
  | .flag b => b && e.isSys

def smatching (s : SSt K N T) (q : Query K N) : List K := (s.ents.filter fun p => q.seval p.2).map (·.1)

def sstep (s : SSt K N T) : Op K N T → SRes K N T
  | .create sys id blank v =>
    if blank || (s.ents.get id).isSome then .fail true
    else if !sownerOk s v.owner || ((snew v v.flag none).protectedBy s.reg && !sys) then .fail false
    else .ok { s with ents := s.ents.put id (snew v v.flag none) }
  | .ccreate sys id blank v lvl =>
    if blank then .fail true
    else match s.ents.get id with
    | some e =>
      if e.level.isSome then .fail true
      -- extending an existing entity re-creates its parent part: a system entity (and a create
      -- carrying the flag) needs a system context
      else if !sownerOk s v.owner || ((snew v (e.isSys || v.flag) (some lvl)).protectedBy s.reg && !sys) then .fail false
      else .ok { s with ents := s.ents.put id (snew v (e.isSys || v.flag) (some lvl)) }
    | none =>
      if !sownerOk s v.owner || ((snew v v.flag (some lvl)).protectedBy s.reg && !sys) then .fail false
      else .ok { s with ents := s.ents.put id (snew v v.flag (some lvl)) }
  | .update sys id v sn st so =>
    match s.ents.get id with
    | none => .fail true
    | some e => supdate s sys id v sn st so none e
  | .cupdate sys id v sn st so sl lvl =>
    match s.ents.get id with
    | none => .fail true
    | some e => if e.level.isNone then .fail true else supdate s sys id v sn st so (if sl then some lvl else none) e
  | .delete sys id => sdelete s sys id
  | .cdelete sys id => sdelete s sys id
  | .ocreate id blank =>
    if blank || decide (id ∈ s.owners) then .fail true else .ok { s with owners := id :: s.owners }
  | .odelete sys id =>
    if id ∈ s.owners then
      match sdeleteAll s sys (srefs s id) with
      | none => .fail false
      | some s' => .ok { s' with owners := s'.owners.filter (· ≠ id) }
    else .fail true
  | .deleteWhere sys q =>
    match sdeleteAll s sys (smatching s q) with
    | none => .fail false
    | some s' => .ok s'
  -- links are outside the property (no context is involved): both ends must exist, and the entity
  -- as the property sees it stays what it is (`put` of the unchanged entity: same map, the state is
  -- an association list)
  | .link sid oid =>
    match s.ents.get sid with
    | none => .fail true
    | some e => if oid ∈ s.owners then .ok { s with ents := s.ents.put sid e } else .fail false
  | .unlink sid _ =>
    match s.ents.get sid with
    | none => .fail true
    | some e => .ok { s with ents := s.ents.put sid e }
  | .read _ => .ok s

end
end StorageModel.C16
