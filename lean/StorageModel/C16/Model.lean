import StorageModel.Base.Bytes
/-
  C16 — executable model of boltz/system_entity_constraint.go, the isSystem handling of
  boltz/base.go (CreateBaseValues writes the flag, UpdateBaseValues never does, LoadBaseValues
  reads it with default false), the system / ordinary MutateContext of boltz/tx_context.go and the
  constraint dispatch of boltz/indexes.go + boltz/store_crud.go (ProcessBeforeUpdate before the
  entity is persisted — on an errored bucket every typed setter is a no-op —, ProcessAfterUpdate
  after it, ProcessBeforeDelete before the bucket is deleted).

  One store of ext-entities with a `name` field and the system-entity constraint.  An entity
  bucket is modelled by everything `BaseExtEntity` persists: the stored `isSystem` key (`none` =
  key absent), `createdAt` / `updatedAt` (either the clock or a value carried by the entity), the
  tags, plus the name.  `SetBaseValues` / `CreateBaseValues` / `UpdateBaseValues` are followed
  branch by branch, including the `Migrate` field of the in-memory entity, which steers
  `CreateBaseValues` (and nothing else).  Every
  operation returns the state reached *including partial writes* and the Go error; `commitTx`
  models `Db.Update` (a body that returns an error is rolled back).
-/
namespace StorageModel.C16

/-! ### association-list maps -/

abbrev Map (κ ν : Type) := List (κ × ν)

namespace Map
variable {κ ν : Type} [DecidableEq κ]

def get : Map κ ν → κ → Option ν
  | [], _ => none
  | (k', v) :: m, k => if k' = k then some v else get m k

def del (m : Map κ ν) (k : κ) : Map κ ν := m.filter (fun p => p.1 ≠ k)

def put (m : Map κ ν) (k : κ) (v : ν) : Map κ ν := (k, v) :: del m k

theorem get_del (m : Map κ ν) (k k' : κ) : get (del m k) k' = if k = k' then none else get m k' := by
  induction m with
  | nil => simp [del, get]
  | cons p m ih =>
    obtain ⟨a, v⟩ := p
    unfold del at ih ⊢
    by_cases ha : a = k
    · subst ha
      simp only [List.filter, ne_eq, not_true_eq_false, decide_false]
      rw [ih]; by_cases h : a = k' <;> simp [get, h]
    · simp only [List.filter, ne_eq, ha, not_false_eq_true, decide_true, get]
      rw [ih]
      by_cases h : k = k'
      · subst h; simp [ha]
      · simp [h]

theorem get_put (m : Map κ ν) (k k' : κ) (v : ν) :
    get (put m k v) k' = if k = k' then some v else get m k' := by
  unfold put
  by_cases h : k = k'
  · simp [get, h]
  · simp [get, h, get_del]

end Map

/-! ### state -/

/-- a persisted timestamp: `time.Now()` (not compared) or a value carried by the entity -/
inductive Stamp (T : Type)
  | now
  | given (t : T)
  deriving DecidableEq, Repr

/-- an entity bucket: what `BaseExtEntity` persists, and the name -/
structure Ent (N T : Type) where
  /-- the stored `isSystem` key: `none` = absent (read back as false) -/
  flag : Option Bool
  name : N
  /-- the tags map, reduced to the value under one key (`none` = no such key) -/
  tags : Option N
  created : Stamp T
  updated : Stamp T
  deriving DecidableEq, Repr

abbrev St (K N T : Type) := Map K (Ent N T)

/-- `LoadBaseValues`: `bucket.GetBoolWithDefault(FieldIsSystemEntity, false)` -/
def Ent.isSystem {N T : Type} (e : Ent N T) : Bool := e.flag.getD false

/-- the in-memory entity handed to `Create` / `Update`: every field of `BaseExtEntity` (besides the
    id) and the name -/
structure Vals (N T : Type) where
  /-- `IsSystem` -/
  flag : Bool
  /-- `Migrate` -/
  migrate : Bool
  /-- `CreatedAt`, `UpdatedAt` -/
  cAt : T
  uAt : T
  tags : Option N
  name : N
  deriving Repr

/-- `BaseExtEntity.CreateBaseValues` -/
def createBaseValues {N T : Type} (v : Vals N T) (e : Ent N T) : Ent N T :=
  -- if entity.Migrate { SetTimeP(createdAt, &entity.CreatedAt); SetTimeP(updatedAt, &entity.UpdatedAt) } else { now, now }
  let e1 := if v.migrate then { e with created := .given v.cAt, updated := .given v.uAt }
            else { e with created := .now, updated := .now }
  -- PutMap(tags, entity.Tags, nil, false)
  let e2 := { e1 with tags := v.tags }
  -- if entity.IsSystem { SetBool(isSystem, true, nil) }
  if v.flag then { e2 with flag := some true } else e2

/-- `BaseExtEntity.UpdateBaseValues`: `updatedAt := now` (nil checker), tags through the field
    checker; `isSystem`, `createdAt` and the entity's `Migrate` / `IsSystem` / timestamps are not
    looked at -/
def updateBaseValues {N T : Type} (v : Vals N T) (setTags : Bool) (e : Ent N T) : Ent N T :=
  { e with updated := .now, tags := if setTags then v.tags else e.tags }

/-- `BaseExtEntity.SetBaseValues`: `if ctx.IsCreate { CreateBaseValues } else { UpdateBaseValues }` -/
def setBaseValues {N T : Type} (isCreate : Bool) (v : Vals N T) (setTags : Bool) (e : Ent N T) : Ent N T :=
  if isCreate then createBaseValues v e else updateBaseValues v setTags e

/-- `PersistEntity`: `entity.SetBaseValues(ctx); ctx.SetString("name", entity.Name)` -/
def persist {N T : Type} (isCreate : Bool) (v : Vals N T) (setName setTags : Bool) (e : Ent N T) : Ent N T :=
  let e1 := setBaseValues isCreate v setTags e
  if setName then { e1 with name := v.name } else e1

/-- the freshly created, still empty entity bucket (the name slot is filled by `persist`) -/
def blankEnt {N T : Type} (n : N) : Ent N T :=
  { flag := none, name := n, tags := none, created := .now, updated := .now }

inductive Err
  | sysCreate   -- "cannot create system … in a non-system context"
  | sysUpdate   -- errorz.EntityCanNotBeUpdated wrapping "cannot update system …"
  | sysDelete   -- errorz.EntityCanNotBeDeleted wrapping "cannot delete system …"
  | notFound
  | exists
  | blank
  deriving DecidableEq, Repr

inductive Op (K N T : Type)
  /-- `store.Create(ctx, entity)`; `sys` = the context is a system context -/
  | create (sys : Bool) (id : K) (blank : Bool) (v : Vals N T)
  /-- `store.Update(ctx, entity, checker)`; `setName` / `setTags` = the checker is nil or lists the
      field (whether it lists "isSystem", "createdAt", … is irrelevant to the code and therefore not
      a parameter of the model; the harness varies it) -/
  | update (sys : Bool) (id : K) (v : Vals N T) (setName setTags : Bool)
  | delete (sys : Bool) (id : K)
  | read (id : K)
  deriving Repr

section
variable {K N T : Type} [DecidableEq K]

/-- `systemEntityConstraint.checkOperation`: the STORED flag, and the kind of context -/
def refused (s : St K N T) (id : K) (sys : Bool) : Bool :=
  match s.get id with
  | some e => e.isSystem && !sys
  | none => false

structure Out (K N T : Type) where
  st : St K N T
  err : Option Err := none

def step (s : St K N T) : Op K N T → Out K N T
  | .create sys id blank v =>
    if blank then { st := s, err := some .blank }
    else match s.get id with
    | some _ => { st := s, err := some .exists }
    | none =>
      -- PersistEntity (IsCreate, nil checker) → SetBaseValues → CreateBaseValues
      let s1 := s.put id (persist true v true true (blankEnt v.name))
      -- ProcessAfterUpdate (IsCreate): checkOperation on what is now stored
      if refused s1 id sys then { st := s1, err := some .sysCreate } else { st := s1 }
  | .update sys id v setName setTags =>
    match s.get id with
    | none => { st := s, err := some .notFound }
    | some e =>
      -- ProcessBeforeUpdate: the error lands in the bucket's error holder; every setter of
      -- PersistEntity then refuses to write; ProcessAfterUpdate is skipped; bucket.Err is returned
      if refused s id sys then { st := s, err := some .sysUpdate }
      else
        -- PersistEntity (not IsCreate) → SetBaseValues → UpdateBaseValues
        { st := s.put id (persist false v setName setTags e) }
  | .delete sys id =>
    match s.get id with
    | none => { st := s, err := some .notFound }
    | some _ =>
      if refused s id sys then { st := s, err := some .sysDelete }
      else { st := s.del id }
  | .read _ => { st := s }

/-- the body of one `Db.Update`.  `keepGoing`: the caller ignores every error except a refused
    create and carries on (and finally commits); a refused create always aborts.
    Returns the state reached and whether the body failed. -/
def runOps (keepGoing : Bool) : St K N T → List (Op K N T) → St K N T × Bool
  | s, [] => (s, false)
  | s, op :: ops =>
    let o := step s op
    match o.err with
    | none => runOps keepGoing o.st ops
    | some e => if keepGoing && e ≠ .sysCreate then runOps keepGoing o.st ops else (o.st, true)

def commitTx (s : St K N T) (tx : Bool × List (Op K N T)) : St K N T :=
  let r := runOps tx.1 s tx.2
  if r.2 then s else r.1

def runHist (s : St K N T) (txs : List (Bool × List (Op K N T))) : St K N T := txs.foldl commitTx s

/-! ### specification: what the property text says -/

/-- abstract entity: is it a system entity (fixed at creation), and the mutable rest -/
structure SEnt (N T : Type) where
  isSys : Bool
  name : N
  tags : Option N
  created : Stamp T
  updated : Stamp T
  deriving DecidableEq, Repr

abbrev SSt (K N T : Type) := Map K (SEnt N T)

/-- `none` = the operation fails (and then changes nothing) -/
def sstep (s : SSt K N T) : Op K N T → Option (SSt K N T)
  | .create sys id blank v =>
    if blank || (s.get id).isSome || (v.flag && !sys) then none
    else some (s.put id { isSys := v.flag, name := v.name, tags := v.tags,
                          created := if v.migrate then .given v.cAt else .now,
                          updated := if v.migrate then .given v.uAt else .now })
  | .update sys id v setName setTags =>
    match s.get id with
    | none => none
    | some e =>
      if e.isSys && !sys then none
      else some (s.put id { e with name := if setName then v.name else e.name,
                                   tags := if setTags then v.tags else e.tags,
                                   updated := .now })
  | .delete sys id =>
    match s.get id with
    | none => none
    | some e => if e.isSys && !sys then none else some (s.del id)
  | .read _ => some s

end
end StorageModel.C16
