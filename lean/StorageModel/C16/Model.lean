import StorageModel.Base.Bytes
/-
  C16 — executable model of boltz/system_entity_constraint.go, the isSystem handling of
  boltz/base.go (CreateBaseValues writes the flag, UpdateBaseValues never does, LoadBaseValues
  reads it with default false), the system / ordinary MutateContext of boltz/tx_context.go and the
  constraint dispatch of boltz/indexes.go + boltz/store_crud.go (ProcessBeforeUpdate before the
  entity is persisted — on an errored bucket every typed setter is a no-op —, ProcessAfterUpdate
  after it, ProcessBeforeDelete before the bucket is deleted).

  One store of ext-entities with a `name` field and the system-entity constraint.  An entity
  bucket is modelled by the stored `isSystem` key (`none` = key absent) and the name.  Every
  operation returns the state reached *including partial writes* and the Go error; `commitTx`
  models `Db.Update` (a body that returns an error is rolled back).
-/
namespace StorageModel.C16

/-! ### association-list maps -/

abbrev Map (κ ν : Type) := List (κ × ν)

namespace Map
variable {κ ν : Type} [DecidableEq κ]

def get : Map κ ν → κ → Option ν
  | [], _ => none
  | (k', v) :: m, k => if k' = k then some v else get m k

def del (m : Map κ ν) (k : κ) : Map κ ν := m.filter (fun p => p.1 ≠ k)

def put (m : Map κ ν) (k : κ) (v : ν) : Map κ ν := (k, v) :: del m k

theorem get_del (m : Map κ ν) (k k' : κ) : get (del m k) k' = if k = k' then none else get m k' := by
  induction m with
  | nil => simp [del, get]
  | cons p m ih =>
    obtain ⟨a, v⟩ := p
    unfold del at ih ⊢
    by_cases ha : a = k
    · subst ha
      simp only [List.filter, ne_eq, not_true_eq_false, decide_false]
      rw [ih]; by_cases h : a = k' <;> simp [get, h]
    · simp only [List.filter, ne_eq, ha, not_false_eq_true, decide_true, get]
      rw [ih]
      by_cases h : k = k'
      · subst h; simp [ha]
      · simp [h]

theorem get_put (m : Map κ ν) (k k' : κ) (v : ν) :
    get (put m k v) k' = if k = k' then some v else get m k' := by
  unfold put
  by_cases h : k = k'
  · simp [get, h]
  · simp [get, h, get_del]

end Map

/-! ### state -/

/-- the part of an entity bucket the property speaks about -/
structure Ent (N : Type) where
  /-- the stored `isSystem` key: `none` = absent (read back as false) -/
  flag : Option Bool
  name : N
  deriving DecidableEq, Repr

abbrev St (K N : Type) := Map K (Ent N)

/-- `LoadBaseValues`: `bucket.GetBoolWithDefault(FieldIsSystemEntity, false)` -/
def Ent.isSystem {N : Type} (e : Ent N) : Bool := e.flag.getD false

inductive Err
  | sysCreate   -- "cannot create system … in a non-system context"
  | sysUpdate   -- errorz.EntityCanNotBeUpdated wrapping "cannot update system …"
  | sysDelete   -- errorz.EntityCanNotBeDeleted wrapping "cannot delete system …"
  | notFound
  | exists
  | blank
  deriving DecidableEq, Repr

inductive Op (K N : Type)
  /-- `store.Create(ctx, &foo{IsSystem: flag, Name: name})`; `sys` = the context is a system context -/
  | create (sys : Bool) (id : K) (blank : Bool) (flag : Bool) (name : N)
  /-- `store.Update(ctx, &foo{IsSystem: flag, Name: name}, checker)`; `setName` = the checker is nil
      or lists "name" (whether it lists "isSystem" is irrelevant to the code and therefore not a
      parameter of the model; the harness varies it) -/
  | update (sys : Bool) (id : K) (flag : Bool) (name : N) (setName : Bool)
  | delete (sys : Bool) (id : K)
  | read (id : K)
  deriving Repr

section
variable {K N : Type} [DecidableEq K]

/-- `systemEntityConstraint.checkOperation`: the STORED flag, and the kind of context -/
def refused (s : St K N) (id : K) (sys : Bool) : Bool :=
  match s.get id with
  | some e => e.isSystem && !sys
  | none => false

structure Out (K N : Type) where
  st : St K N
  err : Option Err := none

def step (s : St K N) : Op K N → Out K N
  | .create sys id blank flag name =>
    if blank then { st := s, err := some .blank }
    else match s.get id with
    | some _ => { st := s, err := some .exists }
    | none =>
      -- PersistEntity → CreateBaseValues: the key is written only when the flag is set
      let s1 := s.put id { flag := if flag then some true else none, name := name }
      -- ProcessAfterUpdate (IsCreate): checkOperation on what is now stored
      if refused s1 id sys then { st := s1, err := some .sysCreate } else { st := s1 }
  | .update sys id _flag name setName =>
    match s.get id with
    | none => { st := s, err := some .notFound }
    | some e =>
      -- ProcessBeforeUpdate: the error lands in the bucket's error holder; every setter of
      -- PersistEntity then refuses to write; ProcessAfterUpdate is skipped; bucket.Err is returned
      if refused s id sys then { st := s, err := some .sysUpdate }
      else
        -- UpdateBaseValues never writes isSystem
        { st := if setName then s.put id { e with name := name } else s }
  | .delete sys id =>
    match s.get id with
    | none => { st := s, err := some .notFound }
    | some _ =>
      if refused s id sys then { st := s, err := some .sysDelete }
      else { st := s.del id }
  | .read _ => { st := s }

/-- the body of one `Db.Update`.  `keepGoing`: the caller ignores every error except a refused
    create and carries on (and finally commits); a refused create always aborts.
    Returns the state reached and whether the body failed. -/
def runOps (keepGoing : Bool) : St K N → List (Op K N) → St K N × Bool
  | s, [] => (s, false)
  | s, op :: ops =>
    let o := step s op
    match o.err with
    | none => runOps keepGoing o.st ops
    | some e => if keepGoing && e ≠ .sysCreate then runOps keepGoing o.st ops else (o.st, true)

def commitTx (s : St K N) (tx : Bool × List (Op K N)) : St K N :=
  let r := runOps tx.1 s tx.2
  if r.2 then s else r.1

def runHist (s : St K N) (txs : List (Bool × List (Op K N))) : St K N := txs.foldl commitTx s

/-! ### specification: what the property text says -/

/-- abstract entity: is it a system entity, and its name -/
abbrev SSt (K N : Type) := Map K (Bool × N)

/-- `none` = the operation fails (and then changes nothing) -/
def sstep (s : SSt K N) : Op K N → Option (SSt K N)
  | .create sys id blank flag name =>
    if blank || (s.get id).isSome || (flag && !sys) then none else some (s.put id (flag, name))
  | .update sys id _ name setName =>
    match s.get id with
    | none => none
    | some (isSys, _) =>
      if isSys && !sys then none else if setName then some (s.put id (isSys, name)) else some s
  | .delete sys id =>
    match s.get id with
    | none => none
    | some (isSys, _) => if isSys && !sys then none else some (s.del id)
  | .read _ => some s

end
end StorageModel.C16
