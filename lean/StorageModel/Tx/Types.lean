/-
  Tx/Types — data of the transaction / entity-event model shared by C07 and C08.

  Universe (wired for real in /verif/harness/c07_c08_*.go):
    store P  "things"  (base path ["u"]): name (non-nullable unique index), roles (set index),
                        ref (nullable fk index P.ref -> P.backrefs, restrict on delete)
    store C  plain child of P (path ["ext"]): rank
    store D  second plain child of P (path ["ext2"]): grade — registered after C; an entity may have data
             in C, in D, in both or in neither
    custom boltz.Constraint implementations registered with AddConstraint on P and on C (after the
    built-in indexes), which veto chosen (stage, id) pairs through ctx.ErrHolder.SetError
  The database is abstracted to the entity table; every index is a function of it (that the real
  index buckets are, is the subject of C03/C04 — here the harness compares the leaf dump of the real
  database with the rendering of this table after every committed transaction).
-/
namespace StorageModel.Tx

inductive StoreId | P | C | D
  deriving DecidableEq, Repr, Inhabited

/-- EntityCreated / EntityUpdated / EntityDeleted (the change type of an EntityChangeState) -/
inductive Kind | created | updated | deleted
  deriving DecidableEq, Repr, Inhabited

/-- the six EntityEventType values: a kind, synchronous or asynchronous -/
structure EvType where
  kind : Kind
  async : Bool
  deriving DecidableEq, Repr

/-- one step into the entity's `tags` value (a map[string]interface{} persisted with SetMap): a map key
    or a list index -/
inductive Seg
  | key (k : String)
  | idx (i : Nat)
  deriving DecidableEq, Repr

/-- what sits at the end of a path of the `tags` value.  `unsupported`: a Go value of a type
    TypedBucket.setMarshaled has no case for (uint16, []string, …) -/
inductive Leaf
  | str (s : String)
  | bool (b : Bool)
  | nil
  | unsupported (flavour : Nat)
  | emptyMap
  | emptyList
  deriving DecidableEq, Repr

def Leaf.isUnsupported : Leaf → Bool
  | .unsupported _ => true
  | _ => false

/-- the `tags` value, flattened: one entry per leaf (or empty container), with the path leading to it
    from the top-level map (so the first segment is a key) -/
structure TagEntry where
  path : List Seg
  leaf : Leaf
  deriving DecidableEq, Repr

structure PFields where
  name : String
  roles : List String
  ref : Option String
  /-- `tags map[string]interface{}`, persisted by the parent strategy with ctx.SetMap("tags", …) after the
      other fields -/
  tags : List TagEntry := []
  /-- `groups []string`: ids of entities of the second root store Q ("groups"), persisted by the parent
      strategy with ctx.SetLinkedIds("groups", …) (link collection things.groups ↔ groups.members) after
      the other fields -/
  links : List String := []
  deriving DecidableEq, Repr

structure Ent where
  f : PFields
  /-- `some rank` iff the entity has data in the child store C's bucket -/
  child : Option String
  /-- `some grade` iff the entity has data in the second child store D's bucket -/
  child2 : Option String := none
  deriving DecidableEq, Repr

abbrev Db := List (String × Ent)

namespace Db
def get (db : Db) (id : String) : Option Ent := (db.find? (fun p => p.1 == id)).map (·.2)
def del (db : Db) (id : String) : Db := db.filter (fun p => !(p.1 == id))
def put (db : Db) (id : String) (e : Ent) : Db := (id, e) :: del db id
def ids (db : Db) : List String := db.map (·.1)

@[simp] theorem get_nil (id : String) : get [] id = none := rfl

theorem get_del_same (db : Db) (id : String) : get (del db id) id = none := by
  induction db with
  | nil => rfl
  | cons p t ih =>
    unfold del at *
    simp only [List.filter]
    by_cases h : p.1 == id
    · simp [h, ih]
    · simp only [h, Bool.not_false]
      simp only [get, List.find?, h] at *
      exact ih

theorem get_del_other (db : Db) (id id' : String) (h : id' ≠ id) : get (del db id) id' = get db id' := by
  induction db with
  | nil => rfl
  | cons p t ih =>
    unfold del at *
    simp only [List.filter]
    by_cases h1 : p.1 == id
    · have : (p.1 == id') = false := by
        have := eq_of_beq h1
        simp [this, Ne.symm h]
      simp only [h1, Bool.not_true, get, List.find?, this] at *
      exact ih
    · simp only [h1, Bool.not_false]
      by_cases h2 : p.1 == id'
      · simp [get, List.find?, h2]
      · simp only [get, List.find?, h2] at *
        exact ih

@[simp] theorem get_put_same (db : Db) (id : String) (e : Ent) : get (put db id e) id = some e := by
  simp [put, get]

theorem get_put_other (db : Db) (id id' : String) (e : Ent) (h : id' ≠ id) :
    get (put db id e) id' = get db id' := by
  have : (id == id') = false := by simp [Ne.symm h]
  simp only [put, get, List.find?, this]
  exact get_del_other db id id' h
end Db

/-- what an entity listener / constraint gets to see -/
inductive EntView
  | parent (id : String) (f : PFields)
  | child (id : String) (f : PFields) (rank : String)
  | child2 (id : String) (f : PFields) (grade : String)
  deriving DecidableEq, Repr

/-- the store definition's ParentMapper (`&child.Thing`) -/
def EntView.toParent : EntView → EntView
  | .parent id f => .parent id f
  | .child id f _ => .parent id f
  | .child2 id f _ => .parent id f

def EntView.id : EntView → String
  | .parent id _ => id
  | .child id _ _ => id
  | .child2 id _ _ => id

/-- the data an entity has in a store's own bucket path (the parent store: none of its own to look for) -/
def Ent.data (e : Ent) : StoreId → Option String
  | .P => none
  | .C => e.child
  | .D => e.child2

/-- `GetEntityBucket != nil`: for the child store, the entity must have the child path -/
def present (σ : StoreId) (db : Db) (id : String) : Bool :=
  match db.get id with
  | none => false
  | some e => match σ with
    | .P => true
    | .C => e.child.isSome
    | .D => e.child2.isSome

/-- FindById's view (when the load does not fail) -/
def view (σ : StoreId) (db : Db) (id : String) : Option EntView :=
  match db.get id with
  | none => none
  | some e => match σ with
    | .P => some (.parent id e.f)
    | .C => e.child.map fun r => .child id e.f r
    | .D => e.child2.map fun g => .child2 id e.f g

/-- the three calls an Indexer makes on its constraints (boltz.Constraint) -/
inductive Stage | beforeUpdate | afterUpdate | beforeDelete
  deriving DecidableEq, Repr, Inhabited

/-- a custom boltz.Constraint registered with `store.AddConstraint` (appended to the store's
    Indexer.constraints, i.e. after the built-in indexes): in ProcessBeforeUpdate / ProcessAfterUpdate /
    ProcessBeforeDelete it calls `ctx.ErrHolder.SetError` for the listed (stage, row id) pairs -/
abbrev IxReg := List (Stage × String)

inductive Err
  | blankId | alreadyExists | notFound | dup | nullName | key | fkMissing | refExists
  | veto (store : StoreId) (reg : Nat)
  /-- raised through the IndexingContext's error holder by the custom index-stage constraint `reg` of `store` -/
  | ixVeto (store : StoreId) (reg : Nat)
  | caller (tag : Nat)
  | preCommit (tag : Nat)
  | parse | load | persist
  /-- TypedBucket.setMarshaled: "unsupported type … in map" -/
  | unsupported
  /-- LinkedSetSymbol.AddLink: the link target has no entity bucket (RecordNotFoundError) -/
  | linkMissing
  deriving DecidableEq, Repr

inductive Res | ok | err (e : Err)
  deriving DecidableEq, Repr

def Res.isOk : Res → Bool
  | .ok => true
  | _ => false

/-- how the Go code treats the error tested at one `if err != nil` site -/
inductive Ret
  | propagate   -- `return err`
  | returnNil   -- `return nil`
  | ignore      -- the error is not tested (or dropped) and execution continues
  deriving DecidableEq, Repr

/-- The return paths of boltz/store_crud.go and boltz/store.go, one field per site.  Regenerated by
    /verif/extract/returns.go into Generated/CrudReturns.lean on every run. -/
structure CrudReturns where
  /-- false when the extractor met a shape it has no reading for (the driver then answers
      `model-unknown` and the table obligation fails) -/
  recognised : Bool
  createValidate : Ret
  createPersist : Ret
  createLoad : Ret
  createParentEvent : Ret
  createOwnEvent : Ret
  createFinalHolder : Bool
  updateDelegate : Ret
  updateValidate : Ret
  updateFind : Ret
  updateNotFound : Ret
  updateLoad : Ret
  updateParentEvent : Ret
  updateOwnEvent : Ret
  updateFinalHolder : Bool
  deleteDelegate : Ret
  deleteFind : Ret
  deleteNotFound : Ret
  deleteChildConstraints : Ret
  deleteOwnConstraints : Ret
  deleteFireEvents : Ret
  deleteWhereQuery : Ret
  deleteWhereDelete : Ret
  /-- processDeleteConstraints: `if err != nil { return nil, err }` after init -/
  pdcInit : Ret
  /-- processDeleteConstraints ends with `return changeFlow, errHolder.Err` -/
  pdcFinalHolder : Bool
  /-- fireEvents: `if err := self.processPreCommit(); err != nil { return err }` -/
  fireEventsVeto : Ret
  /-- fireEvents registers processPostCommit with tx.OnCommit only after the veto check -/
  queueAfterVeto : Bool
  /-- processPreCommit: `if err := constraint.ProcessPreCommit(self); err != nil { return err }` -/
  preCommitLoop : Ret
  /-- fireParentEvent: `return parentEntityChangeFlow.fireEvents()` -/
  parentEventReturn : Ret
  /-- PersistContext.GetParentContext: `result.Bucket.ErrorHolderImpl = ctx.Bucket.ErrorHolderImpl` (the
      parent bucket records into the holder of the child bucket, which already carries whatever
      ProcessBeforeUpdate recorded).  false: the assignment is the other way round — the child bucket
      adopts the fresh holder of the parent bucket and what was recorded before is dropped -/
  persistSharesHolder : Bool
  deriving DecidableEq, Repr

/-- the table the property needs: every tested error is returned, final returns hand back the
    shared error holder, post-commit work is queued only after the veto check -/
def expectedReturns : CrudReturns :=
  { recognised := true
    createValidate := .propagate, createPersist := .propagate, createLoad := .propagate,
    createParentEvent := .propagate, createOwnEvent := .propagate, createFinalHolder := true,
    updateDelegate := .propagate, updateValidate := .propagate, updateFind := .propagate,
    updateNotFound := .propagate, updateLoad := .propagate, updateParentEvent := .propagate,
    updateOwnEvent := .propagate, updateFinalHolder := true,
    deleteDelegate := .propagate, deleteFind := .propagate, deleteNotFound := .propagate,
    deleteChildConstraints := .propagate, deleteOwnConstraints := .propagate,
    deleteFireEvents := .propagate,
    deleteWhereQuery := .propagate, deleteWhereDelete := .propagate,
    pdcInit := .propagate, pdcFinalHolder := true,
    fireEventsVeto := .propagate, queueAfterVeto := true, preCommitLoop := .propagate,
    parentEventReturn := .propagate, persistSharesHolder := true }

inductive Style | typed | func | untyped | idOnly
  deriving DecidableEq, Repr

/-- one entry of a store's `entityConstraints` list -/
inductive Reg
  /-- AddEntityEventListener / AddEntityEventListenerF / AddListener / AddEntityIdListener with
      the given change types (in registration order, duplicates allowed) -/
  | listener (style : Style) (types : List EvType)
  /-- AddEntityConstraint (typed) / AddUntypedEntityConstraint whose ProcessPreCommit fails for the
      listed (change kind, entity id) pairs -/
  | constraint (typed : Bool) (vetoes : List (Kind × String))
  deriving DecidableEq, Repr

structure Env where
  regsP : List Reg
  regsC : List Reg
  /-- number of Db.AddTxCompleteListener registrations -/
  txListeners : Nat
  t : CrudReturns
  /-- custom index-stage constraints (AddConstraint) of the parent / the child store, in registration order -/
  ixP : List IxReg := []
  ixC : List IxReg := []
  /-- registrations and custom index-stage constraints of the second child store -/
  regsD : List Reg := []
  ixD : List IxReg := []
  /-- positions (per store) of entity constraints whose vetoes apply only while the body runs for the
      first time (a veto that depends on state outside the database) -/
  onceP : List Nat := []
  onceC : List Nat := []
  onceD : List Nat := []
  deriving Repr

def Env.regs (env : Env) : StoreId → List Reg
  | .P => env.regsP
  | .C => env.regsC
  | .D => env.regsD

def Env.once (env : Env) : StoreId → List Nat
  | .P => env.onceP
  | .C => env.onceC
  | .D => env.onceD

/-- a registration as it behaves once its first-run-only vetoes are spent -/
def Reg.spent : Reg → Reg
  | .constraint typed _ => .constraint typed []
  | r => r

def spendAt (once : List Nat) : Nat → List Reg → List Reg
  | _, [] => []
  | k, r :: rest => (if once.contains k then r.spent else r) :: spendAt once (k + 1) rest

/-- the environment a body meets when it runs again (bbolt's Batch re-running the function): same
    registrations at the same positions; the first-run-only vetoes no longer apply -/
def Env.later (env : Env) : Env :=
  { env with regsP := spendAt env.onceP 0 env.regsP, regsC := spendAt env.onceC 0 env.regsC,
             regsD := spendAt env.onceD 0 env.regsD }

def Env.ix (env : Env) : StoreId → List IxReg
  | .P => env.ixP
  | .C => env.ixC
  | .D => env.ixD

/-- EntityChangeState -/
structure Flow where
  store : StoreId
  kind : Kind
  id : String
  initial : Option EntView
  final : Option EntView
  parentEvent : Bool
  deriving DecidableEq, Repr

/-- a ProcessPreCommit call seen by a constraint (inside the transaction) -/
structure PreCall where
  store : StoreId
  reg : Nat
  kind : Kind
  id : String
  parentEvent : Bool
  deriving DecidableEq, Repr

/-- a ProcessBeforeUpdate / ProcessAfterUpdate / ProcessBeforeDelete call seen by a custom index-stage
    constraint (inside the transaction) -/
structure IxCall where
  store : StoreId
  reg : Nat
  stage : Stage
  id : String
  isCreate : Bool
  deriving DecidableEq, Repr

/-- what the registered constraints see inside the transaction, in call order -/
inductive LogItem
  | pre (c : PreCall)
  | ix (c : IxCall)
  deriving DecidableEq, Repr

/-- entries of the bbolt transaction's OnCommit list -/
inductive QItem
  | handleCommit
  | post (fl : Flow)
  | txComplete
  deriving DecidableEq, Repr

/-- things that run because a transaction committed -/
inductive Fired
  /-- a listener callback; `slot` is the position in its change-type list that matched -/
  | listener (store : StoreId) (reg : Nat) (slot : Nat) (async : Bool) (kind : Kind) (ent : Option EntView)
  /-- a constraint's ProcessPostCommit -/
  | post (store : StoreId) (reg : Nat) (fl : Flow)
  /-- the goroutine started by mutateContext.handleCommit: all commit actions of the context -/
  | commitActions (tags : List Nat)
  | txComplete (i : Nat)
  deriving DecidableEq, Repr

/-- mutateContext: deferred actions belong to the context, not to the transaction -/
structure Ctx where
  preActions : List (Nat × Bool)
  commitActions : List Nat
  deriving DecidableEq, Repr

def Ctx.empty : Ctx := ⟨[], []⟩

inductive Query
  | all
  | nameEq (n : String)
  | bad
  deriving DecidableEq, Repr

inductive Op
  | create (σ : StoreId) (id : String) (f : PFields) (rank : String)
  | update (σ : StoreId) (id : String) (f : PFields) (rank : String)
  | delete (σ : StoreId) (id : String)
  | deleteWhere (σ : StoreId) (q : Query)
  deriving DecidableEq, Repr

/-- injected storage error: the n-th FillEntity / PersistEntity call (1-based, counted per store
    strategy within the operation, the child-store mappers' lookups not counted) fails.  Injection points
    are the strategies of P and of C; the strategy of D is not instrumented itself (`load .D` / `persist .D`
    never strike) but calls the parent's strategy, which is. -/
inductive Fault
  | none
  | load (σ : StoreId) (n : Nat)
  | persist (σ : StoreId) (n : Nat)
  deriving DecidableEq, Repr

/-- the entities of the second root store Q: created when the database is set up, never touched by
    the modelled operations (so Q.members is a function of the parent entities' links) -/
def qIds : List String := ["q1", "q2"]

/-- LinkCollection.AddLinks / RemoveLinks / SetLinks called by the transaction function itself -/
inductive LinkOp | add | remove | set
  deriving DecidableEq, Repr

inductive Step
  | op (o : Op) (fault : Fault) (swallow : Bool)
  | fail (tag : Nat)
  /-- the caller returns an error the FIRST time the body executes this step and goes on afterwards (the
      flag lives in the caller's closure, not in the database): a Db.Batch whose first attempt fails this
      way succeeds when bbolt runs the function again -/
  | fail1 (tag : Nat)
  /-- `parent.GetLinkCollection("groups").AddLinks / RemoveLinks / SetLinks(ctx.Tx(), id, targets…)`; the
      caller hands its error on -/
  | link (op : LinkOp) (id : String) (targets : List String)
  | addCommit (tag : Nat)
  | addPre (tag : Nat) (fails : Bool)
  /-- begin / end of a nested `db.Update(ctx, …)` whose context already has a transaction: the
      nested call just runs its body -/
  | nestedBegin
  | nestedEnd
  /-- from here on the body works with `ctx.GetSystemContext()`: the wrapper hands every call to the
      wrapped context, so nothing changes for the model -/
  | useSystemCtx
  deriving DecidableEq, Repr

/-- state of a running transaction -/
structure TxSt where
  db : Db
  queue : List QItem
  preLog : List LogItem
  /-- ghost: every error raised by a validation, the storage layer, an index, a constraint — whether
      or not the Go code hands it on -/
  raised : List Err
  ctx : Ctx
  /-- the model's table is no longer exact (an operation went on after a partial write) -/
  inexact : Bool
  deriving Repr

def TxSt.raise (st : TxSt) (e : Err) : TxSt := { st with raised := st.raised ++ [e] }
def TxSt.enqueue (st : TxSt) (q : QItem) : TxSt := { st with queue := st.queue ++ [q] }

/-- bbolt.MaxKeySize -/
def maxKeySize : Nat := 32768

def leStr (a b : String) : Bool := decide (a ≤ b)

/-- a string list is stored as the key set of a bucket: sorted, duplicate-free -/
def normRoles (rs : List String) : List String := (rs.mergeSort leStr).eraseDups

def PFields.norm (f : PFields) : PFields := { f with roles := normRoles f.roles, links := normRoles f.links }

end StorageModel.Tx
