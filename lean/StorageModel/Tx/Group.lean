import StorageModel.Tx.Spec
/-
  Tx/Group — SEVERAL Db.Batch calls coalesced by bbolt into one batch ("batch group").

  go.etcd.io/bbolt db.go, modelled literally (bbolt itself is assumed, not verified):

    func (db *DB) Batch(fn) error {          // one call = one member of the group
        ... db.batch.calls = append(db.batch.calls, call{fn, errCh})   // arrival order
        err := <-errCh
        if err == trySolo { err = db.Update(fn) }                      // `Sched.solo k`
        return err
    }
    func (b *batch) run() {
    retry:
        for len(b.calls) > 0 {                                          // `Sched.round`
            failIdx := -1
            err := b.db.Update(func(tx) error {
                for i, c := range b.calls {                             // arrival order, ONE transaction
                    if err := safelyCall(c.fn, tx); err != nil { failIdx = i; return err }
                }
                return nil })
            if failIdx >= 0 {                                           // shared transaction rolled back
                c := b.calls[failIdx]
                b.calls[failIdx], b.calls = b.calls[len(b.calls)-1], b.calls[:len(b.calls)-1]   // `swapRemove`
                c.err <- trySolo                                        // the failing member re-runs ALONE
                continue retry                                          // the others again, from scratch
            }
            for _, c := range b.calls { c.err <- err }                  // success to all
            break retry
        }
    }

  After a failed round the solo re-run of the failing member (on its caller's goroutine) and the next
  round (on the batch goroutine) compete for bbolt's writer lock: which transaction comes first is a
  scheduling fact.  The model therefore takes a SCHEDULE (a list of `Sched` tokens) and the theorems
  hold for every schedule; a token that is not enabled is a no-op.

  The function every member hands to bbolt is the closure of boltz/db.go DbImpl.Batch, i.e. `attempt`
  (Tx/Db.lean): ctx.setTx(tx) — the member's MutateContext hooks its handleCommit on THIS transaction —,
  fn(ctx), ctx.runPreCommitActions(), tx.OnCommit(tx-complete listeners with this ctx); each member has
  its own MutateContext, which keeps what earlier invocations registered on it.  So the OnCommit list of a
  shared transaction is the concatenation, in invocation order, of one segment per member:
  [handleCommit_k, post-commit of k's flows …, tx-complete listeners (ctx_k)].
-/
namespace StorageModel.Tx

/-- one Db.Batch call that takes part in a coalesced batch -/
structure Member where
  body : List Step
  /-- the caller's function returns an error on its `faultInv`-th invocation (1-based; 0: never) after
      `faultPos` steps of the body -/
  faultInv : Nat := 0
  faultPos : Nat := 0
  faultTag : Nat := 0
  deriving Repr

/-- the body as the `n`-th invocation (1-based) of the member's function executes it: what fails only the first
    time (Step.fail1) is spent from the second invocation on; the injected fault strikes on its invocation -/
def Member.bodyAt (m : Member) (n : Nat) : List Step :=
  let base := if n ≤ 1 then m.body else laterBody m.body
  if m.faultInv ≠ 0 ∧ n = m.faultInv then base.take m.faultPos ++ [.fail m.faultTag] else base

/-- the environment the `n`-th invocation of a member's function meets (first-run-only vetoes, see `Env.later`) -/
def envAt (env : Env) (n : Nat) : Env := if n ≤ 1 then env else env.later

/-- outcome of one invocation of the function DbImpl.Batch hands to bbolt -/
structure Invocation where
  res : Res
  /-- database as the invocation leaves it inside the transaction -/
  db : Db
  ctx : Ctx
  /-- what this invocation's OnCommit registrations run if the transaction commits -/
  fired : List Fired
  preLog : List LogItem
  preRan : List Nat
  raised : List Err
  inexact : Bool
  specified : Bool
  deriving Repr

def Invocation.ok (o : Invocation) : Bool := o.res.isOk

/-- invocation number → database inside the transaction → the member's context → body → outcome -/
abbrev Runner := Nat → Db → Ctx → List Step → Invocation

/-- the code: the closure of DbImpl.Batch -/
def modelRunner (env : Env) : Runner := fun n db ctx body =>
  let a := attempt (envAt env n) true db ctx body
  { res := a.res, db := a.st.db, ctx := a.st.ctx,
    fired := a.st.queue.flatMap (commitItem (envAt env n) a.st.ctx),
    preLog := a.st.preLog, preRan := a.preRan, raised := a.st.raised, inexact := a.st.inexact, specified := true }

/-- the property: an invocation is accepted or rejected as a whole; accepted, it announces its changes once,
    runs its context's commit actions once and every tx-complete listener once — if the transaction commits -/
def specRunner (env : Env) : Runner := fun n db ctx body =>
  let s := Spec.specTxWith (envAt env n) true db ctx body
  { res := if s.ok then .ok else .err (.caller 0), db := s.db, ctx := s.ctx, fired := s.fired,
    preLog := [], preRan := [], raised := [], inexact := false, specified := s.specified }

/-- one invocation inside a bbolt transaction of the group -/
structure Part where
  member : Nat
  /-- its invocation number -/
  inv : Nat
  dbIn : Db
  ctxIn : Ctx
  body : List Step
  out : Invocation
  deriving Repr

/-- a bbolt transaction of the group, as it happened -/
structure GTx where
  /-- db.Update(fn) of a member told to try solo; otherwise a round of the batch -/
  solo : Bool
  /-- the invocations, in order (a failed round: up to and including the failing member) -/
  parts : List Part
  committed : Bool
  dbBefore : Db
  dbAfter : Db
  deriving Repr

def GTx.invoked (t : GTx) : List Nat := t.parts.map (·.member)

/-- what runs because the transaction committed: nothing for a rolled-back one (bbolt discards its OnCommit list) -/
def GTx.fired (t : GTx) : List Fired := if t.committed then t.parts.flatMap (·.out.fired) else []

inductive Sched
  /-- the batch goroutine runs the calls still in the batch in one transaction -/
  | round
  /-- member k, told trySolo, runs db.Update(fn) -/
  | solo (k : Nat)
  deriving DecidableEq, Repr

def upd {α : Type} (f : Nat → α) (k : Nat) (v : α) : Nat → α := fun j => if j = k then v else f j

structure GState where
  db : Db
  /-- the members' MutateContexts -/
  ctxOf : Nat → Ctx
  /-- how often each member's function has been invoked -/
  invs : Nat → Nat
  /-- what the member's Db.Batch call returned (none: still waiting) -/
  result : Nat → Option Res
  /-- b.calls -/
  calls : List Nat
  /-- members that were sent trySolo and have not re-run yet -/
  solo : List Nat
  txs : List GTx

/-- `b.calls[failIdx], b.calls = b.calls[len(b.calls)-1], b.calls[:len(b.calls)-1]` -/
def swapRemove (l : List Nat) (i : Nat) : List Nat := (l.set i (l.getLastD 0)).dropLast

structure RoundRes where
  parts : List Part
  /-- the member whose function returned an error -/
  failed : Option Nat
  failIdx : Nat
  db : Db
  ctxOf : Nat → Ctx
  invs : Nat → Nat

/-- `for i, c := range b.calls { if err := safelyCall(c.fn, tx); err != nil { failIdx = i; return err } }` -/
def roundGo (run : Runner) (specs : Nat → Member) : List Nat → Db → (Nat → Ctx) → (Nat → Nat) → RoundRes
  | [], db, cx, iv => { parts := [], failed := none, failIdx := 0, db := db, ctxOf := cx, invs := iv }
  | k :: rest, db, cx, iv =>
    let n := iv k + 1
    let body := (specs k).bodyAt n
    let o := run n db (cx k) body
    let p : Part := { member := k, inv := n, dbIn := db, ctxIn := cx k, body := body, out := o }
    if o.ok then
      let r := roundGo run specs rest o.db (upd cx k o.ctx) (upd iv k n)
      { r with parts := p :: r.parts, failIdx := r.failIdx + 1 }
    else { parts := [p], failed := some k, failIdx := 0, db := db, ctxOf := upd cx k o.ctx, invs := upd iv k n }

def gStep (run : Runner) (specs : Nat → Member) (s : GState) : Sched → GState
  | .round =>
    if s.calls.isEmpty then s
    else
      let r := roundGo run specs s.calls s.db s.ctxOf s.invs
      match r.failed with
      | none =>
        { s with db := r.db, ctxOf := r.ctxOf, invs := r.invs, calls := [],
                 result := fun j => if s.calls.contains j then some .ok else s.result j,
                 txs := s.txs ++ [{ solo := false, parts := r.parts, committed := true, dbBefore := s.db, dbAfter := r.db }] }
      | some k =>
        { s with ctxOf := r.ctxOf, invs := r.invs, calls := swapRemove s.calls r.failIdx, solo := s.solo ++ [k],
                 txs := s.txs ++ [{ solo := false, parts := r.parts, committed := false, dbBefore := s.db, dbAfter := s.db }] }
  | .solo k =>
    if s.solo.contains k then
      let n := s.invs k + 1
      let body := (specs k).bodyAt n
      let o := run n s.db (s.ctxOf k) body
      let p : Part := { member := k, inv := n, dbIn := s.db, ctxIn := s.ctxOf k, body := body, out := o }
      let db' := if o.ok then o.db else s.db
      { s with db := db', ctxOf := upd s.ctxOf k o.ctx, invs := upd s.invs k n,
               solo := s.solo.filter (fun j => j != k), result := upd s.result k (some o.res),
               txs := s.txs ++ [{ solo := true, parts := [p], committed := o.ok, dbBefore := s.db, dbAfter := db' }] }
    else s

/-- all members queued, in arrival order -/
def gInit (db : Db) (ctxs : Nat → Ctx) (arrival : List Nat) : GState :=
  { db := db, ctxOf := ctxs, invs := fun _ => 0, result := fun _ => none, calls := arrival, solo := [], txs := [] }

def runGroup (run : Runner) (specs : Nat → Member) (db : Db) (ctxs : Nat → Ctx) (arrival : List Nat)
    (sched : List Sched) : GState :=
  sched.foldl (gStep run specs) (gInit db ctxs arrival)

/-- nothing left to do: every call has returned -/
def GState.complete (s : GState) : Bool := s.calls.isEmpty && s.solo.isEmpty

/-- one admissible schedule (used when none was observed): a member told to try solo goes first -/
def runDefault (run : Runner) (specs : Nat → Member) : Nat → GState → GState × List Sched
  | 0, s => (s, [])
  | fuel + 1, s =>
    match s.solo with
    | k :: _ => let r := runDefault run specs fuel (gStep run specs s (.solo k)); (r.1, .solo k :: r.2)
    | [] =>
      if s.calls.isEmpty then (s, [])
      else let r := runDefault run specs fuel (gStep run specs s .round); (r.1, .round :: r.2)

/-! ## a group inside a history -/

structure GroupSpec where
  /-- member 0 uses the MutateContext object of the previous transaction again; the context carried on
      after the group is member 0's -/
  reuseCtx : Bool
  members : List Member
  /-- the observed order of the group's bbolt transactions (none: `runDefault`) -/
  sched : Option (List Sched)
  deriving Repr

def GroupSpec.specs (g : GroupSpec) : Nat → Member := fun k => g.members.getD k { body := [] }

def groupCtxs (g : GroupSpec) (prevCtx : Ctx) : Nat → Ctx :=
  fun k => if k = 0 ∧ g.reuseCtx then prevCtx else Ctx.empty

def runGroupSpec (run : Runner) (g : GroupSpec) (db : Db) (prevCtx : Ctx) : GState :=
  let init := gInit db (groupCtxs g prevCtx) (List.range g.members.length)
  match g.sched with
  | some sched => sched.foldl (gStep run g.specs) init
  | none => (runDefault run g.specs (2 * g.members.length + 2) init).1

inductive HItem
  | tx (t : TxSpec)
  | group (g : GroupSpec)
  deriving Repr

inductive HOut
  | tx (o : TxOut)
  | group (n : Nat) (s : GState)

def HOut.db : HOut → Db
  | .tx o => o.db
  | .group _ s => s.db

def HOut.ctx : HOut → Ctx
  | .tx o => o.ctx
  | .group _ s => s.ctxOf 0

/-- a history of transactions and batch groups on one database (the engine model) -/
def runHist (env : Env) : List HItem → Db → Ctx → List HOut
  | [], _, _ => []
  | .tx t :: rest, db, ctx =>
    let o := runTx env db ctx t
    .tx o :: runHist env rest o.db o.ctx
  | .group g :: rest, db, ctx =>
    let s := runGroupSpec (modelRunner env) g db ctx
    .group g.members.length s :: runHist env rest s.db (s.ctxOf 0)

inductive SOut
  | tx (o : Spec.SpecOut)
  | group (n : Nat) (s : GState)

def SOut.db : SOut → Db
  | .tx o => o.db
  | .group _ s => s.db

def SOut.ctx : SOut → Ctx
  | .tx o => o.ctx
  | .group _ s => s.ctxOf 0

/-- the same history as the property reads it -/
def specHist (env : Env) : List HItem → Db → Ctx → List SOut
  | [], _, _ => []
  | .tx t :: rest, db, ctx =>
    let o := Spec.specTx env db ctx t
    .tx o :: specHist env rest o.db o.ctx
  | .group g :: rest, db, ctx =>
    let s := runGroupSpec (specRunner env) g db ctx
    .group g.members.length s :: specHist env rest s.db (s.ctxOf 0)

end StorageModel.Tx
