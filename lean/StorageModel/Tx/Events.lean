import StorageModel.Tx.Lemmas
/-
  Tx/Events — observation functions on what a committed transaction ran (deliveries of one listener
  slot, post-commit calls of one constraint, commit-action goroutines, tx-complete calls) and the
  lemmas that read them off the commit list.  Helper material for Properties/C08.lean.
-/
namespace StorageModel.Tx
open StorageModel.Tx.Spec

/-- the entity handed to a listener: final state for create / update, last state for delete -/
def payload (fl : Flow) : Option EntView :=
  match fl.kind with
  | .deleted => fl.initial
  | _ => fl.final

/-- what listener registration `reg` on store σ received through the `slot`-th of its change types:
    (asynchronously?, change kind, entity), in order -/
def deliveriesTo (σ : StoreId) (reg slot : Nat) : List Fired → List (Bool × Kind × Option EntView)
  | [] => []
  | .listener σ' r s a k e :: rest =>
    if σ' = σ ∧ r = reg ∧ s = slot then (a, k, e) :: deliveriesTo σ reg slot rest
    else deliveriesTo σ reg slot rest
  | _ :: rest => deliveriesTo σ reg slot rest

/-- the ProcessPostCommit calls constraint registration `reg` on store σ received -/
def postsTo (σ : StoreId) (reg : Nat) : List Fired → List Flow
  | [] => []
  | .post σ' r fl :: rest => if σ' = σ ∧ r = reg then fl :: postsTo σ reg rest else postsTo σ reg rest
  | _ :: rest => postsTo σ reg rest

theorem deliveriesTo_append (σ : StoreId) (reg slot : Nat) (a b : List Fired) :
    deliveriesTo σ reg slot (a ++ b) = deliveriesTo σ reg slot a ++ deliveriesTo σ reg slot b := by
  induction a with
  | nil => rfl
  | cons x rest ih =>
    cases x with
    | listener σ' r s a k e =>
      simp only [List.cons_append, deliveriesTo]
      split <;> simp [ih]
    | post _ _ _ => simpa [deliveriesTo] using ih
    | commitActions _ => simpa [deliveriesTo] using ih
    | txComplete _ => simpa [deliveriesTo] using ih

theorem postsTo_append (σ : StoreId) (reg : Nat) (a b : List Fired) :
    postsTo σ reg (a ++ b) = postsTo σ reg a ++ postsTo σ reg b := by
  induction a with
  | nil => rfl
  | cons x rest ih =>
    cases x with
    | post σ' r fl =>
      simp only [List.cons_append, postsTo]
      split <;> simp [ih]
    | listener _ _ _ _ _ _ => simpa [postsTo] using ih
    | commitActions _ => simpa [postsTo] using ih
    | txComplete _ => simpa [postsTo] using ih

/-- one listener adapter, one flow: the slot fires iff its change type has the flow's kind -/
theorem deliver_sel (fl : Flow) (reg slot : Nat) (k : Nat) (types : List EvType) :
    deliveriesTo fl.store reg slot (deliver fl reg (indexFrom k types)) =
      if k ≤ slot then
        (match types[slot - k]? with
          | some t => if t.kind = fl.kind then [(t.async, fl.kind, payload fl)] else []
          | none => [])
      else [] := by
  induction types generalizing k with
  | nil => simp [indexFrom, deliver, deliveriesTo]
  | cons t rest ih =>
    simp only [indexFrom, deliver]
    by_cases hk : t.kind = fl.kind
    · simp only [hk, if_true, deliveriesTo, true_and]
      rw [ih (k + 1)]
      by_cases hks : k = slot
      · subst hks
        have h0 : ¬ k + 1 ≤ k := by omega
        simp only [Nat.le_refl, if_true, Nat.sub_self, List.getElem?_cons_zero, hk, h0, if_false]
        rfl
      · simp only [hks, if_false]
        by_cases hle : k ≤ slot
        · have h1 : k + 1 ≤ slot := by omega
          have h2 : slot - k = (slot - (k + 1)) + 1 := by omega
          simp [hle, h1, h2]
        · have h1 : ¬ k + 1 ≤ slot := by omega
          simp [hle, h1]
    · simp only [hk, if_false]
      rw [ih (k + 1)]
      by_cases hks : k = slot
      · subst hks
        have h0 : ¬ k + 1 ≤ k := by omega
        simp [hk, h0]
      · by_cases hle : k ≤ slot
        · have h1 : k + 1 ≤ slot := by omega
          have h2 : slot - k = (slot - (k + 1)) + 1 := by omega
          simp [hle, h1, h2]
        · have h1 : ¬ k + 1 ≤ slot := by omega
          simp [hle, h1]

theorem deliver_other_reg (σ : StoreId) (fl : Flow) (reg reg' slot : Nat) (h : reg' ≠ reg) (ps : List (Nat × EvType)) :
    deliveriesTo σ reg slot (deliver fl reg' ps) = [] := by
  induction ps with
  | nil => rfl
  | cons p rest ih =>
    obtain ⟨s, t⟩ := p
    simp only [deliver]
    split
    · simp [deliveriesTo, h, ih]
    · exact ih

theorem deliver_other_store (σ : StoreId) (fl : Flow) (reg reg' slot : Nat) (h : fl.store ≠ σ) (ps : List (Nat × EvType)) :
    deliveriesTo σ reg slot (deliver fl reg' ps) = [] := by
  induction ps with
  | nil => rfl
  | cons p rest ih =>
    obtain ⟨s, t⟩ := p
    simp only [deliver]
    split
    · simp [deliveriesTo, h, ih]
    · exact ih

/-- processPostCommit of one flow, seen from one listener slot -/
theorem postCommit_sel (σ : StoreId) (fl : Flow) (reg slot : Nat) (k : Nat) (l : List Reg) :
    deliveriesTo σ reg slot (postCommit fl (indexFrom k l)) =
      if fl.store = σ ∧ k ≤ reg then
        (match l[reg - k]? with
          | some (.listener _ types) => deliveriesTo σ reg slot (deliver fl reg (indexed types))
          | _ => [])
      else [] := by
  induction l generalizing k with
  | nil => simp [indexFrom, postCommit, deliveriesTo]
  | cons r rest ih =>
    simp only [indexFrom]
    by_cases hs : fl.store = σ
    · cases r with
      | listener st types =>
        simp only [postCommit, deliveriesTo_append]
        rw [ih (k + 1)]
        by_cases hkr : k = reg
        · subst hkr
          have h1 : ¬ k + 1 ≤ k := by omega
          simp [hs, h1]
        · rw [deliver_other_reg σ fl reg k slot hkr]
          by_cases hle : k ≤ reg
          · have h1 : k + 1 ≤ reg := by omega
            have h2 : reg - k = (reg - (k + 1)) + 1 := by omega
            simp [hs, hle, h1, h2]
          · have h1 : ¬ k + 1 ≤ reg := by omega
            simp [hle, h1]
      | constraint ty vs =>
        simp only [postCommit, deliveriesTo]
        rw [ih (k + 1)]
        by_cases hkr : k = reg
        · subst hkr
          have h1 : ¬ k + 1 ≤ k := by omega
          simp [hs, h1]
        · by_cases hle : k ≤ reg
          · have h1 : k + 1 ≤ reg := by omega
            have h2 : reg - k = (reg - (k + 1)) + 1 := by omega
            simp [hs, hle, h1, h2]
          · have h1 : ¬ k + 1 ≤ reg := by omega
            simp [hle, h1]
    · cases r with
      | listener st types =>
        simp only [postCommit, deliveriesTo_append]
        rw [ih (k + 1), deliver_other_store σ fl reg k slot hs]
        simp [hs]
      | constraint ty vs =>
        simp only [postCommit, deliveriesTo]
        rw [ih (k + 1)]
        simp [hs]

theorem deliveriesTo_commitList (env : Env) (ctx : Ctx) (flows : List Flow) (txc : Bool) (σ : StoreId) (reg slot : Nat) :
    deliveriesTo σ reg slot (commitList env ctx flows txc) =
      flows.flatMap (fun fl => deliveriesTo σ reg slot (postCommit fl (indexed (env.regs fl.store)))) := by
  unfold commitList
  rw [deliveriesTo_append, deliveriesTo_append]
  have h1 : deliveriesTo σ reg slot [Fired.commitActions ctx.commitActions] = [] := rfl
  have h2 : deliveriesTo σ reg slot (if txc = true then List.map Fired.txComplete (List.range env.txListeners) else []) = [] := by
    split
    · generalize List.range env.txListeners = l
      induction l with
      | nil => rfl
      | cons a t ih => simpa [deliveriesTo] using ih
    · rfl
  rw [h1, h2]
  simp only [List.nil_append, List.append_nil]
  induction flows with
  | nil => rfl
  | cons fl rest ih => simp [List.flatMap_cons, deliveriesTo_append, ih]

theorem postCommit_posts (σ : StoreId) (fl : Flow) (reg : Nat) (k : Nat) (l : List Reg) :
    postsTo σ reg (postCommit fl (indexFrom k l)) =
      if fl.store = σ ∧ k ≤ reg then
        (match l[reg - k]? with
          | some (.constraint _ _) => [fl]
          | _ => [])
      else [] := by
  have hdel : ∀ (i : Nat) (ps : List (Nat × EvType)), postsTo σ reg (deliver fl i ps) = [] := by
    intro i ps
    induction ps with
    | nil => rfl
    | cons p rest ih =>
      obtain ⟨s, t⟩ := p
      simp only [deliver]
      split
      · simpa [postsTo] using ih
      · exact ih
  induction l generalizing k with
  | nil => simp [indexFrom, postCommit, postsTo]
  | cons r rest ih =>
    simp only [indexFrom]
    cases r with
    | listener st types =>
      simp only [postCommit, postsTo_append, hdel, List.nil_append]
      rw [ih (k + 1)]
      by_cases hkr : k = reg
      · subst hkr
        have h1 : ¬ k + 1 ≤ k := by omega
        simp [h1]
      · by_cases hle : k ≤ reg
        · have h1 : k + 1 ≤ reg := by omega
          have h2 : reg - k = (reg - (k + 1)) + 1 := by omega
          simp [hle, h1, h2]
        · have h1 : ¬ k + 1 ≤ reg := by omega
          simp [hle, h1]
    | constraint ty vs =>
      simp only [postCommit, postsTo]
      rw [ih (k + 1)]
      by_cases hs : fl.store = σ
      · by_cases hkr : k = reg
        · subst hkr
          have h1 : ¬ k + 1 ≤ k := by omega
          simp [hs, h1]
        · by_cases hle : k ≤ reg
          · have h1 : k + 1 ≤ reg := by omega
            have h2 : reg - k = (reg - (k + 1)) + 1 := by omega
            simp [hs, hle, h1, h2, hkr]
          · have h1 : ¬ k + 1 ≤ reg := by omega
            simp [hle, h1, hs, hkr]
      · simp [hs]

def commitActionRuns : List Fired → List (List Nat)
  | [] => []
  | .commitActions tags :: rest => tags :: commitActionRuns rest
  | _ :: rest => commitActionRuns rest

def txCompleteRuns : List Fired → List Nat
  | [] => []
  | .txComplete i :: rest => i :: txCompleteRuns rest
  | _ :: rest => txCompleteRuns rest

theorem commitActionRuns_append (a b : List Fired) : commitActionRuns (a ++ b) = commitActionRuns a ++ commitActionRuns b := by
  induction a with
  | nil => rfl
  | cons x rest ih => cases x <;> simp [commitActionRuns, ih]

theorem txCompleteRuns_append (a b : List Fired) : txCompleteRuns (a ++ b) = txCompleteRuns a ++ txCompleteRuns b := by
  induction a with
  | nil => rfl
  | cons x rest ih => cases x <;> simp [txCompleteRuns, ih]

theorem postCommit_no_actions (fl : Flow) (ps : List (Nat × Reg)) :
    commitActionRuns (postCommit fl ps) = [] ∧ txCompleteRuns (postCommit fl ps) = [] := by
  have hdel : ∀ (i : Nat) (qs : List (Nat × EvType)),
      commitActionRuns (deliver fl i qs) = [] ∧ txCompleteRuns (deliver fl i qs) = [] := by
    intro i qs
    induction qs with
    | nil => exact ⟨rfl, rfl⟩
    | cons p rest ih =>
      obtain ⟨s, t⟩ := p
      simp only [deliver]
      split
      · simpa [commitActionRuns, txCompleteRuns] using ih
      · exact ih
  induction ps with
  | nil => exact ⟨rfl, rfl⟩
  | cons p rest ih =>
    obtain ⟨i, r⟩ := p
    cases r with
    | listener st types =>
      simp only [postCommit, commitActionRuns_append, txCompleteRuns_append, (hdel i _).1, (hdel i _).2, List.nil_append]
      exact ih
    | constraint ty vs => simpa [postCommit, commitActionRuns, txCompleteRuns] using ih

end StorageModel.Tx
