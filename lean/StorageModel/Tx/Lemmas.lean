import StorageModel.Tx.Spec
/-
  Tx/Lemmas — helper lemmas for Properties/C07.lean and Properties/C08.lean: what each stage of the
  model does to the transaction state under the expected return table.
-/
namespace StorageModel.Tx
open StorageModel.Tx.Spec

set_option linter.unusedSimpArgs false

/-- a registration vetoes the flow -/
def Reg.vetoes (r : Reg) (fl : Flow) : Bool :=
  match r with
  | .constraint _ vs => vs.contains (fl.kind, fl.id)
  | .listener _ _ => false

def anyVeto (regs : List (Nat × Reg)) (fl : Flow) : Bool := regs.any fun p => p.2.vetoes fl

theorem indexFrom_map_snd {α : Type} (k : Nat) (l : List α) : (indexFrom k l).map (·.2) = l := by
  induction l generalizing k with
  | nil => rfl
  | cons a t ih => simp [indexFrom, ih]

theorem indexed_map_snd {α : Type} (l : List α) : (indexed l).map (·.2) = l := indexFrom_map_snd 0 l

theorem anyVeto_indexed (env : Env) (fl : Flow) :
    anyVeto (indexed (env.regs fl.store)) fl = vetoed env fl.store fl.kind fl.id := by
  unfold anyVeto vetoed
  conv => rhs; rw [← indexed_map_snd (env.regs fl.store)]
  rw [List.any_map]
  congr 1

/-- the fields of the transaction state a stage may not touch -/
structure SameCore (a b : TxSt) : Prop where
  db : a.db = b.db
  ctx : a.ctx = b.ctx
  inexact : a.inexact = b.inexact

theorem SameCore.rfl' (a : TxSt) : SameCore a a := ⟨rfl, rfl, rfl⟩
theorem SameCore.trans {a b c : TxSt} (h1 : SameCore a b) (h2 : SameCore b c) : SameCore a c :=
  ⟨h1.db.trans h2.db, h1.ctx.trans h2.ctx, h1.inexact.trans h2.inexact⟩

/-- processPreCommit with `return err`: no veto -> nothing raised, queue untouched; a veto -> raised -/
theorem preCommitLoop_spec (t : CrudReturns) (ht : t.preCommitLoop = .propagate) (fl : Flow)
    (regs : List (Nat × Reg)) (st : TxSt) :
    SameCore (preCommitLoop t fl regs st).1 st ∧
    (preCommitLoop t fl regs st).1.queue = st.queue ∧
    (if anyVeto regs fl then
        (∃ i, (preCommitLoop t fl regs st).2 = some (.veto fl.store i)) ∧
        (preCommitLoop t fl regs st).1.raised ≠ st.raised ∧
        ∃ more, (preCommitLoop t fl regs st).1.raised = st.raised ++ more
      else (preCommitLoop t fl regs st).2 = none ∧ (preCommitLoop t fl regs st).1.raised = st.raised) := by
  induction regs generalizing st with
  | nil => simp [preCommitLoop, anyVeto, SameCore.rfl']
  | cons p rest ih =>
    obtain ⟨i, r⟩ := p
    cases r with
    | listener s ts =>
      have := ih st
      simp only [anyVeto] at this
      simp only [preCommitLoop, anyVeto, List.any_cons, Reg.vetoes, Bool.false_or]
      exact this
    | constraint ty vs =>
      by_cases hv : vs.contains (fl.kind, fl.id) = true
      · simp only [preCommitLoop, hv, if_true, ht, anyVeto, List.any_cons, Reg.vetoes, Bool.true_or]
        refine ⟨⟨rfl, rfl, rfl⟩, rfl, ⟨i, rfl⟩, ?_, ⟨[.veto fl.store i], rfl⟩⟩
        simp [TxSt.raise]
      · have hv' : vs.contains (fl.kind, fl.id) = false := by simpa using hv
        have := ih { st with preLog := st.preLog ++ [.pre ⟨fl.store, i, fl.kind, fl.id, fl.parentEvent⟩] }
        simp only [preCommitLoop, hv', anyVeto, List.any_cons, Reg.vetoes, Bool.false_or] at this ⊢
        obtain ⟨hc, hq, hrest⟩ := this
        exact ⟨⟨hc.db, hc.ctx, hc.inexact⟩, hq, hrest⟩

/-! field values of the expected table (so that proofs never unfold the structure literal) -/
@[simp] theorem exp_createValidate : expectedReturns.createValidate = .propagate := rfl
@[simp] theorem exp_createPersist : expectedReturns.createPersist = .propagate := rfl
@[simp] theorem exp_createLoad : expectedReturns.createLoad = .propagate := rfl
@[simp] theorem exp_createParentEvent : expectedReturns.createParentEvent = .propagate := rfl
@[simp] theorem exp_createOwnEvent : expectedReturns.createOwnEvent = .propagate := rfl
@[simp] theorem exp_updateDelegate : expectedReturns.updateDelegate = .propagate := rfl
@[simp] theorem exp_updateValidate : expectedReturns.updateValidate = .propagate := rfl
@[simp] theorem exp_updateFind : expectedReturns.updateFind = .propagate := rfl
@[simp] theorem exp_updateNotFound : expectedReturns.updateNotFound = .propagate := rfl
@[simp] theorem exp_updateLoad : expectedReturns.updateLoad = .propagate := rfl
@[simp] theorem exp_updateParentEvent : expectedReturns.updateParentEvent = .propagate := rfl
@[simp] theorem exp_updateOwnEvent : expectedReturns.updateOwnEvent = .propagate := rfl
@[simp] theorem exp_deleteDelegate : expectedReturns.deleteDelegate = .propagate := rfl
@[simp] theorem exp_deleteFind : expectedReturns.deleteFind = .propagate := rfl
@[simp] theorem exp_deleteNotFound : expectedReturns.deleteNotFound = .propagate := rfl
@[simp] theorem exp_deleteChildConstraints : expectedReturns.deleteChildConstraints = .propagate := rfl
@[simp] theorem exp_deleteOwnConstraints : expectedReturns.deleteOwnConstraints = .propagate := rfl
@[simp] theorem exp_deleteFireEvents : expectedReturns.deleteFireEvents = .propagate := rfl
@[simp] theorem exp_deleteWhereQuery : expectedReturns.deleteWhereQuery = .propagate := rfl
@[simp] theorem exp_deleteWhereDelete : expectedReturns.deleteWhereDelete = .propagate := rfl
@[simp] theorem exp_pdcInit : expectedReturns.pdcInit = .propagate := rfl
@[simp] theorem exp_fireEventsVeto : expectedReturns.fireEventsVeto = .propagate := rfl
@[simp] theorem exp_preCommitLoop : expectedReturns.preCommitLoop = .propagate := rfl
@[simp] theorem exp_parentEventReturn : expectedReturns.parentEventReturn = .propagate := rfl
@[simp] theorem exp_createFinalHolder : expectedReturns.createFinalHolder = true := rfl
@[simp] theorem exp_updateFinalHolder : expectedReturns.updateFinalHolder = true := rfl
@[simp] theorem exp_pdcFinalHolder : expectedReturns.pdcFinalHolder = true := rfl
@[simp] theorem exp_queueAfterVeto : expectedReturns.queueAfterVeto = true := rfl
@[simp] theorem exp_recognised : expectedReturns.recognised = true := rfl
@[simp] theorem exp_persistSharesHolder : expectedReturns.persistSharesHolder = true := rfl

@[simp] theorem act_propagate (e : Err) : Ret.act .propagate e = .ret (.err e) := rfl

/-- fireEvents under the expected table -/
theorem fireEvents_spec (env : Env) (h : env.t = expectedReturns) (fl : Flow) (st : TxSt) :
    SameCore (fireEvents env fl st).1 st ∧
    (if vetoed env fl.store fl.kind fl.id then
        (∃ i, (fireEvents env fl st).2 = some (.veto fl.store i)) ∧
        (fireEvents env fl st).1.queue = st.queue ∧
        (fireEvents env fl st).1.raised ≠ st.raised ∧
        ∃ more, (fireEvents env fl st).1.raised = st.raised ++ more
      else
        (fireEvents env fl st).2 = none ∧
        (fireEvents env fl st).1.queue = st.queue ++ [.post fl] ∧
        (fireEvents env fl st).1.raised = st.raised) := by
  have hp := preCommitLoop_spec env.t (by rw [h]; rfl) fl (indexed (env.regs fl.store)) st
  rw [anyVeto_indexed] at hp
  obtain ⟨hc, hq, hr⟩ := hp
  unfold fireEvents
  rw [h] at hr hc hq ⊢
  simp only [exp_queueAfterVeto, exp_fireEventsVeto, if_true]
  by_cases hv : vetoed env fl.store fl.kind fl.id = true
  · simp only [hv, if_true] at hr ⊢
    obtain ⟨⟨i, hi⟩, hne, hmore⟩ := hr
    simp only [hi]
    exact ⟨hc, ⟨i, rfl⟩, hq, hne, hmore⟩
  · simp only [hv] at hr ⊢
    obtain ⟨hn, hrs⟩ := hr
    simp only [hn]
    refine ⟨⟨hc.db, hc.ctx, hc.inexact⟩, trivial, ?_, hrs⟩
    simp [TxSt.enqueue, hq]

theorem findById_none (σ : StoreId) (c : Cnt) (db : Db) (id : String) :
    (findById .none σ c db id).2 = (false, view σ db id) := by
  unfold findById view
  cases hg : db.get id with
  | none => rfl
  | some e =>
    cases σ with
    | P => simp
    | C => cases hc : e.child <;> simp [hc]
    | D => cases hc : e.child2 <;> simp [hc]

theorem findById_ok (fault : Fault) (σ : StoreId) (c : Cnt) (db : Db) (id : String)
    (h : (findById fault σ c db id).2.1 = false) : (findById fault σ c db id).2.2 = view σ db id := by
  unfold findById view at *
  cases hg : db.get id with
  | none => rfl
  | some e =>
    simp only [hg] at h ⊢
    cases σ with
    | P =>
      simp only at h ⊢
      split at h <;> simp_all
    | C =>
      cases hc : e.child with
      | none => rfl
      | some r =>
        simp only [hc] at h ⊢
        split at h <;> simp_all
    | D =>
      cases hc : e.child2 with
      | none => rfl
      | some r =>
        simp only [hc] at h ⊢
        split at h <;> simp_all

/-- the flows an accepted write announces: the parent store first when the entity lives in the child store -/
def flowsOf (fl : Flow) : List Flow :=
  match fl.store with
  | .P => [fl]
  | _ => [parentFlow fl, fl]

theorem fireParentEvent_spec (env : Env) (h : env.t = expectedReturns) (fl : Flow) (st : TxSt) :
    SameCore (fireParentEvent env fl st).1 st ∧
    (if fl.store ≠ .P ∧ vetoed env .P fl.kind fl.id then
        (∃ i, (fireParentEvent env fl st).2 = some (.veto .P i)) ∧
        (fireParentEvent env fl st).1.queue = st.queue ∧
        (fireParentEvent env fl st).1.raised ≠ st.raised ∧
        ∃ more, (fireParentEvent env fl st).1.raised = st.raised ++ more
      else
        (fireParentEvent env fl st).2 = none ∧
        (fireParentEvent env fl st).1.queue = st.queue ++ (match fl.store with | .P => [] | _ => [.post (parentFlow fl)]) ∧
        (fireParentEvent env fl st).1.raised = st.raised) := by
  unfold fireParentEvent
  have hf := fireEvents_spec env h (parentFlow fl) st
  have e1 : (parentFlow fl).store = .P := rfl
  have e2 : (parentFlow fl).kind = fl.kind := rfl
  have e3 : (parentFlow fl).id = fl.id := rfl
  rw [e1, e2, e3] at hf
  cases hs : fl.store
  case P => simp [SameCore.rfl']
  all_goals
    simp only [h, exp_parentEventReturn, true_and, ne_eq, reduceCtorEq, not_false_eq_true]
    by_cases hv : vetoed env .P fl.kind fl.id = true
    · simp only [hv, if_true] at hf ⊢
      obtain ⟨hc, ⟨i, hi⟩, hq, hne, hmore⟩ := hf
      simp only [hi]
      exact ⟨hc, ⟨i, rfl⟩, hq, hne, hmore⟩
    · simp only [hv] at hf ⊢
      obtain ⟨hc, hn, hq, hr⟩ := hf
      simp only [hn]
      exact ⟨hc, trivial, hq, hr⟩

/-- loadFinalState, fireParentEvent, fireEvents, `return bucket.Err` under the expected table -/
theorem finishWrite_spec (env : Env) (h : env.t = expectedReturns) (fault : Fault) (fl : Flow)
    (holder : Option Err) (c : Cnt) (st : TxSt) :
    SameCore (finishWrite env fault .propagate .propagate .propagate true fl holder c st).1 st ∧
    (∃ more, (finishWrite env fault .propagate .propagate .propagate true fl holder c st).1.raised = st.raised ++ more) ∧
    ((finishWrite env fault .propagate .propagate .propagate true fl holder c st).2 = .ok ↔
      ((findById fault fl.store c st.db fl.id).2.1 = false ∧
       ¬(fl.store ≠ .P ∧ vetoed env .P fl.kind fl.id = true) ∧
       vetoed env fl.store fl.kind fl.id = false ∧ holder = none)) ∧
    ((finishWrite env fault .propagate .propagate .propagate true fl holder c st).2 = .ok →
      (finishWrite env fault .propagate .propagate .propagate true fl holder c st).1.raised = st.raised ∧
      (finishWrite env fault .propagate .propagate .propagate true fl holder c st).1.queue =
        st.queue ++ (flowsOf { fl with final := (findById fault fl.store c st.db fl.id).2.2 }).map .post) := by
  unfold finishWrite
  by_cases hl : (findById fault fl.store c st.db fl.id).2.1 = true
  · simp only [hl, if_true, act_propagate]
    refine ⟨⟨rfl, rfl, rfl⟩, ⟨[.load], rfl⟩, ?_, ?_⟩ <;> simp
  · have hl' : (findById fault fl.store c st.db fl.id).2.1 = false := by simpa using hl
    simp only [hl', Bool.false_eq_true, if_false]
    generalize hfl : ({ fl with final := (findById fault fl.store c st.db fl.id).2.2 } : Flow) = fl'
    have s1 : fl'.store = fl.store := by rw [← hfl]
    have s2 : fl'.kind = fl.kind := by rw [← hfl]
    have s3 : fl'.id = fl.id := by rw [← hfl]
    have hp := fireParentEvent_spec env h fl' st
    rw [s1, s2, s3] at hp
    obtain ⟨hpc, hpr⟩ := hp
    by_cases hv1 : fl.store ≠ .P ∧ vetoed env .P fl.kind fl.id = true
    · rw [if_pos hv1] at hpr
      obtain ⟨⟨i, hi⟩, _, _, hmore⟩ := hpr
      simp only [hi, act_propagate]
      refine ⟨hpc, hmore, ?_, ?_⟩
      · constructor
        · intro hx; cases hx
        · intro hx; exact absurd hv1 hx.2.1
      · intro hx; cases hx
    · rw [if_neg hv1] at hpr
      obtain ⟨hn, hq, hr⟩ := hpr
      simp only [hn]
      have hf := fireEvents_spec env h fl' (fireParentEvent env fl' st).1
      rw [s1, s2, s3] at hf
      obtain ⟨hfc, hfr⟩ := hf
      by_cases hv2 : vetoed env fl.store fl.kind fl.id = true
      · simp only [hv2, if_true] at hfr
        obtain ⟨⟨i, hi⟩, _, _, ⟨more, hmore⟩⟩ := hfr
        simp only [hi, act_propagate]
        refine ⟨hfc.trans hpc, ⟨more, by rw [hmore, hr]⟩, ?_, ?_⟩ <;> simp [hv2]
      · have hv2' : vetoed env fl.store fl.kind fl.id = false := by simpa using hv2
        simp only [hv2', Bool.false_eq_true, if_false] at hfr
        obtain ⟨hn2, hq2, hr2⟩ := hfr
        simp only [hn2]
        refine ⟨hfc.trans hpc, ⟨[], by rw [hr2, hr]; simp⟩, ?_, ?_⟩
        · cases holder <;> simp [holderRes, hv1, hv2']
        · intro _
          refine ⟨by rw [hr2, hr], ?_⟩
          rw [hq2, hq]
          unfold flowsOf
          rw [s1]
          cases fl.store <;> simp

theorem raiseOpt_core (st : TxSt) (o : Option Err) : (raiseOpt st o).db = st.db ∧ (raiseOpt st o).ctx = st.ctx ∧
    (raiseOpt st o).queue = st.queue ∧ ∃ more, (raiseOpt st o).raised = st.raised ++ more := by
  cases o with
  | none => exact ⟨rfl, rfl, rfl, [], by simp [raiseOpt]⟩
  | some e => exact ⟨rfl, rfl, rfl, [e], rfl⟩

@[simp] theorem raiseOpt_none (st : TxSt) : raiseOpt st none = st := rfl

/-! ### custom index-stage constraints and the error holder -/

/-- some custom constraint of the list objects to (stage, id) -/
def anyIxVeto (regs : List (Nat × IxReg)) (stage : Stage) (id : String) : Bool :=
  regs.any fun p => p.2.contains (stage, id)

theorem anyIxVeto_indexed (env : Env) (σ : StoreId) (stage : Stage) (id : String) :
    anyIxVeto (indexed (env.ix σ)) stage id = ixVetoed env σ stage id := by
  unfold anyIxVeto ixVetoed
  conv => rhs; rw [← indexFrom_map_snd 0 (env.ix σ)]
  rw [List.any_map]
  rfl

/-- the loop over the custom index-stage constraints: database, context, queue and exactness are not
    touched; the holder stays empty iff it was empty and nobody objects — and then nothing is raised -/
theorem ixLoop_spec (σ : StoreId) (stage : Stage) (id : String) (isCreate : Bool)
    (regs : List (Nat × IxReg)) (h : Option Err) (st : TxSt) :
    (ixLoop σ stage id isCreate regs h st).1.db = st.db ∧
    (ixLoop σ stage id isCreate regs h st).1.ctx = st.ctx ∧
    (ixLoop σ stage id isCreate regs h st).1.inexact = st.inexact ∧
    (ixLoop σ stage id isCreate regs h st).1.queue = st.queue ∧
    (∃ more, (ixLoop σ stage id isCreate regs h st).1.raised = st.raised ++ more) ∧
    ((ixLoop σ stage id isCreate regs h st).2 = none ↔ (h = none ∧ anyIxVeto regs stage id = false)) ∧
    (anyIxVeto regs stage id = false →
      (ixLoop σ stage id isCreate regs h st).2 = h ∧ (ixLoop σ stage id isCreate regs h st).1.raised = st.raised) := by
  induction regs generalizing h st with
  | nil => simp [ixLoop, anyIxVeto]
  | cons p rest ih =>
    obtain ⟨i, vs⟩ := p
    by_cases hv : vs.contains (stage, id) = true
    · have := ih (h.or (some (.ixVeto σ i)))
        ({ st with preLog := st.preLog ++ [LogItem.ix ⟨σ, i, stage, id, isCreate⟩] }.raise (.ixVeto σ i))
      obtain ⟨a, b, c, d, ⟨more, e⟩, f, _⟩ := this
      simp only [ixLoop, hv, if_true, anyIxVeto, List.any_cons, Bool.true_or]
      refine ⟨a, b, c, d, ⟨.ixVeto σ i :: more, by rw [e]; simp [TxSt.raise]⟩, ?_, by simp⟩
      constructor
      · intro hn
        have := (f.mp hn).1
        cases h <;> simp at this
      · intro hc; simp at hc
    · have hv' : vs.contains (stage, id) = false := by simpa using hv
      have := ih h { st with preLog := st.preLog ++ [LogItem.ix ⟨σ, i, stage, id, isCreate⟩] }
      simp only [ixLoop, hv', anyIxVeto, List.any_cons, Bool.false_or] at this ⊢
      exact this

theorem ixStage_some (env : Env) (σ : StoreId) (stage : Stage) (id : String) (isCreate : Bool)
    (builtin : Option Err) (e : Err) (st : TxSt) :
    ixStage env σ stage id isCreate builtin (some e) st = (st, some e) := by
  unfold ixStage
  cases σ <;> rfl

theorem ixVetoedFor_false (env : Env) (σ : StoreId) (stage : Stage) (id : String) :
    ixVetoedFor env σ stage id = false ↔
      (ixVetoed env .P stage id = false ∧ (σ ≠ .P → ixVetoed env σ stage id = false)) := by
  unfold ixVetoedFor
  cases σ <;> simp

/-- IndexingContext.Process<stage> on an empty holder -/
theorem ixStage_spec (env : Env) (σ : StoreId) (stage : Stage) (id : String) (isCreate : Bool)
    (builtin : Option Err) (st : TxSt) :
    (ixStage env σ stage id isCreate builtin none st).1.db = st.db ∧
    (ixStage env σ stage id isCreate builtin none st).1.ctx = st.ctx ∧
    (ixStage env σ stage id isCreate builtin none st).1.queue = st.queue ∧
    (∃ more, (ixStage env σ stage id isCreate builtin none st).1.raised = st.raised ++ more) ∧
    ((ixStage env σ stage id isCreate builtin none st).2 = none ↔
      (builtin = none ∧ ixVetoedFor env σ stage id = false)) ∧
    ((ixStage env σ stage id isCreate builtin none st).2 = none →
      (ixStage env σ stage id isCreate builtin none st).1.raised = st.raised ∧
      (ixStage env σ stage id isCreate builtin none st).1.inexact = st.inexact) := by
  obtain ⟨r1, r2, r3, ⟨rm, r4⟩⟩ := raiseOpt_core st builtin
  obtain ⟨a1, a2, a3, a4, ⟨am, a5⟩, a6, a7⟩ :=
    ixLoop_spec .P stage id isCreate (indexed env.ixP) builtin (raiseOpt st builtin)
  have eP : anyIxVeto (indexed env.ixP) stage id = ixVetoed env .P stage id := anyIxVeto_indexed env .P stage id
  rw [eP] at a6 a7
  have hP : ixVetoed env .P stage id = false → builtin = none →
      (ixLoop .P stage id isCreate (indexed env.ixP) builtin (raiseOpt st builtin)).1.raised = st.raised ∧
      (ixLoop .P stage id isCreate (indexed env.ixP) builtin (raiseOpt st builtin)).1.inexact = st.inexact := by
    intro hv hb
    subst hb
    have := (a7 hv).2
    simp only [raiseOpt_none] at this a3
    exact ⟨this, a3⟩
  -- a child store's level
  have hchild : ∀ τ : StoreId, τ ≠ .P →
      let r : TxSt × Option Err :=
        match (ixLoop .P stage id isCreate (indexed env.ixP) builtin (raiseOpt st builtin)).2 with
        | some e => ((ixLoop .P stage id isCreate (indexed env.ixP) builtin (raiseOpt st builtin)).1, some e)
        | none => ixLoop τ stage id isCreate (indexed (env.ix τ)) none
            (ixLoop .P stage id isCreate (indexed env.ixP) builtin (raiseOpt st builtin)).1
      r.1.db = st.db ∧ r.1.ctx = st.ctx ∧ r.1.queue = st.queue ∧ (∃ more, r.1.raised = st.raised ++ more) ∧
      (r.2 = none ↔ (builtin = none ∧ ixVetoedFor env τ stage id = false)) ∧
      (r.2 = none → r.1.raised = st.raised ∧ r.1.inexact = st.inexact) := by
    intro τ hτ
    cases hp : (ixLoop .P stage id isCreate (indexed env.ixP) builtin (raiseOpt st builtin)).2 with
    | some e =>
      simp only
      refine ⟨a1.trans r1, a2.trans r2, a4.trans r3, ⟨rm ++ am, by rw [a5, r4]; simp⟩, ?_, ?_⟩
      · constructor
        · intro hx; cases hx
        · intro ⟨hb, hv⟩
          have := a6.mpr ⟨hb, ((ixVetoedFor_false env τ stage id).mp hv).1⟩
          rw [hp] at this; cases this
      · intro hx; cases hx
    | none =>
      simp only
      obtain ⟨hb, hvP⟩ := a6.mp hp
      obtain ⟨b1, b2, b3, b4, ⟨bm, b5⟩, b6, b7⟩ :=
        ixLoop_spec τ stage id isCreate (indexed (env.ix τ)) none
          (ixLoop .P stage id isCreate (indexed env.ixP) builtin (raiseOpt st builtin)).1
      rw [anyIxVeto_indexed] at b6 b7
      refine ⟨b1.trans (a1.trans r1), b2.trans (a2.trans r2), b4.trans (a4.trans r3),
        ⟨rm ++ am ++ bm, by rw [b5, a5, r4]; simp⟩, ?_, ?_⟩
      · rw [b6, ixVetoedFor_false]
        simp [hb, hvP, hτ]
      · intro hn
        obtain ⟨_, hvC⟩ := b6.mp hn
        obtain ⟨p1, p2⟩ := hP hvP hb
        exact ⟨(b7 hvC).2.trans p1, b3.trans p2⟩
  unfold ixStage
  cases σ with
  | P =>
    simp only
    refine ⟨a1.trans r1, a2.trans r2, a4.trans r3, ⟨rm ++ am, by rw [a5, r4]; simp⟩, ?_, ?_⟩
    · rw [a6, ixVetoedFor_false]; simp
    · intro hn
      obtain ⟨hb, hv⟩ := a6.mp hn
      exact hP hv hb
  | C => exact hchild .C (by decide)
  | D => exact hchild .D (by decide)

def createFlow (σ : StoreId) (id : String) : Flow :=
  { store := σ, kind := .created, id := id, initial := none, final := none, parentEvent := false }

/-- Create from PersistEntity on (empty holder) under the expected table -/
theorem createWrite_spec (env : Env) (h : env.t = expectedReturns) (fault : Fault) (σ : StoreId) (id : String)
    (f : PFields) (rank : String) (old : Option PFields) (st : TxSt) :
    (createWrite env fault σ id f rank old st).1.ctx = st.ctx ∧
    (∃ more, (createWrite env fault σ id f rank old st).1.raised = st.raised ++ more) ∧
    ((createWrite env fault σ id f rank old st).2 = .ok ↔
      ((persist fault σ Cnt.zero f).2 = none ∧
       indexErr true st.db (st.db.put id (writtenEnt σ st.db id f rank)) id old f = none ∧
       ixVetoedFor env σ .afterUpdate id = false ∧
       (findById fault σ (persist fault σ Cnt.zero f).1 (st.db.put id (writtenEnt σ st.db id f rank)) id).2.1 = false ∧
       ¬(σ ≠ .P ∧ vetoed env .P .created id = true) ∧ vetoed env σ .created id = false)) ∧
    ((createWrite env fault σ id f rank old st).2 = .ok →
      (createWrite env fault σ id f rank old st).1.raised = st.raised ∧
      (createWrite env fault σ id f rank old st).1.inexact = st.inexact ∧
      (createWrite env fault σ id f rank old st).1.db = st.db.put id (writtenEnt σ st.db id f rank) ∧
      (createWrite env fault σ id f rank old st).1.queue = st.queue ++
        (flowsOf { createFlow σ id with
          final := (findById fault σ (persist fault σ Cnt.zero f).1 (st.db.put id (writtenEnt σ st.db id f rank)) id).2.2 }).map .post) := by
  unfold createWrite
  simp only [h, exp_createPersist, exp_createLoad, exp_createParentEvent, exp_createOwnEvent,
    exp_createFinalHolder, act_propagate]
  cases hpe : (persist fault σ Cnt.zero f).2 with
  | some e =>
    refine ⟨rfl, ⟨[e], rfl⟩, ?_, ?_⟩ <;> simp
  | none =>
    simp only [raiseOpt_none]
    obtain ⟨x1, x2, x3, ⟨xm, x4⟩, x5, x6⟩ := ixStage_spec env σ .afterUpdate id true
      (indexErr true st.db (st.db.put id (writtenEnt σ st.db id f rank)) id old f)
      { st with db := st.db.put id (writtenEnt σ st.db id f rank) }
    generalize hIX : ixStage env σ .afterUpdate id true
      (indexErr true st.db (st.db.put id (writtenEnt σ st.db id f rank)) id old f) none
      { st with db := st.db.put id (writtenEnt σ st.db id f rank) } = IX at *
    obtain ⟨hc, ⟨more, hmore⟩, hiff, hok⟩ := finishWrite_spec env h fault (createFlow σ id) IX.2
      (persist fault σ Cnt.zero f).1 IX.1
    simp only at x1 x2 x3 x4 x6
    rw [x1] at hiff hok
    simp only [createFlow] at hc hmore hiff hok ⊢
    refine ⟨hc.ctx.trans x2, ⟨xm ++ more, by rw [hmore, x4]; simp⟩, ?_, ?_⟩
    · rw [hiff, x5]
      simp only [true_and]
      constructor
      · intro ⟨a, b, c, d, e⟩; exact ⟨d, e, a, b, c⟩
      · intro ⟨d, e, a, b, c⟩; exact ⟨a, b, c, d, e⟩
    · intro ho
      obtain ⟨h1, h2⟩ := hok ho
      obtain ⟨y1, y2⟩ := x6 (hiff.mp ho).2.2.2
      exact ⟨h1.trans y1, hc.inexact.trans y2, hc.db.trans x1, by rw [h2, x3]⟩

/-- BaseStore.Create under the expected table -/
theorem create_spec (env : Env) (h : env.t = expectedReturns) (fault : Fault) (σ : StoreId) (id : String)
    (f : PFields) (rank : String) (st : TxSt) :
    (create env fault σ id f rank st).1.ctx = st.ctx ∧
    (∃ more, (create env fault σ id f rank st).1.raised = st.raised ++ more) ∧
    ((create env fault σ id f rank st).2 = .ok ↔
      (id ≠ "" ∧ present σ st.db id = false ∧ createOverVetoed env σ st.db id = false ∧
       (persist fault σ Cnt.zero f).2 = none ∧
       indexErr true st.db (st.db.put id (writtenEnt σ st.db id f rank)) id (createOld σ st.db id) f = none ∧
       ixVetoedFor env σ .afterUpdate id = false ∧
       (findById fault σ (persist fault σ Cnt.zero f).1 (st.db.put id (writtenEnt σ st.db id f rank)) id).2.1 = false ∧
       ¬(σ ≠ .P ∧ vetoed env .P .created id = true) ∧ vetoed env σ .created id = false)) ∧
    ((create env fault σ id f rank st).2 = .ok →
      (create env fault σ id f rank st).1.raised = st.raised ∧
      (create env fault σ id f rank st).1.inexact = st.inexact ∧
      (create env fault σ id f rank st).1.db = st.db.put id (writtenEnt σ st.db id f rank) ∧
      (create env fault σ id f rank st).1.queue = st.queue ++
        (flowsOf { createFlow σ id with
          final := (findById fault σ (persist fault σ Cnt.zero f).1 (st.db.put id (writtenEnt σ st.db id f rank)) id).2.2 }).map .post) := by
  unfold create
  simp only [h, exp_createValidate, exp_createPersist, exp_persistSharesHolder, act_propagate, Bool.true_eq_false,
    and_false, if_false]
  by_cases hid : id = ""
  · simp [hid, TxSt.raise]
  · simp only [hid, if_false]
    by_cases hp : present σ st.db id = true
    · simp [hp, TxSt.raise]
    · have hp' : present σ st.db id = false := by simpa using hp
      simp only [hp', Bool.false_eq_true, if_false, ne_eq, hid, not_false_eq_true, true_and]
      cases ho : (createOld σ st.db id).isSome with
      | false =>
        have hcv : createOverVetoed env σ st.db id = false := by unfold createOverVetoed; simp [ho]
        simp only [Bool.false_eq_true, if_false, hcv, true_and]
        exact createWrite_spec env h fault σ id f rank (createOld σ st.db id) st
      | true =>
        simp only [if_true]
        obtain ⟨b1, b2, b3, ⟨bm, b4⟩, b5, b6⟩ := ixStage_spec env .P .beforeUpdate id true none st
        generalize hBU : ixStage env .P .beforeUpdate id true none none st = BU at *
        have hcv : createOverVetoed env σ st.db id = ixVetoed env .P .beforeUpdate id := by
          unfold createOverVetoed; simp [ho]
        have hfor : ixVetoedFor env .P .beforeUpdate id = ixVetoed env .P .beforeUpdate id := by
          unfold ixVetoedFor; simp
        rw [hfor] at b5
        simp only [true_and] at b5
        rw [hcv]
        cases hbu : BU.2 with
        | some e =>
          have hnv : ¬ ixVetoed env .P .beforeUpdate id = false := by
            intro hx; have := b5.mpr hx; rw [hbu] at this; cases this
          refine ⟨b2, ⟨bm, b4⟩, ?_, ?_⟩
          · constructor
            · intro hx; cases hx
            · intro hx; exact absurd hx.1 hnv
          · intro hx; cases hx
        | none =>
          have hnv : ixVetoed env .P .beforeUpdate id = false := b5.mp hbu
          obtain ⟨br, bi⟩ := b6 hbu
          obtain ⟨w1, ⟨wm, w2⟩, w3, w4⟩ := createWrite_spec env h fault σ id f rank (createOld σ st.db id) BU.1
          rw [b1] at w3 w4
          simp only [hnv, true_and]
          refine ⟨w1.trans b2, ⟨bm ++ wm, by rw [w2, b4]; simp⟩, w3, ?_⟩
          intro hok
          obtain ⟨z1, z2, z3, z4⟩ := w4 hok
          exact ⟨z1.trans br, z2.trans bi, z3, by rw [z4, b3]⟩

def updateFlow (σ : StoreId) (id : String) (base : EntView) : Flow :=
  { store := σ, kind := .updated, id := id, initial := some base, final := none, parentEvent := false }

/-- the body of BaseStore.Update under the expected table -/
theorem updateLocal_spec (env : Env) (h : env.t = expectedReturns) (fault : Fault) (σ : StoreId) (id : String)
    (f : PFields) (rank : String) (st : TxSt) :
    (updateLocal env fault σ id f rank st).1.ctx = st.ctx ∧
    (∃ more, (updateLocal env fault σ id f rank st).1.raised = st.raised ++ more) ∧
    ((updateLocal env fault σ id f rank st).2 = .ok ↔
      (id ≠ "" ∧ (findById fault σ Cnt.zero st.db id).2.1 = false ∧
       (findById fault σ Cnt.zero st.db id).2.2.isSome = true ∧
       ixVetoedFor env σ .beforeUpdate id = false ∧
       (persist fault σ (findById fault σ Cnt.zero st.db id).1 f).2 = none ∧
       indexErr false st.db (st.db.put id (writtenEnt σ st.db id f rank)) id ((st.db.get id).map (·.f)) f = none ∧
       ixVetoedFor env σ .afterUpdate id = false ∧
       (findById fault σ (persist fault σ (findById fault σ Cnt.zero st.db id).1 f).1
          (st.db.put id (writtenEnt σ st.db id f rank)) id).2.1 = false ∧
       ¬(σ ≠ .P ∧ vetoed env .P .updated id = true) ∧ vetoed env σ .updated id = false)) ∧
    ((updateLocal env fault σ id f rank st).2 = .ok →
      (updateLocal env fault σ id f rank st).1.raised = st.raised ∧
      (updateLocal env fault σ id f rank st).1.inexact = st.inexact ∧
      (updateLocal env fault σ id f rank st).1.db = st.db.put id (writtenEnt σ st.db id f rank) ∧
      ∃ base, (findById fault σ Cnt.zero st.db id).2.2 = some base ∧
      (updateLocal env fault σ id f rank st).1.queue = st.queue ++
        (flowsOf { updateFlow σ id base with
          final := (findById fault σ (persist fault σ (findById fault σ Cnt.zero st.db id).1 f).1
            (st.db.put id (writtenEnt σ st.db id f rank)) id).2.2 }).map .post) := by
  unfold updateLocal
  simp only [h, exp_updateValidate, exp_updateFind, exp_updateNotFound, exp_updateLoad, exp_updateParentEvent,
    exp_updateOwnEvent, exp_updateFinalHolder, exp_persistSharesHolder, act_propagate, Bool.true_eq_false,
    and_false, if_false]
  by_cases hid : id = ""
  · simp [hid, TxSt.raise]
  · simp only [hid, if_false]
    by_cases hl : (findById fault σ Cnt.zero st.db id).2.1 = true
    · simp [hl, TxSt.raise]
    · have hl' : (findById fault σ Cnt.zero st.db id).2.1 = false := by simpa using hl
      simp only [hl', Bool.false_eq_true, if_false]
      cases hb : (findById fault σ Cnt.zero st.db id).2.2 with
      | none => simp [TxSt.raise]
      | some base =>
        simp only [ne_eq, hid, not_false_eq_true, true_and, Option.isSome_some]
        obtain ⟨b1, b2, b3, ⟨bm, b4⟩, b5, b6⟩ := ixStage_spec env σ .beforeUpdate id false none st
        generalize hBU : ixStage env σ .beforeUpdate id false none none st = BU at *
        simp only [true_and] at b5
        cases hbu : BU.2 with
        | some e =>
          have hnv : ¬ ixVetoedFor env σ .beforeUpdate id = false := by
            intro hx; have := b5.mpr hx; rw [hbu] at this; cases this
          obtain ⟨hc, ⟨more, hmore⟩, hiff, _⟩ := finishWrite_spec env h fault (updateFlow σ id base) (some e)
            (persist fault σ (findById fault σ Cnt.zero st.db id).1 f).1 BU.1
          simp only [updateFlow] at hc hmore hiff ⊢
          refine ⟨hc.ctx.trans b2, ⟨bm ++ more, by rw [hmore, b4]; simp⟩, ?_, ?_⟩
          · constructor
            · intro hok; have := hiff.mp hok; simp at this
            · intro hx; exact absurd hx.1 hnv
          · intro hok; have := hiff.mp hok; simp at this
        | none =>
          have hnv : ixVetoedFor env σ .beforeUpdate id = false := b5.mp hbu
          obtain ⟨br, bi⟩ := b6 hbu
          simp only [hnv, true_and]
          cases hpe : (persist fault σ (findById fault σ Cnt.zero st.db id).1 f).2 with
          | some e =>
            simp only [ixStage_some]
            obtain ⟨hc, ⟨more, hmore⟩, hiff, _⟩ := finishWrite_spec env h fault (updateFlow σ id base) (some e)
              (persist fault σ (findById fault σ Cnt.zero st.db id).1 f).1
              (raiseOpt { BU.1 with db := st.db.put id (writtenEnt σ st.db id f rank) } (some e))
            simp only [updateFlow] at hc hmore hiff ⊢
            refine ⟨hc.ctx.trans b2, ⟨bm ++ e :: more, ?_⟩, ?_, ?_⟩
            · rw [hmore]; simp [raiseOpt, TxSt.raise, b4]
            · constructor
              · intro hok; have := hiff.mp hok; simp at this
              · intro hx; simp at hx
            · intro hok; have := hiff.mp hok; simp at this
          | none =>
            simp only [raiseOpt_none]
            obtain ⟨x1, x2, x3, ⟨xm, x4⟩, x5, x6⟩ := ixStage_spec env σ .afterUpdate id false
              (indexErr false st.db (st.db.put id (writtenEnt σ st.db id f rank)) id ((st.db.get id).map (·.f)) f)
              { BU.1 with db := st.db.put id (writtenEnt σ st.db id f rank) }
            generalize hIX : ixStage env σ .afterUpdate id false
              (indexErr false st.db (st.db.put id (writtenEnt σ st.db id f rank)) id ((st.db.get id).map (·.f)) f) none
              { BU.1 with db := st.db.put id (writtenEnt σ st.db id f rank) } = IX at *
            obtain ⟨hc, ⟨more, hmore⟩, hiff, hok⟩ := finishWrite_spec env h fault (updateFlow σ id base) IX.2
              (persist fault σ (findById fault σ Cnt.zero st.db id).1 f).1 IX.1
            simp only at x1 x2 x3 x4 x6
            rw [x1] at hiff hok
            simp only [updateFlow] at hc hmore hiff hok ⊢
            refine ⟨(hc.ctx.trans x2).trans b2, ⟨bm ++ xm ++ more, by rw [hmore, x4, b4]; simp⟩, ?_, ?_⟩
            · rw [hiff, x5]
              simp only [true_and]
              constructor
              · intro ⟨a, b, c, d, e⟩; exact ⟨d, e, a, b, c⟩
              · intro ⟨d, e, a, b, c⟩; exact ⟨a, b, c, d, e⟩
            · intro ho
              obtain ⟨h1, h2⟩ := hok ho
              obtain ⟨y1, y2⟩ := x6 (hiff.mp ho).2.2.2
              exact ⟨(h1.trans y1).trans br, (hc.inexact.trans y2).trans bi, hc.db.trans x1, base, rfl,
                by rw [h2, x3, b3]⟩

/-- the rank / grade written by the store that really performs an update (`Spec.updateStore`): an
    update handed on by the parent store keeps the child store's own field -/
def effRank (σ : StoreId) (db : Db) (id : String) (rank : String) : String :=
  match σ with
  | .P =>
    match (db.get id).bind (·.child) with
    | some r => r
    | none => ((db.get id).bind (·.child2)).getD rank
  | _ => rank

theorem update_eq (env : Env) (h : env.t = expectedReturns) (fault : Fault) (σ : StoreId) (id : String)
    (f : PFields) (rank : String) (st : TxSt) :
    update env fault σ id f rank st =
      updateLocal env fault (updateStore σ st.db id) id f (effRank σ st.db id rank) st := by
  unfold update updateStore effRank hasChild hasChild2
  cases σ with
  | C => rfl
  | D => rfl
  | P =>
    cases hc : (st.db.get id).bind (·.child) with
    | some r => simp [h]
    | none =>
      cases hd : (st.db.get id).bind (·.child2) with
      | some g => simp [h]
      | none => simp

def deleteFlow (σ : StoreId) (id : String) (init : EntView) : Flow :=
  { store := σ, kind := .deleted, id := id, initial := some init, final := none, parentEvent := false }

/-- processDeleteConstraints under the expected table -/
theorem pdc_spec (env : Env) (h : env.t = expectedReturns) (fault : Fault) (σ : StoreId) (id : String)
    (c : Cnt) (st : TxSt) :
    (processDeleteConstraints env fault σ id c st).1.db = st.db ∧
    (processDeleteConstraints env fault σ id c st).1.ctx = st.ctx ∧
    (processDeleteConstraints env fault σ id c st).1.queue = st.queue ∧
    (processDeleteConstraints env fault σ id c st).2.1 = (findById fault σ c st.db id).1 ∧
    (∃ more, (processDeleteConstraints env fault σ id c st).1.raised = st.raised ++ more) ∧
    ((processDeleteConstraints env fault σ id c st).2.2.2 = none ↔
      ((findById fault σ c st.db id).2.1 = false ∧
        ((findById fault σ c st.db id).2.2 = none ∨
          (deleteConstraintErr st.db id = none ∧ ixVetoedFor env σ .beforeDelete id = false)))) ∧
    ((processDeleteConstraints env fault σ id c st).2.2.2 = none →
      (processDeleteConstraints env fault σ id c st).1.raised = st.raised ∧
      (processDeleteConstraints env fault σ id c st).1.inexact = st.inexact ∧
      (processDeleteConstraints env fault σ id c st).2.2.1 =
        (findById fault σ c st.db id).2.2.map (deleteFlow σ id)) := by
  unfold processDeleteConstraints
  simp only [h, exp_pdcInit, exp_pdcFinalHolder, if_true]
  by_cases hl : (findById fault σ c st.db id).2.1 = true
  · simp only [hl, if_true]
    refine ⟨rfl, rfl, rfl, trivial, ⟨[.load], rfl⟩, ?_, ?_⟩ <;> simp
  · have hl' : (findById fault σ c st.db id).2.1 = false := by simpa using hl
    simp only [hl', Bool.false_eq_true, if_false]
    cases hv : (findById fault σ c st.db id).2.2 with
    | none => simp
    | some init =>
      obtain ⟨x1, x2, x3, ⟨xm, x4⟩, x5, x6⟩ := ixStage_spec env σ .beforeDelete id false (deleteConstraintErr st.db id) st
      generalize hIX : ixStage env σ .beforeDelete id false (deleteConstraintErr st.db id) none st = IX at *
      cases hix : IX.2 with
      | some e =>
        simp only [Option.isSome_some, if_true]
        refine ⟨x1, x2, x3, trivial, ⟨xm, x4⟩, ?_, ?_⟩
        · constructor
          · intro hx; cases hx
          · intro ⟨_, hx⟩
            rcases hx with hx | hx
            · cases hx
            · have := x5.mpr hx; rw [hix] at this; cases this
        · intro hx; cases hx
      | none =>
        simp only [Option.isSome_none, Bool.false_eq_true, if_false]
        obtain ⟨y1, y2⟩ := x6 hix
        refine ⟨x1, x2, x3, trivial, ⟨xm, x4⟩, ?_, ?_⟩
        · constructor
          · intro _; exact ⟨trivial, Or.inr (x5.mp hix)⟩
          · intro _; trivial
        · intro _
          exact ⟨y1, y2, by simp [deleteFlow]⟩

theorem fireAll_spec (env : Env) (h : env.t = expectedReturns) (flows : List Flow) (st : TxSt) :
    SameCore (fireAll env .propagate flows st).1 st ∧
    (∃ more, (fireAll env .propagate flows st).1.raised = st.raised ++ more) ∧
    ((fireAll env .propagate flows st).2 = .ok ↔ (passVetoes env flows).2 = true) ∧
    ((fireAll env .propagate flows st).2 = .ok →
      (fireAll env .propagate flows st).1.raised = st.raised ∧
      (fireAll env .propagate flows st).1.queue = st.queue ++ flows.map .post) := by
  induction flows generalizing st with
  | nil => simp [fireAll, passVetoes, SameCore.rfl']
  | cons fl rest ih =>
    have hf := fireEvents_spec env h fl st
    obtain ⟨hc, hr⟩ := hf
    unfold fireAll passVetoes
    by_cases hv : vetoed env fl.store fl.kind fl.id = true
    · simp only [hv, if_true] at hr ⊢
      obtain ⟨⟨i, hi⟩, _, _, hmore⟩ := hr
      simp only [hi, act_propagate]
      refine ⟨hc, hmore, ?_, ?_⟩ <;> simp
    · have hv' : vetoed env fl.store fl.kind fl.id = false := by simpa using hv
      simp only [hv', Bool.false_eq_true, if_false] at hr ⊢
      obtain ⟨hn, hq, hrs⟩ := hr
      simp only [hn]
      obtain ⟨ic, ⟨more, imore⟩, iiff, iok⟩ := ih (fireEvents env fl st).1
      refine ⟨ic.trans hc, ⟨more, by rw [imore, hrs]⟩, iiff, ?_⟩
      intro ho
      obtain ⟨a, b⟩ := iok ho
      refine ⟨by rw [a, hrs], ?_⟩
      rw [b, hq]; simp

/-- one round of DeleteById's loop over the child-store strategies under the expected table -/
theorem deleteChildRound_spec (env : Env) (h : env.t = expectedReturns) (fault : Fault) (σ : StoreId) (id : String)
    (c : Cnt) (st : TxSt) :
    (deleteChildRound env fault σ id c st).1.db = st.db ∧
    (deleteChildRound env fault σ id c st).1.ctx = st.ctx ∧
    (deleteChildRound env fault σ id c st).1.queue = st.queue ∧
    (deleteChildRound env fault σ id c st).2.1 = (findById fault σ c st.db id).1 ∧
    (∃ more, (deleteChildRound env fault σ id c st).1.raised = st.raised ++ more) ∧
    ((deleteChildRound env fault σ id c st).2.2.1 = none ↔
      ((findById fault σ c st.db id).2.1 = false ∧
        ((findById fault σ c st.db id).2.2 = none ∨
          (deleteConstraintErr st.db id = none ∧ ixVetoedFor env σ .beforeDelete id = false)))) ∧
    (∀ res, (deleteChildRound env fault σ id c st).2.2.1 = some res → res ≠ .ok) ∧
    ((deleteChildRound env fault σ id c st).2.2.1 = none →
      (deleteChildRound env fault σ id c st).1.raised = st.raised ∧
      (deleteChildRound env fault σ id c st).1.inexact = st.inexact ∧
      (deleteChildRound env fault σ id c st).2.2.2 =
        ((findById fault σ c st.db id).2.2.map (deleteFlow σ id)).toList) := by
  obtain ⟨p1, p2, p3, p4, p5, p6, p7⟩ := pdc_spec env h fault σ id c st
  unfold deleteChildRound
  simp only [h, exp_deleteChildConstraints, act_propagate]
  cases hce : (processDeleteConstraints env fault σ id c st).2.2.2 with
  | some e =>
    refine ⟨p1, p2, p3, p4, p5, ?_, ?_, ?_⟩
    · constructor
      · intro hx; cases hx
      · intro hx; have := p6.mpr hx; rw [hce] at this; cases this
    · intro res hres; simp only [Option.some.injEq] at hres; rw [← hres]; intro hx; cases hx
    · intro hx; cases hx
  | none =>
    obtain ⟨q1, q2, q3⟩ := p7 hce
    refine ⟨p1, p2, p3, p4, p5, ?_, ?_, ?_⟩
    · constructor
      · intro _; exact p6.mp hce
      · intro _; rfl
    · intro res hres; cases hres
    · intro _
      refine ⟨q1, q2, ?_⟩
      rw [q3]
      unfold childFlowList
      cases (findById fault σ c st.db id).2.2 <;> rfl

theorem deleteFlows_eq (db : Db) (id : String) (pv : EntView) (hpv : view .P db id = some pv) :
    deleteFlows db id =
      markedFlows (deleteFlow .P id pv)
        (((view .C db id).map (deleteFlow .C id)).toList ++ ((view .D db id).map (deleteFlow .D id)).toList) := by
  unfold deleteFlows markedFlows
  simp only [hpv]
  cases view .C db id <;> cases view .D db id <;> simp [deleteFlow]

/-- BaseStore.DeleteById on the parent store under the expected table -/
theorem deleteParent_spec (env : Env) (h : env.t = expectedReturns) (fault : Fault) (id : String)
    (c : Cnt) (st : TxSt) :
    (deleteParent env fault id c st).1.ctx = st.ctx ∧
    (∃ more, (deleteParent env fault id c st).1.raised = st.raised ++ more) ∧
    ((deleteParent env fault id c st).2.2 = .ok ↔
      ((findById fault .P c st.db id).2.1 = false ∧ (view .P st.db id).isSome = true ∧
       (findById fault .C (findById fault .P c st.db id).1 st.db id).2.1 = false ∧
       (findById fault .D (findById fault .C (findById fault .P c st.db id).1 st.db id).1 st.db id).2.1 = false ∧
       (findById fault .P (findById fault .D (findById fault .C (findById fault .P c st.db id).1 st.db id).1 st.db id).1
          st.db id).2.1 = false ∧
       deleteConstraintErr st.db id = none ∧
       (ixVetoed env .P .beforeDelete id = false ∧
         ((view .C st.db id).isSome = true → ixVetoed env .C .beforeDelete id = false) ∧
         ((view .D st.db id).isSome = true → ixVetoed env .D .beforeDelete id = false)) ∧
       (passVetoes env (deleteFlows st.db id)).2 = true)) ∧
    ((deleteParent env fault id c st).2.2 = .ok →
      (deleteParent env fault id c st).1.raised = st.raised ∧
      (deleteParent env fault id c st).1.inexact = st.inexact ∧
      (deleteParent env fault id c st).1.db = st.db.del id ∧
      (deleteParent env fault id c st).2.1 =
        (findById fault .P (findById fault .D (findById fault .C (findById fault .P c st.db id).1 st.db id).1 st.db id).1
          st.db id).1 ∧
      (deleteParent env fault id c st).1.queue = st.queue ++ (deleteFlows st.db id).map .post) := by
  unfold deleteParent
  simp only [h, exp_deleteFind, exp_deleteNotFound, exp_deleteOwnConstraints, exp_deleteFireEvents, act_propagate]
  by_cases hl : (findById fault .P c st.db id).2.1 = true
  · simp [hl, TxSt.raise]
  · have hl' : (findById fault .P c st.db id).2.1 = false := by simpa using hl
    have hv1 := findById_ok fault .P c st.db id hl'
    simp only [hl', Bool.false_eq_true, if_false, true_and]
    rw [hv1]
    cases hpv : view .P st.db id with
    | none => simp [TxSt.raise]
    | some pv =>
      simp only [Option.isSome_some, true_and]
      generalize hc1 : (findById fault .P c st.db id).1 = c1
      -- first child store
      obtain ⟨a1, a2, a3, a4, ⟨am, a5⟩, a6, a7, a8⟩ := deleteChildRound_spec env h fault .C id c1 st
      generalize hR1 : deleteChildRound env fault .C id c1 st = R1 at *
      cases hr1 : R1.2.2.1 with
      | some res =>
        simp only
        refine ⟨a2, ⟨am, a5⟩, ?_, ?_⟩
        · constructor
          · intro hx; exact absurd hx (a7 res hr1)
          · intro ⟨l2, _, _, d, ⟨ixP, ixC, _⟩, _⟩
            have : R1.2.2.1 = none := a6.mpr ⟨l2, by
              cases hvc : view .C st.db id with
              | none => exact Or.inl (by rw [findById_ok fault .C c1 st.db id l2, hvc])
              | some cv => exact Or.inr ⟨d, (ixVetoedFor_false env .C .beforeDelete id).mpr ⟨ixP, fun _ => ixC (by rw [hvc]; rfl)⟩⟩⟩
            rw [hr1] at this; cases this
        · intro hx; exact absurd hx (a7 res hr1)
      | none =>
        obtain ⟨ar, ai, afl⟩ := a8 hr1
        obtain ⟨l2, adis⟩ := a6.mp hr1
        have hv2 := findById_ok fault .C c1 st.db id l2
        simp only
        rw [a4]
        generalize hc2 : (findById fault .C c1 st.db id).1 = c2
        -- second child store
        obtain ⟨b1, b2, b3, b4, ⟨bm, b5⟩, b6, b7, b8⟩ := deleteChildRound_spec env h fault .D id c2 R1.1
        rw [a1] at b4 b6 b8
        generalize hR2 : deleteChildRound env fault .D id c2 R1.1 = R2 at *
        cases hr2 : R2.2.2.1 with
        | some res =>
          simp only
          refine ⟨b2.trans a2, ⟨bm, by rw [b5, ar]⟩, ?_, ?_⟩
          · constructor
            · intro hx; exact absurd hx (b7 res hr2)
            · intro ⟨_, l3, _, d, ⟨ixP, _, ixD⟩, _⟩
              have : R2.2.2.1 = none := b6.mpr ⟨l3, by
                cases hvd : view .D st.db id with
                | none => exact Or.inl (by rw [findById_ok fault .D c2 st.db id l3, hvd])
                | some dv => exact Or.inr ⟨d, (ixVetoedFor_false env .D .beforeDelete id).mpr ⟨ixP, fun _ => ixD (by rw [hvd]; rfl)⟩⟩⟩
              rw [hr2] at this; cases this
          · intro hx; exact absurd hx (b7 res hr2)
        | none =>
          obtain ⟨br, bi, bfl⟩ := b8 hr2
          obtain ⟨l3, bdis⟩ := b6.mp hr2
          have hv3 := findById_ok fault .D c2 st.db id l3
          simp only
          rw [b4]
          generalize hc3 : (findById fault .D c2 st.db id).1 = c3
          -- the parent store's own constraints
          have hown := pdc_spec env h fault .P id c3 R2.1
          rw [b1, a1] at hown
          obtain ⟨odb, octx, oq, ocnt, ⟨omore, homore⟩, oiff, ook⟩ := hown
          cases hoe : (processDeleteConstraints env fault .P id c3 R2.1).2.2.2 with
          | some e =>
            simp only
            refine ⟨octx.trans (b2.trans a2), ⟨omore, by rw [homore, br, ar]⟩, ?_, ?_⟩
            · have : ¬((findById fault .P c3 st.db id).2.1 = false ∧
                  ((findById fault .P c3 st.db id).2.2 = none ∨
                    (deleteConstraintErr st.db id = none ∧ ixVetoedFor env .P .beforeDelete id = false))) := by
                rw [← oiff, hoe]; simp
              constructor
              · intro hx; cases hx
              · intro ⟨_, _, a, b, ⟨ixP, _⟩, _⟩
                exact absurd ⟨a, Or.inr ⟨b, (ixVetoedFor_false env .P .beforeDelete id).mpr ⟨ixP, by intro hx; exact absurd rfl hx⟩⟩⟩ this
            · intro hx; cases hx
          | none =>
            obtain ⟨orr, oinx, ofl⟩ := ook hoe
            obtain ⟨ol, odis⟩ := oiff.mp hoe
            have hv4 := findById_ok fault .P c3 st.db id ol
            have hdP : deleteConstraintErr st.db id = none ∧ ixVetoedFor env .P .beforeDelete id = false := by
              rcases odis with hnone | hd
              · rw [hv4, hpv] at hnone; cases hnone
              · exact hd
            have hdce : deleteConstraintErr st.db id = none := hdP.1
            have hixP : ixVetoed env .P .beforeDelete id = false :=
              ((ixVetoedFor_false env .P .beforeDelete id).mp hdP.2).1
            have hixC : (view .C st.db id).isSome = true → ixVetoed env .C .beforeDelete id = false := by
              intro hs
              rcases adis with hnone | hd
              · rw [hv2] at hnone; rw [hnone] at hs; cases hs
              · exact ((ixVetoedFor_false env .C .beforeDelete id).mp hd.2).2 (by decide)
            have hixD : (view .D st.db id).isSome = true → ixVetoed env .D .beforeDelete id = false := by
              intro hs
              rcases bdis with hnone | hd
              · rw [hv3] at hnone; rw [hnone] at hs; cases hs
              · exact ((ixVetoedFor_false env .D .beforeDelete id).mp hd.2).2 (by decide)
            simp only
            rw [ofl, hv4, hpv, afl, hv2, bfl, hv3, ocnt]
            generalize hst2 : (processDeleteConstraints env fault .P id c3 R2.1).1 = st2 at *
            simp only [Option.map_some, l2, l3, ol, hdce, hixP, true_and]
            rw [← deleteFlows_eq st.db id pv hpv]
            have hfa := fireAll_spec env h (deleteFlows st.db id) { st2 with db := st2.db.del id }
            obtain ⟨fc, ⟨fmore, hfmore⟩, fiff, fok⟩ := hfa
            refine ⟨?_, ⟨fmore, ?_⟩, ?_, ?_⟩
            · rw [fc.ctx]; exact octx.trans (b2.trans a2)
            · rw [hfmore]; simp only; rw [orr, br, ar]
            · rw [fiff]
              constructor
              · intro g; exact ⟨⟨hixC, hixD⟩, g⟩
              · intro g; exact g.2
            · intro ho
              obtain ⟨a, b⟩ := fok ho
              refine ⟨?_, ?_, ?_, ?_⟩
              · rw [a]; simp only; rw [orr, br, ar]
              · rw [fc.inexact]; simp only; rw [oinx, bi, ai]
              · rw [fc.db]; simp only; rw [odb]
              · rw [b]; simp only; rw [oq, b3, a3]

/-! ### the write rules of the model and of the spec agree -/

theorem or_eq_none {α : Type} (a b : Option α) : a.or b = none ↔ a = none ∧ b = none := by
  cases a <;> cases b <;> simp

theorem or_eq_none' {α : Type} (a b : Option α) : a.or b = none ↔ a = none ∧ b = none := or_eq_none a b

theorem tagsRejected_split (tags : List TagEntry) :
    tagsRejected tags = (tags.any (fun e => e.leaf.isUnsupported) || tags.any (fun e => e.path.any badKey)) := by
  unfold tagsRejected
  induction tags with
  | nil => rfl
  | cons e rest ih =>
    simp only [List.any_cons, ih]
    ac_rfl

theorem tagsErr_none (tags : List TagEntry) : tagsErr tags = none ↔ tagsRejected tags = false := by
  rw [tagsRejected_split]
  unfold tagsErr
  cases tags.any (fun e => e.leaf.isUnsupported) <;> cases tags.any (fun e => e.path.any badKey) <;> simp

theorem linksErr_none (links : List String) : linksErr links = none ↔ linksRejected links = false := by
  unfold linksErr linksRejected
  cases links.any (fun t => !qIds.contains t) <;> simp

theorem valueErr_none (f : PFields) : valueErr f = none ↔ keyRejected f = false := by
  unfold valueErr keyRejected
  rw [or_eq_none', or_eq_none', tagsErr_none, linksErr_none]
  cases h : f.roles.any (fun r => decide (r.utf8ByteSize + 1 > maxKeySize)) <;>
    cases tagsRejected f.tags <;> cases linksRejected f.links <;> simp

theorem persist_none (σ : StoreId) (c : Cnt) (f : PFields) :
    ((persist .none σ c f).2 = none) ↔ keyRejected f = false := by
  rw [← valueErr_none]
  unfold persist
  cases σ <;> cases h : valueErr f <;> simp


theorem uniqueErr_iff (isCreate : Bool) (db : Db) (id : String) (old : Option PFields) (f : PFields) :
    uniqueErr isCreate db id old f = none ↔ nameRejected isCreate db id old f = false := by
  unfold uniqueErr nameRejected
  cases isCreate <;>
  by_cases h0 : old.map (·.name) = some f.name <;>
  by_cases h5 : f.name = "" <;> by_cases h6 : f.name.utf8ByteSize > maxKeySize <;>
  cases h2 : db.any (fun p => p.2.f.name == f.name && !(p.1 == id)) <;>
  simp_all

theorem setErr_iff (old : Option PFields) (f : PFields) : setErr old f = none ↔ rolesRejected old f = false := by
  unfold setErr rolesRejected
  by_cases h8 : (old.map (·.roles)).getD [] = normRoles f.roles <;> cases h3 : (normRoles f.roles).contains "" <;> simp_all

theorem fkErr_iff (isCreate : Bool) (db' : Db) (old : Option PFields) (f : PFields) :
    fkErr isCreate db' old f = none ↔ refRejected isCreate db' old f = false := by
  unfold fkErr refRejected
  cases isCreate <;>
  by_cases h0 : refBytes (old.bind (·.ref)) = refBytes f.ref <;>
  by_cases h7 : refBytes f.ref = "" <;> cases h4 : db'.get (refBytes f.ref) <;>
  by_cases h9 : refBytes (old.bind (·.ref)) = "" <;> cases h10 : db'.get (refBytes (old.bind (·.ref))) <;>
  simp_all

theorem view_child_toParent (σ : StoreId) (db : Db) (id : String) (h : (view σ db id).isSome = true) :
    (view σ db id).map EntView.toParent = view .P db id := by
  unfold view at *
  cases hg : db.get id with
  | none => simp [hg] at h
  | some e =>
    simp only [hg] at h ⊢
    cases σ with
    | P => simp [EntView.toParent]
    | C =>
      cases hc : e.child with
      | none => simp [hc] at h
      | some r => simp [EntView.toParent]
    | D =>
      cases hc : e.child2 with
      | none => simp [hc] at h
      | some r => simp [EntView.toParent]

theorem view_C_toParent (db : Db) (id : String) (h : (view .C db id).isSome = true) :
    (view .C db id).map EntView.toParent = view .P db id := view_child_toParent .C db id h

theorem view_put_same (σ : StoreId) (db : Db) (id : String) (e : Ent) :
    view σ (db.put id e) id = (match σ with
      | .P => some (.parent id e.f)
      | .C => e.child.map fun r => .child id e.f r
      | .D => e.child2.map fun g => .child2 id e.f g) := by
  unfold view
  rw [Db.get_put_same]
  cases σ <;> rfl

theorem passVetoes_all (env : Env) (flows : List Flow) (h : (passVetoes env flows).2 = true) :
    (passVetoes env flows).1 = flows := by
  induction flows with
  | nil => rfl
  | cons fl rest ih =>
    unfold passVetoes at h ⊢
    by_cases hv : vetoed env fl.store fl.kind fl.id = true
    · simp [hv] at h
    · simp only [hv, Bool.false_eq_true, if_false] at h ⊢
      rw [ih h]

theorem passVetoes_one (env : Env) (fl : Flow) :
    (passVetoes env [fl]).2 = !vetoed env fl.store fl.kind fl.id := by
  unfold passVetoes
  cases vetoed env fl.store fl.kind fl.id <;> simp [passVetoes]

theorem passVetoes_two (env : Env) (a b : Flow) :
    (passVetoes env [a, b]).2 = (!vetoed env a.store a.kind a.id && !vetoed env b.store b.kind b.id) := by
  unfold passVetoes
  cases vetoed env a.store a.kind a.id <;> simp [passVetoes_one]

/-! ### injected storage faults: the model's call counters against the spec's call counts -/

/-- the n-th FillEntity call on store σ fails, for the counters `c` reached so far -/
theorem findById_failed (fault : Fault) (σ : StoreId) (c : Cnt) (db : Db) (id : String) :
    (findById fault σ c db id).2.1 = true ↔
      ((view σ db id).isSome = true ∧
        (fault = .load .P (c.fillP + 1) ∨ (σ = .C ∧ fault = .load .C (c.fillC + 1)))) := by
  unfold findById view
  cases hg : db.get id with
  | none => simp
  | some e =>
    cases σ with
    | P =>
      simp only
      split <;> simp_all
    | C =>
      cases hc : e.child with
      | none => simp [hc]
      | some r =>
        simp only [hc]
        by_cases hh : fault = Fault.load StoreId.P (c.fillP + 1) ∨ fault = Fault.load StoreId.C (c.fillC + 1)
        · simp [hh]
        · simp [hh]
    | D =>
      cases hc : e.child2 with
      | none => simp [hc]
      | some r =>
        simp only [hc]
        by_cases hh : fault = Fault.load StoreId.P (c.fillP + 1)
        · simp [hh]
        · simp [hh]

theorem findById_cnt (fault : Fault) (σ : StoreId) (c : Cnt) (db : Db) (id : String) :
    (findById fault σ c db id).1 =
      (if (view σ db id).isSome then
        { c with fillP := c.fillP + 1, fillC := match σ with | .C => c.fillC + 1 | _ => c.fillC }
       else c) := by
  unfold findById view
  cases hg : db.get id with
  | none => simp
  | some e =>
    cases σ with
    | P =>
      simp only
      split <;> simp
    | C =>
      cases hc : e.child with
      | none => simp [hc]
      | some r =>
        simp only [hc]
        split <;> simp
    | D =>
      cases hc : e.child2 with
      | none => simp [hc]
      | some r =>
        simp only [hc]
        split <;> simp

theorem persist_err (fault : Fault) (σ : StoreId) (c : Cnt) (f : PFields) :
    (persist fault σ c f).2 = none ↔
      (keyRejected f = false ∧ fault ≠ .persist .P (c.persP + 1) ∧ ¬(σ = .C ∧ fault = .persist .C (c.persC + 1))) := by
  rw [← valueErr_none]
  unfold persist
  cases σ <;> cases h : valueErr f <;> simp [Option.or]
  all_goals (split <;> simp_all)

theorem persist_cnt (fault : Fault) (σ : StoreId) (c : Cnt) (f : PFields) :
    (persist fault σ c f).1 =
      { c with persP := c.persP + 1, persC := match σ with | .C => c.persC + 1 | _ => c.persC } := by
  unfold persist
  cases σ <;> rfl

theorem not_true_iff_false' (b : Bool) : b = false ↔ ¬ b = true := by cases b <;> simp

theorem create_fault_iff (fault : Fault) (σ : StoreId) (f : PFields) (db' : Db) (id : String)
    (hv : (view σ db' id).isSome = true) :
    ((persist fault σ Cnt.zero f).2 = none ∧
      (findById fault σ (persist fault σ Cnt.zero f).1 db' id).2.1 = false) ↔
    (keyRejected f = false ∧
      faultHits fault 1 (ifC σ 1) 1 (ifC σ 1) = false) := by
  rw [persist_err, not_true_iff_false' (findById _ _ _ _ _).2.1, findById_failed, persist_cnt]
  cases σ <;> simp only [ifC] <;> cases fault <;> simp [faultHits, Cnt.zero, hv]
  all_goals (rename_i σ' n; cases σ' <;> simp <;> generalize keyRejected f = k <;> cases k <;> simp <;> omega)

theorem update_fault_iff (fault : Fault) (σ : StoreId) (f : PFields) (db db' : Db) (id : String)
    (hv : (view σ db id).isSome = true) (hv' : (view σ db' id).isSome = true) :
    ((findById fault σ Cnt.zero db id).2.1 = false ∧
      (persist fault σ (findById fault σ Cnt.zero db id).1 f).2 = none ∧
      (findById fault σ (persist fault σ (findById fault σ Cnt.zero db id).1 f).1 db' id).2.1 = false) ↔
    (keyRejected f = false ∧
      faultHits fault 2 (ifC σ 2) 1 (ifC σ 1) = false) := by
  rw [persist_err, not_true_iff_false' (findById fault σ Cnt.zero db id).2.1,
    not_true_iff_false' (findById fault σ (persist _ _ _ _).1 db' id).2.1, findById_failed, findById_failed,
    persist_cnt, findById_cnt]
  cases σ <;> simp only [ifC] <;> cases fault <;> simp [faultHits, Cnt.zero, hv, hv']
  all_goals (rename_i σ' n; cases σ' <;> simp <;> generalize keyRejected f = k <;> cases k <;> simp <;> omega)

theorem view_C_some_P (db : Db) (id : String) (h : (view .C db id).isSome = true) : (view .P db id).isSome = true := by
  unfold view at *
  cases hg : db.get id with
  | none => simp [hg] at h
  | some e => simp

theorem hasChild_iff_view (db : Db) (id : String) : hasChild db id = (view .C db id).isSome := by
  unfold hasChild view
  cases hg : db.get id with
  | none => rfl
  | some e => cases hc : e.child <;> simp

theorem hasChild2_iff_view (db : Db) (id : String) : hasChild2 db id = (view .D db id).isSome := by
  unfold hasChild2 view
  cases hg : db.get id with
  | none => rfl
  | some e => cases hc : e.child2 <;> simp

theorem delete_fault_iff (fault : Fault) (c : Cnt) (db : Db) (id : String) (hv : (view .P db id).isSome = true) :
    ((findById fault .P c db id).2.1 = false ∧
      (findById fault .C (findById fault .P c db id).1 db id).2.1 = false ∧
      (findById fault .D (findById fault .C (findById fault .P c db id).1 db id).1 db id).2.1 = false ∧
      (findById fault .P (findById fault .D (findById fault .C (findById fault .P c db id).1 db id).1 db id).1 db id).2.1 = false) ↔
    faultHits (shiftFault fault c.fillP c.fillC) (delCounts db id).1 (delCounts db id).2 0 0 = false := by
  rw [not_true_iff_false' (findById fault .P c db id).2.1,
    not_true_iff_false' (findById fault .C _ db id).2.1,
    not_true_iff_false' (findById fault .D _ db id).2.1,
    not_true_iff_false' (findById fault .P (findById fault .D _ db id).1 db id).2.1,
    findById_failed, findById_failed, findById_failed, findById_failed, findById_cnt, findById_cnt, findById_cnt]
  unfold delCounts
  rw [hasChild_iff_view, hasChild2_iff_view]
  cases fault with
  | none => cases hc : (view .C db id).isSome <;> cases hd : (view .D db id).isSome <;> simp [faultHits, shiftFault, hv]
  | persist σ' n =>
    cases hc : (view .C db id).isSome <;> cases hd : (view .D db id).isSome <;> cases σ' <;>
      simp [faultHits, shiftFault, hv] <;> omega
  | load σ' n =>
    cases σ' with
    | P =>
      by_cases h : n > c.fillP
      · cases hc : (view .C db id).isSome <;> cases hd : (view .D db id).isSome <;>
          simp [faultHits, shiftFault, hv, h] <;> omega
      · cases hc : (view .C db id).isSome <;> cases hd : (view .D db id).isSome <;>
          simp [faultHits, shiftFault, hv, h] <;> omega
    | C =>
      by_cases h : n > c.fillC
      · cases hc : (view .C db id).isSome <;> cases hd : (view .D db id).isSome <;>
          simp [faultHits, shiftFault, hv, h] <;> omega
      · cases hc : (view .C db id).isSome <;> cases hd : (view .D db id).isSome <;>
          simp [faultHits, shiftFault, hv, h] <;> omega
    | D =>
      cases hc : (view .C db id).isSome <;> cases hd : (view .D db id).isSome <;>
        simp [faultHits, shiftFault, hv]

theorem delete_cnt (fault : Fault) (c : Cnt) (db : Db) (id : String) (hv : (view .P db id).isSome = true) :
    (findById fault .P (findById fault .D (findById fault .C (findById fault .P c db id).1 db id).1 db id).1 db id).1 =
      { c with fillP := c.fillP + (delCounts db id).1, fillC := c.fillC + (delCounts db id).2 } := by
  rw [findById_cnt, findById_cnt, findById_cnt, findById_cnt]
  unfold delCounts
  rw [hasChild_iff_view, hasChild2_iff_view]
  cases hc : (view .C db id).isSome <;> cases hd : (view .D db id).isSome <;> simp [hv] <;> omega

/-! ### refinement: each operation of the model against the spec (any injected fault) -/

theorem faultHits_none (a b c d : Nat) : faultHits .none a b c d = false := rfl

theorem indexOk (isCreate : Bool) (db db' : Db) (id : String) (old : Option PFields) (f : PFields) :
    indexErr isCreate db db' id old f = none ↔
      (nameRejected isCreate db id old f = false ∧ rolesRejected old f = false ∧ refRejected isCreate db' old f = false) := by
  unfold indexErr
  rw [or_eq_none, or_eq_none, uniqueErr_iff, setErr_iff, fkErr_iff]

theorem writeRejected_false (isCreate : Bool) (db db' : Db) (id : String) (old : Option PFields) (f : PFields) :
    writeRejected isCreate db db' id old f = false ↔
      (keyRejected f = false ∧ nameRejected isCreate db id old f = false ∧ rolesRejected old f = false ∧
        refRejected isCreate db' old f = false) := by
  unfold writeRejected
  simp [Bool.or_eq_false_iff, and_assoc]

/-- the call counts of a create: (FillEntity on the parent, on the child strategy) — PersistEntity the same -/
def createCounts (σ : StoreId) : Nat × Nat := (1, ifC σ 1)

theorem specCreate_eq (env : Env) (fault : Fault) (σ : StoreId) (id : String) (f : PFields) (rank : String) (db : Db) :
    specCreate env fault σ id f rank db =
      if id = "" || present σ db id then rejectClean db
      else if writeRejected true db (db.put id (writtenEnt σ db id f rank)) id (createOld σ db id) f
          || faultHits fault (createCounts σ).1 (createCounts σ).2 (createCounts σ).1 (createCounts σ).2 then
        rejectDirty (db.put id (writtenEnt σ db id f rank))
      else if createOverVetoed env σ db id || ixVetoedFor env σ .afterUpdate id then rejectDirty db
      else finish env fault (db.put id (writtenEnt σ db id f rank))
        (writeFlows σ .created db (db.put id (writtenEnt σ db id f rank)) id) := by
  unfold specCreate createCounts
  rfl

theorem createFlows_eq (σ : StoreId) (db : Db) (id : String) (f : PFields) (rank : String) :
    flowsOf { createFlow σ id with final := view σ (db.put id (writtenEnt σ db id f rank)) id } =
      writeFlows σ .created db (db.put id (writtenEnt σ db id f rank)) id := by
  cases σ with
  | P => simp [flowsOf, createFlow, writeFlows]
  | C =>
    have hv : (view .C (db.put id (writtenEnt .C db id f rank)) id).isSome = true := by
      rw [view_put_same]; simp [writtenEnt]
    simp only [flowsOf, createFlow, writeFlows, parentFlow, view_child_toParent _ _ _ hv]
    simp
  | D =>
    have hv : (view .D (db.put id (writtenEnt .D db id f rank)) id).isSome = true := by
      rw [view_put_same]; simp [writtenEnt]
    simp only [flowsOf, createFlow, writeFlows, parentFlow, view_child_toParent _ _ _ hv]
    simp

theorem view_created_some (σ : StoreId) (db : Db) (id : String) (f : PFields) (rank : String) :
    (view σ (db.put id (writtenEnt σ db id f rank)) id).isSome = true := by
  rw [view_put_same]
  cases σ <;> simp [writtenEnt]

theorem create_refines (env : Env) (h : env.t = expectedReturns) (fault : Fault) (σ : StoreId) (id : String)
    (f : PFields) (rank : String) (st : TxSt) :
    (create env fault σ id f rank st).1.ctx = st.ctx ∧
    ((create env fault σ id f rank st).2 = .ok ↔ (specCreate env fault σ id f rank st.db).accepted = true) ∧
    ((create env fault σ id f rank st).2 = .ok →
      (create env fault σ id f rank st).1.db = (specCreate env fault σ id f rank st.db).db ∧
      (create env fault σ id f rank st).1.queue = st.queue ++ (specCreate env fault σ id f rank st.db).flows.map .post ∧
      (create env fault σ id f rank st).1.raised = st.raised ∧
      (create env fault σ id f rank st).1.inexact = st.inexact) := by
  obtain ⟨hctx, _, hiff, hok⟩ := create_spec env h fault σ id f rank st
  generalize hdb' : st.db.put id (writtenEnt σ st.db id f rank) = db' at *
  have hvs : (view σ db' id).isSome = true := by rw [← hdb']; exact view_created_some σ st.db id f rank
  have hfault := create_fault_iff fault σ f db' id hvs
  -- the spec's verdict
  have hacc : (specCreate env fault σ id f rank st.db).accepted = true ↔
      (id ≠ "" ∧ present σ st.db id = false ∧ writeRejected true st.db db' id (createOld σ st.db id) f = false ∧
        faultHits fault (createCounts σ).1 (createCounts σ).2 (createCounts σ).1 (createCounts σ).2 = false ∧
        (createOverVetoed env σ st.db id = false ∧ ixVetoedFor env σ .afterUpdate id = false) ∧
        (passVetoes env (writeFlows σ .created st.db db' id)).2 = true) := by
    rw [specCreate_eq, hdb']
    by_cases hid : id = ""
    · simp [hid, rejectClean]
    · by_cases hp : present σ st.db id = true
      · simp [hid, hp, rejectClean]
      · have hp' : present σ st.db id = false := by simpa using hp
        by_cases hw : writeRejected true st.db db' id (createOld σ st.db id) f = true
        · simp [hid, hp', hw, rejectDirty]
        · have hw' : writeRejected true st.db db' id (createOld σ st.db id) f = false := by simpa using hw
          by_cases hfh : faultHits fault (createCounts σ).1 (createCounts σ).2 (createCounts σ).1 (createCounts σ).2 = true
          · simp [hid, hp', hw', hfh, rejectDirty]
          · have hfh' : faultHits fault (createCounts σ).1 (createCounts σ).2 (createCounts σ).1 (createCounts σ).2 = false := by simpa using hfh
            cases hcv : createOverVetoed env σ st.db id <;> cases hix : ixVetoedFor env σ .afterUpdate id <;>
              simp [hid, hp', hw', hfh', hcv, hix, finish, rejectDirty]
  have hpv : (passVetoes env (writeFlows σ .created st.db db' id)).2 = true ↔
      (¬(σ ≠ .P ∧ vetoed env .P .created id = true) ∧ vetoed env σ .created id = false) := by
    cases σ with
    | P => simp [writeFlows, passVetoes_one]
    | C => simp [writeFlows, passVetoes_two]
    | D => simp [writeFlows, passVetoes_two]
  have hcc : (createCounts σ).1 = 1 ∧ (createCounts σ).2 = ifC σ 1 := ⟨rfl, rfl⟩
  have hmodel : (create env fault σ id f rank st).2 = .ok ↔ (specCreate env fault σ id f rank st.db).accepted = true := by
    rw [hiff, hacc, hpv, writeRejected_false, indexOk, hcc.1, hcc.2]
    constructor
    · intro ⟨a, b, cv, c, d, ix, e, g⟩
      obtain ⟨k, fh⟩ := hfault.mp ⟨c, e⟩
      exact ⟨a, b, ⟨k, d⟩, fh, ⟨cv, ix⟩, g⟩
    · intro ⟨a, b, ⟨k, d⟩, fh, ⟨cv, ix⟩, g⟩
      obtain ⟨c, e⟩ := hfault.mpr ⟨k, fh⟩
      exact ⟨a, b, cv, c, d, ix, e, g⟩
  refine ⟨hctx, hmodel, ?_⟩
  intro ho
  obtain ⟨h1, h2, h3, h4⟩ := hok ho
  obtain ⟨hid, hp, hw, hfh, ⟨hcv, hix⟩, hv⟩ := hacc.mp (hmodel.mp ho)
  have hnf := (hiff.mp ho).2.2.2.2.2.2.1
  rw [findById_ok _ _ _ _ _ hnf] at h4
  rw [← hdb'] at h4
  rw [createFlows_eq] at h4
  rw [specCreate_eq, hdb']
  rw [hdb'] at h4
  simp only [hid, hp, hw, hfh, hcv, hix, Bool.or_false, decide_false, Bool.false_eq_true, if_false, finish, passVetoes_all env _ hv]
  exact ⟨h3, h4, h1, h2⟩

theorem writtenEnt_eff (σ : StoreId) (db : Db) (id : String) (f : PFields) (rank : String) :
    writtenEnt (updateStore σ db id) db id f (effRank σ db id rank) = writtenEnt σ db id f rank := by
  unfold writtenEnt updateStore effRank hasChild hasChild2
  cases σ with
  | C => rfl
  | D => rfl
  | P =>
    cases hc : (db.get id).bind (·.child) with
    | some r => simp
    | none =>
      cases hd : (db.get id).bind (·.child2) with
      | some g => simp [hc]
      | none => simp [hc]

theorem view_some_get (σ : StoreId) (db : Db) (id : String) (v : EntView) (h : view σ db id = some v) :
    ∃ e, db.get id = some e := by
  unfold view at h
  cases hg : db.get id with
  | none => simp [hg] at h
  | some e => exact ⟨e, rfl⟩

/-- the call counts of an update performed by store σe: FillEntity (parent, child), PersistEntity (parent, child) -/
def updateCounts (σe : StoreId) : Nat × Nat × Nat × Nat := (2, ifC σe 2, 1, ifC σe 1)

theorem specUpdate_eq (env : Env) (fault : Fault) (σ : StoreId) (id : String) (f : PFields) (rank : String) (db : Db) :
    specUpdate env fault σ id f rank db =
      if id = "" then rejectClean db
      else match view (updateStore σ db id) db id with
        | none => rejectClean db
        | some _ =>
          if writeRejected false db (db.put id (writtenEnt σ db id f rank)) id ((db.get id).map (·.f)) f
              || faultHits fault (updateCounts (updateStore σ db id)).1 (updateCounts (updateStore σ db id)).2.1
                  (updateCounts (updateStore σ db id)).2.2.1 (updateCounts (updateStore σ db id)).2.2.2 then
            rejectDirty (db.put id (writtenEnt σ db id f rank))
          else if ixVetoedFor env (updateStore σ db id) .beforeUpdate id
              || ixVetoedFor env (updateStore σ db id) .afterUpdate id then rejectDirty db
          else finish env fault (db.put id (writtenEnt σ db id f rank))
            (writeFlows (updateStore σ db id) .updated db (db.put id (writtenEnt σ db id f rank)) id) := by
  unfold specUpdate updateCounts
  rfl

theorem view_updated_some (σ : StoreId) (db : Db) (id : String) (f : PFields) (rank : String)
    (h : (view (updateStore σ db id) db id).isSome = true) :
    (view (updateStore σ db id) (db.put id (writtenEnt σ db id f rank)) id).isSome = true := by
  rw [view_put_same]
  unfold view at h
  unfold updateStore hasChild hasChild2 writtenEnt at *
  cases hg : db.get id with
  | none => simp [hg] at h
  | some e =>
    cases σ <;> cases hc : e.child <;> cases hd : e.child2 <;> simp_all

theorem updateFlows_eq (σ : StoreId) (db : Db) (id : String) (f : PFields) (rank : String) (base : EntView)
    (hb : view (updateStore σ db id) db id = some base) :
    flowsOf { updateFlow (updateStore σ db id) id base with
        final := view (updateStore σ db id) (db.put id (writtenEnt σ db id f rank)) id } =
      writeFlows (updateStore σ db id) .updated db (db.put id (writtenEnt σ db id f rank)) id := by
  have hvs := view_updated_some σ db id f rank (by rw [hb]; rfl)
  have hv0 : (view (updateStore σ db id) db id).isSome = true := by rw [hb]; rfl
  have e0 := view_child_toParent _ db id hv0
  have e1 := view_child_toParent _ _ id hvs
  rw [hb] at e0
  cases hs : updateStore σ db id with
  | P =>
    rw [hs] at hb
    simp [flowsOf, updateFlow, writeFlows, hb]
  | C =>
    rw [hs] at hb e1
    simp only [flowsOf, updateFlow, writeFlows, parentFlow, e1, hb]
    simp at e0
    simp [e0]
  | D =>
    rw [hs] at hb e1
    simp only [flowsOf, updateFlow, writeFlows, parentFlow, e1, hb]
    simp at e0
    simp [e0]

theorem update_refines (env : Env) (h : env.t = expectedReturns) (fault : Fault) (σ : StoreId) (id : String)
    (f : PFields) (rank : String) (st : TxSt) :
    (update env fault σ id f rank st).1.ctx = st.ctx ∧
    ((update env fault σ id f rank st).2 = .ok ↔ (specUpdate env fault σ id f rank st.db).accepted = true) ∧
    ((update env fault σ id f rank st).2 = .ok →
      (update env fault σ id f rank st).1.db = (specUpdate env fault σ id f rank st.db).db ∧
      (update env fault σ id f rank st).1.queue = st.queue ++ (specUpdate env fault σ id f rank st.db).flows.map .post ∧
      (update env fault σ id f rank st).1.raised = st.raised ∧
      (update env fault σ id f rank st).1.inexact = st.inexact) := by
  rw [update_eq env h]
  obtain ⟨hctx, _, hiff, hok⟩ := updateLocal_spec env h fault (updateStore σ st.db id) id f (effRank σ st.db id rank) st
  rw [writtenEnt_eff] at hiff hok
  generalize hσe : updateStore σ st.db id = σe at *
  generalize hdb' : st.db.put id (writtenEnt σ st.db id f rank) = db' at *
  have hacc : (specUpdate env fault σ id f rank st.db).accepted = true ↔
      (id ≠ "" ∧ (view σe st.db id).isSome = true ∧
        writeRejected false st.db db' id ((st.db.get id).map (·.f)) f = false ∧
        faultHits fault (updateCounts σe).1 (updateCounts σe).2.1 (updateCounts σe).2.2.1 (updateCounts σe).2.2.2 = false ∧
        (ixVetoedFor env σe .beforeUpdate id = false ∧ ixVetoedFor env σe .afterUpdate id = false) ∧
        (passVetoes env (writeFlows σe .updated st.db db' id)).2 = true) := by
    rw [specUpdate_eq, hσe, hdb']
    by_cases hid : id = ""
    · simp [hid, rejectClean]
    · cases hv : view σe st.db id with
      | none => simp [hid, rejectClean]
      | some base =>
        by_cases hw : writeRejected false st.db db' id ((st.db.get id).map (·.f)) f = true
        · simp [hid, hw, rejectDirty]
        · have hw' : writeRejected false st.db db' id ((st.db.get id).map (·.f)) f = false := by simpa using hw
          by_cases hfh : faultHits fault (updateCounts σe).1 (updateCounts σe).2.1 (updateCounts σe).2.2.1 (updateCounts σe).2.2.2 = true
          · simp [hid, hw', hfh, rejectDirty]
          · have hfh' : faultHits fault (updateCounts σe).1 (updateCounts σe).2.1 (updateCounts σe).2.2.1 (updateCounts σe).2.2.2 = false := by simpa using hfh
            cases hixb : ixVetoedFor env σe .beforeUpdate id <;> cases hixa : ixVetoedFor env σe .afterUpdate id <;>
              simp [hid, hw', hfh', hixb, hixa, finish, rejectDirty]
  have hpv : (passVetoes env (writeFlows σe .updated st.db db' id)).2 = true ↔
      (¬(σe ≠ .P ∧ vetoed env .P .updated id = true) ∧ vetoed env σe .updated id = false) := by
    cases σe with
    | P => simp [writeFlows, passVetoes_one]
    | C => simp [writeFlows, passVetoes_two]
    | D => simp [writeFlows, passVetoes_two]
  have hcc : (updateCounts σe).1 = 2 ∧ (updateCounts σe).2.1 = ifC σe 2 ∧
      (updateCounts σe).2.2.1 = 1 ∧ (updateCounts σe).2.2.2 = ifC σe 1 := ⟨rfl, rfl, rfl, rfl⟩
  have hmodel : (updateLocal env fault σe id f (effRank σ st.db id rank) st).2 = .ok ↔
      (specUpdate env fault σ id f rank st.db).accepted = true := by
    rw [hiff, hacc, hpv, writeRejected_false, hcc.1, hcc.2.1, hcc.2.2.1, hcc.2.2.2]
    constructor
    · intro ⟨a, l1, b, ixb, c, d, ixa, l2, e, g⟩
      have hv1 : (view σe st.db id).isSome = true := by rw [← findById_ok _ _ _ _ _ l1]; exact b
      have hv2 : (view σe db' id).isSome = true := by
        rw [← hdb', ← hσe]; exact view_updated_some σ st.db id f rank (by rw [hσe]; exact hv1)
      obtain ⟨k, fh⟩ := (update_fault_iff fault σe f st.db db' id hv1 hv2).mp ⟨l1, c, l2⟩
      obtain ⟨base, hb⟩ := Option.isSome_iff_exists.mp hv1
      obtain ⟨e0, he0⟩ := view_some_get _ _ _ _ hb
      rw [he0] at d ⊢
      exact ⟨a, hv1, ⟨k, (indexOk _ _ _ _ _ _).mp d⟩, fh, ⟨ixb, ixa⟩, e, g⟩
    · intro ⟨a, hv1, ⟨k, d⟩, fh, ⟨ixb, ixa⟩, e, g⟩
      have hv2 : (view σe db' id).isSome = true := by
        rw [← hdb', ← hσe]; exact view_updated_some σ st.db id f rank (by rw [hσe]; exact hv1)
      obtain ⟨l1, c, l2⟩ := (update_fault_iff fault σe f st.db db' id hv1 hv2).mpr ⟨k, fh⟩
      obtain ⟨base, hb⟩ := Option.isSome_iff_exists.mp hv1
      obtain ⟨e0, he0⟩ := view_some_get _ _ _ _ hb
      rw [he0] at d ⊢
      refine ⟨a, l1, ?_, ixb, c, (indexOk _ _ _ _ _ _).mpr d, ixa, l2, e, g⟩
      rw [findById_ok _ _ _ _ _ l1]; exact hv1
  refine ⟨hctx, hmodel, ?_⟩
  intro ho
  obtain ⟨h1, h2, h3, base, hb, h4⟩ := hok ho
  obtain ⟨hid, hv, hw, hfh, ⟨hixb, hixa⟩, hvt⟩ := hacc.mp (hmodel.mp ho)
  obtain ⟨_, l1, _, _, _, _, _, l2, _, _⟩ := hiff.mp ho
  rw [findById_ok _ _ _ _ _ l1] at hb
  rw [findById_ok _ _ _ _ _ l2] at h4
  rw [specUpdate_eq, hσe, hdb']
  simp only [hid, if_false, hb, hw, hfh, hixb, hixa, Bool.or_false, Bool.false_eq_true, finish, passVetoes_all env _ hvt]
  have := updateFlows_eq σ st.db id f rank base (by rw [hσe]; exact hb)
  rw [hσe, hdb'] at this
  rw [this] at h4
  exact ⟨h3, h4, h1, h2⟩

theorem deleteById_eq (env : Env) (h : env.t = expectedReturns) (fault : Fault) (σ : StoreId) (id : String)
    (c : Cnt) (st : TxSt) : deleteById env fault σ id c st = deleteParent env fault id c st := by
  unfold deleteById
  cases σ with
  | P => rfl
  | C => simp [h]
  | D => simp [h]

theorem specDelete_eq (env : Env) (fault : Fault) (id : String) (db : Db) :
    specDelete env fault id db =
      match db.get id with
      | none => rejectClean db
      | some _ =>
        if faultHits fault (delCounts db id).1 (delCounts db id).2 0 0 then rejectDirty db
        else if db.any (fun p => !(p.1 == id) && refBytes p.2.f.ref == id) then rejectDirty db
        else if ixVetoedDel env db id then rejectDirty db
        else finish env fault (db.del id) (deleteFlows db id) := rfl

theorem ixVetoedDel_false (env : Env) (db : Db) (id : String) :
    ixVetoedDel env db id = false ↔
      (ixVetoed env .P .beforeDelete id = false ∧
        ((view .C db id).isSome = true → ixVetoed env .C .beforeDelete id = false) ∧
        ((view .D db id).isSome = true → ixVetoed env .D .beforeDelete id = false)) := by
  unfold ixVetoedDel
  rw [hasChild_iff_view, hasChild2_iff_view]
  cases (view .C db id).isSome <;> cases (view .D db id).isSome <;>
    cases ixVetoed env .P .beforeDelete id <;> cases ixVetoed env .C .beforeDelete id <;>
    cases ixVetoed env .D .beforeDelete id <;> simp

/-- a delete started with the call counters `c` behaves like one started from zero under the fault
    shifted by `c` -/
theorem delete_refines (env : Env) (h : env.t = expectedReturns) (fault : Fault) (σ : StoreId) (id : String)
    (c : Cnt) (st : TxSt) :
    (deleteById env fault σ id c st).1.ctx = st.ctx ∧
    ((deleteById env fault σ id c st).2.2 = .ok ↔
      (specDelete env (shiftFault fault c.fillP c.fillC) id st.db).accepted = true) ∧
    ((deleteById env fault σ id c st).2.2 = .ok →
      (deleteById env fault σ id c st).1.db = (specDelete env (shiftFault fault c.fillP c.fillC) id st.db).db ∧
      (deleteById env fault σ id c st).1.queue =
        st.queue ++ (specDelete env (shiftFault fault c.fillP c.fillC) id st.db).flows.map .post ∧
      (deleteById env fault σ id c st).1.raised = st.raised ∧
      (deleteById env fault σ id c st).1.inexact = st.inexact ∧
      (deleteById env fault σ id c st).2.1 =
        { c with fillP := c.fillP + (delCounts st.db id).1, fillC := c.fillC + (delCounts st.db id).2 }) := by
  rw [deleteById_eq env h]
  obtain ⟨hctx, _, hiff, hok⟩ := deleteParent_spec env h fault id c st
  have hacc : (specDelete env (shiftFault fault c.fillP c.fillC) id st.db).accepted = true ↔
      ((view .P st.db id).isSome = true ∧
        faultHits (shiftFault fault c.fillP c.fillC) (delCounts st.db id).1 (delCounts st.db id).2 0 0 = false ∧
        deleteConstraintErr st.db id = none ∧
        ixVetoedDel env st.db id = false ∧
        (passVetoes env (deleteFlows st.db id)).2 = true) := by
    rw [specDelete_eq]
    unfold view deleteConstraintErr
    cases hg : st.db.get id with
    | none => simp [rejectClean]
    | some e =>
      by_cases hfh : faultHits (shiftFault fault c.fillP c.fillC) (delCounts st.db id).1 (delCounts st.db id).2 0 0 = true
      · simp [hfh, rejectDirty]
      · have hfh' : faultHits (shiftFault fault c.fillP c.fillC) (delCounts st.db id).1 (delCounts st.db id).2 0 0 = false := by simpa using hfh
        by_cases hr : st.db.any (fun p => !(p.1 == id) && refBytes p.2.f.ref == id) = true
        · simp [hfh', hr, rejectDirty]
        · have hr' : st.db.any (fun p => !(p.1 == id) && refBytes p.2.f.ref == id) = false := by simpa using hr
          cases hix : ixVetoedDel env st.db id <;>
            simp [hfh', hr', hix, finish, rejectDirty]
  have hmodel : (deleteParent env fault id c st).2.2 = .ok ↔
      (specDelete env (shiftFault fault c.fillP c.fillC) id st.db).accepted = true := by
    rw [hiff, hacc]
    constructor
    · intro ⟨l1, hv, l2, l3, l4, d, ix, g⟩
      exact ⟨hv, (delete_fault_iff fault c st.db id hv).mp ⟨l1, l2, l3, l4⟩, d, (ixVetoedDel_false env st.db id).mpr ix, g⟩
    · intro ⟨hv, fh, d, ix, g⟩
      obtain ⟨l1, l2, l3, l4⟩ := (delete_fault_iff fault c st.db id hv).mpr fh
      exact ⟨l1, hv, l2, l3, l4, d, (ixVetoedDel_false env st.db id).mp ix, g⟩
  refine ⟨hctx, hmodel, ?_⟩
  intro ho
  obtain ⟨h1, h2, h3, hcnt, h4⟩ := hok ho
  obtain ⟨hv, hfh, hd, hix, hp⟩ := hacc.mp (hmodel.mp ho)
  rw [specDelete_eq]
  rw [delete_cnt fault c st.db id hv] at hcnt
  unfold view at hv
  unfold deleteConstraintErr at hd
  cases hg : st.db.get id with
  | none => simp [hg] at hv
  | some e =>
    have hr' : st.db.any (fun p => !(p.1 == id) && refBytes p.2.f.ref == id) = false := by
      by_cases hr : st.db.any (fun p => !(p.1 == id) && refBytes p.2.f.ref == id) = true
      · simp [hr] at hd
      · simpa using hr
    simp only [hfh, hr', hix, Bool.false_eq_true, if_false, finish, passVetoes_all env _ hp]
    exact ⟨h3, h4, h1, h2, hcnt⟩

theorem shiftFault_none (a b : Nat) : shiftFault .none a b = .none := rfl

theorem shiftFault_zero (fault : Fault) : shiftFault fault 0 0 = fault := by
  cases fault with
  | none => rfl
  | persist σ n => rfl
  | load σ n =>
    cases σ <;> simp only [shiftFault, Nat.sub_zero] <;> congr 1 <;> split <;> omega

theorem shiftFault_add (fault : Fault) (a b a' b' : Nat) :
    shiftFault (shiftFault fault a b) a' b' = shiftFault fault (a + a') (b + b') := by
  cases fault with
  | none => rfl
  | persist σ n => rfl
  | load σ n =>
    cases σ <;> simp only [shiftFault] <;> congr 1 <;> (repeat' split) <;> omega

theorem specDeleteMany_acc (env : Env) (fault : Fault) (ids : List String) (db : Db) (acc : List Flow) :
    (specDeleteMany env fault ids db acc).accepted = (specDeleteMany env fault ids db []).accepted ∧
    (specDeleteMany env fault ids db acc).db = (specDeleteMany env fault ids db []).db ∧
    (specDeleteMany env fault ids db acc).flows = acc ++ (specDeleteMany env fault ids db []).flows := by
  induction ids generalizing fault db acc with
  | nil => simp [specDeleteMany]
  | cons id rest ih =>
    unfold specDeleteMany
    by_cases ha : (specDelete env fault id db).accepted = true
    · simp only [ha, if_true]
      obtain ⟨a1, a2, a3⟩ := ih (shiftFault fault (delCounts db id).1 (delCounts db id).2)
        (specDelete env fault id db).db (acc ++ (specDelete env fault id db).flows)
      obtain ⟨b1, b2, b3⟩ := ih (shiftFault fault (delCounts db id).1 (delCounts db id).2)
        (specDelete env fault id db).db ([] ++ (specDelete env fault id db).flows)
      refine ⟨by rw [a1, b1], by rw [a2, b2], ?_⟩
      rw [a3, b3]; simp
    · simp [ha]

theorem deleteLoop_refines (env : Env) (h : env.t = expectedReturns) (fault : Fault) (σ : StoreId) (ids : List String)
    (c : Cnt) (st : TxSt) :
    (deleteLoop env fault σ ids c st).1.ctx = st.ctx ∧
    ((deleteLoop env fault σ ids c st).2 = .ok ↔
      (specDeleteMany env (shiftFault fault c.fillP c.fillC) ids st.db []).accepted = true) ∧
    ((deleteLoop env fault σ ids c st).2 = .ok →
      (deleteLoop env fault σ ids c st).1.db = (specDeleteMany env (shiftFault fault c.fillP c.fillC) ids st.db []).db ∧
      (deleteLoop env fault σ ids c st).1.queue =
        st.queue ++ (specDeleteMany env (shiftFault fault c.fillP c.fillC) ids st.db []).flows.map .post ∧
      (deleteLoop env fault σ ids c st).1.raised = st.raised ∧
      (deleteLoop env fault σ ids c st).1.inexact = st.inexact) := by
  induction ids generalizing c st with
  | nil => simp [deleteLoop, specDeleteMany]
  | cons id rest ih =>
    obtain ⟨dctx, diff, dok⟩ := delete_refines env h fault σ id c st
    unfold deleteLoop specDeleteMany
    simp only [h, exp_deleteWhereDelete, act_propagate]
    cases hd : (deleteById env fault σ id c st).2.2 with
    | err e =>
      have hna : ¬(specDelete env (shiftFault fault c.fillP c.fillC) id st.db).accepted = true := by rw [← diff, hd]; simp
      simp [hna, dctx]
    | ok =>
      have ha : (specDelete env (shiftFault fault c.fillP c.fillC) id st.db).accepted = true := diff.mp hd
      obtain ⟨d1, d2, d3, d4, d5⟩ := dok hd
      simp only [ha, if_true]
      rw [d5]
      obtain ⟨ictx, iiff, iok⟩ := ih ⟨c.fillP + (delCounts st.db id).1, c.fillC + (delCounts st.db id).2, c.persP, c.persC⟩ (deleteById env fault σ id c st).1
      rw [d1] at iiff iok
      have hsh : shiftFault fault (c.fillP + (delCounts st.db id).1) (c.fillC + (delCounts st.db id).2) =
          shiftFault (shiftFault fault c.fillP c.fillC) (delCounts st.db id).1 (delCounts st.db id).2 := by
        rw [shiftFault_add]
      simp only at iiff iok
      rw [hsh] at iiff iok
      obtain ⟨a1, a2, a3⟩ := specDeleteMany_acc env
        (shiftFault (shiftFault fault c.fillP c.fillC) (delCounts st.db id).1 (delCounts st.db id).2)
        rest (specDelete env (shiftFault fault c.fillP c.fillC) id st.db).db
        ([] ++ (specDelete env (shiftFault fault c.fillP c.fillC) id st.db).flows)
      refine ⟨by rw [ictx, dctx], by rw [iiff, a1], ?_⟩
      intro ho
      obtain ⟨i1, i2, i3, i4⟩ := iok ho
      refine ⟨by rw [i1, a2], ?_, by rw [i3, d3], by rw [i4, d4]⟩
      rw [i2, d2, a3]; simp

theorem runOp_refines (env : Env) (h : env.t = expectedReturns) (fault : Fault) (o : Op) (st : TxSt) :
    (runOp env fault o st).1.ctx = st.ctx ∧
    ((runOp env fault o st).2 = .ok ↔ (specOp env fault o st.db).accepted = true) ∧
    ((runOp env fault o st).2 = .ok →
      (runOp env fault o st).1.db = (specOp env fault o st.db).db ∧
      (runOp env fault o st).1.queue = st.queue ++ (specOp env fault o st.db).flows.map .post ∧
      (runOp env fault o st).1.raised = st.raised ∧
      (runOp env fault o st).1.inexact = st.inexact) := by
  cases o with
  | create σ id f rank => exact create_refines env h fault σ id f rank st
  | update σ id f rank => exact update_refines env h fault σ id f rank st
  | delete σ id =>
    obtain ⟨a, b, c⟩ := delete_refines env h fault σ id Cnt.zero st
    simp only [Cnt.zero, shiftFault_zero] at b c
    exact ⟨a, b, fun ho => ⟨(c ho).1, (c ho).2.1, (c ho).2.2.1, (c ho).2.2.2.1⟩⟩
  | deleteWhere σ q =>
    unfold runOp deleteWhere specOp
    cases q with
    | bad => simp [h, TxSt.raise, rejectClean]
    | all =>
      have := deleteLoop_refines env h fault σ (matching σ .all st.db) Cnt.zero st
      simpa only [Cnt.zero, shiftFault_zero] using this
    | nameEq n =>
      have := deleteLoop_refines env h fault σ (matching σ (.nameEq n) st.db) Cnt.zero st
      simpa only [Cnt.zero, shiftFault_zero] using this

/-! ### ghost: whatever is raised inside an operation surfaces (any injected fault) -/

theorem deleteLoop_ghost (env : Env) (h : env.t = expectedReturns) (fault : Fault) (σ : StoreId) (ids : List String)
    (c : Cnt) (st : TxSt) :
    (deleteLoop env fault σ ids c st).1.ctx = st.ctx ∧
    (∃ more, (deleteLoop env fault σ ids c st).1.raised = st.raised ++ more) ∧
    ((deleteLoop env fault σ ids c st).2 = .ok → (deleteLoop env fault σ ids c st).1.raised = st.raised) := by
  induction ids generalizing c st with
  | nil => simp [deleteLoop]
  | cons id rest ih =>
    unfold deleteLoop
    rw [deleteById_eq env h]
    obtain ⟨dctx, ⟨dm, hdm⟩, _, dok⟩ := deleteParent_spec env h fault id c st
    simp only [h, exp_deleteWhereDelete, act_propagate]
    cases hd : (deleteParent env fault id c st).2.2 with
    | err e => exact ⟨dctx, ⟨dm, hdm⟩, by intro hx; cases hx⟩
    | ok =>
      obtain ⟨d1, _⟩ := dok hd
      obtain ⟨ictx, ⟨im, him⟩, iok⟩ := ih (deleteParent env fault id c st).2.1 (deleteParent env fault id c st).1
      refine ⟨by rw [ictx, dctx], ⟨im, by rw [him, d1]⟩, ?_⟩
      intro ho
      rw [iok ho, d1]

theorem runOp_ghost (env : Env) (h : env.t = expectedReturns) (fault : Fault) (o : Op) (st : TxSt) :
    (runOp env fault o st).1.ctx = st.ctx ∧
    (∃ more, (runOp env fault o st).1.raised = st.raised ++ more) ∧
    ((runOp env fault o st).2 = .ok → (runOp env fault o st).1.raised = st.raised) := by
  cases o with
  | create σ id f rank =>
    obtain ⟨a, b, _, d⟩ := create_spec env h fault σ id f rank st
    exact ⟨a, b, fun ho => (d ho).1⟩
  | update σ id f rank =>
    show (update env fault σ id f rank st).1.ctx = st.ctx ∧
      (∃ more, (update env fault σ id f rank st).1.raised = st.raised ++ more) ∧
      ((update env fault σ id f rank st).2 = .ok → (update env fault σ id f rank st).1.raised = st.raised)
    rw [update_eq env h]
    obtain ⟨a, b, _, d⟩ := updateLocal_spec env h fault (updateStore σ st.db id) id f (effRank σ st.db id rank) st
    exact ⟨a, b, fun ho => (d ho).1⟩
  | delete σ id =>
    show (deleteById env fault σ id Cnt.zero st).1.ctx = st.ctx ∧
      (∃ more, (deleteById env fault σ id Cnt.zero st).1.raised = st.raised ++ more) ∧
      ((deleteById env fault σ id Cnt.zero st).2.2 = .ok → (deleteById env fault σ id Cnt.zero st).1.raised = st.raised)
    rw [deleteById_eq env h]
    obtain ⟨a, b, _, d⟩ := deleteParent_spec env h fault id Cnt.zero st
    exact ⟨a, b, fun ho => (d ho).1⟩
  | deleteWhere σ q =>
    unfold runOp deleteWhere
    cases q with
    | bad => simp [h, TxSt.raise]
    | all => exact deleteLoop_ghost env h fault σ _ Cnt.zero st
    | nameEq n => exact deleteLoop_ghost env h fault σ _ Cnt.zero st

/-! ### transaction bodies -/

/-- the caller hands every operation error on (the reading of "a store operation is rejected" in C07) -/
def Step.propagates : Step → Bool
  | .op _ _ swallow => !swallow
  | _ => true

def Propagating (body : List Step) : Prop := ∀ s ∈ body, s.propagates = true

theorem runSteps_ghost (env : Env) (h : env.t = expectedReturns) (body : List Step) (hp : Propagating body)
    (st : TxSt) :
    (∃ more, (runSteps env body st).1.raised = st.raised ++ more) ∧
    ((runSteps env body st).2 = .ok → (runSteps env body st).1.raised = st.raised) := by
  induction body generalizing st with
  | nil => simp [runSteps]
  | cons s rest ih =>
    have hrest : Propagating rest := fun x hx => hp x (List.mem_cons_of_mem _ hx)
    cases s with
    | op o fault swallow =>
      have hsw : swallow = false := by
        have := hp (.op o fault swallow) (List.mem_cons_self ..)
        simpa [Step.propagates] using this
      subst hsw
      obtain ⟨_, ⟨m, hm⟩, gok⟩ := runOp_ghost env h fault o st
      simp only [runSteps]
      cases hr : (runOp env fault o st).2 with
      | err e => exact ⟨⟨m, hm⟩, by simp⟩
      | ok =>
        obtain ⟨⟨m2, hm2⟩, iok⟩ := ih hrest (runOp env fault o st).1
        simp only
        refine ⟨⟨m ++ m2, by rw [hm2, hm]; simp⟩, ?_⟩
        intro ho
        rw [iok ho, gok hr]
    | fail tag => simp [runSteps, TxSt.raise]
    | fail1 tag => simp [runSteps, TxSt.raise]
    | link op id ts =>
      simp only [runSteps]
      cases hl : (linkStep op id ts st.db).1 with
      | some e => simp [TxSt.raise]
      | none => exact ih hrest _
    | addCommit tag => exact ih hrest _
    | addPre tag fails => exact ih hrest _
    | nestedBegin => exact ih hrest _
    | nestedEnd => exact ih hrest _
    | useSystemCtx => exact ih hrest _

theorem runSteps_refines (env : Env) (h : env.t = expectedReturns) (body : List Step)
    (hp : Propagating body) (st : TxSt) (b : Body) (Q : List QItem)
    (hdb : st.db = b.db) (hctx : st.ctx = b.ctx) (hacc : b.accepted = true)
    (hq : st.queue = Q ++ b.flows.map .post) :
    (runSteps env body st).1.ctx = (specSteps env body b).ctx ∧
    ((runSteps env body st).2 = .ok ↔ (specSteps env body b).accepted = true) ∧
    (specSteps env body b).specified = b.specified ∧
    ((runSteps env body st).2 = .ok →
      (runSteps env body st).1.db = (specSteps env body b).db ∧
      (runSteps env body st).1.queue = Q ++ (specSteps env body b).flows.map .post ∧
      (runSteps env body st).1.inexact = st.inexact) := by
  induction body generalizing st b with
  | nil => simp [runSteps, specSteps, hdb, hctx, hacc, hq]
  | cons s rest ih =>
    have hprest : Propagating rest := fun x hx => hp x (List.mem_cons_of_mem _ hx)
    cases s with
    | op o fault swallow =>
      have hsw : swallow = false := by
        have := hp (.op o fault swallow) (List.mem_cons_self ..)
        simpa [Step.propagates] using this
      subst hsw
      obtain ⟨rctx, riff, rok⟩ := runOp_refines env h fault o st
      simp only [runSteps, specSteps]
      rw [← hdb]
      cases hr : (runOp env fault o st).2 with
      | err e =>
        have hna : ¬(specOp env fault o st.db).accepted = true := by rw [← riff, hr]; simp
        simp [hna, rctx, hctx]
      | ok =>
        have ha : (specOp env fault o st.db).accepted = true := riff.mp hr
        obtain ⟨r1, r2, _, r4⟩ := rok hr
        simp only [ha, if_true]
        have := ih hprest (runOp env fault o st).1
          { b with db := (specOp env fault o st.db).db, flows := b.flows ++ (specOp env fault o st.db).flows }
          r1 (by rw [rctx, hctx]) hacc (by rw [r2, hq]; simp)
        obtain ⟨i1, i2, i3, i4⟩ := this
        refine ⟨i1, i2, i3, ?_⟩
        intro ho
        obtain ⟨j1, j2, j3⟩ := i4 ho
        exact ⟨j1, j2, by rw [j3, r4]⟩
    | fail tag => simp [runSteps, specSteps, TxSt.raise, hctx]
    | fail1 tag => simp [runSteps, specSteps, TxSt.raise, hctx]
    | link op id ts =>
      simp only [runSteps, specSteps]
      rw [← hdb]
      cases hl : (linkStep op id ts st.db).1 with
      | some e => simp [TxSt.raise, hctx]
      | none =>
        simp only
        exact ih hprest _ _ rfl hctx hacc hq
    | addCommit tag =>
      unfold runSteps specSteps
      exact ih hprest _ _ hdb (by simp [hctx]) hacc hq
    | addPre tag fails =>
      unfold runSteps specSteps
      exact ih hprest _ _ hdb (by simp [hctx]) hacc hq
    | nestedBegin =>
      unfold runSteps specSteps
      exact ih hprest _ _ hdb hctx hacc hq
    | nestedEnd =>
      unfold runSteps specSteps
      exact ih hprest _ _ hdb hctx hacc hq
    | useSystemCtx =>
      unfold runSteps specSteps
      exact ih hprest _ _ hdb hctx hacc hq

/-! ### whole transactions -/

theorem runPre_spec (acts : List (Nat × Bool)) :
    ((runPre acts).2 = none ↔ acts.all (fun p => !p.2) = true) ∧
    (∀ e, (runPre acts).2 = some e → ∃ tag, e = .preCommit tag) := by
  induction acts with
  | nil => simp [runPre]
  | cons p rest ih =>
    obtain ⟨tag, fails⟩ := p
    cases fails with
    | true => simp [runPre]
    | false =>
      simp only [runPre, Bool.false_eq_true, if_false, List.all_cons, Bool.not_false, Bool.true_and]
      exact ih

/-- the spec's reading of a transaction body started on `db` with context `ctx` -/
def specBody (env : Env) (db : Db) (ctx : Ctx) (body : List Step) : Body :=
  specSteps env body { accepted := true, db := db, flows := [], ctx := ctx, specified := true }

def preOk (ctx : Ctx) : Bool := ctx.preActions.all fun p => !p.2

/-- what a committed transaction runs, in bbolt's OnCommit order -/
def commitList (env : Env) (ctx : Ctx) (flows : List Flow) (txComplete : Bool) : List Fired :=
  [Fired.commitActions ctx.commitActions]
    ++ flows.flatMap (fun fl => postCommit fl (indexed (env.regs fl.store)))
    ++ (if txComplete then (List.range env.txListeners).map Fired.txComplete else [])

theorem flatMap_posts (env : Env) (ctx : Ctx) (flows : List Flow) :
    (flows.map QItem.post).flatMap (commitItem env ctx) =
      flows.flatMap (fun fl => postCommit fl (indexed (env.regs fl.store))) := by
  induction flows with
  | nil => rfl
  | cons fl rest ih => simp [List.flatMap_cons, commitItem, ih]

theorem attempt_refines (env : Env) (h : env.t = expectedReturns) (txc : Bool) (db : Db) (ctx : Ctx)
    (body : List Step) (hp : Propagating body) :
    (attempt env txc db ctx body).st.ctx = (specBody env db ctx body).ctx ∧
    ((attempt env txc db ctx body).res = .ok ↔
      ((specBody env db ctx body).accepted = true ∧ preOk (specBody env db ctx body).ctx = true)) ∧
    (specBody env db ctx body).specified = true ∧
    ((attempt env txc db ctx body).res = .ok →
      (attempt env txc db ctx body).st.db = (specBody env db ctx body).db ∧
      (attempt env txc db ctx body).st.inexact = false ∧
      (attempt env txc db ctx body).st.queue.flatMap (commitItem env (attempt env txc db ctx body).st.ctx) =
        commitList env (specBody env db ctx body).ctx (specBody env db ctx body).flows txc) := by
  have hr := runSteps_refines env h body hp (beginTx db ctx)
    { accepted := true, db := db, flows := [], ctx := ctx, specified := true } [.handleCommit] rfl rfl rfl rfl
  obtain ⟨r1, r2, r3, r4⟩ := hr
  simp only [attempt, specBody]
  cases hres : (runSteps env body (beginTx db ctx)).2 with
  | err e =>
    have hna : ¬(specSteps env body { accepted := true, db := db, flows := [], ctx := ctx, specified := true }).accepted = true := by
      rw [← r2, hres]; simp
    simp [hna, r1, r3]
  | ok =>
    have ha := r2.mp hres
    obtain ⟨q1, q2, q3⟩ := r4 hres
    obtain ⟨p1, _⟩ := runPre_spec (runSteps env body (beginTx db ctx)).1.ctx.preActions
    simp only
    cases hpre : (runPre (runSteps env body (beginTx db ctx)).1.ctx.preActions).2 with
    | some e =>
      have : ¬preOk (specSteps env body { accepted := true, db := db, flows := [], ctx := ctx, specified := true }).ctx = true := by
        unfold preOk; rw [← r1, ← p1, hpre]; simp
      simp [this, r1, r3, TxSt.raise]
    | none =>
      have hpo : preOk (specSteps env body { accepted := true, db := db, flows := [], ctx := ctx, specified := true }).ctx = true := by
        unfold preOk; rw [← r1, ← p1, hpre]
      simp only [ha, hpo, r3, and_self, true_and, forall_const]
      by_cases htx : (txc && decide (env.txListeners > 0)) = true
      · simp only [htx, if_true, TxSt.enqueue]
        refine ⟨r1, q1, q3, ?_⟩
        rw [q2]
        simp only [List.flatMap_append, List.append_nil, List.flatMap_cons, List.flatMap_nil,
          commitItem, flatMap_posts, commitList, r1]
        have : txc = true := by
          cases txc <;> simp_all
        simp [this]
      · simp only [htx, Bool.false_eq_true, if_false]
        refine ⟨r1, q1, q3, ?_⟩
        rw [q2]
        simp only [List.flatMap_append, List.append_nil, List.flatMap_cons, List.flatMap_nil,
          commitItem, flatMap_posts, commitList, r1]
        cases txc with
        | false => simp
        | true =>
          have : env.txListeners = 0 := by simpa using htx
          simp [this]

/-- the changes a transaction announces when it commits (spec level) -/
def txFlows (env : Env) (db : Db) (prevCtx : Ctx) (tx : TxSpec) : List Flow :=
  let ctx := if tx.reuseCtx then prevCtx else Ctx.empty
  match tx.mode with
  | .update => (specBody env db ctx tx.body).flows
  | .batch =>
    let a := specBody env db ctx tx.body
    if a.accepted && preOk a.ctx then a.flows else (specBody env.later db a.ctx (laterBody tx.body)).flows
  | .raw => (specBody env db Ctx.empty tx.body).flows

/-- agreement of the model's outcome of a transaction with the spec's -/
structure TxAgree (env : Env) (o : TxOut) (s : SpecOut) (flows : List Flow) (txc : Bool) : Prop where
  res : o.res = .ok ↔ s.ok = true
  db : o.db = s.db
  ctx : o.ctx = s.ctx
  specified : s.specified = true
  exact : o.inexact = false
  fired_ok : o.res = .ok → o.fired = commitList env s.ctx flows txc
  fired_err : o.res ≠ .ok → o.fired = []

theorem specTxWith_eq (env : Env) (txc : Bool) (db : Db) (ctx : Ctx) (body : List Step) :
    specTxWith env txc db ctx body =
      if (specBody env db ctx body).accepted && preOk (specBody env db ctx body).ctx then
        { ok := true, db := (specBody env db ctx body).db,
          fired := [Fired.commitActions (specBody env db ctx body).ctx.commitActions]
            ++ announceTo .P (specBody env db ctx body).flows (indexed env.regsP)
            ++ announceTo .C (specBody env db ctx body).flows (indexed env.regsC)
            ++ announceTo .D (specBody env db ctx body).flows (indexed env.regsD)
            ++ (if txc then (List.range env.txListeners).map Fired.txComplete else []),
          ctx := (specBody env db ctx body).ctx, specified := (specBody env db ctx body).specified }
      else { ok := false, db := db, fired := [], ctx := (specBody env db ctx body).ctx,
             specified := (specBody env db ctx body).specified } := rfl

theorem attempt_agree (env : Env) (h : env.t = expectedReturns) (txc : Bool) (db : Db) (ctx : Ctx)
    (body : List Step) (hp : Propagating body) (runs : Nat) (pl : List LogItem)
    (pr : List Nat) (ra : List Err) :
    TxAgree env
      (match (attempt env txc db ctx body).res with
        | .ok => commit env (attempt env txc db ctx body) runs pl pr ra
        | .err e => rollback db (attempt env txc db ctx body) e runs pl pr ra)
      (specTxWith env txc db ctx body) (specBody env db ctx body).flows txc := by
  obtain ⟨a1, a2, a3, a4⟩ := attempt_refines env h txc db ctx body hp
  rw [specTxWith_eq]
  cases hres : (attempt env txc db ctx body).res with
  | ok =>
    obtain ⟨hacc, hpo⟩ := a2.mp hres
    obtain ⟨b1, b2, b3⟩ := a4 hres
    simp only [hacc, hpo, Bool.and_self, if_true]
    exact ⟨by simp [commit], by simp [commit, b1], by simp [commit, a1], a3, by simp [commit, b2],
      fun _ => by simp only [commit]; rw [b3], fun hne => absurd rfl hne⟩
  | err e =>
    have hn : ¬((specBody env db ctx body).accepted = true ∧ preOk (specBody env db ctx body).ctx = true) := by
      rw [← a2, hres]; simp
    have hn' : ((specBody env db ctx body).accepted && preOk (specBody env db ctx body).ctx) = false := by
      cases hx : (specBody env db ctx body).accepted <;> cases hy : preOk (specBody env db ctx body).ctx <;> simp_all
    simp only [hn', Bool.false_eq_true, if_false]
    exact ⟨by simp [rollback], by simp [rollback], by simp [rollback, a1], a3, by simp [rollback],
      fun hx => by simp [rollback] at hx, fun _ => by simp [rollback]⟩

theorem dbUpdate_agree (env : Env) (h : env.t = expectedReturns) (db : Db) (ctx : Ctx)
    (body : List Step) (hp : Propagating body) :
    TxAgree env (dbUpdate env db ctx body) (specTxWith env true db ctx body) (specBody env db ctx body).flows true := by
  unfold dbUpdate
  exact attempt_agree env h true db ctx body hp 1 [] [] []

theorem specTxWith_ok (env : Env) (txc : Bool) (db : Db) (ctx : Ctx) (body : List Step) :
    (specTxWith env txc db ctx body).ok = ((specBody env db ctx body).accepted && preOk (specBody env db ctx body).ctx) ∧
    (specTxWith env txc db ctx body).ctx = (specBody env db ctx body).ctx := by
  rw [specTxWith_eq]
  cases hx : ((specBody env db ctx body).accepted && preOk (specBody env db ctx body).ctx) <;> simp

theorem TxAgree.of_same {env : Env} {o : TxOut} {s s' : SpecOut} {flows : List Flow} {txc : Bool}
    (h : TxAgree env o s flows txc) (hok : s'.ok = s.ok) (hdb : s'.db = s.db) (hctx : s'.ctx = s.ctx)
    (hsp : s'.specified = s.specified) : TxAgree env o s' flows txc :=
  ⟨by rw [hok]; exact h.res, by rw [hdb]; exact h.db, by rw [hctx]; exact h.ctx, by rw [hsp]; exact h.specified,
    h.exact, by rw [hctx]; exact h.fired_ok, h.fired_err⟩

/-- whether the tx-complete listeners are expected does not change outcome, database, context -/
theorem specTxWith_txc (env : Env) (txc txc' : Bool) (db : Db) (ctx : Ctx) (body : List Step) :
    (specTxWith env txc db ctx body).ok = (specTxWith env txc' db ctx body).ok ∧
    (specTxWith env txc db ctx body).db = (specTxWith env txc' db ctx body).db ∧
    (specTxWith env txc db ctx body).ctx = (specTxWith env txc' db ctx body).ctx ∧
    (specTxWith env txc db ctx body).specified = (specTxWith env txc' db ctx body).specified := by
  rw [specTxWith_eq, specTxWith_eq]
  cases hx : ((specBody env db ctx body).accepted && preOk (specBody env db ctx body).ctx) <;> simp

/-! #### a body that is executed again (Db.Batch's re-run) -/

theorem later_t (env : Env) : env.later.t = env.t := rfl
theorem later_txListeners (env : Env) : env.later.txListeners = env.txListeners := rfl

theorem later_regs (env : Env) (σ : StoreId) : env.later.regs σ = spendAt (env.once σ) 0 (env.regs σ) := by
  cases σ <;> rfl

/-- spent vetoes do not change what runs at commit: same registrations at the same positions -/
theorem postCommit_spendAt (fl : Flow) (once : List Nat) (k : Nat) (l : List Reg) :
    postCommit fl (indexFrom k (spendAt once k l)) = postCommit fl (indexFrom k l) := by
  induction l generalizing k with
  | nil => rfl
  | cons r rest ih =>
    simp only [spendAt, indexFrom]
    cases r with
    | listener st types => simp only [Reg.spent, ite_self, postCommit, ih]
    | constraint ty vs =>
      by_cases hc : once.contains k = true
      · simp only [hc, if_true, Reg.spent, postCommit, ih]
      · simp only [hc, Bool.false_eq_true, if_false, postCommit, ih]

theorem commitList_later (env : Env) (ctx : Ctx) (flows : List Flow) (txc : Bool) :
    commitList env.later ctx flows txc = commitList env ctx flows txc := by
  unfold commitList
  rw [later_txListeners]
  congr 2
  induction flows with
  | nil => rfl
  | cons fl rest ih =>
    simp only [List.flatMap_cons, ih]
    congr 1
    rw [later_regs]
    unfold indexed
    exact postCommit_spendAt fl _ 0 _

theorem laterBody_propagating (body : List Step) (hp : Propagating body) : Propagating (laterBody body) := by
  intro s hs
  unfold laterBody at hs
  exact hp s (List.mem_filter.mp hs).1

theorem TxAgree.of_later {env : Env} {o : TxOut} {s : SpecOut} {flows : List Flow} {txc : Bool}
    (h : TxAgree env.later o s flows txc) : TxAgree env o s flows txc :=
  ⟨h.res, h.db, h.ctx, h.specified, h.exact, fun hok => by rw [← commitList_later]; exact h.fired_ok hok, h.fired_err⟩

/-- Db.Batch (since cb70ebf it registers the tx-complete listeners exactly as Db.Update does)
    against the spec of a transaction: a first attempt that fails is run again — with whatever fails
    only the first time spent — and a second attempt that is accepted commits -/
theorem dbBatch_agree (env : Env) (h : env.t = expectedReturns) (db : Db) (ctx : Ctx)
    (body : List Step) (hp : Propagating body) :
    TxAgree env (dbBatch env db ctx body)
      (if (specTxWith env true db ctx body).ok then specTxWith env true db ctx body
        else specTxWith env.later true db (specTxWith env true db ctx body).ctx (laterBody body))
      (if (specBody env db ctx body).accepted && preOk (specBody env db ctx body).ctx then (specBody env db ctx body).flows
        else (specBody env.later db (specBody env db ctx body).ctx (laterBody body)).flows) true := by
  obtain ⟨a1, a2, _, _⟩ := attempt_refines env h true db ctx body hp
  obtain ⟨s1, s2⟩ := specTxWith_ok env true db ctx body
  have first := attempt_agree env h true db ctx body hp 1 [] [] []
  simp only [dbBatch]
  cases hres : (attempt env true db ctx body).res with
  | ok =>
    obtain ⟨hacc, hpo⟩ := a2.mp hres
    rw [hres] at first
    simp only [s1, hacc, hpo, Bool.and_self, if_true]
    exact first
  | err e =>
    have hn' : ((specBody env db ctx body).accepted && preOk (specBody env db ctx body).ctx) = false := by
      have hn : ¬((specBody env db ctx body).accepted = true ∧ preOk (specBody env db ctx body).ctx = true) := by
        rw [← a2, hres]; simp
      cases hx : (specBody env db ctx body).accepted <;> cases hy : preOk (specBody env db ctx body).ctx <;> simp_all
    simp only [s1, hn', Bool.false_eq_true, if_false, s2]
    rw [← a1]
    exact TxAgree.of_later
      (attempt_agree env.later (by rw [later_t]; exact h) true db (attempt env true db ctx body).st.ctx
        (laterBody body) (laterBody_propagating body hp) 2 _ _ _)

/-- a context from NewTxMutateContext (inside an enclosing Db.Update) against its spec -/
theorem dbRaw_agree (env : Env) (h : env.t = expectedReturns) (db : Db) (body : List Step) (hp : Propagating body) :
    TxAgree env (dbRaw env db body) (specRawTx env db body) (specBody env db Ctx.empty body).flows true := by
  have hr := runSteps_refines env h body hp (beginTx db Ctx.empty)
    { accepted := true, db := db, flows := [], ctx := Ctx.empty, specified := true } [.handleCommit] rfl rfl rfl rfl
  obtain ⟨r1, r2, r3, r4⟩ := hr
  unfold dbRaw specRawTx specBody
  cases hres : (runSteps env body (beginTx db Ctx.empty)).2 with
  | err e =>
    have hna : (specSteps env body { accepted := true, db := db, flows := [], ctx := Ctx.empty, specified := true }).accepted = false := by
      cases hx : (specSteps env body { accepted := true, db := db, flows := [], ctx := Ctx.empty, specified := true }).accepted with
      | false => rfl
      | true => have := r2.mpr hx; rw [hres] at this; cases this
    simp only [hres, hna, Bool.false_eq_true, if_false]
    exact ⟨by simp [rollback], by simp [rollback], by simp [rollback, r1], r3, by simp [rollback],
      fun hx => by simp [rollback] at hx, fun _ => by simp [rollback]⟩
  | ok =>
    have ha := r2.mp hres
    obtain ⟨q1, q2, q3⟩ := r4 hres
    simp only [hres, ha, if_true]
    refine ⟨by simp [commit], ?_, ?_, r3, ?_, ?_, fun hne => absurd rfl hne⟩
    · simp only [commit]; split <;> simpa [TxSt.enqueue] using q1
    · simp only [commit]; split <;> simpa [TxSt.enqueue] using r1
    · simp only [commit]; split <;> simpa [TxSt.enqueue, beginTx] using q3
    · intro _
      simp only [commit]
      by_cases htx : env.txListeners > 0
      · simp only [htx, if_true, TxSt.enqueue]
        rw [q2]
        simp only [List.flatMap_append, List.append_nil, List.flatMap_cons, List.flatMap_nil,
          commitItem, flatMap_posts, commitList, r1, if_true]
      · simp only [htx, if_false]
        rw [q2]
        have h0 : env.txListeners = 0 := by omega
        simp only [List.flatMap_append, List.append_nil, List.flatMap_cons, List.flatMap_nil,
          commitItem, flatMap_posts, commitList, r1, if_true, h0]
        simp

/-- the caller hands every operation error on (injected storage faults are allowed) -/
def TxSpec.wellBehaved (tx : TxSpec) : Prop := Propagating tx.body

theorem runTx_agree (env : Env) (h : env.t = expectedReturns) (db : Db) (prevCtx : Ctx) (tx : TxSpec)
    (hw : tx.wellBehaved) :
    TxAgree env (runTx env db prevCtx tx) (specTx env db prevCtx tx) (txFlows env db prevCtx tx)
      true := by
  unfold runTx specTx txFlows
  cases hm : tx.mode with
  | update => exact dbUpdate_agree env h db _ tx.body hw
  | batch => exact dbBatch_agree env h db _ tx.body hw
  | raw => exact dbRaw_agree env h db tx.body hw

/-- all histories: the model's outcomes agree with the spec's, transaction by transaction -/
inductive CaseAgree (env : Env) : List TxOut → List SpecOut → Prop
  | nil : CaseAgree env [] []
  | cons {o : TxOut} {s : SpecOut} {os : List TxOut} {ss : List SpecOut} (flows : List Flow) (txc : Bool) :
      TxAgree env o s flows txc → CaseAgree env os ss → CaseAgree env (o :: os) (s :: ss)

theorem runCase_agree (env : Env) (h : env.t = expectedReturns) (txs : List TxSpec)
    (hw : ∀ tx ∈ txs, tx.wellBehaved) (db : Db) (ctx : Ctx) :
    CaseAgree env (runCase env txs db ctx) (specCase env txs db ctx) := by
  induction txs generalizing db ctx with
  | nil => exact .nil
  | cons tx rest ih =>
    have ha := runTx_agree env h db ctx tx (hw tx (List.mem_cons_self ..))
    unfold runCase specCase
    simp only
    refine .cons _ _ ha ?_
    rw [ha.db, ha.ctx]
    exact ih (fun t ht => hw t (List.mem_cons_of_mem _ ht)) _ _

/-! ### what an accepted operation announces -/

theorem specCreate_accepted (env : Env) (fault : Fault) (σ : StoreId) (id : String) (f : PFields) (rank : String) (db : Db)
    (h : (specCreate env fault σ id f rank db).accepted = true) :
    (specCreate env fault σ id f rank db).db = db.put id (writtenEnt σ db id f rank) ∧
    (specCreate env fault σ id f rank db).flows =
      writeFlows σ .created db (db.put id (writtenEnt σ db id f rank)) id := by
  rw [specCreate_eq] at h ⊢
  split at h
  · simp [rejectClean] at h
  · split at h
    · simp [rejectDirty] at h
    · split at h
      · simp [rejectDirty] at h
      · rename_i h1 h2 h3
        simp only [h1, h2, h3, finish] at h ⊢
        exact ⟨rfl, passVetoes_all env _ h⟩

theorem specUpdate_accepted (env : Env) (fault : Fault) (σ : StoreId) (id : String) (f : PFields) (rank : String) (db : Db)
    (h : (specUpdate env fault σ id f rank db).accepted = true) :
    (∃ base, view (updateStore σ db id) db id = some base) ∧
    (specUpdate env fault σ id f rank db).db = db.put id (writtenEnt σ db id f rank) ∧
    (specUpdate env fault σ id f rank db).flows =
      writeFlows (updateStore σ db id) .updated db (db.put id (writtenEnt σ db id f rank)) id := by
  rw [specUpdate_eq] at h ⊢
  split at h
  · simp [rejectClean] at h
  · rename_i h1
    simp only [h1, if_false] at h ⊢
    cases hv : view (updateStore σ db id) db id with
    | none => simp [hv, rejectClean] at h
    | some base =>
      simp only [hv] at h ⊢
      split at h
      · simp [rejectDirty] at h
      · split at h
        · simp [rejectDirty] at h
        · rename_i h2 h3
          simp only [h2, h3, finish] at h ⊢
          exact ⟨⟨base, rfl⟩, rfl, passVetoes_all env _ h⟩

theorem specDelete_accepted (env : Env) (fault : Fault) (id : String) (db : Db)
    (h : (specDelete env fault id db).accepted = true) :
    (∃ e, db.get id = some e) ∧
    (specDelete env fault id db).db = db.del id ∧
    (specDelete env fault id db).flows = deleteFlows db id := by
  rw [specDelete_eq] at h ⊢
  cases hg : db.get id with
  | none => simp [hg, rejectClean] at h
  | some e =>
    simp only [hg] at h ⊢
    by_cases h1 : faultHits fault (delCounts db id).1 (delCounts db id).2 0 0 = true
    · simp [h1, rejectDirty] at h
    · by_cases h2 : db.any (fun p => !(p.1 == id) && refBytes p.2.f.ref == id) = true
      · simp [h1, h2, rejectDirty] at h
      · by_cases h3 : ixVetoedDel env db id = true
        · simp [h1, h2, h3, rejectDirty] at h
        · simp only [h1, h2, h3, if_false, finish] at h ⊢
          exact ⟨⟨e, rfl⟩, rfl, passVetoes_all env _ h⟩

end StorageModel.Tx
