import StorageModel.Tx.Store
/-
  Tx/Db — boltz/db.go DbImpl.Update / Batch and boltz/tx_context.go mutateContext.

  bbolt is modelled, not verified: a transaction whose function returns an error is rolled back
  (database unchanged, OnCommit handlers discarded); a committed transaction runs its OnCommit
  handlers in registration order.  `Batch` re-runs a failing body alone (bbolt's trySolo).
-/
namespace StorageModel.Tx

/-- `ctx.setTx(tx)`: the context registers handleCommit as the first OnCommit handler -/
def beginTx (db : Db) (ctx : Ctx) : TxSt :=
  { db := db, queue := [.handleCommit], preLog := [], raised := [], ctx := ctx, inexact := false }

/-- the caller's function: store operations whose error is returned at once (or swallowed, when
    the step says so), explicit `return err`, registrations on the context, nested Update calls
    (which, the context being bound to a transaction, just run their body) -/
def runSteps (env : Env) : List Step → TxSt → TxSt × Res
  | [], st => (st, .ok)
  | .op o fault swallow :: rest, st =>
    let r := runOp env fault o st
    match r.2 with
    | .ok => runSteps env rest r.1
    | .err e => if swallow then runSteps env rest r.1 else (r.1, .err e)
  | .fail tag :: _, st => (st.raise (.caller tag), .err (.caller tag))
  -- first execution of the body (a later execution runs `laterBody`, which no longer contains the step)
  | .fail1 tag :: _, st => (st.raise (.caller tag), .err (.caller tag))
  | .link op id ts :: rest, st =>
    match (linkStep op id ts st.db).1 with
    | some e => ({ st.raise e with inexact := true }, .err e)
    | none => runSteps env rest { st with db := (linkStep op id ts st.db).2 }
  | .addCommit tag :: rest, st =>
    runSteps env rest { st with ctx := { st.ctx with commitActions := st.ctx.commitActions ++ [tag] } }
  | .addPre tag fails :: rest, st =>
    runSteps env rest { st with ctx := { st.ctx with preActions := st.ctx.preActions ++ [(tag, fails)] } }
  | .nestedBegin :: rest, st => runSteps env rest st
  | .nestedEnd :: rest, st => runSteps env rest st
  | .useSystemCtx :: rest, st => runSteps env rest st

/-- mutateContext.runPreCommitActions; returns the tags that ran and the first error -/
def runPre : List (Nat × Bool) → List Nat × Option Err
  | [] => ([], none)
  | (tag, fails) :: rest =>
    if fails then ([tag], some (.preCommit tag))
    else let r := runPre rest; (tag :: r.1, r.2)

structure Attempt where
  st : TxSt
  res : Res
  preRan : List Nat
  deriving Repr

/-- the function DbImpl.Update / Batch hands to bbolt -/
def attempt (env : Env) (txComplete : Bool) (db : Db) (ctx : Ctx) (body : List Step) : Attempt :=
  let r := runSteps env body (beginTx db ctx)
  match r.2 with
  | .err e => { st := r.1, res := .err e, preRan := [] }
  | .ok =>
    let pc := runPre r.1.ctx.preActions
    match pc.2 with
    | some e => { st := r.1.raise e, res := .err e, preRan := pc.1 }
    | none =>
      let st := if txComplete && env.txListeners > 0 then r.1.enqueue .txComplete else r.1
      { st := st, res := .ok, preRan := pc.1 }

/-- a listener adapter's ProcessPostCommit: every registered change type that matches -/
def deliver (fl : Flow) (reg : Nat) : List (Nat × EvType) → List Fired
  | [] => []
  | (slot, t) :: rest =>
    if t.kind = fl.kind then
      .listener fl.store reg slot t.async fl.kind (match fl.kind with | .deleted => fl.initial | _ => fl.final)
        :: deliver fl reg rest
    else deliver fl reg rest

/-- EntityChangeState.processPostCommit -/
def postCommit (fl : Flow) : List (Nat × Reg) → List Fired
  | [] => []
  | (i, .listener _ types) :: rest => deliver fl i (indexed types) ++ postCommit fl rest
  | (i, .constraint _ _) :: rest => .post fl.store i fl :: postCommit fl rest

def commitItem (env : Env) (ctx : Ctx) : QItem → List Fired
  | .handleCommit => [.commitActions ctx.commitActions]
  | .post fl => postCommit fl (indexed (env.regs fl.store))
  | .txComplete => (List.range env.txListeners).map .txComplete

structure TxOut where
  res : Res
  db : Db
  fired : List Fired
  preLog : List LogItem
  preRan : List Nat
  runs : Nat
  ctx : Ctx
  raised : List Err
  inexact : Bool
  deriving Repr

def commit (env : Env) (a : Attempt) (runs : Nat) (preLog : List LogItem) (preRan : List Nat) (raised : List Err) : TxOut :=
  { res := .ok, db := a.st.db, fired := a.st.queue.flatMap (commitItem env a.st.ctx),
    preLog := preLog ++ a.st.preLog, preRan := preRan ++ a.preRan, runs := runs, ctx := a.st.ctx,
    raised := raised ++ a.st.raised, inexact := a.st.inexact }

def rollback (db : Db) (a : Attempt) (e : Err) (runs : Nat) (preLog : List LogItem) (preRan : List Nat) (raised : List Err) : TxOut :=
  { res := .err e, db := db, fired := [], preLog := preLog ++ a.st.preLog, preRan := preRan ++ a.preRan,
    runs := runs, ctx := a.st.ctx, raised := raised ++ a.st.raised, inexact := false }

/-- DbImpl.Update with a context that is not bound to a transaction -/
def dbUpdate (env : Env) (db : Db) (ctx : Ctx) (body : List Step) : TxOut :=
  let a := attempt env true db ctx body
  match a.res with
  | .ok => commit env a 1 [] [] []
  | .err e => rollback db a e 1 [] [] []

/-- the body as it behaves when the function is executed again: the "first time only" failures are spent -/
def laterBody (body : List Step) : List Step :=
  body.filter fun s => match s with | .fail1 _ => false | _ => true

/-- DbImpl.Batch (one caller): a failing function is rolled back and run again alone (in a fresh bbolt
    transaction: setTx registers handleCommit on it again); the context keeps whatever the first run
    registered on it; whatever depended on "first time" (Step.fail1, Env.once) no longer strikes, so the
    second run may well commit -/
def dbBatch (env : Env) (db : Db) (ctx : Ctx) (body : List Step) : TxOut :=
  let a := attempt env true db ctx body
  match a.res with
  | .ok => commit env a 1 [] [] []
  | .err _ =>
    let b := attempt env.later true db a.st.ctx (laterBody body)
    match b.res with
    | .ok => commit env.later b 2 a.st.preLog a.preRan a.st.raised
    | .err e => rollback db b e 2 a.st.preLog a.preRan a.st.raised

/-- a context the caller builds around a bbolt transaction it got elsewhere:
    `db.Update(nil, func(outer) { ctx := boltz.NewTxMutateContext(c, outer.Tx()); … work with ctx … })` (the
    exported API hands out a write transaction only through a running Db.Update / Batch).
    NewTxMutateContext binds the fresh context to the transaction with setTx, so its handleCommit is an
    OnCommit handler of that transaction and its commit actions run when it commits; nothing ever runs
    ITS pre-commit actions (runPreCommitActions is called on the outer context, which has none); the
    enclosing Db.Update registers the tx-complete listeners as usual; a nested Db.Update / Batch with the
    new context just runs its function.  (The outer context's own handleCommit runs an empty list — not
    modelled as an entry.) -/
def dbRaw (env : Env) (db : Db) (body : List Step) : TxOut :=
  let r := runSteps env body (beginTx db Ctx.empty)
  match r.2 with
  | .ok =>
    let st := if env.txListeners > 0 then r.1.enqueue .txComplete else r.1
    commit env { st := st, res := .ok, preRan := [] } 1 [] [] []
  | .err e => rollback db { st := r.1, res := .err e, preRan := [] } e 1 [] [] []

inductive Mode | update | batch | raw
  deriving DecidableEq, Repr

structure TxSpec where
  mode : Mode
  /-- use the MutateContext object of the previous transaction again -/
  reuseCtx : Bool
  body : List Step
  deriving Repr

def runTx (env : Env) (db : Db) (prevCtx : Ctx) (tx : TxSpec) : TxOut :=
  let ctx := if tx.reuseCtx then prevCtx else Ctx.empty
  match tx.mode with
  | .update => dbUpdate env db ctx tx.body
  | .batch => dbBatch env db ctx tx.body
  | .raw => dbRaw env db tx.body

/-- a history of transactions on one database -/
def runCase (env : Env) : List TxSpec → Db → Ctx → List TxOut
  | [], _, _ => []
  | tx :: rest, db, ctx =>
    let o := runTx env db ctx tx
    o :: runCase env rest o.db o.ctx

end StorageModel.Tx
