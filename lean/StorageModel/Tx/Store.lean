import StorageModel.Tx.Types
/-
  Tx/Store — boltz/store_crud.go Create / Update / DeleteById / DeleteWhere and boltz/store.go
  EntityChangeState, stage by stage, WITH THEIR RETURN PATHS: at every `if err != nil` site the
  model does what the regenerated table `CrudReturns` says the Go code does there.  Every error that
  is raised (validation, storage, index, constraint veto) is also appended to the ghost list
  `TxSt.raised`, independently of what is returned.
-/
namespace StorageModel.Tx

inductive Act
  | ret (r : Res)
  | cont

def Ret.act : Ret → Err → Act
  | .propagate, e => .ret (.err e)
  | .returnNil, _ => .ret .ok
  | .ignore, _ => .cont

/-- FillEntity / PersistEntity calls made so far by the running operation, per store strategy -/
structure Cnt where
  fillP : Nat
  fillC : Nat
  persP : Nat
  persC : Nat
  deriving DecidableEq, Repr

def Cnt.zero : Cnt := ⟨0, 0, 0, 0⟩

/-- FindById; returns (counters, load failed, entity).  The child strategy's FillEntity loads the
    parent part through the parent store's LoadEntity first. -/
def findById (fault : Fault) (σ : StoreId) (c : Cnt) (db : Db) (id : String) : Cnt × Bool × Option EntView :=
  match db.get id with
  | none => (c, false, none)
  | some e =>
    match σ with
    | .P =>
      let c := { c with fillP := c.fillP + 1 }
      if fault = .load .P c.fillP then (c, true, none) else (c, false, some (.parent id e.f))
    | .C =>
      match e.child with
      | none => (c, false, none)
      | some r =>
        let c := { c with fillC := c.fillC + 1, fillP := c.fillP + 1 }
        if fault = .load .P c.fillP ∨ fault = .load .C c.fillC then (c, true, none)
        else (c, false, some (.child id e.f r))
    | .D =>
      -- the second child store's strategy is not instrumented itself; it loads the parent part through
      -- the parent store's LoadEntity, which is
      match e.child2 with
      | none => (c, false, none)
      | some g =>
        let c := { c with fillP := c.fillP + 1 }
        if fault = .load .P c.fillP then (c, true, none)
        else (c, false, some (.child2 id e.f g))

/-- a map key (or the name of a nested bucket) bbolt refuses: empty or above its key size -/
def badKey : Seg → Bool
  | .key k => k = "" || k.utf8ByteSize > maxKeySize
  | .idx _ => false

/-- ctx.SetMap("tags", …) = TypedBucket.PutMap with nesting allowed: setMarshaled has no case for the
    value's type ("unsupported type … in map" — wherever the value sits: directly in the map, in a list,
    in a list of a nested map; the error travels up through `bucket.Err = listBucket.Err`), or bbolt
    refuses a key.  (Go iterates the map in random order; a value with both defects is outside the
    generated universe — the model reports the unsupported type.) -/
def tagsErr (tags : List TagEntry) : Option Err :=
  if tags.any (fun e => e.leaf.isUnsupported) then some .unsupported
  else if tags.any (fun e => e.path.any badKey) then some .key
  else none

/-- ctx.SetLinkedIds("groups", …) = LinkCollection.SetLinks: a target that is to be linked and has no entity
    bucket in the linked store makes LinkedSetSymbol.AddLink fail with a not-found error (after the
    forward entry was written) -/
def linksErr (links : List String) : Option Err :=
  if links.any (fun t => !qIds.contains t) then some .linkMissing else none

/-- what the typed-bucket setters called by the parent strategy's PersistEntity record for the VALUE of
    the entity (no injection): name, ref, roles — a role whose list key (type byte + value) exceeds
    bbolt's key size is refused by `Put` — then tags, then the linked ids; the first error wins
    (ProceedWithSet) -/
def valueErr (f : PFields) : Option Err :=
  ((if f.roles.any (fun r => r.utf8ByteSize + 1 > maxKeySize) then some Err.key else none).or (tagsErr f.tags)).or
    (linksErr f.links)

/-- PersistEntity into the entity bucket: (counters, error recorded in the bucket's holder). -/
def persist (fault : Fault) (σ : StoreId) (c : Cnt) (f : PFields) : Cnt × Option Err :=
  let keyErr : Option Err := valueErr f
  match σ with
  | .P =>
    let c := { c with persP := c.persP + 1 }
    (c, keyErr.or (if fault = .persist .P c.persP then some .persist else none))
  | .C =>
    let c := { c with persC := c.persC + 1, persP := c.persP + 1 }
    (c, keyErr.or (if fault = .persist .P c.persP ∨ fault = .persist .C c.persC then some .persist else none))
  | .D =>
    let c := { c with persP := c.persP + 1 }
    (c, keyErr.or (if fault = .persist .P c.persP then some .persist else none))

def refBytes (r : Option String) : String := r.getD ""

/-- uniqueIndex.ProcessAfterUpdate on `name`.  `old` = the parent fields stored before the write (what
    ProcessBeforeUpdate remembered): none for a create from scratch, the existing fields for an update
    and for a create of child data over an existing plain parent entity (`isCreate` with `old = some`:
    no "unchanged" shortcut; the entity's own old entry is removed before the new value is looked up). -/
def uniqueErr (isCreate : Bool) (db : Db) (id : String) (old : Option PFields) (new : PFields) : Option Err :=
  if !isCreate && old.map (·.name) == some new.name then none
  else if new.name = "" then some .nullName
  else if db.any (fun p => p.2.f.name == new.name && !(p.1 == id)) then some .dup
  else if new.name.utf8ByteSize > maxKeySize then some .key
  else none

/-- setIndex.ProcessAfterUpdate on `roles`: remembered values against current ones (no use of IsCreate);
    an empty element needs a bucket with an empty name -/
def setErr (old : Option PFields) (new : PFields) : Option Err :=
  let oldR := (old.map (·.roles)).getD []
  let newR := normRoles new.roles
  if oldR == newR then none
  else if newR.contains "" then some .key
  else none

/-- fkIndex.ProcessAfterUpdate on `ref` (nullable): old and new target must have an entity bucket -/
def fkErr (isCreate : Bool) (dbAfter : Db) (old : Option PFields) (new : PFields) : Option Err :=
  let oldV := refBytes (old.bind (·.ref))
  let newV := refBytes new.ref
  if !isCreate && oldV == newV then none
  else if oldV ≠ "" && (dbAfter.get oldV).isNone then some .fkMissing
  else if newV ≠ "" && (dbAfter.get newV).isNone then some .fkMissing
  else none

/-- IndexingContext.ProcessAfterUpdate: constraints in registration order, the first error wins -/
def indexErr (isCreate : Bool) (db dbAfter : Db) (id : String) (old : Option PFields) (new : PFields) : Option Err :=
  (uniqueErr isCreate db id old new).or ((setErr old new).or (fkErr isCreate dbAfter old new))

/-- fkDeleteConstraint.ProcessBeforeDelete: the back-reference set is non-empty (the entity's own
    reference to itself has been removed by fkIndex.ProcessBeforeDelete before) -/
def deleteConstraintErr (db : Db) (id : String) : Option Err :=
  if db.any (fun p => !(p.1 == id) && refBytes p.2.f.ref == id) then some .refExists else none

def indexFrom {α : Type} : Nat → List α → List (Nat × α)
  | _, [] => []
  | k, a :: l => (k, a) :: indexFrom (k + 1) l

/-- a registration list with the position of every entry (its identity in the logs) -/
def indexed {α : Type} (l : List α) : List (Nat × α) := indexFrom 0 l

/-- the `for _, index := range ctx.constraints` loop of an IndexingContext over the custom constraints of
    store σ (they come after the built-in indexes): every one is called — the loop itself does not look
    at the holder — and one that lists (stage, row id) calls `ctx.ErrHolder.SetError`; the holder `h`
    keeps the first error it was given (errorz.ErrorHolderImpl.SetError) -/
def ixLoop (σ : StoreId) (stage : Stage) (id : String) (isCreate : Bool) :
    List (Nat × IxReg) → Option Err → TxSt → TxSt × Option Err
  | [], h, st => (st, h)
  | (i, vs) :: rest, h, st =>
    let st := { st with preLog := st.preLog ++ [.ix ⟨σ, i, stage, id, isCreate⟩] }
    if vs.contains (stage, id) then
      ixLoop σ stage id isCreate rest (h.or (some (.ixVeto σ i))) (st.raise (.ixVeto σ i))
    else ixLoop σ stage id isCreate rest h st

/-- raise the holder's error (it was just recorded by the storage / index layer) -/
def raiseOpt (st : TxSt) : Option Err → TxSt
  | none => st
  | some e => { st.raise e with inexact := true }

/-- IndexingContext.ProcessBeforeUpdate / ProcessAfterUpdate / ProcessBeforeDelete of the context
    `store.newIndexingContext(isCreate, ctx, id, holder)` of store σ.  The context of a child store is
    chained to a context of the parent store with the SAME holder; the parent's context runs first;
    each level runs its constraints only `if !ctx.ErrHolder.HasError()`.  Level P: the built-in
    indexes (what they record is `builtin`), then P's custom constraints; level of a child store (C
    or D): its custom constraints (the child stores have no index of their own).  Returns the state and
    the holder. -/
def ixStage (env : Env) (σ : StoreId) (stage : Stage) (id : String) (isCreate : Bool)
    (builtin : Option Err) (h : Option Err) (st : TxSt) : TxSt × Option Err :=
  let p : TxSt × Option Err :=
    match h with
    | some e => (st, some e)
    | none => ixLoop .P stage id isCreate (indexed env.ixP) builtin (raiseOpt st builtin)
  match σ with
  | .P => p
  | σ =>
    match p.2 with
    | some e => (p.1, some e)
    | none => ixLoop σ stage id isCreate (indexed (env.ix σ)) none p.1

/-- EntityChangeState.processPreCommit -/
def preCommitLoop (t : CrudReturns) (fl : Flow) : List (Nat × Reg) → TxSt → TxSt × Option Err
  | [], st => (st, none)
  | (_, .listener _ _) :: rest, st => preCommitLoop t fl rest st
  | (i, .constraint _ vetoes) :: rest, st =>
    let st := { st with preLog := st.preLog ++ [.pre ⟨fl.store, i, fl.kind, fl.id, fl.parentEvent⟩] }
    if vetoes.contains (fl.kind, fl.id) then
      let st := st.raise (.veto fl.store i)
      match t.preCommitLoop with
      | .propagate => (st, some (.veto fl.store i))
      | .returnNil => (st, none)
      | .ignore => preCommitLoop t fl rest st
    else preCommitLoop t fl rest st

/-- EntityChangeState.fireEvents -/
def fireEvents (env : Env) (fl : Flow) (st : TxSt) : TxSt × Option Err :=
  let st0 := if env.t.queueAfterVeto then st else st.enqueue (.post fl)
  let r := preCommitLoop env.t fl (indexed (env.regs fl.store)) st0
  let done := if env.t.queueAfterVeto then r.1.enqueue (.post fl) else r.1
  match r.2 with
  | none => (done, none)
  | some e =>
    match env.t.fireEventsVeto with
    | .propagate => (r.1, some e)
    | .returnNil => (r.1, none)
    | .ignore => (done, none)

/-- EntityChangeState.initFromChild -/
def parentFlow (fl : Flow) : Flow :=
  { store := .P, kind := fl.kind, id := fl.id, initial := fl.initial.map EntView.toParent,
    final := fl.final.map EntView.toParent, parentEvent := true }

/-- BaseStore.fireParentEvent -/
def fireParentEvent (env : Env) (fl : Flow) (st : TxSt) : TxSt × Option Err :=
  match fl.store with
  | .P => (st, none)
  | _ =>
    let r := fireEvents env (parentFlow fl) st
    match r.2 with
    | none => r
    | some e =>
      match env.t.parentEventReturn with
      | .propagate => (r.1, some e)
      | _ => (r.1, none)

def holderRes : Option Err → Res
  | none => .ok
  | some e => .err e

/-- the stages shared by Create and Update after the writes: loadFinalState, fireParentEvent,
    fireEvents, final return -/
def finishWrite (env : Env) (fault : Fault) (rLoad rParent rOwn : Ret) (finalHolder : Bool)
    (fl : Flow) (holder : Option Err) (c : Cnt) (st : TxSt) : TxSt × Res :=
  -- loadFinalState
  let ld := findById fault fl.store c st.db fl.id
  let loaded : TxSt × Flow × Option Res :=
    if ld.2.1 then
      let st := st.raise .load
      match rLoad.act .load with
      | .ret r => (st, fl, some r)
      | .cont => (st, { fl with final := none }, none)
    else (st, { fl with final := ld.2.2 }, none)
  match loaded.2.2 with
  | some r => (loaded.1, r)
  | none =>
    let fl := loaded.2.1
    let pe := fireParentEvent env fl loaded.1
    let afterParent : Option Res :=
      match pe.2 with
      | none => none
      | some e => match rParent.act e with
        | .ret r => some r
        | .cont => none
    match afterParent with
    | some r => (pe.1, r)
    | none =>
      let oe := fireEvents env fl pe.1
      let afterOwn : Option Res :=
        match oe.2 with
        | none => none
        | some e => match rOwn.act e with
          | .ret r => some r
          | .cont => none
      match afterOwn with
      | some r => (oe.1, r)
      | none => (oe.1, if finalHolder then holderRes holder else .ok)

/-- the entity written by a create / update through store σ (a child store writes the parent fields
    through the parent's persist context and its own rank / grade; every store leaves the data of the
    other stores alone) -/
def writtenEnt (σ : StoreId) (db : Db) (id : String) (f : PFields) (rank : String) : Ent :=
  { f := f.norm,
    child := match σ with | .C => some rank | _ => (db.get id).bind (·.child),
    child2 := match σ with | .D => some rank | _ => (db.get id).bind (·.child2) }

/-- the parent fields a create replaces: those of an existing plain parent entity, when child data is
    created over it through the child store (legal: a child store only looks at its own data for
    "already exists") -/
def createOld (σ : StoreId) (db : Db) (id : String) : Option PFields :=
  match σ with
  | .P => none
  | _ => (db.get id).map (·.f)

/-- BaseStore.Create from PersistEntity on, when the holder is still empty: the writes, `if
    bucket.HasError()`, ProcessAfterUpdate, loadFinalState, events, final return.  `old` = the parent
    fields ProcessBeforeUpdate remembered (child data created over an existing parent entity), if any. -/
def createWrite (env : Env) (fault : Fault) (σ : StoreId) (id : String) (f : PFields) (rank : String)
    (old : Option PFields) (st : TxSt) : TxSt × Res :=
  let db0 := st.db
  let fl : Flow := { store := σ, kind := .created, id := id, initial := none, final := none, parentEvent := false }
  -- PersistEntity (the child strategy persists the parent fields through ctx.GetParentContext())
  let p := persist fault σ Cnt.zero f
  let st := raiseOpt { st with db := db0.put id (writtenEnt σ db0 id f rank) } p.2
  let afterPersist : Option Res :=
    match p.2 with
    | none => none
    | some e => match env.t.createPersist.act e with
      | .ret r => some r
      | .cont => none
  match afterPersist with
  | some r => (st, r)
  | none =>
    -- indexingContext.ProcessAfterUpdate (every level is skipped when the holder already has an error)
    let ix := ixStage env σ .afterUpdate id true (indexErr true db0 st.db id old f) p.2 st
    finishWrite env fault env.t.createLoad env.t.createParentEvent env.t.createOwnEvent
      env.t.createFinalHolder fl ix.2 p.1 ix.1

/-- BaseStore.Create.  A child store only looks at its own data for "already exists": child data may be
    created over an existing plain parent entity (`parentExists`), whose parent fields are then replaced —
    the parent context's ProcessBeforeUpdate runs first so that the parent's index entries are replaced. -/
def create (env : Env) (fault : Fault) (σ : StoreId) (id : String) (f : PFields) (rank : String)
    (st : TxSt) : TxSt × Res :=
  let validation : Option Err :=
    if id = "" then some .blankId else if present σ st.db id then some .alreadyExists else none
  let afterValidate : TxSt × Option Res :=
    match validation with
    | none => (st, none)
    | some e => match env.t.createValidate.act e with
      | .ret r => (st.raise e, some r)
      | .cont => (st.raise e, none)
  match afterValidate.2 with
  | some r => (afterValidate.1, r)
  | none =>
    let st := afterValidate.1
    -- `parentExists := store.parent != nil && store.parent.IsEntityPresent(...)`
    let old : Option PFields := createOld σ st.db id
    -- getOrCreateEntityBucket; `if parentExists { indexingContext.Parent.ProcessBeforeUpdate() }` (the
    -- parent store's level only, IsCreate = true, the holder is the new bucket of the child path)
    let bu : TxSt × Option Err :=
      if old.isSome then ixStage env .P .beforeUpdate id true none none st else (st, none)
    let h0 : Option Err := if σ ≠ .P ∧ env.t.persistSharesHolder = false then none else bu.2
    match h0 with
    | some e =>
      -- PersistEntity: ProceedWithSet writes nothing while the holder has an error; the (empty) bucket
      -- of the child path has been created; `if bucket.HasError() { return bucket.GetError() }`
      let st := { bu.1 with inexact := true }
      match env.t.createPersist.act e with
      | .ret r => (st, r)
      | .cont =>
        finishWrite env fault env.t.createLoad env.t.createParentEvent env.t.createOwnEvent
          env.t.createFinalHolder { store := σ, kind := .created, id := id, initial := none, final := none, parentEvent := false }
          (some e) (persist fault σ Cnt.zero f).1 st
    | none => createWrite env fault σ id f rank old bu.1

/-- the body of BaseStore.Update once the child-store strategies declined -/
def updateLocal (env : Env) (fault : Fault) (σ : StoreId) (id : String) (f : PFields) (rank : String)
    (st : TxSt) : TxSt × Res :=
  let validation : Option Err := if id = "" then some .blankId else none
  let afterValidate : TxSt × Option Res :=
    match validation with
    | none => (st, none)
    | some e => match env.t.updateValidate.act e with
      | .ret r => (st.raise e, some r)
      | .cont => (st.raise e, none)
  match afterValidate.2 with
  | some r => (afterValidate.1, r)
  | none =>
    let st := afterValidate.1
    let db0 := st.db
    let fd := findById fault σ Cnt.zero db0 id
    let afterFind : TxSt × Option Res :=
      if fd.2.1 then
        match env.t.updateFind.act .load with
        | .ret r => (st.raise .load, some r)
        | .cont => (st.raise .load, none)
      else (st, none)
    match afterFind.2 with
    | some r => (afterFind.1, r)
    | none =>
      let st := afterFind.1
      match fd.2.2 with
      | none =>
        -- `!found` (or the load error was ignored): entityNotFoundF
        match env.t.updateNotFound.act .notFound with
        | .ret r => (st.raise .notFound, r)
        | .cont => (st.raise .notFound, .ok)
      | some base =>
        let old : Option PFields := (db0.get id).map (·.f)
        let fl : Flow := { store := σ, kind := .updated, id := id, initial := some base, final := none, parentEvent := false }
        -- indexingContext.ProcessBeforeUpdate: the built-in indexes only remember the stored values;
        -- the holder is the entity bucket (of the child store's path, for σ = C)
        let bu := ixStage env σ .beforeUpdate id false none none st
        let p := persist fault σ fd.1 f
        -- the child strategy persists the parent fields through ctx.GetParentContext()
        let h0 : Option Err := if σ ≠ .P ∧ env.t.persistSharesHolder = false then none else bu.2
        match h0 with
        | some e =>
          -- PersistContext / TypedBucket.ProceedWithSet: nothing is written while the holder has an
          -- error (whatever PersistEntity itself records is dropped by the holder);
          -- ProcessAfterUpdate is skipped at every level
          finishWrite env fault env.t.updateLoad env.t.updateParentEvent env.t.updateOwnEvent
            env.t.updateFinalHolder fl (some e) p.1 bu.1
        | none =>
          let st := raiseOpt { bu.1 with db := db0.put id (writtenEnt σ db0 id f rank) } p.2
          -- indexingContext.ProcessAfterUpdate
          let ix := ixStage env σ .afterUpdate id false (indexErr false db0 st.db id old f) p.2 st
          finishWrite env fault env.t.updateLoad env.t.updateParentEvent env.t.updateOwnEvent
            env.t.updateFinalHolder fl ix.2 p.1 ix.1

/-- BaseStore.Update: the parent store first offers the update to its child-store strategies in
    registration order (ChildStoreUpdateHandler: the mapper finds child data for the id and hands the
    update to that child store with the parent fields copied in); the first one that says "handled" ends it -/
def update (env : Env) (fault : Fault) (σ : StoreId) (id : String) (f : PFields) (rank : String)
    (st : TxSt) : TxSt × Res :=
  match σ with
  | .P =>
    match (st.db.get id).bind (·.child) with
    | some r =>
      let res := updateLocal env fault .C id f r st
      match env.t.updateDelegate with
      | .propagate => res
      | .returnNil => (res.1, .ok)
      | .ignore => updateLocal env fault .P id f rank res.1
    | none =>
      match (st.db.get id).bind (·.child2) with
      | some g =>
        let res := updateLocal env fault .D id f g st
        match env.t.updateDelegate with
        | .propagate => res
        | .returnNil => (res.1, .ok)
        | .ignore => updateLocal env fault .P id f rank res.1
      | none => updateLocal env fault .P id f rank st
  | σ => updateLocal env fault σ id f rank st

/-- BaseStore.processDeleteConstraints: (state, counters, flow, error) -/
def processDeleteConstraints (env : Env) (fault : Fault) (σ : StoreId) (id : String) (c : Cnt)
    (st : TxSt) : TxSt × Cnt × Option Flow × Option Err :=
  let fd := findById fault σ c st.db id
  let afterInit : TxSt × Option (Option Err) :=
    if fd.2.1 then
      match env.t.pdcInit with
      | .propagate => (st.raise .load, some (some .load))
      | .returnNil => (st.raise .load, some none)
      | .ignore => (st.raise .load, none)
    else (st, none)
  match afterInit.2 with
  | some r => (afterInit.1, fd.1, none, r)
  | none =>
    let st := afterInit.1
    match fd.2.2 with
    | none => (st, fd.1, none, none)
    | some init =>
      let fl : Flow := { store := σ, kind := .deleted, id := id, initial := some init, final := none, parentEvent := false }
      -- `errHolder := &errorz.ErrorHolderImpl{}`; indexingContext.ProcessBeforeDelete (the child's
      -- context runs the parent's constraints first); the built-in indexes have removed their entries
      -- by the time a custom constraint vetoes
      let ix := ixStage env σ .beforeDelete id false (deleteConstraintErr st.db id) none st
      let st := if ix.2.isSome then { ix.1 with inexact := true } else ix.1
      (st, fd.1, some fl, if env.t.pdcFinalHolder then ix.2 else none)

def fireAll (env : Env) (r : Ret) : List Flow → TxSt → TxSt × Res
  | [], st => (st, .ok)
  | fl :: rest, st =>
    let fe := fireEvents env fl st
    match fe.2 with
    | none => fireAll env r rest fe.1
    | some e =>
      match r.act e with
      | .ret res => (fe.1, res)
      | .cont => fireAll env r rest fe.1

/-- `else if changeFlow != nil { changeFlows = append(changeFlows, changeFlow); hasChildren = true }`
    (reached with an error only when the table says the error is not tested there) -/
def childFlowList (_err : Option Err) (fl : Option Flow) : List Flow :=
  match fl with
  | some fl => [fl]
  | none => []

/-- `if hasChildren { changeFlows[0].MarkParentEvent() }` -/
def markedFlows (pfl : Flow) (childFlows : List Flow) : List Flow :=
  (if childFlows.isEmpty then pfl else { pfl with parentEvent := true }) :: childFlows

/-- one round of DeleteById's `for _, handler := range store.childStoreStrategies`: HandleDelete (nil),
    the child store's processDeleteConstraints, `if err != nil { return err } else if changeFlow != nil
    { changeFlows = append(changeFlows, changeFlow); hasChildren = true }`.  Returns state, counters, an
    early result, the flows to append. -/
def deleteChildRound (env : Env) (fault : Fault) (σ : StoreId) (id : String) (c : Cnt) (st : TxSt) :
    TxSt × Cnt × Option Res × List Flow :=
  let ch := processDeleteConstraints env fault σ id c st
  let after : Option Res :=
    match ch.2.2.2 with
    | none => none
    | some e => match env.t.deleteChildConstraints.act e with
      | .ret r => some r
      | .cont => none
  (ch.1, ch.2.1, after, childFlowList ch.2.2.2 ch.2.2.1)

/-- BaseStore.DeleteById on the parent store: the child-store strategies in registration order (C, then
    D), then the parent's own delete constraints -/
def deleteParent (env : Env) (fault : Fault) (id : String) (c : Cnt) (st : TxSt) : TxSt × Cnt × Res :=
  let fd := findById fault .P c st.db id
  let afterFind : TxSt × Option Res :=
    if fd.2.1 then
      match env.t.deleteFind.act .load with
      | .ret r => (st.raise .load, some r)
      | .cont => (st.raise .load, none)
    else (st, none)
  match afterFind.2 with
  | some r => (afterFind.1, fd.1, r)
  | none =>
    let st := afterFind.1
    match fd.2.2 with
    | none =>
      match env.t.deleteNotFound.act .notFound with
      | .ret r => (st.raise .notFound, fd.1, r)
      | .cont => (st.raise .notFound, fd.1, .ok)
    | some _ =>
      let r1 := deleteChildRound env fault .C id fd.1 st
      match r1.2.2.1 with
      | some r => (r1.1, r1.2.1, r)
      | none =>
        let r2 := deleteChildRound env fault .D id r1.2.1 r1.1
        match r2.2.2.1 with
        | some r => (r2.1, r2.2.1, r)
        | none =>
          let childFlows : List Flow := r1.2.2.2 ++ r2.2.2.2
          let own := processDeleteConstraints env fault .P id r2.2.1 r2.1
          let afterOwn : Option Res :=
            match own.2.2.2 with
            | none => none
            | some e => match env.t.deleteOwnConstraints.act e with
              | .ret r => some r
              | .cont => none
          match afterOwn with
          | some r => (own.1, own.2.1, r)
          | none =>
            match own.2.2.1 with
            | none => (own.1, own.2.1, .ok)   -- changeFlows[0] is nil only if the entity vanished; not reachable
            | some pfl =>
              let st := { own.1 with db := own.1.db.del id }
              let fa := fireAll env env.t.deleteFireEvents (markedFlows pfl childFlows) st
              (fa.1, own.2.1, fa.2)

/-- BaseStore.DeleteById: a child store hands the call to its parent -/
def deleteById (env : Env) (fault : Fault) (σ : StoreId) (id : String) (c : Cnt) (st : TxSt) : TxSt × Cnt × Res :=
  match σ with
  | .P => deleteParent env fault id c st
  | _ =>
    let r := deleteParent env fault id c st
    match env.t.deleteDelegate with
    | .propagate => r
    | _ => (r.1, r.2.1, .ok)

def deleteLoop (env : Env) (fault : Fault) (σ : StoreId) : List String → Cnt → TxSt → TxSt × Res
  | [], _, st => (st, .ok)
  | id :: rest, c, st =>
    let d := deleteById env fault σ id c st
    match d.2.2 with
    | .ok => deleteLoop env fault σ rest d.2.1 d.1
    | .err e =>
      match env.t.deleteWhereDelete.act e with
      | .ret r => (d.1, r)
      | .cont => deleteLoop env fault σ rest d.2.1 d.1

/-- ids matched by `store.QueryIds(tx, query)` in id order (the child store only sees entities
    with child data) -/
def matching (σ : StoreId) (q : Query) (db : Db) : List String :=
  let sel := db.filter fun p =>
    present σ db p.1 && (match q with
      | .all => true
      | .nameEq n => p.2.f.name == n
      | .bad => false)
  (sel.map (·.1)).mergeSort leStr

/-- BaseStore.DeleteWhere -/
def deleteWhere (env : Env) (fault : Fault) (σ : StoreId) (q : Query) (st : TxSt) : TxSt × Res :=
  match q with
  | .bad =>
    match env.t.deleteWhereQuery.act .parse with
    | .ret r => (st.raise .parse, r)
    | .cont => (st.raise .parse, .ok)
  | _ => deleteLoop env fault σ (matching σ q st.db) Cnt.zero st

/-- AddLinks / RemoveLinks / SetLinks on the link collection things.groups, called by the transaction
    function: the entity must have a bucket; a target that is to be linked must exist in the linked store
    (unlinking a missing target is no error).  Returns the error and the database. -/
def linkStep (op : LinkOp) (id : String) (targets : List String) (db : Db) : Option Err × Db :=
  match db.get id with
  | none => (some .notFound, db)
  | some e =>
    match op with
    | .remove => (none, db.put id { e with f := { e.f with links := e.f.links.filter fun t => !targets.contains t } })
    | .add =>
      if targets.any (fun t => !qIds.contains t) then (some .linkMissing, db)
      else (none, db.put id { e with f := { e.f with links := normRoles (e.f.links ++ targets) } })
    | .set =>
      if targets.any (fun t => !qIds.contains t) then (some .linkMissing, db)
      else (none, db.put id { e with f := { e.f with links := normRoles targets } })

def runOp (env : Env) (fault : Fault) (o : Op) (st : TxSt) : TxSt × Res :=
  match o with
  | .create σ id f rank => create env fault σ id f rank st
  | .update σ id f rank => update env fault σ id f rank st
  | .delete σ id => let r := deleteById env fault σ id Cnt.zero st; (r.1, r.2.2)
  | .deleteWhere σ q => deleteWhere env fault σ q st

end StorageModel.Tx
