import StorageModel.Tx.Lemmas
import StorageModel.Tx.Events
import StorageModel.Tx.Group
/-
  Tx/GroupLemmas — invariants of the batch-group machine (Tx/Group.lean), for EVERY schedule, any number of
  members, any bodies, any fault positions:

  * bookkeeping (any runner): `b.calls`, the members told to try solo and the members whose call has returned stay
    disjoint; a member's call returns nil iff exactly one committed transaction of the group invoked it, and a call
    that returned an error (or has not returned) was invoked by no committed transaction;
  * every logged transaction is well formed: each invocation is the member's function for that invocation number
    run on the database the previous member left inside the transaction, on the member's own context;
  * for the code's runner (`modelRunner` = the closure of DbImpl.Batch): what an accepted invocation registers on
    the transaction's OnCommit list is `commitList` of its accepted changes.
-/
namespace StorageModel.Tx

/-! ## `b.calls[failIdx], b.calls = b.calls[len-1], b.calls[:len-1]` -/

theorem getLast_cons_perm (l : List Nat) (h : l ≠ []) : (l.getLast h :: l.dropLast).Perm l := by
  have h2 : (l.getLast h :: l.dropLast).Perm (l.dropLast ++ [l.getLast h]) :=
    (List.perm_append_singleton _ _).symm
  rw [List.dropLast_concat_getLast h] at h2
  exact h2

/-- taking the failing call out of the batch keeps every other call, each once (the last one moves into the gap) -/
theorem swapRemove_decomp (pre : List Nat) (k : Nat) (rest : List Nat) :
    ∃ rest', swapRemove (pre ++ k :: rest) pre.length = pre ++ rest' ∧ rest'.Perm rest := by
  unfold swapRemove
  rw [List.set_append]
  simp only [Nat.lt_irrefl, if_false, Nat.sub_self, List.set_cons_zero]
  cases rest with
  | nil => exact ⟨[], by simp, List.Perm.refl _⟩
  | cons r rs =>
    refine ⟨(r :: rs).getLast (by simp) :: (r :: rs).dropLast, ?_, getLast_cons_perm _ _⟩
    rw [List.dropLast_append_of_ne_nil (by simp)]
    have : (pre ++ k :: r :: rs).getLastD 0 = (r :: rs).getLast (by simp) := by
      rw [List.getLastD_eq_getLast?]
      simp [List.getLast?_eq_some_getLast]
    rw [this]
    simp

/-! ## one round of the batch -/

/-- the invocation is the member's function, for that invocation number, on that database and context -/
def PartFrom (run : Runner) (specs : Nat → Member) (p : Part) : Prop :=
  p.out = run p.inv p.dbIn p.ctxIn p.body ∧ p.body = (specs p.member).bodyAt p.inv

/-- every invocation succeeded and worked on the database its predecessor left inside the transaction -/
def chainOk : Db → List Part → Db → Prop
  | db, [], db' => db' = db
  | db, p :: ps, db' => p.dbIn = db ∧ p.out.ok = true ∧ chainOk p.out.db ps db'

theorem roundGo_parts (run : Runner) (specs : Nat → Member) (l : List Nat) (db : Db) (cx : Nat → Ctx) (iv : Nat → Nat) :
    ∀ p ∈ (roundGo run specs l db cx iv).parts, PartFrom run specs p := by
  induction l generalizing db cx iv with
  | nil => intro p hp; simp [roundGo] at hp
  | cons k rest ih =>
    intro p hp
    unfold roundGo at hp
    simp only at hp
    split at hp
    · simp only [List.mem_cons] at hp
      rcases hp with rfl | hp
      · exact ⟨rfl, rfl⟩
      · exact ih _ _ _ p hp
    · simp only [List.mem_singleton] at hp
      subst hp
      exact ⟨rfl, rfl⟩

theorem roundGo_ok (run : Runner) (specs : Nat → Member) (l : List Nat) (db : Db) (cx : Nat → Ctx) (iv : Nat → Nat)
    (h : (roundGo run specs l db cx iv).failed = none) :
    (roundGo run specs l db cx iv).parts.map (·.member) = l ∧
    chainOk db (roundGo run specs l db cx iv).parts (roundGo run specs l db cx iv).db := by
  induction l generalizing db cx iv with
  | nil => simp [roundGo, chainOk]
  | cons k rest ih =>
    unfold roundGo at h ⊢
    simp only at h ⊢
    split
    · rename_i hok
      simp only [hok, if_true] at h
      obtain ⟨i1, i2⟩ := ih _ _ _ h
      exact ⟨by simp [i1], rfl, hok, i2⟩
    · rename_i hok
      simp [hok] at h

theorem roundGo_fail (run : Runner) (specs : Nat → Member) (l : List Nat) (db : Db) (cx : Nat → Ctx) (iv : Nat → Nat)
    (k : Nat) (h : (roundGo run specs l db cx iv).failed = some k) :
    ∃ pre rest, l = pre ++ k :: rest ∧ (roundGo run specs l db cx iv).failIdx = pre.length ∧
      (roundGo run specs l db cx iv).parts.map (·.member) = pre ++ [k] := by
  induction l generalizing db cx iv with
  | nil => simp [roundGo] at h
  | cons j rest ih =>
    unfold roundGo at h ⊢
    simp only at h ⊢
    split
    · rename_i hok
      simp only [hok, if_true] at h
      obtain ⟨pre, rs, e1, e2, e3⟩ := ih _ _ _ h
      exact ⟨j :: pre, rs, by simp [e1], by simp [e2], by simp [e3]⟩
    · rename_i hok
      simp only [hok] at h
      have : j = k := by simpa using h
      subst this
      exact ⟨[], rest, rfl, rfl, rfl⟩

/-! ## the invariant -/

structure TxWf (run : Runner) (specs : Nat → Member) (t : GTx) : Prop where
  parts : ∀ p ∈ t.parts, PartFrom run specs p
  chain : t.committed = true → chainOk t.dbBefore t.parts t.dbAfter
  rolled : t.committed = false → t.dbAfter = t.dbBefore
  nodup : t.invoked.Nodup

/-- the transactions of the group follow one another on the database -/
inductive Linked : Db → List GTx → Db → Prop
  | nil (db : Db) : Linked db [] db
  | snoc {db0 : Db} {txs : List GTx} {db : Db} (t : GTx) :
      Linked db0 txs db → t.dbBefore = db → Linked db0 (txs ++ [t]) t.dbAfter

/-- number of committed transactions of the group that invoked member k -/
def committedWith (k : Nat) (txs : List GTx) : Nat :=
  (txs.filter fun t => t.committed && t.invoked.contains k).length

theorem filter_singleton_length {α : Type} (f : α → Bool) (a : α) :
    ([a].filter f).length = if f a = true then 1 else 0 := by
  cases h : f a <;> simp [List.filter, h]

theorem committedWith_snoc (k : Nat) (txs : List GTx) (t : GTx) :
    committedWith k (txs ++ [t]) = committedWith k txs + (if (t.committed && t.invoked.contains k) = true then 1 else 0) := by
  unfold committedWith
  rw [List.filter_append, List.length_append, filter_singleton_length]

structure GInv (run : Runner) (specs : Nat → Member) (db0 : Db) (arrival : List Nat) (s : GState) : Prop where
  nodup : (s.calls ++ s.solo).Nodup
  pending : ∀ k, k ∈ s.calls ∨ k ∈ s.solo → s.result k = none
  covered : ∀ k ∈ arrival, k ∈ s.calls ∨ k ∈ s.solo ∨ (s.result k).isSome = true
  count : ∀ k, committedWith k s.txs = if s.result k = some .ok then 1 else 0
  wf : ∀ t ∈ s.txs, TxWf run specs t
  linked : Linked db0 s.txs s.db

theorem gInit_inv (run : Runner) (specs : Nat → Member) (db : Db) (ctxs : Nat → Ctx) (arrival : List Nat)
    (hn : arrival.Nodup) : GInv run specs db arrival (gInit db ctxs arrival) := by
  refine ⟨by simpa [gInit] using hn, fun k _ => rfl, fun k hk => Or.inl hk, fun k => by simp [gInit, committedWith],
    fun t ht => by simp [gInit] at ht, Linked.nil db⟩

theorem isOk_iff (r : Res) : r.isOk = true ↔ r = .ok := by
  cases r <;> simp [Res.isOk]

/-- the state after a round in which every call succeeded (`for _, c := range b.calls { c.err <- err }`) -/
theorem gStep_round_ok_inv (run : Runner) (specs : Nat → Member) (db0 : Db) (arrival : List Nat) (s : GState)
    (h : GInv run specs db0 arrival s)
    (hf : (roundGo run specs s.calls s.db s.ctxOf s.invs).failed = none) :
    GInv run specs db0 arrival
      { s with db := (roundGo run specs s.calls s.db s.ctxOf s.invs).db,
               ctxOf := (roundGo run specs s.calls s.db s.ctxOf s.invs).ctxOf,
               invs := (roundGo run specs s.calls s.db s.ctxOf s.invs).invs, calls := [],
               result := fun j => if s.calls.contains j then some .ok else s.result j,
               txs := s.txs ++ [{ solo := false, parts := (roundGo run specs s.calls s.db s.ctxOf s.invs).parts,
                                  committed := true, dbBefore := s.db,
                                  dbAfter := (roundGo run specs s.calls s.db s.ctxOf s.invs).db }] } := by
  obtain ⟨hm, hc⟩ := roundGo_ok run specs s.calls s.db s.ctxOf s.invs hf
  obtain ⟨nd1, nd2, nd3⟩ := List.nodup_append.mp h.nodup
  refine ⟨by simpa using nd2, ?_, ?_, ?_, ?_, ?_⟩
  · intro k hk
    simp only [List.not_mem_nil, false_or] at hk
    have hnc : ¬ k ∈ s.calls := fun hc' => nd3 k hc' k hk rfl
    simp [hnc, h.pending k (Or.inr hk)]
  · intro k hk
    rcases h.covered k hk with h1 | h1 | h1
    · right; right; simp [h1]
    · right; left; exact h1
    · right; right
      by_cases hc' : k ∈ s.calls
      · simp [hc']
      · simpa [hc'] using h1
  · intro k
    rw [committedWith_snoc, h.count k]
    simp only [GTx.invoked, hm, Bool.true_and]
    by_cases hc' : k ∈ s.calls
    · have := h.pending k (Or.inl hc')
      simp [hc', this]
    · simp [hc']
  · intro t ht
    rcases List.mem_append.mp ht with ht | ht
    · exact h.wf t ht
    · simp only [List.mem_singleton] at ht
      subst ht
      exact ⟨roundGo_parts run specs _ _ _ _, fun _ => hc, fun hx => by simp at hx, by simpa [GTx.invoked, hm] using nd1⟩
  · exact Linked.snoc _ h.linked rfl

/-- the state after a round in which call k failed: the transaction is rolled back, k is taken out of the batch
    and told to try solo, the others stay -/
theorem gStep_round_fail_inv (run : Runner) (specs : Nat → Member) (db0 : Db) (arrival : List Nat) (s : GState)
    (h : GInv run specs db0 arrival s) (k : Nat)
    (hf : (roundGo run specs s.calls s.db s.ctxOf s.invs).failed = some k) :
    GInv run specs db0 arrival
      { s with ctxOf := (roundGo run specs s.calls s.db s.ctxOf s.invs).ctxOf,
               invs := (roundGo run specs s.calls s.db s.ctxOf s.invs).invs,
               calls := swapRemove s.calls (roundGo run specs s.calls s.db s.ctxOf s.invs).failIdx,
               solo := s.solo ++ [k],
               txs := s.txs ++ [{ solo := false, parts := (roundGo run specs s.calls s.db s.ctxOf s.invs).parts,
                                  committed := false, dbBefore := s.db, dbAfter := s.db }] } := by
  obtain ⟨pre, rest, e1, e2, e3⟩ := roundGo_fail run specs s.calls s.db s.ctxOf s.invs k hf
  obtain ⟨rest', e4, hperm⟩ := swapRemove_decomp pre k rest
  have hcalls : swapRemove s.calls (roundGo run specs s.calls s.db s.ctxOf s.invs).failIdx = pre ++ rest' := by
    rw [e2]; rw [e1]; exact e4
  have hnd := h.nodup
  rw [e1] at hnd
  -- both lists are permutations of k :: (pre ++ rest ++ solo)
  have p1 : (pre ++ rest' ++ (s.solo ++ [k])).Perm (k :: (pre ++ rest ++ s.solo)) := by
    have a1 : (pre ++ rest' ++ (s.solo ++ [k])).Perm (pre ++ rest ++ (s.solo ++ [k])) :=
      List.Perm.append_right _ (List.Perm.append_left _ hperm)
    have a2 : (pre ++ rest ++ (s.solo ++ [k])) = (pre ++ rest ++ s.solo) ++ [k] := by simp
    rw [a2] at a1
    exact a1.trans (List.perm_append_singleton _ _)
  have p2 : (pre ++ k :: rest ++ s.solo).Perm (k :: (pre ++ rest ++ s.solo)) := by
    have a2 : pre ++ k :: rest ++ s.solo = pre ++ k :: (rest ++ s.solo) := by simp
    rw [a2]
    have := @List.perm_middle _ k pre (rest ++ s.solo)
    simp
  have pp : (pre ++ rest' ++ (s.solo ++ [k])).Perm (pre ++ k :: rest ++ s.solo) := p1.trans p2.symm
  have hmem : ∀ j, j ∈ pre ++ rest' ∨ j ∈ s.solo ++ [k] ↔ j ∈ s.calls ∨ j ∈ s.solo := by
    intro j
    have := pp.mem_iff (a := j)
    rw [e1]
    simp only [List.mem_append, List.mem_cons, List.mem_nil_iff, or_false] at this ⊢
    exact this
  refine ⟨?_, ?_, ?_, ?_, ?_, ?_⟩
  · show (swapRemove s.calls _ ++ (s.solo ++ [k])).Nodup
    rw [hcalls]
    exact pp.nodup_iff.mpr hnd
  · intro j hj
    have hj' : j ∈ pre ++ rest' ∨ j ∈ s.solo ++ [k] := by
      rcases hj with hj | hj
      · left; rw [← hcalls]; exact hj
      · right; exact hj
    exact h.pending j ((hmem j).mp hj')
  · intro j hj
    rcases h.covered j hj with h1 | h1 | h1
    · rcases (hmem j).mpr (Or.inl h1) with h2 | h2
      · left; show j ∈ swapRemove s.calls _; rw [hcalls]; exact h2
      · right; left; exact h2
    · rcases (hmem j).mpr (Or.inr h1) with h2 | h2
      · left; show j ∈ swapRemove s.calls _; rw [hcalls]; exact h2
      · right; left; exact h2
    · right; right; exact h1
  · intro j
    rw [committedWith_snoc, h.count j]
    simp
  · intro t ht
    rcases List.mem_append.mp ht with ht | ht
    · exact h.wf t ht
    · simp only [List.mem_singleton] at ht
      subst ht
      refine ⟨roundGo_parts run specs _ _ _ _, fun hx => by simp at hx, fun _ => rfl, ?_⟩
      simp only [GTx.invoked, e3]
      have : (pre ++ [k]).Sublist (pre ++ k :: rest) := by
        apply List.Sublist.append_left
        simp
      exact ((List.nodup_append.mp hnd).1).sublist this
  · exact Linked.snoc _ h.linked rfl

/-- the state after the solo re-run of member k -/
theorem gStep_solo_inv (run : Runner) (specs : Nat → Member) (db0 : Db) (arrival : List Nat) (s : GState)
    (h : GInv run specs db0 arrival s) (k : Nat) (hk : k ∈ s.solo) (p : Part)
    (hp : p = { member := k, inv := s.invs k + 1, dbIn := s.db, ctxIn := s.ctxOf k,
                body := (specs k).bodyAt (s.invs k + 1),
                out := run (s.invs k + 1) s.db (s.ctxOf k) ((specs k).bodyAt (s.invs k + 1)) }) :
    GInv run specs db0 arrival
      { s with db := if p.out.ok then p.out.db else s.db, ctxOf := upd s.ctxOf k p.out.ctx,
               invs := upd s.invs k (s.invs k + 1),
               solo := s.solo.filter (fun j => j != k), result := upd s.result k (some p.out.res),
               txs := s.txs ++ [{ solo := true, parts := [p], committed := p.out.ok, dbBefore := s.db,
                                  dbAfter := if p.out.ok then p.out.db else s.db }] } := by
  obtain ⟨nd1, nd2, nd3⟩ := List.nodup_append.mp h.nodup
  have hkc : ¬ k ∈ s.calls := fun hc => nd3 k hc k hk rfl
  have hpm : p.member = k := by rw [hp]
  refine ⟨?_, ?_, ?_, ?_, ?_, ?_⟩
  · exact List.Nodup.sublist (List.Sublist.append_left List.filter_sublist _) h.nodup
  · intro j hj
    have hjk : j ≠ k := by
      rcases hj with hj | hj
      · intro e; subst e; exact hkc hj
      · have := (List.mem_filter.mp hj).2
        simpa using this
    have hj' : j ∈ s.calls ∨ j ∈ s.solo := by
      rcases hj with hj | hj
      · exact Or.inl hj
      · exact Or.inr (List.mem_filter.mp hj).1
    simp only [upd, hjk, if_false]
    exact h.pending j hj'
  · intro j hj
    by_cases hjk : j = k
    · right; right; simp [upd, hjk]
    · rcases h.covered j hj with h1 | h1 | h1
      · left; exact h1
      · right; left; exact List.mem_filter.mpr ⟨h1, by simpa using hjk⟩
      · right; right; simpa [upd, hjk] using h1
  · intro j
    rw [committedWith_snoc, h.count j]
    simp only [GTx.invoked, List.map_cons, List.map_nil, hpm]
    by_cases hjk : j = k
    · subst hjk
      have hn := h.pending j (Or.inr hk)
      simp only [hn, upd, if_true]
      cases hr : p.out.res with
      | ok => simp [Invocation.ok, hr, Res.isOk]
      | err e => simp [Invocation.ok, hr, Res.isOk]
    · simp [upd, hjk]
  · intro t ht
    rcases List.mem_append.mp ht with ht | ht
    · exact h.wf t ht
    · simp only [List.mem_singleton] at ht
      subst ht
      refine ⟨?_, ?_, ?_, by simp [GTx.invoked]⟩
      · intro q hq
        simp only [List.mem_singleton] at hq
        subst hq
        rw [hp]
        exact ⟨rfl, rfl⟩
      · intro hc
        simp only at hc
        simp only [chainOk, hc, if_true, and_true]
        rw [hp]
      · intro hc
        simp only at hc
        simp [hc]
  · exact Linked.snoc _ h.linked rfl

theorem gStep_inv (run : Runner) (specs : Nat → Member) (db0 : Db) (arrival : List Nat) (s : GState)
    (h : GInv run specs db0 arrival s) (tok : Sched) : GInv run specs db0 arrival (gStep run specs s tok) := by
  cases tok with
  | round =>
    unfold gStep
    by_cases he : s.calls.isEmpty = true
    · simp only [he, if_true]; exact h
    · simp only [he, Bool.false_eq_true, if_false]
      cases hf : (roundGo run specs s.calls s.db s.ctxOf s.invs).failed with
      | none => exact gStep_round_ok_inv run specs db0 arrival s h hf
      | some k => exact gStep_round_fail_inv run specs db0 arrival s h k hf
  | solo k =>
    unfold gStep
    by_cases hk : s.solo.contains k = true
    · simp only [hk, if_true]
      exact gStep_solo_inv run specs db0 arrival s h k (by simpa using hk) _ rfl
    · simp only [hk, Bool.false_eq_true, if_false]
      exact h

/-- **the invariant holds after every schedule** -/
theorem runGroup_inv (run : Runner) (specs : Nat → Member) (db : Db) (ctxs : Nat → Ctx) (arrival : List Nat)
    (hn : arrival.Nodup) (sched : List Sched) :
    GInv run specs db arrival (runGroup run specs db ctxs arrival sched) := by
  unfold runGroup
  have : ∀ (s : GState), GInv run specs db arrival s → GInv run specs db arrival (sched.foldl (gStep run specs) s) := by
    induction sched with
    | nil => intro s hs; exact hs
    | cons tok rest ih => intro s hs; exact ih _ (gStep_inv run specs db arrival s hs tok)
  exact this _ (gInit_inv run specs db ctxs arrival hn)

/-! ## what a committed `commitList` delivers (the content of C08's single-transaction theorems, per segment) -/

theorem deliveries_of_commitList (env : Env) (ctx : Ctx) (flows : List Flow) (txc : Bool)
    (σ : StoreId) (reg slot : Nat) (style : Style) (types : List EvType) (t : EvType)
    (hreg : (env.regs σ)[reg]? = some (.listener style types)) (hslot : types[slot]? = some t) :
    deliveriesTo σ reg slot (commitList env ctx flows txc) =
      (flows.filter (fun fl => fl.store = σ ∧ fl.kind = t.kind)).map (fun fl => (t.async, fl.kind, payload fl)) := by
  rw [deliveriesTo_commitList]
  induction flows with
  | nil => rfl
  | cons fl rest ih =>
    rw [List.flatMap_cons, ih]
    unfold indexed
    rw [postCommit_sel]
    by_cases hs : fl.store = σ
    · subst hs
      simp only [true_and, Nat.zero_le, if_true, Nat.sub_zero, hreg]
      unfold indexed
      rw [deliver_sel]
      simp only [Nat.zero_le, if_true, Nat.sub_zero, hslot, List.filter_cons]
      by_cases hk : t.kind = fl.kind
      · simp [hk]
      · have hk' : ¬ fl.kind = t.kind := fun e => hk e.symm
        simp [hk, hk']
    · simp [hs]

theorem posts_of_commitList (env : Env) (ctx : Ctx) (flows : List Flow) (txc : Bool)
    (σ : StoreId) (reg : Nat) (typed : Bool) (vetoes : List (Kind × String))
    (hreg : (env.regs σ)[reg]? = some (.constraint typed vetoes)) :
    postsTo σ reg (commitList env ctx flows txc) = flows.filter (fun fl => fl.store = σ) := by
  unfold commitList
  rw [postsTo_append, postsTo_append]
  have h1 : postsTo σ reg [Fired.commitActions ctx.commitActions] = [] := rfl
  have h2 : postsTo σ reg (if txc = true then List.map Fired.txComplete (List.range env.txListeners) else []) = [] := by
    split
    · generalize List.range env.txListeners = l
      induction l with
      | nil => rfl
      | cons a t ih => simpa [postsTo] using ih
    · rfl
  rw [h1, h2]
  simp only [List.nil_append, List.append_nil]
  induction flows with
  | nil => rfl
  | cons fl rest ih =>
    rw [List.flatMap_cons, postsTo_append, ih]
    unfold indexed
    rw [postCommit_posts]
    by_cases hs : fl.store = σ
    · subst hs
      simp [hreg]
    · simp [hs]

theorem actions_of_commitList (env : Env) (ctx : Ctx) (flows : List Flow) :
    commitActionRuns (commitList env ctx flows true) = [ctx.commitActions] ∧
    txCompleteRuns (commitList env ctx flows true) = List.range env.txListeners := by
  unfold commitList
  rw [commitActionRuns_append, commitActionRuns_append, txCompleteRuns_append, txCompleteRuns_append]
  have hmid : ∀ flows : List Flow,
      commitActionRuns (flows.flatMap fun fl => postCommit fl (indexed (env.regs fl.store))) = [] ∧
      txCompleteRuns (flows.flatMap fun fl => postCommit fl (indexed (env.regs fl.store))) = [] := by
    intro flows
    induction flows with
    | nil => exact ⟨rfl, rfl⟩
    | cons fl rest ih =>
      simp only [List.flatMap_cons, commitActionRuns_append, txCompleteRuns_append,
        (postCommit_no_actions fl _).1, (postCommit_no_actions fl _).2, List.nil_append]
      exact ih
  have htail : ∀ l : List Nat, commitActionRuns (l.map Fired.txComplete) = [] ∧ txCompleteRuns (l.map Fired.txComplete) = l := by
    intro l
    induction l with
    | nil => exact ⟨rfl, rfl⟩
    | cons a t ih => simp [commitActionRuns, txCompleteRuns, ih]
  rw [(hmid _).1, (hmid _).2]
  simp [commitActionRuns, txCompleteRuns, (htail _).1, (htail _).2]

/-! ## the code's runner against the spec's reading of an invocation -/

theorem envAt_t (env : Env) (n : Nat) : (envAt env n).t = env.t := by
  unfold envAt; split <;> rfl

theorem commitList_envAt (env : Env) (n : Nat) (ctx : Ctx) (flows : List Flow) (txc : Bool) :
    commitList (envAt env n) ctx flows txc = commitList env ctx flows txc := by
  unfold envAt; split
  · rfl
  · exact commitList_later env ctx flows txc

/-- a member whose function hands operation errors on does so in every invocation (the injected fault is an
    error the function returns itself) -/
theorem bodyAt_propagating (m : Member) (hp : Propagating m.body) (n : Nat) : Propagating (m.bodyAt n) := by
  have hbase : Propagating (if n ≤ 1 then m.body else laterBody m.body) := by
    split
    · exact hp
    · exact laterBody_propagating _ hp
  unfold Member.bodyAt
  simp only
  split
  · intro s hs
    rcases List.mem_append.mp hs with hs | hs
    · exact hbase s (List.mem_of_mem_take hs)
    · simp only [List.mem_singleton] at hs
      subst hs
      rfl
  · exact hbase

/-- the spec's reading of an invocation: the body on the database it found, with the member's context -/
def Part.spec (env : Env) (p : Part) : Spec.Body := specBody (envAt env p.inv) p.dbIn p.ctxIn p.body

/-- the spec accepts the invocation: no step rejected, no pre-commit action fails -/
def Part.accepted (env : Env) (p : Part) : Bool := (p.spec env).accepted && preOk (p.spec env).ctx

theorem part_model (env : Env) (h : env.t = expectedReturns) (specs : Nat → Member) (p : Part)
    (hf : PartFrom (modelRunner env) specs p) (hp : Propagating p.body) :
    p.out.ctx = (p.spec env).ctx ∧
    (p.out.ok = true ↔ p.accepted env = true) ∧
    (p.out.ok = true →
      p.out.db = (p.spec env).db ∧ p.out.inexact = false ∧
      p.out.fired = commitList env (p.spec env).ctx (p.spec env).flows true) := by
  obtain ⟨a1, a2, _, a4⟩ := attempt_refines (envAt env p.inv) (by rw [envAt_t]; exact h) true p.dbIn p.ctxIn p.body hp
  rw [hf.1]
  unfold Part.accepted Part.spec
  simp only [modelRunner, Invocation.ok, isOk_iff, Bool.and_eq_true]
  refine ⟨a1, a2, ?_⟩
  intro hok
  obtain ⟨b1, b2, b3⟩ := a4 hok
  refine ⟨b1, b2, ?_⟩
  rw [b3, commitList_envAt]

theorem chainOk_all_ok (db : Db) (ps : List Part) (db' : Db) (h : chainOk db ps db') : ∀ p ∈ ps, p.out.ok = true := by
  induction ps generalizing db with
  | nil => intro p hp; cases hp
  | cons q qs ih =>
    obtain ⟨_, h2, h3⟩ := h
    intro p hp
    rcases List.mem_cons.mp hp with rfl | hp
    · exact h2
    · exact ih _ h3 p hp

/-! ## groups inside histories (what the drivers run) -/

/-- with an observed schedule a group inside a history is `runGroup` on the members in arrival order 0, 1, … -/
theorem runGroupSpec_sched (run : Runner) (g : GroupSpec) (db : Db) (ctx : Ctx) (sched : List Sched)
    (h : g.sched = some sched) :
    runGroupSpec run g db ctx = runGroup run g.specs db (groupCtxs g ctx) (List.range g.members.length) sched := by
  unfold runGroupSpec runGroup
  rw [h]

/-- the default order is a schedule like any other -/
theorem runDefault_is_schedule (run : Runner) (specs : Nat → Member) (fuel : Nat) (s : GState) :
    (runDefault run specs fuel s).1 = (runDefault run specs fuel s).2.foldl (gStep run specs) s := by
  induction fuel generalizing s with
  | zero => rfl
  | succ n ih =>
    unfold runDefault
    cases hs : s.solo with
    | cons k rest => simp only [List.foldl_cons]; exact ih _
    | nil =>
      simp only
      by_cases he : s.calls.isEmpty = true
      · simp [he]
      · simp only [he, Bool.false_eq_true, if_false, List.foldl_cons]; exact ih _

/-- whatever order is used, a group inside a history is `runGroup` under SOME schedule — so every theorem stated
    for all schedules speaks about it -/
theorem runGroupSpec_is_runGroup (run : Runner) (g : GroupSpec) (db : Db) (ctx : Ctx) :
    ∃ sched, runGroupSpec run g db ctx =
      runGroup run g.specs db (groupCtxs g ctx) (List.range g.members.length) sched := by
  cases h : g.sched with
  | some sched => exact ⟨sched, runGroupSpec_sched run g db ctx sched h⟩
  | none =>
    refine ⟨(runDefault run g.specs (2 * g.members.length + 2)
      (gInit db (groupCtxs g ctx) (List.range g.members.length))).2, ?_⟩
    unfold runGroupSpec runGroup
    rw [h]
    exact runDefault_is_schedule run g.specs _ _

/-- histories without groups are the histories of `runCase` / `specCase` (about which `history_refines_spec` speaks) -/
theorem runHist_of_txs (env : Env) (txs : List TxSpec) (db : Db) (ctx : Ctx) :
    runHist env (txs.map .tx) db ctx = (runCase env txs db ctx).map .tx := by
  induction txs generalizing db ctx with
  | nil => rfl
  | cons t rest ih => simp [runHist, runCase, ih]

theorem specHist_of_txs (env : Env) (txs : List TxSpec) (db : Db) (ctx : Ctx) :
    specHist env (txs.map .tx) db ctx = (Spec.specCase env txs db ctx).map .tx := by
  induction txs generalizing db ctx with
  | nil => rfl
  | cons t rest ih => simp [specHist, Spec.specCase, ih]

/-- the accepted changes of a transaction of the group, member after member -/
def GTx.flows (env : Env) (t : GTx) : List Flow := t.parts.flatMap fun p => (p.spec env).flows

/-- the spec's reading of a committed transaction: every invocation accepted, each on the database the one before
    it produced -/
def specChain (env : Env) : Db → List Part → Db → Prop
  | db, [], db' => db' = db
  | db, p :: ps, db' => p.dbIn = db ∧ p.accepted env = true ∧ specChain env (p.spec env).db ps db'

theorem chainOk_specChain (env : Env) (h : env.t = expectedReturns) (specs : Nat → Member)
    (hw : ∀ k, Propagating (specs k).body) (db : Db) (ps : List Part) (db' : Db)
    (hf : ∀ p ∈ ps, PartFrom (modelRunner env) specs p) (hc : chainOk db ps db') : specChain env db ps db' := by
  induction ps generalizing db with
  | nil => exact hc
  | cons q qs ih =>
    obtain ⟨h1, h2, h3⟩ := hc
    have hq := hf q (List.mem_cons_self ..)
    have hpq : Propagating q.body := by rw [hq.2]; exact bodyAt_propagating _ (hw _) _
    obtain ⟨_, m2, m3⟩ := part_model env h specs q hq hpq
    refine ⟨h1, m2.mp h2, ?_⟩
    rw [← (m3 h2).1]
    exact ih _ (fun p hp => hf p (List.mem_cons_of_mem _ hp)) h3

end StorageModel.Tx
