import StorageModel.Tx.Lemmas
/-
  Tx/Failures — the failure kinds of C07 as declarative conditions on the database an operation meets
  (`OpFails`), with the lemma that the spec rejects each of them, and lemmas about bodies the spec
  rejects.  Helper material for Properties/C07.lean and C08.lean.
-/
namespace StorageModel.Tx
open StorageModel.Tx.Spec

/-- the failure kinds of C07, stated on the database the operation meets (no stages, no tables) -/
inductive OpFails (env : Env) (db : Db) : Op → Prop
  | createBlankId (σ f rank) : OpFails env db (.create σ "" f rank)
  | createExists (σ id f rank) : present σ db id = true → OpFails env db (.create σ id f rank)
  | createUnusableKey (σ id f rank) : keyRejected f = true → OpFails env db (.create σ id f rank)
  /-- unpersistable field value: the tags map holds, at any depth, a value of an unsupported type or an
      unusable key (no injection: the typed-bucket setters reject the value itself) -/
  | createUnpersistableValue (σ id f rank) : tagsRejected f.tags = true → OpFails env db (.create σ id f rank)
  /-- a linked id (persisted with SetLinkedIds) names an entity the linked store does not have — real, not
      injected -/
  | createMissingLinkTarget (σ id f rank) : linksRejected f.links = true → OpFails env db (.create σ id f rank)
  | createName (σ id f rank) : nameRejected true db id (createOld σ db id) f = true → OpFails env db (.create σ id f rank)
  | createEmptyRole (σ id f rank) : rolesRejected (createOld σ db id) f = true → OpFails env db (.create σ id f rank)
  | createMissingFk (σ id f rank) :
      refRejected true (db.put id (writtenEnt σ db id f rank)) (createOld σ db id) f = true → OpFails env db (.create σ id f rank)
  | createVetoParentFlow (σ id f rank) : σ ≠ .P → vetoed env .P .created id = true → OpFails env db (.create σ id f rank)
  | createVetoOwnFlow (σ id f rank) : vetoed env σ .created id = true → OpFails env db (.create σ id f rank)
  /-- index-stage veto on create, parent flow: a custom constraint of the parent store objects after the write -/
  | createIxVetoParent (σ id f rank) : ixVetoed env .P .afterUpdate id = true → OpFails env db (.create σ id f rank)
  /-- index-stage veto on create, child flow: a custom constraint of the child store objects after the write -/
  | createIxVetoChild (σ id f rank) : σ ≠ .P → ixVetoed env σ .afterUpdate id = true → OpFails env db (.create σ id f rank)
  /-- child data created over an existing parent entity: a custom constraint of the parent store objects "before update" -/
  | createIxVetoOverParent (σ id f rank) : σ ≠ .P → (db.get id).isSome = true → ixVetoed env .P .beforeUpdate id = true →
      OpFails env db (.create σ id f rank)
  | updateBlankId (σ f rank) : OpFails env db (.update σ "" f rank)
  | updateNotFound (σ id f rank) : view (updateStore σ db id) db id = none → OpFails env db (.update σ id f rank)
  | updateUnusableKey (σ id f rank) : keyRejected f = true → OpFails env db (.update σ id f rank)
  | updateUnpersistableValue (σ id f rank) : tagsRejected f.tags = true → OpFails env db (.update σ id f rank)
  | updateMissingLinkTarget (σ id f rank) : linksRejected f.links = true → OpFails env db (.update σ id f rank)
  | updateName (σ id f rank) : nameRejected false db id ((db.get id).map (·.f)) f = true → OpFails env db (.update σ id f rank)
  | updateEmptyRole (σ id f rank) : rolesRejected ((db.get id).map (·.f)) f = true → OpFails env db (.update σ id f rank)
  | updateMissingFk (σ id f rank) :
      refRejected false (db.put id (writtenEnt σ db id f rank)) ((db.get id).map (·.f)) f = true →
      OpFails env db (.update σ id f rank)
  | updateVetoParentFlow (σ id f rank) : vetoed env .P .updated id = true → OpFails env db (.update σ id f rank)
  | updateVetoChildFlow (σ id f rank) : updateStore σ db id ≠ .P → vetoed env (updateStore σ db id) .updated id = true →
      OpFails env db (.update σ id f rank)
  /-- index-stage veto on update, parent flow: before the write (nothing is written) or after it -/
  | updateIxVetoParent (σ id f rank) (stage : Stage) : stage ≠ .beforeDelete → ixVetoed env .P stage id = true →
      OpFails env db (.update σ id f rank)
  /-- index-stage veto on update, child flow (entity with child data, through either store) -/
  | updateIxVetoChild (σ id f rank) (stage : Stage) : stage ≠ .beforeDelete → updateStore σ db id ≠ .P →
      ixVetoed env (updateStore σ db id) stage id = true → OpFails env db (.update σ id f rank)
  | deleteNotFound (σ id) : db.get id = none → OpFails env db (.delete σ id)
  | deleteReferenced (σ id) : db.any (fun p => !(p.1 == id) && refBytes p.2.f.ref == id) = true →
      OpFails env db (.delete σ id)
  | deleteVetoParentFlow (σ id) : vetoed env .P .deleted id = true → OpFails env db (.delete σ id)
  /-- an entity constraint of a child store τ (C or D) that holds the entity vetoes the delete, whichever
      store the delete is invoked on -/
  | deleteVetoChildFlow (σ τ id) : τ ≠ .P → (view τ db id).isSome = true → vetoed env τ .deleted id = true →
      OpFails env db (.delete σ id)
  /-- index-stage veto on delete, parent flow -/
  | deleteIxVetoParent (σ id) : ixVetoed env .P .beforeDelete id = true → OpFails env db (.delete σ id)
  /-- index-stage veto on delete, child flow: the entity has child data and a custom constraint registered
      on the child store itself objects (through either store) -/
  | deleteIxVetoChild (σ τ id) : τ ≠ .P → (view τ db id).isSome = true → ixVetoed env τ .beforeDelete id = true →
      OpFails env db (.delete σ id)
  | badQuery (σ) : OpFails env db (.deleteWhere σ .bad)

theorem ixVetoedFor_P (env : Env) (σ : StoreId) (stage : Stage) (id : String)
    (h : ixVetoed env .P stage id = true) : ixVetoedFor env σ stage id = true := by
  unfold ixVetoedFor; simp [h]

theorem ixVetoedFor_child (env : Env) (σ : StoreId) (hσ : σ ≠ .P) (stage : Stage) (id : String)
    (h : ixVetoed env σ stage id = true) : ixVetoedFor env σ stage id = true := by
  unfold ixVetoedFor; cases σ <;> simp_all

theorem passVetoes_vetoed (env : Env) (flows : List Flow) (fl : Flow) (hm : fl ∈ flows)
    (hv : vetoed env fl.store fl.kind fl.id = true) : (passVetoes env flows).2 = false := by
  induction flows with
  | nil => cases hm
  | cons a rest ih =>
    unfold passVetoes
    by_cases ha : vetoed env a.store a.kind a.id = true
    · simp [ha]
    · simp only [ha, Bool.false_eq_true, if_false]
      rcases List.mem_cons.mp hm with rfl | hr
      · exact absurd hv ha
      · exact ih hr

theorem specDelete_accepted' (env : Env) (fault : Fault) (id : String) (db : Db)
    (h : (specDelete env fault id db).accepted = true) :
    (∃ e, db.get id = some e) ∧
    db.any (fun p => !(p.1 == id) && refBytes p.2.f.ref == id) = false ∧
    ixVetoedDel env db id = false ∧
    (passVetoes env (deleteFlows db id)).2 = true := by
  rw [specDelete_eq] at h
  cases hg : db.get id with
  | none => simp [hg, rejectClean] at h
  | some e =>
    simp only [hg] at h
    by_cases h1 : faultHits fault (delCounts db id).1 (delCounts db id).2 0 0 = true
    · simp [h1, rejectDirty] at h
    · by_cases h2 : db.any (fun p => !(p.1 == id) && refBytes p.2.f.ref == id) = true
      · simp [h1, h2, rejectDirty] at h
      · cases h3 : ixVetoedDel env db id with
        | true => simp [h1, h2, h3, rejectDirty] at h
        | false =>
          simp only [h1, h2, h3, finish] at h
          exact ⟨⟨e, rfl⟩, by simpa using h2, rfl, h⟩

/-- every store that holds the entity has a flow in what a delete announces -/
theorem deleteFlows_mem (db : Db) (id : String) (τ : StoreId) (h : (view τ db id).isSome = true) :
    ∃ fl ∈ deleteFlows db id, fl.store = τ ∧ fl.kind = .deleted ∧ fl.id = id := by
  have hP : (view .P db id).isSome = true := by
    unfold view at *
    cases hg : db.get id with
    | none => simp [hg] at h
    | some e => simp
  obtain ⟨pv, hpv⟩ := Option.isSome_iff_exists.mp hP
  obtain ⟨v, hv⟩ := Option.isSome_iff_exists.mp h
  unfold deleteFlows
  simp only [hpv]
  cases τ with
  | P => exact ⟨_, List.mem_cons_self .., rfl, rfl, rfl⟩
  | C =>
    refine ⟨{ store := .C, kind := .deleted, id := id, initial := some v, final := none, parentEvent := false }, ?_, rfl, rfl, rfl⟩
    simp [hv]
  | D =>
    refine ⟨{ store := .D, kind := .deleted, id := id, initial := some v, final := none, parentEvent := false }, ?_, rfl, rfl, rfl⟩
    simp [hv]

/-- a create that passes validation and the write rules is decided by the index-stage constraints and
    the pre-commit vetoes -/
theorem specCreate_tail (env : Env) (fault : Fault) (σ : StoreId) (id : String) (f : PFields) (rank : String) (db : Db)
    (h : (specCreate env fault σ id f rank db).accepted = true) :
    createOverVetoed env σ db id = false ∧ ixVetoedFor env σ .afterUpdate id = false ∧
    writeRejected true db (db.put id (writtenEnt σ db id f rank)) id (createOld σ db id) f = false ∧
    (id = "" || present σ db id) = false ∧
    (passVetoes env (writeFlows σ .created db (db.put id (writtenEnt σ db id f rank)) id)).2 = true := by
  rw [specCreate_eq] at h
  split at h
  · simp [rejectClean] at h
  · rename_i h0
    split at h
    · simp [rejectDirty] at h
    · rename_i h1
      split at h
      · simp [rejectDirty] at h
      · rename_i h2
        simp only [finish] at h
        have h1' := h1
        simp only [Bool.or_eq_true, not_or, Bool.not_eq_true] at h1' h2
        exact ⟨h2.1, h2.2, h1'.1, by simpa using h0, h⟩

theorem specUpdate_tail (env : Env) (fault : Fault) (σ : StoreId) (id : String) (f : PFields) (rank : String) (db : Db)
    (h : (specUpdate env fault σ id f rank db).accepted = true) :
    id ≠ "" ∧ (view (updateStore σ db id) db id).isSome = true ∧
    ixVetoedFor env (updateStore σ db id) .beforeUpdate id = false ∧
    ixVetoedFor env (updateStore σ db id) .afterUpdate id = false ∧
    writeRejected false db (db.put id (writtenEnt σ db id f rank)) id ((db.get id).map (·.f)) f = false ∧
    (passVetoes env (writeFlows (updateStore σ db id) .updated db (db.put id (writtenEnt σ db id f rank)) id)).2 = true := by
  rw [specUpdate_eq] at h
  split at h
  · simp [rejectClean] at h
  · rename_i h0
    cases hv : view (updateStore σ db id) db id with
    | none => simp [hv, rejectClean] at h
    | some base =>
      simp only [hv] at h
      split at h
      · simp [rejectDirty] at h
      · rename_i h1
        split at h
        · simp [rejectDirty] at h
        · rename_i h2
          simp only [finish] at h
          have h1' := h1
          simp only [Bool.or_eq_true, not_or, Bool.not_eq_true] at h1' h2
          exact ⟨h0, rfl, h2.1, h2.2, h1'.1, h⟩

/-- each declarative failure kind makes the spec reject the operation -/
theorem opFails_rejected (env : Env) (fault : Fault) (db : Db) (o : Op) (hf : OpFails env db o) :
    (specOp env fault o db).accepted = false := by
  cases hacc : (specOp env fault o db).accepted with
  | false => rfl
  | true =>
    exfalso
    cases hf with
    | createBlankId σ f rank =>
      have := (specCreate_tail env fault σ "" f rank db hacc).2.2.2.1
      simp at this
    | createExists σ id f rank hp =>
      have := (specCreate_tail env fault σ id f rank db hacc).2.2.2.1
      simp [hp] at this
    | createUnusableKey σ id f rank hk =>
      have := (specCreate_tail env fault σ id f rank db hacc).2.2.1
      simp [writeRejected, hk] at this
    | createUnpersistableValue σ id f rank hk =>
      have := (specCreate_tail env fault σ id f rank db hacc).2.2.1
      simp [writeRejected, keyRejected, hk] at this
    | createMissingLinkTarget σ id f rank hk =>
      have := (specCreate_tail env fault σ id f rank db hacc).2.2.1
      simp [writeRejected, keyRejected, hk] at this
    | createName σ id f rank hk =>
      have := (specCreate_tail env fault σ id f rank db hacc).2.2.1
      simp [writeRejected, hk] at this
    | createEmptyRole σ id f rank hk =>
      have := (specCreate_tail env fault σ id f rank db hacc).2.2.1
      simp [writeRejected, hk] at this
    | createMissingFk σ id f rank hk =>
      have := (specCreate_tail env fault σ id f rank db hacc).2.2.1
      simp [writeRejected, hk] at this
    | createVetoParentFlow σ id f rank hσ hv =>
      have hp := (specCreate_tail env fault σ id f rank db hacc).2.2.2.2
      cases σ with
      | P => exact hσ rfl
      | C => simp [writeFlows, passVetoes_two, hv] at hp
      | D => simp [writeFlows, passVetoes_two, hv] at hp
    | createVetoOwnFlow σ id f rank hv =>
      have hp := (specCreate_tail env fault σ id f rank db hacc).2.2.2.2
      cases σ with
      | P => simp [writeFlows, passVetoes_one, hv] at hp
      | C => simp [writeFlows, passVetoes_two, hv] at hp
      | D => simp [writeFlows, passVetoes_two, hv] at hp
    | createIxVetoParent σ id f rank hv =>
      have := (specCreate_tail env fault σ id f rank db hacc).2.1
      rw [ixVetoedFor_P env σ _ id hv] at this; cases this
    | createIxVetoChild σ id f rank hσ hv =>
      have := (specCreate_tail env fault σ id f rank db hacc).2.1
      rw [ixVetoedFor_child env σ hσ _ id hv] at this; cases this
    | createIxVetoOverParent σ id f rank hσ hg hv =>
      have := (specCreate_tail env fault σ id f rank db hacc).1
      unfold createOverVetoed createOld at this
      cases hget : db.get id with
      | none => simp [hget] at hg
      | some e => cases σ <;> simp_all
    | updateBlankId σ f rank =>
      exact (specUpdate_tail env fault σ "" f rank db hacc).1 rfl
    | updateNotFound σ id f rank hn =>
      have := (specUpdate_tail env fault σ id f rank db hacc).2.1
      rw [hn] at this; cases this
    | updateUnusableKey σ id f rank hk =>
      have := (specUpdate_tail env fault σ id f rank db hacc).2.2.2.2.1
      simp [writeRejected, hk] at this
    | updateUnpersistableValue σ id f rank hk =>
      have := (specUpdate_tail env fault σ id f rank db hacc).2.2.2.2.1
      simp [writeRejected, keyRejected, hk] at this
    | updateMissingLinkTarget σ id f rank hk =>
      have := (specUpdate_tail env fault σ id f rank db hacc).2.2.2.2.1
      simp [writeRejected, keyRejected, hk] at this
    | updateName σ id f rank hk =>
      have := (specUpdate_tail env fault σ id f rank db hacc).2.2.2.2.1
      simp [writeRejected, hk] at this
    | updateEmptyRole σ id f rank hk =>
      have := (specUpdate_tail env fault σ id f rank db hacc).2.2.2.2.1
      simp [writeRejected, hk] at this
    | updateMissingFk σ id f rank hk =>
      have := (specUpdate_tail env fault σ id f rank db hacc).2.2.2.2.1
      simp [writeRejected, hk] at this
    | updateVetoParentFlow σ id f rank hv =>
      have hp := (specUpdate_tail env fault σ id f rank db hacc).2.2.2.2.2
      cases hs : updateStore σ db id with
      | P =>
        rw [hs] at hp
        simp [writeFlows, passVetoes_one, hv] at hp
      | C =>
        rw [hs] at hp
        simp [writeFlows, passVetoes_two, hv] at hp
      | D =>
        rw [hs] at hp
        simp [writeFlows, passVetoes_two, hv] at hp
    | updateVetoChildFlow σ id f rank hs hv =>
      have hp := (specUpdate_tail env fault σ id f rank db hacc).2.2.2.2.2
      cases hse : updateStore σ db id with
      | P => exact hs hse
      | C =>
        rw [hse] at hp hv
        simp [writeFlows, passVetoes_two, hv] at hp
      | D =>
        rw [hse] at hp hv
        simp [writeFlows, passVetoes_two, hv] at hp
    | updateIxVetoParent σ id f rank stage hst hv =>
      obtain ⟨_, _, hb, ha, _⟩ := specUpdate_tail env fault σ id f rank db hacc
      cases stage with
      | beforeUpdate => rw [ixVetoedFor_P env _ _ id hv] at hb; cases hb
      | afterUpdate => rw [ixVetoedFor_P env _ _ id hv] at ha; cases ha
      | beforeDelete => exact hst rfl
    | updateIxVetoChild σ id f rank stage hst hs hv =>
      obtain ⟨_, _, hb, ha, _⟩ := specUpdate_tail env fault σ id f rank db hacc
      cases stage with
      | beforeUpdate => rw [ixVetoedFor_child env _ hs _ id hv] at hb; cases hb
      | afterUpdate => rw [ixVetoedFor_child env _ hs _ id hv] at ha; cases ha
      | beforeDelete => exact hst rfl
    | deleteNotFound σ id hn =>
      obtain ⟨⟨e, hg⟩, _⟩ := specDelete_accepted' env fault id db hacc
      rw [hn] at hg; cases hg
    | deleteReferenced σ id hr =>
      obtain ⟨_, hnr, _⟩ := specDelete_accepted' env fault id db hacc
      rw [hr] at hnr; cases hnr
    | deleteVetoParentFlow σ id hv =>
      obtain ⟨⟨e, hg⟩, _, _, hpv⟩ := specDelete_accepted' env fault id db hacc
      obtain ⟨fl, hm, h1, h2, h3⟩ := deleteFlows_mem db id .P (by unfold view; simp [hg])
      have := passVetoes_vetoed env (deleteFlows db id) fl hm (by rw [h1, h2, h3]; exact hv)
      rw [this] at hpv; cases hpv
    | deleteVetoChildFlow σ τ id _ hc hv =>
      obtain ⟨_, _, _, hpv⟩ := specDelete_accepted' env fault id db hacc
      obtain ⟨fl, hm, h1, h2, h3⟩ := deleteFlows_mem db id τ hc
      have := passVetoes_vetoed env (deleteFlows db id) fl hm (by rw [h1, h2, h3]; exact hv)
      rw [this] at hpv; cases hpv
    | deleteIxVetoParent σ id hv =>
      obtain ⟨_, _, hix, _⟩ := specDelete_accepted' env fault id db hacc
      have := ((ixVetoedDel_false env db id).mp hix).1
      rw [hv] at this; cases this
    | deleteIxVetoChild σ τ id hτ hc hv =>
      obtain ⟨_, _, hix, _⟩ := specDelete_accepted' env fault id db hacc
      obtain ⟨_, hC, hD⟩ := (ixVetoedDel_false env db id).mp hix
      cases τ with
      | P => exact hτ rfl
      | C => have := hC hc; rw [hv] at this; cases this
      | D => have := hD hc; rw [hv] at this; cases this
    | badQuery σ => simp [specOp, rejectClean] at hacc

theorem specSteps_rejected_stays (env : Env) (body : List Step) (b : Body) (hb : b.accepted = false) :
    (specSteps env body b).accepted = false := by
  induction body generalizing b with
  | nil => exact hb
  | cons s rest ih =>
    cases s with
    | op o fault swallow =>
      unfold specSteps
      simp only
      split
      · exact ih _ hb
      · split
        · exact ih _ hb
        · rfl
    | fail tag => rfl
    | fail1 tag => rfl
    | link op id ts =>
      unfold specSteps
      split
      · rfl
      · exact ih _ hb
    | addCommit tag => exact ih _ hb
    | addPre tag fails => exact ih _ hb
    | nestedBegin => exact ih _ hb
    | nestedEnd => exact ih _ hb
    | useSystemCtx => exact ih _ hb

/-- a body in which the caller returns an error is not accepted -/
theorem specSteps_caller_error (env : Env) (body : List Step) (tag : Nat) (hm : Step.fail tag ∈ body) (b : Body) :
    (specSteps env body b).accepted = false := by
  induction body generalizing b with
  | nil => cases hm
  | cons s rest ih =>
    rcases List.mem_cons.mp hm with rfl | hr
    · rfl
    · cases s with
      | op o fault swallow =>
        unfold specSteps
        simp only
        split
        · exact ih hr _
        · split
          · exact ih hr _
          · rfl
      | fail tag => rfl
      | fail1 tag => rfl
      | link op id ts =>
        unfold specSteps
        split
        · rfl
        · exact ih hr _
      | addCommit tag => exact ih hr _
      | addPre tag fails => exact ih hr _
      | nestedBegin => exact ih hr _
      | nestedEnd => exact ih hr _
      | useSystemCtx => exact ih hr _

/-- a body that fails the first time it is executed is not accepted on that execution -/
theorem specSteps_first_run_error (env : Env) (body : List Step) (tag : Nat) (hm : Step.fail1 tag ∈ body) (b : Body) :
    (specSteps env body b).accepted = false := by
  induction body generalizing b with
  | nil => cases hm
  | cons s rest ih =>
    rcases List.mem_cons.mp hm with rfl | hr
    · rfl
    · cases s with
      | op o fault swallow =>
        unfold specSteps
        simp only
        split
        · exact ih hr _
        · split
          · exact ih hr _
          · rfl
      | fail tag => rfl
      | fail1 tag => rfl
      | link op id ts =>
        unfold specSteps
        split
        · rfl
        · exact ih hr _
      | addCommit tag => exact ih hr _
      | addPre tag fails => exact ih hr _
      | nestedBegin => exact ih hr _
      | nestedEnd => exact ih hr _
      | useSystemCtx => exact ih hr _

/-- pre-commit actions are never removed from the context by a body -/
theorem specSteps_pre_mono (env : Env) (body : List Step) (b : Body) (x : Nat × Bool)
    (hx : x ∈ b.ctx.preActions) : x ∈ (specSteps env body b).ctx.preActions := by
  induction body generalizing b with
  | nil => exact hx
  | cons s rest ih =>
    cases s with
    | op o fault swallow =>
      unfold specSteps
      simp only
      split
      · exact ih _ hx
      · split
        · exact ih _ hx
        · exact hx
    | fail tag => exact hx
    | fail1 tag => exact hx
    | link op id ts =>
      unfold specSteps
      split
      · exact hx
      · exact ih _ hx
    | addCommit tag => exact ih _ hx
    | addPre tag fails => exact ih _ (by simp [hx])
    | nestedBegin => exact ih _ hx
    | nestedEnd => exact ih _ hx
    | useSystemCtx => exact ih _ hx

/-- acceptance of a body split at any point: the second part is judged on what the first part leaves -/
theorem specSteps_append_accepted (env : Env) (l1 l2 : List Step) (b : Body) :
    (specSteps env (l1 ++ l2) b).accepted =
      ((specSteps env l1 b).accepted && (specSteps env l2 (specSteps env l1 b)).accepted) := by
  induction l1 generalizing b with
  | nil =>
    simp only [List.nil_append, specSteps]
    cases hb : b.accepted
    · rw [specSteps_rejected_stays env l2 b hb]; rfl
    · rfl
  | cons s rest ih =>
    cases s with
    | op o fault swallow =>
      simp only [List.cons_append, specSteps]
      split
      · exact ih _
      · split
        · exact ih _
        · have : (specSteps env l2 { b with accepted := false }).accepted = false :=
            specSteps_rejected_stays env l2 _ rfl
          simp [this]
    | fail tag =>
      simp only [List.cons_append, specSteps, Bool.false_and]
    | fail1 tag =>
      simp only [List.cons_append, specSteps, Bool.false_and]
    | link op id ts =>
      simp only [List.cons_append, specSteps]
      split
      · simp
      · exact ih _
    | addCommit tag => simp only [List.cons_append, specSteps]; exact ih _
    | addPre tag fails => simp only [List.cons_append, specSteps]; exact ih _
    | nestedBegin => simp only [List.cons_append, specSteps]; exact ih _
    | nestedEnd => simp only [List.cons_append, specSteps]; exact ih _
    | useSystemCtx => simp only [List.cons_append, specSteps]; exact ih _

end StorageModel.Tx
