import StorageModel.Tx.Lemmas
/-
  Tx/Failures — the failure kinds of C07 as declarative conditions on the database an operation meets
  (`OpFails`), with the lemma that the spec rejects each of them, and lemmas about bodies the spec
  rejects.  Helper material for Properties/C07.lean and C08.lean.
-/
namespace StorageModel.Tx
open StorageModel.Tx.Spec

/-- the failure kinds of C07, stated on the database the operation meets (no stages, no tables) -/
inductive OpFails (env : Env) (db : Db) : Op → Prop
  | createBlankId (σ f rank) : OpFails env db (.create σ "" f rank)
  | createExists (σ id f rank) : present σ db id = true → OpFails env db (.create σ id f rank)
  | createUnusableKey (σ id f rank) : keyRejected f = true → OpFails env db (.create σ id f rank)
  | createName (σ id f rank) : nameRejected db id none f = true → OpFails env db (.create σ id f rank)
  | createEmptyRole (σ id f rank) : rolesRejected none f = true → OpFails env db (.create σ id f rank)
  | createMissingFk (σ id f rank) :
      refRejected (db.put id (writtenEnt σ db id f rank)) none f = true → OpFails env db (.create σ id f rank)
  | createVetoParentFlow (id f rank) : vetoed env .P .created id = true → OpFails env db (.create .C id f rank)
  | createVetoOwnFlow (σ id f rank) : vetoed env σ .created id = true → OpFails env db (.create σ id f rank)
  | updateBlankId (σ f rank) : OpFails env db (.update σ "" f rank)
  | updateNotFound (σ id f rank) : view (updateStore σ db id) db id = none → OpFails env db (.update σ id f rank)
  | updateUnusableKey (σ id f rank) : keyRejected f = true → OpFails env db (.update σ id f rank)
  | updateName (σ id f rank) : nameRejected db id ((db.get id).map (·.f)) f = true → OpFails env db (.update σ id f rank)
  | updateEmptyRole (σ id f rank) : rolesRejected ((db.get id).map (·.f)) f = true → OpFails env db (.update σ id f rank)
  | updateMissingFk (σ id f rank) :
      refRejected (db.put id (writtenEnt σ db id f rank)) ((db.get id).map (·.f)) f = true →
      OpFails env db (.update σ id f rank)
  | updateVetoParentFlow (σ id f rank) : vetoed env .P .updated id = true → OpFails env db (.update σ id f rank)
  | updateVetoChildFlow (σ id f rank) : updateStore σ db id = .C → vetoed env .C .updated id = true →
      OpFails env db (.update σ id f rank)
  | deleteNotFound (σ id) : db.get id = none → OpFails env db (.delete σ id)
  | deleteReferenced (σ id) : db.any (fun p => !(p.1 == id) && refBytes p.2.f.ref == id) = true →
      OpFails env db (.delete σ id)
  | deleteVetoParentFlow (σ id) : vetoed env .P .deleted id = true → OpFails env db (.delete σ id)
  | deleteVetoChildFlow (σ id) : hasChild db id = true → vetoed env .C .deleted id = true →
      OpFails env db (.delete σ id)
  | badQuery (σ) : OpFails env db (.deleteWhere σ .bad)

theorem passVetoes_vetoed (env : Env) (flows : List Flow) (fl : Flow) (hm : fl ∈ flows)
    (hv : vetoed env fl.store fl.kind fl.id = true) : (passVetoes env flows).2 = false := by
  induction flows with
  | nil => cases hm
  | cons a rest ih =>
    unfold passVetoes
    by_cases ha : vetoed env a.store a.kind a.id = true
    · simp [ha]
    · simp only [ha, Bool.false_eq_true, if_false]
      rcases List.mem_cons.mp hm with rfl | hr
      · exact absurd hv ha
      · exact ih hr

theorem specDelete_accepted' (env : Env) (fault : Fault) (id : String) (db : Db)
    (h : (specDelete env fault id db).accepted = true) :
    (∃ e, db.get id = some e) ∧
    db.any (fun p => !(p.1 == id) && refBytes p.2.f.ref == id) = false ∧
    (passVetoes env (delFlows db id)).2 = true := by
  rw [specDelete_eq] at h
  cases hg : db.get id with
  | none => simp [hg, rejectClean] at h
  | some e =>
    simp only [hg] at h
    by_cases h1 : faultHits fault (if hasChild db id = true then 3 else 2) (if hasChild db id = true then 1 else 0) 0 0 = true
    · simp [h1, rejectDirty] at h
    · by_cases h2 : db.any (fun p => !(p.1 == id) && refBytes p.2.f.ref == id) = true
      · simp [h1, h2, rejectDirty] at h
      · simp only [h1, h2, finish] at h
        exact ⟨⟨e, rfl⟩, by simpa using h2, h⟩

/-- each declarative failure kind makes the spec reject the operation -/
theorem opFails_rejected (env : Env) (fault : Fault) (db : Db) (o : Op) (hf : OpFails env db o) :
    (specOp env fault o db).accepted = false := by
  cases hf with
  | createBlankId σ f rank => simp [specOp, specCreate, rejectClean]
  | createExists σ id f rank hp => simp [specOp, specCreate, hp, rejectClean]
  | createUnusableKey σ id f rank hk =>
    simp only [specOp, specCreate_eq, writeRejected, hk, Bool.true_or]
    split <;> simp [rejectClean, rejectDirty]
  | createName σ id f rank hk =>
    simp only [specOp, specCreate_eq, writeRejected, hk, Bool.true_or, Bool.or_true]
    split <;> simp [rejectClean, rejectDirty]
  | createEmptyRole σ id f rank hk =>
    simp only [specOp, specCreate_eq, writeRejected, hk, Bool.true_or, Bool.or_true]
    split <;> simp [rejectClean, rejectDirty]
  | createMissingFk σ id f rank hk =>
    simp only [specOp, specCreate_eq, writeRejected, hk, Bool.or_true]
    split <;> simp [rejectClean, rejectDirty]
  | createVetoParentFlow id f rank hv =>
    simp only [specOp, specCreate_eq]
    split
    · rfl
    · split
      · rfl
      · simp only [finish]
        exact passVetoes_vetoed env _ _ (by simp [writeFlows]; exact Or.inl rfl) hv
  | createVetoOwnFlow σ id f rank hv =>
    simp only [specOp, specCreate_eq]
    split
    · rfl
    · split
      · rfl
      · simp only [finish]
        cases σ with
        | P => exact passVetoes_vetoed env _ _ (by simp [writeFlows]; rfl) hv
        | C => exact passVetoes_vetoed env _ _ (by simp [writeFlows]; exact Or.inr rfl) hv
  | updateBlankId σ f rank => simp [specOp, specUpdate_eq, rejectClean]
  | updateNotFound σ id f rank hn =>
    simp only [specOp, specUpdate_eq, hn]
    split <;> rfl
  | updateUnusableKey σ id f rank hk =>
    simp only [specOp, specUpdate_eq, writeRejected, hk, Bool.true_or]
    split
    · rfl
    · split <;> rfl
  | updateName σ id f rank hk =>
    simp only [specOp, specUpdate_eq, writeRejected, hk, Bool.true_or, Bool.or_true]
    split
    · rfl
    · split <;> rfl
  | updateEmptyRole σ id f rank hk =>
    simp only [specOp, specUpdate_eq, writeRejected, hk, Bool.true_or, Bool.or_true]
    split
    · rfl
    · split <;> rfl
  | updateMissingFk σ id f rank hk =>
    simp only [specOp, specUpdate_eq, writeRejected, hk, Bool.or_true]
    split
    · rfl
    · split <;> rfl
  | updateVetoParentFlow σ id f rank hv =>
    simp only [specOp, specUpdate_eq]
    split
    · rfl
    · split
      · rfl
      · split
        · rfl
        · simp only [finish]
          cases updateStore σ db id with
          | P => exact passVetoes_vetoed env _ _ (by simp [writeFlows]; rfl) hv
          | C => exact passVetoes_vetoed env _ _ (by simp [writeFlows]; exact Or.inl rfl) hv
  | updateVetoChildFlow σ id f rank hs hv =>
    simp only [specOp, specUpdate_eq, hs]
    split
    · rfl
    · split
      · rfl
      · split
        · rfl
        · simp only [finish]
          exact passVetoes_vetoed env _ _ (by simp [writeFlows]; exact Or.inr rfl) hv
  | deleteNotFound σ id hn =>
    cases hacc : (specOp env fault (.delete σ id) db).accepted with
    | false => rfl
    | true =>
      obtain ⟨⟨e, hg⟩, _⟩ := specDelete_accepted' env fault id db hacc
      rw [hn] at hg; cases hg
  | deleteReferenced σ id hr =>
    cases hacc : (specOp env fault (.delete σ id) db).accepted with
    | false => rfl
    | true =>
      obtain ⟨_, hnr, _⟩ := specDelete_accepted' env fault id db hacc
      rw [hr] at hnr; cases hnr
  | deleteVetoParentFlow σ id hv =>
    cases hacc : (specOp env fault (.delete σ id) db).accepted with
    | false => rfl
    | true =>
      obtain ⟨⟨e, hg⟩, _, hpv⟩ := specDelete_accepted' env fault id db hacc
      have := passVetoes_vetoed env (delFlows db id)
        { store := .P, kind := .deleted, id := id, initial := some (.parent id e.f), final := none,
          parentEvent := e.child.isSome } (by
            unfold delFlows view
            simp only [hg]
            cases hc : e.child <;> simp [deleteFlow]) hv
      rw [this] at hpv; cases hpv
  | deleteVetoChildFlow σ id hc hv =>
    cases hacc : (specOp env fault (.delete σ id) db).accepted with
    | false => rfl
    | true =>
      obtain ⟨⟨e, hg⟩, _, hpv⟩ := specDelete_accepted' env fault id db hacc
      unfold hasChild at hc
      simp only [hg, Option.bind_some] at hc
      obtain ⟨r, hr⟩ := Option.isSome_iff_exists.mp hc
      have := passVetoes_vetoed env (delFlows db id) (deleteFlow .C id (.child id e.f r)) (by
            unfold delFlows view
            simp [hg, hr]) hv
      rw [this] at hpv; cases hpv
  | badQuery σ => rfl

theorem specSteps_rejected_stays (env : Env) (body : List Step) (b : Body) (hb : b.accepted = false) :
    (specSteps env body b).accepted = false := by
  induction body generalizing b with
  | nil => exact hb
  | cons s rest ih =>
    cases s with
    | op o fault swallow =>
      unfold specSteps
      simp only
      split
      · exact ih _ hb
      · split
        · exact ih _ hb
        · rfl
    | fail tag => rfl
    | addCommit tag => exact ih _ hb
    | addPre tag fails => exact ih _ hb
    | nestedBegin => exact ih _ hb
    | nestedEnd => exact ih _ hb
    | useSystemCtx => exact ih _ hb

/-- a body in which the caller returns an error is not accepted -/
theorem specSteps_caller_error (env : Env) (body : List Step) (tag : Nat) (hm : Step.fail tag ∈ body) (b : Body) :
    (specSteps env body b).accepted = false := by
  induction body generalizing b with
  | nil => cases hm
  | cons s rest ih =>
    rcases List.mem_cons.mp hm with rfl | hr
    · rfl
    · cases s with
      | op o fault swallow =>
        unfold specSteps
        simp only
        split
        · exact ih hr _
        · split
          · exact ih hr _
          · rfl
      | fail tag => rfl
      | addCommit tag => exact ih hr _
      | addPre tag fails => exact ih hr _
      | nestedBegin => exact ih hr _
      | nestedEnd => exact ih hr _
      | useSystemCtx => exact ih hr _

/-- pre-commit actions are never removed from the context by a body -/
theorem specSteps_pre_mono (env : Env) (body : List Step) (b : Body) (x : Nat × Bool)
    (hx : x ∈ b.ctx.preActions) : x ∈ (specSteps env body b).ctx.preActions := by
  induction body generalizing b with
  | nil => exact hx
  | cons s rest ih =>
    cases s with
    | op o fault swallow =>
      unfold specSteps
      simp only
      split
      · exact ih _ hx
      · split
        · exact ih _ hx
        · exact hx
    | fail tag => exact hx
    | addCommit tag => exact ih _ hx
    | addPre tag fails => exact ih _ (by simp [hx])
    | nestedBegin => exact ih _ hx
    | nestedEnd => exact ih _ hx
    | useSystemCtx => exact ih _ hx

end StorageModel.Tx
