import StorageModel.Tx.Db
/-
  Tx/Spec — what C07 and C08 demand, stated without stages, return tables, error holders or an
  OnCommit queue:

  * an operation is either accepted (its whole effect is applied) or rejected; the reasons for a
    rejection are listed declaratively;
  * a custom index-stage constraint (boltz.Constraint registered with AddConstraint on the parent or on
    the child store) that objects — before the update, after the write of a create / update, before
    the delete — rejects the operation, whichever store the operation was invoked on;
  * a transaction succeeds iff no step of its body is rejected (and the caller did not return an
    error, and no pre-commit action of the context fails); otherwise nothing changes and nothing runs;
  * a committed transaction announces, to every listener registered for kind k on store σ, exactly
    the accepted changes of kind k on σ (a change through / of an entity with child data is a change
    on the parent store too, marked as parent event), runs the context's commit actions once and
    every tx-complete listener once.
-/
namespace StorageModel.Tx.Spec
open StorageModel.Tx

/-- some constraint registered on store σ refuses the change (kind, id) -/
def vetoed (env : Env) (σ : StoreId) (k : Kind) (id : String) : Bool :=
  (env.regs σ).any fun r => match r with
    | .constraint _ vs => vs.contains (k, id)
    | .listener _ _ => false

/-- the entity has data in the first child store C -/
def hasChild (db : Db) (id : String) : Bool := ((db.get id).bind (·.child)).isSome

/-- the entity has data in the second child store D -/
def hasChild2 (db : Db) (id : String) : Bool := ((db.get id).bind (·.child2)).isSome

/-- calls made on the (instrumented) strategy of the child store C: none when another store does the work -/
def ifC (σ : StoreId) (n : Nat) : Nat := match σ with | .C => n | _ => 0

/-- some custom index-stage constraint registered on store σ objects to (stage, id) -/
def ixVetoed (env : Env) (σ : StoreId) (stage : Stage) (id : String) : Bool :=
  (env.ix σ).any fun vs => vs.contains (stage, id)

/-- a write performed by store σe (the parent store, or a child store for an entity with data there)
    consults the constraints of the parent store and, for a child store, its own -/
def ixVetoedFor (env : Env) (σe : StoreId) (stage : Stage) (id : String) : Bool :=
  ixVetoed env .P stage id || (match σe with | .P => false | σ => ixVetoed env σ stage id)

/-- a delete consults the parent store's constraints and those of every child store the entity has data in -/
def ixVetoedDel (env : Env) (db : Db) (id : String) : Bool :=
  ixVetoed env .P .beforeDelete id || (hasChild db id && ixVetoed env .C .beforeDelete id)
    || (hasChild2 db id && ixVetoed env .D .beforeDelete id)

/-- does an injected storage fault strike an operation that performs `lp` / `lc` FillEntity and
    `pp` / `pc` PersistEntity calls on the parent / child strategy? -/
def faultHits (fault : Fault) (lp lc pp pc : Nat) : Bool :=
  match fault with
  | .none => false
  | .load .P n => decide (1 ≤ n ∧ n ≤ lp)
  | .load .C n => decide (1 ≤ n ∧ n ≤ lc)
  | .persist .P n => decide (1 ≤ n ∧ n ≤ pp)
  | .persist .C n => decide (1 ≤ n ∧ n ≤ pc)
  -- the strategy of the second child store is not an injection point
  | .load .D _ => false
  | .persist .D _ => false

/-- the `tags` value cannot be persisted: somewhere in it (directly in the map, in a list, in a nested
    map or list at any depth) sits a value of a type the bucket encoding has no representation for, or
    a map key that cannot be a bolt key (empty, above the key size) -/
def tagsRejected (tags : List TagEntry) : Bool :=
  tags.any fun e => e.leaf.isUnsupported || e.path.any badKey

/-- a linked id names an entity the linked store does not have -/
def linksRejected (links : List String) : Bool := links.any fun t => !qIds.contains t

/-- the entity's value cannot be persisted (a link target that does not exist included): a role is stored as a list key (type byte + value) and bbolt
    refuses keys above its key size; or the tags value is unpersistable -/
def keyRejected (f : PFields) : Bool :=
  f.roles.any (fun r => r.utf8ByteSize + 1 > maxKeySize) || tagsRejected f.tags || linksRejected f.links

/-- name: non-nullable unique index — a create (from scratch, or of child data over an existing plain
    parent entity) always writes its entry, an update only when the name changes: the name must then be
    non-empty, fit in a key and not be taken by another entity (`old` = stored parent fields, if any) -/
def nameRejected (isCreate : Bool) (db : Db) (id : String) (old : Option PFields) (f : PFields) : Bool :=
  (isCreate || old.map (·.name) != some f.name) &&
    (f.name == "" || f.name.utf8ByteSize > maxKeySize
      || db.any (fun p => p.2.f.name == f.name && !(p.1 == id)))

/-- roles: set index — an empty element would need an index bucket with an empty name -/
def rolesRejected (old : Option PFields) (f : PFields) : Bool :=
  ((old.map (·.roles)).getD [] != normRoles f.roles) && (normRoles f.roles).contains ""

/-- ref: nullable fk index — old and new target must exist -/
def refRejected (isCreate : Bool) (dbAfter : Db) (old : Option PFields) (f : PFields) : Bool :=
  (isCreate || refBytes (old.bind (·.ref)) != refBytes f.ref) &&
    ((refBytes (old.bind (·.ref)) != "" && (dbAfter.get (refBytes (old.bind (·.ref)))).isNone)
      || (refBytes f.ref != "" && (dbAfter.get (refBytes f.ref)).isNone))

/-- storage and index rules for writing fields `f` to entity `id` -/
def writeRejected (isCreate : Bool) (db dbAfter : Db) (id : String) (old : Option PFields) (f : PFields) : Bool :=
  keyRejected f || nameRejected isCreate db id old f || rolesRejected old f || refRejected isCreate dbAfter old f

structure Verdict where
  accepted : Bool
  /-- database after the operation -/
  db : Db
  /-- changes to announce when the transaction commits, in order -/
  flows : List Flow
  /-- false: rejected in the middle of its writes — only a rollback makes sense afterwards -/
  exact : Bool
  deriving Repr

def rejectClean (db : Db) : Verdict := { accepted := false, db := db, flows := [], exact := true }
/-- also: rejected by an index-stage constraint — the transaction must fail; what a caller that goes on
    regardless finds is not specified -/
def rejectDirty (db : Db) : Verdict := { accepted := false, db := db, flows := [], exact := false }

/-- flows are vetoed one after the other; the ones before the first vetoed flow went through -/
def passVetoes (env : Env) : List Flow → List Flow × Bool
  | [] => ([], true)
  | fl :: rest =>
    if vetoed env fl.store fl.kind fl.id then ([], false)
    else let r := passVetoes env rest; (fl :: r.1, r.2)

def finish (env : Env) (fault : Fault) (db' : Db) (flows : List Flow) : Verdict :=
  let pv := passVetoes env flows
  { accepted := pv.2, db := db', flows := pv.1, exact := fault == .none }

def writeFlows (σe : StoreId) (k : Kind) (db db' : Db) (id : String) : List Flow :=
  let init (σ : StoreId) : Option EntView := match k with | .created => none | _ => view σ db id
  let fin (σ : StoreId) : Option EntView := match k with | .deleted => none | _ => view σ db' id
  match σe with
  | .P => [{ store := .P, kind := k, id := id, initial := init .P, final := fin .P, parentEvent := false }]
  | σ => [{ store := .P, kind := k, id := id, initial := init .P, final := fin .P, parentEvent := true },
          { store := σ, kind := k, id := id, initial := init σ, final := fin σ, parentEvent := false }]

/-- what a delete announces: the parent store's flow (marked as parent event iff some child store holds
    the entity), then one flow per child store that holds it, in registration order -/
def deleteFlows (db : Db) (id : String) : List Flow :=
  match view .P db id with
  | none => []
  | some pv =>
    let one (σ : StoreId) : List Flow :=
      match view σ db id with
      | none => []
      | some v => [{ store := σ, kind := .deleted, id := id, initial := some v, final := none, parentEvent := false }]
    let cs := one .C ++ one .D
    { store := .P, kind := .deleted, id := id, initial := some pv, final := none, parentEvent := !cs.isEmpty } :: cs

/-- FillEntity calls of a delete on the parent / on C's strategy: FindById, one init per child store that
    holds the entity (each loads the parent part), the parent's init -/
def delCounts (db : Db) (id : String) : Nat × Nat :=
  (2 + (if hasChild db id then 1 else 0) + (if hasChild2 db id then 1 else 0), if hasChild db id then 1 else 0)

/-- a create of child data over an existing parent entity first asks the parent store's index-stage
    constraints "before update" -/
def createOverVetoed (env : Env) (σ : StoreId) (db : Db) (id : String) : Bool :=
  (createOld σ db id).isSome && ixVetoed env .P .beforeUpdate id

def specCreate (env : Env) (fault : Fault) (σ : StoreId) (id : String) (f : PFields) (rank : String) (db : Db) : Verdict :=
  if id = "" || present σ db id then rejectClean db
  else
    -- the parent fields (roles as a set) and, through the child store, the rank
    let db' := db.put id (writtenEnt σ db id f rank)
    if writeRejected true db db' id (createOld σ db id) f || faultHits fault 1 (ifC σ 1) 1 (ifC σ 1) then rejectDirty db'
    else if createOverVetoed env σ db id || ixVetoedFor env σ .afterUpdate id then rejectDirty db
    else finish env fault db' (writeFlows σ .created db db' id)

/-- an entity with child data is updated through a child store, whichever store was asked: the parent
    store hands the update to the first of its child stores (C, then D) that holds the entity -/
def updateStore (σ : StoreId) (db : Db) (id : String) : StoreId :=
  match σ with
  | .P => if hasChild db id then .C else if hasChild2 db id then .D else .P
  | σ => σ

def specUpdate (env : Env) (fault : Fault) (σ : StoreId) (id : String) (f : PFields) (rank : String) (db : Db) : Verdict :=
  let σe : StoreId := updateStore σ db id
  if id = "" then rejectClean db
  else match view σe db id with
    | none => rejectClean db
    | some _ =>
      let old := (db.get id).map (·.f)
      -- the parent store leaves the rank alone
      let db' := db.put id (writtenEnt σ db id f rank)
      if writeRejected false db db' id old f || faultHits fault 2 (ifC σe 2) 1 (ifC σe 1) then rejectDirty db'
      else if ixVetoedFor env σe .beforeUpdate id || ixVetoedFor env σe .afterUpdate id then rejectDirty db
      else finish env fault db' (writeFlows σe .updated db db' id)

/-- deleting through any store deletes the whole entity -/
def specDelete (env : Env) (fault : Fault) (id : String) (db : Db) : Verdict :=
  match db.get id with
  | none => rejectClean db
  | some _ =>
    if faultHits fault (delCounts db id).1 (delCounts db id).2 0 0 then rejectDirty db
    -- restrict: another entity still refers to this one
    else if db.any (fun p => !(p.1 == id) && refBytes p.2.f.ref == id) then rejectDirty db
    -- a custom constraint of the parent store or of a child store that holds the entity objects
    else if ixVetoedDel env db id then rejectDirty db
    else finish env fault (db.del id) (deleteFlows db id)

/-- the fault as seen by an operation that starts after `lp` / `lc` FillEntity calls were made (a
    call number that is already past becomes 0, which never strikes) -/
def shiftFault (fault : Fault) (lp lc : Nat) : Fault :=
  match fault with
  | .load .P n => .load .P (if n > lp then n - lp else 0)
  | .load .C n => .load .C (if n > lc then n - lc else 0)
  | f => f

/-- DeleteWhere: the matching entities are deleted in id order; the first rejection stops it -/
def specDeleteMany (env : Env) : Fault → List String → Db → List Flow → Verdict
  | _, [], db, acc => { accepted := true, db := db, flows := acc, exact := true }
  | fault, id :: rest, db, acc =>
    let v := specDelete env fault id db
    if v.accepted then
      specDeleteMany env (shiftFault fault (delCounts db id).1 (delCounts db id).2) rest v.db (acc ++ v.flows)
    else { v with flows := acc ++ v.flows }

def specOp (env : Env) (fault : Fault) (o : Op) (db : Db) : Verdict :=
  match o with
  | .create σ id f rank => specCreate env fault σ id f rank db
  | .update σ id f rank => specUpdate env fault σ id f rank db
  | .delete _ id => specDelete env fault id db
  | .deleteWhere σ q =>
    match q with
    | .bad => rejectClean db
    | _ => specDeleteMany env fault (matching σ q db) db []

structure Body where
  accepted : Bool
  db : Db
  flows : List Flow
  ctx : Ctx
  /-- false once the body went on after a rejection in the middle of a write -/
  specified : Bool
  deriving Repr

def specSteps (env : Env) : List Step → Body → Body
  | [], b => b
  | .op o fault swallow :: rest, b =>
    let v := specOp env fault o b.db
    if v.accepted then specSteps env rest { b with db := v.db, flows := b.flows ++ v.flows }
    else if swallow then
      specSteps env rest { b with db := v.db, flows := b.flows ++ v.flows, specified := b.specified && v.exact }
    else { b with accepted := false }
  | .fail _ :: _, b => { b with accepted := false }
  | .fail1 _ :: _, b => { b with accepted := false }
  -- a link operation of the caller: rejected when the entity does not exist or a target to be linked does
  -- not; otherwise the entity's link set changes (no event: the entity stores are not involved)
  | .link op id ts :: rest, b =>
    match (linkStep op id ts b.db).1 with
    | some _ => { b with accepted := false }
    | none => specSteps env rest { b with db := (linkStep op id ts b.db).2 }
  | .addCommit tag :: rest, b => specSteps env rest { b with ctx := { b.ctx with commitActions := b.ctx.commitActions ++ [tag] } }
  | .addPre tag fails :: rest, b => specSteps env rest { b with ctx := { b.ctx with preActions := b.ctx.preActions ++ [(tag, fails)] } }
  | .nestedBegin :: rest, b => specSteps env rest b
  | .nestedEnd :: rest, b => specSteps env rest b
  | .useSystemCtx :: rest, b => specSteps env rest b

/-- listener-major: every registered (listener, change type) is handed exactly the flows of that
    kind on its store -/
def deliveriesOf (σ : StoreId) (flows : List Flow) (reg : Nat) : List (Nat × EvType) → List Fired
  | [] => []
  | (slot, t) :: rest =>
    ((flows.filter fun fl => fl.store = σ ∧ fl.kind = t.kind).map fun fl =>
      Fired.listener σ reg slot t.async fl.kind (match fl.kind with | .deleted => fl.initial | _ => fl.final))
    ++ deliveriesOf σ flows reg rest

def announceTo (σ : StoreId) (flows : List Flow) : List (Nat × Reg) → List Fired
  | [] => []
  | (i, .listener _ types) :: rest => deliveriesOf σ flows i (indexed types) ++ announceTo σ flows rest
  | (i, .constraint _ _) :: rest =>
    ((flows.filter fun fl => fl.store = σ).map fun fl => Fired.post σ i fl) ++ announceTo σ flows rest

structure SpecOut where
  ok : Bool
  db : Db
  /-- as a multiset: the spec does not order deliveries of different listeners -/
  fired : List Fired
  ctx : Ctx
  specified : Bool
  deriving Repr

/-- `txComplete`: do the tx-complete listeners run?  The property says: once per committed
    transaction (the code's Db.Batch never runs them — a finding, see Properties/C08.lean) -/
def specTxWith (env : Env) (txComplete : Bool) (db : Db) (ctx : Ctx) (body : List Step) : SpecOut :=
  let b := specSteps env body { accepted := true, db := db, flows := [], ctx := ctx, specified := true }
  let preOk := b.ctx.preActions.all fun p => !p.2
  if b.accepted && preOk then
    { ok := true, db := b.db,
      fired := [Fired.commitActions b.ctx.commitActions]
        ++ announceTo .P b.flows (indexed env.regsP) ++ announceTo .C b.flows (indexed env.regsC)
        ++ announceTo .D b.flows (indexed env.regsD)
        ++ (if txComplete then (List.range env.txListeners).map Fired.txComplete else []),
      ctx := b.ctx, specified := b.specified }
  -- once the body went on after a rejection the spec says nothing about (see `Verdict.exact`), whether
  -- a later step is rejected is judged on a database the spec does not know: not specified either
  else { ok := false, db := db, fired := [], ctx := b.ctx, specified := b.specified }

/-- a transaction worked on through a context from NewTxMutateContext: succeeds iff no step of its
    body is rejected; then the commit actions registered on that context run once, every accepted
    change is announced once and the tx-complete listeners run once; pre-commit actions registered on such
    a context are nobody's business (never run, cannot fail the transaction — the code's behaviour); on
    failure nothing changes and nothing runs -/
def specRawTx (env : Env) (db : Db) (body : List Step) : SpecOut :=
  let b := specSteps env body { accepted := true, db := db, flows := [], ctx := Ctx.empty, specified := true }
  if b.accepted then
    { ok := true, db := b.db,
      fired := [Fired.commitActions b.ctx.commitActions]
        ++ announceTo .P b.flows (indexed env.regsP) ++ announceTo .C b.flows (indexed env.regsC)
        ++ announceTo .D b.flows (indexed env.regsD)
        ++ (List.range env.txListeners).map Fired.txComplete,
      ctx := b.ctx, specified := b.specified }
  else { ok := false, db := db, fired := [], ctx := b.ctx, specified := b.specified }

/-- The context outlives the transaction; a Batch whose body fails registers everything a second
    time (the body is re-run), which matters only if the context is used again. -/
def specTx (env : Env) (db : Db) (prevCtx : Ctx) (tx : TxSpec) : SpecOut :=
  let ctx := if tx.reuseCtx then prevCtx else Ctx.empty
  match tx.mode with
  | .update => specTxWith env true db ctx tx.body
  | .batch =>
    -- the function is executed again: what fails only the first time (Step.fail1, Env.once) is spent, and
    -- a second execution that is accepted commits and announces everything exactly once
    let a := specTxWith env true db ctx tx.body
    if a.ok then a else specTxWith env.later true db a.ctx (laterBody tx.body)
  | .raw => specRawTx env db tx.body

def specCase (env : Env) : List TxSpec → Db → Ctx → List SpecOut
  | [], _, _ => []
  | tx :: rest, db, ctx =>
    let o := specTx env db ctx tx
    o :: specCase env rest o.db o.ctx

end StorageModel.Tx.Spec
