import StorageModel.Tx.Group
import StorageModel.Base.Bytes
/-
  Tx/Wire — line protocol of the C07 / C08 drivers: case parser and canonical rendering of
  results, logs and the leaf dump of the database.  Used only by the drivers, never by a proof.

  case  := "E" ["S"] nP reg* nC reg* txl ["I" nIxP ixreg* nIxC ixreg*] ["D" nD reg* nIxD ixreg*] "T" ntx tx*
           (the D section: registrations and custom index-stage constraints of the second child store)
  ixreg := nveto (stage id)*                  stage: b (ProcessBeforeUpdate) a (ProcessAfterUpdate) d (ProcessBeforeDelete); B A D: the veto is a RecordNotFoundError
           custom boltz.Constraint registered with AddConstraint on the parent / child store
  reg   := "l" style ntypes type*            style: t f u i     type: c u d (sync) C U D (async)
         | "c" typed nveto (kind id)*        typed: t u (T U: vetoes with a RecordNotFoundError; o: typed, its vetoes
                                              apply only while the body runs for the first time)   kind: c u d
  tx    := "tx" mode reuse nsteps step*      mode: u b r (r: caller-managed bbolt transaction + NewTxMutateContext)   reuse: 0 1
         | "tx" ("g" | "g:"sched) reuse nmembers member*     a batch group: nmembers Db.Batch calls coalesced by bbolt into one batch
  member:= "mb" faultInv faultPos nsteps step*   the function returns an error on its faultInv-th invocation (0: never) after faultPos steps
  sched := ("R" | "S"k) ("." ("R" | "S"k))*    observed order of the group's bbolt transactions: a round of the batch / the solo re-run of member k
  step  := "op" swallow fault op | "fail" tag | "fail1" tag (fails the first time the body executes it only) | "ac" tag | "ap" tag fails | "nb" | "nB" | "ne" | "sys"
           (nb / nB: nested Db.Update / Db.Batch with the bound context; sys: switch to the system context)
  fault := "-" | "lP"n | "lC"n | "pP"n | "pC"n
  op    := "cr" σ id fields rank | "up" σ id fields rank | "de" σ id | "dw" σ query
           ("S": the harness passes the additional change types of all listener registrations through ONE
            reused slice with spare capacity and overwrites it afterwards — no difference for model or spec)
  fields:= name nroles role* ref ["G" n tag*] ["K" n id*]   ref: "~" = nil; K: linked ids (groups)
  step  += "lk" ("a" | "r" | "s") id n target*   AddLinks / RemoveLinks / SetLinks by the transaction function
  tag   := nseg seg* leaf                    the entity's tags map, one entry per leaf / empty container
  seg   := "k" key | "i" index
  leaf  := "s" string | "t" | "f" (bool) | "n" (nil) | "u" (uint16) | "S" ([]string) | "m" (empty map) | "l" (empty list)
  query := "all" | "name" n | "bad"
  string:= "-" (empty) | hex | "*"len":"hh   (len copies of byte hh)
-/
namespace StorageModel.Tx.Wire
open StorageModel StorageModel.Tx

abbrev P (α : Type) := List String → Option (α × List String)

def tok : P String
  | [] => none
  | t :: r => some (t, r)

def nat : P Nat
  | [] => none
  | t :: r => t.toNat?.map (·, r)

def bytesToString (b : Bytes) : String := String.ofList (b.map fun x => Char.ofNat x.toNat)

def parseStr (t : String) : Option String :=
  if t.startsWith "*" then
    match (t.drop 1).toString.splitOn ":" with
    | [n, hh] => do
      let n ← n.toNat?
      let b ← Bytes.ofHex hh
      match b with
      | [x] => some (String.ofList (List.replicate n (Char.ofNat x.toNat)))
      | _ => none
    | _ => none
  else (Bytes.ofHex t).map bytesToString

def str : P String
  | [] => none
  | t :: r => (parseStr t).map (·, r)

def many {α : Type} (p : P α) : Nat → P (List α)
  | 0, ts => some ([], ts)
  | n + 1, ts => do
    let (a, ts) ← p ts
    let (as, ts) ← many p n ts
    pure (a :: as, ts)

def counted {α : Type} (p : P α) : P (List α) := fun ts => do
  let (n, ts) ← nat ts
  many p n ts

def store : P StoreId := fun ts => do
  let (t, ts) ← tok ts
  match t with
  | "P" => pure (.P, ts)
  | "C" => pure (.C, ts)
  | "D" => pure (.D, ts)
  | _ => none

def kindOf : String → Option Kind
  | "c" => some .created
  | "u" => some .updated
  | "d" => some .deleted
  | _ => none

def evType : P EvType := fun ts => do
  let (t, ts) ← tok ts
  match t with
  | "c" => pure (⟨.created, false⟩, ts)
  | "u" => pure (⟨.updated, false⟩, ts)
  | "d" => pure (⟨.deleted, false⟩, ts)
  | "C" => pure (⟨.created, true⟩, ts)
  | "U" => pure (⟨.updated, true⟩, ts)
  | "D" => pure (⟨.deleted, true⟩, ts)
  | _ => none

def veto : P (Kind × String) := fun ts => do
  let (k, ts) ← tok ts
  let k ← kindOf k
  let (id, ts) ← str ts
  pure ((k, id), ts)

/-- is the registration a constraint of style `o` (vetoes on the first run of the body only)? -/
def regIsOnce : List String → Bool
  | "c" :: "o" :: _ => true
  | _ => false

def reg : P Reg := fun ts => do
  let (t, ts) ← tok ts
  match t with
  | "l" =>
    let (s, ts) ← tok ts
    let style ← match s with
      | "t" => some Style.typed
      | "f" => some Style.func
      | "u" => some Style.untyped
      | "i" => some Style.idOnly
      | _ => none
    let (types, ts) ← counted evType ts
    pure (.listener style types, ts)
  | "c" =>
    let (s, ts) ← tok ts
    -- T / U: the same registrations, the veto being a *boltz.RecordNotFoundError (no difference for the model)
    let typed ← match s with
      | "t" => some true
      | "u" => some false
      | "T" => some true
      | "U" => some false
      | "o" => some true
      | _ => none
    let (vs, ts) ← counted veto ts
    pure (.constraint typed vs, ts)
  | _ => none

def stageOf : String → Option Stage
  | "b" => some .beforeUpdate
  | "a" => some .afterUpdate
  | "d" => some .beforeDelete
  -- upper case: the veto is a *boltz.RecordNotFoundError (no difference for the model)
  | "B" => some .beforeUpdate
  | "A" => some .afterUpdate
  | "D" => some .beforeDelete
  | _ => none

def ixVeto : P (Stage × String) := fun ts => do
  let (k, ts) ← tok ts
  let k ← stageOf k
  let (id, ts) ← str ts
  pure ((k, id), ts)

def ixReg : P IxReg := counted ixVeto

/-- registrations with the positions of the first-run-only constraints -/
def regsOnce : Nat → Nat → P (List Reg × List Nat)
  | 0, _, ts => some (([], []), ts)
  | n + 1, k, ts => do
    let once := regIsOnce ts
    let (r, ts) ← reg ts
    let ((rs, os), ts) ← regsOnce n (k + 1) ts
    pure ((r :: rs, if once then k :: os else os), ts)

def countedRegs : P (List Reg × List Nat) := fun ts => do
  let (n, ts) ← nat ts
  regsOnce n 0 ts

def fault : P Fault := fun ts => do
  let (t, ts) ← tok ts
  if t = "-" then pure (.none, ts)
  else
    let n ← (t.drop 2).toString.toNat?
    match (t.take 2).toString with
    | "lP" => pure (.load .P n, ts)
    | "lC" => pure (.load .C n, ts)
    | "pP" => pure (.persist .P n, ts)
    | "pC" => pure (.persist .C n, ts)
    | _ => none

def seg : P Seg := fun ts => do
  let (t, ts) ← tok ts
  match t with
  | "k" => let (k, ts) ← str ts; pure (.key k, ts)
  | "i" => let (i, ts) ← nat ts; pure (.idx i, ts)
  | _ => none

def tagEntry : P TagEntry := fun ts => do
  let (path, ts) ← counted seg ts
  let (t, ts) ← tok ts
  match t with
  | "s" => let (s, ts) ← str ts; pure (⟨path, .str s⟩, ts)
  | "t" => pure (⟨path, .bool true⟩, ts)
  | "f" => pure (⟨path, .bool false⟩, ts)
  | "n" => pure (⟨path, .nil⟩, ts)
  | "u" => pure (⟨path, .unsupported 0⟩, ts)
  | "S" => pure (⟨path, .unsupported 1⟩, ts)
  | "m" => pure (⟨path, .emptyMap⟩, ts)
  | "l" => pure (⟨path, .emptyList⟩, ts)
  | _ => none

def fields : P PFields := fun ts => do
  let (name, ts) ← str ts
  let (roles, ts) ← counted str ts
  let (r, ts) ← tok ts
  let ref ← if r = "~" then some none else (parseStr r).map some
  let (tags, ts) ← (match ts with
    | "G" :: ts => counted tagEntry ts
    | _ => some ([], ts) : Option (List TagEntry × List String))
  let (links, ts) ← (match ts with
    | "K" :: ts => counted str ts
    | _ => some ([], ts) : Option (List String × List String))
  pure ({ name := name, roles := roles, ref := ref, tags := tags, links := links }, ts)

def op : P Op := fun ts => do
  let (t, ts) ← tok ts
  match t with
  | "cr" =>
    let (σ, ts) ← store ts
    let (id, ts) ← str ts
    let (f, ts) ← fields ts
    let (rank, ts) ← str ts
    pure (.create σ id f rank, ts)
  | "up" =>
    let (σ, ts) ← store ts
    let (id, ts) ← str ts
    let (f, ts) ← fields ts
    let (rank, ts) ← str ts
    pure (.update σ id f rank, ts)
  | "de" =>
    let (σ, ts) ← store ts
    let (id, ts) ← str ts
    pure (.delete σ id, ts)
  | "dw" =>
    let (σ, ts) ← store ts
    let (q, ts) ← tok ts
    match q with
    | "all" => pure (.deleteWhere σ .all, ts)
    | "bad" => pure (.deleteWhere σ .bad, ts)
    | "name" =>
      let (n, ts) ← str ts
      pure (.deleteWhere σ (.nameEq n), ts)
    | _ => none
  | _ => none

def flag : P Bool := fun ts => do
  let (t, ts) ← tok ts
  match t with
  | "0" => pure (false, ts)
  | "1" => pure (true, ts)
  | _ => none

def step : P Step := fun ts => do
  let (t, ts) ← tok ts
  match t with
  | "op" =>
    let (sw, ts) ← flag ts
    let (f, ts) ← fault ts
    let (o, ts) ← op ts
    pure (.op o f sw, ts)
  | "fail" =>
    let (n, ts) ← nat ts
    pure (.fail n, ts)
  | "fail1" =>
    let (n, ts) ← nat ts
    pure (.fail1 n, ts)
  | "lk" =>
    let (o, ts) ← tok ts
    let op ← match o with
      | "a" => some LinkOp.add
      | "r" => some LinkOp.remove
      | "s" => some LinkOp.set
      | _ => none
    let (id, ts) ← str ts
    let (targets, ts) ← counted str ts
    pure (.link op id targets, ts)
  | "ac" =>
    let (n, ts) ← nat ts
    pure (.addCommit n, ts)
  | "ap" =>
    let (n, ts) ← nat ts
    let (f, ts) ← flag ts
    pure (.addPre n f, ts)
  | "nb" => pure (.nestedBegin, ts)
  | "nB" => pure (.nestedBegin, ts)
  | "ne" => pure (.nestedEnd, ts)
  | "sys" => pure (.useSystemCtx, ts)
  | _ => none

def txSpec : P TxSpec := fun ts => do
  let (t, ts) ← tok ts
  if t ≠ "tx" then none
  else
    let (m, ts) ← tok ts
    let mode ← match m with
      | "u" => some Mode.update
      | "b" => some Mode.batch
      | "r" => some Mode.raw
      | _ => none
    let (reuse, ts) ← flag ts
    let (body, ts) ← counted step ts
    pure ({ mode := mode, reuseCtx := reuse, body := body }, ts)

def schedTok (t : String) : Option Sched :=
  if t = "R" then some .round
  else if t.startsWith "S" then (t.drop 1).toString.toNat?.map Sched.solo
  else none

def member : P Member := fun ts => do
  let (t, ts) ← tok ts
  if t ≠ "mb" then none
  else
    let (fi, ts) ← nat ts
    let (fp, ts) ← nat ts
    let (body, ts) ← counted step ts
    pure ({ body := body, faultInv := fi, faultPos := fp, faultTag := 0 }, ts)

/-- the error tag of member k's injected fault on its n-th invocation -/
def faultTagOf (k n : Nat) : Nat := 900 + 10 * k + n

def tagMembers : Nat → List Member → List Member
  | _, [] => []
  | k, m :: rest => { m with faultTag := faultTagOf k m.faultInv } :: tagMembers (k + 1) rest

def hItem : P HItem := fun ts => do
  match ts with
  | "tx" :: m :: rest =>
    if m = "g" || m.startsWith "g:" then do
      let sched ← (if m = "g" then some none
        else (((m.drop 2).toString.splitOn ".").mapM schedTok).map some : Option (Option (List Sched)))
      let (reuse, ts) ← flag rest
      let (ms, ts) ← counted member ts
      pure (.group { reuseCtx := reuse, members := tagMembers 0 ms, sched := sched }, ts)
    else do
      let (t, ts) ← txSpec ts
      pure (.tx t, ts)
  | _ => none

structure Case where
  regsP : List Reg
  regsC : List Reg
  txListeners : Nat
  ixP : List IxReg
  ixC : List IxReg
  regsD : List Reg
  ixD : List IxReg
  onceP : List Nat
  onceC : List Nat
  onceD : List Nat
  txs : List HItem

def parseCase (line : String) : Option Case := do
  let ts := line.splitOn " "
  let (e, ts) ← tok ts
  if e ≠ "E" then none
  else
    let ts := match ts with | "S" :: r => r | _ => ts
    let ((rp, op), ts) ← countedRegs ts
    let ((rc, oc), ts) ← countedRegs ts
    let (txl, ts) ← nat ts
    let (t, ts) ← tok ts
    let ((ixp, ixc, t), ts) ←
      (if t = "I" then do
        let (ixp, ts) ← counted ixReg ts
        let (ixc, ts) ← counted ixReg ts
        let (t, ts) ← tok ts
        pure ((ixp, ixc, t), ts)
      else pure (([], [], t), ts) : Option ((List IxReg × List IxReg × String) × List String))
    let (((rd, od), ixd, t), ts) ←
      (if t = "D" then do
        let (rd, ts) ← countedRegs ts
        let (ixd, ts) ← counted ixReg ts
        let (t, ts) ← tok ts
        pure ((rd, ixd, t), ts)
      else pure ((([], []), [], t), ts) : Option (((List Reg × List Nat) × List IxReg × String) × List String))
    if t ≠ "T" then none
    else
      let (txs, ts) ← counted hItem ts
      if ts.isEmpty then
        pure { regsP := rp, regsC := rc, txListeners := txl, ixP := ixp, ixC := ixc, regsD := rd, ixD := ixd,
               onceP := op, onceC := oc, onceD := od, txs := txs }
      else none

/-! ## rendering -/

def safeChar (c : Char) : Bool := c.isAlphanum || c == '_'

def hexOfString (s : String) : String := Bytes.toHex (s.toList.map fun c => UInt8.ofNat c.toNat)

/-- short, injective enough rendering of a byte string -/
def abbr (s : String) : String :=
  if s.isEmpty then "-"
  else if s.length > 64 then
    "*" ++ toString s.length ++ ":" ++ hexOfString (String.ofList [s.toList.getLast!])
  else if s.toList.all safeChar then s
  else "x" ++ hexOfString s

def renderFields (f : PFields) : String :=
  abbr f.name ++ "/" ++ (if f.roles.isEmpty then "." else "+".intercalate (f.roles.map abbr)) ++ "/" ++
    (match f.ref with | none => "~" | some r => abbr r)

def renderEnt : Option EntView → String
  | none => "nil"
  | some (.parent id f) => "P:" ++ abbr id ++ "/" ++ renderFields f
  | some (.child id f r) => "C:" ++ abbr id ++ "/" ++ renderFields f ++ "/" ++ abbr r
  | some (.child2 id f g) => "D:" ++ abbr id ++ "/" ++ renderFields f ++ "/" ++ abbr g

def renderStore : StoreId → String
  | .P => "P"
  | .C => "C"
  | .D => "D"

def renderKind : Kind → String
  | .created => "c"
  | .updated => "u"
  | .deleted => "d"

def renderErr : Err → String
  | .blankId => "blank"
  | .alreadyExists => "exists"
  | .notFound => "notfound"
  | .dup => "dup"
  | .nullName => "null"
  | .key => "key"
  | .fkMissing => "fk"
  | .refExists => "refexists"
  | .veto σ i => "veto:" ++ renderStore σ ++ "." ++ toString i
  | .ixVeto σ i => "ixveto:" ++ renderStore σ ++ "." ++ toString i
  | .caller t => "caller:" ++ toString t
  | .preCommit t => "pre:" ++ toString t
  | .parse => "parse"
  | .load => "load"
  | .persist => "persist"
  | .unsupported => "unsupported"
  | .linkMissing => "fk"

def b01 (b : Bool) : String := if b then "1" else "0"

def renderPre (p : PreCall) : String :=
  renderStore p.store ++ "." ++ toString p.reg ++ "." ++ renderKind p.kind ++ "." ++ abbr p.id ++ "." ++ b01 p.parentEvent

def renderStage : Stage → String
  | .beforeUpdate => "b"
  | .afterUpdate => "a"
  | .beforeDelete => "d"

def renderIx (c : IxCall) : String :=
  "I." ++ renderStore c.store ++ "." ++ toString c.reg ++ "." ++ renderStage c.stage ++ "." ++ abbr c.id ++ "." ++ b01 c.isCreate

def renderLog : LogItem → String
  | .pre c => renderPre c
  | .ix c => renderIx c

def styleOf (env : Env) (σ : StoreId) (i : Nat) : Option Style :=
  match (env.regs σ)[i]? with
  | some (.listener s _) => some s
  | _ => none

/-- what the harness callback can observe of a delivery (an id-only listener sees just the id) -/
def renderDelivery (env : Env) (σ : StoreId) (i : Nat) (ent : Option EntView) : String :=
  "L." ++ renderStore σ ++ "." ++ toString i ++ "." ++
    (match styleOf env σ i, ent with
     | some .idOnly, some e => "id:" ++ abbr e.id
     | _, e => renderEnt e)

def renderFlow (fl : Flow) : String :=
  renderKind fl.kind ++ "." ++ abbr fl.id ++ "." ++ b01 fl.parentEvent ++ "." ++ renderEnt fl.initial ++ "." ++ renderEnt fl.final

def sortStr (l : List String) : List String := l.mergeSort leStr

def syncLog (env : Env) : List Fired → List String
  | [] => []
  | .listener σ i _ false _ ent :: rest => renderDelivery env σ i ent :: syncLog env rest
  | .post σ i fl :: rest => ("Q." ++ renderStore σ ++ "." ++ toString i ++ "." ++ renderFlow fl) :: syncLog env rest
  | .txComplete i :: rest => ("X." ++ toString i) :: syncLog env rest
  | _ :: rest => syncLog env rest

def asyncLog (env : Env) : List Fired → List String
  | [] => []
  | .listener σ i _ true _ ent :: rest => renderDelivery env σ i ent :: asyncLog env rest
  | _ :: rest => asyncLog env rest

def commitActionLog : List Fired → List String
  | [] => []
  | .commitActions tags :: rest =>
    if tags.isEmpty then commitActionLog rest
    else ".".intercalate ("A" :: tags.map toString) :: commitActionLog rest
  | _ :: rest => commitActionLog rest

def typed (s : String) : String := String.ofList [Char.ofNat 5] ++ s

/-- boltz.Int32ToBytes: type byte 2, little endian -/
def int32Bytes (n : Nat) : String :=
  String.ofList [Char.ofNat 2, Char.ofNat (n % 256), Char.ofNat (n / 256 % 256), Char.ofNat (n / 65536 % 256),
    Char.ofNat (n / 16777216 % 256)]

def listSizeKeyName : String := "__list__size__36484231-110c-4767-afe2-01b6e3db107a"

def segName : Seg → String
  | .key k => k
  | .idx i => int32Bytes i

def leafValue : Leaf → Option String
  | .str s => some (typed s)
  | .bool b => some (String.ofList [Char.ofNat 1, Char.ofNat (if b then 1 else 0)])
  | .nil => some (String.ofList [Char.ofNat 7])
  | _ => none

/-- the list buckets of a tags value with their sizes: every path prefix followed by an index, and every
    empty list -/
def listSizes (tags : List TagEntry) : List (List Seg × Nat) :=
  let rec prefixes (pre : List Seg) : List Seg → List (List Seg × Nat)
    | [] => []
    | .idx i :: rest => (pre, i + 1) :: prefixes (pre ++ [.idx i]) rest
    | .key k :: rest => prefixes (pre ++ [.key k]) rest
  let all := tags.flatMap fun e =>
    prefixes [] e.path ++ (match e.leaf with | .emptyList => [(e.path, 0)] | _ => [])
  let keys := (all.map (·.1)).eraseDups
  keys.map fun k => (k, ((all.filter fun p => p.1 == k).map (·.2)).foldl max 0)

/-- leaves of the `tags` bucket of an entity (PutMap / PutList with nesting) -/
def tagLeaves (base : String) (tags : List TagEntry) : List String :=
  let pathStr (p : List Seg) : String := "/".intercalate ("tags" :: p.map (fun s => abbr (segName s)))
  (tags.filterMap fun e => (leafValue e.leaf).map fun v => base ++ pathStr e.path ++ "=" ++ abbr v)
  ++ (listSizes tags).map fun p => base ++ pathStr p.1 ++ "/" ++ abbr listSizeKeyName ++ "=" ++ abbr (int32Bytes p.2)

/-- key/value leaves of the bucket tree (empty buckets do not show) -/
def dumpLeaves (db : Db) : List String :=
  let ent (p : String × Ent) : List String :=
    let base := "u/things/" ++ abbr p.1 ++ "/"
    [base ++ "name=" ++ abbr (typed p.2.f.name),
     base ++ "ref=" ++ (match p.2.f.ref with | none => abbr (String.ofList [Char.ofNat 7]) | some r => abbr (typed r))]
    ++ p.2.f.roles.map (fun r => base ++ "roles/" ++ abbr (typed r) ++ "=-")
    ++ tagLeaves base p.2.f.tags
    ++ p.2.f.links.map (fun q => base ++ "groups/" ++ abbr (typed q) ++ "=-")
    ++ p.2.f.links.map (fun q => "u/groups/" ++ abbr q ++ "/members/" ++ abbr (typed p.1) ++ "=-")
    ++ ((db.filter fun q => refBytes q.2.f.ref == p.1 && p.1 != "").map fun q => base ++ "backrefs/" ++ abbr (typed q.1) ++ "=-")
    ++ (match p.2.child with | none => [] | some r => [base ++ "ext/rank=" ++ abbr (typed r)])
    ++ (match p.2.child2 with | none => [] | some g => [base ++ "ext2/grade=" ++ abbr (typed g)])
    ++ ["u/indexes/things/name/" ++ abbr p.2.f.name ++ "=" ++ abbr p.1]
    ++ p.2.f.roles.map (fun r => "u/indexes/things/roles/" ++ abbr r ++ "/" ++ abbr (typed p.1) ++ "=-")
  -- the entities of the second root store exist from the start
  sortStr (db.flatMap ent ++ qIds.map fun q => "u/groups/" ++ abbr q ++ "/name=" ++ abbr (typed ("g_" ++ q)))

def renderList (l : List String) : String := "[" ++ ",".intercalate l ++ "]"

def renderDump (before after : Db) : String :=
  let a := dumpLeaves after
  if dumpLeaves before == a then "-" else renderList a

/-- full observation of one transaction (what the harness prints for the implementation) -/
def renderTx (env : Env) (before : Db) (o : TxOut) : String :=
  let r := match o.res with
    | .ok => "ok"
    | .err e => "err:" ++ renderErr e
  let dump := if o.inexact then "inexact" else renderDump before o.db
  " ".intercalate
    ["r=" ++ r, "same=" ++ b01 (dumpLeaves before == dumpLeaves o.db), "runs=" ++ toString o.runs,
     "pre=" ++ renderList (o.preLog.map renderLog), "pa=" ++ renderList (o.preRan.map toString),
     "sync=" ++ renderList (syncLog env o.fired), "async=" ++ renderList (sortStr (asyncLog env o.fired)),
     "ca=" ++ renderList (sortStr (commitActionLog o.fired)), "dump=" ++ dump]

/-- the part of the observation the properties speak about: outcome (no error kind), database,
    deliveries as multisets, commit actions, tx-complete calls -/
def renderSpecTx (env : Env) (before : Db) (o : Spec.SpecOut) : String :=
  if !o.specified then "unspecified"
  else
    " ".intercalate
      ["r=" ++ (if o.ok then "ok" else "err"), "same=" ++ b01 (dumpLeaves before == dumpLeaves o.db),
       "sync=" ++ renderList (sortStr (syncLog env o.fired)), "async=" ++ renderList (sortStr (asyncLog env o.fired)),
       "ca=" ++ renderList (sortStr (commitActionLog o.fired)), "dump=" ++ renderDump before o.db]

/-! ### batch groups -/

def txLabel (t : GTx) : String :=
  if t.solo then "S" ++ (match t.parts with | p :: _ => toString p.member | [] => "?") else "R"

def renderSeq (t : GTx) : String :=
  (if t.solo then txLabel t else "R" ++ ".".intercalate (t.invoked.map toString)) ++ (if t.committed then "+" else "-")

/-- the synchronous callbacks of one member's segment of the OnCommit list; a tx-complete listener is handed the
    member's MutateContext, so the harness can tell for which member it runs -/
def partSync (env : Env) (label : String) (p : Part) : List String :=
  (syncLog env p.out.fired).map fun e =>
    label ++ "@" ++ (if e.startsWith "X." then e ++ ".m" ++ toString p.member else e)

def groupSync (env : Env) (txs : List GTx) : List String :=
  (txs.filter (·.committed)).flatMap fun t => t.parts.flatMap (partSync env (txLabel t))

def groupFired (txs : List GTx) : List Fired := txs.flatMap GTx.fired

def groupResults (n : Nat) (s : GState) (kinds : Bool) : String :=
  "+".intercalate ((List.range n).map fun k =>
    match s.result k with
    | none => "none"
    | some .ok => "ok"
    | some (.err e) => if kinds then "err:" ++ renderErr e else "err")

def allParts (s : GState) : List Part := s.txs.flatMap (·.parts)

/-- full observation of a batch group (what the harness prints for the implementation) -/
def renderGroup (env : Env) (before : Db) (n : Nat) (s : GState) : String :=
  let inexact := s.txs.any fun t => t.committed && t.parts.any (·.out.inexact)
  let dump := if inexact then "inexact" else renderDump before s.db
  " ".intercalate
    ["g=" ++ toString n, "r=" ++ groupResults n s true, "same=" ++ b01 (dumpLeaves before == dumpLeaves s.db),
     "runs=" ++ "+".intercalate ((List.range n).map fun k => toString (s.invs k)),
     "seq=" ++ renderList (s.txs.map renderSeq),
     "pre=" ++ renderList ((allParts s).flatMap fun p => p.out.preLog.map renderLog),
     "pa=" ++ renderList ((allParts s).flatMap fun p => p.out.preRan.map toString),
     "sync=" ++ renderList (groupSync env s.txs), "async=" ++ renderList (sortStr (asyncLog env (groupFired s.txs))),
     "ca=" ++ renderList (sortStr (commitActionLog (groupFired s.txs))), "dump=" ++ dump]

def renderSpecGroup (env : Env) (before : Db) (n : Nat) (s : GState) : String :=
  if (allParts s).any (fun p => !p.out.specified) then "unspecified"
  else
    " ".intercalate
      ["g=" ++ toString n, "r=" ++ groupResults n s false, "same=" ++ b01 (dumpLeaves before == dumpLeaves s.db),
       "sync=" ++ renderList (sortStr (groupSync env s.txs)), "async=" ++ renderList (sortStr (asyncLog env (groupFired s.txs))),
       "ca=" ++ renderList (sortStr (commitActionLog (groupFired s.txs))), "dump=" ++ renderDump before s.db]

def renderHist (env : Env) : Db → List HOut → List String
  | _, [] => []
  | db, .tx o :: rest => renderTx env db o :: renderHist env o.db rest
  | db, .group n s :: rest => renderGroup env db n s :: renderHist env s.db rest

def renderSpecHist (env : Env) : Db → List SOut → List String
  | _, [] => []
  | db, .tx o :: rest => renderSpecTx env db o :: renderSpecHist env o.db rest
  | db, .group n s :: rest => renderSpecGroup env db n s :: renderSpecHist env s.db rest

def modelLine (t : CrudReturns) (line : String) : String :=
  match parseCase line with
  | none => "bad-case"
  | some c =>
    if !t.recognised then "model-unknown"
    else
      let env : Env := { regsP := c.regsP, regsC := c.regsC, txListeners := c.txListeners, t := t, ixP := c.ixP, ixC := c.ixC, regsD := c.regsD, ixD := c.ixD, onceP := c.onceP, onceC := c.onceC, onceD := c.onceD }
      " | ".intercalate (renderHist env [] (runHist env c.txs [] Ctx.empty))

def specLine (line : String) : String :=
  match parseCase line with
  | none => "bad-case"
  | some c =>
    let env : Env := { regsP := c.regsP, regsC := c.regsC, txListeners := c.txListeners, t := expectedReturns, ixP := c.ixP, ixC := c.ixC, regsD := c.regsD, ixD := c.ixD, onceP := c.onceP, onceC := c.onceC, onceD := c.onceD }
    " | ".intercalate (renderSpecHist env [] (specHist env c.txs [] Ctx.empty))

end StorageModel.Tx.Wire
