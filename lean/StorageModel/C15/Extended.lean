import StorageModel.C15.General
import StorageModel.C15.Cursor
import StorageModel.C15.Order
/-
  C15 — the full operation set (round 2):

  * writes whose shared fields the *parent's entity strategy* refuses.  A strategy reports a
    failure on the bucket of its persist context (`ctx.Bucket.SetError`, `SetRequiredString`, a
    refused bbolt put …); `PersistContext.GetParentContext` makes the parent bucket share the
    child bucket's error holder, so `Create` (`if bucket.HasError() { return … }` right after
    `PersistEntity`) and `Update` (`return bucket.Err`; the index constraints are no-ops once
    the shared holder has an error) report it whichever store the write was issued through.
    The strategy of the check's parent store refuses the reserved name 9 and more than three
    roles, each only when the field checker lets the field be written (`validateShared`).
    `createV` / `updateV` = `createM` / `updateM` with the strategy's verdict at the place the
    code has it: after the pre-checks (blank id, exists / not found), before the indexes.

  * `DeleteWhere(query)` through any store: `store.QueryIds(query)`, then
    `store.impl.DeleteById` for every id returned (`deleteWhereM`).

  `OpX`, `stepOpX`, `runX` are the histories over this operation set; `specOpX` the table
  specification.  The refinement and the invariant are re-established for all `runX` histories
  from the per-operation results of Refine.lean.
-/
namespace StorageModel.C15

/-! ## the parent strategy's validation of the shared fields -/

def reservedName : Val := 9
def maxRoles : Nat := 3

/-- what the parent strategy's `PersistEntity` leaves on the (shared) error holder:
    `if ctx.ProceedWithSet("name") && name is reserved`, then
    `if ctx.ProceedWithSet("roles") && len(roles) > 3` — first error wins -/
def validateShared (p : Payload) (chk : Option Checker) : Option Err :=
  if proceed chk (·.name) && p.name == reservedName then some .invalidName
  else if proceed chk (·.roles) && decide (p.roles.length > maxRoles) then some .invalidRoles
  else none

/-- the checks of `BaseStore.Create` before anything is persisted -/
def createPre (ents : Ents) (s : Sel) (id : Id) : Option Err :=
  if id = 0 then some .blank
  else
    match mget ents id with
    | some e => if e.hasChild s then some .exists_ else none
    | none => none

/-- the checks of `BaseStore.Update` (through `s`, or through the child store the parent
    delegates to) before anything is persisted -/
def updatePre (ents : Ents) (s : Sel) (id : Id) : Option Err :=
  if id = 0 then some .blank
  else
    match mget ents id with
    | none => some .notfound
    | some e => if e.hasChild s then none else some .notfound

/-- `BaseStore.Create` with the strategy's verdict -/
def createV (cfg : Cfg) (st : St) (s : Sel) (id : Id) (p : Payload) : Except Err St :=
  match createPre st.ents s id with
  | some e => .error e
  | none =>
    match validateShared p none with
    | some e => .error e
    | none => createM cfg st s id p

/-- `BaseStore.Update` with the strategy's verdict; `upd` = `updateM` (or `updateMOrd`) -/
def updateVWith (upd : St → Sel → Id → Payload → Option Checker → Except Err St)
    (st : St) (s : Sel) (id : Id) (p : Payload) (chk : Option Checker) : Except Err St :=
  match updatePre st.ents s id with
  | some e => .error e
  | none =>
    match validateShared p chk with
    | some e => .error e
    | none => upd st s id p chk

def updateV := updateVWith updateM

/-- `DeleteById` for every id of a list, in order -/
def deleteAllWith (del : St → Sel → Id → Except Err St) (st : St) (s : Sel) : List Id → Except Err St
  | [] => .ok st
  | id :: rest =>
    match del st s id with
    | .ok st' => deleteAllWith del st' s rest
    | .error e => .error e

/-- `BaseStore.DeleteWhere` through store `s`: the ids *this* store's `QueryIds` returns -/
def deleteWhereWith (del : St → Sel → Id → Except Err St) (st : St) (s : Sel) (f : Filter) : Except Err St :=
  deleteAllWith del st s (queryIds st s f)

def deleteWhereM := deleteWhereWith deleteM

inductive OpX
  | create (s : Sel) (id : Id) (p : Payload)
  | update (s : Sel) (id : Id) (p : Payload) (chk : Option Checker)
  | delete (s : Sel) (id : Id)
  | deleteWhere (s : Sel) (f : Filter)
  deriving DecidableEq, Repr

def stepOpXWith (upd : St → Sel → Id → Payload → Option Checker → Except Err St)
    (del : St → Sel → Id → Except Err St) (cfg : Cfg) (st : St) : OpX → Except Err St
  | .create s id p => createV cfg st s id p
  | .update s id p chk => updateVWith upd st s id p chk
  | .delete s id => del st s id
  | .deleteWhere s f => deleteWhereWith del st s f

def stepOpX := stepOpXWith updateM deleteM
/-- the same with the child stores registered in the order `childOrder a2First` -/
def stepOpXOrd (a2First : Bool) := stepOpXWith (updateMOrd a2First) (deleteMOrd a2First)

def stepOpsX (cfg : Cfg) (st : St) : List OpX → Except Err St
  | [] => .ok st
  | op :: rest =>
    match stepOpX cfg st op with
    | .ok st' => stepOpsX cfg st' rest
    | .error e => .error e

def stepTxX (cfg : Cfg) (st : St) (tx : List OpX) : St :=
  match stepOpsX cfg st tx with
  | .ok st' => st'
  | .error _ => st

def runX (cfg : Cfg) (st : St) (hist : List (List OpX)) : St := hist.foldl (stepTxX cfg) st

/-- entity events of a successful operation; `ev` = `eventsOf` (or `eventsOfOrd`) -/
def eventsOfXWith (ev : St → Op → List Ev) (st : St) : OpX → List Ev
  | .create s id p => ev st (.create s id p)
  | .update s id p chk => ev st (.update s id p chk)
  | .delete s id => ev st (.delete s id)
  | .deleteWhere s f => (queryIds st s f).flatMap fun id => ev st (.delete s id)

/-! ## the specification -/

def specCreateV (ents : Ents) (s : Sel) (id : Id) (p : Payload) : Except Err Ents :=
  match createPre ents s id with
  | some e => .error e
  | none =>
    match validateShared p none with
    | some e => .error e          -- what the parent store refuses is refused through every store
    | none => specCreate ents s id p

def specUpdateV (ents : Ents) (s : Sel) (id : Id) (p : Payload) (chk : Option Checker) : Except Err Ents :=
  match updatePre ents s id with
  | some e => .error e
  | none =>
    match validateShared p chk with
    | some e => .error e
    | none => specUpdate ents s id p chk

/-- delete-by-filter through store `s` removes exactly the entities `s` owns that match -/
def specDeleteWhere (ents : Ents) (s : Sel) (f : Filter) : Ents :=
  (ownedIds ents s false f).foldl mdel ents

def specOpX (ents : Ents) : OpX → Except Err Ents
  | .create s id p => specCreateV ents s id p
  | .update s id p chk => specUpdateV ents s id p chk
  | .delete _ id => specDelete ents id
  | .deleteWhere s f => .ok (specDeleteWhere ents s f)

def specOpsX (ents : Ents) : List OpX → Except Err Ents
  | [] => .ok ents
  | op :: rest =>
    match specOpX ents op with
    | .ok e' => specOpsX e' rest
    | .error e => .error e

def specTxX (ents : Ents) (tx : List OpX) : Ents :=
  match specOpsX ents tx with
  | .ok e' => e'
  | .error _ => ents

def specRunX (ents : Ents) (hist : List (List OpX)) : Ents := hist.foldl specTxX ents

/-! ## pre-checks agree with the operations they guard -/

theorem createM_of_pre (cfg : Cfg) (st : St) (s : Sel) (id : Id) (p : Payload) (e : Err)
    (h : createPre st.ents s id = some e) : createM cfg st s id p = .error e := by
  unfold createPre at h
  unfold createM isEntityPresent
  by_cases hid : id = 0
  · simp only [hid, if_true] at h ⊢; cases h; rfl
  · simp only [hid, if_false] at h ⊢
    cases hm : mget st.ents id with
    | none => simp [hm] at h
    | some b =>
      simp only [hm] at h ⊢
      by_cases hb : b.hasChild s = true
      · simp only [hb, if_true] at h ⊢; cases h; rfl
      · simp [hb] at h

theorem specCreate_of_pre (ents : Ents) (s : Sel) (id : Id) (p : Payload) (e : Err)
    (h : createPre ents s id = some e) : specCreate ents s id p = .error e := by
  unfold createPre at h
  unfold specCreate
  by_cases hid : id = 0
  · simp only [hid, if_true] at h ⊢; cases h; rfl
  · simp only [hid, if_false] at h ⊢
    cases hm : mget ents id with
    | none => simp [hm] at h
    | some b =>
      simp only [hm] at h ⊢
      by_cases hb : b.hasChild s = true
      · simp only [hb, if_true] at h; cases h; simp [hb]
      · simp [hb] at h

/-! ## refinement, operation by operation -/

theorem createV_refines (cfg : Cfg) (hcfg : cfg.childCreateCapturesOld = true) (st : St) (hinv : Inv st)
    (s : Sel) (id : Id) (p : Payload) :
    match specCreateV st.ents s id p with
    | .error e => createV cfg st s id p = .error e
    | .ok ents' => ∃ st', createV cfg st s id p = .ok st' ∧ st'.ents = ents' ∧ Inv st' := by
  unfold specCreateV createV
  cases createPre st.ents s id with
  | some e => rfl
  | none =>
    cases validateShared p none with
    | some e => rfl
    | none => exact createM_refines cfg st hinv s id p (Or.inl hcfg)

theorem updateV_refines (st : St) (hinv : Inv st) (s : Sel) (id : Id) (p : Payload) (chk : Option Checker) :
    match specUpdateV st.ents s id p chk with
    | .error e => updateV st s id p chk = .error e
    | .ok ents' => ∃ st', updateV st s id p chk = .ok st' ∧ st'.ents = ents' ∧ Inv st' := by
  unfold specUpdateV updateV updateVWith
  cases updatePre st.ents s id with
  | some e => rfl
  | none =>
    cases validateShared p chk with
    | some e => rfl
    | none => exact updateM_refines st hinv s id p chk

/-- deleting, one after the other, a duplicate-free list of existing ids: never fails, removes
    exactly these entities, keeps the invariant -/
theorem deleteAll_refines (s : Sel) (l : List Id) (st : St) (hinv : Inv st) (hnd : l.Nodup)
    (hex : ∀ id ∈ l, ∃ e, mget st.ents id = some e) :
    ∃ st', deleteAllWith deleteM st s l = .ok st' ∧ st'.ents = l.foldl mdel st.ents ∧ Inv st' := by
  induction l generalizing st with
  | nil => exact ⟨st, rfl, rfl, hinv⟩
  | cons x t ih =>
    obtain ⟨e, he⟩ := hex x (by simp)
    have hd := deleteM_refines st hinv s x
    simp only [specDelete, he] at hd
    obtain ⟨st1, h1, h2, h3⟩ := hd
    obtain ⟨hx, ht⟩ := List.nodup_cons.1 hnd
    have hex1 : ∀ id ∈ t, ∃ e, mget st1.ents id = some e := by
      intro id hid
      obtain ⟨e', he'⟩ := hex id (List.mem_cons_of_mem _ hid)
      refine ⟨e', ?_⟩
      have hne : ¬ x = id := fun h => hx (h ▸ hid)
      rw [h2, mget_mdel, if_neg hne]; exact he'
    obtain ⟨st', h4, h5, h6⟩ := ih st1 h3 ht hex1
    refine ⟨st', ?_, ?_, h6⟩
    · simp only [deleteAllWith, h1]; exact h4
    · rw [h5, h2]; rfl

theorem pairwise_lt_nodup (l : List Nat) (h : l.Pairwise (· < ·)) : l.Nodup :=
  h.imp (fun hab => Nat.ne_of_lt hab)

theorem ownedIds_pairwise (ents : Ents) (s : Sel) (v : Bool) (f : Filter) :
    (ownedIds ents s v f).Pairwise (· < ·) := (canon_pairwise _).filter _

theorem deleteWhere_refines (st : St) (hinv : Inv st) (s : Sel) (f : Filter) :
    ∃ st', deleteWhereM st s f = .ok st' ∧ st'.ents = specDeleteWhere st.ents s f ∧ Inv st' := by
  unfold deleteWhereM deleteWhereWith specDeleteWhere
  rw [queryIds_eq_owned]
  refine deleteAll_refines s _ st hinv (pairwise_lt_nodup _ (ownedIds_pairwise _ _ _ _)) ?_
  intro id hid
  obtain ⟨e, he, _⟩ := (mem_ownedIds _ _ _ _ _).1 hid
  exact ⟨e, he⟩

theorem stepOpX_refines (cfg : Cfg) (hcfg : cfg.childCreateCapturesOld = true) (st : St) (hinv : Inv st) (op : OpX) :
    match specOpX st.ents op with
    | .error e => stepOpX cfg st op = .error e
    | .ok ents' => ∃ st', stepOpX cfg st op = .ok st' ∧ st'.ents = ents' ∧ Inv st' := by
  cases op with
  | create s id p => exact createV_refines cfg hcfg st hinv s id p
  | update s id p chk => exact updateV_refines st hinv s id p chk
  | delete s id => exact deleteM_refines st hinv s id
  | deleteWhere s f => exact deleteWhere_refines st hinv s f

theorem stepOpsX_refines (cfg : Cfg) (hcfg : cfg.childCreateCapturesOld = true) (ops : List OpX) (st : St)
    (hinv : Inv st) :
    match specOpsX st.ents ops with
    | .error e => stepOpsX cfg st ops = .error e
    | .ok ents' => ∃ st', stepOpsX cfg st ops = .ok st' ∧ st'.ents = ents' ∧ Inv st' := by
  induction ops generalizing st with
  | nil => exact ⟨st, rfl, rfl, hinv⟩
  | cons op rest ih =>
    have h1 := stepOpX_refines cfg hcfg st hinv op
    simp only [specOpsX, stepOpsX]
    cases hs : specOpX st.ents op with
    | error e =>
      simp only [hs] at h1
      simp only [h1]
    | ok ents1 =>
      simp only [hs] at h1
      obtain ⟨st1, hst1, hents1, hinv1⟩ := h1
      have h2 := ih st1 hinv1
      rw [hents1] at h2
      simp only [hst1]
      exact h2

theorem stepTxX_refines (cfg : Cfg) (hcfg : cfg.childCreateCapturesOld = true) (tx : List OpX) (st : St)
    (hinv : Inv st) : (stepTxX cfg st tx).ents = specTxX st.ents tx ∧ Inv (stepTxX cfg st tx) := by
  have h := stepOpsX_refines cfg hcfg tx st hinv
  unfold stepTxX specTxX
  cases hs : specOpsX st.ents tx with
  | error e => simp only [hs] at h; simp [h, hinv]
  | ok ents' =>
    simp only [hs] at h
    obtain ⟨st', h1, h2, h3⟩ := h
    simp [h1, h2, h3]

theorem runX_refines (cfg : Cfg) (hcfg : cfg.childCreateCapturesOld = true) (hist : List (List OpX)) (st : St)
    (hinv : Inv st) : (runX cfg st hist).ents = specRunX st.ents hist ∧ Inv (runX cfg st hist) := by
  induction hist generalizing st with
  | nil => exact ⟨rfl, hinv⟩
  | cons tx rest ih =>
    obtain ⟨h1, h2⟩ := stepTxX_refines cfg hcfg tx st hinv
    have := ih (stepTxX cfg st tx) h2
    simp only [runX, specRunX, List.foldl_cons] at this ⊢
    rw [h1] at this
    exact this

/-! ## what `DeleteWhere` removes -/

theorem mget_foldl_mdel (l : List Id) (ents : Ents) (j : Id) :
    mget (l.foldl mdel ents) j = if j ∈ l then none else mget ents j := by
  induction l generalizing ents with
  | nil => simp
  | cons x t ih =>
    simp only [List.foldl_cons, ih, mget_mdel, List.mem_cons]
    by_cases hjt : j ∈ t
    · simp [hjt]
    · by_cases hxj : x = j
      · simp [hxj]
      · have : ¬ j = x := fun h => hxj h.symm
        simp [hjt, hxj, this]

/-! ## registration order -/

theorem stepOpXOrd_order_irrelevant (a2First : Bool) (cfg : Cfg) (st : St) (op : OpX) :
    stepOpXOrd a2First cfg st op = stepOpX cfg st op := by
  have hu : updateMOrd a2First = updateM := by
    funext st s id p chk; exact updateMOrd_order_irrelevant a2First st s id p chk
  have hd : deleteMOrd a2First = deleteM := by
    funext st s id; exact deleteMOrd_order_irrelevant a2First st s id
  unfold stepOpXOrd stepOpX
  rw [hu, hd]

/-! ## validation -/

theorem validateShared_child_irrelevant (p : Payload) (c : Option Val) (chk : Option Checker) :
    validateShared { p with child := c } chk = validateShared p chk := rfl

/-- with valid shared fields the validated operations are the plain ones -/
theorem createV_of_valid (cfg : Cfg) (st : St) (s : Sel) (id : Id) (p : Payload)
    (hv : validateShared p none = none) : createV cfg st s id p = createM cfg st s id p := by
  unfold createV
  cases hp : createPre st.ents s id with
  | some e => simp only [createM_of_pre cfg st s id p e hp]
  | none => simp only [hv]

theorem createV_ok (cfg : Cfg) (st : St) (s : Sel) (id : Id) (p : Payload) (st' : St)
    (h : createV cfg st s id p = .ok st') :
    createM cfg st s id p = .ok st' ∧ validateShared p none = none := by
  unfold createV at h
  cases hp : createPre st.ents s id with
  | some e => simp [hp] at h
  | none =>
    simp only [hp] at h
    cases hv : validateShared p none with
    | some e => simp [hv] at h
    | none => simp only [hv] at h; exact ⟨h, rfl⟩

theorem updateV_ok (st : St) (s : Sel) (id : Id) (p : Payload) (chk : Option Checker) (st' : St)
    (h : updateV st s id p chk = .ok st') :
    updateM st s id p chk = .ok st' ∧ validateShared p chk = none := by
  unfold updateV updateVWith at h
  cases hp : updatePre st.ents s id with
  | some e => simp [hp] at h
  | none =>
    simp only [hp] at h
    cases hv : validateShared p chk with
    | some e => simp [hv] at h
    | none => simp only [hv] at h; exact ⟨h, rfl⟩

/-- with the pre-checks passed and valid shared fields, `updateV` is `updateM` -/
theorem updateV_of_valid (st : St) (s : Sel) (id : Id) (p : Payload) (chk : Option Checker)
    (hp : updatePre st.ents s id = none) (hv : validateShared p chk = none) :
    updateV st s id p chk = updateM st s id p chk := by
  simp only [updateV, updateVWith, hp, hv]

/-- the operations of Model.lean as operations of the full set -/
def OpX.ofOp : Op → OpX
  | .create s id p => .create s id p
  | .update s id p chk => .update s id p chk
  | .delete s id => .delete s id

theorem stepOpX_ofOp_ok (cfg : Cfg) (st st' : St) (op : Op) (h : stepOpX cfg st (.ofOp op) = .ok st') :
    stepOp cfg st op = .ok st' := by
  cases op with
  | create s id p => exact (createV_ok cfg st s id p st' h).1
  | update s id p chk => exact (updateV_ok st s id p chk st' h).1
  | delete s id => exact h

/-- an operation that fails leaves the state as it was: its transaction is rolled back -/
theorem stepTxX_of_error (cfg : Cfg) (st : St) (op : OpX) (rest : List OpX) (e : Err)
    (h : stepOpX cfg st op = .error e) : stepTxX cfg st (op :: rest) = st := by
  simp [stepTxX, stepOpsX, h]

theorem updateChildM_of_pre (st : St) (s : Sel) (id : Id) (p : Payload) (chk : Option Checker) (e : Err)
    (h : updatePre st.ents s id = some e) : updateChildM st s id p chk = .error e := by
  unfold updatePre at h
  unfold updateChildM bucketForLoad
  by_cases hid : id = 0
  · simp only [hid, if_true] at h ⊢; cases h; rfl
  · simp only [hid, if_false] at h ⊢
    cases hm : mget st.ents id with
    | none => simp only [hm] at h ⊢; cases h; rfl
    | some b =>
      simp only [hm] at h ⊢
      by_cases hb : b.hasChild s = true
      · simp [hb] at h
      · simp only [hb, Bool.false_eq_true, if_false] at h ⊢; cases h
        cases s.isExtended <;> simp [hb]

/-- the pre-checks are `updateM`'s own: where they fail, `updateM` fails alike (so `updateV` is
    `updateM` with the strategy's verdict inserted after them) -/
theorem updateM_of_pre (st : St) (s : Sel) (id : Id) (p : Payload) (chk : Option Checker) (e : Err)
    (h : updatePre st.ents s id = some e) : updateM st s id p chk = .error e := by
  cases s with
  | A1 => exact updateChildM_of_pre st .A1 id p chk e h
  | A2 => exact updateChildM_of_pre st .A2 id p chk e h
  | A =>
    unfold updateM
    simp only
    cases hm : mget st.ents id with
    | none =>
      have h1 : isEntityPresent st .A1 id = false := by simp [isEntityPresent, hm]
      have h2 : isEntityPresent st .A2 id = false := by simp [isEntityPresent, hm]
      simp only [h1, h2, Bool.false_eq_true, if_false]
      unfold updatePre at h
      by_cases hid : id = 0
      · simp only [hid, if_true] at h ⊢; cases h; rfl
      · simp only [hid, if_false, hm] at h ⊢; cases h; rfl
    | some b =>
      have hid : id = 0 := by
        unfold updatePre at h
        by_cases hid : id = 0
        · exact hid
        · simp [hid, hm, Ent.hasChild] at h
      have he : e = .blank := by
        unfold updatePre at h; simp only [hid, if_true] at h; cases h; rfl
      subst he
      have p1 : isEntityPresent st .A1 id = b.hasChild .A1 := by simp [isEntityPresent, hm]
      have p2 : isEntityPresent st .A2 id = b.hasChild .A2 := by simp [isEntityPresent, hm]
      rw [p1, p2]
      by_cases h1 : b.hasChild .A1 = true
      · have hf : findById st .A1 id = some (b.name, b.roles, b.childField .A1) := by
          simp [findById, bucketForLoad, hm, h1]
        rw [hid] at hf
        simp [h1, hf, updateChildM, hid]
      · by_cases h2 : b.hasChild .A2 = true
        · have hf : findById st .A2 id = some (b.name, b.roles, b.childField .A2) := by
            simp [findById, bucketForLoad, hm, h2]
          rw [hid] at hf
          simp [h1, h2, hf, updateChildM, hid]
        · simp [h1, h2, hid]
/-! ## every lookup API of a store (store_crud.go: the methods taking an id)

  `FindById`, `LoadById` and `LoadEntity` each resolve the bucket with `getEntityBucketForLoad`
  (the child's data bucket; an extended store falls back to the parent's entity bucket) and fill
  an entity from it; `IsEntityPresent` and `GetEntityBucket != nil` look at the store's own data
  bucket only. -/

abbrev Found := Val × List Val × Option Val

/-- `LoadById`: not-found error instead of `found = false` -/
def loadById (st : St) (s : Sel) (id : Id) : Except Err Found :=
  match bucketForLoad st s id with
  | none => .error .notfound
  | some e => .ok (e.name, e.roles, e.childField s)

/-- `LoadEntity`: fills the caller's entity, reports whether it was found -/
def loadEntity (st : St) (s : Sel) (id : Id) : Option Found :=
  match bucketForLoad st s id with
  | none => none
  | some e => some (e.name, e.roles, e.childField s)

/-- `GetEntityBucket(tx, id) != nil` -/
def entityBucketNonNil (st : St) (s : Sel) (id : Id) : Bool :=
  match mget st.ents id with
  | none => false
  | some e => e.hasChild s

/-- the specification: the one predicate "store `s` owns the entity" decides every lookup —
    what a lookup through `s` returns for `id` -/
def ownedLookup (ents : Ents) (s : Sel) (id : Id) : Option Found :=
  match mget ents id with
  | some e => if ownsEnt s false e then some (e.name, e.roles, e.childField s) else none
  | none => none

/-- … and whether `s` has data of its own for `id` -/
def ownsData (ents : Ents) (s : Sel) (id : Id) : Bool :=
  match mget ents id with
  | some e => ownsEnt s true e
  | none => false

theorem findById_eq_owned (st : St) (s : Sel) (id : Id) : findById st s id = ownedLookup st.ents s id := by
  unfold findById bucketForLoad ownedLookup ownsEnt
  cases mget st.ents id with
  | none => rfl
  | some e =>
    cases s
    · rfl
    · by_cases h : e.c1.isSome = true <;> simp [Sel.isExtended, Ent.hasChild, h]
    · by_cases h : e.c2.isSome = true <;> simp [Sel.isExtended, Ent.hasChild, h]

end StorageModel.C15
