import StorageModel.C15.Cursor
/-
  C15 — paged walks (round 10): the filter handed to `IterateIds` / `IterateValidIds` is a compiled
  `ast.Query` carrying `skip` / `limit`.

  boltz/query_scanners.go  scanner.setPaging (targetOffset, targetLimit), newFilteredCursor
                           (`if query, ok := filter.(ast.Query); ok { result.setPaging(query) }`),
                           uniqueIndexScanner.Next with its offset / collected accounting   `pscanNext`, `PScanCur`
                           uniqueIndexScanner.ScanCursor (QueryIds: nextUnpaged + the paging
                           of the caller's loop, count = every matching row)                `pageLoop`, `queryIdsPaged`

  The specification (`PListCur`) is a position in the list of the ids the store OWNS together with
  the two budgets of the page: `skip` is used up by owned rows only, `limit` counts rows handed out.
  For a walk without seeks that is the list cursor over `(owned.drop skip).take limit`
  (`PListCur.trace_nexts`), the list `QueryIds` returns for the same query (`queryIdsPaged_spec`).
-/
namespace StorageModel.C15

/-- `setPaging`: `targetOffset` (negative ⇒ 0) and `targetLimit` (`none` = absent or negative ⇒ MaxInt64) -/
structure Page where
  skip : Nat
  limit : Option Nat
  deriving DecidableEq, Repr

/-- `scanner.collected >= scanner.targetLimit` -/
def Page.full (pg : Page) (collected : Nat) : Bool :=
  match pg.limit with
  | some l => decide (l ≤ collected)
  | none => false

/-- the loop of `uniqueIndexScanner.Next`, paging included, over what is left of the wrapped
    cursor; arguments `scanner.offset`, `scanner.collected`.
    Result: (what is left of the wrapped cursor, `scanner.current`, offset, collected).
    Order of the Go loop: wrapped cursor exhausted ⇒ nil; limit reached ⇒ nil (the wrapped cursor
    is not advanced); take the key, advance; child-store rule; filter; a matching row uses up
    the offset first, otherwise it is handed out and counted. -/
def pscanNext (st : St) (s : Sel) (f : Filter) (pg : Page) :
    Nat → Nat → List Id → List Id × Option Id × Nat × Nat
  | off, col, [] => ([], none, off, col)
  | off, col, id :: rest =>
    if pg.full col then (id :: rest, none, off, col)
    else if s.isChildStore && !isEntityPresent st s id && !s.isExtended then pscanNext st s f pg off col rest
    else
      match mget st.ents id with
      | some e =>
        if f.eval e then
          if off < pg.skip then pscanNext st s f pg (off + 1) col rest
          else (rest, some id, off, col + 1)
        else pscanNext st s f pg off col rest
      | none => pscanNext st s f pg off col rest

/-- `uniqueIndexScanner` handed out by `newFilteredCursor` for an `ast.Query` -/
structure PScanCur where
  under : BoltCur
  current : Option Id
  offset : Nat
  collected : Nat
  deriving DecidableEq, Repr

/-- `uniqueIndexScanner.Next` -/
def PScanCur.next (st : St) (s : Sel) (f : Filter) (pg : Page) (c : PScanCur) : PScanCur :=
  let r := pscanNext st s f pg c.offset c.collected c.under.rest
  ⟨{ c.under with rest := r.1 }, r.2.1, r.2.2.1, r.2.2.2⟩

/-- `uniqueIndexScanner.Seek` (seekable wrapped cursor): `Seek(val); Next()` — offset and collected
    are the scanner's, they survive the seek -/
def PScanCur.seek (st : St) (s : Sel) (f : Filter) (pg : Page) (c : PScanCur) (v : Id) : PScanCur :=
  PScanCur.next st s f pg { c with under := c.under.seek v }

/-- `IterateIds(tx, query)`; `IterateValidIds` of a store that is not extended returns this cursor -/
def iterateIdsPaged (st : St) (s : Sel) (f : Filter) (pg : Page) : PScanCur :=
  PScanCur.next st s f pg ⟨BoltCur.first (idsInOrder st), none, 0, 0⟩

def PScanCur.step (st : St) (s : Sel) (f : Filter) (pg : Page) (c : PScanCur) : Step → PScanCur
  | .next => c.next st s f pg
  | .seek v => c.seek st s f pg v

def PScanCur.trace (st : St) (s : Sel) (f : Filter) (pg : Page) : PScanCur → List Step → List (Option Id)
  | c, [] => [c.current]
  | c, x :: xs => c.current :: PScanCur.trace st s f pg (c.step st s f pg x) xs

/-- the caller's loop of `uniqueIndexScanner.ScanCursor` over the rows `nextUnpaged` delivers -/
def pageLoop (pg : Page) : Nat → Nat → List Id → List Id
  | _, _, [] => []
  | off, col, id :: rows =>
    if off < pg.skip then pageLoop pg (off + 1) col rows
    else if !pg.full col then id :: pageLoop pg off (col + 1) rows
    else pageLoop pg off col rows

/-- `QueryIds(query)` without sort: (ids of the page, `count` = every row of the store matching) -/
def queryIdsPaged (st : St) (s : Sel) (f : Filter) (pg : Page) : List Id × Nat :=
  let rows := queryIds st s f
  (pageLoop pg 0 0 rows, rows.length)

/-! ## the specification -/

/-- the page of a list -/
def Page.of (pg : Page) (l : List Id) : List Id :=
  match pg.limit with
  | some n => (l.drop pg.skip).take n
  | none => l.drop pg.skip

/-- move on inside the rows still to come: nothing left ⇒ invalid; limit used up ⇒ invalid;
    otherwise drop as many rows as the skip budget still asks for and rest on the next one.
    Result: (current, rows after it, skip budget left, rows handed out) -/
def padvance (pg : Page) (skipLeft col : Nat) (rows : List Id) : Option Id × List Id × Nat × Nat :=
  match rows with
  | [] => (none, [], skipLeft, col)
  | _ :: _ =>
    if pg.full col then (none, rows, skipLeft, col)
    else
      match rows.drop skipLeft with
      | [] => (none, [], skipLeft - rows.length, col)
      | x :: r => (some x, r, 0, col + 1)

structure PListCur where
  all : List Id
  cur : Option Id
  rows : List Id
  skipLeft : Nat
  col : Nat
  deriving DecidableEq, Repr

def PListCur.adv (pg : Page) (c : PListCur) (rows : List Id) : PListCur :=
  let r := padvance pg c.skipLeft c.col rows
  { c with cur := r.1, rows := r.2.1, skipLeft := r.2.2.1, col := r.2.2.2 }

def PListCur.start (pg : Page) (l : List Id) : PListCur :=
  PListCur.adv pg ⟨l, none, l, pg.skip, 0⟩ l

def PListCur.step (pg : Page) (c : PListCur) : Step → PListCur
  | .next => c.adv pg c.rows
  | .seek v => c.adv pg (c.all.dropWhile (· < v))

def PListCur.trace (pg : Page) : PListCur → List Step → List (Option Id)
  | c, [] => [c.cur]
  | c, x :: xs => c.cur :: PListCur.trace pg (c.step pg x) xs

/-! ## the scanner's loop is `padvance` on the rows the store owns -/

theorem padvance_skip_cons (pg : Page) (k col : Nat) (x : Id) (rows : List Id) (hf : pg.full col = false) :
    padvance pg (k + 1) col (x :: rows) = padvance pg k col rows := by
  cases rows with
  | nil => simp [padvance, hf]
  | cons y t =>
    simp only [padvance, hf, Bool.false_eq_true, if_false, List.drop_succ_cons, List.length_cons]
    cases hd : List.drop k (y :: t) with
    | nil =>
      have hlen : (y :: t).length ≤ k := by
        have := congrArg List.length hd
        simp only [List.length_drop, List.length_nil] at this
        omega
      simp only [List.length_cons] at hlen
      simp only [Prod.mk.injEq, true_and, and_true]
      omega
    | cons a b => rfl

theorem pscanNext_spec (st : St) (s : Sel) (f : Filter) (pg : Page) (off col : Nat) (l : List Id) :
    let r := pscanNext st s f pg off col l
    (r.2.1, r.1.filter (rowOk st s f), pg.skip - r.2.2.1, r.2.2.2) =
      padvance pg (pg.skip - off) col (l.filter (rowOk st s f)) := by
  induction l generalizing off col with
  | nil => simp [pscanNext, padvance]
  | cons x t ih =>
    unfold pscanNext
    cases hfull : pg.full col with
    | true =>
      simp only [if_true]
      cases hrows : List.filter (rowOk st s f) (x :: t) with
      | nil => simp [padvance]
      | cons a b => simp [padvance, hfull]
    | false =>
      simp only [Bool.false_eq_true, if_false]
      cases hskip : (s.isChildStore && !isEntityPresent st s x && !s.isExtended) with
      | true =>
        have hr : rowOk st s f x = false := by simp [rowOk, visible, hskip]
        simp only [if_true, List.filter_cons, hr, Bool.false_eq_true, if_false]
        exact ih off col
      | false =>
        have hvis : visible st s x = true := by simp [visible, hskip]
        simp only [Bool.false_eq_true, if_false]
        cases hm : mget st.ents x with
        | none =>
          have hr : rowOk st s f x = false := by simp [rowOk, hm]
          simp only [List.filter_cons, hr, Bool.false_eq_true, if_false]
          exact ih off col
        | some e =>
          cases hf : f.eval e with
          | false =>
            have hr : rowOk st s f x = false := by simp [rowOk, hm, hf]
            simp only [hf, List.filter_cons, hr, Bool.false_eq_true, if_false]
            exact ih off col
          | true =>
            have hr : rowOk st s f x = true := by simp [rowOk, hvis, hm, hf]
            simp only [hf, if_true, List.filter_cons, hr]
            by_cases ho : off < pg.skip
            · simp only [ho, if_true]
              have hk : pg.skip - off = (pg.skip - (off + 1)) + 1 := by omega
              rw [hk, padvance_skip_cons pg _ col x _ hfull]
              exact ih (off + 1) col
            · simp only [ho, if_false]
              have hk : pg.skip - off = 0 := by omega
              simp [hk, padvance, hfull]

/-- the simulation relation between the scanner and the budgeted list cursor -/
structure PSim (st : St) (s : Sel) (f : Filter) (pg : Page) (c : PScanCur) (lc : PListCur) : Prop where
  keys : c.under.keys = idsInOrder st
  all : lc.all = (idsInOrder st).filter (rowOk st s f)
  cur : lc.cur = c.current
  rows : lc.rows = c.under.rest.filter (rowOk st s f)
  skip : lc.skipLeft = pg.skip - c.offset
  col : lc.col = c.collected

theorem PSim.adv {st : St} {s : Sel} {f : Filter} {pg : Page} {c : PScanCur} {lc : PListCur}
    (h : PSim st s f pg c lc) (u : BoltCur) (hu : u.keys = idsInOrder st) :
    PSim st s f pg (PScanCur.next st s f pg { c with under := u })
      (lc.adv pg (u.rest.filter (rowOk st s f))) := by
  have hs := pscanNext_spec st s f pg c.offset c.collected u.rest
  simp only at hs
  have e1 := congrArg (·.1) hs
  have e2 := congrArg (·.2.1) hs
  have e3 := congrArg (·.2.2.1) hs
  have e4 := congrArg (·.2.2.2) hs
  simp only at e1 e2 e3 e4
  refine ⟨hu, h.all, ?_, ?_, ?_, ?_⟩
  · simp only [PListCur.adv, PScanCur.next, h.skip, h.col]; exact e1.symm
  · simp only [PListCur.adv, PScanCur.next, h.skip, h.col]; exact e2.symm
  · simp only [PListCur.adv, PScanCur.next, h.skip, h.col]; exact e3.symm
  · simp only [PListCur.adv, PScanCur.next, h.skip, h.col]; exact e4.symm

theorem PSim.step {st : St} {s : Sel} {f : Filter} {pg : Page} {c : PScanCur} {lc : PListCur}
    (h : PSim st s f pg c lc) (x : Step) : PSim st s f pg (c.step st s f pg x) (lc.step pg x) := by
  cases x with
  | next =>
    have := h.adv c.under h.keys
    simpa [PScanCur.step, PListCur.step, h.rows] using this
  | seek v =>
    have := h.adv (c.under.seek v) (by simp [BoltCur.seek, h.keys])
    have hv : (c.under.seek v).rest.filter (rowOk st s f) = lc.all.dropWhile (· < v) := by
      rw [h.all, filter_dropWhile_comm _ _ _ (idsInOrder_pairwise st)]
      simp [BoltCur.seek, h.keys]
    rw [hv] at this
    exact this

theorem PSim.start (st : St) (s : Sel) (f : Filter) (pg : Page) :
    PSim st s f pg (iterateIdsPaged st s f pg) (PListCur.start pg ((idsInOrder st).filter (rowOk st s f))) := by
  have h0 : PSim st s f pg ⟨BoltCur.first (idsInOrder st), none, 0, 0⟩
      ⟨(idsInOrder st).filter (rowOk st s f), none, (idsInOrder st).filter (rowOk st s f), pg.skip, 0⟩ :=
    ⟨rfl, rfl, rfl, rfl, by simp, rfl⟩
  exact h0.adv (BoltCur.first (idsInOrder st)) rfl

theorem PSim.trace {st : St} {s : Sel} {f : Filter} {pg : Page} (script : List Step) {c : PScanCur} {lc : PListCur}
    (h : PSim st s f pg c lc) : c.trace st s f pg script = lc.trace pg script := by
  induction script generalizing c lc with
  | nil => simp [PScanCur.trace, PListCur.trace, h.cur]
  | cons x xs ih =>
    simp only [PScanCur.trace, PListCur.trace, h.cur]
    congr 1
    exact ih (h.step x)

/-- the paged `IterateIds` cursor, under every script of `Next` / `Seek`, is the budgeted list cursor
    over the ids the store owns -/
theorem iterateIdsPaged_trace (st : St) (s : Sel) (f : Filter) (pg : Page) (script : List Step) :
    (iterateIdsPaged st s f pg).trace st s f pg script =
      (PListCur.start pg (ownedIds st.ents s false f)).trace pg script := by
  rw [← scanned_eq_owned]
  exact (PSim.start st s f pg).trace script

/-! ## `QueryIds` with paging -/

theorem pageLoop_skip (pg : Page) (off : Nat) (l : List Id) (h : off ≤ pg.skip) :
    pageLoop pg off 0 l = pageLoop pg pg.skip 0 (l.drop (pg.skip - off)) := by
  induction l generalizing off with
  | nil => simp [pageLoop]
  | cons x t ih =>
    by_cases ho : off < pg.skip
    · have hk : pg.skip - off = (pg.skip - (off + 1)) + 1 := by omega
      have h1 : pageLoop pg off 0 (x :: t) = pageLoop pg (off + 1) 0 t := by simp [pageLoop, ho]
      rw [hk, List.drop_succ_cons, h1]
      exact ih (off + 1) (by omega)
    · have hk : pg.skip - off = 0 := by omega
      have : off = pg.skip := by omega
      rw [hk, this]; rfl

theorem pageLoop_take_none (pg : Page) (hl : pg.limit = none) (col : Nat) (l : List Id) :
    pageLoop pg pg.skip col l = l := by
  induction l generalizing col with
  | nil => rfl
  | cons x t ih =>
    unfold pageLoop
    simp [Page.full, hl, ih]

theorem pageLoop_take_some (pg : Page) (n : Nat) (hl : pg.limit = some n) (col : Nat) (l : List Id) :
    pageLoop pg pg.skip col l = l.take (n - col) := by
  induction l generalizing col with
  | nil => simp [pageLoop]
  | cons x t ih =>
    unfold pageLoop
    by_cases hc : n ≤ col
    · have h0 : n - col = 0 := by omega
      simp [Page.full, hl, hc, ih, h0]
    · have hk : n - col = (n - (col + 1)) + 1 := by omega
      simp only [Nat.lt_irrefl, if_false, Page.full, hl, hc, decide_false, Bool.not_false, if_true]
      rw [hk, List.take_succ_cons, ih]

theorem pageLoop_eq_page (pg : Page) (l : List Id) : pageLoop pg 0 0 l = pg.of l := by
  rw [pageLoop_skip pg 0 l (Nat.zero_le _)]
  unfold Page.of
  cases hl : pg.limit with
  | none => simp [pageLoop_take_none pg hl]
  | some n => simp [pageLoop_take_some pg n hl]

theorem queryIdsPaged_spec (st : St) (s : Sel) (f : Filter) (pg : Page) :
    queryIdsPaged st s f pg = (pg.of (ownedIds st.ents s false f), (ownedIds st.ents s false f).length) := by
  unfold queryIdsPaged
  simp only [pageLoop_eq_page, queryIds_eq_owned]

/-! ## what a budgeted cursor can rest on -/

theorem padvance_mem (pg : Page) (k col : Nat) (rows : List Id) :
    (∀ x, (padvance pg k col rows).1 = some x → x ∈ rows) ∧ (∀ a ∈ (padvance pg k col rows).2.1, a ∈ rows) := by
  cases rows with
  | nil => simp [padvance]
  | cons y t =>
    cases hfull : pg.full col with
    | true => simp [padvance, hfull]
    | false =>
      simp only [padvance, hfull, Bool.false_eq_true, if_false]
      cases hd : List.drop k (y :: t) with
      | nil => simp
      | cons x r =>
        have hsub : ∀ a ∈ x :: r, a ∈ y :: t := fun a ha => List.mem_of_mem_drop (hd ▸ ha)
        refine ⟨fun z hz => ?_, fun a ha => hsub a (List.mem_cons_of_mem _ ha)⟩
        simp only [Option.some.injEq] at hz
        exact hsub z (hz ▸ List.mem_cons_self)

theorem PListCur.trace_mem (pg : Page) (lc : PListCur) (script : List Step)
    (hcur : ∀ x, lc.cur = some x → x ∈ lc.all) (hsub : ∀ a ∈ lc.rows, a ∈ lc.all)
    (id : Id) (h : some id ∈ lc.trace pg script) : id ∈ lc.all := by
  induction script generalizing lc with
  | nil =>
    simp only [PListCur.trace, List.mem_singleton] at h
    exact hcur id h.symm
  | cons x xs ih =>
    simp only [PListCur.trace, List.mem_cons] at h
    rcases h with h | h
    · exact hcur id h.symm
    · have key : ∀ rows : List Id, (∀ a ∈ rows, a ∈ lc.all) →
          (∀ z, (lc.adv pg rows).cur = some z → z ∈ (lc.adv pg rows).all) ∧
          (∀ a ∈ (lc.adv pg rows).rows, a ∈ (lc.adv pg rows).all) := by
        intro rows hr
        obtain ⟨m1, m2⟩ := padvance_mem pg lc.skipLeft lc.col rows
        exact ⟨fun z hz => hr z (m1 z hz), fun a ha => hr a (m2 a ha)⟩
      cases x with
      | next =>
        obtain ⟨k1, k2⟩ := key lc.rows hsub
        exact ih (lc.step pg .next) k1 k2 h
      | seek v =>
        obtain ⟨k1, k2⟩ := key (lc.all.dropWhile (· < v)) (fun a ha => (List.dropWhile_sublist _).mem ha)
        exact ih (lc.step pg (.seek v)) k1 k2 h

theorem PListCur.start_trace_mem (pg : Page) (l : List Id) (script : List Step) (id : Id)
    (h : some id ∈ (PListCur.start pg l).trace pg script) : id ∈ l := by
  obtain ⟨m1, m2⟩ := padvance_mem pg pg.skip 0 l
  exact PListCur.trace_mem pg (PListCur.start pg l) script (fun x hx => m1 x hx) (fun a ha => m2 a ha) id h

/-! ## a walk without seeks enumerates the page -/

/-- the rows of the page still to come, seen from the budgeted cursor -/
def PListCur.pageRest (pg : Page) (c : PListCur) : List Id :=
  (match c.cur with | some x => [x] | none => []) ++
    (match pg.limit with | some l => c.rows.take (l - c.col) | none => c.rows)

/-- once a row was handed out the skip budget is used up (or nothing is left, or the limit is reached) -/
structure PListCur.Settled (pg : Page) (c : PListCur) : Prop where
  skip : c.skipLeft = 0 ∨ c.rows = [] ∨ pg.full c.col = true
  cur : c.cur = none → c.rows = [] ∨ pg.full c.col = true

theorem Page.full_some {pg : Page} {l col : Nat} (hl : pg.limit = some l) : pg.full col = decide (l ≤ col) := by
  simp [Page.full, hl]

theorem PListCur.cur_eq_head (pg : Page) (c : PListCur) (h : c.Settled pg) : c.cur = (c.pageRest pg).head? := by
  unfold PListCur.pageRest
  cases hc : c.cur with
  | some x => rfl
  | none =>
    rcases h.cur hc with hr | hf
    · cases pg.limit <;> simp [hr]
    · cases hl : pg.limit with
      | none => simp [Page.full, hl] at hf
      | some l =>
        rw [Page.full_some hl] at hf
        have : l - c.col = 0 := by have := of_decide_eq_true hf; omega
        simp [this]

theorem PListCur.next_settled (pg : Page) (c : PListCur) (h : c.Settled pg) :
    (c.step pg .next).Settled pg ∧ (c.step pg .next).pageRest pg = (c.pageRest pg).tail := by
  unfold PListCur.step PListCur.adv
  cases hrows : c.rows with
  | nil =>
    simp only [padvance]
    refine ⟨⟨Or.inr (Or.inl rfl), fun _ => Or.inl rfl⟩, ?_⟩
    unfold PListCur.pageRest
    simp only [hrows]
    cases c.cur <;> cases pg.limit <;> simp
  | cons y t =>
    cases hfull : pg.full c.col with
    | true =>
      simp only [padvance, hfull, if_true]
      refine ⟨⟨Or.inr (Or.inr hfull), fun _ => Or.inr hfull⟩, ?_⟩
      unfold PListCur.pageRest
      simp only [hrows]
      cases hl : pg.limit with
      | none => simp [Page.full, hl] at hfull
      | some l =>
        rw [Page.full_some hl] at hfull
        have : l - c.col = 0 := by have := of_decide_eq_true hfull; omega
        cases c.cur <;> simp [this]
    | false =>
      have hsk : c.skipLeft = 0 := by
        rcases h.skip with h1 | h1 | h1
        · exact h1
        · rw [hrows] at h1; cases h1
        · rw [hfull] at h1; cases h1
      obtain ⟨x, hx⟩ : ∃ x, c.cur = some x := by
        cases hc : c.cur with
        | some x => exact ⟨x, rfl⟩
        | none =>
          rcases h.cur hc with h1 | h1
          · rw [hrows] at h1; cases h1
          · rw [hfull] at h1; cases h1
      simp only [padvance, hfull, hsk, List.drop_zero, Bool.false_eq_true, if_false]
      refine ⟨⟨Or.inl rfl, fun hc => by cases hc⟩, ?_⟩
      unfold PListCur.pageRest
      simp only [hrows, hx]
      cases hl : pg.limit with
      | none => simp
      | some l =>
        rw [Page.full_some hl] at hfull
        have hlt : ¬ l ≤ c.col := of_decide_eq_false hfull
        have hk : l - c.col = (l - (c.col + 1)) + 1 := by omega
        simp [hk, List.take_succ_cons]

theorem PListCur.start_settled (pg : Page) (l : List Id) :
    (PListCur.start pg l).Settled pg ∧ (PListCur.start pg l).pageRest pg = pg.of l := by
  unfold PListCur.start PListCur.adv
  cases l with
  | nil =>
    simp only [padvance]
    refine ⟨⟨Or.inr (Or.inl rfl), fun _ => Or.inl rfl⟩, ?_⟩
    unfold PListCur.pageRest Page.of
    cases pg.limit <;> simp
  | cons y t =>
    cases hfull : pg.full 0 with
    | true =>
      simp only [padvance, hfull, if_true]
      refine ⟨⟨Or.inr (Or.inr hfull), fun _ => Or.inr hfull⟩, ?_⟩
      unfold PListCur.pageRest Page.of
      cases hl : pg.limit with
      | none => simp [Page.full, hl] at hfull
      | some n =>
        rw [Page.full_some hl] at hfull
        have : n = 0 := by have := of_decide_eq_true hfull; omega
        simp [this]
    | false =>
      simp only [padvance, hfull, Bool.false_eq_true, if_false]
      cases hd : List.drop pg.skip (y :: t) with
      | nil =>
        refine ⟨⟨Or.inr (Or.inl rfl), fun _ => Or.inl rfl⟩, ?_⟩
        unfold PListCur.pageRest Page.of
        simp only [hd]
        cases pg.limit <;> simp
      | cons x r =>
        refine ⟨⟨Or.inl rfl, fun hc => by cases hc⟩, ?_⟩
        unfold PListCur.pageRest Page.of
        simp only [hd]
        cases hl : pg.limit with
        | none => simp
        | some n =>
          rw [Page.full_some hl] at hfull
          have hlt : ¬ n ≤ 0 := of_decide_eq_false hfull
          have hk : n = (n - 1) + 1 := by omega
          rw [hk]; simp [List.take_succ_cons]

theorem PListCur.trace_nexts_aux (pg : Page) (n : Nat) (c : PListCur) (lc : ListCur) (h : c.Settled pg)
    (hrest : lc.rest = c.pageRest pg) :
    PListCur.trace pg c (List.replicate n .next) = lc.trace (List.replicate n .next) := by
  induction n generalizing c lc with
  | zero => simp [PListCur.trace, ListCur.trace, ListCur.current, hrest, PListCur.cur_eq_head pg c h]
  | succ n ih =>
    obtain ⟨h', hp⟩ := PListCur.next_settled pg c h
    simp only [List.replicate_succ, PListCur.trace, ListCur.trace, ListCur.current, hrest,
      PListCur.cur_eq_head pg c h]
    congr 1
    exact ih (c.step pg .next) (lc.step .next) h' (by simp [ListCur.step, hrest, hp])

/-- a walk with `Next` only: the budgeted cursor is the plain list cursor over the page of the list -/
theorem PListCur.trace_nexts (pg : Page) (l : List Id) (n : Nat) :
    PListCur.trace pg (PListCur.start pg l) (List.replicate n .next) =
      (ListCur.start (pg.of l)).trace (List.replicate n .next) := by
  obtain ⟨h, hp⟩ := PListCur.start_settled pg l
  exact PListCur.trace_nexts_aux pg n _ _ h (by simp [ListCur.start, hp])

end StorageModel.C15
