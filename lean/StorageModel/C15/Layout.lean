import StorageModel.C15.Extended
/-
  C15 — the shape of the layering: where the parent part and the child parts of an entity live.

  boltz/store.go: a child store's `StoreDefinition.BasePath` is the sub-path of *its data bucket
  inside the parent's entity bucket* (`entityPath`; one or more segments).  `GetEntityBucket` =
  `parent entities bucket / <id> / GetPath(entityPath…)` (nil if a segment is missing),
  `getOrCreateEntityBucket` = `… / GetOrCreatePath(entityPath…)` (creates every segment),
  `IsEntityPresent` = `GetEntityBucket != nil`; the parent's symbols are read in the entity
  bucket itself, a child's symbols in its data bucket.  boltz/base.go
  `PersistContext.GetParentContext`: the bucket the *parent's* strategy persists the shared
  fields into is `parentStore.GetEntityBucket(tx, id)` — the entity bucket itself, whatever the
  length of the child path.

  `Schema` = the two child paths (A1's, A2's).  `Tree` = one entity bucket with its nested
  buckets and typed fields; `StC` = the store state with real bucket trees; `stepC` / `runC` =
  the operations writing through these paths; `viewC` = what the stores read back.  For every
  well-formed schema (non-empty child paths, neither a prefix of the other — shared prefixes such
  as ext/a, ext/b are fine) the concrete model is simulated by the abstract one
  (`runC_simulates`), so every theorem of Properties/C15.lean holds for every path shape.
  (bbolt keeps keys and nested buckets of one bucket in one namespace; the model keeps fields and
  buckets apart and assumes that no child path starts with a key of the parent strategy.)
-/
namespace StorageModel.C15

abbrev Seg := String
abbrev Path := List Seg

structure Schema where
  p1 : Path   -- BasePath of the plain child store A1
  p2 : Path   -- BasePath of the extended child store A2
  deriving DecidableEq, Repr

def Schema.childPath (sch : Schema) : Sel → Path
  | .A => []
  | .A1 => sch.p1
  | .A2 => sch.p2

def Schema.wellFormed (sch : Schema) : Bool :=
  !sch.p1.isEmpty && !sch.p2.isEmpty && !sch.p1.isPrefixOf sch.p2 && !sch.p2.isPrefixOf sch.p1

/-- a typed-bucket field: a string (nil / value) or a string list -/
inductive Cell
  | str (v : Option Val)
  | list (l : List Val)
  deriving DecidableEq, Repr

/-- one entity bucket: the nested bucket paths created in it (`GetOrCreatePath`) and the fields,
    keyed by (path of the bucket they are in, field key) -/
structure Tree where
  made : List Path
  fields : Map (Path × String) Cell
  deriving DecidableEq, Repr

def Tree.empty : Tree := ⟨[], []⟩

/-- `bucket.GetPath(q…) != nil`: every segment exists -/
def Tree.getPath (t : Tree) (q : Path) : Bool := q.isEmpty || t.made.any (fun m => q.isPrefixOf m)
/-- `bucket.GetOrCreatePath(q…)` -/
def Tree.getOrCreatePath (t : Tree) (q : Path) : Tree := if q.isEmpty then t else { t with made := q :: t.made }
def Tree.set (t : Tree) (q : Path) (k : String) (c : Cell) : Tree := { t with fields := mput t.fields (q, k) c }
def Tree.get (t : Tree) (q : Path) (k : String) : Option Cell := mget t.fields (q, k)

def cellStr : Option Cell → Option Val
  | some (.str v) => v
  | _ => none

def cellList : Option Cell → List Val
  | some (.list l) => l
  | _ => []

def childKey : Sel → String
  | .A => ""
  | .A1 => "code"
  | .A2 => "colour"

/-- what the stores read back from an entity bucket: the parent's symbols in the entity bucket,
    a child's presence (`GetEntityBucket != nil`) and symbol at its data path -/
def viewC (sch : Schema) (t : Tree) : Ent :=
  { name := (cellStr (t.get [] "name")).getD 0,
    roles := cellList (t.get [] "roles"),
    c1 := if t.getPath sch.p1 then some (cellStr (t.get sch.p1 "code")) else none,
    c2 := if t.getPath sch.p2 then some (cellStr (t.get sch.p2 "colour")) else none }

/-- the parent strategy's `PersistEntity` into the bucket at `at_` -/
def writeShared (t : Tree) (at_ : Path) (p : Payload) (chk : Option Checker) : Tree :=
  let t1 := if proceed chk (·.name) then t.set at_ "name" (.str (some p.name)) else t
  if proceed chk (·.roles) then t1.set at_ "roles" (.list (canon p.roles)) else t1

/-- a store's strategy persisting into the entity bucket tree; `parentAt` = the bucket
    `GetParentContext` hands to the parent strategy -/
def persistCAt (parentAt : Path) (sch : Schema) (t : Tree) (s : Sel) (p : Payload) (chk : Option Checker) : Tree :=
  let t1 := writeShared t parentAt p chk
  match s with
  | .A => t1
  | s => if proceed chk (·.child) then t1.set (sch.childPath s) (childKey s) (.str p.child) else t1

/-- `GetParentContext`: `parentStore.GetEntityBucket(tx, id)` — the entity bucket itself -/
def persistC := persistCAt []

/-- `getOrCreateEntityBucket` of store `s` -/
def createBucketC (sch : Schema) (t : Tree) (s : Sel) : Tree := t.getOrCreatePath (sch.childPath s)

/-- fields only in buckets that exist -/
def Tree.OK (t : Tree) : Prop := ∀ q k, (t.get q k).isSome = true → t.getPath q = true

theorem Tree.empty_ok : Tree.empty.OK := by
  intro q k h; simp [Tree.get, Tree.empty] at h

theorem viewC_empty (sch : Schema) (h : sch.wellFormed = true) : viewC sch Tree.empty = Ent.empty := by
  simp only [Schema.wellFormed, Bool.and_eq_true, Bool.not_eq_true'] at h
  obtain ⟨⟨⟨h1, h2⟩, _⟩, _⟩ := h
  simp [viewC, Tree.empty, Tree.get, Tree.getPath, Ent.empty, cellStr, cellList, h1, h2]

/-! ### reads after writes -/

@[simp] theorem Tree.get_set (t : Tree) (q q' : Path) (k k' : String) (c : Cell) :
    (t.set q k c).get q' k' = if (q, k) = (q', k') then some c else t.get q' k' := by
  simp [Tree.get, Tree.set]

@[simp] theorem Tree.getPath_set (t : Tree) (q q' : Path) (k : String) (c : Cell) :
    (t.set q k c).getPath q' = t.getPath q' := rfl

@[simp] theorem Tree.get_getOrCreatePath (t : Tree) (q q' : Path) (k : String) :
    (t.getOrCreatePath q).get q' k = t.get q' k := by
  unfold Tree.getOrCreatePath; split <;> rfl

theorem Tree.getPath_getOrCreatePath (t : Tree) (q q' : Path) :
    (t.getOrCreatePath q).getPath q' = (t.getPath q' || (!q.isEmpty && q'.isPrefixOf q)) := by
  unfold Tree.getOrCreatePath Tree.getPath
  cases hq : q.isEmpty with
  | true => simp
  | false =>
    simp only [Bool.false_eq_true, if_false, List.any_cons, Bool.not_false, Bool.true_and]
    cases q'.isEmpty <;> cases q'.isPrefixOf q <;> simp

theorem isPrefixOf_self (q : Path) : q.isPrefixOf q = true := by
  induction q with
  | nil => rfl
  | cons x t ih => simp [List.isPrefixOf, ih]

theorem Tree.getPath_nil (t : Tree) : t.getPath [] = true := rfl

theorem set_ok (t : Tree) (h : t.OK) (q : Path) (k : String) (c : Cell) (hq : t.getPath q = true) :
    (t.set q k c).OK := by
  intro q' k' hs
  rw [Tree.get_set] at hs
  rw [Tree.getPath_set]
  by_cases he : (q, k) = (q', k')
  · cases he; exact hq
  · rw [if_neg he] at hs; exact h q' k' hs

theorem getOrCreatePath_ok (t : Tree) (h : t.OK) (q : Path) : (t.getOrCreatePath q).OK := by
  intro q' k' hs
  rw [Tree.get_getOrCreatePath] at hs
  rw [Tree.getPath_getOrCreatePath, h q' k' hs]; rfl

theorem writeShared_ok (t : Tree) (h : t.OK) (p : Payload) (chk : Option Checker) : (writeShared t [] p chk).OK := by
  unfold writeShared
  split
  · split
    · exact set_ok _ (set_ok _ h _ _ _ rfl) _ _ _ rfl
    · exact set_ok _ h _ _ _ rfl
  · split
    · exact set_ok _ h _ _ _ rfl
    · exact h

theorem writeShared_getPath (t : Tree) (at_ : Path) (p : Payload) (chk : Option Checker) (q : Path) :
    (writeShared t at_ p chk).getPath q = t.getPath q := by
  unfold writeShared
  split <;> split <;> rfl

theorem persistC_ok (sch : Schema) (t : Tree) (h : t.OK) (s : Sel) (p : Payload) (chk : Option Checker)
    (hp : t.getPath (sch.childPath s) = true) : (persistC sch t s p chk).OK := by
  have h1 := writeShared_ok t h p chk
  cases s with
  | A => exact h1
  | A1 =>
    simp only [persistC, persistCAt]
    split
    · exact set_ok _ h1 _ _ _ (by rw [writeShared_getPath]; exact hp)
    · exact h1
  | A2 =>
    simp only [persistC, persistCAt]
    split
    · exact set_ok _ h1 _ _ _ (by rw [writeShared_getPath]; exact hp)
    · exact h1

/-! ### what the parent strategy and the child strategies write, seen through `viewC` -/

structure Schema.Facts (sch : Schema) : Prop where
  ne1 : sch.p1 ≠ []
  ne2 : sch.p2 ≠ []
  e1 : sch.p1.isEmpty = false
  e2 : sch.p2.isEmpty = false
  n12 : sch.p1.isPrefixOf sch.p2 = false
  n21 : sch.p2.isPrefixOf sch.p1 = false
  ne12 : sch.p1 ≠ sch.p2

theorem Schema.facts (sch : Schema) (h : sch.wellFormed = true) : sch.Facts := by
  simp only [Schema.wellFormed, Bool.and_eq_true, Bool.not_eq_true'] at h
  obtain ⟨⟨⟨h1, h2⟩, h3⟩, h4⟩ := h
  refine ⟨?_, ?_, h1, h2, h3, h4, ?_⟩
  · intro e; rw [e] at h1; cases h1
  · intro e; rw [e] at h2; cases h2
  · intro e; rw [e, isPrefixOf_self] at h3; cases h3

theorem viewC_writeShared (sch : Schema) (hw : sch.wellFormed = true) (t : Tree) (p : Payload) (chk : Option Checker) :
    viewC sch (writeShared t [] p chk) = persistShared (viewC sch t) p chk := by
  have f := sch.facts hw
  have a1 : ¬ (([] : Path) = sch.p1) := fun e => f.ne1 e.symm
  have a2 : ¬ (([] : Path) = sch.p2) := fun e => f.ne2 e.symm
  unfold writeShared persistShared viewC
  cases hn : proceed chk (·.name) <;> cases hr : proceed chk (·.roles) <;>
    simp [Tree.get_set, cellStr, cellList, a1, a2]

/-- **The parent part and the child parts do not overlap**: with the child's data bucket present,
    a store's strategy persisting through the real paths (shared fields into the entity bucket,
    the child's field into the child's data bucket) changes, of what the stores read back,
    exactly what the abstract `persistShared` / `persistChild` change — for every well-formed
    schema. -/
theorem viewC_persistC (sch : Schema) (hw : sch.wellFormed = true) (t : Tree) (s : Sel) (p : Payload)
    (chk : Option Checker) (hp : t.getPath (sch.childPath s) = true) :
    viewC sch (persistC sch t s p chk) = persistChild (persistShared (viewC sch t) p chk) s p chk := by
  have f := sch.facts hw
  have hs := viewC_writeShared sch hw t p chk
  cases s with
  | A => exact hs
  | A1 =>
    simp only [Schema.childPath] at hp
    simp only [persistC, persistCAt, Schema.childPath, childKey]
    have hp' : (writeShared t [] p chk).getPath sch.p1 = true := by rw [writeShared_getPath]; exact hp
    cases hc : proceed chk (·.child) with
    | true =>
      simp only [if_true]
      rw [← hs]
      have b1 : ¬ (sch.p1 = ([] : Path)) := f.ne1
      simp [viewC, persistChild, hc, Tree.get_set, hp', cellStr, b1, f.ne12]
    | false =>
      simp only [Bool.false_eq_true, if_false]
      rw [hs]
      have : (persistShared (viewC sch t) p chk).c1 = some (cellStr (t.get sch.p1 "code")) := by
        simp [persistShared, viewC, hp]
      generalize persistShared (viewC sch t) p chk = e at this ⊢
      obtain ⟨n, r, c1, c2⟩ := e
      simp only at this
      subst this
      simp [persistChild, hc, Ent.childField]
  | A2 =>
    simp only [Schema.childPath] at hp
    simp only [persistC, persistCAt, Schema.childPath, childKey]
    have hp' : (writeShared t [] p chk).getPath sch.p2 = true := by rw [writeShared_getPath]; exact hp
    cases hc : proceed chk (·.child) with
    | true =>
      simp only [if_true]
      rw [← hs]
      have b1 : ¬ (sch.p2 = ([] : Path)) := f.ne2
      have b2 : ¬ (sch.p2 = sch.p1) := fun e => f.ne12 e.symm
      simp [viewC, persistChild, hc, Tree.get_set, hp', cellStr, b1, b2]
    | false =>
      simp only [Bool.false_eq_true, if_false]
      rw [hs]
      have : (persistShared (viewC sch t) p chk).c2 = some (cellStr (t.get sch.p2 "colour")) := by
        simp [persistShared, viewC, hp]
      generalize persistShared (viewC sch t) p chk = e at this ⊢
      obtain ⟨n, r, c1, c2⟩ := e
      simp only at this
      subst this
      simp [persistChild, hc, Ent.childField]

/-- `getOrCreateEntityBucket` of one child store: that child's data bucket appears (empty), the
    parent part and the other child's part are as before -/
theorem viewC_createBucketC (sch : Schema) (hw : sch.wellFormed = true) (t : Tree) (ht : t.OK) (s : Sel) :
    viewC sch (createBucketC sch t s) =
      (match s with
       | .A => viewC sch t
       | .A1 => { viewC sch t with c1 := some ((viewC sch t).childField .A1) }
       | .A2 => { viewC sch t with c2 := some ((viewC sch t).childField .A2) }) := by
  have f := sch.facts hw
  cases s with
  | A => simp [createBucketC, Schema.childPath, Tree.getOrCreatePath]
  | A1 =>
    simp only [createBucketC, Schema.childPath, viewC, Tree.get_getOrCreatePath, Tree.getPath_getOrCreatePath,
      f.e1, f.n21, isPrefixOf_self, Bool.not_false, Bool.true_and, Bool.or_true, Bool.and_false, Bool.or_false,
      if_true, Ent.childField]
    cases hp : t.getPath sch.p1 with
    | true => simp
    | false =>
      have : t.get sch.p1 "code" = none := by
        cases hg : t.get sch.p1 "code" with
        | none => rfl
        | some c => have := ht sch.p1 "code" (by simp [hg]); rw [hp] at this; cases this
      simp [this, cellStr]
  | A2 =>
    simp only [createBucketC, Schema.childPath, viewC, Tree.get_getOrCreatePath, Tree.getPath_getOrCreatePath,
      f.e2, f.n12, isPrefixOf_self, Bool.not_false, Bool.true_and, Bool.or_true, Bool.and_false, Bool.or_false,
      if_true, Ent.childField]
    cases hp : t.getPath sch.p2 with
    | true => simp
    | false =>
      have : t.get sch.p2 "colour" = none := by
        cases hg : t.get sch.p2 "colour" with
        | none => rfl
        | some c => have := ht sch.p2 "colour" (by simp [hg]); rw [hp] at this; cases this
      simp [this, cellStr]

theorem createBucketC_present (sch : Schema) (t : Tree) (s : Sel) :
    (createBucketC sch t s).getPath (sch.childPath s) = true := by
  unfold createBucketC
  rw [Tree.getPath_getOrCreatePath]
  cases h : (sch.childPath s).isEmpty with
  | true => simp [Tree.getPath, h]
  | false => simp [isPrefixOf_self]

/-- `Create`'s bucket work through store `s`: create the data bucket, persist — seen through
    `viewC` it is the abstract create -/
theorem viewC_create (sch : Schema) (hw : sch.wellFormed = true) (t : Tree) (ht : t.OK) (s : Sel) (p : Payload) :
    viewC sch (persistC sch (createBucketC sch t s) s p none) =
      persistChild (persistShared (viewC sch t) p none) s p none := by
  rw [viewC_persistC sch hw _ s p none (createBucketC_present sch t s), viewC_createBucketC sch hw t ht s]
  cases s <;> simp [persistChild, persistShared, proceed]

/-! ## the store state with real bucket trees -/

structure StC where
  trees : Map Id Tree
  nameIdx : Map Val Id
  rolesIdx : List (Val × Id)
  codeIdx : Map Val Id
  deriving DecidableEq, Repr

def StC.init : StC := ⟨[], [], [], []⟩

/-- what the stores read (entity buckets through `viewC`; the index buckets do not depend on the
    child paths: a child store's indexes live under the parent's root path) -/
def absSt (sch : Schema) (stc : StC) : St :=
  { ents := stc.trees.map (fun kt => (kt.1, viewC sch kt.2)),
    nameIdx := stc.nameIdx, rolesIdx := stc.rolesIdx, codeIdx := stc.codeIdx }

def entTree (stc : StC) (id : Id) : Tree := (mget stc.trees id).getD Tree.empty

def StC.withIdx (trees : Map Id Tree) (st : St) : StC := ⟨trees, st.nameIdx, st.rolesIdx, st.codeIdx⟩

/-- which store's strategy persists an `Update` issued through `s` (the parent delegates to the
    first registered child store that has data), and with which payload -/
def updTarget (st : St) (s : Sel) (id : Id) : Sel :=
  match s with
  | .A => if isEntityPresent st .A1 id then .A1 else if isEntityPresent st .A2 id then .A2 else .A
  | s => s

def updPayload (st : St) (s : Sel) (id : Id) (p : Payload) : Payload :=
  match s with
  | .A =>
    match mget st.ents id with
    | some e =>
      if e.hasChild .A1 then { p with child := e.childField .A1 }
      else if e.hasChild .A2 then { p with child := e.childField .A2 } else p
    | none => p
  | _ => p

/-- `Create` through the real paths: checks, index work and result as the stores compute them
    from what they read (`createV` on `absSt`); the bucket work is
    `getOrCreateEntityBucket` + `PersistEntity` on the entity's tree -/
def createC (cfg : Cfg) (sch : Schema) (stc : StC) (s : Sel) (id : Id) (p : Payload) : Except Err StC :=
  match createV cfg (absSt sch stc) s id p with
  | .error e => .error e
  | .ok st' => .ok (StC.withIdx (mput stc.trees id (persistC sch (createBucketC sch (entTree stc id) s) s p none)) st')

def updateC (sch : Schema) (stc : StC) (s : Sel) (id : Id) (p : Payload) (chk : Option Checker) : Except Err StC :=
  match updateV (absSt sch stc) s id p chk with
  | .error e => .error e
  | .ok st' =>
    .ok (StC.withIdx (mput stc.trees id
      (persistC sch (entTree stc id) (updTarget (absSt sch stc) s id) (updPayload (absSt sch stc) s id p) chk)) st')

/-- `DeleteById`: constraints as computed from what is read, `DeleteEntity` removes the whole tree -/
def deleteC (sch : Schema) (stc : StC) (s : Sel) (id : Id) : Except Err StC :=
  match deleteM (absSt sch stc) s id with
  | .error e => .error e
  | .ok st' => .ok (StC.withIdx (mdel stc.trees id) st')

def deleteAllC (sch : Schema) (stc : StC) (s : Sel) : List Id → Except Err StC
  | [] => .ok stc
  | id :: rest =>
    match deleteC sch stc s id with
    | .ok stc' => deleteAllC sch stc' s rest
    | .error e => .error e

def stepC (cfg : Cfg) (sch : Schema) (stc : StC) : OpX → Except Err StC
  | .create s id p => createC cfg sch stc s id p
  | .update s id p chk => updateC sch stc s id p chk
  | .delete s id => deleteC sch stc s id
  | .deleteWhere s f => deleteAllC sch stc s (queryIds (absSt sch stc) s f)

def stepOpsC (cfg : Cfg) (sch : Schema) (stc : StC) : List OpX → Except Err StC
  | [] => .ok stc
  | op :: rest =>
    match stepC cfg sch stc op with
    | .ok stc' => stepOpsC cfg sch stc' rest
    | .error e => .error e

def stepTxC (cfg : Cfg) (sch : Schema) (stc : StC) (tx : List OpX) : StC :=
  match stepOpsC cfg sch stc tx with
  | .ok stc' => stc'
  | .error _ => stc

def runC (cfg : Cfg) (sch : Schema) (stc : StC) (hist : List (List OpX)) : StC := hist.foldl (stepTxC cfg sch) stc

/-- every entity tree has its fields in existing buckets -/
def StC.OK (stc : StC) : Prop := ∀ id t, mget stc.trees id = some t → t.OK

/-! ### maps -/

theorem mget_mapv {K V W : Type} [DecidableEq K] (f : V → W) (m : Map K V) (k : K) :
    mget (m.map (fun kt => (kt.1, f kt.2))) k = (mget m k).map f := by
  induction m with
  | nil => rfl
  | cons a t ih =>
    obtain ⟨k', v⟩ := a
    simp only [List.map_cons, mget]
    split
    · rfl
    · exact ih

theorem mdel_mapv {K V W : Type} [DecidableEq K] (f : V → W) (m : Map K V) (k : K) :
    mdel (m.map (fun kt => (kt.1, f kt.2))) k = (mdel m k).map (fun kt => (kt.1, f kt.2)) := by
  induction m with
  | nil => rfl
  | cons a t ih =>
    obtain ⟨k', v⟩ := a
    simp only [List.map_cons, mdel]
    split
    · exact ih
    · simp [ih]

theorem mput_mapv {K V W : Type} [DecidableEq K] (f : V → W) (m : Map K V) (k : K) (v : V) :
    mput (m.map (fun kt => (kt.1, f kt.2))) k (f v) = (mput m k v).map (fun kt => (kt.1, f kt.2)) := by
  simp [mput, mdel_mapv]

theorem absSt_get (sch : Schema) (stc : StC) (id : Id) :
    mget (absSt sch stc).ents id = (mget stc.trees id).map (viewC sch) := mget_mapv _ _ _

theorem absSt_getD (sch : Schema) (hw : sch.wellFormed = true) (stc : StC) (id : Id) :
    (mget (absSt sch stc).ents id).getD Ent.empty = viewC sch (entTree stc id) := by
  rw [absSt_get, entTree]
  cases mget stc.trees id with
  | none => simp [viewC_empty sch hw]
  | some t => rfl

theorem entTree_ok (stc : StC) (h : stc.OK) (id : Id) : (entTree stc id).OK := by
  unfold entTree
  cases hm : mget stc.trees id with
  | none => exact Tree.empty_ok
  | some t => exact h id t hm

theorem ok_mput (stc : StC) (h : stc.OK) (id : Id) (t : Tree) (ht : t.OK) (st : St) :
    (StC.withIdx (mput stc.trees id t) st).OK := by
  intro j t' hj
  simp only [StC.withIdx, mget_mput] at hj
  split at hj
  · cases hj; exact ht
  · exact h j t' hj

theorem ok_mdel (stc : StC) (h : stc.OK) (id : Id) (st : St) : (StC.withIdx (mdel stc.trees id) st).OK := by
  intro j t' hj
  simp only [StC.withIdx, mget_mdel] at hj
  split at hj
  · cases hj
  · exact h j t' hj

/-! ### what the abstract operations write -/

theorem createM_ents (cfg : Cfg) (st st' : St) (s : Sel) (id : Id) (p : Payload)
    (h : createM cfg st s id p = .ok st') :
    st'.ents = mput st.ents id (persistChild (persistShared ((mget st.ents id).getD Ent.empty) p none) s p none) := by
  unfold createM at h
  split at h
  · cases h
  · split at h
    · cases h
    · exact General.indexAfter_ents h

theorem updateChildM_ents (st st' : St) (s : Sel) (id : Id) (p : Payload) (chk : Option Checker)
    (h : updateChildM st s id p chk = .ok st') :
    ∃ e, mget st.ents id = some e ∧ e.hasChild s = true ∧
      st'.ents = mput st.ents id (persistChild (persistShared e p chk) s p chk) := by
  simp only [updateChildM, bucketForLoad] at h
  split at h
  · cases h
  · cases hm : mget st.ents id with
    | none => simp [hm] at h
    | some e =>
      simp only [hm] at h
      split at h
      · cases h
      · next e1 he1 =>
        split at h
        · cases h
        · next hhc =>
          have hee : e1 = e := by split at he1 <;> simp_all
          subst hee
          exact ⟨e1, rfl, by simpa using hhc, General.indexAfter_ents h⟩

theorem updateM_ents (st st' : St) (s : Sel) (id : Id) (p : Payload) (chk : Option Checker)
    (h : updateM st s id p chk = .ok st') :
    ∃ e, mget st.ents id = some e ∧ e.hasChild (updTarget st s id) = true ∧
      st'.ents = mput st.ents id
        (persistChild (persistShared e (updPayload st s id p) chk) (updTarget st s id) (updPayload st s id p) chk) := by
  cases s with
  | A1 => exact updateChildM_ents st st' .A1 id p chk h
  | A2 => exact updateChildM_ents st st' .A2 id p chk h
  | A =>
    simp only [updateM] at h
    cases hm : mget st.ents id with
    | none =>
      have h1 : isEntityPresent st .A1 id = false := by simp [isEntityPresent, hm]
      have h2 : isEntityPresent st .A2 id = false := by simp [isEntityPresent, hm]
      simp only [h1, h2, Bool.false_eq_true, if_false, hm] at h
      split at h <;> cases h
    | some e =>
      have p1 : isEntityPresent st .A1 id = e.hasChild .A1 := by simp [isEntityPresent, hm]
      have p2 : isEntityPresent st .A2 id = e.hasChild .A2 := by simp [isEntityPresent, hm]
      simp only [updTarget, updPayload, hm, p1, p2]
      rw [p1, p2] at h
      by_cases h1 : e.hasChild .A1 = true
      · have hf : findById st .A1 id = some (e.name, e.roles, e.childField .A1) := by
          simp [findById, bucketForLoad, hm, h1]
        simp only [h1, if_true, hf] at h ⊢
        obtain ⟨e', he', hc, hents⟩ := updateChildM_ents st st' .A1 id _ chk h
        rw [hm] at he'; cases he'
        exact ⟨e, rfl, hc, hents⟩
      · by_cases h2 : e.hasChild .A2 = true
        · have hf : findById st .A2 id = some (e.name, e.roles, e.childField .A2) := by
            simp [findById, bucketForLoad, hm, h2]
          simp only [h1, h2, if_true, Bool.false_eq_true, if_false, hf] at h ⊢
          obtain ⟨e', he', hc, hents⟩ := updateChildM_ents st st' .A2 id _ chk h
          rw [hm] at he'; cases he'
          exact ⟨e, rfl, hc, hents⟩
        · simp only [h1, h2, Bool.false_eq_true, if_false, hm] at h ⊢
          split at h
          · cases h
          · exact ⟨e, rfl, rfl, General.indexAfter_ents h⟩

theorem deleteM_ents (st st' : St) (s : Sel) (id : Id) (h : deleteM st s id = .ok st') :
    st'.ents = mdel st.ents id := by
  cases hm : mget st.ents id with
  | none => simp [deleteM, hm] at h
  | some e =>
    obtain ⟨st1, h1, h2, _⟩ := deleteM_some st s id e hm
    rw [h1] at h; cases h; exact h2

/-! ### simulation: the stores over real bucket trees behave as the abstract model -/

theorem St.ext' (a b : St) (h1 : a.ents = b.ents) (h2 : a.nameIdx = b.nameIdx) (h3 : a.rolesIdx = b.rolesIdx)
    (h4 : a.codeIdx = b.codeIdx) : a = b := by
  cases a; cases b; simp_all

theorem createC_simulates (cfg : Cfg) (sch : Schema) (hw : sch.wellFormed = true) (stc : StC) (hok : stc.OK)
    (s : Sel) (id : Id) (p : Payload) :
    match createC cfg sch stc s id p with
    | .error e => createV cfg (absSt sch stc) s id p = .error e
    | .ok stc' => createV cfg (absSt sch stc) s id p = .ok (absSt sch stc') ∧ stc'.OK := by
  unfold createC
  cases hc : createV cfg (absSt sch stc) s id p with
  | error e => rfl
  | ok st' =>
    simp only
    have hents := createM_ents cfg _ st' s id p (createV_ok cfg _ s id p st' hc).1
    rw [absSt_getD sch hw, ← viewC_create sch hw _ (entTree_ok stc hok id) s p] at hents
    refine ⟨?_, ?_⟩
    · congr 1
      apply St.ext' <;> try rfl
      rw [hents]
      exact (mput_mapv (viewC sch) stc.trees id _)
    · refine ok_mput stc hok id _ ?_ st'
      exact persistC_ok sch _ (getOrCreatePath_ok _ (entTree_ok stc hok id) _) s p none (createBucketC_present sch _ s)

theorem updateC_simulates (sch : Schema) (hw : sch.wellFormed = true) (stc : StC) (hok : stc.OK)
    (s : Sel) (id : Id) (p : Payload) (chk : Option Checker) :
    match updateC sch stc s id p chk with
    | .error e => updateV (absSt sch stc) s id p chk = .error e
    | .ok stc' => updateV (absSt sch stc) s id p chk = .ok (absSt sch stc') ∧ stc'.OK := by
  unfold updateC
  cases hc : updateV (absSt sch stc) s id p chk with
  | error e => rfl
  | ok st' =>
    simp only
    obtain ⟨e, he, hhc, hents⟩ := updateM_ents _ st' s id p chk (updateV_ok _ s id p chk st' hc).1
    rw [absSt_get] at he
    cases ht : mget stc.trees id with
    | none => rw [ht] at he; cases he
    | some t =>
      rw [ht] at he
      simp only [Option.map_some, Option.some.injEq] at he
      have het : entTree stc id = t := by simp [entTree, ht]
      have hpres : t.getPath (sch.childPath (updTarget (absSt sch stc) s id)) = true := by
        rw [← he] at hhc
        generalize updTarget (absSt sch stc) s id = tg at hhc ⊢
        cases tg with
        | A => rfl
        | A1 =>
          simp only [Ent.hasChild, viewC] at hhc
          simp only [Schema.childPath]
          cases hp : t.getPath sch.p1 with
          | true => rfl
          | false => simp [hp] at hhc
        | A2 =>
          simp only [Ent.hasChild, viewC] at hhc
          simp only [Schema.childPath]
          cases hp : t.getPath sch.p2 with
          | true => rfl
          | false => simp [hp] at hhc
      rw [← he, ← viewC_persistC sch hw t _ _ chk hpres] at hents
      rw [het]
      refine ⟨?_, ?_⟩
      · congr 1
        apply St.ext' <;> try rfl
        rw [hents]
        exact (mput_mapv (viewC sch) stc.trees id _)
      · exact ok_mput stc hok id _ (persistC_ok sch t (hok id t ht) _ _ chk hpres) st'

theorem deleteC_simulates (sch : Schema) (stc : StC) (hok : stc.OK) (s : Sel) (id : Id) :
    match deleteC sch stc s id with
    | .error e => deleteM (absSt sch stc) s id = .error e
    | .ok stc' => deleteM (absSt sch stc) s id = .ok (absSt sch stc') ∧ stc'.OK := by
  unfold deleteC
  cases hc : deleteM (absSt sch stc) s id with
  | error e => rfl
  | ok st' =>
    simp only
    have hents := deleteM_ents _ st' s id hc
    refine ⟨?_, ok_mdel stc hok id st'⟩
    congr 1
    apply St.ext' <;> try rfl
    rw [hents]
    exact mdel_mapv (viewC sch) stc.trees id

theorem deleteAllC_simulates (sch : Schema) (s : Sel) (l : List Id) (stc : StC) (hok : stc.OK) :
    match deleteAllC sch stc s l with
    | .error e => deleteAllWith deleteM (absSt sch stc) s l = .error e
    | .ok stc' => deleteAllWith deleteM (absSt sch stc) s l = .ok (absSt sch stc') ∧ stc'.OK := by
  induction l generalizing stc with
  | nil => exact ⟨rfl, hok⟩
  | cons id rest ih =>
    have h1 := deleteC_simulates sch stc hok s id
    simp only [deleteAllC, deleteAllWith]
    cases hd : deleteC sch stc s id with
    | error e => simp only [hd] at h1; simp only [h1]
    | ok stc1 =>
      simp only [hd] at h1
      simp only [h1.1]
      exact ih stc1 h1.2

theorem stepC_simulates (cfg : Cfg) (sch : Schema) (hw : sch.wellFormed = true) (stc : StC) (hok : stc.OK) (op : OpX) :
    match stepC cfg sch stc op with
    | .error e => stepOpX cfg (absSt sch stc) op = .error e
    | .ok stc' => stepOpX cfg (absSt sch stc) op = .ok (absSt sch stc') ∧ stc'.OK := by
  cases op with
  | create s id p => exact createC_simulates cfg sch hw stc hok s id p
  | update s id p chk => exact updateC_simulates sch hw stc hok s id p chk
  | delete s id => exact deleteC_simulates sch stc hok s id
  | deleteWhere s f => exact deleteAllC_simulates sch s _ stc hok

theorem stepOpsC_simulates (cfg : Cfg) (sch : Schema) (hw : sch.wellFormed = true) (ops : List OpX) (stc : StC)
    (hok : stc.OK) :
    match stepOpsC cfg sch stc ops with
    | .error e => stepOpsX cfg (absSt sch stc) ops = .error e
    | .ok stc' => stepOpsX cfg (absSt sch stc) ops = .ok (absSt sch stc') ∧ stc'.OK := by
  induction ops generalizing stc with
  | nil => exact ⟨rfl, hok⟩
  | cons op rest ih =>
    have h1 := stepC_simulates cfg sch hw stc hok op
    simp only [stepOpsC, stepOpsX]
    cases hd : stepC cfg sch stc op with
    | error e => simp only [hd] at h1; simp only [h1]
    | ok stc1 =>
      simp only [hd] at h1
      simp only [h1.1]
      exact ih stc1 h1.2

theorem stepTxC_simulates (cfg : Cfg) (sch : Schema) (hw : sch.wellFormed = true) (tx : List OpX) (stc : StC)
    (hok : stc.OK) :
    absSt sch (stepTxC cfg sch stc tx) = stepTxX cfg (absSt sch stc) tx ∧ (stepTxC cfg sch stc tx).OK := by
  have h := stepOpsC_simulates cfg sch hw tx stc hok
  unfold stepTxC stepTxX
  cases hd : stepOpsC cfg sch stc tx with
  | error e => simp only [hd] at h; simp only [h]; exact ⟨trivial, hok⟩
  | ok stc1 => simp only [hd] at h; simp only [h.1]; exact ⟨trivial, h.2⟩

/-- **For every well-formed schema (child data paths of any length, shared prefixes included) and
    every history, the stores over the real bucket trees read back exactly the abstract model's
    state.** -/
theorem runC_simulates (cfg : Cfg) (sch : Schema) (hw : sch.wellFormed = true) (hist : List (List OpX)) (stc : StC)
    (hok : stc.OK) :
    absSt sch (runC cfg sch stc hist) = runX cfg (absSt sch stc) hist ∧ (runC cfg sch stc hist).OK := by
  induction hist generalizing stc with
  | nil => exact ⟨rfl, hok⟩
  | cons tx rest ih =>
    obtain ⟨h1, h2⟩ := stepTxC_simulates cfg sch hw tx stc hok
    have := ih (stepTxC cfg sch stc tx) h2
    simp only [runC, runX, List.foldl_cons] at this ⊢
    rw [h1] at this
    exact this

theorem StC.init_ok : StC.init.OK := by intro id t h; simp [StC.init] at h
theorem absSt_init (sch : Schema) : absSt sch StC.init = St.init := rfl

end StorageModel.C15
