import StorageModel.C15.Query
/-
  C15 — the id cursors a store hands out, as state machines driven by Next / Seek.

  boltz/query_bolt_cursors.go  ForwardBoltCursor over the *parent's* entities bucket  `BoltCur`
  boltz/query_scanners.go      uniqueIndexScanner used as a cursor (newFilteredCursor:
                               Next, Seek through the seekable wrapped cursor)        `ScanCur`
  boltz/store_query.go         IterateIds, IterateValidIds, ValidIdsCursors
                               (Seek / Next with their skip loops)                    `IdCur`
  boltz/store_query.go         QueryWithCursorC → Scanner.ScanCursor over a provider  `queryWithCursor`

  The specification of a cursor is a position in a list (`ListCur`): the list of the ids the
  store owns (`ownedIds`), `Next` = drop the head, `Seek v` = the first owned id ≥ v counted from
  the start of the list (bbolt's `Seek` is absolute), invalid = exhausted.
-/
namespace StorageModel.C15

/-! ## the cursors, following the code -/

/-- `ForwardBoltCursor`: `keys` = the bucket's keys in byte order (fixed while the read
    transaction lasts), `rest` = from the current key on (`[]` ⇔ `key == nil`) -/
structure BoltCur where
  keys : List Id
  rest : List Id
  deriving DecidableEq, Repr

/-- `NewForwardBoltCursor`: `cursor.First()` -/
def BoltCur.first (keys : List Id) : BoltCur := ⟨keys, keys⟩
/-- `ForwardBoltCursor.Next`: `cursor.Next()` (stays nil once exhausted) -/
def BoltCur.next (c : BoltCur) : BoltCur := { c with rest := c.rest.tail }
/-- `ForwardBoltCursor.Seek`: bbolt's `Seek` — the first key ≥ `v` of the whole bucket -/
def BoltCur.seek (c : BoltCur) (v : Id) : BoltCur := { c with rest := c.keys.dropWhile (· < v) }

/-- the loop of `uniqueIndexScanner.Next` (no paging: `newFilteredCursor` sets offset 0 and limit
    MaxInt64) over what is left of the wrapped cursor: take `Current()`, advance, skip the row iff
    `IsChildStore ∧ ¬IsEntityPresent ∧ ¬IsExtended`, evaluate the filter, stop at the first match.
    Result: (what is left of the wrapped cursor, `scanner.current`).  Same rule and same shape as
    `scanLoop` (the keys of the entities bucket always have an entity, so the `none` branch is
    never taken). -/
def scanNext (st : St) (s : Sel) (f : Filter) : List Id → List Id × Option Id
  | [] => ([], none)
  | id :: rest =>
    if s.isChildStore && !isEntityPresent st s id && !s.isExtended then scanNext st s f rest
    else
      match mget st.ents id with
      | some e => if f.eval e then (rest, some id) else scanNext st s f rest
      | none => scanNext st s f rest

/-- `uniqueIndexScanner` as handed out by `newFilteredCursor`: the wrapped bolt cursor is always
    one step ahead of `current` -/
structure ScanCur where
  under : BoltCur
  current : Option Id
  deriving DecidableEq, Repr

def ScanCur.isValid (c : ScanCur) : Bool := c.current.isSome

/-- `uniqueIndexScanner.Next` -/
def ScanCur.next (st : St) (s : Sel) (f : Filter) (c : ScanCur) : ScanCur :=
  let r := scanNext st s f c.under.rest
  ⟨{ c.under with rest := r.1 }, r.2⟩

/-- `uniqueIndexScanner.Seek`, wrapped cursor seekable: `seekableCursor.Seek(val); scanner.Next()` -/
def ScanCur.seek (st : St) (s : Sel) (f : Filter) (c : ScanCur) (v : Id) : ScanCur :=
  ScanCur.next st s f ⟨c.under.seek v, c.current⟩

/-- `IterateIds`: `newFilteredCursor(tx, store, entitiesBucket.OpenSeekableCursor(), filter)`,
    which ends with `result.Next()` -/
def iterateIdsCur (st : St) (s : Sel) (f : Filter) : ScanCur :=
  ScanCur.next st s f ⟨BoltCur.first (idsInOrder st), none⟩

/-- `ValidIdsCursors.IsExtendedDataPresent` (only evaluated behind `IsValid() &&`) -/
def extPresent (st : St) (s : Sel) (c : ScanCur) : Bool :=
  match c.current with
  | some id => isEntityPresent st s id
  | none => false

/-- `for cursor.IsValid() && !cursor.IsExtendedDataPresent() { cursor.wrapped.Next() }`.
    The Go loop has no bound; every `wrapped.Next()` consumes at least one key of the wrapped
    bolt cursor or makes the scanner invalid, so `skipFuel` iterations are enough
    (`skipLoop_spec`: the result is invalid or rests on an id with extension data). -/
def skipLoop (st : St) (s : Sel) (f : Filter) : Nat → ScanCur → ScanCur
  | 0, c => c
  | n + 1, c =>
    if c.isValid && !extPresent st s c then skipLoop st s f n (c.next st s f) else c

def skipFuel (c : ScanCur) : Nat := c.under.rest.length + 1

/-- `ValidIdsCursors.Next`: `wrapped.Next()`, then the skip loop -/
def validNext (st : St) (s : Sel) (f : Filter) (c : ScanCur) : ScanCur :=
  let c' := c.next st s f
  skipLoop st s f (skipFuel c') c'

/-- `ValidIdsCursors.Seek`: `wrapped.Seek(bytes)`, then the skip loop -/
def validSeek (st : St) (s : Sel) (f : Filter) (c : ScanCur) (v : Id) : ScanCur :=
  let c' := c.seek st s f v
  skipLoop st s f (skipFuel c') c'

/-- what `IterateIds` / `IterateValidIds` return: the scanner itself, or `ValidIdsCursors{wrapped}` -/
inductive IdCur
  | plain (c : ScanCur)
  | valid (c : ScanCur)
  deriving DecidableEq, Repr

/-- `IterateValidIds`: for an extended store wrap the scanner; a first row without extension data
    is left with one `validIdsCursor.Next()` (which loops) -/
def iterateValidIdsCur (st : St) (s : Sel) (f : Filter) : IdCur :=
  let c := iterateIdsCur st s f
  if s.isExtended then
    if c.isValid && !extPresent st s c then .valid (validNext st s f c) else .valid c
  else .plain c

/-- `IsValid()` / `Current()`: `none` = invalid -/
def IdCur.current : IdCur → Option Id
  | .plain c => c.current
  | .valid c => c.current

/-- one call made by the user of a cursor -/
inductive Step
  | next
  | seek (v : Id)
  deriving DecidableEq, Repr

def IdCur.step (st : St) (s : Sel) (f : Filter) : IdCur → Step → IdCur
  | .plain c, .next => .plain (c.next st s f)
  | .plain c, .seek v => .plain (c.seek st s f v)
  | .valid c, .next => .valid (validNext st s f c)
  | .valid c, .seek v => .valid (validSeek st s f c v)

/-- what the caller sees: `Current()` (or invalid) right after the cursor was opened and after
    every call of the script -/
def IdCur.trace (st : St) (s : Sel) (f : Filter) : IdCur → List Step → List (Option Id)
  | c, [] => [c.current]
  | c, x :: xs => c.current :: IdCur.trace st s f (c.step st s f x) xs

/-- `QueryWithCursorC` without sort: `uniqueIndexScanner.ScanCursor` over the ids the caller's
    cursor provider enumerates (ids of existing entities, e.g. the entries of an index) -/
def queryWithCursor (st : St) (s : Sel) (f : Filter) (provided : List Id) : List Id :=
  scanLoop st s f provided

/-- `QueryWithCursorC` with `sort by name`: `sortingScanner.ScanCursor` (provider without repeats) -/
def queryWithCursorSorted (st : St) (s : Sel) (f : Filter) (provided : List Id) : List Id :=
  (scanLoop st s f provided).foldl (fun acc id => insRow st id acc) []

/-- the cursor over one key of the parent's set index on `roles` (`OpenValueCursor`) -/
def rolesIndexIds (st : St) (r : Val) : List Id :=
  canon ((st.rolesIdx.filter (·.1 == r)).map (·.2))

/-! ## the specification: a position in the list of the ids the store owns -/

/-- does store `s` own the entity — the parent: every entity; a plain child: the entities with its
    child data; an extended child: every parent entity for queries and `IterateIds`, the entities
    with extension data for `IterateValidIds` (`validOnly`) -/
def ownsEnt (s : Sel) (validOnly : Bool) (e : Ent) : Bool :=
  if s.isExtended && !validOnly then true else e.hasChild s

def ownedPred (ents : Ents) (s : Sel) (validOnly : Bool) (f : Filter) (id : Id) : Bool :=
  match mget ents id with
  | some e => ownsEnt s validOnly e && f.eval e
  | none => false

/-- the ids store `s` owns that satisfy the filter, in key order -/
def ownedIds (ents : Ents) (s : Sel) (validOnly : Bool) (f : Filter) : List Id :=
  (canon (mkeys ents)).filter (ownedPred ents s validOnly f)

structure ListCur where
  all : List Id
  rest : List Id
  deriving DecidableEq, Repr

def ListCur.start (l : List Id) : ListCur := ⟨l, l⟩
def ListCur.current (c : ListCur) : Option Id := c.rest.head?

def ListCur.step (c : ListCur) : Step → ListCur
  | .next => { c with rest := c.rest.tail }
  | .seek v => { c with rest := c.all.dropWhile (· < v) }

def ListCur.trace : ListCur → List Step → List (Option Id)
  | c, [] => [c.current]
  | c, x :: xs => c.current :: ListCur.trace (c.step x) xs

/-! ## sorted lists -/

theorem insSorted_pairwise (x : Nat) (l : List Nat) (h : l.Pairwise (· < ·)) :
    (insSorted x l).Pairwise (· < ·) := by
  induction l with
  | nil => simp [insSorted]
  | cons y t ih =>
    obtain ⟨hy, ht⟩ := List.pairwise_cons.1 h
    unfold insSorted
    split
    · next hxy =>
      refine List.pairwise_cons.2 ⟨?_, h⟩
      intro a ha
      rcases List.mem_cons.1 ha with rfl | ha
      · exact hxy
      · exact Nat.lt_trans hxy (hy a ha)
    · split
      · exact h
      · next h1 h2 =>
        refine List.pairwise_cons.2 ⟨?_, ih ht⟩
        intro a ha
        rcases (mem_insSorted x a t).1 ha with rfl | ha
        · omega
        · exact hy a ha

theorem canon_pairwise (l : List Nat) : (canon l).Pairwise (· < ·) := by
  induction l with
  | nil => simp [canon]
  | cons y t ih =>
    have : canon (y :: t) = insSorted y (canon t) := rfl
    rw [this]; exact insSorted_pairwise y _ ih

theorem idsInOrder_pairwise (st : St) : (idsInOrder st).Pairwise (· < ·) := canon_pairwise _

theorem dropWhile_lt_of_all_ge (l : List Nat) (v : Nat) (h : ∀ a ∈ l, ¬ a < v) :
    l.dropWhile (· < v) = l := by
  cases l with
  | nil => rfl
  | cons x t =>
    have := h x (by simp)
    simp [this]

/-- on a sorted list, seeking in the filtered list = filtering from where the seek lands -/
theorem filter_dropWhile_comm (p : Nat → Bool) (v : Nat) (l : List Nat) (hs : l.Pairwise (· < ·)) :
    (l.filter p).dropWhile (· < v) = (l.dropWhile (· < v)).filter p := by
  induction l with
  | nil => rfl
  | cons x t ih =>
    obtain ⟨hx, ht⟩ := List.pairwise_cons.1 hs
    by_cases hxv : x < v
    · cases hp : p x <;> simp [hp, hxv, ih ht]
    · have hall : ∀ a ∈ t, ¬ a < v := fun a ha => by have := hx a ha; omega
      cases hp : p x with
      | true => simp [hp, hxv]
      | false =>
        have h1 : List.filter p (x :: t) = List.filter p t := by simp [hp]
        have h2 : List.dropWhile (fun a => decide (a < v)) (x :: t) = x :: t := by simp [hxv]
        rw [h1, h2, h1]
        exact dropWhile_lt_of_all_ge _ v (fun a ha => hall a (List.mem_filter.1 ha).1)

theorem filter_dropWhile_not (p : Nat → Bool) (l : List Nat) :
    (l.dropWhile (fun a => !p a)).filter p = l.filter p := by
  induction l with
  | nil => rfl
  | cons x t ih =>
    by_cases hp : p x = true
    · simp [hp]
    · simp [hp, ih]

/-! ## the scanner: `scanLoop` / `scanNext` as a filter -/

/-- the row is returned by store `s`'s scanner: it passes the child-store rule and the filter -/
def rowOk (st : St) (s : Sel) (f : Filter) (id : Id) : Bool :=
  visible st s id &&
    (match mget st.ents id with
     | some e => f.eval e
     | none => false)

theorem scanLoop_eq_filter (st : St) (s : Sel) (f : Filter) (l : List Id) :
    scanLoop st s f l = l.filter (rowOk st s f) := by
  induction l with
  | nil => rfl
  | cons x t ih =>
    unfold scanLoop
    cases hskip : (s.isChildStore && !isEntityPresent st s x && !s.isExtended) with
    | true =>
      have hr : rowOk st s f x = false := by simp [rowOk, visible, hskip]
      simp [hr, ih]
    | false =>
      have hvis : visible st s x = true := by simp [visible, hskip]
      simp only [Bool.false_eq_true, if_false]
      cases hm : mget st.ents x with
      | none =>
        have hr : rowOk st s f x = false := by simp [rowOk, hm]
        simp [hr, ih]
      | some e =>
        cases hf : f.eval e with
        | true =>
          have hr : rowOk st s f x = true := by simp [rowOk, hvis, hm, hf]
          simp [hr, ih, hf]
        | false =>
          have hr : rowOk st s f x = false := by simp [rowOk, hm, hf]
          simp [hr, ih, hf]

/-- the rows still to come, seen from the scanner's state -/
def absOf (st : St) (s : Sel) (f : Filter) (r : List Id × Option Id) : List Id :=
  match r.2 with
  | none => []
  | some id => id :: r.1.filter (rowOk st s f)

theorem scanNext_spec (st : St) (s : Sel) (f : Filter) (l : List Id) :
    absOf st s f (scanNext st s f l) = l.filter (rowOk st s f) ∧
    ((scanNext st s f l).2 = none → (scanNext st s f l).1 = []) := by
  induction l with
  | nil => simp [scanNext, absOf]
  | cons x t ih =>
    unfold scanNext
    cases hskip : (s.isChildStore && !isEntityPresent st s x && !s.isExtended) with
    | true =>
      have hr : rowOk st s f x = false := by simp [rowOk, visible, hskip]
      simp only [if_true, List.filter_cons, hr, Bool.false_eq_true, if_false]
      exact ih
    | false =>
      have hvis : visible st s x = true := by simp [visible, hskip]
      simp only [Bool.false_eq_true, if_false]
      cases hm : mget st.ents x with
      | none =>
        have hr : rowOk st s f x = false := by simp [rowOk, hm]
        simp only [List.filter_cons, hr, Bool.false_eq_true, if_false]
        exact ih
      | some e =>
        cases hf : f.eval e with
        | true =>
          have hr : rowOk st s f x = true := by simp [rowOk, hvis, hm, hf]
          simp [absOf, hr, hf]
        | false =>
          have hr : rowOk st s f x = false := by simp [rowOk, hm, hf]
          simp only [List.filter_cons, hr, hf, Bool.false_eq_true, if_false]
          exact ih

/-! ## the scanner cursor refines the list cursor -/

/-- the rows a scanner cursor still has to deliver, its current one first -/
def ScanCur.abs (st : St) (s : Sel) (f : Filter) (c : ScanCur) : List Id :=
  match c.current with
  | none => []
  | some id => id :: c.under.rest.filter (rowOk st s f)

/-- invariant of the scanner cursors handed out over the entities bucket -/
structure ScanCur.Good (st : St) (c : ScanCur) : Prop where
  keys : c.under.keys = idsInOrder st
  done : c.current = none → c.under.rest = []

theorem ScanCur.current_eq_head (st : St) (s : Sel) (f : Filter) (c : ScanCur) :
    c.current = (c.abs st s f).head? := by
  unfold ScanCur.abs; cases c.current <;> rfl

theorem ScanCur.next_spec (st : St) (s : Sel) (f : Filter) (c : ScanCur) (h : c.Good st) :
    (c.next st s f).Good st ∧ (c.next st s f).abs st s f = (c.abs st s f).tail := by
  obtain ⟨h1, h2⟩ := scanNext_spec st s f c.under.rest
  refine ⟨⟨h.keys, h2⟩, ?_⟩
  have : (c.next st s f).abs st s f = absOf st s f (scanNext st s f c.under.rest) := rfl
  rw [this, h1]
  unfold ScanCur.abs
  cases hc : c.current with
  | none => simp [h.done hc]
  | some id => simp

theorem ScanCur.seek_spec (st : St) (s : Sel) (f : Filter) (c : ScanCur) (v : Id) (h : c.Good st) :
    (c.seek st s f v).Good st ∧
    (c.seek st s f v).abs st s f = ((idsInOrder st).filter (rowOk st s f)).dropWhile (· < v) := by
  obtain ⟨h1, h2⟩ := scanNext_spec st s f (c.under.seek v).rest
  refine ⟨⟨h.keys, h2⟩, ?_⟩
  have : (c.seek st s f v).abs st s f = absOf st s f (scanNext st s f (c.under.seek v).rest) := rfl
  rw [this, h1, filter_dropWhile_comm _ _ _ (idsInOrder_pairwise st)]
  simp [BoltCur.seek, h.keys]

theorem iterateIdsCur_spec (st : St) (s : Sel) (f : Filter) :
    (iterateIdsCur st s f).Good st ∧
    (iterateIdsCur st s f).abs st s f = (idsInOrder st).filter (rowOk st s f) := by
  obtain ⟨h1, h2⟩ := scanNext_spec st s f (idsInOrder st)
  refine ⟨⟨rfl, h2⟩, ?_⟩
  have : (iterateIdsCur st s f).abs st s f = absOf st s f (scanNext st s f (idsInOrder st)) := rfl
  rw [this, h1]

/-- the scanner cursor and the list cursor over the rows the scanner returns, in lock step -/
theorem plain_trace (st : St) (s : Sel) (f : Filter) (script : List Step) (c : ScanCur) (lc : ListCur)
    (hg : c.Good st) (hall : lc.all = (idsInOrder st).filter (rowOk st s f)) (hrest : lc.rest = c.abs st s f) :
    IdCur.trace st s f (.plain c) script = lc.trace script := by
  induction script generalizing c lc with
  | nil => simp [IdCur.trace, ListCur.trace, IdCur.current, ListCur.current, hrest, ScanCur.current_eq_head st s f c]
  | cons x xs ih =>
    have hcur : (IdCur.plain c).current = lc.current := by
      simp [IdCur.current, ListCur.current, hrest, ScanCur.current_eq_head st s f c]
    simp only [IdCur.trace, ListCur.trace, hcur]
    congr 1
    cases x with
    | next =>
      obtain ⟨g, a⟩ := ScanCur.next_spec st s f c hg
      exact ih (c.next st s f) (lc.step .next) g hall (by simp [ListCur.step, hrest, a])
    | seek v =>
      obtain ⟨g, a⟩ := ScanCur.seek_spec st s f c v hg
      exact ih (c.seek st s f v) (lc.step (.seek v)) g hall (by simp [ListCur.step, hall, a])

/-! ## `ValidIdsCursors` refines the list cursor over the rows with extension data -/

theorem abs_length_le_fuel (st : St) (s : Sel) (f : Filter) (c : ScanCur) :
    (c.abs st s f).length ≤ skipFuel c := by
  unfold ScanCur.abs skipFuel
  cases c.current with
  | none => simp
  | some id =>
    have := List.length_filter_le (rowOk st s f) c.under.rest
    simp only [List.length_cons]; omega

/-- the skip loop leaves exactly the leading rows without extension data, and it ends on an
    invalid cursor or on a row that has extension data — given fuel for the rows still to come -/
theorem skipLoop_spec (st : St) (s : Sel) (f : Filter) (n : Nat) (c : ScanCur) (hg : c.Good st)
    (hn : (c.abs st s f).length ≤ n) :
    (skipLoop st s f n c).Good st ∧
    (skipLoop st s f n c).abs st s f = (c.abs st s f).dropWhile (fun id => !isEntityPresent st s id) ∧
    (∀ id, (skipLoop st s f n c).current = some id → isEntityPresent st s id = true) := by
  induction n generalizing c with
  | zero =>
    have hnil : c.abs st s f = [] := List.eq_nil_of_length_eq_zero (Nat.le_zero.1 hn)
    have hcur : c.current = none := by
      unfold ScanCur.abs at hnil
      cases hc : c.current with
      | none => rfl
      | some id => rw [hc] at hnil; cases hnil
    refine ⟨hg, ?_, ?_⟩
    · simp [skipLoop, hnil]
    · intro id h; simp [skipLoop, hcur] at h
  | succ n ih =>
    unfold skipLoop
    cases hc : c.current with
    | none =>
      have hnil : c.abs st s f = [] := by simp [ScanCur.abs, hc]
      simp only [ScanCur.isValid, hc, Option.isSome_none, Bool.false_and, Bool.false_eq_true, if_false]
      exact ⟨hg, by simp [hnil], by intro id h; simp at h⟩
    | some id =>
      have habs : c.abs st s f = id :: c.under.rest.filter (rowOk st s f) := by simp [ScanCur.abs, hc]
      cases hp : isEntityPresent st s id with
      | true =>
        simp only [ScanCur.isValid, hc, extPresent, hp, Option.isSome_some, Bool.not_true, Bool.and_false,
          Bool.false_eq_true, if_false]
        refine ⟨hg, ?_, ?_⟩
        · rw [habs]; simp [hp]
        · intro j hj; cases hj; exact hp
      | false =>
        simp only [ScanCur.isValid, hc, extPresent, hp, Option.isSome_some, Bool.not_false, Bool.and_true, if_true]
        obtain ⟨g, a⟩ := ScanCur.next_spec st s f c hg
        have hlen : ((c.next st s f).abs st s f).length ≤ n := by
          rw [a, habs]; rw [habs] at hn; simp only [List.length_cons, List.tail_cons] at hn ⊢; omega
        obtain ⟨g', a', p'⟩ := ih (c.next st s f) g hlen
        refine ⟨g', ?_, p'⟩
        rw [a', a, habs]; simp [hp]

/-- invariant of `ValidIdsCursors`: the wrapped scanner is good and never rests on a row
    without extension data -/
structure ValidGood (st : St) (s : Sel) (c : ScanCur) : Prop where
  good : c.Good st
  present : ∀ id, c.current = some id → isEntityPresent st s id = true

/-- the rows a `ValidIdsCursors` still has to deliver -/
def validAbs (st : St) (s : Sel) (f : Filter) (c : ScanCur) : List Id :=
  (c.abs st s f).filter (fun id => isEntityPresent st s id)

theorem valid_current_eq_head (st : St) (s : Sel) (f : Filter) (c : ScanCur) (h : ValidGood st s c) :
    c.current = (validAbs st s f c).head? := by
  unfold validAbs ScanCur.abs
  cases hc : c.current with
  | none => rfl
  | some id => simp [h.present id hc]

theorem after_skip (st : St) (s : Sel) (f : Filter) (c : ScanCur) (hg : c.Good st) :
    ValidGood st s (skipLoop st s f (skipFuel c) c) ∧
    validAbs st s f (skipLoop st s f (skipFuel c) c) = validAbs st s f c := by
  obtain ⟨g, a, p⟩ := skipLoop_spec st s f (skipFuel c) c hg (abs_length_le_fuel st s f c)
  refine ⟨⟨g, p⟩, ?_⟩
  unfold validAbs
  rw [a]
  exact filter_dropWhile_not (fun id => isEntityPresent st s id) _

theorem validNext_spec (st : St) (s : Sel) (f : Filter) (c : ScanCur) (h : ValidGood st s c) :
    ValidGood st s (validNext st s f c) ∧ validAbs st s f (validNext st s f c) = (validAbs st s f c).tail := by
  obtain ⟨g, a⟩ := ScanCur.next_spec st s f c h.good
  obtain ⟨vg, va⟩ := after_skip st s f (c.next st s f) g
  refine ⟨vg, ?_⟩
  have : validNext st s f c = skipLoop st s f (skipFuel (c.next st s f)) (c.next st s f) := rfl
  rw [this, va]
  unfold validAbs
  rw [a]
  unfold ScanCur.abs
  cases hc : c.current with
  | none => simp
  | some id => simp [h.present id hc]

theorem validSeek_spec (st : St) (s : Sel) (f : Filter) (c : ScanCur) (v : Id) (h : ValidGood st s c) :
    ValidGood st s (validSeek st s f c v) ∧
    validAbs st s f (validSeek st s f c v) =
      (((idsInOrder st).filter (rowOk st s f)).filter (fun id => isEntityPresent st s id)).dropWhile (· < v) := by
  obtain ⟨g, a⟩ := ScanCur.seek_spec st s f c v h.good
  obtain ⟨vg, va⟩ := after_skip st s f (c.seek st s f v) g
  refine ⟨vg, ?_⟩
  have : validSeek st s f c v = skipLoop st s f (skipFuel (c.seek st s f v)) (c.seek st s f v) := rfl
  rw [this, va]
  unfold validAbs
  rw [a]
  exact (filter_dropWhile_comm _ v _ ((idsInOrder_pairwise st).filter _)).symm

theorem valid_trace (st : St) (s : Sel) (f : Filter) (script : List Step) (c : ScanCur) (lc : ListCur)
    (hg : ValidGood st s c)
    (hall : lc.all = ((idsInOrder st).filter (rowOk st s f)).filter (fun id => isEntityPresent st s id))
    (hrest : lc.rest = validAbs st s f c) :
    IdCur.trace st s f (.valid c) script = lc.trace script := by
  induction script generalizing c lc with
  | nil => simp [IdCur.trace, ListCur.trace, IdCur.current, ListCur.current, hrest, valid_current_eq_head st s f c hg]
  | cons x xs ih =>
    have hcur : (IdCur.valid c).current = lc.current := by
      simp [IdCur.current, ListCur.current, hrest, valid_current_eq_head st s f c hg]
    simp only [IdCur.trace, ListCur.trace, hcur]
    congr 1
    cases x with
    | next =>
      obtain ⟨g, a⟩ := validNext_spec st s f c hg
      exact ih (validNext st s f c) (lc.step .next) g hall (by simp [ListCur.step, hrest, a])
    | seek v =>
      obtain ⟨g, a⟩ := validSeek_spec st s f c v hg
      exact ih (validSeek st s f c v) (lc.step (.seek v)) g hall (by simp [ListCur.step, hall, a])

/-- the cursor `IterateValidIds` hands out for an extended store starts as the list of the rows
    with extension data (first-element skip) -/
theorem iterateValidIdsCur_extended (st : St) (s : Sel) (f : Filter) (hs : s.isExtended = true) :
    ∃ c, iterateValidIdsCur st s f = .valid c ∧ ValidGood st s c ∧
      validAbs st s f c = ((idsInOrder st).filter (rowOk st s f)).filter (fun id => isEntityPresent st s id) := by
  obtain ⟨g, a⟩ := iterateIdsCur_spec st s f
  unfold iterateValidIdsCur
  simp only [hs, if_true]
  cases hc : (iterateIdsCur st s f).current with
  | none =>
    refine ⟨iterateIdsCur st s f, by simp [ScanCur.isValid, hc], ⟨g, by intro id h; rw [hc] at h; cases h⟩, ?_⟩
    unfold validAbs; rw [a]
  | some id =>
    cases hp : isEntityPresent st s id with
    | true =>
      refine ⟨iterateIdsCur st s f, by simp [ScanCur.isValid, extPresent, hc, hp], ⟨g, ?_⟩, ?_⟩
      · intro j hj; rw [hc] at hj; cases hj; exact hp
      · unfold validAbs; rw [a]
    | false =>
      refine ⟨validNext st s f (iterateIdsCur st s f), by simp [ScanCur.isValid, extPresent, hc, hp], ?_⟩
      obtain ⟨g1, a1⟩ := ScanCur.next_spec st s f _ g
      obtain ⟨vg, va⟩ := after_skip st s f ((iterateIdsCur st s f).next st s f) g1
      refine ⟨vg, ?_⟩
      have : validNext st s f (iterateIdsCur st s f) =
          skipLoop st s f (skipFuel ((iterateIdsCur st s f).next st s f)) ((iterateIdsCur st s f).next st s f) := rfl
      rw [this, va]
      unfold validAbs
      rw [a1, ← a]
      unfold ScanCur.abs
      simp [hc, hp]

/-! ## the rows the scanners return are the ids the store owns -/

theorem isEntityPresent_eq (st : St) (s : Sel) (id : Id) :
    isEntityPresent st s id = (match mget st.ents id with | some e => e.hasChild s | none => false) := by
  unfold isEntityPresent; cases mget st.ents id <;> rfl

theorem rowOk_eq_owned (st : St) (s : Sel) (f : Filter) (id : Id) :
    rowOk st s f id = ownedPred st.ents s false f id := by
  unfold rowOk ownedPred visible ownsEnt
  rw [isEntityPresent_eq]
  cases mget st.ents id with
  | none => simp
  | some e => cases s <;> simp [Sel.isChildStore, Sel.isExtended, Ent.hasChild]

theorem rowOk_present_eq_owned (st : St) (s : Sel) (f : Filter) (id : Id) :
    (rowOk st s f id && isEntityPresent st s id) = ownedPred st.ents s true f id := by
  unfold rowOk ownedPred visible ownsEnt
  rw [isEntityPresent_eq]
  cases mget st.ents id with
  | none => simp
  | some e =>
    cases s <;> simp [Sel.isChildStore, Sel.isExtended, Ent.hasChild] <;>
      cases f.eval e <;> simp

theorem scanned_eq_owned (st : St) (s : Sel) (f : Filter) :
    (idsInOrder st).filter (rowOk st s f) = ownedIds st.ents s false f := by
  unfold ownedIds idsInOrder
  exact List.filter_congr (fun id _ => rowOk_eq_owned st s f id)

theorem scanned_present_eq_owned (st : St) (s : Sel) (f : Filter) :
    ((idsInOrder st).filter (rowOk st s f)).filter (fun id => isEntityPresent st s id) =
      ownedIds st.ents s true f := by
  unfold ownedIds idsInOrder
  rw [List.filter_filter]
  exact List.filter_congr (fun id _ => by
    rw [← rowOk_present_eq_owned st s f id, Bool.and_comm])

/-- for a store that is not extended `validOnly` makes no difference -/
theorem ownedIds_validOnly_irrelevant (ents : Ents) (s : Sel) (f : Filter) (hs : s.isExtended = false) :
    ownedIds ents s true f = ownedIds ents s false f := by
  unfold ownedIds ownedPred ownsEnt
  simp [hs]

/-! ## the list functions of Model.lean return the owned ids, in key order -/

theorem queryIds_eq_owned (st : St) (s : Sel) (f : Filter) : queryIds st s f = ownedIds st.ents s false f := by
  unfold queryIds
  rw [scanLoop_eq_filter, scanned_eq_owned]

theorem iterateValidIds_eq_owned (st : St) (s : Sel) (f : Filter) :
    iterateValidIds st s f = ownedIds st.ents s true f := by
  unfold iterateValidIds
  cases hs : s.isExtended with
  | true =>
    simp only [if_true]
    unfold queryIds
    rw [scanLoop_eq_filter, scanned_present_eq_owned]
  | false =>
    simp only [Bool.false_eq_true, if_false]
    rw [queryIds_eq_owned, ownedIds_validOnly_irrelevant _ _ _ hs]

/-! ## what a list cursor can rest on -/

theorem ListCur.trace_mem (lc : ListCur) (script : List Step) (hsub : ∀ a ∈ lc.rest, a ∈ lc.all)
    (id : Id) (h : some id ∈ lc.trace script) : id ∈ lc.all := by
  induction script generalizing lc with
  | nil =>
    simp only [ListCur.trace, ListCur.current, List.mem_singleton] at h
    exact hsub id (List.mem_of_mem_head? h.symm)
  | cons x xs ih =>
    simp only [ListCur.trace, List.mem_cons] at h
    rcases h with h | h
    · exact hsub id (List.mem_of_mem_head? (by simpa [ListCur.current] using h.symm))
    · cases x with
      | next => exact ih (lc.step .next) (fun a ha => hsub a (List.mem_of_mem_tail ha)) h
      | seek v => exact ih (lc.step (.seek v)) (fun a ha => (List.dropWhile_sublist _).mem ha) h

theorem mem_ownedIds (ents : Ents) (s : Sel) (validOnly : Bool) (f : Filter) (id : Id) :
    id ∈ ownedIds ents s validOnly f ↔
      ∃ e, mget ents id = some e ∧ ownsEnt s validOnly e = true ∧ f.eval e = true := by
  unfold ownedIds ownedPred
  rw [List.mem_filter, mem_canon, mem_mkeys]
  cases mget ents id with
  | none => simp
  | some e => simp

end StorageModel.C15
