import StorageModel.C15.Model
/-
  C15 — the specification: one table of entities, nothing else.

  * an entity is (shared fields, optional A1 data, optional A2 data);
  * creating through a child store makes the entity exist with the shared fields *and* the
    child data (over an id that exists without that child's data it extends the entity and
    replaces the shared fields);
  * updating through any store replaces the shared fields named by the checker (and the
    child's own field when issued through that child);
  * deleting through any store removes the entity, i.e. both parts;
  * the parent's constraints are constraints on the table, whoever the entity belongs to:
    `name` is non-empty and unique, `code` is unique when set;
  * indexes are not state: they are the image of the table (`derive`).
-/
namespace StorageModel.C15

abbrev Ents := Map Id Ent

/-- some *other* entity satisfies `q` -/
def otherHas (ents : Ents) (id : Id) (q : Ent → Bool) : Bool :=
  (mkeys ents).any fun j => j != id && (match mget ents j with | some e => q e | none => false)

/-- verdict of one unique constraint on the table when entity `id` takes key `new`
    (`changed`: the entity is being created or the key differs from its old one) -/
def uniqViolation (ents : Ents) (id : Id) (nullable : Bool) (dup : Err) (key : Ent → Val)
    (changed : Bool) (new : Val) : Option Err :=
  if !changed then none
  else if new == 0 then (if nullable then none else some .nonnull)
  else if otherHas ents id (fun e => key e == new) then some dup else none

/-- constraint check when entity `id` goes from `old` to `new` (`old = Ent.empty` for a new id):
    `name` non-empty and unique, `code` unique when set -/
def specCheck (ents : Ents) (id : Id) (isCreate : Bool) (old new : Ent) : Except Err Unit :=
  match uniqViolation ents id false .dupName (·.name) (isCreate || old.name != new.name) new.name with
  | some e => .error e
  | none =>
    match uniqViolation ents id true .dupCode (·.codeKey) (isCreate || old.codeKey != new.codeKey) new.codeKey with
    | some e => .error e
    | none => .ok ()

def specCreate (ents : Ents) (s : Sel) (id : Id) (p : Payload) : Except Err Ents :=
  if id = 0 then .error .blank
  else
    let base := (mget ents id).getD Ent.empty
    if (mget ents id).isSome && base.hasChild s then .error .exists_
    else
      let e' := persistChild (persistShared base p none) s p none
      match specCheck ents id true base e' with
      | .error e => .error e
      | .ok _ => .ok (mput ents id e')

def specUpdate (ents : Ents) (s : Sel) (id : Id) (p : Payload) (chk : Option Checker) : Except Err Ents :=
  if id = 0 then .error .blank
  else
    match mget ents id with
    | none => .error .notfound
    | some e =>
      if !e.hasChild s then .error .notfound
      else
        let e' := persistChild (persistShared e p chk) s p chk
        match specCheck ents id false e e' with
        | .error err => .error err
        | .ok _ => .ok (mput ents id e')

def specDelete (ents : Ents) (id : Id) : Except Err Ents :=
  match mget ents id with
  | none => .error .notfound
  | some _ => .ok (mdel ents id)

def specOp (ents : Ents) : Op → Except Err Ents
  | .create s id p => specCreate ents s id p
  | .update s id p chk => specUpdate ents s id p chk
  | .delete _ id => specDelete ents id

def specOps (ents : Ents) : List Op → Except Err Ents
  | [] => .ok ents
  | op :: rest => do
    let e' ← specOp ents op
    specOps e' rest

def specTx (ents : Ents) (tx : List Op) : Ents :=
  match specOps ents tx with
  | .ok e' => e'
  | .error _ => ents

def specRun (ents : Ents) (hist : List (List Op)) : Ents := hist.foldl specTx ents

/-- the indexes as the image of the table -/
def derive (ents : Ents) : St :=
  { ents := ents,
    nameIdx := (mkeys ents).filterMap fun id =>
      match mget ents id with
      | some e => if e.name ≠ 0 then some (e.name, id) else none
      | none => none,
    rolesIdx := (mkeys ents).flatMap fun id =>
      match mget ents id with
      | some e => e.roles.map (·, id)
      | none => [],
    codeIdx := (mkeys ents).filterMap fun id =>
      match mget ents id with
      | some e => if e.codeKey ≠ 0 then some (e.codeKey, id) else none
      | none => none }

/-! ### the one situation in which the present code departs from this specification -/

/-- `Create` through a child store over an id whose parent entity exists without that child's data -/
def findingOp (ents : Ents) : Op → Bool
  | .create s id _ =>
    s.isChildStore && id != 0 &&
      (match mget ents id with
       | some e => !e.hasChild s
       | none => false)
  | _ => false

def findingFreeOps (ents : Ents) : List Op → Bool
  | [] => true
  | op :: rest =>
    !findingOp ents op &&
      (match specOp ents op with
       | .ok e' => findingFreeOps e' rest
       | .error _ => true)

def findingFree (ents : Ents) : List (List Op) → Bool
  | [] => true
  | tx :: rest => findingFreeOps ents tx && findingFree (specTx ents tx) rest

end StorageModel.C15
