import StorageModel.C15.Spec
/-
  C15 — invariant, index-protocol lemmas and the refinement of the specification by the
  engine model (helper lemmas; the property theorems are in Properties/C15.lean).
-/
namespace StorageModel.C15

/-- a unique index is the image of the table under `key` (empty keys are not indexed) -/
def UMirror (idx : Map Val Id) (ents : Ents) (key : Ent → Val) : Prop :=
  ∀ v j, mget idx v = some j ↔ v ≠ 0 ∧ ∃ e, mget ents j = some e ∧ key e = v

/-- the set index is the image of the table under `roles` -/
def SMirror (idx : List (Val × Id)) (ents : Ents) : Prop :=
  ∀ r j, (r, j) ∈ idx ↔ ∃ e, mget ents j = some e ∧ r ∈ e.roles

/-- the parent store's indexes and constraints, over the whole population (plain-parent and
    child entities alike): unique index on `name` exact and `name` never empty, set index on
    `roles` exact, A1's unique index on `code` exact -/
structure Inv (st : St) : Prop where
  name : UMirror st.nameIdx st.ents (·.name)
  roles : SMirror st.rolesIdx st.ents
  code : UMirror st.codeIdx st.ents (·.codeKey)
  name_ne : ∀ id e, mget st.ents id = some e → e.name ≠ 0

theorem inv_init : Inv St.init := by
  constructor <;> simp [UMirror, SMirror, St.init]

/-- what `ProcessBeforeUpdate` captured is what the table says (nothing for a new id) -/
def OldTruth (ents : Ents) (id : Id) (key : Ent → Val) (old : Ent) : Prop :=
  (∃ e, mget ents id = some e ∧ key e = key old) ∨ (mget ents id = none ∧ key old = 0)

theorem otherHas_iff (ents : Ents) (id : Id) (q : Ent → Bool) :
    otherHas ents id q = true ↔ ∃ j e, j ≠ id ∧ mget ents j = some e ∧ q e = true := by
  unfold otherHas
  rw [List.any_eq_true]
  constructor
  · rintro ⟨j, hj, h⟩
    simp only [Bool.and_eq_true, bne_iff_ne, ne_eq] at h
    obtain ⟨h1, h2⟩ := h
    cases hm : mget ents j with
    | none => simp [hm] at h2
    | some e => exact ⟨j, e, h1, hm, by simpa [hm] using h2⟩
  · rintro ⟨j, e, h1, h2, h3⟩
    refine ⟨j, (mem_mkeys ents j).2 ⟨e, h2⟩, ?_⟩
    simp [h1, h2, h3]

/-! ### unique index -/

theorem uniqAfter_sound {ents : Ents} {idx : Map Val Id} {key : Ent → Val} {id : Id} {old new : Ent}
    (nullable isCreate : Bool) (dup : Err)
    (hidx : UMirror idx ents key) (hold : OldTruth ents id key old) :
    match uniqViolation ents id nullable dup key (isCreate || key old != key new) (key new) with
    | some err => uniqAfter nullable isCreate dup idx (key old) (key new) id = .error err
    | none => ∃ idx', uniqAfter nullable isCreate dup idx (key old) (key new) id = .ok idx' ∧
        UMirror idx' (mput ents id new) key ∧
        (nullable = false → (isCreate = true ∨ key old ≠ key new) → key new ≠ 0) := by
  have ho : otherHas ents id (fun e => key e == key new) = true ↔
      ∃ j e, j ≠ id ∧ mget ents j = some e ∧ key e = key new := by
    rw [otherHas_iff]; simp
  unfold uniqViolation uniqAfter
  unfold OldTruth at hold
  by_cases hch : (isCreate || key old != key new) = true
  · have h1 : (!isCreate && key old == key new) = false := by
      cases isCreate <;> simp_all
    simp only [hch, h1, Bool.not_true, Bool.false_eq_true, if_false]
    by_cases hn : key new = 0
    · simp only [hn, beq_self_eq_true, if_true]
      cases nullable
      · simp
      · simp only [if_true]
        refine ⟨_, rfl, ?_, by simp⟩
        intro v j
        have a1 := hidx v j
        have a3 := hidx (key old) id
        have a4 := hidx v id
        by_cases ho0 : key old = 0 <;> simp only [ho0, if_true, if_false, mget_mput, mget_mdel] <;> grind
    · have hn' : (key new == 0) = false := by simpa using hn
      simp only [hn', hn, Bool.false_eq_true, if_false]
      have a5 := hidx (key new) id
      have a3 := hidx (key old) id
      by_cases hoth : otherHas ents id (fun e => key e == key new) = true
      · simp only [hoth, if_true]
        obtain ⟨j, e, hj, he, hk⟩ := ho.1 hoth
        have a2 := hidx (key new) j
        have : (mget (if key old = 0 then idx else mdel idx (key old)) (key new)).isSome = true := by
          by_cases ho0 : key old = 0 <;> simp only [ho0, if_true, if_false, mget_mdel] <;> grind
        simp [this]
      · simp only [hoth]
        have hfree : ∀ j e, mget ents j = some e → key e = key new → j = id := by
          intro j e he hk
          apply Classical.byContradiction
          intro hne
          exact hoth (ho.2 ⟨j, e, hne, he, hk⟩)
        have : (mget (if key old = 0 then idx else mdel idx (key old)) (key new)).isSome = false := by
          cases hg : mget idx (key new) with
          | none => by_cases ho0 : key old = 0 <;> simp [ho0, hg]
          | some j =>
            have a2 := hidx (key new) j
            by_cases ho0 : key old = 0 <;> simp only [ho0, if_true, if_false, mget_mdel] <;> grind
        simp only [this, Bool.false_eq_true, if_false]
        refine ⟨_, rfl, ?_, fun _ _ => hn⟩
        intro v j
        have a1 := hidx v j
        have a2 := hidx (key new) j
        have a4 := hidx v id
        by_cases ho0 : key old = 0 <;> simp only [ho0, if_true, if_false, mget_mput, mget_mdel] <;> grind
  · have hic : isCreate = false := by cases isCreate <;> simp_all
    have heq : key old = key new := by cases isCreate <;> simp_all
    subst hic
    simp only [heq, bne_self_eq_false, Bool.or_self, Bool.not_false, if_true, Bool.true_and, beq_self_eq_true]
    refine ⟨_, rfl, ?_, by simp⟩
    intro v j
    have a1 := hidx v j
    have a4 := hidx v id
    simp only [mget_mput]
    grind

/-- a store without the constraint (A, A2 do not run A1's `code` index): the key is untouched,
    the specification has nothing to object to and the index still mirrors the table -/
theorem uniq_untouched {ents : Ents} {idx : Map Val Id} {key : Ent → Val} {id : Id} {old new : Ent}
    (isCreate : Bool) (dup : Err)
    (hidx : UMirror idx ents key) (hold : OldTruth ents id key old) (heq : key new = key old) :
    uniqViolation ents id true dup key (isCreate || key old != key new) (key new) = none ∧
      UMirror idx (mput ents id new) key := by
  have ho : otherHas ents id (fun e => key e == key new) = true ↔
      ∃ j e, j ≠ id ∧ mget ents j = some e ∧ key e = key new := by
    rw [otherHas_iff]; simp
  unfold OldTruth at hold
  have a5 := hidx (key new) id
  constructor
  · unfold uniqViolation
    by_cases hch : (isCreate || key old != key new) = true
    · simp only [hch, Bool.not_true, Bool.false_eq_true, if_false, if_true]
      by_cases hn : key new = 0
      · simp [hn]
      · have hn' : (key new == 0) = false := by simpa using hn
        simp only [hn', Bool.false_eq_true, if_false]
        have : ¬ otherHas ents id (fun e => key e == key new) = true := by
          intro hoth
          obtain ⟨j, e, hj, he, hk⟩ := ho.1 hoth
          have a2 := hidx (key new) j
          grind
        simp [this]
    · simp [hch]
  · intro v j
    have a1 := hidx v j
    have a4 := hidx v id
    simp only [mget_mput]
    grind

/-! ### set index -/

theorem mem_foldl_prem (old : List Val) (id : Id) (idx : List (Val × Id)) (p : Val × Id) :
    p ∈ old.foldl (fun acc r => prem acc (r, id)) idx ↔ p ∈ idx ∧ ¬ (p.2 = id ∧ p.1 ∈ old) := by
  induction old generalizing idx with
  | nil => simp
  | cons r t ih =>
    simp only [List.foldl_cons, ih, mem_prem, List.mem_cons]
    obtain ⟨a, b⟩ := p
    simp only [ne_eq, Prod.mk.injEq]
    constructor
    · rintro ⟨⟨h1, h2⟩, h3⟩
      refine ⟨h2, ?_⟩
      rintro ⟨hb, ha | ha⟩
      · exact h1 ⟨ha, hb⟩
      · exact h3 ⟨hb, ha⟩
    · rintro ⟨h1, h2⟩
      refine ⟨⟨?_, h1⟩, ?_⟩
      · rintro ⟨ha, hb⟩; exact h2 ⟨hb, Or.inl ha⟩
      · rintro ⟨hb, ha⟩; exact h2 ⟨hb, Or.inr ha⟩

theorem mem_foldl_padd (new : List Val) (id : Id) (idx : List (Val × Id)) (p : Val × Id) :
    p ∈ new.foldl (fun acc r => padd acc (r, id)) idx ↔ p ∈ idx ∨ (p.2 = id ∧ p.1 ∈ new) := by
  induction new generalizing idx with
  | nil => simp
  | cons r t ih =>
    simp only [List.foldl_cons, ih, mem_padd, List.mem_cons]
    obtain ⟨a, b⟩ := p
    simp only [Prod.mk.injEq]
    constructor
    · rintro ((⟨ha, hb⟩ | h) | ⟨hb, ha⟩)
      · exact Or.inr ⟨hb, Or.inl ha⟩
      · exact Or.inl h
      · exact Or.inr ⟨hb, Or.inr ha⟩
    · rintro (h | ⟨hb, ha | ha⟩)
      · exact Or.inl (Or.inr h)
      · exact Or.inl (Or.inl ⟨ha, hb⟩)
      · exact Or.inr ⟨hb, ha⟩

/-- what `ProcessBeforeUpdate` captured for the set index is what the table says -/
def OldRoles (ents : Ents) (id : Id) (old : Ent) : Prop :=
  (∃ e, mget ents id = some e ∧ e.roles = old.roles) ∨ (mget ents id = none ∧ old.roles = [])

theorem setAfter_mirror {ents : Ents} {idx : List (Val × Id)} {id : Id} {old new : Ent}
    (hidx : SMirror idx ents) (hold : OldRoles ents id old) :
    SMirror (setAfter idx old.roles new.roles id) (mput ents id new) := by
  intro r j
  unfold setAfter
  by_cases heq : old.roles = new.roles
  · simp only [heq, beq_self_eq_true, if_true]
    by_cases hjid : j = id
    · subst hjid
      simp only [mget_mput, if_true, Option.some.injEq]
      constructor
      · intro hm
        obtain ⟨e, he, hr⟩ := (hidx r j).1 hm
        rcases hold with ⟨e0, h0, hk0⟩ | ⟨h0, _⟩
        · rw [h0] at he; cases he; exact ⟨new, rfl, by rw [← heq, ← hk0]; exact hr⟩
        · rw [h0] at he; cases he
      · rintro ⟨e, rfl, hr⟩
        rcases hold with ⟨e0, h0, hk0⟩ | ⟨_, hk0⟩
        · exact (hidx r j).2 ⟨e0, h0, by rw [hk0, heq]; exact hr⟩
        · rw [← heq, hk0] at hr; cases hr
    · have hne : ¬ id = j := fun e => hjid e.symm
      simp only [mget_mput, hne, if_false]
      exact hidx r j
  · have hb : (old.roles == new.roles) = false := by simpa using heq
    simp only [hb, Bool.false_eq_true, if_false, mem_foldl_padd, mem_foldl_prem]
    by_cases hjid : j = id
    · subst hjid
      simp only [mget_mput, if_true, Option.some.injEq, true_and]
      constructor
      · rintro (⟨hm, hnot⟩ | hr)
        · exfalso
          obtain ⟨e, he, hr⟩ := (hidx r j).1 hm
          rcases hold with ⟨e0, h0, hk0⟩ | ⟨h0, _⟩
          · rw [h0] at he; cases he; exact hnot (hk0 ▸ hr)
          · rw [h0] at he; cases he
        · exact ⟨new, rfl, hr⟩
      · rintro ⟨e, rfl, hr⟩; exact Or.inr hr
    · have hne : ¬ id = j := fun e => hjid e.symm
      simp only [mget_mput, hne, if_false, hjid, false_and, not_false_eq_true, and_true, or_false]
      exact hidx r j

/-! ### delete -/

@[simp] theorem mget_uniqBeforeDelete (idx : Map Val Id) (v k : Val) :
    mget (uniqBeforeDelete idx v) k = if v ≠ 0 ∧ v = k then none else mget idx k := by
  unfold uniqBeforeDelete
  by_cases h0 : v = 0
  · simp [h0]
  · by_cases hk : v = k
    · subst hk; simp [h0]
    · simp [h0, hk]

@[simp] theorem mem_setBeforeDelete (idx : List (Val × Id)) (roles : List Val) (id : Id) (p : Val × Id) :
    p ∈ setBeforeDelete idx roles id ↔ p ∈ idx ∧ ¬ (p.2 = id ∧ p.1 ∈ roles) :=
  mem_foldl_prem roles id idx p

theorem umirror_delete {ents : Ents} {idx idx' : Map Val Id} {key : Ent → Val} {id : Id} {e : Ent}
    (hidx : UMirror idx ents key) (he : mget ents id = some e)
    (h' : ∀ k, mget idx' k = if key e ≠ 0 ∧ key e = k then none else mget idx k) :
    UMirror idx' (mdel ents id) key := by
  intro v j
  rw [h', mget_mdel]
  by_cases hjid : id = j
  · subst hjid
    simp only [if_true]
    constructor
    · intro hg
      split at hg
      · cases hg
      · next hne =>
        obtain ⟨hv, e0, h0, hk⟩ := (hidx v id).1 hg
        rw [he] at h0; cases h0
        exact absurd ⟨hk ▸ hv, hk⟩ hne
    · rintro ⟨_, e0, h0, _⟩; cases h0
  · simp only [hjid, if_false]
    constructor
    · intro hg
      split at hg
      · cases hg
      · exact (hidx v j).1 hg
    · intro hr
      have hg := (hidx v j).2 hr
      split
      · next heq =>
        obtain ⟨h0, heq⟩ := heq
        subst heq
        have := (hidx (key e) id).2 ⟨h0, e, he, rfl⟩
        rw [hg] at this; exact absurd (Option.some.inj this).symm hjid
      · exact hg

theorem umirror_delete_untouched {ents : Ents} {idx : Map Val Id} {key : Ent → Val} {id : Id} {e : Ent}
    (hidx : UMirror idx ents key) (he : mget ents id = some e) (h0 : key e = 0) :
    UMirror idx (mdel ents id) key :=
  umirror_delete hidx he (by intro k; simp [h0])

theorem smirror_delete {ents : Ents} {idx idx' : List (Val × Id)} {id : Id} {e : Ent}
    (hidx : SMirror idx ents) (he : mget ents id = some e)
    (h' : ∀ p, p ∈ idx' ↔ p ∈ idx ∧ ¬ (p.2 = id ∧ p.1 ∈ e.roles)) :
    SMirror idx' (mdel ents id) := by
  intro r j
  rw [h', mget_mdel]
  by_cases hjid : id = j
  · subst hjid
    simp only [if_true, true_and]
    constructor
    · rintro ⟨hm, hnot⟩
      obtain ⟨e0, h0, hr⟩ := (hidx r id).1 hm
      rw [he] at h0; cases h0
      exact absurd hr hnot
    · rintro ⟨e0, h0, _⟩; cases h0
  · have hne : ¬ j = id := fun h => hjid h.symm
    simp only [hjid, if_false, hne, false_and, not_false_eq_true, and_true]
    exact hidx r j

end StorageModel.C15
