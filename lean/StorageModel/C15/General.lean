import StorageModel.C15.Refine
import StorageModel.C15.Query
import StorageModel.C15.Derive
/-
  C15 — the property statements for either variant of `BaseStore.Create` (`Cfg`), over the
  histories `Admissible` for that variant: every history for the repaired code
  (`childCreateCapturesOld = true`), the histories free of a child-store Create over an existing
  parent-only id for the code as it was.  Properties/C15.lean instantiates them with the variant
  regenerated from the source.
-/
namespace StorageModel.C15.General
open StorageModel.C15

deriving instance DecidableEq for Except

/-- the histories the theorems speak about -/
def Admissible (cfg : Cfg) (hist : List (List Op)) : Prop :=
  cfg.childCreateCapturesOld = true ∨ findingFree [] hist = true

/-- a state reached by an admissible history -/
def Reached (cfg : Cfg) (st : St) : Prop := ∃ hist, Admissible cfg hist ∧ st = run cfg St.init hist

/-- **Parent-store indexes and constraints apply identically to child entities.**  After every
    history issued through A, A1 and A2 the parent's unique index on `name` and set index on
    `roles` (and A1's own unique index) are exactly the image of the entity table — whatever
    store an entity was created or updated through — and no entity has an empty name. -/
theorem parent_constraints_apply_to_child_entities (cfg : Cfg) (hist : List (List Op))
    (h : Admissible cfg hist) : Inv (run cfg St.init hist) :=
  (run_refines cfg hist St.init inv_init h).2

theorem reached_inv {cfg : Cfg} {st : St} (h : Reached cfg st) : Inv st := by
  obtain ⟨hist, ha, rfl⟩ := h
  exact parent_constraints_apply_to_child_entities cfg hist ha

/-- The engine model refines the table specification on every admissible history: same entity
    table, hence (indexes being its image) the same answers; and every further operation gives
    the same result — success with the same table, or the same error. -/
theorem model_refines_spec (cfg : Cfg) (hist : List (List Op)) (h : Admissible cfg hist) :
    (run cfg St.init hist).ents = specRun [] hist ∧
    ∀ op, (cfg.childCreateCapturesOld = true ∨ findingOp (specRun [] hist) op = false) →
      match specOp (specRun [] hist) op with
      | .error e => stepOp cfg (run cfg St.init hist) op = .error e
      | .ok ents' => ∃ st', stepOp cfg (run cfg St.init hist) op = .ok st' ∧ st'.ents = ents' ∧ Inv st' := by
  obtain ⟨h1, h2⟩ := run_refines cfg hist St.init inv_init h
  refine ⟨h1, ?_⟩
  intro op hop
  have := stepOp_refines cfg (run cfg St.init hist) h2 op (by rw [h1]; exact hop)
  rw [h1] at this
  exact this

/-- The specification's indexes (`derive`: the image of the table, what the spec side of the
    check prints) answer every index read exactly like the engine model's incrementally
    maintained ones, after every admissible history. -/
theorem derived_indexes_agree (cfg : Cfg) (hist : List (List Op)) (h : Admissible cfg hist) :
    let st := run cfg St.init hist
    let d := derive (specRun [] hist)
    d.ents = st.ents ∧ (∀ v, mget d.nameIdx v = mget st.nameIdx v) ∧
    (∀ r j, (r, j) ∈ d.rolesIdx ↔ (r, j) ∈ st.rolesIdx) ∧ (∀ c, mget d.codeIdx c = mget st.codeIdx c) := by
  obtain ⟨h1, h2⟩ := run_refines cfg hist St.init inv_init h
  have h1' : specRun [] hist = (run cfg St.init hist).ents := h1.symm
  simp only
  rw [h1']
  refine ⟨rfl, ?_, ?_, ?_⟩
  · intro v
    rw [derive_nameIdx]
    exact umirror_agree (deriveUniq_mirror _ _ (umirror_unique h2.name)) h2.name v
  · intro r j
    rw [derive_roles_mirror _ r j, h2.roles r j]
  · intro c
    rw [derive_codeIdx]
    exact umirror_agree (deriveUniq_mirror _ _ (umirror_unique h2.code)) h2.code c

/-- with the repair in `BaseStore.Create` no history is excepted -/
theorem fixed_create_needs_no_exception (hist : List (List Op)) :
    Inv (run ⟨true⟩ St.init hist) ∧ (run ⟨true⟩ St.init hist).ents = specRun [] hist :=
  ⟨parent_constraints_apply_to_child_entities ⟨true⟩ hist (Or.inl rfl),
   (model_refines_spec ⟨true⟩ hist (Or.inl rfl)).1⟩

/-! ### an entity created through the child exists in both -/

theorem indexAfter_ents {s : Sel} {isCreate : Bool} {st st' : St} {id : Id} {old new : Ent}
    (h : indexAfter s isCreate st id old new = .ok st') : st'.ents = mput st.ents id new := by
  unfold indexAfter at h
  cases h1 : uniqAfter false isCreate .dupName st.nameIdx old.name new.name id with
  | error e => simp [h1, bind, Except.bind] at h
  | ok n =>
    simp only [h1, bind, Except.bind] at h
    cases s with
    | A1 =>
      simp only at h
      cases h2 : uniqAfter true isCreate .dupCode st.codeIdx old.codeKey new.codeKey id with
      | error e => simp [h2] at h
      | ok c => simp only [h2, pure, Except.pure] at h; cases h; rfl
    | A => simp only [pure, Except.pure] at h; cases h; rfl
    | A2 => simp only [pure, Except.pure] at h; cases h; rfl

theorem createM_result (cfg : Cfg) (st : St) (hinv : Inv st) (s : Sel) (id : Id) (p : Payload) (st' : St)
    (hff : cfg.childCreateCapturesOld = true ∨ findingOp st.ents (.create s id p) = false)
    (h : createM cfg st s id p = .ok st') :
    Inv st' ∧ st'.ents = mput st.ents id
      (persistChild (persistShared ((mget st.ents id).getD Ent.empty) p none) s p none) := by
  have hr := createM_refines cfg st hinv s id p hff
  cases hs : specCreate st.ents s id p with
  | error e => simp only [hs] at hr; rw [hr] at h; cases h
  | ok ents' =>
    simp only [hs] at hr
    obtain ⟨st1, h1, h2, h3⟩ := hr
    rw [h1] at h; cases h
    refine ⟨h3, ?_⟩
    unfold createM at h1
    split at h1
    · cases h1
    · split at h1
      · cases h1
      · exact indexAfter_ents h1

/-- **An entity created through the child exists in both**: after a successful `Create`
    through a child store (plain or extended) the entity is found through the parent store and
    through the child store with the shared fields and the child field given, both stores'
    queries return it, and the parent's indexes hold it — at any point of any admissible
    history. -/
theorem create_through_child_exists_in_both (cfg : Cfg) (st : St) (hinv : Inv st)
    (s : Sel) (hs : s = .A1 ∨ s = .A2) (id : Id) (p : Payload) (st' : St)
    (hff : cfg.childCreateCapturesOld = true ∨ findingOp st.ents (.create s id p) = false)
    (h : createM cfg st s id p = .ok st') :
    findById st' .A id = some (p.name, canon p.roles, none) ∧
    findById st' s id = some (p.name, canon p.roles, p.child) ∧
    id ∈ queryIds st' .A .tt ∧ id ∈ queryIds st' s .tt ∧ id ∈ iterateValidIds st' s .tt ∧
    mget st'.nameIdx p.name = some id ∧ (∀ r, r ∈ p.roles → (r, id) ∈ st'.rolesIdx) := by
  obtain ⟨hinv', hents⟩ := createM_result cfg st hinv s id p st' hff h
  generalize hb : (mget st.ents id).getD Ent.empty = base at hents
  have hget : mget st'.ents id = some (persistChild (persistShared base p none) s p none) := by
    rw [hents]; simp
  have hname : (persistChild (persistShared base p none) s p none).name = p.name := by
    rcases hs with rfl | rfl <;> simp [persistChild, persistShared, proceed]
  have hroles : (persistChild (persistShared base p none) s p none).roles = canon p.roles := by
    rcases hs with rfl | rfl <;> simp [persistChild, persistShared, proceed]
  have hchild : (persistChild (persistShared base p none) s p none).hasChild s = true := by
    rcases hs with rfl | rfl <;> simp [persistChild, Ent.hasChild]
  have hfield : (persistChild (persistShared base p none) s p none).childField s = p.child := by
    rcases hs with rfl | rfl <;> simp [persistChild, Ent.childField, proceed]
  have hpres : isEntityPresent st' s id = true := by simp [isEntityPresent, hget, hchild]
  have hq : ∀ s', visible st' s' id = true → id ∈ queryIds st' s' .tt := by
    intro s' hv
    exact (mem_queryIds st' s' .tt id).2 ⟨hv, _, hget, rfl⟩
  have hvis : visible st' s id = true := by simp [visible, hpres]
  refine ⟨?_, ?_, hq .A (by simp [visible, Sel.isChildStore]), hq s hvis, ?_, ?_, ?_⟩
  · simp [findById, bucketForLoad, hget, Ent.hasChild, hname, hroles, Ent.childField]
  · simp [findById, bucketForLoad, hget, hchild, hname, hroles, hfield]
  · unfold iterateValidIds
    split
    · exact List.mem_filter.2 ⟨hq s hvis, hpres⟩
    · exact hq s hvis
  · exact (hinv'.name p.name id).2 ⟨hname ▸ hinv'.name_ne id _ hget, _, hget, hname⟩
  · intro r hr'
    exact (hinv'.roles r id).2 ⟨_, hget, by rw [hroles]; exact (mem_canon r p.roles).2 hr'⟩

/-! ### queries and lookups through a child store -/

/-- **The plain child store's queries return only entities that have child data** (and all of
    those that satisfy the filter) — for every state, every filter, unsorted and sorted scanner
    and the id iterators alike. -/
theorem child_query_only_child_rows (st : St) (f : Filter) (id : Id) :
    (id ∈ queryIds st .A1 f ↔ ∃ e, mget st.ents id = some e ∧ e.c1.isSome = true ∧ f.eval e = true) ∧
    (id ∈ querySorted st .A1 f ↔ id ∈ queryIds st .A1 f) ∧
    (id ∈ iterateValidIds st .A1 f ↔ id ∈ queryIds st .A1 f) := by
  refine ⟨?_, mem_querySorted st .A1 f id, by simp [iterateValidIds, Sel.isExtended]⟩
  rw [mem_queryIds]
  constructor
  · rintro ⟨hv, e, he, hf⟩
    refine ⟨e, he, ?_, hf⟩
    simpa [visible, Sel.isChildStore, Sel.isExtended, isEntityPresent, he, Ent.hasChild] using hv
  · rintro ⟨e, he, hc, hf⟩
    exact ⟨by simp [visible, Sel.isChildStore, Sel.isExtended, isEntityPresent, he, Ent.hasChild, hc], e, he, hf⟩

/-- **The extended child store's queries return all parent entities**: the very same answer as
    the parent store's, in the same order; only `IterateValidIds` restricts to the entities
    that have extension data. -/
theorem extended_query_all_parent_rows (st : St) (f : Filter) :
    queryIds st .A2 f = queryIds st .A f ∧ querySorted st .A2 f = querySorted st .A f ∧
    (∀ id, id ∈ queryIds st .A2 f ↔ ∃ e, mget st.ents id = some e ∧ f.eval e = true) ∧
    (∀ id, id ∈ iterateValidIds st .A2 f ↔
      ∃ e, mget st.ents id = some e ∧ e.c2.isSome = true ∧ f.eval e = true) := by
  have h1 : queryIds st .A2 f = queryIds st .A f := scanLoop_A2_eq_A st f _
  refine ⟨h1, by simp [querySorted, h1], ?_, ?_⟩
  · intro id
    rw [mem_queryIds]
    simp [visible, Sel.isExtended]
  · intro id
    simp only [iterateValidIds, Sel.isExtended, if_true, List.mem_filter, mem_queryIds]
    constructor
    · rintro ⟨⟨_, e, he, hf⟩, hp⟩
      refine ⟨e, he, ?_, hf⟩
      simpa [isEntityPresent, he, Ent.hasChild] using hp
    · rintro ⟨e, he, hc, hf⟩
      exact ⟨⟨by simp [visible, Sel.isExtended], e, he, hf⟩, by simp [isEntityPresent, he, Ent.hasChild, hc]⟩

/-- lookups through the plain child store find exactly the entities with child data, and
    show the parent's shared fields -/
theorem child_lookup_only_child_rows (st : St) (id : Id) :
    ((findById st .A1 id).isSome = true ↔ ∃ e, mget st.ents id = some e ∧ e.c1.isSome = true) ∧
    (∀ n r c, findById st .A1 id = some (n, r, c) → findById st .A id = some (n, r, none)) := by
  unfold findById bucketForLoad
  cases hm : mget st.ents id with
  | none => simp
  | some e =>
    obtain ⟨n, r, c1, c2⟩ := e
    cases c1 <;> simp [Ent.hasChild, Sel.isExtended, Ent.childField]

/-- lookups through the extended child store find every parent entity (child field nil when
    there is no extension data), with the parent's shared fields -/
theorem extended_lookup_all_parent_rows (st : St) (id : Id) :
    ((findById st .A2 id).isSome = (findById st .A id).isSome) ∧
    (∀ n r c, findById st .A2 id = some (n, r, c) → findById st .A id = some (n, r, none)) ∧
    (∀ e, mget st.ents id = some e → e.c2 = none → findById st .A2 id = some (e.name, e.roles, none)) := by
  unfold findById bucketForLoad
  cases hm : mget st.ents id with
  | none => simp
  | some e =>
    obtain ⟨n, r, c1, c2⟩ := e
    cases c2 <;> simp [Ent.hasChild, Sel.isExtended, Ent.childField]

/-! ### updating through either store -/

/-- **Updating through the parent store or through the child store is the same operation**:
    for an entity with child data the parent store's `Update` *is* the child store's `Update`
    of the stored child entity with the caller's shared fields (same resulting state, same
    indexes, same error); and a patch through the child store that does not name the child
    field does the same as the patch through the parent store, whatever child value it carries. -/
theorem update_either_route_same_state (st : St) (id : Id) (e : Ent) (hm : mget st.ents id = some e)
    (p : Payload) (chk : Option Checker) :
    (e.hasChild .A1 = true →
      updateM st .A id p chk = updateM st .A1 id { p with child := e.childField .A1 } chk) ∧
    (e.hasChild .A1 = false → e.hasChild .A2 = true →
      updateM st .A id p chk = updateM st .A2 id { p with child := e.childField .A2 } chk) ∧
    (∀ c : Checker, chk = some c → c.child = false → e.hasChild .A1 = true →
      updateM st .A1 id p chk = updateM st .A id p chk) ∧
    (∀ c : Checker, chk = some c → c.child = false → e.hasChild .A1 = false → e.hasChild .A2 = true →
      updateM st .A2 id p chk = updateM st .A id p chk) := by
  have hA1 : e.hasChild .A1 = true →
      updateM st .A id p chk = updateM st .A1 id { p with child := e.childField .A1 } chk := by
    intro h1
    simp [updateM, isEntityPresent, hm, h1, findById, bucketForLoad]
  have hA2 : e.hasChild .A1 = false → e.hasChild .A2 = true →
      updateM st .A id p chk = updateM st .A2 id { p with child := e.childField .A2 } chk := by
    intro h1 h2
    simp [updateM, isEntityPresent, hm, h1, h2, findById, bucketForLoad]
  refine ⟨hA1, hA2, ?_, ?_⟩
  · intro c hc hcc h1
    rw [hA1 h1]
    subst hc
    simp [updateM, updateChildM, bucketForLoad, hm, h1, persistChild, persistShared, proceed, hcc]
  · intro c hc hcc h1 h2
    rw [hA2 h1 h2]
    subst hc
    simp [updateM, updateChildM, bucketForLoad, hm, h2, persistChild, persistShared, proceed, hcc]

/-- … and raises the same entity events (the parent's, then the child's), so listeners of the
    child store see an update of a child entity whichever store it was issued through; creating
    through a child raises the created event on both stores, deleting through any store raises
    the deleted event on the parent and on every child store that finds the entity -/
theorem update_either_route_same_events (st : St) (id : Id) (e : Ent) (hm : mget st.ents id = some e)
    (p p' : Payload) (chk chk' : Option Checker) :
    (e.hasChild .A1 = true → eventsOf st (.update .A id p chk) = eventsOf st (.update .A1 id p' chk')) ∧
    (e.hasChild .A1 = false → e.hasChild .A2 = true →
      eventsOf st (.update .A id p chk) = eventsOf st (.update .A2 id p' chk')) ∧
    (∀ s, s = .A1 ∨ s = .A2 → eventsOf st (.create s id p) = [⟨.A, .created, id⟩, ⟨s, .created, id⟩]) ∧
    (∀ s s', eventsOf st (.delete s id) = eventsOf st (.delete s' id)) ∧
    (∀ s, ⟨.A, .deleted, id⟩ ∈ eventsOf st (.delete s id) ∧ ⟨.A2, .deleted, id⟩ ∈ eventsOf st (.delete s id) ∧
      (e.hasChild .A1 = true → ⟨.A1, .deleted, id⟩ ∈ eventsOf st (.delete s id))) := by
  refine ⟨?_, ?_, ?_, fun _ _ => rfl, ?_⟩
  · intro h1; simp [eventsOf, isEntityPresent, hm, h1]
  · intro h1 h2; simp [eventsOf, isEntityPresent, hm, h1, h2]
  · rintro s (rfl | rfl) <;> rfl
  · intro s
    by_cases h1 : e.hasChild .A1 = true <;> simp [eventsOf, bucketForLoad, hm, h1, Sel.isExtended]

/-- **Updating through either store updates the shared fields and the parent's indexes**: a
    successful `Update`/patch through any store leaves the entity with the shared fields the
    checker names replaced (visible through the parent store), every other entity untouched,
    and the parent's indexes again the exact image of the table (so the new name and roles are
    indexed and the old ones are not). -/
theorem update_updates_shared_fields_and_indexes (_cfg : Cfg) (st : St) (hinv : Inv st)
    (s : Sel) (id : Id) (p : Payload) (chk : Option Checker) (st' : St)
    (h : updateM st s id p chk = .ok st') :
    Inv st' ∧
    ∃ e, mget st.ents id = some e ∧
      findById st' .A id = some ((persistShared e p chk).name, (persistShared e p chk).roles, none) ∧
      mget st'.nameIdx (persistShared e p chk).name = some id ∧
      (e.name ≠ (persistShared e p chk).name → mget st'.nameIdx e.name = none) ∧
      (∀ r, (r, id) ∈ st'.rolesIdx ↔ r ∈ (persistShared e p chk).roles) ∧
      (∀ j, j ≠ id → mget st'.ents j = mget st.ents j) := by
  have href := updateM_refines st hinv s id p chk
  cases hs : specUpdate st.ents s id p chk with
  | error err => simp only [hs] at href; rw [href] at h; cases h
  | ok ents' =>
    simp only [hs] at href
    obtain ⟨st1, h1, h2, h3⟩ := href
    rw [h1] at h; cases h
    refine ⟨h3, ?_⟩
    unfold specUpdate at hs
    split at hs
    · cases hs
    · cases hm : mget st.ents id with
      | none => simp [hm] at hs
      | some e =>
        simp only [hm] at hs
        split at hs
        · cases hs
        · split at hs
          · cases hs
          · cases hs
            have hget : mget st'.ents id = some (persistChild (persistShared e p chk) s p chk) := by
              rw [h2]; simp
            have hn : (persistChild (persistShared e p chk) s p chk).name = (persistShared e p chk).name := by
              cases s <;> rfl
            have hro : (persistChild (persistShared e p chk) s p chk).roles = (persistShared e p chk).roles := by
              cases s <;> rfl
            refine ⟨e, rfl, ?_, ?_, ?_, ?_, ?_⟩
            · simp [findById, bucketForLoad, hget, Ent.hasChild, hn, hro, Ent.childField]
            · exact (h3.name _ id).2 ⟨hn ▸ h3.name_ne id _ hget, _, hget, hn⟩
            · intro hne
              cases hg : mget st'.nameIdx e.name with
              | none => rfl
              | some j =>
                exfalso
                obtain ⟨hv, e2, he2, hk⟩ := (h3.name _ _).1 hg
                have hold := (hinv.name e.name id).2 ⟨hinv.name_ne id e hm, e, hm, rfl⟩
                by_cases hj : j = id
                · subst hj; rw [hget] at he2; cases he2; exact hne (hk.symm.trans hn)
                · rw [h2, mget_mput, if_neg (fun h => hj h.symm)] at he2
                  have := (hinv.name e.name j).2 ⟨hv, e2, he2, hk⟩
                  rw [hold] at this; exact hj (Option.some.inj this).symm
            · intro r
              rw [h3.roles r id]
              constructor
              · rintro ⟨e2, he2, hr2⟩; rw [hget] at he2; cases he2; exact hro ▸ hr2
              · intro hr2; exact ⟨_, hget, hro.symm ▸ hr2⟩
            · intro j hj
              rw [h2, mget_mput, if_neg (fun h => hj h.symm)]

/-! ### deleting through either store -/

/-- **Deleting through either store removes both parts**: `DeleteById` through the plain child,
    the extended child or the parent is the same operation, and after it the entity is found
    through no store, returned by no store's queries, and has no child data left. -/
theorem delete_either_route_removes_both (st : St) (s : Sel) (id : Id) :
    deleteM st s id = deleteM st .A id ∧
    ∀ st', deleteM st s id = .ok st' →
      ∀ s', findById st' s' id = none ∧ isEntityPresent st' s' id = false ∧
        (∀ f, id ∉ queryIds st' s' f) ∧ (∀ f, id ∉ querySorted st' s' f) ∧ (∀ f, id ∉ iterateValidIds st' s' f) := by
  refine ⟨rfl, ?_⟩
  intro st' h s'
  have hgone : mget st'.ents id = none := by
    cases hm : mget st.ents id with
    | none => simp [deleteM, hm] at h
    | some e =>
      obtain ⟨st1, h1, h2, _⟩ := deleteM_some st s id e hm
      rw [h1] at h; cases h
      rw [h2]; simp
  have hq : ∀ f, id ∉ queryIds st' s' f := by
    intro f hmem
    obtain ⟨_, e, he, _⟩ := (mem_queryIds st' s' f id).1 hmem
    rw [hgone] at he; cases he
  refine ⟨by simp [findById, bucketForLoad, hgone], by simp [isEntityPresent, hgone], hq, ?_, ?_⟩
  · intro f hmem; exact hq f ((mem_querySorted st' s' f id).1 hmem)
  · intro f hmem
    unfold iterateValidIds at hmem
    split at hmem
    · exact hq f (List.mem_filter.1 hmem).1
    · exact hq f hmem

/-- … and leaves no trace of the id: no index entry of the parent store or of the child store
    refers to it any more, every other entity is untouched, and the invariant still holds. -/
theorem delete_leaves_no_trace (_cfg : Cfg) (st : St) (hinv : Inv st) (s : Sel) (id : Id) (st' : St)
    (h : deleteM st s id = .ok st') :
    Inv st' ∧ mget st'.ents id = none ∧
    (∀ v, mget st'.nameIdx v ≠ some id) ∧ (∀ r, (r, id) ∉ st'.rolesIdx) ∧ (∀ c, mget st'.codeIdx c ≠ some id) ∧
    (∀ j, j ≠ id → mget st'.ents j = mget st.ents j) := by
  have href := deleteM_refines st hinv s id
  unfold specDelete at href
  cases hm : mget st.ents id with
  | none => simp [deleteM, hm] at h
  | some e =>
    simp only [hm] at href
    obtain ⟨st1, h1, h2, h3⟩ := href
    rw [h1] at h; cases h
    have hgone : mget st'.ents id = none := by rw [h2]; simp
    refine ⟨h3, hgone, ?_, ?_, ?_, ?_⟩
    · intro v hv
      obtain ⟨_, e2, he2, _⟩ := (h3.name v id).1 hv
      rw [hgone] at he2; cases he2
    · intro r hr'
      obtain ⟨e2, he2, _⟩ := (h3.roles r id).1 hr'
      rw [hgone] at he2; cases he2
    · intro c hc
      obtain ⟨_, e2, he2, _⟩ := (h3.code c id).1 hc
      rw [hgone] at he2; cases he2
    · intro j hj
      rw [h2, mget_mdel, if_neg (fun h => hj h.symm)]

/-! ### child data appears and disappears only through create and delete -/

/-- how an operation changes "entity `j` has child data in store `s`" -/
def childDataAfter (op : Op) (s : Sel) (j : Id) (before : Bool) : Bool :=
  match op with
  | .create s' id _ => (s' == s && id == j) || before
  | .update _ _ _ _ => before
  | .delete _ id => id != j && before

/-- which entities have child data changes only by `Create` through that child store and by
    `DeleteById` (through any store) — for every state and every successful operation -/
theorem child_data_changes_only_by_create_delete (cfg : Cfg) (st st' : St) (op : Op)
    (h : stepOp cfg st op = .ok st') (s : Sel) (hs : s = .A1 ∨ s = .A2) (j : Id) :
    isEntityPresent st' s j = childDataAfter op s j (isEntityPresent st s j) := by
  cases op with
  | create s' id p =>
    simp only [childDataAfter]
    simp only [stepOp, createM] at h
    split at h
    · cases h
    · split at h
      · cases h
      · next hid hpres =>
        have := indexAfter_ents h
        simp only [isEntityPresent, this, mget_mput]
        by_cases hj : id = j
        · subst hj
          simp only [if_true, beq_self_eq_true, Bool.and_true]
          simp only [isEntityPresent] at hpres
          cases hm : mget st.ents id with
          | none =>
            rcases hs with rfl | rfl <;> cases s' <;>
              simp [Ent.empty, persistChild, persistShared, Ent.hasChild]
          | some b =>
            simp only [hm] at hpres
            rcases hs with rfl | rfl <;> cases s' <;>
              simp_all [persistChild, persistShared, Ent.hasChild]
        · simp [hj]
  | update s' id p chk =>
    simp only [childDataAfter]
    have key : ∀ s'' p', updateChildM st s'' id p' chk = .ok st' →
        isEntityPresent st' s j = isEntityPresent st s j := by
      intro s'' p' h'
      simp only [updateChildM, bucketForLoad] at h'
      split at h'
      · cases h'
      · cases hm : mget st.ents id with
        | none => simp [hm] at h'
        | some e =>
          simp only [hm] at h'
          split at h'
          · cases h'
          · next e1 he1 =>
            split at h'
            · cases h'
            · next hhc =>
              have hee : e1 = e := by
                split at he1 <;> simp_all
              subst hee
              have := indexAfter_ents h'
              simp only [isEntityPresent, this, mget_mput]
              by_cases hj : id = j
              · subst hj
                simp only [if_true, hm]
                have hhc' : e1.hasChild s'' = true := by simpa using hhc
                rcases hs with rfl | rfl <;> cases s'' <;>
                  simp_all [persistChild, persistShared, Ent.hasChild]
              · simp [hj]
    simp only [stepOp] at h
    cases s' with
    | A1 => exact key _ _ h
    | A2 => exact key _ _ h
    | A =>
      simp only [updateM] at h
      split at h
      · split at h
        · exact key _ _ h
        · cases h
      · split at h
        · split at h
          · exact key _ _ h
          · cases h
        · split at h
          · cases h
          · split at h
            · cases h
            · next e he =>
              have := indexAfter_ents h
              simp only [isEntityPresent, this, mget_mput]
              by_cases hj : id = j
              · subst hj
                simp only [if_true, he]
                rcases hs with rfl | rfl <;> simp [persistShared, Ent.hasChild]
              · simp [hj]
  | delete s' id =>
    simp only [childDataAfter]
    simp only [stepOp] at h
    cases hm : mget st.ents id with
    | none => simp [deleteM, hm] at h
    | some e =>
      obtain ⟨st1, h1, h2, _⟩ := deleteM_some st s' id e hm
      rw [h1] at h; cases h
      simp only [isEntityPresent, h2, mget_mdel]
      by_cases hj : id = j <;> simp [hj]

/-! ### the parent's uniqueness constraint is enforced on operations through a child store -/

/-- a `Create` through a child store with a name that another entity — plain-parent or child —
    already holds is refused as a duplicate, exactly as through the parent store; so is an
    `Update`/patch through a child store that changes the name to a taken one -/
theorem uniqueness_enforced_through_child (cfg : Cfg) (st : St) (hinv : Inv st)
    (s : Sel) (id other : Id) (eo : Ent) (p : Payload)
    (hne : other ≠ id) (ho : mget st.ents other = some eo) (hname : eo.name = p.name) :
    (id ≠ 0 → isEntityPresent st s id = false →
      (cfg.childCreateCapturesOld = true ∨ findingOp st.ents (.create s id p) = false) →
      createM cfg st s id p = .error .dupName) ∧
    (∀ e chk, id ≠ 0 → mget st.ents id = some e → e.hasChild s = true → proceed chk (·.name) = true →
      e.name ≠ p.name → updateM st s id p chk = .error .dupName) := by
  have hp0 : p.name ≠ 0 := hname ▸ hinv.name_ne other eo ho
  have hother : otherHas st.ents id (fun e => e.name == p.name) = true :=
    (otherHas_iff _ _ _).2 ⟨other, eo, hne, ho, by simp [hname]⟩
  constructor
  · intro hid hpres hff
    have href := createM_refines cfg st hinv s id p hff
    have hspec : specCreate st.ents s id p = .error .dupName := by
      unfold specCreate
      simp only [hid, if_false]
      have hnp : ¬ ((mget st.ents id).isSome && ((mget st.ents id).getD Ent.empty).hasChild s) = true := by
        cases hm : mget st.ents id with
        | none => simp
        | some b => simpa [isEntityPresent, hm] using hpres
      simp only [hnp]
      have hn : (persistChild (persistShared ((mget st.ents id).getD Ent.empty) p none) s p none).name = p.name := by
        cases s <;> simp [persistChild, persistShared, proceed]
      simp [specCheck, uniqViolation, hn, hp0, hother]
    simp only [hspec] at href
    exact href
  · intro e chk hid hm hhc hpn hnn
    have href := updateM_refines st hinv s id p chk
    have hspec : specUpdate st.ents s id p chk = .error .dupName := by
      unfold specUpdate
      simp only [hid, if_false, hm, hhc, Bool.not_true, Bool.false_eq_true]
      have hn : (persistChild (persistShared e p chk) s p chk).name = p.name := by
        cases s <;> simp [persistChild, persistShared, hpn]
      have hch : (e.name != p.name) = true := by simpa using hnn
      simp [specCheck, uniqViolation, hn, hp0, hother, hch]
    simp only [hspec] at href
    exact href

end StorageModel.C15.General
