import StorageModel.C15.Map
/-
  C15 — executable model of a parent store A ("things") with a plain child store A1 (path
  "ext1", field `code`, own nullable unique index) and an extended child store A2 (path
  "ext2", field `colour`), following boltz/store.go, store_crud.go, store_query.go,
  query_scanners.go, base.go and the index protocol of indexes.go branch by branch.

  Identifiers and field values are small natural numbers; `0` stands for the empty string
  (blank id / empty value: `len(value) == 0` in the index code, which is also what a nil
  `*string` evaluates to).

  bbolt state:
    u/things/<id>/{name, roles/…, ext1/{code}, ext2/{colour}}    `ents`
    u/indexes/things/name      value ↦ id                         `nameIdx`  (unique, not nullable)
    u/indexes/things/roles/<v>/<id>                               `rolesIdx` (set index)
    u/indexes/things/code      value ↦ id                         `codeIdx`  (A1's own index, nullable)
-/
namespace StorageModel.C15

abbrev Id := Nat
abbrev Val := Nat

inductive Err
  | blank      -- "cannot create/update … with blank id"
  | exists_    -- "an entity of type … already exists with id …"
  | notfound   -- entityNotFoundF
  | dupName    -- UniqueIndexDuplicateError on things.name
  | dupCode    -- UniqueIndexDuplicateError on things.code
  | nonnull    -- "index on things.name does not allow null or empty values"
  | invalidName   -- the parent entity strategy refuses the name (reported on the persist context's bucket)
  | invalidRoles  -- the parent entity strategy refuses the roles (more than three)
  deriving DecidableEq, Repr

/-- which store an operation is issued through -/
inductive Sel
  | A | A1 | A2
  deriving DecidableEq, Repr

/-- one entity bucket.  `c1` / `c2`: the child data bucket (`ext1` / `ext2`) if present, holding the
    child's `*string` field (`none` = nil). -/
structure Ent where
  name : Val
  roles : List Val
  c1 : Option (Option Val)
  c2 : Option (Option Val)
  deriving DecidableEq, Repr

/-- a freshly created, still empty entity bucket (`getOrCreateEntityBucket` on a new id):
    every symbol evaluates to nil -/
def Ent.empty : Ent := ⟨0, [], none, none⟩

/-- the entity handed to Create/Update (child field: `code` through A1, `colour` through A2,
    unused through A) -/
structure Payload where
  name : Val
  roles : List Val
  child : Option Val
  deriving DecidableEq, Repr

/-- FieldChecker (`IsUpdated`) for a patch; the letter `child` stands for both child field names -/
structure Checker where
  name : Bool
  roles : Bool
  child : Bool
  deriving DecidableEq, Repr

inductive Op
  | create (s : Sel) (id : Id) (p : Payload)
  | update (s : Sel) (id : Id) (p : Payload) (chk : Option Checker)
  | delete (s : Sel) (id : Id)
  deriving DecidableEq, Repr

structure St where
  ents : Map Id Ent
  nameIdx : Map Val Id
  rolesIdx : List (Val × Id)
  codeIdx : Map Val Id
  deriving DecidableEq, Repr

def St.init : St := ⟨[], [], [], []⟩

/-- how `Create` through a child store treats an already existing parent entity.
    `false`: the code as it is (no old values are captured: `AtomStates`/`SetStates` stay empty);
    `true`: the proposed repair (the parent's indexing context runs `ProcessBeforeUpdate` first). -/
structure Cfg where
  childCreateCapturesOld : Bool
  deriving DecidableEq, Repr

/-! ## store.go / store_crud.go: buckets and presence -/

def Sel.isChildStore : Sel → Bool
  | .A => false
  | _ => true

def Sel.isExtended : Sel → Bool
  | .A2 => true
  | _ => false

/-- does the entity bucket contain the child store's sub-bucket (`entityBucket.GetPath(entityPath…)`) -/
def Ent.hasChild (e : Ent) : Sel → Bool
  | .A => true
  | .A1 => e.c1.isSome
  | .A2 => e.c2.isSome

/-- `GetEntityBucket(tx, id) != nil`, i.e. `IsEntityPresent` -/
def isEntityPresent (st : St) (s : Sel) (id : Id) : Bool :=
  match mget st.ents id with
  | none => false
  | some e => e.hasChild s

/-- `getEntityBucketForLoad`: the child bucket; for an extended store fall back to a typed bucket
    without underlying bbolt bucket whose parent is the parent entity bucket (child fields read nil) -/
def bucketForLoad (st : St) (s : Sel) (id : Id) : Option Ent :=
  match mget st.ents id with
  | none => none
  | some e => if e.hasChild s then some e else if s.isExtended then some e else none

/-- the child's own field as the store's entity strategy reads it (`bucket.GetString`) -/
def Ent.childField (e : Ent) : Sel → Option Val
  | .A => none
  | .A1 => match e.c1 with | some c => c | none => none
  | .A2 => match e.c2 with | some c => c | none => none

/-- `FindById` through store `s`: (name, roles, child field) -/
def findById (st : St) (s : Sel) (id : Id) : Option (Val × List Val × Option Val) :=
  match bucketForLoad st s id with
  | none => none
  | some e => some (e.name, e.roles, e.childField s)

/-! ## persisting (entity strategies + `PersistContext.GetParentContext`) -/

def proceed (chk : Option Checker) (f : Checker → Bool) : Bool :=
  match chk with
  | none => true
  | some c => f c

/-- the parent strategy's `PersistEntity` (through `GetParentContext` when called by a child):
    `SetString(name)`, `SetStringList(roles)` -/
def persistShared (e : Ent) (p : Payload) (chk : Option Checker) : Ent :=
  { e with name := if proceed chk (·.name) then p.name else e.name,
           roles := if proceed chk (·.roles) then canon p.roles else e.roles }

/-- the child strategy's own part, into the child bucket: `SetStringP(code|colour)`.
    `ensure`: the child bucket exists (created by `getOrCreateEntityBucket` on Create) -/
def persistChild (e : Ent) (s : Sel) (p : Payload) (chk : Option Checker) : Ent :=
  match s with
  | .A => e
  | .A1 => { e with c1 := some (if proceed chk (·.child) then p.child else e.childField .A1) }
  | .A2 => { e with c2 := some (if proceed chk (·.child) then p.child else e.childField .A2) }

/-! ## indexes.go: the index protocol -/

/-- `Eval` of the `code` symbol (store A1): nil bucket / nil value / empty string all have length 0 -/
def Ent.codeKey (e : Ent) : Val :=
  match e.c1 with
  | some (some v) => v
  | _ => 0

/-- `uniqueIndex.ProcessAfterUpdate` (old value from `AtomStates`, captured by ProcessBeforeUpdate) -/
def uniqAfter (nullable isCreate : Bool) (dup : Err) (idx : Map Val Id) (old new : Val) (id : Id) :
    Except Err (Map Val Id) :=
  if !isCreate && old == new then .ok idx
  else
    let idx1 := if old = 0 then idx else mdel idx old         -- `len(oldValue) > 0` ⇒ DeleteValue(oldValue)
    if new = 0 then                                           -- `len(newValue) > 0` fails
      if nullable then .ok idx1 else .error .nonnull
    else if (mget idx1 new).isSome then .error dup            -- `indexBucket.Get(newValue) != nil`
    else .ok (mput idx1 new id)

/-- `setIndex.ProcessAfterUpdate` (old values from `SetStates`) -/
def setAfter (idx : List (Val × Id)) (old new : List Val) (id : Id) : List (Val × Id) :=
  if old == new then idx          -- `changed == false`
  else
    let idx1 := old.foldl (fun acc r => prem acc (r, id)) idx   -- DeleteListEntry (+ deleteIndexKey when empty)
    new.foldl (fun acc r => padd acc (r, id)) idx1              -- SetListEntry

/-- `uniqueIndex.ProcessBeforeDelete` -/
def uniqBeforeDelete (idx : Map Val Id) (v : Val) : Map Val Id :=
  if v = 0 then idx else mdel idx v

/-- `setIndex.ProcessBeforeDelete` -/
def setBeforeDelete (idx : List (Val × Id)) (roles : List Val) (id : Id) : List (Val × Id) :=
  roles.foldl (fun acc r => prem acc (r, id)) idx

/-- `IndexingContext.ProcessAfterUpdate` along the chain built by `newIndexingContext`: first the
    parent's constraints (unique `name`, set `roles`), then the child's own (`code`, store A1
    only).  The shared error holder makes every later constraint a no-op after the first error.
    `old` is what `ProcessBeforeUpdate` captured (nothing on Create). -/
def indexAfter (s : Sel) (isCreate : Bool) (st : St) (id : Id) (old new : Ent) : Except Err St := do
  let n ← uniqAfter false isCreate .dupName st.nameIdx old.name new.name id
  let r := setAfter st.rolesIdx old.roles new.roles id
  let c ← match s with
    | .A1 => uniqAfter true isCreate .dupCode st.codeIdx old.codeKey new.codeKey id
    | _ => pure st.codeIdx
  pure { ents := mput st.ents id new, nameIdx := n, rolesIdx := r, codeIdx := c }

/-- `IndexingContext.ProcessBeforeDelete` along the chain of store `s` (parent first) -/
def indexBeforeDelete (s : Sel) (st : St) (id : Id) (e : Ent) : St :=
  { st with nameIdx := uniqBeforeDelete st.nameIdx e.name,
            rolesIdx := setBeforeDelete st.rolesIdx e.roles id,
            codeIdx := match s with
              | .A1 => uniqBeforeDelete st.codeIdx e.codeKey
              | _ => st.codeIdx }

/-! ## store_crud.go: Create / Update / DeleteById -/

/-- `BaseStore.Create` through store `s` -/
def createM (cfg : Cfg) (st : St) (s : Sel) (id : Id) (p : Payload) : Except Err St :=
  if id = 0 then .error .blank
  else if isEntityPresent st s id then .error .exists_     -- checks the *child* bucket only
  else
    -- getOrCreateEntityBucket: the parent's entity bucket may already exist
    let base := (mget st.ents id).getD Ent.empty
    let e' := persistChild (persistShared base p none) s p none
    -- newIndexingContext(isCreate = true): no ProcessBeforeUpdate, so the old values are nil …
    let old := if cfg.childCreateCapturesOld then base else Ent.empty
    indexAfter s true st id old e'

/-- `BaseStore.Update` through a child store (no child strategies of its own) -/
def updateChildM (st : St) (s : Sel) (id : Id) (p : Payload) (chk : Option Checker) : Except Err St :=
  if id = 0 then .error .blank
  else
    match bucketForLoad st s id with            -- store.FindById
    | none => .error .notfound
    | some e =>
      if !e.hasChild s then .error .notfound     -- store.GetEntityBucket == nil (extended store, parent-only id)
      else
        let e' := persistChild (persistShared e p chk) s p chk
        indexAfter s false st id e e'              -- ProcessBeforeUpdate captured `e`

/-- `BaseStore.Update` through store `s` -/
def updateM (st : St) (s : Sel) (id : Id) (p : Payload) (chk : Option Checker) : Except Err St :=
  match s with
  | .A =>
    -- childStoreStrategies, in registration order; the mapper says "has child data" and hands the
    -- child store its stored entity with the shared fields replaced
    if isEntityPresent st .A1 id then
      match findById st .A1 id with
      | some (_, _, c) => updateChildM st .A1 id { p with child := c } chk
      | none => .error .notfound
    else if isEntityPresent st .A2 id then
      match findById st .A2 id with
      | some (_, _, c) => updateChildM st .A2 id { p with child := c } chk
      | none => .error .notfound
    else if id = 0 then .error .blank
    else
      match mget st.ents id with
      | none => .error .notfound
      | some e => indexAfter .A false st id e (persistShared e p chk)
  | s => updateChildM st s id p chk

/-- `processDeleteConstraints` of store `s`: nothing unless `FindById` through `s` finds the entity -/
def processDeleteConstraints (st : St) (s : Sel) (id : Id) : St :=
  match bucketForLoad st s id with
  | none => st
  | some e => indexBeforeDelete s st id e

/-- `BaseStore.DeleteById`: a child store hands over to its parent; the parent fans out -/
def deleteM (st : St) (_s : Sel) (id : Id) : Except Err St :=
  match mget st.ents id with                    -- parent FindById
  | none => .error .notfound
  | some _ =>
    let st1 := processDeleteConstraints st .A1 id
    let st2 := processDeleteConstraints st1 .A2 id
    let st3 := processDeleteConstraints st2 .A id
    .ok { st3 with ents := mdel st3.ents id }    -- DeleteEntity: the whole entity bucket

def stepOp (cfg : Cfg) (st : St) : Op → Except Err St
  | .create s id p => createM cfg st s id p
  | .update s id p chk => updateM st s id p chk
  | .delete s id => deleteM st s id

/-- one `Db.Update` transaction: operations in order; the first error rolls everything back -/
def stepOps (cfg : Cfg) (st : St) : List Op → Except Err St
  | [] => .ok st
  | op :: rest => do
    let st' ← stepOp cfg st op
    stepOps cfg st' rest

def stepTx (cfg : Cfg) (st : St) (tx : List Op) : St :=
  match stepOps cfg st tx with
  | .ok st' => st'
  | .error _ => st

def run (cfg : Cfg) (st : St) (hist : List (List Op)) : St := hist.foldl (stepTx cfg) st

/-! ## entity events (store.go `fireParentEvent` / `fireEvents`, DeleteById's change flows) -/

inductive EvKind
  | created | updated | deleted
  deriving DecidableEq, Repr

/-- an entity event delivered to the listeners of one store after commit -/
structure Ev where
  store : Sel
  kind : EvKind
  id : Id
  deriving DecidableEq, Repr

/-- the events a *successful* operation queues, in delivery order: a child store first raises
    the parent's event (`fireParentEvent`), then its own; the parent's `Update` raises whatever
    the store it delegated to raises; `DeleteById` raises the parent's event and then one per
    child store whose `FindById` finds the entity (the extended store finds every parent entity) -/
def eventsOf (st : St) : Op → List Ev
  | .create .A id _ => [⟨.A, .created, id⟩]
  | .create s id _ => [⟨.A, .created, id⟩, ⟨s, .created, id⟩]
  | .update .A id _ _ =>
    if isEntityPresent st .A1 id then [⟨.A, .updated, id⟩, ⟨.A1, .updated, id⟩]
    else if isEntityPresent st .A2 id then [⟨.A, .updated, id⟩, ⟨.A2, .updated, id⟩]
    else [⟨.A, .updated, id⟩]
  | .update s id _ _ => [⟨.A, .updated, id⟩, ⟨s, .updated, id⟩]
  | .delete _ id =>
    [⟨.A, .deleted, id⟩] ++ (if (bucketForLoad st .A1 id).isSome then [⟨.A1, .deleted, id⟩] else []) ++
      (if (bucketForLoad st .A2 id).isSome then [⟨.A2, .deleted, id⟩] else [])

/-! ## query_scanners.go / store_query.go -/

inductive Filter
  | tt
  | nameEq (v : Val)
  | hasRole (r : Val)
  deriving DecidableEq, Repr

def Filter.eval : Filter → Ent → Bool
  | .tt, _ => true
  | .nameEq v, e => e.name == v
  | .hasRole r, e => e.roles.contains r

/-- the loop shared by `uniqueIndexScanner.Next`, `.nextUnpaged` and `sortingScanner.ScanCursor`:
    walk the *parent's* entities bucket in key order; skip a row iff
    `IsChildStore ∧ ¬IsEntityPresent ∧ ¬IsExtended`; then evaluate the filter -/
def scanLoop (st : St) (s : Sel) (f : Filter) : List Id → List Id
  | [] => []
  | id :: rest =>
    if s.isChildStore && !isEntityPresent st s id && !s.isExtended then scanLoop st s f rest
    else
      match mget st.ents id with
      | some e => if f.eval e then id :: scanLoop st s f rest else scanLoop st s f rest
      | none => scanLoop st s f rest

/-- the cursor over the entities bucket: ids in key order -/
def idsInOrder (st : St) : List Id := canon (mkeys st.ents)

/-- `QueryIds` without sort (uniqueIndexScanner), also `IterateIds` -/
def queryIds (st : St) (s : Sel) (f : Filter) : List Id := scanLoop st s f (idsInOrder st)

/-- `IterateValidIds`: for an extended store additionally skip ids without extension data -/
def iterateValidIds (st : St) (s : Sel) (f : Filter) : List Id :=
  if s.isExtended then (queryIds st s f).filter (fun id => isEntityPresent st s id)
  else queryIds st s f

/-- row comparator `sort by name` (+ implicit `id`) -/
def rowLe (st : St) (a b : Id) : Bool :=
  let na := ((mget st.ents a).map (·.name)).getD 0
  let nb := ((mget st.ents b).map (·.name)).getD 0
  na < nb || (na == nb && a ≤ b)

def insRow (st : St) (x : Id) : List Id → List Id
  | [] => [x]
  | y :: t => if rowLe st x y then x :: y :: t else y :: insRow st x t

/-- `QueryIds` with `sort by name` (sortingScanner: insert every matching row into the ordered tree) -/
def querySorted (st : St) (s : Sel) (f : Filter) : List Id :=
  (queryIds st s f).foldl (fun acc id => insRow st id acc) []

end StorageModel.C15
