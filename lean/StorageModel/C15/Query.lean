import StorageModel.C15.Spec
/-
  C15 — what the scanners return (helper lemmas for Properties/C15.lean).
-/
namespace StorageModel.C15

/-- the row passes the child-store rule of the scanners -/
def visible (st : St) (s : Sel) (id : Id) : Bool :=
  !(s.isChildStore && !isEntityPresent st s id && !s.isExtended)

theorem mem_scanLoop (st : St) (s : Sel) (f : Filter) (l : List Id) (id : Id) :
    id ∈ scanLoop st s f l ↔ id ∈ l ∧ visible st s id = true ∧ ∃ e, mget st.ents id = some e ∧ f.eval e = true := by
  induction l with
  | nil => simp [scanLoop]
  | cons x t ih =>
    unfold scanLoop
    cases hskip : (s.isChildStore && !isEntityPresent st s x && !s.isExtended) with
    | true =>
      have hvis : visible st s x = false := by simp [visible, hskip]
      simp only [if_true, ih, List.mem_cons]
      grind
    | false =>
      have hvis : visible st s x = true := by simp [visible, hskip]
      simp only [Bool.false_eq_true, if_false]
      cases hm : mget st.ents x with
      | none =>
        simp only [ih, List.mem_cons]
        grind
      | some e =>
        simp only
        cases hf : f.eval e with
        | true =>
          simp only [if_true, List.mem_cons, ih]
          grind
        | false =>
          simp only [Bool.false_eq_true, if_false, ih, List.mem_cons]
          grind

theorem mem_idsInOrder (st : St) (id : Id) : id ∈ idsInOrder st ↔ ∃ e, mget st.ents id = some e := by
  simp [idsInOrder, mem_mkeys]

theorem mem_queryIds (st : St) (s : Sel) (f : Filter) (id : Id) :
    id ∈ queryIds st s f ↔ visible st s id = true ∧ ∃ e, mget st.ents id = some e ∧ f.eval e = true := by
  unfold queryIds
  rw [mem_scanLoop, mem_idsInOrder]
  constructor
  · rintro ⟨_, h2, h3⟩; exact ⟨h2, h3⟩
  · rintro ⟨h2, e, he, hf⟩; exact ⟨⟨e, he⟩, h2, e, he, hf⟩

theorem mem_insRow (st : St) (x a : Id) (l : List Id) : a ∈ insRow st x l ↔ a = x ∨ a ∈ l := by
  induction l with
  | nil => simp [insRow]
  | cons y t ih =>
    unfold insRow
    split
    · simp
    · simp only [List.mem_cons, ih]
      constructor
      · rintro (h | h | h) <;> simp [h]
      · rintro (h | h | h) <;> simp [h]

theorem mem_foldl_insRow (st : St) (l acc : List Id) (a : Id) :
    a ∈ l.foldl (fun acc id => insRow st id acc) acc ↔ a ∈ l ∨ a ∈ acc := by
  induction l generalizing acc with
  | nil => simp
  | cons x t ih =>
    simp only [List.foldl_cons, ih, mem_insRow, List.mem_cons]
    constructor
    · rintro (h | h | h) <;> simp [h]
    · rintro ((h | h) | h) <;> simp [h]

/-- the sorting scanner returns the same rows as the plain scanner (in another order) -/
theorem mem_querySorted (st : St) (s : Sel) (f : Filter) (id : Id) :
    id ∈ querySorted st s f ↔ id ∈ queryIds st s f := by
  simp [querySorted, mem_foldl_insRow]

theorem scanLoop_A2_eq_A (st : St) (f : Filter) (l : List Id) : scanLoop st .A2 f l = scanLoop st .A f l := by
  induction l with
  | nil => rfl
  | cons x t ih => simp [scanLoop, Sel.isChildStore, Sel.isExtended, ih]

end StorageModel.C15
