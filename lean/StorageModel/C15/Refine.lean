import StorageModel.C15.Proofs
/-
  C15 — every operation of the engine model, issued through any of the three stores, refines
  the table specification and preserves the invariant (helper lemmas for Properties/C15.lean).
-/
namespace StorageModel.C15

/-- the index protocol run by Create/Update, against the specification's constraint check -/
theorem indexAfter_sound (s : Sel) (isCreate : Bool) (st : St) (hinv : Inv st) (id : Id) (old new : Ent)
    (hn : OldTruth st.ents id (·.name) old) (hr : OldRoles st.ents id old)
    (hc : OldTruth st.ents id (·.codeKey) old)
    (hcode : s ≠ .A1 → new.codeKey = old.codeKey)
    (hex : isCreate = false → ∃ e, mget st.ents id = some e) :
    match specCheck st.ents id isCreate old new with
    | .error e => indexAfter s isCreate st id old new = .error e
    | .ok _ => ∃ st', indexAfter s isCreate st id old new = .ok st' ∧ st'.ents = mput st.ents id new ∧ Inv st' := by
  unfold specCheck indexAfter
  have h1 := uniqAfter_sound (new := new) false isCreate .dupName hinv.name hn
  cases hv1 : uniqViolation st.ents id false .dupName (·.name) (isCreate || old.name != new.name) new.name with
  | some e =>
    simp only [hv1] at h1
    simp only [h1]; rfl
  | none =>
    simp only [hv1] at h1
    obtain ⟨n', hn', hmir, hne⟩ := h1
    have hroles := setAfter_mirror (new := new) hinv.roles hr
    have hname_ne : ∀ j e, mget (mput st.ents id new) j = some e → e.name ≠ 0 := by
      intro j e he
      rw [mget_mput] at he
      by_cases hj : id = j
      · simp only [hj, if_true, Option.some.injEq] at he
        subst he
        by_cases hch : isCreate = true ∨ old.name ≠ new.name
        · exact hne (by first | rfl | trivial) hch
        · have hic : isCreate = false := by cases isCreate <;> simp_all
          have heq : old.name = new.name := by
            apply Classical.byContradiction; intro h; exact hch (Or.inr h)
          obtain ⟨e0, h0⟩ := hex hic
          rcases hn with ⟨e1, h1, hk1⟩ | ⟨h1, _⟩
          · rw [← heq]; simp only at hk1; rw [← hk1]; exact hinv.name_ne _ _ h1
          · rw [h1] at h0; cases h0
      · simp only [hj, if_false] at he
        exact hinv.name_ne _ _ he
    by_cases hs : s = .A1
    · subst hs
      have h2 := uniqAfter_sound (new := new) true isCreate .dupCode hinv.code hc
      cases hv2 : uniqViolation st.ents id true .dupCode (·.codeKey) (isCreate || old.codeKey != new.codeKey) new.codeKey with
      | some e =>
        simp only [hv2] at h2
        simp only [hn', h2]; rfl
      | none =>
        simp only [hv2] at h2
        obtain ⟨c', hc', hmirc, _⟩ := h2
        refine ⟨_, by simp only [hn', hc']; rfl, rfl, ⟨hmir, hroles, hmirc, hname_ne⟩⟩
    · have h2 := uniq_untouched (new := new) isCreate .dupCode hinv.code hc (hcode hs)
      simp only [h2.1]
      have : (match s with
          | .A1 => uniqAfter true isCreate .dupCode st.codeIdx old.codeKey new.codeKey id
          | _ => pure st.codeIdx) = .ok st.codeIdx := by
        cases s <;> first | rfl | exact absurd rfl hs
      refine ⟨_, by simp only [hn']; rfl, rfl, ⟨hmir, hroles, h2.2, hname_ne⟩⟩

/-! ### old values -/

theorem oldTruth_some {ents : Ents} {id : Id} {e : Ent} (key : Ent → Val) (h : mget ents id = some e) :
    OldTruth ents id key e := Or.inl ⟨e, h, rfl⟩

theorem oldTruth_none {ents : Ents} {id : Id} (key : Ent → Val) (old : Ent) (h : mget ents id = none)
    (hk : key old = 0) : OldTruth ents id key old := Or.inr ⟨h, hk⟩

theorem oldRoles_some {ents : Ents} {id : Id} {e : Ent} (h : mget ents id = some e) :
    OldRoles ents id e := Or.inl ⟨e, h, rfl⟩

theorem codeKey_persist (e : Ent) (s : Sel) (p : Payload) (chk chk' : Option Checker) (hs : s ≠ .A1) :
    (persistChild (persistShared e p chk) s p chk').codeKey = e.codeKey := by
  cases s <;> first | rfl | exact absurd rfl hs

/-! ### Create -/

theorem createM_refines (cfg : Cfg) (st : St) (hinv : Inv st) (s : Sel) (id : Id) (p : Payload)
    (hff : cfg.childCreateCapturesOld = true ∨ findingOp st.ents (.create s id p) = false) :
    match specCreate st.ents s id p with
    | .error e => createM cfg st s id p = .error e
    | .ok ents' => ∃ st', createM cfg st s id p = .ok st' ∧ st'.ents = ents' ∧ Inv st' := by
  unfold specCreate createM
  by_cases hid : id = 0
  · simp [hid]
  · simp only [hid, if_false]
    cases hm : mget st.ents id with
    | none =>
      have hpres : isEntityPresent st s id = false := by simp [isEntityPresent, hm]
      simp only [hpres, Option.isSome_none, Bool.false_and, Bool.false_eq_true, if_false, Option.getD_none]
      have hold : (if cfg.childCreateCapturesOld = true then Ent.empty else Ent.empty) = Ent.empty := by
        split <;> rfl
      rw [hold]
      have := indexAfter_sound s true st hinv id Ent.empty
        (persistChild (persistShared Ent.empty p none) s p none)
        (oldTruth_none _ _ hm rfl) (Or.inr ⟨hm, rfl⟩) (oldTruth_none _ _ hm rfl)
        (fun hs => codeKey_persist _ _ _ _ _ hs) (by simp)
      revert this
      cases specCheck st.ents id true Ent.empty (persistChild (persistShared Ent.empty p none) s p none) with
      | error e => exact fun h => h
      | ok u => exact fun h => h
    | some b =>
      simp only [Option.isSome_some, Bool.true_and, Option.getD_some]
      have hpres : isEntityPresent st s id = b.hasChild s := by simp [isEntityPresent, hm]
      rw [hpres]
      by_cases hhc : b.hasChild s = true
      · simp [hhc]
      · simp only [hhc, Bool.false_eq_true, if_false]
        have hcap : cfg.childCreateCapturesOld = true := by
          rcases hff with h | h
          · exact h
          · exfalso
            simp only [findingOp, hm] at h
            have hsc : s.isChildStore = true := by
              cases s
              · simp [Ent.hasChild] at hhc
              · rfl
              · rfl
            have hb : b.hasChild s = false := by simpa using hhc
            simp [hsc, hid, hb] at h
        simp only [hcap, if_true]
        have := indexAfter_sound s true st hinv id b
          (persistChild (persistShared b p none) s p none)
          (oldTruth_some _ hm) (oldRoles_some hm) (oldTruth_some _ hm)
          (fun hs => codeKey_persist _ _ _ _ _ hs) (by simp)
        revert this
        cases specCheck st.ents id true b (persistChild (persistShared b p none) s p none) with
        | error e => exact fun h => h
        | ok u => exact fun h => h

/-! ### Update -/

/-- update through a store for which the entity has data, expressed against the specification -/
theorem updateCore_refines (st : St) (hinv : Inv st) (s : Sel) (id : Id) (e e' : Ent)
    (hm : mget st.ents id = some e) (hcode : s ≠ .A1 → e'.codeKey = e.codeKey) :
    match specCheck st.ents id false e e' with
    | .error err => indexAfter s false st id e e' = .error err
    | .ok _ => ∃ st', indexAfter s false st id e e' = .ok st' ∧ st'.ents = mput st.ents id e' ∧ Inv st' :=
  indexAfter_sound s false st hinv id e e' (oldTruth_some _ hm) (oldRoles_some hm) (oldTruth_some _ hm)
    hcode (fun _ => ⟨e, hm⟩)

theorem updateChildM_refines (st : St) (hinv : Inv st) (s : Sel) (id : Id) (p : Payload) (chk : Option Checker) :
    match specUpdate st.ents s id p chk with
    | .error e => updateChildM st s id p chk = .error e
    | .ok ents' => ∃ st', updateChildM st s id p chk = .ok st' ∧ st'.ents = ents' ∧ Inv st' := by
  unfold specUpdate updateChildM bucketForLoad
  by_cases hid : id = 0
  · simp [hid]
  · simp only [hid, if_false]
    cases hm : mget st.ents id with
    | none => simp
    | some e =>
      simp only
      by_cases hhc : e.hasChild s = true
      · simp only [hhc, if_true, Bool.not_true, Bool.false_eq_true, if_false]
        have := updateCore_refines st hinv s id e (persistChild (persistShared e p chk) s p chk) hm
          (fun hs => codeKey_persist _ _ _ _ _ hs)
        revert this
        cases specCheck st.ents id false e (persistChild (persistShared e p chk) s p chk) with
        | error err => exact fun h => h
        | ok u => exact fun h => h
      · simp only [hhc, Bool.false_eq_true, if_false, Bool.not_false, if_true]
        cases s.isExtended <;> simp [hhc]

/-- delegating to the child store with the stored child field changes nothing but the shared fields -/
theorem persist_delegate_A1 (e : Ent) (p : Payload) (chk : Option Checker) (h : e.hasChild .A1 = true) :
    persistChild (persistShared e { p with child := e.childField .A1 } chk) .A1 { p with child := e.childField .A1 } chk
      = persistShared e p chk := by
  obtain ⟨n, r, c1, c2⟩ := e
  cases c1 with
  | none => simp [Ent.hasChild] at h
  | some c => simp [persistChild, persistShared, Ent.childField]

theorem persist_delegate_A2 (e : Ent) (p : Payload) (chk : Option Checker) (h : e.hasChild .A2 = true) :
    persistChild (persistShared e { p with child := e.childField .A2 } chk) .A2 { p with child := e.childField .A2 } chk
      = persistShared e p chk := by
  obtain ⟨n, r, c1, c2⟩ := e
  cases c2 with
  | none => simp [Ent.hasChild] at h
  | some c => simp [persistChild, persistShared, Ent.childField]

theorem updateM_refines (st : St) (hinv : Inv st) (s : Sel) (id : Id) (p : Payload) (chk : Option Checker) :
    match specUpdate st.ents s id p chk with
    | .error e => updateM st s id p chk = .error e
    | .ok ents' => ∃ st', updateM st s id p chk = .ok st' ∧ st'.ents = ents' ∧ Inv st' := by
  cases s with
  | A1 => exact updateChildM_refines st hinv .A1 id p chk
  | A2 => exact updateChildM_refines st hinv .A2 id p chk
  | A =>
    unfold updateM
    simp only
    cases hm : mget st.ents id with
    | none =>
      have h1 : isEntityPresent st .A1 id = false := by simp [isEntityPresent, hm]
      have h2 : isEntityPresent st .A2 id = false := by simp [isEntityPresent, hm]
      simp only [h1, h2, Bool.false_eq_true, if_false, specUpdate, hm]
      by_cases hid : id = 0 <;> simp [hid]
    | some e =>
      have hA : e.hasChild .A = true := rfl
      by_cases h1 : e.hasChild .A1 = true
      · have hp1 : isEntityPresent st .A1 id = true := by simp [isEntityPresent, hm, h1]
        have hf : findById st .A1 id = some (e.name, e.roles, e.childField .A1) := by
          simp [findById, bucketForLoad, hm, h1]
        simp only [hp1, if_true, hf]
        have := updateChildM_refines st hinv .A1 id { p with child := e.childField .A1 } chk
        have heq : specUpdate st.ents .A1 id { p with child := e.childField .A1 } chk = specUpdate st.ents .A id p chk := by
          unfold specUpdate
          by_cases hid : id = 0
          · simp [hid]
          · simp only [hid, if_false, hm, h1, hA, Bool.not_true, Bool.false_eq_true, persist_delegate_A1 e p chk h1]
            rfl
        rw [heq] at this
        exact this
      · have hp1 : isEntityPresent st .A1 id = false := by simp [isEntityPresent, hm, h1]
        simp only [hp1, Bool.false_eq_true, if_false]
        by_cases h2 : e.hasChild .A2 = true
        · have hp2 : isEntityPresent st .A2 id = true := by simp [isEntityPresent, hm, h2]
          have hf : findById st .A2 id = some (e.name, e.roles, e.childField .A2) := by
            simp [findById, bucketForLoad, hm, h2]
          simp only [hp2, if_true, hf]
          have := updateChildM_refines st hinv .A2 id { p with child := e.childField .A2 } chk
          have heq : specUpdate st.ents .A2 id { p with child := e.childField .A2 } chk = specUpdate st.ents .A id p chk := by
            unfold specUpdate
            by_cases hid : id = 0
            · simp [hid]
            · simp only [hid, if_false, hm, h2, hA, Bool.not_true, Bool.false_eq_true, persist_delegate_A2 e p chk h2]
              rfl
          rw [heq] at this
          exact this
        · have hp2 : isEntityPresent st .A2 id = false := by simp [isEntityPresent, hm, h2]
          simp only [hp2, Bool.false_eq_true, if_false, specUpdate]
          by_cases hid : id = 0
          · simp [hid]
          · simp only [hid, if_false, hm, hA, Bool.not_true, Bool.false_eq_true]
            have := updateCore_refines st hinv .A id e (persistShared e p chk) hm (fun _ => rfl)
            rw [show persistChild (persistShared e p chk) .A p chk = persistShared e p chk from rfl]
            revert this
            cases specCheck st.ents id false e (persistShared e p chk) with
            | error err => exact fun h => h
            | ok u => exact fun h => h

/-! ### DeleteById -/

/-- closed form of the fan-out: the child stores' passes and the parent's pass of
    `ProcessBeforeDelete` read the same, still present, entity bucket -/
theorem deleteM_some (st : St) (s : Sel) (id : Id) (e : Ent) (hm : mget st.ents id = some e) :
    ∃ st', deleteM st s id = .ok st' ∧ st'.ents = mdel st.ents id ∧
      (∀ k, mget st'.nameIdx k = if e.name ≠ 0 ∧ e.name = k then none else mget st.nameIdx k) ∧
      (∀ q, q ∈ st'.rolesIdx ↔ q ∈ st.rolesIdx ∧ ¬ (q.2 = id ∧ q.1 ∈ e.roles)) ∧
      (∀ k, mget st'.codeIdx k = if e.codeKey ≠ 0 ∧ e.codeKey = k then none else mget st.codeIdx k) := by
  obtain ⟨n, r, c1, c2⟩ := e
  cases c1 with
  | none =>
    refine ⟨_, by simp only [deleteM, hm]; rfl, ?_, ?_, ?_, ?_⟩
    · simp [processDeleteConstraints, bucketForLoad, hm, indexBeforeDelete, Ent.hasChild, Sel.isExtended]
    · intro k
      simp [processDeleteConstraints, bucketForLoad, hm, indexBeforeDelete, Ent.hasChild, Sel.isExtended]
      grind
    · intro q
      simp [processDeleteConstraints, bucketForLoad, hm, indexBeforeDelete, Ent.hasChild, Sel.isExtended]
    · intro k
      simp [processDeleteConstraints, bucketForLoad, hm, indexBeforeDelete, Ent.hasChild, Sel.isExtended, Ent.codeKey]
  | some c =>
    refine ⟨_, by simp only [deleteM, hm]; rfl, ?_, ?_, ?_, ?_⟩
    · simp [processDeleteConstraints, bucketForLoad, hm, indexBeforeDelete, Ent.hasChild, Sel.isExtended]
    · intro k
      simp [processDeleteConstraints, bucketForLoad, hm, indexBeforeDelete, Ent.hasChild, Sel.isExtended]
      grind
    · intro q
      simp [processDeleteConstraints, bucketForLoad, hm, indexBeforeDelete, Ent.hasChild, Sel.isExtended]
    · intro k
      simp [processDeleteConstraints, bucketForLoad, hm, indexBeforeDelete, Ent.hasChild, Sel.isExtended]

theorem deleteM_refines (st : St) (hinv : Inv st) (s : Sel) (id : Id) :
    match specDelete st.ents id with
    | .error e => deleteM st s id = .error e
    | .ok ents' => ∃ st', deleteM st s id = .ok st' ∧ st'.ents = ents' ∧ Inv st' := by
  unfold specDelete
  cases hm : mget st.ents id with
  | none => simp [deleteM, hm]
  | some e =>
    obtain ⟨st', h1, h2, h3, h4, h5⟩ := deleteM_some st s id e hm
    refine ⟨st', h1, h2, ?_⟩
    constructor
    · rw [h2]; exact umirror_delete hinv.name hm h3
    · rw [h2]; exact smirror_delete hinv.roles hm h4
    · rw [h2]; exact umirror_delete hinv.code hm h5
    · intro j e' he'
      rw [h2, mget_mdel] at he'
      split at he'
      · cases he'
      · exact hinv.name_ne _ _ he'

/-! ### one operation, one transaction, a history -/

theorem stepOp_refines (cfg : Cfg) (st : St) (hinv : Inv st) (op : Op)
    (hff : cfg.childCreateCapturesOld = true ∨ findingOp st.ents op = false) :
    match specOp st.ents op with
    | .error e => stepOp cfg st op = .error e
    | .ok ents' => ∃ st', stepOp cfg st op = .ok st' ∧ st'.ents = ents' ∧ Inv st' := by
  cases op with
  | create s id p => exact createM_refines cfg st hinv s id p hff
  | update s id p chk => exact updateM_refines st hinv s id p chk
  | delete s id => exact deleteM_refines st hinv s id

theorem stepOps_refines (cfg : Cfg) (ops : List Op) (st : St) (hinv : Inv st)
    (hff : cfg.childCreateCapturesOld = true ∨ findingFreeOps st.ents ops = true) :
    match specOps st.ents ops with
    | .error e => stepOps cfg st ops = .error e
    | .ok ents' => ∃ st', stepOps cfg st ops = .ok st' ∧ st'.ents = ents' ∧ Inv st' := by
  induction ops generalizing st with
  | nil => exact ⟨st, rfl, rfl, hinv⟩
  | cons op rest ih =>
    have hop : cfg.childCreateCapturesOld = true ∨ findingOp st.ents op = false := by
      rcases hff with h | h
      · exact Or.inl h
      · simp only [findingFreeOps, Bool.and_eq_true, Bool.not_eq_true'] at h; exact Or.inr h.1
    have h1 := stepOp_refines cfg st hinv op hop
    simp only [specOps, stepOps]
    cases hs : specOp st.ents op with
    | error e =>
      simp only [hs] at h1
      simp only [h1]; rfl
    | ok ents1 =>
      simp only [hs] at h1
      obtain ⟨st1, hst1, hents1, hinv1⟩ := h1
      have hrest : cfg.childCreateCapturesOld = true ∨ findingFreeOps st1.ents rest = true := by
        rcases hff with h | h
        · exact Or.inl h
        · simp only [findingFreeOps, hs, Bool.and_eq_true] at h; rw [hents1]; exact Or.inr h.2
      have h2 := ih st1 hinv1 hrest
      rw [hents1] at h2
      simp only [hst1]
      exact h2

theorem stepTx_refines (cfg : Cfg) (tx : List Op) (st : St) (hinv : Inv st)
    (hff : cfg.childCreateCapturesOld = true ∨ findingFreeOps st.ents tx = true) :
    (stepTx cfg st tx).ents = specTx st.ents tx ∧ Inv (stepTx cfg st tx) := by
  have h := stepOps_refines cfg tx st hinv hff
  unfold stepTx specTx
  cases hs : specOps st.ents tx with
  | error e => simp only [hs] at h; simp [h, hinv]
  | ok ents' =>
    simp only [hs] at h
    obtain ⟨st', h1, h2, h3⟩ := h
    simp [h1, h2, h3]

theorem run_refines (cfg : Cfg) (hist : List (List Op)) (st : St) (hinv : Inv st)
    (hff : cfg.childCreateCapturesOld = true ∨ findingFree st.ents hist = true) :
    (run cfg st hist).ents = specRun st.ents hist ∧ Inv (run cfg st hist) := by
  induction hist generalizing st with
  | nil => exact ⟨rfl, hinv⟩
  | cons tx rest ih =>
    have htx : cfg.childCreateCapturesOld = true ∨ findingFreeOps st.ents tx = true := by
      rcases hff with h | h
      · exact Or.inl h
      · simp only [findingFree, Bool.and_eq_true] at h; exact Or.inr h.1
    obtain ⟨h1, h2⟩ := stepTx_refines cfg tx st hinv htx
    have hrest : cfg.childCreateCapturesOld = true ∨ findingFree (stepTx cfg st tx).ents rest = true := by
      rcases hff with h | h
      · exact Or.inl h
      · simp only [findingFree, Bool.and_eq_true] at h; rw [h1]; exact Or.inr h.2
    have := ih (stepTx cfg st tx) h2 hrest
    simp only [run, specRun, List.foldl_cons] at this ⊢
    rw [h1] at this
    exact this

end StorageModel.C15
