import StorageModel.C15.Model
/-
  C15 — layering DEPTH (round 14): a chain of stores of any length

      store 0 (root "things": `name` unique index, `roles` set index)
        └ store 1 (child of store 0, own `*string` field, own nullable unique index if `idx`)
            └ store 2 (child of store 1, …)            `NewBaseStore{Parent: <a child store>}`
                └ …

  following boltz/store.go, store_crud.go, store_query.go, query_scanners.go, base.go, indexes.go:
  `lv[i]` describes store `i+1` (plain / `.Extended()`, declares an own index or not); store `i+1` is
  registered (`RegisterChildStoreStrategy`, `ChildStoreUpdateHandler`) with store `i`; its `BasePath`
  extends the path of store `i` (`GetEntityBucket` of every store resolves its path from the ROOT entity
  bucket, `getOrCreateEntityBucket` creates every segment on the way — so the data bucket of store `i+1`
  exists only inside the data bucket of store `i`): the data buckets an entity has are a prefix of the
  chain, `fs.length` of them, `fs[i]` = the own field of store `i+1`.
-/
namespace StorageModel.C15.Depth
open StorageModel.C15

structure Level where
  ext : Bool
  idx : Bool
  deriving DecidableEq, Repr

abbrev Chain := List Level

inductive DErr
  | blank | exists_ | notfound | dupName | nonnull
  | dupLevel (i : Nat)       -- UniqueIndexDuplicateError on the own index of store i+1
  deriving DecidableEq, Repr

structure DEnt where
  name : Val
  roles : List Val
  fs : List (Option Val)
  deriving DecidableEq, Repr

def DEnt.empty : DEnt := ⟨0, [], []⟩

/-- the entity handed to Create / Update through store k: shared fields + the own fields of stores 1..k
    (the entity type of store k embeds the entity types above it) -/
structure DPayload where
  name : Val
  roles : List Val
  ch : List (Option Val)
  deriving DecidableEq, Repr

structure DSt where
  ents : Map Id DEnt
  nameIdx : Map Val Id
  rolesIdx : List (Val × Id)
  lidx : List (Map Val Id)
  deriving DecidableEq, Repr

def DSt.init (lv : Chain) : DSt := ⟨[], [], [], lv.map fun _ => []⟩

inductive DOp
  | create (k : Nat) (id : Id) (p : DPayload)
  | update (k : Nat) (id : Id) (p : DPayload) (chk : Option Checker)
  | delete (k : Nat) (id : Id)
  deriving DecidableEq, Repr

/-! ## store.go: buckets and presence -/

def isExt (lv : Chain) : Nat → Bool
  | 0 => false
  | k + 1 => match lv[k]? with | some l => l.ext | none => false

def isIdx (lv : Chain) (i : Nat) : Bool :=
  match lv[i]? with | some l => l.idx | none => false

/-- `GetEntityBucket != nil` of store k for this entity bucket (`entityBucket.GetPath(entityPath…)`) -/
def DEnt.present (e : DEnt) (k : Nat) : Bool := k ≤ e.fs.length

def isPresent (st : DSt) (k : Nat) (id : Id) : Bool :=
  match mget st.ents id with
  | none => false
  | some e => e.present k

/-- `getEntityBucketForLoad` of store k: its own data bucket; an extended store falls back to
    `store.parent.GetEntityBucket` — the OWN data bucket of the store one level up -/
def bucketForLoad (lv : Chain) (st : DSt) (k : Nat) (id : Id) : Option DEnt :=
  match mget st.ents id with
  | none => none
  | some e => if e.present k then some e else if isExt lv k && e.present (k - 1) then some e else none

def DEnt.fieldAt (e : DEnt) (i : Nat) : Option Val := (e.fs[i]?).join

/-- `Eval` of the own symbol of store i+1 (nil bucket / nil / "" all have length 0) -/
def DEnt.keyAt (e : DEnt) (i : Nat) : Val := (e.fieldAt i).getD 0

/-- `FindById` through store k: shared fields and the own fields of stores 1..k -/
def findById (lv : Chain) (st : DSt) (k : Nat) (id : Id) : Option (Val × List Val × List (Option Val)) :=
  (bucketForLoad lv st k id).map fun e => (e.name, e.roles, (List.range k).map e.fieldAt)

/-! ## persisting: strategy of store k writes its field, then calls the strategy one level up with
    `PersistContext.GetParentContext` (bucket of the parent store, same checker, same error holder) -/

/-- `k`: the caller's store (own fields of stores 1..k come from the payload); `m`: data buckets that
    exist afterwards at least (`getOrCreateEntityBucket` of store m on Create, 0 on Update) -/
def persistD (e : DEnt) (k : Nat) (p : DPayload) (chk : Option Checker) (m : Nat) : DEnt :=
  { name := if proceed chk (·.name) then p.name else e.name,
    roles := if proceed chk (·.roles) then canon p.roles else e.roles,
    fs := (List.range (max e.fs.length m)).map fun i =>
      if i < k && proceed chk (·.child) then (p.ch[i]?).join else e.fieldAt i }

/-! ## indexes.go along the chain built by `newIndexingContext` (recursion to the root) -/

def uniqA (nullable isCreate : Bool) (dup : DErr) (idx : Map Val Id) (old new : Val) (id : Id) :
    Except DErr (Map Val Id) :=
  if !isCreate && old == new then .ok idx
  else
    let idx1 := if old = 0 then idx else mdel idx old
    if new = 0 then
      if nullable then .ok idx1 else .error .nonnull
    else if (mget idx1 new).isSome then .error dup
    else .ok (mput idx1 new id)

/-- the own indexes of stores i+1, i+2, … (fuel many), parent first -/
def levelsAfter (lv : Chain) (isCreate : Bool) (id : Id) (old new : DEnt) :
    Nat → Nat → List (Map Val Id) → Except DErr (List (Map Val Id))
  | _, 0, l => .ok l
  | i, f + 1, l =>
    if isIdx lv i then do
      let x ← uniqA true isCreate (.dupLevel i) (l.getD i []) (old.keyAt i) (new.keyAt i) id
      levelsAfter lv isCreate id old new (i + 1) f (l.set i x)
    else levelsAfter lv isCreate id old new (i + 1) f l

/-- `IndexingContext.ProcessAfterUpdate` of the context of store m: root, then stores 1..m; the shared
    error holder turns everything after the first error into a no-op -/
def indexAfterD (lv : Chain) (m : Nat) (isCreate : Bool) (st : DSt) (id : Id) (old new : DEnt) :
    Except DErr DSt := do
  let n ← uniqA false isCreate .dupName st.nameIdx old.name new.name id
  let r := setAfter st.rolesIdx old.roles new.roles id
  let l ← levelsAfter lv isCreate id old new 0 m st.lidx
  pure { ents := mput st.ents id new, nameIdx := n, rolesIdx := r, lidx := l }

def levelsBeforeDelete (lv : Chain) (e : DEnt) : Nat → Nat → List (Map Val Id) → List (Map Val Id)
  | _, 0, l => l
  | i, f + 1, l =>
    if isIdx lv i then levelsBeforeDelete lv e (i + 1) f (l.set i (uniqBeforeDelete (l.getD i []) (e.keyAt i)))
    else levelsBeforeDelete lv e (i + 1) f l

/-- `IndexingContext.ProcessBeforeDelete` of the context of store m -/
def indexBeforeDeleteD (lv : Chain) (m : Nat) (st : DSt) (id : Id) (e : DEnt) : DSt :=
  { st with nameIdx := uniqBeforeDelete st.nameIdx e.name,
            rolesIdx := setBeforeDelete st.rolesIdx e.roles id,
            lidx := levelsBeforeDelete lv e 0 m st.lidx }

/-! ## store_crud.go -/

/-- `BaseStore.Create` through store k -/
def createD (lv : Chain) (st : DSt) (k : Nat) (id : Id) (p : DPayload) : Except DErr DSt :=
  if id = 0 then .error .blank
  else if isPresent st k id then .error .exists_            -- this store's own data bucket only
  else
    -- `parentExists := store.parent != nil && store.parent.IsEntityPresent(…)`: ONE level up
    let parentExists := k != 0 && isPresent st (k - 1) id
    let base := (mget st.ents id).getD DEnt.empty            -- getOrCreateEntityBucket (every segment)
    let new := persistD base k p none k
    -- `indexingContext.Parent.ProcessBeforeUpdate()` only `if parentExists` (it recurses to the root)
    let old := if parentExists then base else DEnt.empty
    indexAfterD lv k true st id old new

/-- `BaseStore.Update` of store k once no child strategy took the update -/
def updateAt (lv : Chain) (st : DSt) (k : Nat) (id : Id) (p : DPayload) (chk : Option Checker) :
    Except DErr DSt :=
  if id = 0 then .error .blank
  else
    match bucketForLoad lv st k id with                      -- FindById
    | none => .error .notfound
    | some e =>
      if !e.present k then .error .notfound                   -- GetEntityBucket == nil
      else indexAfterD lv k false st id e (persistD e k p chk 0)

/-- the caller's entity as the mapper of store k+1's `ChildStoreUpdateHandler` rebuilds it: the stored
    entity of store k+1 with the fields of the level above replaced by the caller's -/
def DPayload.extend (p : DPayload) (k : Nat) (stored : Option Val) : DPayload :=
  { p with ch := ((List.range k).map fun i => (p.ch[i]?).join) ++ [stored] }

/-- `BaseStore.Update` through store k: `childStoreStrategies` first (the store one level down, if the
    mapper finds data of that store), level by level (fuel = levels left) -/
def updateD (lv : Chain) (st : DSt) : Nat → Nat → Id → DPayload → Option Checker → Except DErr DSt
  | 0, k, id, p, chk => updateAt lv st k id p chk
  | fuel + 1, k, id, p, chk =>
    if k < lv.length && isPresent st (k + 1) id then
      match mget st.ents id with
      | some e => updateD lv st fuel (k + 1) id (p.extend k (e.fieldAt k)) chk
      | none => .error .notfound
    else updateAt lv st k id p chk

/-- `processDeleteConstraints` of store k -/
def processDeleteConstraintsD (lv : Chain) (st : DSt) (k : Nat) (id : Id) : DSt :=
  match bucketForLoad lv st k id with
  | none => st
  | some e => indexBeforeDeleteD lv k st id e

/-- `BaseStore.DeleteById`: every child store hands over to its parent up to the root; the root walks
    ITS `childStoreStrategies` — store 1 only; the stores registered with store 1 are not visited — -/
def deleteD (lv : Chain) (st : DSt) (_k : Nat) (id : Id) : Except DErr DSt :=
  match mget st.ents id with
  | none => .error .notfound
  | some _ =>
    let st1 := if lv.isEmpty then st else processDeleteConstraintsD lv st 1 id
    let st2 := processDeleteConstraintsD lv st1 0 id
    .ok { st2 with ents := mdel st2.ents id }

def stepD (lv : Chain) (st : DSt) : DOp → Except DErr DSt
  | .create k id p => createD lv st k id p
  | .update k id p chk => updateD lv st (lv.length - k) k id p chk
  | .delete k id => deleteD lv st k id

def stepOpsD (lv : Chain) (st : DSt) : List DOp → Except DErr DSt
  | [] => .ok st
  | op :: rest => do
    let st' ← stepD lv st op
    stepOpsD lv st' rest

def stepTxD (lv : Chain) (st : DSt) (tx : List DOp) : DSt :=
  match stepOpsD lv st tx with
  | .ok st' => st'
  | .error _ => st

def runD (lv : Chain) (st : DSt) (hist : List (List DOp)) : DSt := hist.foldl (stepTxD lv) st

/-! ## scanners -/

def DFilter := Filter

def fevalD : Filter → DEnt → Bool
  | .tt, _ => true
  | .nameEq v, e => e.name == v
  | .hasRole r, e => e.roles.contains r

/-- the shared scan loop with the rule `IsChildStore ∧ ¬IsEntityPresent ∧ ¬IsExtended ⇒ skip` -/
def scanLoopD (lv : Chain) (st : DSt) (k : Nat) (f : Filter) : List Id → List Id
  | [] => []
  | id :: rest =>
    if k != 0 && !isPresent st k id && !isExt lv k then scanLoopD lv st k f rest
    else
      match mget st.ents id with
      | some e => if fevalD f e then id :: scanLoopD lv st k f rest else scanLoopD lv st k f rest
      | none => scanLoopD lv st k f rest

def idsInOrderD (st : DSt) : List Id := canon (mkeys st.ents)

def queryIdsD (lv : Chain) (st : DSt) (k : Nat) (f : Filter) : List Id := scanLoopD lv st k f (idsInOrderD st)

def iterateValidIdsD (lv : Chain) (st : DSt) (k : Nat) (f : Filter) : List Id :=
  if isExt lv k then (queryIdsD lv st k f).filter (fun id => isPresent st k id) else queryIdsD lv st k f

def rowLeD (st : DSt) (a b : Id) : Bool :=
  let na := ((mget st.ents a).map (·.name)).getD 0
  let nb := ((mget st.ents b).map (·.name)).getD 0
  na < nb || (na == nb && a ≤ b)

def insRowD (st : DSt) (x : Id) : List Id → List Id
  | [] => [x]
  | y :: t => if rowLeD st x y then x :: y :: t else y :: insRowD st x t

def querySortedD (lv : Chain) (st : DSt) (k : Nat) (f : Filter) : List Id :=
  (queryIdsD lv st k f).foldl (fun acc id => insRowD st id acc) []

/-! ## specification: one table, no routing, no chain, derived indexes -/

abbrev DEnts := Map Id DEnt

def otherHas (ents : DEnts) (id : Id) (q : DEnt → Bool) : Bool :=
  (mkeys ents).any fun j => j != id && (match mget ents j with | some e => q e | none => false)

def specLevels (lv : Chain) (ents : DEnts) (id : Id) (new : DEnt) : Nat → Nat → Except DErr Unit
  | _, 0 => .ok ()
  | i, f + 1 =>
    if isIdx lv i && new.keyAt i != 0 && otherHas ents id (fun e => e.keyAt i == new.keyAt i) then .error (.dupLevel i)
    else specLevels lv ents id new (i + 1) f

/-- constraints on the table: name non-empty and unique; the own field of every level with an index
    unique when set — for the levels the entity has data of -/
def specCheck (lv : Chain) (ents : DEnts) (id : Id) (m : Nat) (new : DEnt) : Except DErr Unit :=
  if new.name = 0 then .error .nonnull
  else if otherHas ents id (fun e => e.name == new.name) then .error .dupName
  else specLevels lv ents id new 0 m

def specCreateD (lv : Chain) (ents : DEnts) (k : Nat) (id : Id) (p : DPayload) : Except DErr DEnts :=
  if id = 0 then .error .blank
  else
    let base := (mget ents id).getD DEnt.empty
    if (mget ents id).isSome && base.present k then .error .exists_
    else
      let new := persistD base k p none k
      match specCheck lv ents id k new with
      | .error e => .error e
      | .ok _ => .ok (mput ents id new)

def specUpdateD (lv : Chain) (ents : DEnts) (k : Nat) (id : Id) (p : DPayload) (chk : Option Checker) :
    Except DErr DEnts :=
  if id = 0 then .error .blank
  else
    match mget ents id with
    | none => .error .notfound
    | some e =>
      if !e.present k then .error .notfound
      else
        let new := persistD e k p chk 0
        match specCheck lv ents id e.fs.length new with
        | .error x => .error x
        | .ok _ => .ok (mput ents id new)

/-- deleting through any store removes the entity: every part of it -/
def specDeleteD (ents : DEnts) (id : Id) : Except DErr DEnts :=
  match mget ents id with
  | none => .error .notfound
  | some _ => .ok (mdel ents id)

def specStepD (lv : Chain) (ents : DEnts) : DOp → Except DErr DEnts
  | .create k id p => specCreateD lv ents k id p
  | .update k id p chk => specUpdateD lv ents k id p chk
  | .delete _ id => specDeleteD ents id

def specOpsD (lv : Chain) (ents : DEnts) : List DOp → Except DErr DEnts
  | [] => .ok ents
  | op :: rest => do
    let e' ← specStepD lv ents op
    specOpsD lv e' rest

def specTxD (lv : Chain) (ents : DEnts) (tx : List DOp) : DEnts :=
  match specOpsD lv ents tx with
  | .ok e' => e'
  | .error _ => ents

/-- the entities store k answers for: every entity (root); entities with data of store k; for a store
    declared extended every entity of the store one level up -/
def owns (lv : Chain) (e : DEnt) : Nat → Bool
  | 0 => true
  | k + 1 => e.present (k + 1) || (isExt lv (k + 1) && owns lv e k)

/-- indexes as images of the table -/
def deriveD (lv : Chain) (ents : DEnts) : DSt :=
  let ids := canon (mkeys ents)
  let get (id : Id) : DEnt := (mget ents id).getD DEnt.empty
  { ents := ents,
    nameIdx := ids.foldl (fun m id => if (get id).name = 0 then m else mput m (get id).name id) [],
    rolesIdx := ids.foldl (fun acc id => (get id).roles.foldl (fun a r => padd a (r, id)) acc) [],
    lidx := (List.range lv.length).map fun i =>
      if isIdx lv i then ids.foldl (fun m id => if (get id).keyAt i = 0 then m else mput m ((get id).keyAt i) id) []
      else [] }

def specFindById (lv : Chain) (ents : DEnts) (k : Nat) (id : Id) : Option (Val × List Val × List (Option Val)) :=
  match mget ents id with
  | none => none
  | some e => if owns lv e k then some (e.name, e.roles, (List.range k).map e.fieldAt) else none

def specQueryIds (lv : Chain) (ents : DEnts) (k : Nat) (f : Filter) (validOnly : Bool) : List Id :=
  (canon (mkeys ents)).filter fun id =>
    match mget ents id with
    | none => false
    | some e => (if validOnly then e.present k else owns lv e k) && fevalD f e

end StorageModel.C15.Depth
