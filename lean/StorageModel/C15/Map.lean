/-
  C15 — association-list maps, pair sets and canonical (sorted, duplicate free) lists.

  A bbolt bucket is modelled as a finite map; everything the model and the proofs need is
  phrased through `mget` (lookup).  Core only.
-/
namespace StorageModel.C15

/-- association-list map (the head binding wins) -/
abbrev Map (K V : Type) := List (K × V)

section map
variable {K V : Type} [DecidableEq K]

def mget : Map K V → K → Option V
  | [], _ => none
  | (k', v) :: t, k => if k' = k then some v else mget t k

def mdel : Map K V → K → Map K V
  | [], _ => []
  | (k', v) :: t, k => if k' = k then mdel t k else (k', v) :: mdel t k

def mput (m : Map K V) (k : K) (v : V) : Map K V := (k, v) :: mdel m k

def mkeys (m : Map K V) : List K := m.map Prod.fst

@[simp] theorem mget_nil (k : K) : mget ([] : Map K V) k = none := rfl

@[simp] theorem mget_mdel (m : Map K V) (k k' : K) :
    mget (mdel m k) k' = if k = k' then none else mget m k' := by
  induction m with
  | nil => simp [mdel, mget]
  | cons p t ih =>
    obtain ⟨a, b⟩ := p
    by_cases h : a = k
    · subst h
      simp only [mdel, if_true, ih, mget]
      by_cases h2 : a = k' <;> simp [h2]
    · simp only [mdel, h, if_false, mget, ih]
      by_cases h2 : a = k'
      · subst h2
        have : ¬ k = a := fun e => h e.symm
        simp [this]
      · simp [h2]

@[simp] theorem mget_mput (m : Map K V) (k k' : K) (v : V) :
    mget (mput m k v) k' = if k = k' then some v else mget m k' := by
  by_cases h : k = k' <;> simp [mput, mget, h]

theorem mem_mkeys (m : Map K V) (k : K) : k ∈ mkeys m ↔ ∃ v, mget m k = some v := by
  induction m with
  | nil => simp [mkeys]
  | cons p t ih =>
    obtain ⟨a, b⟩ := p
    by_cases h : a = k
    · subst h; simp [mkeys, mget]
    · have ih' : k ∈ List.map Prod.fst t ↔ ∃ v, mget t k = some v := ih
      have hne : ¬ k = a := fun e => h e.symm
      simp [mkeys, mget, h, hne, ih']

end map

/-! ### sets of pairs (the set index: value ↦ bucket of ids) -/
section pairs
variable {P : Type} [DecidableEq P]

def padd (l : List P) (p : P) : List P := if p ∈ l then l else p :: l
def prem (l : List P) (p : P) : List P := l.filter (fun q => !(q == p))

@[simp] theorem mem_padd (l : List P) (p q : P) : q ∈ padd l p ↔ q = p ∨ q ∈ l := by
  unfold padd
  by_cases h : p ∈ l
  · simp only [h, if_true]
    constructor
    · exact Or.inr
    · rintro (rfl | h') <;> assumption
  · simp [h]

@[simp] theorem mem_prem (l : List P) (p q : P) : q ∈ prem l p ↔ q ≠ p ∧ q ∈ l := by
  simp [prem, and_comm]

end pairs

/-! ### canonical lists: what a bbolt bucket of keys looks like (sorted, no duplicates) -/

def insSorted (x : Nat) : List Nat → List Nat
  | [] => [x]
  | y :: t => if x < y then x :: y :: t else if x = y then y :: t else y :: insSorted x t

def canon (l : List Nat) : List Nat := l.foldr insSorted []

@[simp] theorem mem_insSorted (x a : Nat) (l : List Nat) : a ∈ insSorted x l ↔ a = x ∨ a ∈ l := by
  induction l with
  | nil => simp [insSorted]
  | cons y t ih =>
    unfold insSorted
    split
    · simp
    · split
      · next h => subst h; simp
      · simp only [List.mem_cons, ih]
        constructor
        · rintro (h | h | h) <;> simp [h]
        · rintro (h | h | h) <;> simp [h]

@[simp] theorem mem_canon (a : Nat) (l : List Nat) : a ∈ canon l ↔ a ∈ l := by
  induction l with
  | nil => simp [canon]
  | cons y t ih =>
    have : canon (y :: t) = insSorted y (canon t) := rfl
    rw [this, mem_insSorted, ih]; simp

end StorageModel.C15
